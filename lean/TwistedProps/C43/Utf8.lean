import TwistedModel.Irc.Split
/-!
C43 helper: UTF-8 decoding inverts the model's UTF-8 encoding (all scalar values).
-/
namespace TwistedProps.C43
open Twisted.Irc.Split

theorem toUInt8_toNat (k : Nat) (h : k < 256) : k.toUInt8.toNat = k := by
  simp; omega

theorem char_lt (x : Char) : x.toNat < 0x110000 := by
  have := x.valid
  rcases this with h | ⟨_, h⟩
  · show x.val.toNat < _; omega
  · show x.val.toNat < _; omega


theorem decodeNat_1 (b0 : UInt8) (rest : List UInt8) (h : b0.toNat < 0x80) :
    decodeNat (b0 :: rest) = (decodeNat rest).map (b0.toNat :: ·) := by
  rcases rest with _ | ⟨b1, _ | ⟨b2, _ | ⟨b3, r⟩⟩⟩ <;> simp [decodeNat, h]

theorem decodeNat_2 (b0 b1 : UInt8) (r : List UInt8) (h1 : ¬ b0.toNat < 0x80) (h2 : b0.toNat < 0xE0) :
    decodeNat (b0 :: b1 :: r) =
      (decodeNat r).map (((b0.toNat - 0xC0) * 64 + (b1.toNat - 0x80)) :: ·) := by
  rcases r with _ | ⟨b2, _ | ⟨b3, r⟩⟩ <;> simp [decodeNat, h1, h2]

theorem decodeNat_3 (b0 b1 b2 : UInt8) (r : List UInt8) (h2 : ¬ b0.toNat < 0xE0) (h3 : b0.toNat < 0xF0) :
    decodeNat (b0 :: b1 :: b2 :: r) =
      (decodeNat r).map (((b0.toNat - 0xE0) * 4096 + (b1.toNat - 0x80) * 64 + (b2.toNat - 0x80)) :: ·) := by
  have h1 : ¬ b0.toNat < 0x80 := by omega
  rcases r with _ | ⟨b3, r⟩ <;> simp [decodeNat, h1, h2, h3]

theorem decodeNat_4 (b0 b1 b2 b3 : UInt8) (r : List UInt8) (h3 : ¬ b0.toNat < 0xF0) :
    decodeNat (b0 :: b1 :: b2 :: b3 :: r) =
      (decodeNat r).map (((b0.toNat - 0xF0) * 262144 + (b1.toNat - 0x80) * 4096 + (b2.toNat - 0x80) * 64
        + (b3.toNat - 0x80)) :: ·) := by
  have h1 : ¬ b0.toNat < 0x80 := by omega
  have h2 : ¬ b0.toNat < 0xE0 := by omega
  simp [decodeNat, h1, h2, h3]

theorem decodeNat_utf8 (c : Char) (rest : List UInt8) :
    decodeNat (utf8 c ++ rest) = (decodeNat rest).map (c.toNat :: ·) := by
  have hmax := char_lt c
  generalize hn : c.toNat = n at hmax
  unfold utf8
  simp only [hn]
  split
  · rename_i h
    simp only [List.cons_append, List.nil_append]
    generalize hb0 : n.toUInt8 = b0
    have e0 : b0.toNat = n := by rw [← hb0]; exact toUInt8_toNat _ (by omega)
    rw [decodeNat_1 _ _ (by omega), e0]
  · split
    · simp only [List.cons_append, List.nil_append]
      generalize hb0 : (0xC0 + n / 64).toUInt8 = b0
      generalize hb1 : (0x80 + n % 64).toUInt8 = b1
      have e0 : b0.toNat = 0xC0 + n / 64 := by rw [← hb0]; exact toUInt8_toNat _ (by omega)
      have e1 : b1.toNat = 0x80 + n % 64 := by rw [← hb1]; exact toUInt8_toNat _ (by omega)
      rw [decodeNat_2 _ _ _ (by omega) (by omega), e0, e1]
      have : (0xC0 + n / 64 - 0xC0) * 64 + (0x80 + n % 64 - 0x80) = n := by omega
      rw [this]
    · split
      · simp only [List.cons_append, List.nil_append]
        generalize hb0 : (0xE0 + n / 4096).toUInt8 = b0
        generalize hb1 : (0x80 + n / 64 % 64).toUInt8 = b1
        generalize hb2 : (0x80 + n % 64).toUInt8 = b2
        have e0 : b0.toNat = 0xE0 + n / 4096 := by rw [← hb0]; exact toUInt8_toNat _ (by omega)
        have e1 : b1.toNat = 0x80 + n / 64 % 64 := by rw [← hb1]; exact toUInt8_toNat _ (by omega)
        have e2 : b2.toNat = 0x80 + n % 64 := by rw [← hb2]; exact toUInt8_toNat _ (by omega)
        rw [decodeNat_3 _ _ _ _ (by omega) (by omega), e0, e1, e2]
        have : (0xE0 + n / 4096 - 0xE0) * 4096 + (0x80 + n / 64 % 64 - 0x80) * 64 + (0x80 + n % 64 - 0x80) = n := by omega
        rw [this]
      · simp only [List.cons_append, List.nil_append]
        generalize hb0 : (0xF0 + n / 262144).toUInt8 = b0
        generalize hb1 : (0x80 + n / 4096 % 64).toUInt8 = b1
        generalize hb2 : (0x80 + n / 64 % 64).toUInt8 = b2
        generalize hb3 : (0x80 + n % 64).toUInt8 = b3
        have e0 : b0.toNat = 0xF0 + n / 262144 := by rw [← hb0]; exact toUInt8_toNat _ (by omega)
        have e1 : b1.toNat = 0x80 + n / 4096 % 64 := by rw [← hb1]; exact toUInt8_toNat _ (by omega)
        have e2 : b2.toNat = 0x80 + n / 64 % 64 := by rw [← hb2]; exact toUInt8_toNat _ (by omega)
        have e3 : b3.toNat = 0x80 + n % 64 := by rw [← hb3]; exact toUInt8_toNat _ (by omega)
        rw [decodeNat_4 _ _ _ _ _ (by omega), e0, e1, e2, e3]
        have : (0xF0 + n / 262144 - 0xF0) * 262144 + (0x80 + n / 4096 % 64 - 0x80) * 4096
            + (0x80 + n / 64 % 64 - 0x80) * 64 + (0x80 + n % 64 - 0x80) = n := by omega
        rw [this]

/-- UTF-8 decoding inverts encoding: the receiver recovers exactly the code points sent. -/
theorem decode_encode (s : Text) : decodeNat (encode s) = some (s.map Char.toNat) := by
  induction s with
  | nil => simp [encode, decodeNat]
  | cons c s ih =>
    have : encode (c :: s) = utf8 c ++ encode s := by simp [encode]
    rw [this, decodeNat_utf8, ih]; simp

example : decodeNat (encode "aé€😀".toList) = some [97, 233, 8364, 128512] := by decide

end TwistedProps.C43
