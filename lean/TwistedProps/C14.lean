import TwistedProps.C14.Invariants
import TwistedProps.C14.Mono
import TwistedProps.C14.Delivery
import TwistedProps.C14.HalfClose
import TwistedProps.C14.CloseLive
import TwistedProps.C14.Gen
import TwistedProps.C14.Py
/-!
C14 — transport write buffering delivers bytes exactly once and honours producers.

Statement (fixed): for any sequence of write, writeSequence, producer registration (streaming or not),
pause/resume, loseConnection and loseWriteConnection calls, and any pattern of partial acceptance by the
operating system, the bytes handed to the operating system are exactly the bytes written while connected, in
order, each once.  The connection is closed only after everything written before loseConnection was handed
over (and not while a non-streaming producer is registered), and a streaming producer is paused whenever
buffered data exceeds the buffer size and resumed once the buffer drains.

Shape of the proof.  `Core` (buffer/ghost consistency `Buf`, the pause invariant `Paused`, the flag invariant
`Flag`) and `W` (pending ⇒ in the writer set) are state invariants.  Every transport operation preserves them
*provided the producer callbacks do* (`Pres`, `Good` — the callbacks are an arbitrary function argument `cb`);
`cbAt d` (scripts of re-entrant transport calls, `d` levels deep) satisfies that contract by induction on `d`;
histories by induction on the list of operations (`C14/Invariants.lean`).  `C14/Mono.lean`: what no operation
ever undoes (the accepted stream and the log only grow, a shut write side stays shut and accepts nothing).
`C14/Delivery.lean`: the drain point of any schedule of positive OS answers and what `doWrite` does there.
`C14/HalfClose.lean`: a non-streaming producer on a half-closed transport was registered after the half-close.
`C14/CloseLive.lean`: after `loseConnection`, with no producer registered, the descriptor is in the writer set.
The headline theorems below (`stream_integrity`, `eventual_delivery`, `close_only_after_flush`,
`streaming_producer_paused_when_over_bufferSize`, `resumed_when_drained`, `writer_registered_when_pending`,
`progress`) quantify over every history, every OS answer, every producer behaviour of the script grammar, every
nesting depth, every `SEND_LIMIT` / `bufferSize`.

The model follows the repaired `FileDescriptor.registerProducer` (it applies `_maybePauseProducer`); on the
unrepaired tree `write(b"x"); registerProducer(p, True)` with `bufferSize = 0` falsified the pause clause.

Python-level arguments (`TwistedModel/Transport/FDPy.lean`, `C14/Py.lean`): `writeSequence` is given an arbitrary
iterable (list / tuple, other collection, one-shot iterator or generator) and `registerProducer` a `bool` or `int`
flag; `writeSequencePy_eq` / `applyPy_eq` / `reachPy_eq` show that the code as it is does with them what the model
does with the elements / the truth value, so every theorem below holds for histories of Python-level operations too
(`stream_integrity_py`, `close_only_after_flush_py`).  Before the repair of `writeSequence` (no `list(iovec)`) a
one-shot iterable lost every byte: `writeSequencePyOld_counterexample`.

`gen_*`: the predicate `_isSendBufferFull` is regenerated from abstract.py on every run (`Generated.FD`,
harness/py2lean.py) and proved equal to the model's `isSendBufferFull` (`TwistedProps/C14/Gen.lean`).
-/
open Twisted.Transport.FD
namespace TwistedProps.C14

/-! ## The property

`reach d sl bs ps ops` is the transport after the history `ops` (writes, writeSequences, producer
registrations, closes, half-closes, writability events with the OS answer chosen by the adversary,
connection drops), with `SEND_LIMIT = sl`, `bufferSize = bs`, producers behaving as `ps`, callbacks
re-entering the transport up to `d` levels deep.  All of these are universally quantified. -/

def reach (d sl bs : Nat) (ps : List Producer) (ops : List Op) : St := run (cbAt d) ops (init sl bs ps)

/-- **Exactly once, in order.** Bytes handed to the OS, followed by the bytes still buffered, are exactly
the bytes accepted by `write`/`writeSequence` (those issued while connected and before the write side
was shut) — nothing lost, duplicated or reordered, whatever the OS accepted each time. -/
theorem stream_integrity (d sl bs : Nat) (ps : List Producer) (ops : List Op) :
    (reach d sl bs ps ops).sent ++ (reach d sl bs ps ops).unsent = (reach d sl bs ps ops).acc :=
  (core_reachable d sl bs ps ops).buf.stream

theorem sent_is_prefix (d sl bs : Nat) (ps : List Producer) (ops : List Op) :
    (reach d sl bs ps ops).sent <+: (reach d sl bs ps ops).acc :=
  ⟨_, stream_integrity d sl bs ps ops⟩

theorem exactly_once_when_drained (d sl bs : Nat) (ps : List Producer) (ops : List Op)
    (h : (reach d sl bs ps ops).unsent = []) :
    (reach d sl bs ps ops).sent = (reach d sl bs ps ops).acc := by
  have := stream_integrity d sl bs ps ops
  rwa [h, List.append_nil] at this

/-- what `doWrite` offers to `writeSomeData` is always the next pending bytes of the stream -/
theorem offered_is_next_pending (s : St) :
    (merge s).dataBuffer.drop (merge s).offset <+: s.unsent := by
  rw [← unsent_merge s]
  exact ⟨_, rfl⟩

/-- a write on a dead or half-closed transport is dropped entirely -/
theorem write_dropped (cb : Cb) (d : Bytes) (s : St) (h : s.connected = false ∨ s.writeDisconnected = true) :
    write cb d s = s := by
  rw [write_eq]; rcases h with h | h <;> simp [h]

/-- otherwise its bytes join the stream: exactly `d` is appended when no callback runs (no producer registered); the
general case is `write_accepted_with_callbacks` -/
theorem write_accepted (cb : Cb) (d : Bytes) (s : St) (hc : s.connected = true) (hw : s.writeDisconnected = false)
    (hp : s.producer = none) : (write cb d s).acc = s.acc ++ d := by
  rw [write_eq]
  by_cases hd : d = []
  · simp [hd, hc, hw]
  · have : d.isEmpty = false := by simpa using hd
    simp [hc, hw, this, maybePauseProducer, appendSt, hp, startWriting, St.acc]

/-- … also when callbacks run: `write` on an open transport appends exactly `d` to the accepted stream and then,
if a streaming producer has to be paused, runs its `pauseProducing`, whose own re-entrant writes (`rest`) come
after `d`.  For any callbacks that only ever extend the stream (`MonoCb`; `cbAt d` does, `mono_cbAt`). -/
theorem write_accepted_with_callbacks (cb : Cb) (hcb : MonoCb cb) (d : Bytes) (s : St) (hc : s.connected = true)
    (hw : s.writeDisconnected = false) : ∃ rest, (write cb d s).acc = s.acc ++ d ++ rest := by
  rw [write_eq]
  by_cases hd : d = []
  · exact ⟨[], by simp [hd, hc, hw]⟩
  · have : d.isEmpty = false := by simpa using hd
    simp only [hc, hw, this, Bool.not_true, Bool.or_self, Bool.false_eq_true, if_false]
    obtain ⟨l, hl⟩ := (mono_maybePause hcb (appendSt s [d])).acc
    refine ⟨l.reverse.flatten, ?_⟩
    show (maybePauseProducer cb (appendSt s [d])).accChunks.reverse.flatten = _
    rw [hl]
    simp [appendSt, St.acc]

theorem writeSeq_accepted_with_callbacks (cb : Cb) (hcb : MonoCb cb) (ds : List Bytes) (s : St)
    (hc : s.connected = true) (hw : s.writeDisconnected = false) :
    ∃ rest, (writeSeq cb ds s).acc = s.acc ++ ds.flatten ++ rest := by
  rw [writeSeq_eq]
  by_cases hd : ds = []
  · exact ⟨[], by simp [hd, hc, hw]⟩
  · have : ds.isEmpty = false := by simpa using hd
    simp only [hc, hw, this, Bool.not_true, Bool.or_self, Bool.false_eq_true, if_false]
    obtain ⟨l, hl⟩ := (mono_maybePause hcb (appendSt s ds)).acc
    refine ⟨l.reverse.flatten, ?_⟩
    show (maybePauseProducer cb (appendSt s ds)).accChunks.reverse.flatten = _
    rw [hl]
    simp [appendSt, St.acc]

/-- the same in a history: a `write(d)` on an open transport, whatever the producers do in their callbacks -/
theorem write_accepted_in_history (d sl bs : Nat) (ps : List Producer) (ops : List Op) (data : Bytes)
    (hc : (reach d sl bs ps ops).connected = true) (hw : (reach d sl bs ps ops).writeDisconnected = false) :
    ∃ rest, (reach d sl bs ps (ops ++ [.write data])).acc = (reach d sl bs ps ops).acc ++ data ++ rest := by
  have : reach d sl bs ps (ops ++ [.write data]) = write (cbAt d) data (reach d sl bs ps ops) := by
    simp [reach, run, List.foldl_append, applyOp]
  rw [this]
  exact write_accepted_with_callbacks _ (mono_cbAt d) _ _ hc hw

/-- the accepted stream only ever grows: what a later history accepts is appended -/
theorem accepted_only_grows (d sl bs : Nat) (ps : List Producer) (ops ops' : List Op) :
    (reach d sl bs ps ops).acc <+: (reach d sl bs ps (ops ++ ops')).acc := by
  have : reach d sl bs ps (ops ++ ops') = run (cbAt d) ops' (reach d sl bs ps ops) := run_append _ _ _ _
  rw [this]
  obtain ⟨l, hl⟩ := (mono_run (mono_cbAt d) ops' (reach d sl bs ps ops)).acc
  exact ⟨l.reverse.flatten, by simp [St.acc, hl]⟩

/-- **No stuck data.** Pending bytes on a connected transport keep it in the reactor's writer set … -/
theorem writer_registered_when_pending (d sl bs : Nat) (ps : List Producer) (ops : List Op)
    (hc : (reach d sl bs ps ops).connected = true) (hp : (reach d sl bs ps ops).unsent ≠ []) :
    (reach d sl bs ps ops).writer = true :=
  (wi_reachable d sl bs ps ops).w hc hp

/-- … and the writability event then offers the OS a non-empty buffer (so an OS that accepts at least one
byte makes progress).  Needs `0 < SEND_LIMIT`: with `SEND_LIMIT = 0` the merge step never runs. -/
theorem progress (d sl bs : Nat) (ps : List Producer) (ops : List Op) (hsl : 0 < sl)
    (hp : (reach d sl bs ps ops).unsent ≠ []) :
    (merge (reach d sl bs ps ops)).dataBuffer.drop (merge (reach d sl bs ps ops)).offset ≠ [] := by
  have hsl' : (reach d sl bs ps ops).sendLimit = sl := sl_run (sl_cbAt d) ops _
  have hcore := core_reachable d sl bs ps ops
  change Core (reach d sl bs ps ops) at hcore
  revert hp hsl' hcore
  generalize reach d sl bs ps ops = s
  intro hp hsl' hcore
  unfold merge
  split
  · simpa [St.unsent] using hp
  next hc =>
    simp only [List.length_drop, ne_eq, ← List.length_eq_zero_iff]
    omega


/-- **Eventual delivery.**  Take any state reachable by any history, with the connection open and bytes
pending, `0 < SEND_LIMIT`, and any schedule `σ` of OS answers in which every `writeSomeData` call takes at least
one byte of a non-empty offer (`Pos`).  Then there is `j`, `1 ≤ j ≤ (pending bytes)`, such that

* during the first `j - 1` writability events the connection stays open and no callback runs (nothing is
  accepted), and
* after the `j`-th one the transport is `Settled`: **every byte accepted so far has been handed to the OS, in
  order, exactly once** (`sent = acc` of the starting state); and then, exactly as `doWrite` orders it: a
  producer that must be resumed (non-streaming, or streaming and paused) is resumed — on a still open connection
  with nothing pending; otherwise, **if `loseConnection` had been requested the connection is closed cleanly**
  (`connectionLost(ConnectionDone)` with nothing pending and no pull producer — and *only* then: otherwise it is
  still open, the buffer is empty, and a requested half-close has been carried out).

Bytes the resumed producer writes in its callback start a new round: the state after the `j` events is again a
reachable state (`ops ++ driveOps σ j`), to which this theorem applies. -/
theorem eventual_delivery (d sl bs : Nat) (ps : List Producer) (ops : List Op) (hsl : 0 < sl)
    (σ : Nat → Accept) (hσ : ∀ i, Pos (σ i))
    (hc : (reach d sl bs ps ops).connected = true) (hp : (reach d sl bs ps ops).unsent ≠ []) :
    ∃ j, 0 < j ∧ j ≤ (reach d sl bs ps ops).unsent.length ∧
      (∀ i, i < j → (reach d sl bs ps (ops ++ driveOps σ i)).connected = true ∧
        (reach d sl bs ps (ops ++ driveOps σ i)).acc = (reach d sl bs ps ops).acc) ∧
      Settled (cbAt d) (reach d sl bs ps ops) (reach d sl bs ps (ops ++ driveOps σ j)) := by
  have hsl' : (reach d sl bs ps ops).sendLimit = sl := sl_run (sl_cbAt d) ops _
  have hw := writer_registered_when_pending d sl bs ps ops hc hp
  obtain ⟨j, h0, hj, hall, hset⟩ := delivery (s := reach d sl bs ps ops) (pres_cbAt d) (mono_cbAt d) (sc_cbAt d)
    (core_reachable d sl bs ps ops) hc hw (by rw [hsl']; exact hsl) σ hσ
  have hlen : 0 < (reach d sl bs ps ops).unsent.length := List.length_pos_iff.mpr hp
  refine ⟨j, h0, by omega, ?_, ?_⟩
  · intro i hi
    have : reach d sl bs ps (ops ++ driveOps σ i) = run (cbAt d) (driveOps σ i) (reach d sl bs ps ops) :=
      run_append _ _ _ _
    rw [this]; exact hall i hi
  · have : reach d sl bs ps (ops ++ driveOps σ j) = run (cbAt d) (driveOps σ j) (reach d sl bs ps ops) :=
      run_append _ _ _ _
    rw [this]; exact hset

/-- with nothing pending, one writability event settles a descriptor that is in the writer set (this is how a
`loseConnection` / `loseWriteConnection` on an idle transport, or an `unregisterProducer` after `loseConnection`,
takes effect) -/
theorem eventual_close_when_idle (d sl bs : Nat) (ps : List Producer) (ops : List Op) (hsl : 0 < sl) (a : Accept)
    (ha : Pos a) (hc : (reach d sl bs ps ops).connected = true) (hw : (reach d sl bs ps ops).writer = true)
    (hp : (reach d sl bs ps ops).unsent = []) :
    Settled (cbAt d) (reach d sl bs ps ops) (reach d sl bs ps (ops ++ [.tick a])) := by
  have hsl' : (reach d sl bs ps ops).sendLimit = sl := sl_run (sl_cbAt d) ops _
  obtain ⟨j, h0, hj, _, hset⟩ := delivery (s := reach d sl bs ps ops) (pres_cbAt d) (mono_cbAt d) (sc_cbAt d)
    (core_reachable d sl bs ps ops) hc hw (by rw [hsl']; exact hsl) (fun _ => a) (fun _ => ha)
  have hj1 : j = 1 := by rw [hp] at hj; simp at hj; omega
  subst hj1
  have : reach d sl bs ps (ops ++ [.tick a]) = run (cbAt d) (driveOps (fun _ => a) 1) (reach d sl bs ps ops) :=
    run_append _ _ _ _
  rw [this]; exact hset

/-- **Eventual delivery, no producer registered** (then no callback can run and the statement is end-to-end):
after at most (pending bytes) writability events with positive OS answers, the bytes handed to the OS are exactly
the bytes accepted, nothing is pending, and the connection is closed cleanly if and only if `loseConnection` had
been requested. -/
theorem eventual_delivery_no_producer (d sl bs : Nat) (ps : List Producer) (ops : List Op) (hsl : 0 < sl)
    (σ : Nat → Accept) (hσ : ∀ i, Pos (σ i))
    (hc : (reach d sl bs ps ops).connected = true) (hp : (reach d sl bs ps ops).unsent ≠ [])
    (hnp : (reach d sl bs ps ops).producer = none) :
    ∃ j, 0 < j ∧ j ≤ (reach d sl bs ps ops).unsent.length ∧
      (reach d sl bs ps (ops ++ driveOps σ j)).sent = (reach d sl bs ps (ops ++ driveOps σ j)).acc ∧
      (reach d sl bs ps (ops ++ driveOps σ j)).acc = (reach d sl bs ps ops).acc ∧
      (reach d sl bs ps (ops ++ driveOps σ j)).unsent = [] ∧
      ((reach d sl bs ps ops).disconnecting = true →
        (reach d sl bs ps (ops ++ driveOps σ j)).connected = false ∧
        ∃ wd late, Ev.lost .done 0 false wd late ∈ (reach d sl bs ps (ops ++ driveOps σ j)).log) ∧
      ((reach d sl bs ps ops).disconnecting = false →
        (reach d sl bs ps (ops ++ driveOps σ j)).connected = true) := by
  obtain ⟨j, h0, hj, _, hset⟩ := eventual_delivery d sl bs ps ops hsl σ hσ hc hp
  have hn : needsResume (reach d sl bs ps ops) = false := by simp [needsResume, hnp]
  have hstream := stream_integrity d sl bs ps (ops ++ driveOps σ j)
  refine ⟨j, h0, hj, ?_⟩
  cases hd : (reach d sl bs ps ops).disconnecting with
  | true =>
    obtain ⟨h1, h2, h3⟩ := hset.closed hn hd
    have hu : (reach d sl bs ps (ops ++ driveOps σ j)).unsent = [] := by
      rw [hset.sent, h2] at hstream
      exact List.append_right_eq_self.mp hstream
    exact ⟨by rw [hset.sent, h2], h2, hu, fun _ => ⟨h1, h3⟩, fun h => by simp at h⟩
  | false =>
    obtain ⟨h1, h2, h3, _⟩ := hset.stays hn hd
    exact ⟨by rw [hset.sent, h2], h2, h3, fun h => by simp at h, fun _ => h1⟩

/-- **No stuck close.** On an open connection on which `loseConnection` has been called and no producer is
registered, the descriptor is in the reactor's writer set (whether or not bytes are pending) … -/
theorem writer_registered_when_closing (d sl bs : Nat) (ps : List Producer) (ops : List Op)
    (hc : (reach d sl bs ps ops).connected = true) (hd : (reach d sl bs ps ops).disconnecting = true)
    (hnp : (reach d sl bs ps ops).producer = none) : (reach d sl bs ps ops).writer = true :=
  cl_reachable d sl bs ps ops hc hd hnp

/-- … so **the requested close happens**: in any reachable state of an open connection on which `loseConnection`
has been called and no producer is registered, under any schedule of positive OS answers, after `j` writability
events, `1 ≤ j ≤ max 1 (pending bytes)`, everything accepted has been handed to the OS (exactly once, in order)
and the connection is closed cleanly — and it is open until then. -/
theorem eventual_close (d sl bs : Nat) (ps : List Producer) (ops : List Op) (hsl : 0 < sl)
    (σ : Nat → Accept) (hσ : ∀ i, Pos (σ i))
    (hc : (reach d sl bs ps ops).connected = true) (hd : (reach d sl bs ps ops).disconnecting = true)
    (hnp : (reach d sl bs ps ops).producer = none) :
    ∃ j, 0 < j ∧ j ≤ max 1 (reach d sl bs ps ops).unsent.length ∧
      (∀ i, i < j → (reach d sl bs ps (ops ++ driveOps σ i)).connected = true) ∧
      (reach d sl bs ps (ops ++ driveOps σ j)).connected = false ∧
      (reach d sl bs ps (ops ++ driveOps σ j)).sent = (reach d sl bs ps (ops ++ driveOps σ j)).acc ∧
      (reach d sl bs ps (ops ++ driveOps σ j)).acc = (reach d sl bs ps ops).acc ∧
      ∃ wd late, Ev.lost .done 0 false wd late ∈ (reach d sl bs ps (ops ++ driveOps σ j)).log := by
  have hsl' : (reach d sl bs ps ops).sendLimit = sl := sl_run (sl_cbAt d) ops _
  have hw := writer_registered_when_closing d sl bs ps ops hc hd hnp
  obtain ⟨j, h0, hj, hall, hset⟩ := delivery (s := reach d sl bs ps ops) (pres_cbAt d) (mono_cbAt d) (sc_cbAt d)
    (core_reachable d sl bs ps ops) hc hw (by rw [hsl']; exact hsl) σ hσ
  have hn : needsResume (reach d sl bs ps ops) = false := by simp [needsResume, hnp]
  have e : ∀ i, reach d sl bs ps (ops ++ driveOps σ i) = run (cbAt d) (driveOps σ i) (reach d sl bs ps ops) :=
    fun i => run_append _ _ _ _
  obtain ⟨h1, h2, h3⟩ := hset.closed hn hd
  refine ⟨j, h0, hj, fun i hi => by rw [e]; exact (hall i hi).1, ?_⟩
  rw [e]
  exact ⟨h1, by rw [hset.sent, h2], h2, h3⟩

/-- **Close only after flush.** Every clean close (`connectionLost(ConnectionDone)`, whether `doWrite` returned
`CONNECTION_DONE` or `loseConnection` found the write side already shut) in any history happens with
*nothing* pending — every byte accepted so far, in particular everything written before `loseConnection`, has
been handed to the OS — and not while a non-streaming producer is registered, with no exception for producers
that could have had anything to deliver: if a non-streaming producer is registered at that moment then the write
side had been shut (`wd`) *before that producer was registered* (`late`), so every `write` it ever made was
dropped (`write_dropped`, `half_closed_is_final`) — it never was a producer of this transport's stream; Twisted
stops it (`stopProducing`).  A producer registered before the half-close keeps the write side open
(`half_close_waits_for_producer`) and the connection open (`Settled.resumed`).
The `pending`/`pull`/`wd`/`late` payload of the event is the model's reading of the state at that moment (`lostEv`). -/
theorem close_only_after_flush (d sl bs : Nat) (ps : List Producer) (ops : List Op)
    (pending : Nat) (pullProducer wd late : Bool)
    (h : Ev.lost .done pending pullProducer wd late ∈ (reach d sl bs ps ops).log) :
    pending = 0 ∧ (pullProducer = true → wd = true ∧ late = true) := by
  obtain ⟨h0, h1⟩ := (core_reachable d sl bs ps ops).buf.closes _ h
  exact ⟨h0, fun hp => ⟨h1 hp, (li_reachable d sl bs ps ops).log _ h hp (h1 hp)⟩⟩

/-- the state form of the same fact: in every reachable state, a non-streaming producer registered on a
transport whose write side is shut was registered after the shut -/
theorem pull_producer_on_half_closed_registered_late (d sl bs : Nat) (ps : List Producer) (ops : List Op)
    (hw : (reach d sl bs ps ops).writeDisconnected = true) (hp : (reach d sl bs ps ops).producer.isSome = true)
    (hs : (reach d sl bs ps ops).streaming = false) : (reach d sl bs ps ops).regShut = true :=
  (li_reachable d sl bs ps ops).late hw hp hs

/-- `doWrite` shuts the write side only when no producer has to be resumed first: with a producer that must be
resumed — every non-streaming producer (`needsResume_of_pull`), a paused streaming one — the drained branch of
`doWrite` does exactly that and nothing else (no half-close, no close: it returns `None`) -/
theorem half_close_waits_for_producer (cb : Cb) (t : St) (pid : Nat) (hp : t.producer = some pid)
    (hn : needsResume t = true) : drained cb t = (cb pid .resume (resumeSt t pid), Ret.none) := by
  rw [drained_eq, if_pos hn,
    callProducer_eq cb (k := .resume) (s := { drainedBase t with producerPaused := false }) (pid := pid) hp, callPid_eq]
  rfl

theorem needsResume_of_pull (t : St) (hp : t.producer.isSome = true) (hs : t.streaming = false) :
    needsResume t = true := by
  simp [needsResume, hp, hs]

/-- when the write side is shut nothing is pending: everything accepted has been handed to the OS -/
theorem half_closed_nothing_pending (d sl bs : Nat) (ps : List Producer) (ops : List Op)
    (hw : (reach d sl bs ps ops).writeDisconnected = true) :
    (reach d sl bs ps ops).unsent = [] ∧ (reach d sl bs ps ops).sent = (reach d sl bs ps ops).acc := by
  have hu := unsent_nil_of_wd (core_reachable d sl bs ps ops).buf hw
  exact ⟨hu, exactly_once_when_drained d sl bs ps ops hu⟩

/-- … and it stays that way: the shut is permanent and no later operation (of the history or of any producer
callback) gets another byte accepted -/
theorem half_closed_is_final (d sl bs : Nat) (ps : List Producer) (ops ops' : List Op)
    (hw : (reach d sl bs ps ops).writeDisconnected = true) :
    (reach d sl bs ps (ops ++ ops')).writeDisconnected = true ∧
      (reach d sl bs ps (ops ++ ops')).acc = (reach d sl bs ps ops).acc := by
  have : reach d sl bs ps (ops ++ ops') = run (cbAt d) ops' (reach d sl bs ps ops) := run_append _ _ _ _
  rw [this]
  have hm := mono_run (mono_cbAt d) ops' (reach d sl bs ps ops)
  exact ⟨hm.wd hw, by simp only [St.acc, hm.frozen (Or.inr hw)]⟩

theorem drained_done (cb : Cb) (s : St) (h : (drained cb s).2 = .done) : s.disconnecting = true := by
  unfold drained at h
  simp only at h
  split at h
  · cases h
  · split at h
    next hd => exact hd
    · split at h <;> cases h

/-- `doWrite` asks the reactor to close only if `loseConnection` had been called (`disconnecting` is set
nowhere else) -/
theorem doWrite_done_disconnecting (cb : Cb) (a : Accept) (s : St) (h : (doWrite cb a s).2 = .done) :
    s.disconnecting = true := by
  have hm : (merge s).disconnecting = s.disconnecting := by unfold merge; split <;> rfl
  rw [doWrite_eq] at h
  split at h
  · cases h
  · split at h
    · have := drained_done _ _ h; rw [← hm]; exact this
    · cases h

/-- **Paused when over `bufferSize`.** In every reachable state: a registered streaming producer of a
connected transport with more than `bufferSize` bytes pending has been told to pause (its last callback
since it registered is `pauseProducing`). -/
theorem streaming_producer_paused_when_over_bufferSize (d sl bs : Nat) (ps : List Producer) (ops : List Op)
    (hc : (reach d sl bs ps ops).connected = true) (hp : (reach d sl bs ps ops).producer.isSome)
    (hs : (reach d sl bs ps ops).streaming = true)
    (hover : (reach d sl bs ps ops).bufferSize < (reach d sl bs ps ops).unsent.length) :
    (reach d sl bs ps ops).lastCall = some .pause :=
  (core_reachable d sl bs ps ops).paused hc hp hs hover

/-- **Resumed once the buffer drains.** In every reachable state a registered producer whose last callback is
`pauseProducing` still has bytes pending (so the transport is in the writer set, `writer_registered_when_pending`,
and the `doWrite` that drains the buffer calls `resumeProducing`): no producer is ever left paused on a drained
buffer. -/
theorem resumed_when_drained (d sl bs : Nat) (ps : List Producer) (ops : List Op)
    (hp : (reach d sl bs ps ops).producer.isSome) (hl : (reach d sl bs ps ops).lastCall = some .pause) :
    (reach d sl bs ps ops).unsent ≠ [] :=
  ((core_reachable d sl bs ps ops).flag hp hl).2

/-! ### the translator-regenerated `_isSendBufferFull` (see `TwistedProps/C14/Gen.lean`) -/

/-- generated `_isSendBufferFull` = the model's predicate on every state -/
theorem gen_isSendBufferFull (s : St) :
    Generated.FD.isSendBufferFull s.dataBuffer.length s.tempLen s.bufferSize = isSendBufferFull s :=
  gen_isSendBufferFull_eq s

/-- the model's `_maybePauseProducer` decides with the GENERATED predicate -/
theorem gen_maybePauseProducer (cb : Cb) (s : St) :
    maybePauseProducer cb s =
      if s.producer.isSome && s.streaming then
        if Generated.FD.isSendBufferFull s.dataBuffer.length s.tempLen s.bufferSize
        then callProducer cb .pause { s with producerPaused := true } else s
      else s := by
  rw [gen_isSendBufferFull_eq]; rfl

/-- whenever the buffers are consistent (`Buf`), "more than `bufferSize` bytes pending" makes the generated
    predicate true -/
theorem gen_full_of_over (s : St) (hb : Buf s) (hover : s.bufferSize < s.unsent.length) :
    Generated.FD.isSendBufferFull s.dataBuffer.length s.tempLen s.bufferSize = true := by
  rw [gen_isSendBufferFull_iff]
  have h1 := hb.tempLen
  simp only [St.unsent, List.length_append, List.length_drop] at hover
  omega

/-- in every reachable state, "more than `bufferSize` bytes pending" (the hypothesis of
    `streaming_producer_paused_when_over_bufferSize`) makes the generated predicate true: the code's test is
    never the weaker one -/
theorem gen_full_when_over_bufferSize (d sl bs : Nat) (ps : List Producer) (ops : List Op)
    (hover : (reach d sl bs ps ops).bufferSize < (reach d sl bs ps ops).unsent.length) :
    Generated.FD.isSendBufferFull (reach d sl bs ps ops).dataBuffer.length (reach d sl bs ps ops).tempLen
      (reach d sl bs ps ops).bufferSize = true :=
  gen_full_of_over _ (core_reachable d sl bs ps ops).buf hover

example : Generated.FD.isSendBufferFull 3 2 4 = true ∧ Generated.FD.isSendBufferFull 2 2 4 = false := by decide

/-! ### Non-vacuity: a concrete history exercising every clause -/

/-- a push producer that writes two more bytes when resumed -/
def exProd : Producer := { onResume := [[.write [9, 9]]], onPause := [[]] }

def exOps : List Op :=
  [.register 0 true, .write [1, 2, 3, 4, 5], .tick (.n 2), .write [6], .tick (.n 0), .tick .all, .tick .all,
   .lose, .write [7], .tick (.n 1), .tick .all]

-- after the first write: 5 bytes pending > bufferSize 4, producer 0 paused, transport in the writer set
example : let s := reach 2 3 4 [exProd] (exOps.take 2)
    (s.unsent.length, s.lastCall, s.writer, s.producerPaused) = (5, some .pause, true, true) := by decide
-- SEND_LIMIT = 3: after 2 of 5 bytes went out, 3 ≥ SEND_LIMIT remain, the next write stays in the second buffer
example : let s := reach 2 3 4 [exProd] (exOps.take 4)
    (s.sent, s.dataBuffer, s.offset, s.temp) = ([1, 2], [1, 2, 3, 4, 5], 2, [[6]]) := by decide
-- the buffer drains in two steps; the producer is resumed and writes again
example : let s := reach 2 3 4 [exProd] (exOps.take 7)
    (s.sent, s.unsent, s.lastCall) = ([1, 2, 3, 4, 5, 6], [9, 9], some .resume) := by decide
-- close only after everything written (also after loseConnection) was handed over
example : let s := reach 2 3 4 [exProd] exOps
    (s.sent, s.acc, s.connected, s.log.head?) =
      ([1, 2, 3, 4, 5, 6, 9, 9, 7], [1, 2, 3, 4, 5, 6, 9, 9, 7], false, some (Ev.call 0 .stop)) := by decide
example : Ev.lost .done 0 false false false ∈ (reach 2 3 4 [exProd] exOps).log := by decide
-- a push producer registered on a full buffer is paused at once (the repaired registerProducer)
example : (reach 2 3 0 [exProd] [.write [1], .register 0 true]).lastCall = some .pause := by decide
-- a pull producer keeps the connection open after loseConnection
example : let s := reach 2 8 4 [⟨[[.write [1]], []], []⟩] [.register 0 false, .lose, .tick .all, .tick .all]
    (s.connected, s.sent, s.producer) = (true, [1], some 0) := by decide
-- eventual delivery: 5 bytes pending + loseConnection, the OS takes 2 bytes per event: closed after 3 ≤ 5 events
example : let s := reach 2 3 4 [] ([.write [1, 2, 3, 4, 5], .lose] ++ driveOps (fun _ => .n 2) 3)
    (s.sent, s.connected, s.log.head?) = ([1, 2, 3, 4, 5], false, some (Ev.lost .done 0 false false false)) := by decide
example : (reach 2 3 4 [] ([.write [1, 2, 3, 4, 5], .lose] ++ driveOps (fun _ => .n 2) 2)).connected = true := by decide
-- loseConnection on an idle transport: one writability event closes it
example : (reach 2 3 4 [] ([.lose] ++ driveOps (fun _ => .n 1) 1)).connected = false := by decide
-- … with a paused push producer the draining event resumes it instead (and the connection stays open)
example : let s := reach 2 3 4 [exProd] ([.register 0 true, .write [1, 2, 3, 4, 5], .lose] ++ driveOps (fun _ => .all) 1)
    (s.sent, s.connected, s.lastCall, s.unsent) = ([1, 2, 3, 4, 5], true, some .resume, [9, 9]) := by decide
-- a pull producer registered after the half-close: its write is dropped, loseConnection closes at once and stops it
example : let s := reach 2 8 4 [⟨[[.write [1]]], []⟩] [.loseWrite, .tick .all, .register 0 false, .lose]
    (s.acc, s.connected) = ([], false) := by decide
example : Ev.lost .done 0 true true true ∈
    (reach 2 8 4 [⟨[[.write [1]]], []⟩] [.loseWrite, .tick .all, .register 0 false, .lose]).log := by decide
-- a pull producer registered before loseWriteConnection keeps the write side open
example : let s := reach 2 8 4 [⟨[[.write [1]], []], []⟩] [.register 0 false, .loseWrite, .tick .all, .tick .all, .tick .all]
    (s.writeDisconnected, s.sent, s.connected) = (false, [1], true) := by decide

/-! ## Histories of Python-level operations

`writeSequence(<any iterable>)`, `registerProducer(p, <bool or int>)`: the same reachable states. -/

/-- `FileDescriptor.writeSequence` as it is, given ANY iterable of chunks - list / tuple, other collection, one-shot
iterator or generator - does exactly what the model's `writeSeq` does with its elements. -/
theorem writeSequence_any_iterable (cb : Cb) (v : Iovec) (s : St) :
    writeSequencePy cb v s = writeSeq cb v.items s := writeSequencePy_eq cb v s

/-- Before the repair (twisted 25e023e) `writeSequence(<one-shot iterable>)` on a connected idle transport buffered
nothing of what it was given (and asked to be polled for writing): every byte lost. -/
theorem writeSequence_one_shot_before_repair_counterexample :
    let s := writeSequencePyOld (cbAt 0) (.once [[1, 2], [3]]) (init 8 4 [])
    s.acc = [1, 2, 3] ∧ s.unsent = [] ∧ s.sent = [] ∧ s.writer = true := writeSequencePyOld_counterexample

def reachPy (d sl bs : Nat) (ps : List Producer) (ops : List PyOp) : St := runPy (cbAt d) ops (init sl bs ps)

theorem reachPy_eq (d sl bs : Nat) (ps : List Producer) (ops : List PyOp) :
    reachPy d sl bs ps ops = reach d sl bs ps (ops.map PyOp.abs) := runPy_eq _ _ _

theorem stream_integrity_py (d sl bs : Nat) (ps : List Producer) (ops : List PyOp) :
    (reachPy d sl bs ps ops).sent ++ (reachPy d sl bs ps ops).unsent = (reachPy d sl bs ps ops).acc := by
  rw [reachPy_eq]; exact stream_integrity d sl bs ps _

theorem close_only_after_flush_py (d sl bs : Nat) (ps : List Producer) (ops : List PyOp)
    (pending : Nat) (pullProducer wd late : Bool)
    (h : Ev.lost .done pending pullProducer wd late ∈ (reachPy d sl bs ps ops).log) :
    pending = 0 ∧ (pullProducer = true → wd = true ∧ late = true) := by
  rw [reachPy_eq] at h; exact close_only_after_flush d sl bs ps _ pending pullProducer wd late h

example : (reachPy 2 8 4 [] [.writeSeqIt (.once [[1, 2], [3]]), .base (.tick (.n 2)), .writeSeqIt (.coll [[4]]),
    .base (.tick .all)]).sent = [1, 2, 3, 4] := by decide

end TwistedProps.C14
