import TwistedProps.C54.Session
import TwistedProps.C54.Gen
import TwistedProps.C26
/-!
C54 — the FTP server never touches paths outside its root.

Model: `TwistedModel/Fs/Ftp.lean` (`toSegments`, the command dispatch of `FTP`, which `toSegments`
result reaches which `FTPShell`/`FTPAnonymousShell` method, `_path = filesystemRoot.descendant`), on
top of the `posixpath`/`FilePath` model of C26 (`TwistedModel/Fs/Path.lean`).

* `Plain s` (in `C54/Seg.lean`): `s` is a real name — not empty, not `.`, not `..`, no `/`, no NUL.
* `wf p` (C26): the class invariant of `FilePath.path` — absolute and a fixed point of `normpath`
  (decidable; every `FilePath(...)` satisfies it, `C26.filepath_invariant`).
* `Inside root p` (C26): `p` is absolute, has no `.`/`..` segment, and the segment list of `root` is a
  prefix of the segment list of `p` — containment by *segments*, not by string prefix, so the sibling
  `/srv/ftp-evil` is not inside `/srv/ftp`.
* A session is any list of (environment, command line) pairs: command lines are arbitrary byte strings;
  the environment of a step (data connection state, login verdict, `shell.access` verdict,
  `_isGlobbingExpression` verdict, `os.listdir` result) is arbitrary too.  Sessions start in
  `State.init` (`connectionMade`).
* `gen_*`: `toSegments` is regenerated from ftp.py on every run (`Generated.Ftp`, harness/py2lean.py: the
  for-loop as a fold of the generated loop body) and proved equal to the model's (`TwistedProps/C54/Gen.lean`).
-/
namespace TwistedProps.C54
open Twisted.Fs.Path Twisted.Fs.Ftp TwistedProps.C26

/-- **toSegments yields plain segments**: from a plain working directory (the session invariant
    `session_cwd_plain`), for every path argument, `toSegments` raises `InvalidPath` or returns
    segments none of which is empty, `.`, `..`, or contains `/` or NUL. -/
theorem toSegments_plain (cwd : List Seg) (path : Bytes) (sg : List Seg) (hcwd : PlainL cwd)
    (h : toSegments cwd path = some sg) :
    ∀ s ∈ sg, s ≠ [] ∧ s ≠ [dot] ∧ s ≠ [dot, dot] ∧ slash ∉ s ∧ (0 : UInt8) ∉ s :=
  toSegments_plainL cwd path sg hcwd h

/-! ### the translator-regenerated `toSegments` (see `TwistedProps/C54/Gen.lean`) -/

/-- generated loop body = model `segStep` -/
theorem gen_segStep (segs : List Seg) (s : Seg) : Generated.Ftp.toSegmentsStep segs s = segStep segs s :=
  gen_segStep_eq segs s

/-- generated `toSegments` (ftp.py as it is on this run) = model `toSegments` -/
theorem gen_toSegments (cwd : List Seg) (path : Bytes) :
    Generated.Ftp.toSegments cwd path = toSegments cwd path := gen_toSegments_eq cwd path

/-- `toSegments_plain` stated directly over the generated definition -/
theorem gen_toSegments_plain (cwd : List Seg) (path : Bytes) (sg : List Seg) (hcwd : PlainL cwd)
    (h : Generated.Ftp.toSegments cwd path = some sg) :
    ∀ s ∈ sg, s ≠ [] ∧ s ≠ [dot] ∧ s ≠ [dot, dot] ∧ slash ∉ s ∧ (0 : UInt8) ∉ s :=
  toSegments_plain cwd path sg hcwd (by rw [← gen_toSegments]; exact h)

example : Generated.Ftp.toSegments [[97]] [98, 47, 46, 46, 47, 99] = some [[97], [99]]
    ∧ Generated.Ftp.toSegments [[97]] [47, 46, 46] = none
    ∧ Generated.Ftp.toSegments [[97]] [47, 98, 47, 47, 46, 47] = some [[98]] := by decide

/-- **toSegments never climbs above the root**: whenever `toSegments` returns, every `..` piece of
    the path was applied to a non-empty segment stack (at the root it raises `InvalidPath` instead). -/
theorem never_above_root (cwd : List Seg) (path : Bytes) (sg : List Seg)
    (h : toSegments cwd path = some sg) (pre post : List Seg)
    (hp : splitSlash path = pre ++ [dot, dot] :: post) :
    ∃ mid, segLoop (if path.head? = some slash then [] else cwd) pre = some mid ∧ mid ≠ [] := by
  unfold toSegments at h
  rw [hp, segLoop_append] at h
  cases hm : segLoop (if path.head? = some slash then [] else cwd) pre with
  | none => rw [hm] at h; simp at h
  | some mid =>
    refine ⟨mid, rfl, ?_⟩
    intro e
    subst e
    rw [hm] at h
    simp only [segLoop_cons, segStep_dotdot_root] at h
    simp at h

/-- what `never_above_root` excludes does raise: `..` from the root, however it is dressed up -/
theorem dotdot_at_root_raises (pre post : List Seg) (path : Bytes) (cwd : List Seg)
    (hp : splitSlash path = pre ++ [dot, dot] :: post)
    (hpre : segLoop (if path.head? = some slash then [] else cwd) pre = some []) :
    toSegments cwd path = none := by
  unfold toSegments
  rw [hp, segLoop_append, hpre]
  simp [segLoop_cons, segStep_dotdot_root]

/-- **toSegments is `posixpath.normpath` of the virtual path, minus the clamping**: whenever it
    returns, `"/" + "/".join(segs)` is exactly `normpath(join("/" + "/".join(cwd), path))` — and where
    `normpath` would silently clamp `/..` to `/`, `toSegments` raises (`dotdot_at_root_raises`). -/
theorem toSegments_agrees_with_normpath (cwd : List Seg) (path : Bytes) (sg : List Seg) (hcwd : PlainL cwd)
    (h : toSegments cwd path = some sg) :
    normpath (joinPath (render 1 cwd) path) =
      render (if path.head? = some slash then initialSlashes path else 1) sg := by
  unfold toSegments at h
  by_cases ha : path.head? = some slash
  · rw [if_pos ha] at h
    rw [if_pos ha]
    have hj : joinPath (render 1 cwd) path = path := by simp [joinPath, ha]
    rw [hj]
    have hne : path ≠ [] := by intro e; simp [e] at ha
    have hi := initialSlashes_abs path ha
    have hf := segLoop_foldl (initialSlashes path) (by omega) (splitSlash path) [] sg plainL_nil h
    unfold normpath
    simp [hne, hf, render_ne_nil _ hi]
  · rw [if_neg ha] at h
    rw [if_neg ha]
    rw [normpath_join_render 1 (Or.inl rfl) cwd (plainL_clean cwd hcwd) path ha]
    rw [segLoop_foldl 1 (by omega) (splitSlash path) cwd sg hcwd h]

/-- **`shell._path` of plain segments is the root plus exactly those segments**: it does not raise
    `InsecurePath`; the result is a normalised path inside the root whose segment list is the root's
    followed by the (utf-8 encoded) segments — nothing dropped, nothing re-interpreted. -/
theorem path_is_root_plus_segments (cfg : Conf) (sh : Shell) (sg : List Seg)
    (hroot : wf (cfg.root sh) = true) (hs : PlainL sg) :
    ∃ p, pathOf cfg sh sg = some p ∧ wf p = true ∧ Inside (cfg.root sh) p ∧
      segs p = segs (cfg.root sh) ++ sg.map encSeg := by
  obtain ⟨init, comps, hst⟩ := wf_struct _ hroot
  have hcl := encSegs_clean sg hs
  have hd := descendant_clean cfg.procCwd (sg.map encSeg) (cfg.root sh) init comps hst hcl
  have hst' : Struct (render init (comps ++ sg.map encSeg)) init (comps ++ sg.map encSeg) :=
    ⟨hst.1, clean_append _ _ hst.2.1 hcl, rfl⟩
  have hn := struct_normal _ init _ hst'
  have hr := struct_normal _ init comps hst
  refine ⟨_, hd, struct_wf _ init _ hst', ⟨hn.1, ?_⟩, ?_⟩
  · rw [hn.2, hr.2]; exact List.prefix_append _ _
  · rw [hn.2, hr.2]

/-- the session invariant: after any session the working directory consists of plain segments -/
theorem session_cwd_plain (cfg : Conf) (inputs : List (Env × Bytes)) :
    ∀ r ∈ run cfg State.init inputs, PlainL r.1.cwd := by
  intro r hr
  obtain ⟨_, _, hok⟩ := run_ok cfg inputs State.init plainL_nil r hr
  exact hok.1

/-- **C54**: for every session — any sequence of command lines (any bytes: absolute or relative
    arguments, `.`, `..`, empty segments, NUL, unusual characters, any interleaving of logins, working
    directory changes, RNFR/RNTO, QUIT) under any environment answers — every path the FTP server
    hands to the filesystem in any step (the results of `shell._path` that are opened, listed, created,
    renamed, deleted or stat'ed, and the children of a listed directory) is normalised and lies inside
    the root directory of the shell that is logged in, by segment-wise containment. -/
theorem ftp_paths_inside_root (cfg : Conf) (hanon : wf cfg.anonRoot = true) (huser : wf cfg.userRoot = true)
    (inputs : List (Env × Bytes)) :
    ∀ r ∈ run cfg State.init inputs, ∀ p ∈ r.2.targets ++ r.2.children, Inside (cfg.root r.2.shell) p := by
  intro r hr p hp
  obtain ⟨env, _, _, ht, hc, _⟩ := run_ok cfg inputs State.init plainL_nil r hr
  have hroot : wf (cfg.root r.2.shell) = true := by
    cases r.2.shell with
    | anon => exact hanon
    | user => exact huser
  have target_inside : ∀ t ∈ r.2.targets, wf t = true ∧ Inside (cfg.root r.2.shell) t := by
    intro t htm
    obtain ⟨sg, hsg, hpath⟩ := ht t htm
    obtain ⟨q, hq, hwf, hin, _⟩ := path_is_root_plus_segments cfg r.2.shell sg hroot hsg
    rw [hq] at hpath
    simp only [Option.some.injEq] at hpath
    subst hpath
    exact ⟨hwf, hin⟩
  simp only [List.mem_append] at hp
  rcases hp with hp | hp
  · exact (target_inside p hp).2
  · obtain ⟨t, htm, e, hch⟩ := hc p hp
    obtain ⟨hwt, _, hpre⟩ := target_inside t htm
    obtain ⟨_, hnp, hstep⟩ := child_is_self_or_direct_child_or_raises cfg.procCwd t e p hwt hch
    refine ⟨hnp, ?_⟩
    rcases hstep with e1 | ⟨s, e1⟩
    · rw [e1]; exact hpre
    · rw [e1]; exact List.IsPrefix.trans hpre (List.prefix_append _ _)

/-- … and exactly where the client's segments say: every result of `shell._path` in any step of any
    session is the root's segment list followed by the utf-8 encoding of plain segments. -/
theorem session_targets_exact (cfg : Conf) (hanon : wf cfg.anonRoot = true) (huser : wf cfg.userRoot = true)
    (inputs : List (Env × Bytes)) :
    ∀ r ∈ run cfg State.init inputs, ∀ t ∈ r.2.targets,
      ∃ sg, PlainL sg ∧ segs t = segs (cfg.root r.2.shell) ++ sg.map encSeg := by
  intro r hr t htm
  obtain ⟨env, _, _, ht, _, _⟩ := run_ok cfg inputs State.init plainL_nil r hr
  have hroot : wf (cfg.root r.2.shell) = true := by
    cases r.2.shell with
    | anon => exact hanon
    | user => exact huser
  obtain ⟨sg, hsg, hpath⟩ := ht t htm
  obtain ⟨q, hq, _, _, hseg⟩ := path_is_root_plus_segments cfg r.2.shell sg hroot hsg
  rw [hq] at hpath
  simp only [Option.some.injEq] at hpath
  subst hpath
  exact ⟨sg, hsg, hseg⟩

/-- the directory entries an `os.listdir` can return: real names -/
def EntriesOK (env : Env) : Prop := ∀ es, env.entries = some es → ∀ e ∈ es, CleanC e

/-- `FilePath.child`/`descendant` never raise `InsecurePath` in any step of any session (provided
    `os.listdir` returns real names): the refusal is never what keeps the server inside its root —
    `toSegments` alone already does. -/
theorem session_never_insecure (cfg : Conf) (hanon : wf cfg.anonRoot = true) (huser : wf cfg.userRoot = true)
    (inputs : List (Env × Bytes)) (hent : ∀ x ∈ inputs, EntriesOK x.1) :
    ∀ r ∈ run cfg State.init inputs, r.2.insecure = false := by
  intro r hr
  obtain ⟨env, ⟨line, hmem⟩, _, ht, _, hins⟩ := run_ok cfg inputs State.init plainL_nil r hr
  have hroot : wf (cfg.root r.2.shell) = true := by
    cases r.2.shell with
    | anon => exact hanon
    | user => exact huser
  cases hi : r.2.insecure with
  | false => rfl
  | true =>
    exfalso
    rcases hins hi with ⟨sg, hsg, hnone⟩ | ⟨es, t, hes, htm, hnone⟩
    · obtain ⟨q, hq, _⟩ := path_is_root_plus_segments cfg r.2.shell sg hroot hsg
      rw [hq] at hnone; simp at hnone
    · obtain ⟨sg, hsg, hpath⟩ := ht t htm
      obtain ⟨q, hq, hwf, _⟩ := path_is_root_plus_segments cfg r.2.shell sg hroot hsg
      rw [hq] at hpath
      simp only [Option.some.injEq] at hpath
      subst hpath
      obtain ⟨init, comps, hst⟩ := wf_struct _ hwf
      have := childrenOf_clean cfg q init comps hst es (hent (env, line) hmem es hes)
      rw [hnone] at this
      simp at this

/-! ### Non-vacuity (concrete, non-trivial values) -/

-- toSegments(["a", "b"], "../x//./y/") = ["a", "x", "y"]
example : toSegments [[97], [98]] [46, 46, 47, 120, 47, 47, 46, 47, 121, 47] = some [[97], [120], [121]] := by decide
-- toSegments(["a"], "../..") and toSegments(["a"], "/../x") raise; "x\0y" raises
example : toSegments [[97]] [46, 46, 47, 46, 46] = none := by decide
example : toSegments [[97]] [47, 46, 46, 47, 120] = none := by decide
example : toSegments [[97]] [120, 0, 121] = none := by decide
example : PlainL [[97], [98]] := by decide
-- never_above_root's hypothesis is satisfiable: "b/../c" = ["b"] ++ ".." :: ["c"], stack ["a","b"] when ".." is met
example : toSegments [[97]] [98, 47, 46, 46, 47, 99] = some [[97], [99]] ∧
    splitSlash [98, 47, 46, 46, 47, 99] = [[98]] ++ [dot, dot] :: [[99]] := by decide
-- normpath(join("/a", "b/../c")) = "/a/c" = "/" + "/".join(toSegments(["a"], "b/../c"))
example : normpath (joinPath (render 1 [[97]]) [98, 47, 46, 46, 47, 99]) = render 1 [[97], [99]] := by decide
-- the configuration of the examples: roots /srv/ftp (user) and /srv/ftp/pub (anonymous), cwd of the process /
def exCfg : Conf := ⟨[47], [47, 115, 114, 118, 47, 102, 116, 112, 47, 112, 117, 98], [47, 115, 114, 118, 47, 102, 116, 112],
  true, ascii "anonymous"⟩
example : wf exCfg.anonRoot = true ∧ wf exCfg.userRoot = true := by decide
-- _path(["sub", "é"]) = /srv/ftp/sub/é (utf-8: c3 a9)
example : pathOf exCfg .user [[115, 117, 98], [0xE9]] = some [47, 115, 114, 118, 47, 102, 116, 112, 47, 115, 117, 98, 47, 0xC3, 0xA9] := by
  decide
def exEnv (granted : Bool) (entries : Option (List Bytes)) : Env := ⟨false, true, true, granted, false, entries⟩
-- a session: USER u / PASS p / CWD sub / CWD ../../ftp-evil (refused: no target) / LIST x (with entries) / RNFR a / RNTO /b
def exSession : List (Env × Bytes) :=
  [(exEnv false none, ascii "USER u"), (exEnv false none, ascii "PASS p"), (exEnv true none, ascii "CWD sub"),
   (exEnv true none, ascii "CWD ../../ftp-evil"), (exEnv false (some [[102]]), ascii "list x"),
   (exEnv false none, ascii "RNFR a"), (exEnv false none, ascii "RNTO /b")]
example : (run exCfg State.init exSession).map (fun r => (r.1.cwd, r.2.targets, r.2.children)) =
    [([], [], []), ([], [], []),
     ([[115, 117, 98]], [[47, 115, 114, 118, 47, 102, 116, 112, 47, 115, 117, 98]], []),
     ([[115, 117, 98]], [], []),
     ([[115, 117, 98]], [[47, 115, 114, 118, 47, 102, 116, 112, 47, 115, 117, 98, 47, 120]],
       [[47, 115, 114, 118, 47, 102, 116, 112, 47, 115, 117, 98, 47, 120, 47, 102]]),
     ([[115, 117, 98]], [], []),
     ([[115, 117, 98]], [[47, 115, 114, 118, 47, 102, 116, 112, 47, 115, 117, 98, 47, 97], [47, 115, 114, 118, 47, 102, 116, 112, 47, 98]], [])] := by
  decide
example : ∀ x ∈ exSession, EntriesOK x.1 := by
  intro x hx es he e hm
  simp only [exSession, List.mem_cons, List.not_mem_nil, or_false] at hx
  rcases hx with rfl | rfl | rfl | rfl | rfl | rfl | rfl <;> simp [exEnv] at he
  subst he
  simp only [List.mem_singleton] at hm
  subst hm
  unfold CleanC
  decide
-- the sibling that shares the root's name prefix is not `Inside`
example : ¬ Inside [47, 115, 114, 118, 47, 102, 116, 112] [47, 115, 114, 118, 47, 102, 116, 112, 45, 101, 118, 105, 108] := by
  intro h
  have := h.2
  revert this
  decide

/-! ### names are passed on verbatim (white-box mutation audit: decorated dot segments) -/

theorem segLoop_verbatim (pieces : List Seg) : ∀ (segs sg : List Seg), segLoop segs pieces = some sg →
    ∀ s ∈ sg, s ∈ segs ∨ s ∈ pieces := by
  induction pieces with
  | nil => intro segs sg h s hs; simp [segLoop] at h; subst h; exact Or.inl hs
  | cons p rest ih =>
    intro segs sg h s hs
    simp only [segLoop] at h
    cases hstep : segStep segs p with
    | none => simp [hstep] at h
    | some segs' =>
      simp only [hstep] at h
      have hsub : ∀ x ∈ segs', x ∈ segs ∨ x = p := by
        intro x hx
        unfold segStep at hstep
        split at hstep
        · cases hstep; exact Or.inl hx
        · split at hstep
          · split at hstep
            · cases hstep; exact Or.inl ((List.dropLast_sublist segs).subset hx)
            · cases hstep
          · split at hstep
            · cases hstep
            · cases hstep
              rcases List.mem_append.mp hx with h1 | h1
              · exact Or.inl h1
              · exact Or.inr (by simpa using h1)
      rcases ih segs' sg h s hs with h1 | h1
      · rcases hsub s h1 with h2 | h2
        · exact Or.inl h2
        · exact Or.inr (by simp [h2])
      · exact Or.inr (List.mem_cons_of_mem _ h1)

/-- `toSegments` never rewrites a name: every segment it returns is, byte for byte, a segment of the working
    directory or one of the `/`-separated pieces of the argument (so a decorated dot-dot such as `..\r`, `.\xff.`,
    `..%2f..` is passed on verbatim as an ordinary name, never as `..`). -/
theorem toSegments_verbatim (cwd : List Seg) (path : Bytes) (sg : List Seg)
    (h : toSegments cwd path = some sg) : ∀ s ∈ sg, s ∈ cwd ∨ s ∈ splitSlash path := by
  intro s hs
  unfold toSegments at h
  rcases segLoop_verbatim _ _ _ h s hs with h1 | h1
  · split at h1
    · simp at h1
    · exact Or.inl h1
  · exact Or.inr h1

example : toSegments [[97]] [46, 46, 13, 47, 46, 0xFF, 46, 47, 46, 46, 37, 50, 102, 120] =
    some [[97], [46, 46, 13], [46, 0xFF, 46], [46, 46, 37, 50, 102, 120]] := by decide
end TwistedProps.C54
