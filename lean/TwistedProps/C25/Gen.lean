import TwistedModel.Http.Range
import Generated.Range
/-!
C25 — `static.File._rangeToOffsetAndSize`, regenerated from `src/twisted/web/static.py` by
`harness/py2lean.py` on every run (`lean/Generated/Range.lean`), proved equal to the hand model's
`r2os` (`TwistedModel/Http/Range.lean`).

The Python function takes `(start, end)` with at most one `None`; the translator resolves the
`is None` tests statically and emits one definition per None-pattern `_parseRangeHeader` can produce:
`r2osSuffix` (`(None, n)`), `r2osFrom` (`(a, None)`), `r2osFromTo` (`(a, b)`).  Python ints are `Int`,
the model works in `Nat` (truncated subtraction): `asInt` reads the model's pair as the Python pair.
For `(a, b)` the equality needs `a ≤ b` — what the parser guarantees (`TwistedProps.C25.parse_valid`);
with `a > b + 1` the Python function would return a negative size and the model 0.
-/
namespace TwistedProps.C25
open Twisted.Http.Range

/-- the model's `(offset, size)`, read as the Python pair of ints -/
def asInt (p : Nat × Nat) : Int × Int := ((p.1 : Int), (p.2 : Int))

/-- the generated function on a parsed range -/
def genR2os (size : Nat) : Rng → Int × Int
  | .suffix n => Generated.Range.r2osSuffix size n
  | .from a => Generated.Range.r2osFrom size a
  | .fromTo a b => Generated.Range.r2osFromTo size a b

theorem gen_r2os_suffix_eq (size n : Nat) :
    Generated.Range.r2osSuffix size n = asInt (r2os size (.suffix n)) := by
  simp only [Generated.Range.r2osSuffix, r2os, asInt, decide_eq_true_eq]
  split <;> split <;> simp <;> omega

theorem gen_r2os_from_eq (size a : Nat) :
    Generated.Range.r2osFrom size a = asInt (r2os size (.from a)) := by
  simp only [Generated.Range.r2osFrom, r2os, asInt, decide_eq_true_eq]
  split <;> split <;> simp <;> omega

theorem gen_r2os_fromTo_eq (size a b : Nat) (hab : a ≤ b) :
    Generated.Range.r2osFromTo size a b = asInt (r2os size (.fromTo a b)) := by
  simp only [Generated.Range.r2osFromTo, r2os, asInt, decide_eq_true_eq]
  by_cases h1 : size ≤ a <;> by_cases h2 : b < size <;> by_cases h3 : size < b <;>
    simp [h1, h2, h3] <;> omega

end TwistedProps.C25
