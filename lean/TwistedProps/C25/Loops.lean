import TwistedModel.Http.Range
/-!
C25 — lemmas about the producer loops (`srLoop`, `mrLoop`): with enough fuel they finish and
write exactly the requested slices, for every buffer size `bs > 0`.
-/
namespace TwistedProps.C25
open Twisted.Http.Range

theorem readAt_length (c : Bytes) (pos n : Nat) (h : pos + n ≤ c.length) :
    (readAt c pos n).length = n := by
  simp [readAt]; omega

theorem readAt_append (c : Bytes) (pos n m : Nat) :
    readAt c pos n ++ readAt c (pos + n) m = readAt c pos (n + m) := by
  simp only [readAt]
  rw [List.take_add, List.drop_drop]

theorem readAt_zero (c : Bytes) (pos : Nat) : readAt c pos 0 = [] := by simp [readAt]

/-- `SingleRangeStaticProducer`: finishes within `size - written + 1` calls and writes exactly
    the `size - written` bytes at `pos`. -/
theorem srLoop_spec (c : Bytes) (bs : Nat) (hbs : 0 < bs) (fuel pos size written : Nat)
    (hw : written ≤ size) (hin : pos + (size - written) ≤ c.length) (hf : size - written < fuel) :
    srLoop c bs fuel pos size written = some (readAt c pos (size - written)) := by
  induction fuel generalizing pos written with
  | zero => omega
  | succ fuel ih =>
    unfold srLoop
    have hlen : (readAt c pos (min bs (size - written))).length = min bs (size - written) :=
      readAt_length _ _ _ (by omega)
    simp only [hlen]
    by_cases hle : size - written ≤ bs
    · have hmin : min bs (size - written) = size - written := by omega
      have hfin : written + (size - written) = size := by omega
      simp only [hmin, hfin, if_true]
    · have hmin : min bs (size - written) = bs := by omega
      have hfin : ¬ (written + bs = size) := by omega
      simp only [hmin, hfin, if_false]
      rw [ih (pos + bs) (written + bs) (by omega) (by omega) (by omega)]
      simp only [Option.some.injEq]
      rw [readAt_append]
      congr 1
      omega

/-- what is still to be written from a state of `MultipleRangeStaticProducer` -/
def pending (c : Bytes) (st : MState) : Bytes :=
  st.boundary ++ readAt c st.pos (st.partSize - st.written)
    ++ st.rest.flatMap fun q => q.sep ++ readAt c q.off q.size

def mu (bs : Nat) (st : MState) (dl : Nat) : Nat :=
  2 * (st.partSize - st.written + partsBytes st.rest) + 4 * (st.rest.length + 1)
    + 2 * min 1 st.boundary.length + (if dl ≥ bs then 1 else 0)

/-- `MultipleRangeStaticProducer`: from any state whose parts lie inside the file, the loop
    finishes within `mu` steps and writes exactly the pending separators and slices. -/
theorem mrLoop_spec (c : Bytes) (bs : Nat) (hbs : 0 < bs) (fuel : Nat) (st : MState) (dl : Nat)
    (hw : st.written ≤ st.partSize) (hin : st.pos + (st.partSize - st.written) ≤ c.length)
    (hrest : ∀ q ∈ st.rest, q.off + q.size ≤ c.length) (hf : mu bs st dl < fuel) :
    mrLoop c bs fuel st dl = some (pending c st) := by
  induction fuel generalizing st dl with
  | zero => omega
  | succ fuel ih =>
    unfold mrLoop
    by_cases hdl : dl ≥ bs
    · simp only [hdl, if_true]
      apply ih st 0 hw hin hrest
      have h0 : ¬ (0 ≥ bs) := by omega
      simp only [mu, hdl, h0, if_true, if_false] at hf ⊢
      omega
    · simp only [hdl, if_false]
      have hlen : (readAt c st.pos (min (bs - (dl + st.boundary.length)) (st.partSize - st.written))).length
          = min (bs - (dl + st.boundary.length)) (st.partSize - st.written) :=
        readAt_length _ _ _ (by omega)
      simp only [hlen]
      by_cases hle : st.partSize - st.written ≤ bs - (dl + st.boundary.length)
      · have hn : min (bs - (dl + st.boundary.length)) (st.partSize - st.written) = st.partSize - st.written := by
          omega
        have hfin : st.written + (st.partSize - st.written) = st.partSize := by omega
        simp only [hn, hfin, if_true]
        cases hr : st.rest with
        | nil => simp [pending, hr]
        | cons q rest =>
          simp only
          have hq : q.off + q.size ≤ c.length := hrest q (by simp [hr])
          rw [ih ⟨q.sep, q.off, q.size, 0, rest⟩ _ (by simp) (by simpa using hq)
            (fun x hx => hrest x (by simp [hr, hx]))]
          · simp [pending, hr]
          · simp only [mu, hr, hdl, if_false, partsBytes, List.length_cons] at hf ⊢
            split <;> omega
      · have hn : min (bs - (dl + st.boundary.length)) (st.partSize - st.written) = bs - (dl + st.boundary.length) := by
          omega
        have hfin : ¬ (st.written + (bs - (dl + st.boundary.length)) = st.partSize) := by omega
        simp only [hn, hfin, if_false]
        rw [ih ⟨[], st.pos + (bs - (dl + st.boundary.length)), st.partSize,
              st.written + (bs - (dl + st.boundary.length)), st.rest⟩ _ (by simp; omega) (by simp; omega)
              (by simpa using hrest)]
        · simp only [pending, Option.some.injEq, List.nil_append, List.append_assoc]
          congr 1
          rw [← List.append_assoc, readAt_append]
          congr 2
          omega
        · simp only [mu, hdl, if_false, List.length_nil] at hf ⊢
          split <;> omega

end TwistedProps.C25
