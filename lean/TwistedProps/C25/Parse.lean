import TwistedModel.Http.Range
/-!
C25 — lemmas about `_parseRangeHeader`'s building blocks (`split`, `strip`, digit strings).
-/
namespace TwistedProps.C25
open Twisted.Http.Range

theorem digit_not_ws (b : UInt8) (h : isDigit b = true) : isWs b = false := by
  simp only [isDigit, isWs, Bool.and_eq_true, decide_eq_true_eq, Bool.or_eq_false_iff] at *
  simp only [UInt8.le_iff_toNat_le, beq_eq_false_iff_ne, ne_eq, ← UInt8.toNat_inj] at *
  simp at *
  omega

theorem digit_ne (b : UInt8) (h : isDigit b = true) : b ≠ 45 ∧ b ≠ 44 ∧ b ≠ 61 := by
  simp only [isDigit, Bool.and_eq_true, decide_eq_true_eq] at h
  simp only [UInt8.le_iff_toNat_le, ne_eq, ← UInt8.toNat_inj] at *
  simp at *
  omega

/-- `a.split(sep, 1)` when the first `sep` is right after `a` -/
theorem splitOnce_append (sep : UInt8) (a b : Bytes) (h : sep ∉ a) :
    splitOnce sep (a ++ sep :: b) = some (a, b) := by
  induction a with
  | nil => simp [splitOnce]
  | cons c a ih =>
    have hc : c ≠ sep := fun e => h (by simp [e])
    have ha : sep ∉ a := fun e => h (by simp [e])
    simp [splitOnce, hc, ih ha]

theorem splitAll_ne_nil (sep : UInt8) (s : Bytes) : splitAll sep s ≠ [] := by
  induction s with
  | nil => simp [splitAll]
  | cons c cs ih =>
    unfold splitAll
    split
    · simp
    · split <;> simp

theorem splitAll_no_sep (sep : UInt8) (a : Bytes) (h : sep ∉ a) : splitAll sep a = [a] := by
  induction a with
  | nil => simp [splitAll]
  | cons c a ih =>
    have hc : c ≠ sep := fun e => h (by simp [e])
    have ha : sep ∉ a := fun e => h (by simp [e])
    simp [splitAll, hc, ih ha]

theorem splitAll_append (sep : UInt8) (a b : Bytes) (h : sep ∉ a) :
    splitAll sep (a ++ sep :: b) = a :: splitAll sep b := by
  induction a with
  | nil => simp [splitAll]
  | cons c a ih =>
    have hc : c ≠ sep := fun e => h (by simp [e])
    have ha : sep ∉ a := fun e => h (by simp [e])
    simp [splitAll, hc, ih ha]

/-- `sep.join(pieces)` for a non-empty list -/
def joinWith (sep : UInt8) : List Bytes → Bytes
  | [] => []
  | [p] => p
  | p :: q :: ps => p ++ sep :: joinWith sep (q :: ps)

/-- `sep.join(ps).split(sep) == ps` when no piece contains `sep` -/
theorem splitAll_joinWith (sep : UInt8) (ps : List Bytes) (hne : ps ≠ []) (h : ∀ p ∈ ps, sep ∉ p) :
    splitAll sep (joinWith sep ps) = ps := by
  induction ps with
  | nil => exact absurd rfl hne
  | cons p ps ih =>
    cases ps with
    | nil => simpa [joinWith] using splitAll_no_sep sep p (h p (by simp))
    | cons q qs =>
      simp only [joinWith]
      rw [splitAll_append sep p _ (h p (by simp)), ih (by simp) (fun x hx => h x (by simp [hx]))]

theorem lstrip_of_head (s : Bytes) (h : ∀ x ∈ s.head?, isWs x = false) : lstrip s = s := by
  cases s with
  | nil => rfl
  | cons c cs =>
    have : isWs c = false := h c (by simp)
    simp [lstrip, List.dropWhile, this]

theorem rstrip_of_last (s : Bytes) (h : ∀ x ∈ s.getLast?, isWs x = false) : rstrip s = s := by
  have : lstrip s.reverse = s.reverse := lstrip_of_head _ (by simpa using h)
  simp only [rstrip]
  simp only [lstrip] at this
  rw [this, List.reverse_reverse]

/-- `strip()` leaves a string alone when neither end is whitespace -/
theorem strip_of_ends (s : Bytes) (h1 : ∀ x ∈ s.head?, isWs x = false)
    (h2 : ∀ x ∈ s.getLast?, isWs x = false) : strip s = s := by
  simp only [strip, lstrip_of_head s h1, rstrip_of_last s h2]

/-- a non-empty string of at most 4300 ASCII digits: what `_parseRangeInt` accepts bare -/
def DigitStr (d : Bytes) : Prop := d ≠ [] ∧ d.all isDigit = true ∧ d.length ≤ maxStrDigits

theorem DigitStr.head_not_ws {d : Bytes} (h : DigitStr d) : ∀ x ∈ d.head?, isWs x = false := by
  intro x hx
  have hm : x ∈ d := List.mem_of_mem_head? hx
  exact digit_not_ws x (by have := h.2.1; simp only [List.all_eq_true] at this; exact this x hm)

theorem DigitStr.last_not_ws {d : Bytes} (h : DigitStr d) : ∀ x ∈ d.getLast?, isWs x = false := by
  intro x hx
  have hm : x ∈ d := List.mem_of_getLast? hx
  exact digit_not_ws x (by have := h.2.1; simp only [List.all_eq_true] at this; exact this x hm)

theorem DigitStr.not_mem {d : Bytes} (h : DigitStr d) : (45 : UInt8) ∉ d ∧ (44 : UInt8) ∉ d ∧ (61 : UInt8) ∉ d := by
  have hd := h.2.1
  simp only [List.all_eq_true] at hd
  refine ⟨fun hm => (digit_ne _ (hd _ hm)).1 rfl, fun hm => (digit_ne _ (hd _ hm)).2.1 rfl,
    fun hm => (digit_ne _ (hd _ hm)).2.2 rfl⟩

theorem parseNat_digits {d : Bytes} (h : DigitStr d) : parseNat d = some (digitsVal d) := by
  have hs : strip d = d := strip_of_ends d h.head_not_ws h.last_not_ws
  simp only [parseNat, hs]
  rw [if_pos ⟨h.1, h.2.1, h.2.2⟩]

end TwistedProps.C25
