import TwistedProps.C25.Loops
import TwistedProps.C25.Parse
import TwistedProps.C25.Gen
/-!
C25 — static file range requests return exactly the requested bytes.

Statement (properties.jsonl): for any file content, Range header value (valid or not, single or
multiple, suffix, open-ended or unsatisfiable) and GET or HEAD request, a static file resource
responds with the whole content (200) when the header is absent or malformed, with exactly the
requested byte ranges and matching Content-Range and Content-Length (206, multipart for several
ranges) when some range is satisfiable per RFC 9110, and with 416 otherwise.  It never fails with
an internal error.

The model (`TwistedModel/Http/Range.lean`) follows `twisted/web/static.py` after the repair commit
"fix: static.File range requests never fail internally and follow RFC 9110".  The theorems hold
for every content, content type, boundary, header and every buffer size `bs > 0`
(the code's `bufferSize` is 65536).  `resolve` is the RFC 9110 §14.1.2 reference; a zero-length
file is taken to have no satisfiable range (no valid `Content-Range` exists for it).

`gen_*`: `_rangeToOffsetAndSize` is regenerated from static.py on every run (`Generated.Range`,
harness/py2lean.py) and proved equal to the model's `r2os` on every range the parser can produce
(`TwistedProps/C25/Gen.lean`).
-/
namespace TwistedProps.C25
open Twisted.Http.Range

/-- syntactic validity of a range-spec (RFC 9110 §14.1.1: last-pos ≥ first-pos) -/
def valid : Rng → Prop
  | .fromTo a b => a ≤ b
  | _ => True

instance : DecidablePred valid := fun r => by cases r <;> simp only [valid] <;> infer_instance

/-- RFC 9110 §14.1.2: the inclusive byte positions `(first, last)` a range-spec selects in a
    representation of `size` bytes, `none` when it is unsatisfiable. -/
def resolve (size : Nat) : Rng → Option (Nat × Nat)
  | .fromTo a b => if a < size then some (a, min b (size - 1)) else none
  | .from a => if a < size then some (a, size - 1) else none
  | .suffix n => if n = 0 ∨ size = 0 then none else some (size - min n size, size - 1)

/-- bytes `first ..= last` of the content -/
def slice (content : Bytes) (first last : Nat) : Bytes := (content.drop first).take (last - first + 1)

theorem r2os_of_resolve_some {size : Nat} {r : Rng} {f l : Nat} (hv : valid r)
    (h : resolve size r = some (f, l)) : r2os size r = (f, l - f + 1) ∧ f ≤ l ∧ l < size := by
  cases r <;> simp only [valid, resolve, r2os] at * <;> grind

theorem r2os_of_resolve_none {size : Nat} {r : Rng} (h : resolve size r = none) :
    r2os size r = (0, 0) := by
  cases r <;> simp only [resolve, r2os] at * <;> grind

/-- offsets are always inside the file, whatever the range (even a syntactically invalid one) -/
theorem r2os_within (size : Nat) (r : Rng) : (r2os size r).1 + (r2os size r).2 ≤ size := by
  cases r <;> simp only [r2os] <;> grind

/-- `(0, 0)` is never the answer for a satisfiable range, so the sentinel is unambiguous -/
theorem r2os_ne_zero {size : Nat} {r : Rng} {f l : Nat} (hv : valid r)
    (h : resolve size r = some (f, l)) : ¬ ((r2os size r).1 = 0 ∧ (r2os size r).2 = 0) := by
  have := r2os_of_resolve_some hv h
  rw [this.1]; simp

/-! ### what the parser returns -/

theorem parseSpec_valid {e : Bytes} {r : Rng} (h : parseSpec e = some r) : valid r := by
  unfold parseSpec at h
  repeat' split at h
  all_goals first | (simp at h; done) | skip
  all_goals (simp only [Option.some.injEq] at h; subst h; simp only [valid])
  omega

theorem parseElems_valid {es : List Bytes} {rs : List Rng} (h : parseElems es = some rs) :
    ∀ r ∈ rs, valid r := by
  induction es generalizing rs with
  | nil => simp [parseElems] at h; subst h; simp
  | cons e es ih =>
    unfold parseElems at h
    split at h
    · simp at h
    · rename_i r hr
      split at h
      · simp at h
      · rename_i rs' hrs
        simp only [Option.some.injEq] at h
        subst h
        intro x hx
        simp only [List.mem_cons] at hx
        rcases hx with rfl | hx
        · exact parseSpec_valid hr
        · exact ih hrs x hx

/-- `_parseRangeHeader` returns at least one range, and `first-pos ≤ last-pos` in each -/
theorem parse_valid {h : Bytes} {rs : List Rng} (hp : parseRangeHeader h = some rs) :
    rs ≠ [] ∧ ∀ r ∈ rs, valid r := by
  unfold parseRangeHeader at hp
  split at hp
  · simp at hp
  · split at hp
    · simp at hp
    · split at hp
      · simp at hp
      · simp at hp
      · rename_i rs' hne hrs
        simp only [Option.some.injEq] at hp
        subst hp
        exact ⟨hne, parseElems_valid hrs⟩

/-! ### the translator-regenerated `_rangeToOffsetAndSize` (see `TwistedProps/C25/Gen.lean`) -/

/-- generated `_rangeToOffsetAndSize` = model `r2os` on every syntactically valid range-spec -/
theorem gen_r2os (size : Nat) (r : Rng) (hv : valid r) : genR2os size r = asInt (r2os size r) := by
  cases r with
  | fromTo a b => exact gen_r2os_fromTo_eq size a b hv
  | «from» a => exact gen_r2os_from_eq size a
  | suffix n => exact gen_r2os_suffix_eq size n

/-- … hence on every range of every header `_parseRangeHeader` accepts -/
theorem gen_r2os_of_parse {h : Bytes} {rs : List Rng} (hp : parseRangeHeader h = some rs) (size : Nat) :
    ∀ r ∈ rs, genR2os size r = asInt (r2os size r) :=
  fun r hr => gen_r2os size r ((parse_valid hp).2 r hr)

/-- over the generated definition: the range handed to the producers lies inside the file -/
theorem gen_r2os_within (size : Nat) (r : Rng) (hv : valid r) :
    0 ≤ (genR2os size r).1 ∧ 0 ≤ (genR2os size r).2 ∧ (genR2os size r).1 + (genR2os size r).2 ≤ size := by
  have h := r2os_within size r
  rw [gen_r2os size r hv]
  simp only [asInt]
  omega

example : genR2os 10 (.suffix 3) = (7, 3) ∧ genR2os 10 (.fromTo 2 100) = (2, 8) ∧ genR2os 10 (.from 10) = (0, 0) := by
  decide

/-! ### the response -/

theorem slice_eq_readAt (c : Bytes) (f l : Nat) : slice c f l = readAt c f (l - f + 1) := rfl

theorem slice_length (c : Bytes) (f l : Nat) (h : l < c.length) (hfl : f ≤ l) :
    (slice c f l).length = l - f + 1 := by
  rw [slice_eq_readAt, readAt_length]; omega

/-- HEAD: the Range header is not looked at (RFC 9110 §14.2: range handling is defined for GET
    only); whole-content headers, no body. -/
theorem head_gives_200_headers (bs : Nat) (content ctype boundary : Bytes) (range : Option Bytes) :
    respond bs content ctype boundary true range = ⟨200, content.length, none, false, some []⟩ := by
  simp [respond]

/-- **C25 (a)** GET without a Range header, or with one `_parseRangeHeader` refuses: 200, the whole
    content, `Content-Length` = file size, no `Content-Range`. -/
theorem absent_or_malformed_gives_200_whole (bs : Nat) (content ctype boundary : Bytes)
    (range : Option Bytes)
    (h : range = none ∨ ∃ hv, range = some hv ∧ parseRangeHeader hv = none) :
    respond bs content ctype boundary false range = ⟨200, content.length, none, false, some content⟩ := by
  have : range.bind parseRangeHeader = none := by
    rcases h with rfl | ⟨hv, rfl, hp⟩
    · rfl
    · simpa using hp
  simp [respond, this]

/-- **C25 (b1)** GET with one range-spec that RFC 9110 resolves to bytes `f ..= l`: 206, exactly
    those bytes, `Content-Range: bytes f-l/size`, `Content-Length` = number of bytes sent. -/
theorem single_satisfiable_gives_exact_bytes_206 (bs : Nat) (hbs : 0 < bs)
    (content ctype boundary h : Bytes) (r : Rng) (f l : Nat)
    (hp : parseRangeHeader h = some [r]) (hs : resolve content.length r = some (f, l)) :
    respond bs content ctype boundary false (some h)
      = ⟨206, l - f + 1, some (contentRange content.length f (l - f + 1)), false, some (slice content f l)⟩
    ∧ (slice content f l).length = l - f + 1 := by
  have hv : valid r := (parse_valid hp).2 r (by simp)
  obtain ⟨hos, hfl, hl⟩ := r2os_of_resolve_some hv hs
  have hb : srLoop content bs (l - f + 1 + 1) f (l - f + 1) 0 = some (readAt content f (l - f + 1)) := by
    have := srLoop_spec content bs hbs (l - f + 1 + 1) f (l - f + 1) 0 (by omega) (by omega) (by omega)
    simpa using this
  refine ⟨?_, slice_length _ _ _ hl hfl⟩
  simp [respond, hp, hos, hb, slice_eq_readAt]

/-- **C25 (c1)** GET with one range-spec that is unsatisfiable: 416, `Content-Range: bytes */size`,
    empty body. -/
theorem single_unsatisfiable_gives_416 (bs : Nat) (content ctype boundary h : Bytes) (r : Rng)
    (hp : parseRangeHeader h = some [r]) (hs : resolve content.length r = none) :
    respond bs content ctype boundary false (some h)
      = ⟨416, 0, some (unsatRange content.length), false, some []⟩ := by
  have hos := r2os_of_resolve_none hs
  simp [respond, hp, hos, srLoop, readAt]

/-- the `rangeInfo` entry for resolved positions `(first, last)` -/
def partOf (size : Nat) (boundary ctype : Bytes) (fl : Nat × Nat) : Part :=
  ⟨partSeparator boundary ctype (contentRange size fl.1 (fl.2 - fl.1 + 1)), fl.1, fl.2 - fl.1 + 1⟩

theorem rangeParts_eq (size : Nat) (boundary ctype : Bytes) (rs : List Rng) (hv : ∀ r ∈ rs, valid r) :
    rangeParts size boundary ctype rs = (rs.filterMap (resolve size)).map (partOf size boundary ctype) := by
  induction rs with
  | nil => simp [rangeParts]
  | cons r rs ih =>
    have ih' := ih (fun x hx => hv x (by simp [hx]))
    unfold rangeParts
    cases hres : resolve size r with
    | none =>
      have := r2os_of_resolve_none hres
      simp [this, hres, ih']
    | some fl =>
      obtain ⟨f, l⟩ := fl
      have hvr := hv r (by simp)
      have hos := (r2os_of_resolve_some hvr hres).1
      have hne' : ¬ (f = 0 ∧ l - f + 1 = 0) := by omega
      simp only [hos, hne', if_false, ih', List.filterMap_cons, hres, List.map_cons, partOf]

theorem mrRun_spec (c : Bytes) (bs : Nat) (hbs : 0 < bs) (info : List Part) (hne : info ≠ [])
    (hin : ∀ q ∈ info, q.off + q.size ≤ c.length) :
    mrRun c bs info = some (info.flatMap fun q => q.sep ++ readAt c q.off q.size) := by
  cases info with
  | nil => exact absurd rfl hne
  | cons q rest =>
    have hq := hin q (by simp)
    simp only [mrRun]
    rw [mrLoop_spec c bs hbs _ ⟨q.sep, q.off, q.size, 0, rest⟩ 0 (by simp) (by simpa using hq)
      (fun x hx => hin x (by simp [hx]))]
    · simp [pending]
    · have h0 : ¬ (0 ≥ bs) := by omega
      simp only [mu, mrFuel, partsBytes, h0, if_false, List.length_cons]
      omega

theorem flatMap_parts_length (c : Bytes) (parts : List Part) (hin : ∀ q ∈ parts, q.off + q.size ≤ c.length) :
    (parts.flatMap fun q => q.sep ++ readAt c q.off q.size).length
      = partsBytes parts + (parts.map (·.sep.length)).sum := by
  induction parts with
  | nil => simp [partsBytes]
  | cons q qs ih =>
    have := ih (fun x hx => hin x (by simp [hx]))
    have hq := readAt_length c q.off q.size (hin q (by simp))
    simp only [List.flatMap_cons, List.length_append, this, hq, partsBytes, List.map_cons, List.sum_cons]
    omega

/-- the multipart/byteranges body RFC 9110 §14.6 asks for: for every satisfiable range, in the
    order requested, a separator carrying its `Content-Range` followed by exactly its bytes;
    then the close delimiter. -/
def multipartBody (content boundary ctype : Bytes) (sat : List (Nat × Nat)) : Bytes :=
  (sat.flatMap fun fl =>
      partSeparator boundary ctype (contentRange content.length fl.1 (fl.2 - fl.1 + 1))
        ++ slice content fl.1 fl.2)
    ++ finalBoundary boundary

theorem resolve_mem_within {size : Nat} {rs : List Rng} (hv : ∀ r ∈ rs, valid r) :
    ∀ fl ∈ rs.filterMap (resolve size), fl.1 ≤ fl.2 ∧ fl.2 < size := by
  intro fl hfl
  simp only [List.mem_filterMap] at hfl
  obtain ⟨r, hr, hres⟩ := hfl
  obtain ⟨f, l⟩ := fl
  have := r2os_of_resolve_some (hv r hr) hres
  exact ⟨this.2.1, this.2.2⟩

/-- **C25 (b2)** GET with several range-specs of which at least one is satisfiable: 206
    multipart/byteranges; the body is exactly `multipartBody` over the satisfiable ranges in
    request order, and `Content-Length` is its length. -/
theorem multi_satisfiable_gives_exact_bytes_206 (bs : Nat) (hbs : 0 < bs)
    (content ctype boundary h : Bytes) (rs : List Rng)
    (hp : parseRangeHeader h = some rs) (hlen : rs.length ≠ 1)
    (hsat : rs.filterMap (resolve content.length) ≠ []) :
    respond bs content ctype boundary false (some h)
      = ⟨206, (multipartBody content boundary ctype (rs.filterMap (resolve content.length))).length,
          none, true, some (multipartBody content boundary ctype (rs.filterMap (resolve content.length)))⟩ := by
  have hv := (parse_valid hp).2
  have hparts := rangeParts_eq content.length boundary ctype rs hv
  have hwithin := resolve_mem_within (size := content.length) hv
  generalize hsatdef : rs.filterMap (resolve content.length) = sat at *
  have hpin : ∀ q ∈ sat.map (partOf content.length boundary ctype), q.off + q.size ≤ content.length := by
    intro q hq
    simp only [List.mem_map] at hq
    obtain ⟨fl, hfl, rfl⟩ := hq
    have := hwithin fl hfl
    simp only [partOf]; omega
  have hinfo : ∀ q ∈ sat.map (partOf content.length boundary ctype) ++ [(⟨finalBoundary boundary, 0, 0⟩ : Part)],
      q.off + q.size ≤ content.length := by
    intro q hq
    simp only [List.mem_append, List.mem_singleton] at hq
    rcases hq with hq | rfl
    · exact hpin q hq
    · simp
  have hrun := mrRun_spec content bs hbs _ (by simp) hinfo
  have hbody : ((sat.map (partOf content.length boundary ctype) ++ [(⟨finalBoundary boundary, 0, 0⟩ : Part)]).flatMap
      fun q => q.sep ++ readAt content q.off q.size) = multipartBody content boundary ctype sat := by
    simp [multipartBody, List.flatMap_append, List.flatMap_map, partOf, slice_eq_readAt, readAt_zero]
  have hcl := flatMap_parts_length content _ hpin
  have hne : sat.map (partOf content.length boundary ctype) ≠ [] := by simpa using hsat
  match rs, hlen, hp, hparts with
  | [], _, hp, hparts => simp at hsatdef; exact absurd hsatdef hsat
  | [_], hlen, _, _ => simp at hlen
  | r1 :: r2 :: rest, _, hp, hparts =>
    simp only [respond, hp, hparts, hne, hrun, hbody, Bool.false_eq_true, if_false, Option.bind_some]
    congr 1
    rw [← hbody, List.flatMap_append, List.length_append, hcl]
    simp [readAt_zero]

/-- **C25 (c2)** GET with several range-specs none of which is satisfiable: 416,
    `Content-Range: bytes */size`, `Content-Length: 0`, empty body. -/
theorem multi_unsatisfiable_gives_416 (bs : Nat) (hbs : 0 < bs)
    (content ctype boundary h : Bytes) (rs : List Rng)
    (hp : parseRangeHeader h = some rs) (hlen : rs.length ≠ 1)
    (hsat : rs.filterMap (resolve content.length) = []) :
    respond bs content ctype boundary false (some h)
      = ⟨416, 0, some (unsatRange content.length), false, some []⟩ := by
  have hv := (parse_valid hp).2
  have hparts := rangeParts_eq content.length boundary ctype rs hv
  rw [hsat] at hparts
  have hrun := mrRun_spec content bs hbs [⟨[], 0, 0⟩] (by simp) (by simp)
  match rs, hlen, hp, hparts with
  | [], _, hp, _ => exact absurd rfl (parse_valid hp).1
  | [_], hlen, _, _ => simp at hlen
  | r1 :: r2 :: rest, _, hp, hparts =>
    simp [respond, hp, hparts, hrun, readAt_zero]

/-- **C25 (d)** whatever the method, header (absent, malformed, any ranges), content and buffer
    size: the status is 200, 206 or 416 (never a 5xx), the producer finishes (`body` is `some`),
    and for GET the body has exactly `Content-Length` bytes.  Every seek/read stayed inside the
    file: that is `r2os_within`, the hypothesis under which `srLoop_spec`/`mrLoop_spec` hold. -/
theorem never_internal_error (bs : Nat) (hbs : 0 < bs) (content ctype boundary : Bytes)
    (isHead : Bool) (range : Option Bytes) :
    ((respond bs content ctype boundary isHead range).code = 200
      ∨ (respond bs content ctype boundary isHead range).code = 206
      ∨ (respond bs content ctype boundary isHead range).code = 416)
    ∧ ∃ b, (respond bs content ctype boundary isHead range).body = some b
        ∧ (isHead = false → b.length = (respond bs content ctype boundary isHead range).contentLength) := by
  cases isHead with
  | true => rw [head_gives_200_headers]; simp
  | false =>
    cases hb : range.bind parseRangeHeader with
    | none =>
      have : range = none ∨ ∃ hv, range = some hv ∧ parseRangeHeader hv = none := by
        cases range with
        | none => exact Or.inl rfl
        | some hv => exact Or.inr ⟨hv, rfl, by simpa using hb⟩
      rw [absent_or_malformed_gives_200_whole _ _ _ _ _ this]; simp
    | some rs =>
      obtain ⟨h, rfl, hp⟩ : ∃ h, range = some h ∧ parseRangeHeader h = some rs := by
        cases range with
        | none => simp at hb
        | some hv => exact ⟨hv, rfl, by simpa using hb⟩
      by_cases hlen : rs.length = 1
      · obtain ⟨r, rfl⟩ : ∃ r, rs = [r] := by
          match rs, hlen with
          | [r], _ => exact ⟨r, rfl⟩
        cases hs : resolve content.length r with
        | none => rw [single_unsatisfiable_gives_416 _ _ _ _ _ _ hp hs]; simp
        | some fl =>
          obtain ⟨f, l⟩ := fl
          obtain ⟨h1, h2⟩ := single_satisfiable_gives_exact_bytes_206 bs hbs content ctype boundary h r f l hp hs
          rw [h1]; simp [h2]
      · by_cases hsat : rs.filterMap (resolve content.length) = []
        · rw [multi_unsatisfiable_gives_416 bs hbs _ _ _ _ _ hp hlen hsat]; simp
        · rw [multi_satisfiable_gives_exact_bytes_206 bs hbs _ _ _ _ _ hp hlen hsat]; simp

/-! ### well-formed headers are parsed to the ranges they denote -/

/-- concrete syntax of one RFC 9110 range-spec: the digit strings as sent (leading zeros allowed) -/
inductive SpecSyn where
  | fromTo (da db : Bytes)
  | from (da : Bytes)
  | suffix (dn : Bytes)

def SpecSyn.render : SpecSyn → Bytes
  | .fromTo da db => da ++ 45 :: db
  | .from da => da ++ [45]
  | .suffix dn => 45 :: dn

/-- `1*DIGIT` positions (at most 4300 digits, CPython's limit) and `first-pos ≤ last-pos` -/
def SpecSyn.wf : SpecSyn → Prop
  | .fromTo da db => DigitStr da ∧ DigitStr db ∧ digitsVal da ≤ digitsVal db
  | .from da => DigitStr da
  | .suffix dn => DigitStr dn

def SpecSyn.sem : SpecSyn → Rng
  | .fromTo da db => .fromTo (digitsVal da) (digitsVal db)
  | .from da => .from (digitsVal da)
  | .suffix dn => .suffix (digitsVal dn)

/-- `bytes=` followed by the comma-separated range-specs -/
def renderHeader (ss : List SpecSyn) : Bytes := bytesUnit ++ 61 :: joinWith 44 (ss.map SpecSyn.render)

theorem parseSpec_render (s : SpecSyn) (h : s.wf) : parseSpec s.render = some s.sem := by
  cases s with
  | fromTo da db =>
    obtain ⟨ha, hb, hle⟩ := h
    simp only [SpecSyn.render, parseSpec, splitOnce_append 45 da db ha.not_mem.1, SpecSyn.sem]
    simp [ha.1, hb.1, parseNat_digits ha, parseNat_digits hb]
    omega
  | «from» da =>
    have ha : DigitStr da := h
    simp only [SpecSyn.render, parseSpec, splitOnce_append 45 da [] ha.not_mem.1, SpecSyn.sem]
    simp [ha.1, parseNat_digits ha]
  | suffix dn =>
    have hn : DigitStr dn := h
    have := splitOnce_append 45 [] dn (by simp)
    simp only [List.nil_append] at this
    simp only [SpecSyn.render, parseSpec, this, SpecSyn.sem]
    simp [hn.1, parseNat_digits hn]

theorem render_facts (s : SpecSyn) (h : s.wf) :
    s.render ≠ [] ∧ (44 : UInt8) ∉ s.render ∧ strip s.render = s.render := by
  have hws : isWs 45 = false := by decide
  cases s with
  | fromTo da db =>
    obtain ⟨ha, hb, _⟩ := h
    refine ⟨by simp [SpecSyn.render], ?_, ?_⟩
    · simp only [SpecSyn.render, List.mem_append, List.mem_cons]
      intro hm
      rcases hm with hm | hm | hm
      · exact ha.not_mem.2.1 hm
      · exact absurd hm (by decide)
      · exact hb.not_mem.2.1 hm
    · apply strip_of_ends
      · intro x hx
        apply ha.head_not_ws x
        cases da with
        | nil => exact absurd rfl ha.1
        | cons c cs => simpa [SpecSyn.render] using hx
      · intro x hx
        apply hb.last_not_ws x
        cases db with
        | nil => exact absurd rfl hb.1
        | cons c cs => simpa [SpecSyn.render, List.getLast?_append] using hx
  | «from» da =>
    have ha : DigitStr da := h
    refine ⟨by simp [SpecSyn.render], ?_, ?_⟩
    · simp only [SpecSyn.render, List.mem_append, List.mem_singleton]
      intro hm
      rcases hm with hm | hm
      · exact ha.not_mem.2.1 hm
      · exact absurd hm (by decide)
    · apply strip_of_ends
      · intro x hx
        apply ha.head_not_ws x
        cases da with
        | nil => exact absurd rfl ha.1
        | cons c cs => simpa [SpecSyn.render] using hx
      · intro x hx
        simp [SpecSyn.render] at hx
        subst hx; exact hws
  | suffix dn =>
    have hn : DigitStr dn := h
    refine ⟨by simp [SpecSyn.render], ?_, ?_⟩
    · simp only [SpecSyn.render, List.mem_cons]
      intro hm
      rcases hm with hm | hm
      · exact absurd hm (by decide)
      · exact hn.not_mem.2.1 hm
    · apply strip_of_ends
      · intro x hx
        simp [SpecSyn.render] at hx
        subst hx; exact hws
      · intro x hx
        apply hn.last_not_ws x
        cases dn with
        | nil => exact absurd rfl hn.1
        | cons c cs => simpa [SpecSyn.render, List.getLast?_cons_cons] using hx

theorem parseElems_render (ss : List SpecSyn) (h : ∀ s ∈ ss, s.wf) :
    parseElems (ss.map SpecSyn.render) = some (ss.map SpecSyn.sem) := by
  induction ss with
  | nil => simp [parseElems]
  | cons s ss ih =>
    simp [parseElems, parseSpec_render s (h s (by simp)), ih (fun x hx => h x (by simp [hx]))]

/-- **C25 (e)** every header `bytes=spec,spec,…` built from well-formed range-specs is accepted
    and parsed to exactly the ranges it denotes (so the 206/416 theorems apply to it). -/
theorem wellformed_header_parses (ss : List SpecSyn) (hne : ss ≠ []) (h : ∀ s ∈ ss, s.wf) :
    parseRangeHeader (renderHeader ss) = some (ss.map SpecSyn.sem) := by
  have hsplit : splitOnce 61 (renderHeader ss) = some (bytesUnit, joinWith 44 (ss.map SpecSyn.render)) :=
    splitOnce_append 61 bytesUnit _ (by decide)
  have hunit : ¬ ((strip bytesUnit).map lower ≠ bytesUnit) := by decide
  have hel : elements (joinWith 44 (ss.map SpecSyn.render)) = ss.map SpecSyn.render := by
    simp only [elements]
    rw [splitAll_joinWith 44 _ (by simpa using hne)]
    · rw [List.map_map]
      have : ∀ s ∈ ss, (strip ∘ SpecSyn.render) s = SpecSyn.render s := fun s hs => (render_facts s (h s hs)).2.2
      rw [List.map_congr_left this]
      apply List.filter_eq_self.mpr
      intro e he
      simp only [List.mem_map] at he
      obtain ⟨s, hs, rfl⟩ := he
      simpa using (render_facts s (h s hs)).1
    · intro p hp
      simp only [List.mem_map] at hp
      obtain ⟨s, hs, rfl⟩ := hp
      exact (render_facts s (h s hs)).2.1
  simp only [parseRangeHeader, hsplit, hunit, if_false, hel, parseElems_render ss h]
  cases ss with
  | nil => exact absurd rfl hne
  | cons s ss => simp

/-- malformed class: no `=` at all -/
theorem no_equals_refused (h : Bytes) (hne : (61 : UInt8) ∉ h) : parseRangeHeader h = none := by
  have : splitOnce 61 h = none := by
    induction h with
    | nil => rfl
    | cons c cs ih =>
      have hc : c ≠ 61 := fun e => hne (by simp [e])
      simp [splitOnce, hc, ih (fun e => hne (by simp [e]))]
  simp [parseRangeHeader, this]

/-- malformed class: a number with any non-digit byte after stripping (sign, underscore, letter,
    inner space, …) is refused by `_parseRangeInt` — no `int()` leniency. -/
theorem nondigit_number_refused (s : Bytes) (b : UInt8) (hb : b ∈ strip s) (hd : isDigit b = false) :
    parseNat s = none := by
  simp only [parseNat]
  rw [if_neg]
  intro ⟨_, hall, _⟩
  simp only [List.all_eq_true] at hall
  have := hall b hb
  simp [hd] at this

/-! ### Non-vacuity: the hypotheses are met by concrete, non-trivial values -/

def content10 : Bytes := [10, 11, 12, 13, 14, 15, 16, 17, 18, 19]
def hdr (s : String) : Bytes := ofChars s.toList

-- single range; the former defect `bytes=-20` on a 10-byte file now selects the whole file
example : parseRangeHeader (hdr "bytes=2-5") = some [.fromTo 2 5] ∧ resolve 10 (.fromTo 2 5) = some (2, 5) := by decide
example : parseRangeHeader (hdr "bytes=-20") = some [.suffix 20] ∧ resolve 10 (.suffix 20) = some (0, 9) := by decide
example : respond 4 content10 [116] [98] false (some (hdr "bytes=-20"))
    = ⟨206, 10, some (hdr "bytes 0-9/10"), false, some content10⟩ := by decide
example : respond 4 content10 [116] [98] false (some (hdr "bytes=2-5"))
    = ⟨206, 4, some (hdr "bytes 2-5/10"), false, some [12, 13, 14, 15]⟩ := by decide
-- several ranges (one unsatisfiable, overlapping, whitespace, empty element); buffer of 4 bytes
example : parseRangeHeader (hdr "Bytes = 2-5 ,, -3,40-") = some [.fromTo 2 5, .suffix 3, .from 40]
    ∧ [Rng.fromTo 2 5, .suffix 3, .from 40].filterMap (resolve 10) = [(2, 5), (7, 9)] := by decide
example : (respond 4 content10 [116] [98] false (some (hdr "Bytes = 2-5 ,, -3,40-"))).body
    = some (multipartBody content10 [98] [116] [(2, 5), (7, 9)]) := by decide
-- unsatisfiable: single and multiple
example : parseRangeHeader (hdr "bytes=10-") = some [.from 10] ∧ resolve 10 (.from 10) = none := by decide
example : parseRangeHeader (hdr "bytes=100-200,300-400") = some [.fromTo 100 200, .fromTo 300 400]
    ∧ [Rng.fromTo 100 200, .fromTo 300 400].filterMap (resolve 10) = [] := by decide
example : (respond 4 content10 [116] [98] false (some (hdr "bytes=100-200,300-400"))).code = 416 := by decide
-- malformed spellings that `int()` used to accept, empty range set, reversed range, other unit
example : parseRangeHeader (hdr "bytes=+5-") = none ∧ parseRangeHeader (hdr "bytes=1_0-") = none
    ∧ parseRangeHeader (hdr "bytes=--5") = none ∧ parseRangeHeader (hdr "bytes=") = none
    ∧ parseRangeHeader (hdr "bytes=5-2") = none ∧ parseRangeHeader (hdr "items=0-1") = none := by decide
-- a well-formed concrete syntax with leading zeros
example : (SpecSyn.fromTo (hdr "007") (hdr "12")).wf ∧ (SpecSyn.suffix (hdr "3")).wf := by
  refine ⟨⟨⟨by decide, by decide, by decide⟩, ⟨by decide, by decide, by decide⟩, by decide⟩, ⟨by decide, by decide, by decide⟩⟩
example : renderHeader [.fromTo (hdr "007") (hdr "12"), .suffix (hdr "3")] = hdr "bytes=007-12,-3" := by decide
-- the loops' hypotheses: a state in the middle of a part, inside the file
example : mrLoop content10 4 40 ⟨[1, 2, 3, 4, 5], 2, 6, 1, [⟨[9], 0, 2⟩]⟩ 3
    = some (pending content10 ⟨[1, 2, 3, 4, 5], 2, 6, 1, [⟨[9], 0, 2⟩]⟩) := by decide

/-! ### a reused `File` object (mutation audit: per-object state, stale stat) -/

/-- **C25 (e)** the answer of a `File` object to a request does not depend on the requests it served before
    (other headers, the same header, the file having had another size or content then): it is the answer a
    fresh object gives to that request alone. -/
theorem serve_history_independent (bs : Nat) (ctype : Bytes) (pre : List Req) (q : Req) :
    (serve bs ctype (pre ++ [q])).getLast? = some (respond bs q.content ctype q.boundary q.isHead q.range) := by
  simp [serve]

/-- every answer in such a sequence is one of 200/206/416, finishes, and has `Content-Length` body bytes -/
theorem serve_never_internal_error (bs : Nat) (hbs : 0 < bs) (ctype : Bytes) (reqs : List Req) :
    ∀ r ∈ serve bs ctype reqs, (r.code = 200 ∨ r.code = 206 ∨ r.code = 416) ∧ ∃ b, r.body = some b := by
  intro r hr
  obtain ⟨q, _, rfl⟩ := List.mem_map.mp hr
  obtain ⟨hc, b, hb, _⟩ := never_internal_error bs hbs q.content ctype q.boundary q.isHead q.range
  exact ⟨hc, b, hb⟩

/-- non-vacuity: the second answer is computed from the file as it is NOW (20 bytes), not as it was (10 bytes) -/
example : ((serve 4 [116] [⟨false, content10, [98], some (hdr "bytes=-5")⟩,
                          ⟨false, content10 ++ content10, [98], some (hdr "bytes=-5")⟩]).map (·.contentRange))
    = [some (hdr "bytes 5-9/10"), some (hdr "bytes 15-19/20")] := by decide

-- classes added by the mutation audit: zero-padded numbers are numbers, non-ASCII digits are not
example : parseRangeHeader (hdr "bytes=007-9,-03") = some [.fromTo 7 9, .suffix 3] := by decide
example : parseRangeHeader ([98, 121, 116, 101, 115, 61, 0xd9, 0xa3, 45]) = none := by decide
example : (respond 4 content10 [116] [98] false (some (hdr "bytes=0-5"))).body = some (content10.take 6) := by decide

end TwistedProps.C25
