import TwistedModel.Http.H2Flow
/-!
C29 — helper lemmas: the per-stream and per-connection invariants of the model of `_http2.py`
and their preservation by every handler.  The property statements are in `TwistedProps/C29.lean`.
-/
namespace TwistedProps.C29
open Twisted.Http.H2Flow

/-! ### the frame cut -/

theorem cutFrame_fits (mf : Nat) (rem : Int) (b : Bytes) (rest : List Chunk) :
    (cutFrame mf rem b rest).1.length ≤ mf ∧
    ((cutFrame mf rem b rest).1.length = 0 ∨ ((cutFrame mf rem b rest).1.length : Int) ≤ rem) := by
  unfold cutFrame
  split
  · simp only [List.length_take]
    omega
  · simp only
    omega

theorem cutFrame_bytes (mf : Nat) (rem : Int) (b : Bytes) (rest : List Chunk) :
    (cutFrame mf rem b rest).1 ++ qbytes (cutFrame mf rem b rest).2 = b ++ qbytes rest := by
  unfold cutFrame
  split
  · simp [qbytes, ← List.append_assoc]
  · rfl

theorem cutFrame_queue (mf : Nat) (rem : Int) (b : Bytes) (rest : List Chunk) :
    (cutFrame mf rem b rest).2 = rest ∨ ∃ x, x ≠ [] ∧ (cutFrame mf rem b rest).2 = .data x :: rest := by
  unfold cutFrame
  split
  · rename_i h
    right
    refine ⟨_, ?_, rfl⟩
    intro h0
    have := congrArg List.length h0
    simp only [List.length_drop, List.length_nil] at this
    omega
  · left; rfl

theorem cutFrame_progress (mf : Nat) (rem : Int) (b : Bytes) (rest : List Chunk)
    (hmf : 0 < mf) (hrem : 0 < rem) (hb : b ≠ []) : (cutFrame mf rem b rest).1 ≠ [] := by
  have hl : 0 < b.length := List.length_pos_iff.mpr hb
  unfold cutFrame
  split
  · intro h
    have := congrArg List.length h
    simp only [List.length_take, List.length_nil] at this
    omega
  · exact hb

theorem qbytes_append (p q : List Chunk) : qbytes (p ++ q) = qbytes p ++ qbytes q := by
  induction p with
  | nil => rfl
  | cons c p ih => cases c <;> simp [qbytes, ih]

/-! ### events of one iteration -/

theorem fcb_events (sid : Nat) (st : Stream) (e : Ev) (h : e ∈ (flowControlBlocked sid st).2) : e = .pause sid := by
  unfold flowControlBlocked at h
  split at h <;> simp_all

theorem afterSend_events (s : State) (sid : Nat) (st : Stream) (frame : Bytes) (q : List Chunk) (e : Ev)
    (h : e ∈ (afterSend s sid st frame q).2) : (e = .data sid frame ∧ 0 < frame.length) ∨ e = .pause sid := by
  unfold afterSend at h
  rcases List.mem_append.mp h with h | h
  · split at h
    · left; simp_all
    · simp at h
  · right
    split at h
    · exact fcb_events _ _ _ h
    · simp at h

theorem sendOn_frames_fit' (s : State) (sid : Nat) (st : Stream) :
    Ev.flowErr ∉ (sendOn s sid st).2 ∧
    ∀ sid' b, Ev.data sid' b ∈ (sendOn s sid st).2 →
      sid' = sid ∧ 0 < b.length ∧ b.length ≤ s.maxFrame ∧ (b.length : Int) ≤ s.connWindow ∧ (b.length : Int) ≤ st.window := by
  unfold sendOn
  split
  · simp
  · simp
  · rename_i b rest _
    have hf := cutFrame_fits s.maxFrame (localWindow s.connWindow st) b rest
    by_cases hc : (cutFrame s.maxFrame (localWindow s.connWindow st) b rest).1.length > 0 ∧
        ((cutFrame s.maxFrame (localWindow s.connWindow st) b rest).1.length : Int) > localWindow s.connWindow st
    · omega
    · rw [if_neg hc]
      refine ⟨?_, ?_⟩
      · intro h
        rcases afterSend_events _ _ _ _ _ _ h with h | h <;> simp at h
      · intro sid' b' h
        rcases afterSend_events _ _ _ _ _ _ h with h | h
        · simp only [Ev.data.injEq] at h
          obtain ⟨⟨rfl, rfl⟩, hpos⟩ := h
          simp only [localWindow] at hf hc hpos ⊢
          refine ⟨trivial, ?_⟩
          omega
        · simp at h

/-! ### invariants -/

/-- what holds of every stream whatever the windows are -/
structure StreamOK0 (st : Stream) : Prop where
  act_nonempty : st.active = true → st.queue ≠ []
  fin_unfinished : st.finished = false → Chunk.fin ∉ st.queue
  fin_finished : st.finished = true → ∃ pre, st.queue = pre ++ [.fin] ∧ Chunk.fin ∉ pre
  conserve : st.wrote = st.sent ++ qbytes st.queue
  fin_active : Chunk.fin ∈ st.queue → st.active = true
  data_nonempty : ∀ b, Chunk.data b ∈ st.queue → b ≠ []

/-- … and: something queued and both windows open ⇒ schedulable -/
structure StreamOK (conn : Int) (st : Stream) : Prop extends StreamOK0 st where
  open_active : st.queue ≠ [] → 0 < localWindow conn st → st.active = true

/-- invariant without the window-dependent part and without the parked clause -/
structure Pre0 (s : State) : Prop where
  alive : s.loop ≠ .dead
  ok0 : ∀ i st, s.streams i = some st → StreamOK0 st
  dom : ∀ i st, s.streams i = some st → i ∈ s.ids
  closedOK : ∀ c ∈ s.closed, c.2.1 = c.2.2
  mfs : 0 < s.maxFrame

structure Pre (s : State) : Prop extends Pre0 s where
  open_active : ∀ i st, s.streams i = some st → st.queue ≠ [] → 0 < localWindow s.connWindow st → st.active = true

structure Inv (s : State) : Prop extends Pre s where
  parked : s.loop = .parked → ∀ i st, s.streams i = some st → st.active = false

theorem StreamOK0.congr {st st' : Stream} (h : StreamOK0 st) (hq : st'.queue = st.queue) (ha : st'.active = st.active)
    (hf : st'.finished = st.finished) (hw : st'.wrote = st.wrote) (hs : st'.sent = st.sent) : StreamOK0 st' := by
  constructor
  · rw [hq, ha]; exact h.act_nonempty
  · rw [hq, hf]; exact h.fin_unfinished
  · rw [hq, hf]; exact h.fin_finished
  · rw [hq, hw, hs]; exact h.conserve
  · rw [hq, ha]; exact h.fin_active
  · rw [hq]; exact h.data_nonempty

theorem fcb_fields (sid : Nat) (st : Stream) :
    (flowControlBlocked sid st).1.queue = st.queue ∧ (flowControlBlocked sid st).1.active = st.active ∧
    (flowControlBlocked sid st).1.finished = st.finished ∧ (flowControlBlocked sid st).1.wrote = st.wrote ∧
    (flowControlBlocked sid st).1.sent = st.sent ∧ (flowControlBlocked sid st).1.window = st.window := by
  unfold flowControlBlocked; split <;> simp

theorem wu_fields (conn : Int) (sid : Nat) (st : Stream) :
    (windowUpdated conn sid st).1.queue = st.queue ∧ (windowUpdated conn sid st).1.active = st.active ∧
    (windowUpdated conn sid st).1.finished = st.finished ∧ (windowUpdated conn sid st).1.wrote = st.wrote ∧
    (windowUpdated conn sid st).1.sent = st.sent ∧ (windowUpdated conn sid st).1.window = st.window := by
  unfold windowUpdated; split <;> simp

/-- the popped stream after a frame went out -/
theorem sentStream_ok0 {st : Stream} (h : StreamOK0 st) (b : Bytes) (rest : List Chunk) (hq : st.queue = .data b :: rest)
    (hact : st.active = true) (frame : Bytes) (q : List Chunk) (hb : frame ++ qbytes q = b ++ qbytes rest)
    (hqq : q = rest ∨ ∃ x, x ≠ [] ∧ q = .data x :: rest) : StreamOK0 (sentStream st frame q) := by
  have hfin : Chunk.fin ∈ q → Chunk.fin ∈ rest := by
    rcases hqq with rfl | ⟨x, _, rfl⟩
    · exact id
    · intro h; simpa using h
  constructor
  · simp only [sentStream]
    cases q <;> simp
  · intro hf
    simp only [sentStream] at hf ⊢
    have := h.fin_unfinished hf
    rw [hq] at this
    intro hm
    exact this (List.mem_cons_of_mem _ (hfin hm))
  · intro hf
    simp only [sentStream] at hf ⊢
    obtain ⟨pre, hp, hn⟩ := h.fin_finished hf
    rw [hq] at hp
    cases pre with
    | nil => simp at hp
    | cons c pre' =>
      simp only [List.cons_append, List.cons.injEq] at hp
      obtain ⟨rfl, rfl⟩ := hp
      have hn' : Chunk.fin ∉ pre' := fun hm => hn (List.mem_cons_of_mem _ hm)
      rcases hqq with rfl | ⟨x, _, rfl⟩
      · exact ⟨pre', rfl, hn'⟩
      · exact ⟨.data x :: pre', rfl, by simpa using hn'⟩
  · simp only [sentStream]
    rw [h.conserve, hq]
    simp only [qbytes, List.append_assoc]
    rw [hb]
  · intro hm
    simp only [sentStream] at hm ⊢
    have : q ≠ [] := by intro h0; rw [h0] at hm; simp at hm
    cases q with
    | nil => exact absurd rfl this
    | cons c q' => simpa using hact
  · intro x hx
    simp only [sentStream] at hx
    have hr : ∀ y, Chunk.data y ∈ rest → y ≠ [] := fun y hy => h.data_nonempty y (by rw [hq]; exact List.mem_cons_of_mem _ hy)
    rcases hqq with rfl | ⟨x', hx', rfl⟩
    · exact hr x hx
    · rcases List.mem_cons.mp hx with hx | hx
      · cases hx; exact hx'
      · exact hr x hx

theorem afterSend_proj (s : State) (sid : Nat) (st : Stream) (frame : Bytes) (q : List Chunk) :
    (afterSend s sid st frame q).1.loop = .sched ∧
    (afterSend s sid st frame q).1.connWindow = s.connWindow - frame.length ∧
    (afterSend s sid st frame q).1.ids = s.ids ∧ (afterSend s sid st frame q).1.closed = s.closed ∧
    (afterSend s sid st frame q).1.maxFrame = s.maxFrame ∧
    ∃ st', (∀ i, (afterSend s sid st frame q).1.streams i = if i = sid then some st' else s.streams i) ∧
      st'.queue = q ∧ st'.active = (sentStream st frame q).active ∧ st'.finished = st.finished ∧
      st'.wrote = st.wrote ∧ st'.sent = st.sent ++ frame ∧ st'.window = st.window - frame.length := by
  unfold afterSend
  refine ⟨rfl, rfl, rfl, rfl, rfl, ?_⟩
  split
  · have hf := fcb_fields sid (sentStream st frame q)
    exact ⟨_, fun i => rfl, hf.1, hf.2.1, hf.2.2.1, hf.2.2.2.1, hf.2.2.2.2.1, hf.2.2.2.2.2⟩
  · exact ⟨_, fun i => rfl, rfl, rfl, rfl, rfl, rfl, rfl⟩

theorem sendOn_inv (s : State) (hs : Pre s) (sid : Nat) (st : Stream) (hst : s.streams sid = some st)
    (hact : st.active = true) : Inv (sendOn s sid st).1 := by
  have hok := hs.ok0 sid st hst
  unfold sendOn
  split
  · rename_i hq
    exact absurd hq (hok.act_nonempty hact)
  · rename_i rest hq
    -- END_STREAM: the queue is exactly [fin]
    have hfin : st.finished = true := by
      cases hf : st.finished with
      | true => rfl
      | false => exact absurd (by rw [hq]; simp) (hok.fin_unfinished hf)
    obtain ⟨pre, hp, hn⟩ := hok.fin_finished hfin
    have hpre : pre = [] := by
      cases pre with
      | nil => rfl
      | cons c p => rw [hq] at hp; simp only [List.cons_append, List.cons.injEq] at hp; exact absurd (by rw [← hp.1]; simp) hn
    subst hpre
    have hws : st.wrote = st.sent := by rw [hok.conserve, hp]; simp [qbytes]
    refine { alive := by simp, ok0 := ?_, dom := ?_, closedOK := ?_, mfs := hs.mfs, open_active := ?_, parked := by simp }
    · intro i st' h
      simp only [del] at h
      split at h
      · simp at h
      · exact hs.ok0 i st' h
    · intro i st' h
      simp only [del] at h ⊢
      split at h
      · simp at h
      · rename_i hne
        exact List.mem_filter.mpr ⟨hs.dom i st' h, by simpa using hne⟩
    · intro c hc
      simp only [List.mem_append, List.mem_singleton] at hc
      rcases hc with hc | rfl
      · exact hs.closedOK c hc
      · exact hws
    · intro i st' h
      simp only [del] at h ⊢
      split at h
      · simp at h
      · exact hs.open_active i st' h
  · rename_i b rest hq
    have hf := cutFrame_fits s.maxFrame (localWindow s.connWindow st) b rest
    by_cases hc : (cutFrame s.maxFrame (localWindow s.connWindow st) b rest).1.length > 0 ∧
        ((cutFrame s.maxFrame (localWindow s.connWindow st) b rest).1.length : Int) > localWindow s.connWindow st
    · omega
    · rw [if_neg hc]
      obtain ⟨hl, hcw, hids, hcl, hmf, st', hstr, hq', ha', hf', hw', hs', hwin'⟩ :=
        afterSend_proj s sid st (cutFrame s.maxFrame (localWindow s.connWindow st) b rest).1
          (cutFrame s.maxFrame (localWindow s.connWindow st) b rest).2
      have hss := sentStream_ok0 hok b rest hq hact _ _ (cutFrame_bytes s.maxFrame (localWindow s.connWindow st) b rest)
        (cutFrame_queue s.maxFrame (localWindow s.connWindow st) b rest)
      have hst' : StreamOK0 st' := by
        refine StreamOK0.congr hss ?_ ?_ ?_ ?_ ?_
        · rw [hq']; rfl
        · rw [ha']
        · rw [hf']; rfl
        · rw [hw']; rfl
        · rw [hs']; rfl
      refine { alive := by rw [hl]; simp, ok0 := ?_, dom := ?_, closedOK := by rw [hcl]; exact hs.closedOK,
               mfs := by rw [hmf]; exact hs.mfs, open_active := ?_, parked := by rw [hl]; simp }
      · intro i x h
        rw [hstr] at h
        split at h
        · cases h; exact hst'
        · exact hs.ok0 i x h
      · intro i x h
        rw [hstr] at h
        rw [hids]
        split at h
        · rename_i hi; subst hi; exact hs.dom _ st hst
        · exact hs.dom i x h
      · intro i x h hne hw
        rw [hstr] at h
        rw [hcw] at hw
        split at h
        · cases h
          rw [ha']
          simp only [sentStream]
          rw [hq'] at hne
          cases hcq : (cutFrame s.maxFrame (localWindow s.connWindow st) b rest).2 with
          | nil => exact absurd hcq hne
          | cons c q' => simpa using hact
        · refine hs.open_active i x h hne ?_
          simp only [localWindow] at hw ⊢
          omega

theorem mem_candidates (s : State) (sid : Nat) (st : Stream) :
    (sid, st) ∈ candidates s ↔ sid ∈ s.ids ∧ s.streams sid = some st ∧ st.active = true := by
  unfold candidates
  rw [List.mem_filterMap]
  constructor
  · rintro ⟨i, hi, h⟩
    split at h
    · rename_i x hx
      split at h
      · simp only [Option.some.injEq, Prod.mk.injEq] at h
        obtain ⟨rfl, rfl⟩ := h
        exact ⟨hi, hx, by assumption⟩
      · simp at h
    · simp at h
  · rintro ⟨hi, hx, ha⟩
    exact ⟨sid, hi, by simp [hx, ha]⟩

theorem getElem?_mod_none {α} (c : List α) (k : Nat) (h : c[k % c.length]? = none) : c = [] := by
  rw [List.getElem?_eq_none_iff] at h
  cases c with
  | nil => rfl
  | cons a c =>
    have := Nat.mod_lt k (Nat.succ_pos c.length)
    simp only [List.length_cons, Nat.succ_eq_add_one] at h this
    omega

theorem sendIter_inv (s : State) (hs : Pre s) (k : Nat) : Inv (sendIter s k).1 := by
  unfold sendIter
  split
  · rename_i hnone
    have hc := getElem?_mod_none _ _ hnone
    refine { alive := by simp, ok0 := hs.ok0, dom := hs.dom, closedOK := hs.closedOK, mfs := hs.mfs,
             open_active := hs.open_active, parked := ?_ }
    intro _ i st h
    cases ha : st.active with
    | false => rfl
    | true =>
      have : (i, st) ∈ candidates s := (mem_candidates s i st).mpr ⟨hs.dom i st h, h, ha⟩
      rw [hc] at this
      simp at this
  · rename_i sid st hsome
    have hm : (sid, st) ∈ candidates s := List.mem_of_getElem? hsome
    obtain ⟨_, hst, ha⟩ := (mem_candidates s sid st).mp hm
    exact sendOn_inv s hs sid st hst ha

theorem Pre.of_loop {s : State} (hs : Pre s) (l : Loop) (hl : l ≠ .dead) : Pre { s with loop := l } :=
  { alive := hl, ok0 := hs.ok0, dom := hs.dom, closedOK := hs.closedOK, mfs := hs.mfs, open_active := hs.open_active }

theorem wake_inv (s : State) (hs : Pre s) : Inv (wake s).1 := by
  unfold wake
  split
  · exact sendIter_inv _ (hs.of_loop .sched (by simp)) 0
  · rename_i hp
    exact { hs with parked := fun h => absurd h hp }

theorem runLoop_inv (n : Nat) : ∀ (s : State) (i : Nat), Inv s → Inv (runLoop s n i).1 := by
  induction n with
  | zero => intro s i h; exact h
  | succ n ih =>
    intro s i h
    unfold runLoop
    split
    · exact ih _ _ (sendIter_inv s h.toPre i)
    · exact h

theorem Pre.set {s : State} (hs : Pre s) (sid : Nat) (st' : Stream) (hdom : sid ∈ s.ids) (h0 : StreamOK0 st')
    (hoa : st'.queue ≠ [] → 0 < localWindow s.connWindow st' → st'.active = true) : Pre (set s sid st') := by
  refine { alive := hs.alive, ok0 := ?_, dom := ?_, closedOK := hs.closedOK, mfs := hs.mfs, open_active := ?_ }
  · intro i x h
    simp only [Twisted.Http.H2Flow.set] at h
    split at h
    · cases h; exact h0
    · exact hs.ok0 i x h
  · intro i x h
    simp only [Twisted.Http.H2Flow.set] at h ⊢
    split at h
    · rename_i hi; subst hi; exact hdom
    · exact hs.dom i x h
  · intro i x h
    simp only [Twisted.Http.H2Flow.set] at h ⊢
    split at h
    · cases h; exact hoa
    · exact hs.open_active i x h

theorem Inv.set {s : State} (hs : Inv s) (sid : Nat) (st' : Stream) (hdom : sid ∈ s.ids) (h0 : StreamOK0 st')
    (hoa : st'.queue ≠ [] → 0 < localWindow s.connWindow st' → st'.active = true)
    (hp : s.loop = .parked → st'.active = false) : Inv (set s sid st') := by
  refine { hs.toPre.set sid st' hdom h0 hoa with parked := ?_ }
  intro hl i x h
  simp only [Twisted.Http.H2Flow.set] at h hl
  split at h
  · cases h; exact hp hl
  · exact hs.parked hl i x h

theorem blockIfFull_inv (r : State × List Ev) (sid : Nat) (hr : Inv r.1) : Inv (blockIfFull r sid).1 := by
  unfold blockIfFull
  split
  · exact hr
  · rename_i st hst
    split
    · have hf := fcb_fields sid st
      have h0 := hr.ok0 sid st hst
      refine hr.set sid _ (hr.dom sid st hst) (h0.congr hf.1 hf.2.1 hf.2.2.1 hf.2.2.2.1 hf.2.2.2.2.1) ?_ ?_
      · rw [hf.1, hf.2.1]
        simp only [localWindow, hf.2.2.2.2.2]
        exact hr.open_active sid st hst
      · intro hl; rw [hf.2.1]; exact hr.parked hl sid st hst
    · exact hr

theorem writeData_inv (s : State) (hs : Inv s) (sid : Nat) (b : Bytes) (hb : b ≠ [])
    (hunf : ∀ st, s.streams sid = some st → st.finished = false) : Inv (writeData s sid b).1 := by
  unfold writeData
  split
  · exact hs
  · rename_i st0 hst
    have h0 := hs.ok0 sid st0 hst
    have hf := hunf st0 hst
    have hdom := hs.dom sid st0 hst
    apply blockIfFull_inv
    have hnf : Chunk.fin ∉ st0.queue ++ [Chunk.data b] := by
      intro hm
      rcases List.mem_append.mp hm with hm | hm
      · exact h0.fin_unfinished hf hm
      · simp at hm
    have hdn : ∀ x, Chunk.data x ∈ st0.queue ++ [Chunk.data b] → x ≠ [] := by
      intro x hm
      rcases List.mem_append.mp hm with hm | hm
      · exact h0.data_nonempty x hm
      · simp only [List.mem_singleton, Chunk.data.injEq] at hm; rw [hm]; exact hb
    split
    · rename_i hw
      apply wake_inv
      refine hs.toPre.set sid _ hdom ?_ (fun _ _ => rfl)
      constructor
      · intro _; simp
      · intro _; exact hnf
      · intro h; simp only at h; rw [hf] at h; cases h
      · simp only [qbytes_append, qbytes, h0.conserve, List.append_assoc, List.append_nil]
      · intro _; rfl
      · exact hdn
    · rename_i hw
      refine hs.set sid _ hdom ?_ ?_ ?_
      · constructor
        · intro _; simp
        · intro _; exact hnf
        · intro h; simp only at h; rw [hf] at h; cases h
        · simp only [qbytes_append, qbytes, h0.conserve, List.append_assoc, List.append_nil]
        · intro hm; exact absurd hm hnf
        · exact hdn
      · intro _ hpos; exact absurd hpos hw
      · intro hl; exact hs.parked hl sid st0 hst

theorem endRequest_inv (s : State) (hs : Inv s) (sid : Nat)
    (hunf : ∀ st, s.streams sid = some st → st.finished = false) : Inv (endRequest s sid).1 := by
  unfold endRequest
  split
  · exact hs
  · rename_i st hst
    have h0 := hs.ok0 sid st hst
    have hf := hunf st hst
    apply wake_inv
    refine hs.toPre.set sid _ (hs.dom sid st hst) ?_ (fun _ _ => rfl)
    constructor
    · intro _; simp
    · intro h; cases h
    · intro _; exact ⟨st.queue, rfl, h0.fin_unfinished hf⟩
    · simp only [qbytes_append, qbytes, h0.conserve, List.append_nil]
    · intro _; rfl
    · intro x hm
      rcases List.mem_append.mp hm with hm | hm
      · exact h0.data_nonempty x hm
      · simp at hm

theorem windowUpdateStream_inv (s : State) (hs : Inv s) (sid n : Nat) : Inv (windowUpdateStream s sid n).1 := by
  unfold windowUpdateStream
  split
  · exact hs
  · rename_i st0 hst
    have h0 := hs.ok0 sid st0 hst
    apply wake_inv
    have hf := wu_fields s.connWindow sid
      { st0 with window := st0.window + n, active := if st0.queue.isEmpty then st0.active else true }
    have hbase : StreamOK0 { st0 with window := st0.window + n, active := if st0.queue.isEmpty then st0.active else true } := by
      constructor
      · intro ha; simp only at ha ⊢
        cases hq : st0.queue with
        | nil => rw [hq] at ha; simp at ha; exact absurd hq (h0.act_nonempty ha)
        | cons c q => simp
      · exact h0.fin_unfinished
      · exact h0.fin_finished
      · exact h0.conserve
      · intro hm; simp only at hm ⊢
        cases hq : st0.queue with
        | nil => rw [hq] at hm; simp at hm
        | cons c q => simp
      · exact h0.data_nonempty
    refine hs.toPre.set sid _ (hs.dom sid st0 hst) (hbase.congr hf.1 hf.2.1 hf.2.2.1 hf.2.2.2.1 hf.2.2.2.2.1) ?_
    intro hne _
    rw [hf.1] at hne
    rw [hf.2.1]
    simp only at hne ⊢
    cases hq : st0.queue with
    | nil => exact absurd hq hne
    | cons c q => simp

theorem windowChanged1_ok (conn : Int) (sid : Nat) (st : Stream) (h0 : StreamOK0 st) :
    StreamOK0 (windowChanged1 conn sid st).1 ∧
    ((windowChanged1 conn sid st).1.queue ≠ [] → (windowChanged1 conn sid st).1.active = true) := by
  have hf := wu_fields conn sid st
  have hq : (windowChanged1 conn sid st).1.queue = st.queue := hf.1
  have ha : (windowChanged1 conn sid st).1.active = if st.queue.isEmpty then st.active else true := rfl
  refine ⟨?_, ?_⟩
  · constructor
    · intro h; rw [hq]; rw [ha] at h
      cases hqq : st.queue with
      | nil => rw [hqq] at h; simp at h; exact absurd hqq (h0.act_nonempty h)
      | cons c q => simp
    · intro h; rw [hq]; exact h0.fin_unfinished (by simpa [windowChanged1, hf.2.2.1] using h)
    · intro h; rw [hq]; exact h0.fin_finished (by simpa [windowChanged1, hf.2.2.1] using h)
    · have : (windowChanged1 conn sid st).1.wrote = st.wrote := hf.2.2.2.1
      have hs : (windowChanged1 conn sid st).1.sent = st.sent := hf.2.2.2.2.1
      rw [this, hs, hq]; exact h0.conserve
    · intro hm; rw [hq] at hm; rw [ha]
      cases hqq : st.queue with
      | nil => rw [hqq] at hm; simp at hm
      | cons c q => simp
    · rw [hq]; exact h0.data_nonempty
  · intro hne; rw [hq] at hne; rw [ha]
    cases hqq : st.queue with
    | nil => exact absurd hqq hne
    | cons c q => simp

theorem windowsChanged_inv (s : State) (hs : Pre0 s) : Inv (windowsChanged s).1 := by
  unfold windowsChanged
  apply wake_inv
  refine { alive := hs.alive, ok0 := ?_, dom := ?_, closedOK := hs.closedOK, mfs := hs.mfs, open_active := ?_ }
  · intro i x h
    simp only [Option.map_eq_some_iff] at h
    obtain ⟨st, hst, rfl⟩ := h
    exact (windowChanged1_ok _ _ _ (hs.ok0 i st hst)).1
  · intro i x h
    simp only [Option.map_eq_some_iff] at h
    obtain ⟨st, hst, rfl⟩ := h
    exact hs.dom i st hst
  · intro i x h hne _
    simp only [Option.map_eq_some_iff] at h
    obtain ⟨st, hst, rfl⟩ := h
    exact (windowChanged1_ok _ _ _ (hs.ok0 i st hst)).2 hne

theorem windowUpdateConn_inv (s : State) (hs : Inv s) (n : Nat) : Inv (windowUpdateConn s n).1 := by
  unfold windowUpdateConn
  exact windowsChanged_inv _ { alive := hs.alive, ok0 := hs.ok0, dom := hs.dom, closedOK := hs.closedOK, mfs := hs.mfs }

theorem settingsIws_inv (s : State) (hs : Inv s) (n : Nat) : Inv (settingsIws s n).1 := by
  unfold settingsIws
  refine windowsChanged_inv _ { alive := hs.alive, ok0 := ?_, dom := ?_, closedOK := hs.closedOK, mfs := hs.mfs }
  · intro i x h
    simp only [Option.map_eq_some_iff] at h
    obtain ⟨st, hst, rfl⟩ := h
    exact (hs.ok0 i st hst).congr rfl rfl rfl rfl rfl
  · intro i x h
    simp only [Option.map_eq_some_iff] at h
    obtain ⟨st, hst, rfl⟩ := h
    exact hs.dom i st hst

theorem openStream_inv (s : State) (hs : Inv s) (sid : Nat) : Inv (openStream s sid) := by
  unfold openStream
  have hnew : StreamOK0 { window := s.iws } := by
    constructor <;> simp [qbytes]
  refine { alive := hs.alive, ok0 := ?_, dom := ?_, closedOK := hs.closedOK, mfs := hs.mfs, open_active := ?_, parked := ?_ }
  · intro i x h
    simp only [Twisted.Http.H2Flow.set] at h
    split at h
    · cases h; exact hnew
    · exact hs.ok0 i x h
  · intro i x h
    simp only [Twisted.Http.H2Flow.set] at h ⊢
    split at h
    · rename_i hi; subst hi; simp
    · exact List.mem_append_left _ (hs.dom i x h)
  · intro i x h
    simp only [Twisted.Http.H2Flow.set] at h ⊢
    split at h
    · cases h; intro hne; exact absurd rfl hne
    · exact hs.open_active i x h
  · intro hl i x h
    simp only [Twisted.Http.H2Flow.set] at h hl
    split at h
    · cases h; rfl
    · exact hs.parked hl i x h

theorem setProd_inv (s : State) (hs : Inv s) (sid : Nat) (st : Stream) (hst : s.streams sid = some st) (a b : Bool) :
    Inv (set s sid { st with hasProd := a, producing := b }) := by
  refine hs.set sid _ (hs.dom sid st hst) ((hs.ok0 sid st hst).congr rfl rfl rfl rfl rfl) ?_ ?_
  · exact hs.open_active sid st hst
  · intro hl; exact hs.parked hl sid st hst

theorem step_inv (s : State) (hs : Inv s) (op : Op) (r : State × List Ev) (h : step s op = some r) : Inv r.1 := by
  cases op with
  | req sid =>
    simp only [step] at h
    split at h
    · cases h
    · cases h; exact openStream_inv s hs sid
  | write sid b =>
    simp only [step] at h
    split at h
    · rename_i st hst
      split at h
      · cases h
      · rename_i hc
        cases h
        refine writeData_inv s hs sid b (by intro h0; exact hc (by simp [h0])) ?_
        intro st' hst'
        rw [hst] at hst'; cases hst'
        cases hf : st.finished with
        | false => rfl
        | true => exact absurd (Or.inl hf) hc
    · cases h
  | pwrite sid b =>
    simp only [step] at h
    split at h
    · rename_i st hst
      split at h
      · cases h
      · rename_i hc
        cases h
        refine writeData_inv s hs sid b (by intro h0; exact hc (by simp [h0])) ?_
        intro st' hst'
        rw [hst] at hst'; cases hst'
        cases hf : st.finished with
        | false => rfl
        | true => exact absurd (Or.inl hf) hc
    · cases h
  | reg sid =>
    simp only [step] at h
    split at h
    · rename_i st hst
      split at h
      · cases h
      · cases h; exact setProd_inv s hs sid st hst true true
    · cases h
  | unreg sid =>
    simp only [step] at h
    split at h
    · rename_i st hst
      split at h
      · cases h
      · cases h; exact setProd_inv s hs sid st hst false false
    · cases h
  | finish sid =>
    simp only [step] at h
    split at h
    · rename_i st hst
      split at h
      · cases h
      · rename_i hc
        cases h
        refine endRequest_inv s hs sid ?_
        intro st' hst'
        rw [hst] at hst'; cases hst'
        simpa using hc
    · cases h
  | wu sid n =>
    simp only [step] at h
    split at h
    · cases h
    · split at h
      · cases h; exact windowUpdateConn_inv s hs n
      · split at h
        · cases h; exact windowUpdateStream_inv s hs sid n
        · cases h
  | iws n =>
    simp only [step] at h
    cases h; exact settingsIws_inv s hs n
  | mfs n =>
    simp only [step] at h
    split at h
    · cases h
    · rename_i hc
      cases h
      exact { alive := hs.alive, ok0 := hs.ok0, dom := hs.dom, closedOK := hs.closedOK, mfs := by simp only; omega,
              open_active := hs.open_active, parked := hs.parked }
  | tick k =>
    simp only [step] at h
    split at h
    · cases h; exact sendIter_inv s hs.toPre k
    · cases h
  | run n =>
    simp only [step] at h
    split at h
    · cases h; exact runLoop_inv n s 0 hs
    · cases h

theorem init_inv : Inv init := by
  refine { alive := by simp [init], ok0 := ?_, dom := ?_, closedOK := ?_, mfs := by simp [init], open_active := ?_, parked := ?_ }
  all_goals simp [init]

theorem runOps_inv (ops : List Op) : ∀ s, Inv s → Inv (runOps s ops).1 := by
  induction ops with
  | nil => intro s h; exact h
  | cons op ops ih =>
    intro s h
    unfold runOps
    split
    · rename_i r hr
      exact ih _ (step_inv s h op r hr)
    · exact ih _ h

end TwistedProps.C29
