import TwistedProps.C29.Inv
/-!
C29 — the stream table's key list `ids` never holds a stream id twice (stream ids only grow: `_requestReceived`
is driven with ids above `highest`), so the sums over `ids` of `TwistedProps/C29/Drain.lean` count every stream once.
-/
namespace TwistedProps.C29
open Twisted.Http.H2Flow

/-- `s'` has the stream ids of `s` minus some, and the same high-water mark -/
def Shrinks (s s' : State) : Prop := s'.ids.Sublist s.ids ∧ s'.highest = s.highest

theorem Shrinks.refl (s : State) : Shrinks s s := ⟨List.Sublist.refl _, rfl⟩

theorem Shrinks.trans {a b c : State} (h1 : Shrinks a b) (h2 : Shrinks b c) : Shrinks a c :=
  ⟨h2.1.trans h1.1, h2.2.trans h1.2⟩

theorem sendOn_shrinks (s : State) (sid : Nat) (st : Stream) : Shrinks s (sendOn s sid st).1 := by
  unfold sendOn
  split
  · exact ⟨List.Sublist.refl _, rfl⟩
  · exact ⟨List.filter_sublist, rfl⟩
  · split
    · exact ⟨List.Sublist.refl _, rfl⟩
    · unfold afterSend
      exact ⟨List.Sublist.refl _, rfl⟩

theorem sendIter_shrinks (s : State) (k : Nat) : Shrinks s (sendIter s k).1 := by
  unfold sendIter
  split
  · exact ⟨List.Sublist.refl _, rfl⟩
  · exact sendOn_shrinks s _ _

theorem wake_shrinks (s : State) : Shrinks s (wake s).1 := by
  unfold wake
  split
  · exact sendIter_shrinks { s with loop := .sched } 0
  · exact Shrinks.refl s

theorem blockIfFull_shrinks (r : State × List Ev) (sid : Nat) : Shrinks r.1 (blockIfFull r sid).1 := by
  unfold blockIfFull
  split
  · exact Shrinks.refl _
  · split
    · exact ⟨List.Sublist.refl _, rfl⟩
    · exact Shrinks.refl _

theorem writeData_shrinks (s : State) (sid : Nat) (b : Bytes) : Shrinks s (writeData s sid b).1 := by
  unfold writeData
  split
  · exact Shrinks.refl s
  · refine Shrinks.trans ?_ (blockIfFull_shrinks _ sid)
    split
    · exact wake_shrinks (set s sid _)
    · exact ⟨List.Sublist.refl _, rfl⟩

theorem endRequest_shrinks (s : State) (sid : Nat) : Shrinks s (endRequest s sid).1 := by
  unfold endRequest
  split
  · exact Shrinks.refl s
  · exact wake_shrinks (set s sid _)

theorem windowUpdateStream_shrinks (s : State) (sid n : Nat) : Shrinks s (windowUpdateStream s sid n).1 := by
  unfold windowUpdateStream
  split
  · exact Shrinks.refl s
  · exact wake_shrinks (set s sid _)

theorem windowsChanged_shrinks (s : State) : Shrinks s (windowsChanged s).1 := by
  unfold windowsChanged
  exact wake_shrinks { s with streams := _ }

theorem runLoop_shrinks (n : Nat) : ∀ (s : State) (i : Nat), Shrinks s (runLoop s n i).1 := by
  induction n with
  | zero => intro s i; exact Shrinks.refl s
  | succ n ih =>
    intro s i
    unfold runLoop
    split
    · exact (sendIter_shrinks s i).trans (ih _ _)
    · exact Shrinks.refl s

/-- every op but a stream open only removes ids -/
theorem step_shrinks (s : State) (op : Op) (r : State × List Ev) (h : step s op = some r)
    (hop : ∀ sid, op ≠ .req sid) : Shrinks s r.1 := by
  cases op with
  | req sid => exact absurd rfl (hop sid)
  | write sid b =>
    simp only [step] at h
    split at h
    · split at h
      · cases h
      · cases h; exact writeData_shrinks s sid b
    · cases h
  | pwrite sid b =>
    simp only [step] at h
    split at h
    · split at h
      · cases h
      · cases h; exact writeData_shrinks s sid b
    · cases h
  | reg sid =>
    simp only [step] at h
    split at h
    · split at h
      · cases h
      · cases h; exact ⟨List.Sublist.refl _, rfl⟩
    · cases h
  | unreg sid =>
    simp only [step] at h
    split at h
    · split at h
      · cases h
      · cases h; exact ⟨List.Sublist.refl _, rfl⟩
    · cases h
  | finish sid =>
    simp only [step] at h
    split at h
    · split at h
      · cases h
      · cases h; exact endRequest_shrinks s sid
    · cases h
  | wu sid n =>
    simp only [step] at h
    split at h
    · cases h
    · split at h
      · cases h; exact windowsChanged_shrinks { s with connWindow := s.connWindow + n }
      · split at h
        · cases h; exact windowUpdateStream_shrinks s sid n
        · cases h
  | iws n =>
    simp only [step] at h
    cases h
    exact windowsChanged_shrinks { s with streams := _, iws := n }
  | mfs n =>
    simp only [step] at h
    split at h
    · cases h
    · cases h; exact ⟨List.Sublist.refl _, rfl⟩
  | tick k =>
    simp only [step] at h
    split at h
    · cases h; exact sendIter_shrinks s k
    · cases h
  | run n =>
    simp only [step] at h
    split at h
    · cases h; exact runLoop_shrinks n s 0
    · cases h

/-- no stream id twice, all of them at most the high-water mark -/
structure IdsOK (s : State) : Prop where
  nodup : s.ids.Nodup
  le : ∀ i ∈ s.ids, i ≤ s.highest

theorem IdsOK.shrinks {s s' : State} (h : IdsOK s) (hs : Shrinks s s') : IdsOK s' :=
  ⟨h.nodup.sublist hs.1, fun i hi => hs.2 ▸ h.le i (hs.1.subset hi)⟩

theorem step_idsOK (s : State) (hs : IdsOK s) (op : Op) (r : State × List Ev) (h : step s op = some r) : IdsOK r.1 := by
  by_cases hop : ∀ sid, op ≠ .req sid
  · exact hs.shrinks (step_shrinks s op r h hop)
  · have : ∃ sid, op = .req sid := by
      refine Classical.byContradiction fun hn => hop fun sid he => hn ⟨sid, he⟩
    obtain ⟨sid, rfl⟩ := this
    simp only [step] at h
    split at h
    · cases h
    · rename_i hc
      cases h
      have hgt : s.highest < sid := by omega
      refine ⟨?_, ?_⟩
      · show (s.ids ++ [sid]).Nodup
        refine List.nodup_append.mpr ⟨hs.nodup, by simp, ?_⟩
        intro a ha b hb
        simp only [List.mem_singleton] at hb
        subst hb
        have := hs.le a ha
        omega
      · intro i hi
        show i ≤ sid
        have hi' : i ∈ s.ids ++ [sid] := hi
        rcases List.mem_append.mp hi' with hi' | hi'
        · have := hs.le i hi'; omega
        · simp only [List.mem_singleton] at hi'; omega

theorem runOps_idsOK (ops : List Op) : ∀ s, IdsOK s → IdsOK (runOps s ops).1 := by
  induction ops with
  | nil => intro s h; exact h
  | cons op ops ih =>
    intro s h
    unfold runOps
    split
    · rename_i r hr
      exact ih _ (step_idsOK s h op r hr)
    · exact ih _ h

theorem init_idsOK : IdsOK init := ⟨by simp [init], by simp [init]⟩

end TwistedProps.C29
