import TwistedProps.C29.Inv
/-!
C29 — the termination argument of the send loop: a decreasing measure (queued bytes + queued chunks, summed
over the stream table) for every iteration from a state whose queues fit their windows.
-/
namespace TwistedProps.C29
open Twisted.Http.H2Flow

/-! ### sums over the stream table -/

def lsum (ids : List Nat) (g : Nat → Nat) : Nat := (ids.map g).sum

def perStream (s : State) (f : Stream → Nat) (i : Nat) : Nat :=
  match s.streams i with
  | some st => f st
  | none => 0

/-- Σ over `self.streams` (dict order) of `f stream` -/
def total (s : State) (f : Stream → Nat) : Nat := lsum s.ids (perStream s f)

theorem lsum_le (ids : List Nat) (g g' : Nat → Nat) (h : ∀ i, g' i ≤ g i) : lsum ids g' ≤ lsum ids g := by
  induction ids with
  | nil => simp [lsum]
  | cons a ids ih =>
    simp only [lsum, List.map_cons, List.sum_cons] at ih ⊢
    have := h a
    omega

theorem lsum_update (ids : List Nat) (g g' : Nat → Nat) (sid k : Nat) (hoff : ∀ i, i ≠ sid → g' i = g i)
    (hk : g' sid + k ≤ g sid) (hm : sid ∈ ids) : lsum ids g' + k ≤ lsum ids g := by
  have hle : ∀ i, g' i ≤ g i := by
    intro i
    by_cases hi : i = sid
    · subst hi; omega
    · rw [hoff i hi]; exact Nat.le_refl _
  induction ids with
  | nil => simp at hm
  | cons a ids ih =>
    simp only [lsum, List.map_cons, List.sum_cons] at ih ⊢
    by_cases ha : a = sid
    · subst ha
      have := lsum_le ids g g' hle
      simp only [lsum] at this
      omega
    · have hm' : sid ∈ ids := by
        rcases List.mem_cons.mp hm with h | h
        · exact absurd h.symm ha
        · exact h
      have := ih hm'
      rw [hoff a ha]
      omega

theorem lsum_filter (ids : List Nat) (g : Nat → Nat) (sid : Nat) (h0 : g sid = 0) :
    lsum (ids.filter (· ≠ sid)) g = lsum ids g := by
  induction ids with
  | nil => rfl
  | cons a ids ih =>
    simp only [lsum, ne_eq, decide_not] at ih ⊢
    by_cases ha : a = sid
    · subst ha
      simp only [List.filter_cons, decide_true, Bool.not_true, Bool.false_eq_true, if_false, List.map_cons,
        List.sum_cons, h0, Nat.zero_add]
      exact ih
    · simp only [List.filter_cons, ha, decide_false, Bool.not_false, if_true, List.map_cons, List.sum_cons, ih]

theorem le_lsum (ids : List Nat) (g : Nat → Nat) (sid : Nat) (hm : sid ∈ ids) : g sid ≤ lsum ids g := by
  induction ids with
  | nil => simp at hm
  | cons a ids ih =>
    simp only [lsum, List.map_cons, List.sum_cons] at ih ⊢
    rcases List.mem_cons.mp hm with h | h
    · subst h; omega
    · have := ih h; omega

theorem le_total (s : State) (f : Stream → Nat) (sid : Nat) (st : Stream) (hst : s.streams sid = some st)
    (hm : sid ∈ s.ids) : f st ≤ total s f := by
  have := le_lsum s.ids (perStream s f) sid hm
  simpa [perStream, hst, total] using this

theorem total_set (s s' : State) (f : Stream → Nat) (sid : Nat) (st st' : Stream) (k : Nat)
    (hids : s'.ids = s.ids) (hstr : ∀ i, s'.streams i = if i = sid then some st' else s.streams i)
    (hst : s.streams sid = some st) (hm : sid ∈ s.ids) (hk : f st' + k ≤ f st) :
    total s' f + k ≤ total s f := by
  unfold total
  rw [hids]
  refine lsum_update s.ids _ _ sid k ?_ ?_ hm
  · intro i hi
    simp [perStream, hstr, hi]
  · simp [perStream, hstr, hst, hk]

theorem total_del (s s' : State) (f : Stream → Nat) (sid : Nat) (st : Stream)
    (hids : s'.ids = s.ids.filter (· ≠ sid)) (hstr : ∀ i, s'.streams i = if i = sid then none else s.streams i)
    (hst : s.streams sid = some st) (hm : sid ∈ s.ids) :
    total s' f + f st ≤ total s f := by
  unfold total
  rw [hids, lsum_filter _ _ _ (by simp [perStream, hstr])]
  refine lsum_update s.ids _ _ sid (f st) ?_ ?_ hm
  · intro i hi
    simp [perStream, hstr, hi]
  · simp [perStream, hstr, hst]


/-! ### the hypothesis of the drain theorem, the measure, the link to the starting state -/

/-- bytes queued on all streams -/
def queuedTotal (s : State) : Nat := total s fun st => qlen st.queue

/-- the measure: Σ over streams of (queued bytes + queued chunks, END_STREAM marker included) -/
def backlog (s : State) : Nat := total s fun st => qlen st.queue + st.queue.length

/-- every stream's queued bytes fit its stream window and the connection window covers their sum -/
structure Fit (s : State) : Prop where
  strm : ∀ i st, s.streams i = some st → (qlen st.queue : Int) ≤ st.window
  conn : (queuedTotal s : Int) ≤ s.connWindow

/-- the bytes of the DATA frames of stream `i` among the events, in wire order -/
def dataOf (i : Nat) : List Ev → Bytes
  | [] => []
  | .data j b :: r => if j = i then b ++ dataOf i r else dataOf i r
  | .fin _ :: r => dataOf i r
  | .pause _ :: r => dataOf i r
  | .resume _ :: r => dataOf i r
  | .flowErr :: r => dataOf i r
  | .indexErr :: r => dataOf i r

theorem dataOf_append (i : Nat) (a b : List Ev) : dataOf i (a ++ b) = dataOf i a ++ dataOf i b := by
  induction a with
  | nil => rfl
  | cons e a ih =>
    cases e <;> simp only [List.cons_append, dataOf, ih]
    split <;> simp

theorem dataOf_pauses (i sid : Nat) (evs : List Ev) (h : ∀ e ∈ evs, e = .pause sid) :
    dataOf i evs = [] ∧ Ev.fin i ∉ evs := by
  induction evs with
  | nil => simp [dataOf]
  | cons e evs ih =>
    have he := h e (by simp)
    have := ih (fun e he => h e (List.mem_cons_of_mem _ he))
    subst he
    simp [dataOf, this]

/-- `s` is a later state of the send loop started in `s0`, `evs` what it put on the wire in between: every
    stream of `s0` is still there with the same application-side history and has sent exactly its DATA frames
    of `evs` in addition, or its END_STREAM went out (once everything written had been sent) and it is gone;
    `closed` only grows -/
structure Tracks (s0 s : State) (evs : List Ev) : Prop where
  strm : ∀ i st, s0.streams i = some st →
    (∃ st', s.streams i = some st' ∧ st'.wrote = st.wrote ∧ st'.finished = st.finished ∧
      st'.sent = st.sent ++ dataOf i evs ∧ Ev.fin i ∉ evs) ∨
    (st.finished = true ∧ s.streams i = none ∧ (i, st.wrote, st.wrote) ∈ s.closed ∧
      st.wrote = st.sent ++ dataOf i evs ∧ Ev.fin i ∈ evs)
  gone : ∀ i, s0.streams i = none → s.streams i = none ∧ dataOf i evs = [] ∧ Ev.fin i ∉ evs
  closed : ∀ c ∈ s0.closed, c ∈ s.closed

theorem Tracks.refl (s : State) : Tracks s s [] :=
  ⟨fun _ st h => Or.inl ⟨st, h, rfl, rfl, by simp [dataOf], by simp⟩, fun _ h => ⟨h, rfl, by simp⟩, fun _ h => h⟩

theorem Tracks.trans {a b c : State} {e1 e2 : List Ev} (h1 : Tracks a b e1) (h2 : Tracks b c e2) :
    Tracks a c (e1 ++ e2) := by
  refine ⟨?_, ?_, fun x h => h2.closed x (h1.closed x h)⟩
  · intro i st h
    rcases h1.strm i st h with ⟨st', h', hw, hf, hs, hn⟩ | ⟨hf, hn, hc, hs, hm⟩
    · rcases h2.strm i st' h' with ⟨st'', h'', hw', hf', hs', hn'⟩ | ⟨hf', hn', hc', hs', hm'⟩
      · refine Or.inl ⟨st'', h'', hw'.trans hw, hf'.trans hf, ?_, ?_⟩
        · rw [hs', hs, dataOf_append, List.append_assoc]
        · simp [hn, hn']
      · refine Or.inr ⟨hf ▸ hf', hn', hw ▸ hc', ?_, ?_⟩
        · rw [← hw, hs', hs, dataOf_append, List.append_assoc]
        · simp [hm']
    · obtain ⟨g1, g2, g3⟩ := h2.gone i hn
      refine Or.inr ⟨hf, g1, h2.closed _ hc, ?_, ?_⟩
      · rw [dataOf_append, g2, List.append_nil]; exact hs
      · simp [hm]
  · intro i h
    obtain ⟨g1, g2, g3⟩ := h1.gone i h
    obtain ⟨k1, k2, k3⟩ := h2.gone i g1
    refine ⟨k1, ?_, ?_⟩
    · rw [dataOf_append, g2, k2]; rfl
    · simp [g3, k3]

theorem Tracks.of_loop (s : State) (l : Loop) : Tracks s { s with loop := l } [] :=
  ⟨fun _ st h => Or.inl ⟨st, h, rfl, rfl, by simp [dataOf], by simp⟩, fun _ h => ⟨h, rfl, by simp⟩, fun _ h => h⟩

/-- what one data iteration puts on the wire: exactly the frame (nothing if it is empty), no END_STREAM -/
theorem afterSend_wire (s : State) (sid : Nat) (st : Stream) (frame : Bytes) (q : List Chunk) (i : Nat) :
    dataOf i (afterSend s sid st frame q).2 = (if i = sid then frame else []) ∧
    Ev.fin i ∉ (afterSend s sid st frame q).2 := by
  unfold afterSend
  simp only
  have hp : ∀ e ∈ (if remainingOutbound (s.connWindow - frame.length) (sentStream st frame q) ≤ 0
           then flowControlBlocked sid (sentStream st frame q) else (sentStream st frame q, [])).2, e = Ev.pause sid := by
    intro e he
    split at he
    · exact fcb_events _ _ _ he
    · simp at he
  obtain ⟨hp1, hp2⟩ := dataOf_pauses i sid _ hp
  rw [dataOf_append, hp1, List.append_nil]
  refine ⟨?_, ?_⟩
  · by_cases hl : frame.length > 0
    · rw [if_pos hl]
      by_cases hi : i = sid
      · subst hi; simp [dataOf]
      · have : ¬ sid = i := fun h => hi h.symm
        simp [dataOf, hi, this]
    · rw [if_neg hl]
      have : frame = [] := List.length_eq_zero_iff.mp (by omega)
      simp [dataOf, this]
  · intro hm
    rcases List.mem_append.mp hm with hm | hm
    · split at hm <;> simp at hm
    · exact hp2 hm

theorem qlen_cons_data (b : Bytes) (r : List Chunk) : qlen (.data b :: r) = b.length + qlen r := by
  simp [qlen, qbytes]

theorem qlen_cons_fin (r : List Chunk) : qlen (.fin :: r) = qlen r := by
  simp [qlen, qbytes]

/-- under `Fit`, a stream whose head chunk is (non-empty) data has both windows open -/
theorem Fit.open {s : State} (hf : Fit s) (sid : Nat) (st : Stream) (hst : s.streams sid = some st) (hm : sid ∈ s.ids)
    (b : Bytes) (rest : List Chunk) (hq : st.queue = .data b :: rest) (hb : b ≠ []) :
    0 < localWindow s.connWindow st := by
  have hl : 0 < b.length := List.length_pos_iff.mpr hb
  have h1 := hf.strm sid st hst
  have h2 := hf.conn
  have h3 : qlen st.queue ≤ queuedTotal s := le_total s (fun st => qlen st.queue) sid st hst hm
  rw [hq, qlen_cons_data] at h1 h3
  simp only [localWindow]
  omega

/-- the frame cut strictly decreases bytes + chunks when the window is open -/
theorem cutFrame_measure (mf : Nat) (rem : Int) (b : Bytes) (rest : List Chunk) (hmf : 0 < mf) (hrem : 0 < rem) :
    (cutFrame mf rem b rest).1.length + qlen (cutFrame mf rem b rest).2 = b.length + qlen rest ∧
    qlen (cutFrame mf rem b rest).2 + (cutFrame mf rem b rest).2.length < b.length + qlen rest + (rest.length + 1) := by
  unfold cutFrame
  split
  · simp only [List.length_take, qlen_cons_data, List.length_drop, List.length_cons]
    omega
  · refine ⟨rfl, ?_⟩
    show qlen rest + rest.length < b.length + qlen rest + (rest.length + 1)
    omega


/-- END_STREAM at the head of a queue: the stream is finished, nothing is queued behind it, everything written was sent -/
theorem fin_head {st : Stream} (hok : StreamOK0 st) (rest : List Chunk) (hq : st.queue = .fin :: rest) :
    st.finished = true ∧ rest = [] ∧ st.wrote = st.sent := by
  have hfin : st.finished = true := by
    cases hf : st.finished with
    | true => rfl
    | false => exact absurd (by rw [hq]; simp) (hok.fin_unfinished hf)
  obtain ⟨pre, hp, hn⟩ := hok.fin_finished hfin
  have hpre : pre = [] := by
    cases pre with
    | nil => rfl
    | cons c p =>
      rw [hq] at hp
      simp only [List.cons_append, List.cons.injEq] at hp
      exact absurd (by rw [← hp.1]; simp) hn
  subst hpre
  rw [hq] at hp
  simp only [List.nil_append, List.cons.injEq, true_and] at hp
  refine ⟨hfin, hp, ?_⟩
  rw [hok.conserve, hq, hp]
  simp [qbytes]

/-- the END_STREAM branch of an iteration, on any state `s'` that differs from `s` as `_requestDone` prescribes -/
theorem drain_fin (s s' : State) (hs : Pre s) (hf : Fit s) (sid : Nat) (st : Stream) (hst : s.streams sid = some st)
    (rest : List Chunk) (hq : st.queue = .fin :: rest)
    (hids : s'.ids = s.ids.filter (· ≠ sid)) (hstr : ∀ i, s'.streams i = if i = sid then none else s.streams i)
    (hcw : s'.connWindow = s.connWindow) (hcl : s'.closed = s.closed ++ [(sid, st.wrote, st.sent)]) :
    Fit s' ∧ backlog s' < backlog s ∧ Tracks s s' [.fin sid] := by
  have hok := hs.ok0 sid st hst
  have hm := hs.dom sid st hst
  obtain ⟨hfin, hrest, hws⟩ := fin_head hok rest hq
  refine ⟨⟨?_, ?_⟩, ?_, ⟨?_, ?_, ?_⟩⟩
  · intro i x h
    rw [hstr] at h
    split at h
    · simp at h
    · exact hf.strm i x h
  · have := total_del s s' (fun st => qlen st.queue) sid st hids hstr hst hm
    have hc := hf.conn
    simp only [queuedTotal] at hc ⊢
    rw [hcw]
    omega
  · have := total_del s s' (fun st => qlen st.queue + st.queue.length) sid st hids hstr hst hm
    simp only [hq, List.length_cons] at this
    simp only [backlog]
    omega
  · intro i x h
    by_cases hi : i = sid
    · subst hi
      rw [hst] at h; cases h
      refine Or.inr ⟨hfin, by rw [hstr]; simp, ?_, by simp [dataOf, hws], by simp⟩
      rw [hcl, ← hws]
      exact List.mem_append_right _ (List.mem_singleton.mpr rfl)
    · exact Or.inl ⟨x, by rw [hstr]; simp [hi, h], rfl, rfl, by simp [dataOf], by simp [hi]⟩
  · intro i h
    have hi : i ≠ sid := by intro hi; subst hi; rw [hst] at h; cases h
    refine ⟨by rw [hstr]; simp [hi, h], by simp [dataOf], by simp [hi]⟩
  · intro c hc
    rw [hcl]
    exact List.mem_append_left _ hc

/-- **One iteration on a schedulable stream, queues fitting the windows**: the windows still cover the queues,
    the measure strictly decreases, the loop reschedules itself, no stream is lost. -/
theorem sendOn_drain (s : State) (hs : Pre s) (hf : Fit s) (sid : Nat) (st : Stream) (hst : s.streams sid = some st)
    (hact : st.active = true) :
    Fit (sendOn s sid st).1 ∧ backlog (sendOn s sid st).1 < backlog s ∧ (sendOn s sid st).1.loop = .sched ∧
    Tracks s (sendOn s sid st).1 (sendOn s sid st).2 := by
  have hok := hs.ok0 sid st hst
  have hm := hs.dom sid st hst
  unfold sendOn
  split
  · rename_i hq
    exact absurd hq (hok.act_nonempty hact)
  · rename_i rest hq
    have := drain_fin s { del s sid with loop := .sched, closed := s.closed ++ [(sid, st.wrote, st.sent)] } hs hf sid st hst
      rest hq rfl (fun _ => rfl) rfl rfl
    exact ⟨this.1, this.2.1, rfl, this.2.2⟩
  · rename_i b rest hq
    have hb : b ≠ [] := hok.data_nonempty b (by rw [hq]; simp)
    have hw := hf.open sid st hst hm b rest hq hb
    have hfit := cutFrame_fits s.maxFrame (localWindow s.connWindow st) b rest
    have hcm := cutFrame_measure s.maxFrame (localWindow s.connWindow st) b rest hs.mfs hw
    by_cases hc : (cutFrame s.maxFrame (localWindow s.connWindow st) b rest).1.length > 0 ∧
        ((cutFrame s.maxFrame (localWindow s.connWindow st) b rest).1.length : Int) > localWindow s.connWindow st
    · omega
    · rw [if_neg hc]
      obtain ⟨hl, hcw, hids, hcl, hmf, st', hstr, hq', ha', hf', hw', hs', hwin'⟩ :=
        afterSend_proj s sid st (cutFrame s.maxFrame (localWindow s.connWindow st) b rest).1
          (cutFrame s.maxFrame (localWindow s.connWindow st) b rest).2
      have hwire := afterSend_wire s sid st (cutFrame s.maxFrame (localWindow s.connWindow st) b rest).1
          (cutFrame s.maxFrame (localWindow s.connWindow st) b rest).2
      generalize (cutFrame s.maxFrame (localWindow s.connWindow st) b rest).1 = frame at *
      generalize (cutFrame s.maxFrame (localWindow s.connWindow st) b rest).2 = q at *
      generalize (afterSend s sid st frame q).1 = s' at *
      generalize (afterSend s sid st frame q).2 = evs at *
      have hsq := hf.strm sid st hst
      rw [hq, qlen_cons_data] at hsq
      refine ⟨⟨?_, ?_⟩, ?_, hl, ⟨?_, ?_, ?_⟩⟩
      · intro i x h
        rw [hstr] at h
        split at h
        · cases h
          rw [hq', hwin']
          omega
        · exact hf.strm i x h
      · have := total_set s s' (fun st => qlen st.queue) sid st st' frame.length hids hstr hst hm
          (by simp only [hq', hq, qlen_cons_data]; omega)
        have hc := hf.conn
        simp only [queuedTotal] at hc ⊢
        rw [hcw]
        omega
      · have := total_set s s' (fun st => qlen st.queue + st.queue.length) sid st st' 1 hids hstr hst hm
          (by simp only [hq', hq, qlen_cons_data, List.length_cons]; omega)
        simp only [backlog]
        omega
      · intro i x h
        by_cases hi : i = sid
        · subst hi
          rw [hst] at h; cases h
          exact Or.inl ⟨st', by rw [hstr]; simp, hw', hf', by rw [hs', (hwire i).1]; simp, (hwire i).2⟩
        · exact Or.inl ⟨x, by rw [hstr]; simp [hi, h], rfl, rfl, by rw [(hwire i).1]; simp [hi], (hwire i).2⟩
      · intro i h
        have hi : i ≠ sid := by intro hi; subst hi; rw [hst] at h; cases h
        exact ⟨by rw [hstr]; simp [hi, h], by rw [(hwire i).1]; simp [hi], (hwire i).2⟩
      · intro c hc
        rw [hcl]; exact hc


/-- under `Fit`, a stream that is not schedulable has nothing queued -/
theorem Fit.inactive_empty {s : State} (hs : Pre s) (hf : Fit s) (sid : Nat) (st : Stream)
    (hst : s.streams sid = some st) (hina : st.active = false) : st.queue = [] := by
  have hok := hs.ok0 sid st hst
  cases hq : st.queue with
  | nil => rfl
  | cons c rest =>
    exfalso
    cases c with
    | fin =>
      have := hok.fin_active (by rw [hq]; simp)
      rw [hina] at this; cases this
    | data b =>
      have hb : b ≠ [] := hok.data_nonempty b (by rw [hq]; simp)
      have hw := hf.open sid st hst (hs.dom sid st hst) b rest hq hb
      have := hs.open_active sid st hst (by rw [hq]; simp) hw
      rw [hina] at this; cases this

/-- **One iteration, whatever the scheduler picks**: either nothing is schedulable — then every queue is empty and
    the loop parks — or the measure strictly decreases and the loop reschedules itself. -/
theorem sendIter_drain (s : State) (hs : Pre s) (hf : Fit s) (k : Nat) :
    Fit (sendIter s k).1 ∧ Tracks s (sendIter s k).1 (sendIter s k).2 ∧
    (((sendIter s k).1.loop = .parked ∧ ∀ i st, (sendIter s k).1.streams i = some st → st.queue = []) ∨
     ((sendIter s k).1.loop = .sched ∧ backlog (sendIter s k).1 < backlog s)) := by
  unfold sendIter
  split
  · rename_i hnone
    have hc := getElem?_mod_none _ _ hnone
    refine ⟨⟨hf.strm, hf.conn⟩, Tracks.of_loop s .parked, Or.inl ⟨rfl, ?_⟩⟩
    intro i st h
    refine hf.inactive_empty hs i st h ?_
    cases ha : st.active with
    | false => rfl
    | true =>
      have : (i, st) ∈ candidates s := (mem_candidates s i st).mpr ⟨hs.dom i st h, h, ha⟩
      rw [hc] at this
      simp at this
  · rename_i sid st hsome
    have hm : (sid, st) ∈ candidates s := List.mem_of_getElem? hsome
    obtain ⟨_, hst, ha⟩ := (mem_candidates s sid st).mp hm
    have := sendOn_drain s hs hf sid st hst ha
    exact ⟨this.1, this.2.2.2, Or.inr ⟨this.2.2.1, this.2.1⟩⟩

theorem runOps_append (a b : List Op) : ∀ s, (runOps s (a ++ b)).1 = (runOps (runOps s a).1 b).1 := by
  induction a with
  | nil => intro s; rfl
  | cons op a ih =>
    intro s
    simp only [List.cons_append, runOps]
    split
    · exact ih _
    · exact ih _

theorem runOps_append_events (a b : List Op) :
    ∀ s, (runOps s (a ++ b)).2 = (runOps s a).2 ++ (runOps (runOps s a).1 b).2 := by
  induction a with
  | nil => intro s; rfl
  | cons op a ih =>
    intro s
    simp only [List.cons_append, runOps]
    split
    · simp only [List.cons_append, List.cons.injEq, true_and]; exact ih _
    · simp only [List.cons_append, List.cons.injEq, true_and]; exact ih _

theorem runOps_events_length (a : List Op) : ∀ s, (runOps s a).2.length = a.length := by
  induction a with
  | nil => intro s; rfl
  | cons op a ih =>
    intro s
    simp only [runOps]
    split <;> simp [ih]

/-- ticks on a loop that is not scheduled are skipped -/
theorem runOps_ticks_idle (picks : List Nat) (s : State) (h : s.loop ≠ .sched) :
    (runOps s (picks.map Op.tick)).1 = s ∧ (runOps s (picks.map Op.tick)).2.flatten = [] := by
  induction picks with
  | nil => exact ⟨rfl, rfl⟩
  | cons k picks ih =>
    simp only [List.map_cons, runOps, step, if_neg h, List.flatten_cons, List.nil_append]
    exact ih

/-- **Termination of the send loop.**  From a state satisfying the invariant whose queues fit the windows, any
    run of more than `backlog s` iterations — each with an arbitrary scheduler choice — ends parked with every
    queue empty. -/
theorem drain_ticks (picks : List Nat) : ∀ s, Inv s → Fit s → backlog s < picks.length →
    Inv (runOps s (picks.map Op.tick)).1 ∧ Fit (runOps s (picks.map Op.tick)).1 ∧
    Tracks s (runOps s (picks.map Op.tick)).1 (runOps s (picks.map Op.tick)).2.flatten ∧
    (runOps s (picks.map Op.tick)).1.loop = .parked ∧
    ∀ i st, (runOps s (picks.map Op.tick)).1.streams i = some st → st.queue = [] := by
  induction picks with
  | nil => intro s _ _ h; simp at h
  | cons k picks ih =>
    intro s hi hf hlen
    by_cases hl : s.loop = .sched
    · simp only [List.map_cons, runOps, step, if_pos hl, List.flatten_cons]
      have hi' := sendIter_inv s hi.toPre k
      obtain ⟨hf', ht, hd⟩ := sendIter_drain s hi.toPre hf k
      rcases hd with ⟨hp, he⟩ | ⟨_, hlt⟩
      · obtain ⟨e1, e2⟩ := runOps_ticks_idle picks (sendIter s k).1 (by rw [hp]; simp)
        rw [e1, e2, List.append_nil]
        exact ⟨hi', hf', ht, hp, he⟩
      · have hlen' : backlog (sendIter s k).1 < picks.length := by
          simp only [List.length_cons] at hlen; omega
        obtain ⟨a, b, c, d, e⟩ := ih _ hi' hf' hlen'
        exact ⟨a, b, ht.trans c, d, e⟩
    · obtain ⟨e1, e2⟩ := runOps_ticks_idle (k :: picks) s hl
      rw [e1, e2]
      have hp : s.loop = .parked := by
        cases h : s.loop with
        | sched => exact absurd h hl
        | dead => exact absurd h hi.alive
        | parked => rfl
      refine ⟨hi, hf, Tracks.refl s, hp, ?_⟩
      intro i st h
      exact hf.inactive_empty hi.toPre i st h (hi.parked hp i st h)


/-- a decidable form of `Fit.strm` (the stream table is finite: `Pre0.dom`) -/
def fitsB (s : State) : Bool :=
  s.ids.all fun i =>
    match s.streams i with
    | some st => decide ((qlen st.queue : Int) ≤ st.window)
    | none => true

theorem fits_of_fitsB (s : State) (hdom : ∀ i st, s.streams i = some st → i ∈ s.ids) (h : fitsB s = true) :
    ∀ sid st, s.streams sid = some st → (qlen st.queue : Int) ≤ st.window := by
  intro sid st hst
  have := List.all_eq_true.mp h sid (hdom sid st hst)
  simpa [hst] using this

end TwistedProps.C29
