import TwistedModel.Amp.Args
import TwistedProps.C30.Args
/-!
Lemmas for C30 about `DateTime`: fixed-width `%0<w>i` fields, `int()` of them, and
`DateTime.fromString (DateTime.toString d)`.  Statements of the property are in `TwistedProps/C30.lean`.
-/
namespace TwistedProps.C30
open Twisted.Amp.Box Twisted.Amp.Args

/-! ### `%0<w>i` -/

theorem natToDec_small (n : Nat) (h : n < 10) : natToDec n = [digitByte n] := by
  rw [natToDec_unfold, if_pos h]

theorem natToDec_length_pos (n : Nat) : 0 < (natToDec n).length := by
  have := natToDec_ne_nil n
  cases h : natToDec n with
  | nil => exact absurd h this
  | cons _ _ => simp

theorem padNat_one (n : Nat) (h : n < 10) : padNat 1 n = [digitByte n] := by
  simp [padNat, natToDec_small n h]

theorem padNat_succ (w n : Nat) (hw : 1 ≤ w) :
    padNat (w + 1) n = padNat w (n / 10) ++ [digitByte (n % 10)] := by
  unfold padNat
  by_cases h : n < 10
  · have h0 : n / 10 = 0 := by omega
    have h1 : n % 10 = n := by omega
    rw [natToDec_small n h, h0, h1, natToDec_small 0 (by omega)]
    simp only [List.length_singleton]
    have : w + 1 - 1 = (w - 1) + 1 := by omega
    rw [this, List.replicate_succ']
    simp [digitByte]
  · rw [natToDec_unfold n, if_neg h]
    simp only [List.length_append, List.length_singleton, List.append_assoc]
    have : w + 1 - ((natToDec (n / 10)).length + 1) = w - (natToDec (n / 10)).length := by omega
    rw [this]

theorem pad2 (n : Nat) (h : n < 100) : padNat 2 n = [digitByte (n / 10), digitByte (n % 10)] := by
  rw [padNat_succ 1 n (by omega), padNat_one _ (by omega)]; rfl

theorem pad4 (n : Nat) (h : n < 10000) :
    padNat 4 n = [digitByte (n / 10 / 10 / 10), digitByte (n / 10 / 10 % 10), digitByte (n / 10 % 10), digitByte (n % 10)] := by
  rw [padNat_succ 3 n (by omega), padNat_succ 2 _ (by omega), padNat_succ 1 _ (by omega), padNat_one _ (by omega)]; rfl

theorem pad6 (n : Nat) (h : n < 1000000) :
    padNat 6 n = [digitByte (n / 10 / 10 / 10 / 10 / 10), digitByte (n / 10 / 10 / 10 / 10 % 10),
      digitByte (n / 10 / 10 / 10 % 10), digitByte (n / 10 / 10 % 10), digitByte (n / 10 % 10), digitByte (n % 10)] := by
  rw [padNat_succ 5 n (by omega), padNat_succ 4 _ (by omega), padNat_succ 3 _ (by omega), padNat_succ 2 _ (by omega),
    padNat_succ 1 _ (by omega), padNat_one _ (by omega)]; rfl

/-- `int()` of a non-empty all-digit text is its value -/
theorem pyInt_digits (bs : Bytes) (hd : ∀ b ∈ bs, isDigit b = true) (hne : bs ≠ []) :
    pyInt bs = some (Int.ofNat (digitsVal 0 bs)) := by
  have hns : ∀ b ∈ bs, isSpace b = false := fun b hb => isDigit_not_space b (hd b hb)
  have hp := parseDigits_digits' bs 0 false hd hne
  unfold pyInt
  rw [lstrip_nospace _ hns, rstrip_nospace _ hns]
  split
  · have := hd 45 (by simp)
    simp [isDigit] at this
  · have := hd 43 (by simp)
    simp [isDigit] at this
  · rw [hp]; rfl

theorem pyInt_2 (a b : Nat) (ha : a < 10) (hb : b < 10) :
    pyInt [digitByte a, digitByte b] = some (Int.ofNat (a * 10 + b)) := by
  rw [pyInt_digits _ (by
    intro x hx; simp only [List.mem_cons, List.not_mem_nil, or_false] at hx
    rcases hx with rfl | rfl <;> exact isDigit_digitByte _ (by assumption)) (by simp)]
  simp [digitsVal, digitByte_val a ha, digitByte_val b hb]

theorem pyInt_4 (a b c d : Nat) (ha : a < 10) (hb : b < 10) (hc : c < 10) (hd : d < 10) :
    pyInt [digitByte a, digitByte b, digitByte c, digitByte d] = some (Int.ofNat (((a * 10 + b) * 10 + c) * 10 + d)) := by
  rw [pyInt_digits _ (by
    intro x hx; simp only [List.mem_cons, List.not_mem_nil, or_false] at hx
    rcases hx with rfl | rfl | rfl | rfl <;> exact isDigit_digitByte _ (by assumption)) (by simp)]
  simp [digitsVal, digitByte_val a ha, digitByte_val b hb, digitByte_val c hc, digitByte_val d hd]

theorem pyInt_6 (a b c d e f : Nat) (ha : a < 10) (hb : b < 10) (hc : c < 10) (hd : d < 10) (he : e < 10) (hf : f < 10) :
    pyInt [digitByte a, digitByte b, digitByte c, digitByte d, digitByte e, digitByte f]
      = some (Int.ofNat (((((a * 10 + b) * 10 + c) * 10 + d) * 10 + e) * 10 + f)) := by
  rw [pyInt_digits _ (by
    intro x hx; simp only [List.mem_cons, List.not_mem_nil, or_false] at hx
    rcases hx with rfl | rfl | rfl | rfl | rfl | rfl <;> exact isDigit_digitByte _ (by assumption)) (by simp)]
  simp [digitsVal, digitByte_val a ha, digitByte_val b hb, digitByte_val c hc, digitByte_val d hd, digitByte_val e he,
    digitByte_val f hf]

theorem pyInt_pad2 (n : Nat) (h : n < 100) :
    pyInt [digitByte (n / 10), digitByte (n % 10)] = some (Int.ofNat n) := by
  rw [pyInt_2 _ _ (by omega) (by omega)]; congr 2; omega

theorem pyInt_pad4 (n : Nat) (h : n < 10000) :
    pyInt [digitByte (n / 10 / 10 / 10), digitByte (n / 10 / 10 % 10), digitByte (n / 10 % 10), digitByte (n % 10)]
      = some (Int.ofNat n) := by
  rw [pyInt_4 _ _ _ _ (by omega) (by omega) (by omega) (by omega)]; congr 2; omega

theorem pyInt_pad6 (n : Nat) (h : n < 1000000) :
    pyInt [digitByte (n / 10 / 10 / 10 / 10 / 10), digitByte (n / 10 / 10 / 10 / 10 % 10),
      digitByte (n / 10 / 10 / 10 % 10), digitByte (n / 10 / 10 % 10), digitByte (n / 10 % 10), digitByte (n % 10)]
      = some (Int.ofNat n) := by
  rw [pyInt_6 _ _ _ _ _ _ (by omega) (by omega) (by omega) (by omega) (by omega) (by omega)]; congr 2; omega

theorem digitByte_ascii : ∀ d, d < 10 → ((digitByte d) ≥ 128) = False := by decide


theorem digitByte_ascii' (d : Nat) (h : d < 10) : decide (digitByte d ≥ 128) = false := by
  have := digitByte_ascii d h
  simpa using this

theorem offsetMinutes_bound (o : Int) (h1 : -86400000000 < o) (h2 : o < 86400000000) :
    (offsetMinutes o).natAbs < 1440 := by
  unfold offsetMinutes; split <;> omega

/-- the text `DateTime.toString` produces, written out byte by byte -/
theorem dtToString_explicit (y mo dd h mi s us : Nat) (o : Int)
    (hv : (⟨y, mo, dd, h, mi, s, us, some o⟩ : DT).validFields)
    (h1 : -86400000000 < o) (h2 : o < 86400000000) :
    dtToString ⟨y, mo, dd, h, mi, s, us, some o⟩ = .ok
      [digitByte (y / 10 / 10 / 10), digitByte (y / 10 / 10 % 10), digitByte (y / 10 % 10), digitByte (y % 10), 45,
       digitByte (mo / 10), digitByte (mo % 10), 45, digitByte (dd / 10), digitByte (dd % 10), 84,
       digitByte (h / 10), digitByte (h % 10), 58, digitByte (mi / 10), digitByte (mi % 10), 58,
       digitByte (s / 10), digitByte (s % 10), 46,
       digitByte (us / 10 / 10 / 10 / 10 / 10), digitByte (us / 10 / 10 / 10 / 10 % 10),
       digitByte (us / 10 / 10 / 10 % 10), digitByte (us / 10 / 10 % 10), digitByte (us / 10 % 10), digitByte (us % 10),
       (if offsetMinutes o > 0 then 43 else 45),
       digitByte ((offsetMinutes o).natAbs / 60 / 10), digitByte ((offsetMinutes o).natAbs / 60 % 10), 58,
       digitByte ((offsetMinutes o).natAbs % 60 / 10), digitByte ((offsetMinutes o).natAbs % 60 % 10)] := by
  have hb := offsetMinutes_bound o h1 h2
  simp only [DT.validFields] at hv
  have hd : dd < 100 := by
    have : daysInMonth y mo ≤ 31 := by unfold daysInMonth; split <;> (try split) <;> omega
    omega
  simp only [dtToString]
  rw [if_neg (by omega)]
  rw [pad4 y (by omega), pad2 mo (by omega), pad2 dd hd, pad2 h (by omega), pad2 mi (by omega), pad2 s (by omega),
    pad6 us (by omega), pad2 _ (by omega : (offsetMinutes o).natAbs / 60 < 100),
    pad2 _ (by omega : (offsetMinutes o).natAbs % 60 < 100)]
  rfl

theorem mkDateTime_valid (y mo dd h mi s us : Nat) (off : Option Int) (m : Int)
    (hv : (⟨y, mo, dd, h, mi, s, us, off⟩ : DT).validFields) :
    mkDateTime (Int.ofNat y) (Int.ofNat mo) (Int.ofNat dd) (Int.ofNat h) (Int.ofNat mi) (Int.ofNat s) (Int.ofNat us) m
      = some ⟨y, mo, dd, h, mi, s, us, some (m * 60000000)⟩ := by
  simp only [DT.validFields] at hv
  unfold mkDateTime
  simp only [Int.ofNat_eq_natCast, Int.toNat_natCast]
  rw [if_pos (by omega)]

theorem dtFromString_toString (y mo dd h mi s us : Nat) (o : Int)
    (hv : (⟨y, mo, dd, h, mi, s, us, some o⟩ : DT).validFields)
    (h1 : -86400000000 < o) (h2 : o < 86400000000) (w : Bytes)
    (hw : dtToString ⟨y, mo, dd, h, mi, s, us, some o⟩ = .ok w) :
    dtFromString w = .ok ⟨y, mo, dd, h, mi, s, us, some (offsetMinutes o * 60000000)⟩ := by
  rw [dtToString_explicit y mo dd h mi s us o hv h1 h2] at hw
  have hb := offsetMinutes_bound o h1 h2
  have hv' := hv
  simp only [DT.validFields] at hv
  have hd : dd < 100 := by
    have : daysInMonth y mo ≤ 31 := by unfold daysInMonth; split <;> (try split) <;> omega
    omega
  cases hw
  unfold dtFromString
  have hany : ∀ (sg : UInt8), sg < 128 → List.any
      [digitByte (y / 10 / 10 / 10), digitByte (y / 10 / 10 % 10), digitByte (y / 10 % 10), digitByte (y % 10), 45,
       digitByte (mo / 10), digitByte (mo % 10), 45, digitByte (dd / 10), digitByte (dd % 10), 84,
       digitByte (h / 10), digitByte (h % 10), 58, digitByte (mi / 10), digitByte (mi % 10), 58,
       digitByte (s / 10), digitByte (s % 10), 46,
       digitByte (us / 10 / 10 / 10 / 10 / 10), digitByte (us / 10 / 10 / 10 / 10 % 10),
       digitByte (us / 10 / 10 / 10 % 10), digitByte (us / 10 / 10 % 10), digitByte (us / 10 % 10), digitByte (us % 10),
       sg,
       digitByte ((offsetMinutes o).natAbs / 60 / 10), digitByte ((offsetMinutes o).natAbs / 60 % 10), 58,
       digitByte ((offsetMinutes o).natAbs % 60 / 10), digitByte ((offsetMinutes o).natAbs % 60 % 10)]
      (fun b => decide (b ≥ 128)) = false := by
    intro sg hsg
    simp only [List.any_cons, List.any_nil]
    rw [digitByte_ascii' _ (by omega), digitByte_ascii' _ (by omega), digitByte_ascii' _ (by omega), digitByte_ascii' _ (by omega),
      digitByte_ascii' _ (by omega), digitByte_ascii' _ (by omega), digitByte_ascii' _ (by omega), digitByte_ascii' _ (by omega),
      digitByte_ascii' _ (by omega), digitByte_ascii' _ (by omega), digitByte_ascii' _ (by omega), digitByte_ascii' _ (by omega),
      digitByte_ascii' _ (by omega), digitByte_ascii' _ (by omega), digitByte_ascii' _ (by omega), digitByte_ascii' _ (by omega),
      digitByte_ascii' _ (by omega), digitByte_ascii' _ (by omega), digitByte_ascii' _ (by omega), digitByte_ascii' _ (by omega),
      digitByte_ascii' _ (by omega), digitByte_ascii' _ (by omega), digitByte_ascii' _ (by omega), digitByte_ascii' _ (by omega)]
    have : decide (sg ≥ 128) = false := by simpa using hsg
    rw [this]
    decide
  by_cases hm : offsetMinutes o > 0
  · rw [if_pos hm, hany 43 (by decide)]
    simp only [Bool.false_eq_true, if_false, dtParse]
    rw [pyInt_pad4 y (by omega), pyInt_pad2 mo (by omega), pyInt_pad2 dd hd, pyInt_pad2 h (by omega), pyInt_pad2 mi (by omega),
      pyInt_pad2 s (by omega), pyInt_pad6 us (by omega), pyInt_pad2 _ (by omega : (offsetMinutes o).natAbs / 60 < 100),
      pyInt_pad2 _ (by omega : (offsetMinutes o).natAbs % 60 < 100)]
    simp only [Option.bind_eq_bind, Option.bind_some]
    rw [if_neg (by decide), if_pos (by decide), mkDateTime_valid y mo dd h mi s us (some o) _ hv']
    have e : Int.ofNat ((offsetMinutes o).natAbs / 60) * 60 + Int.ofNat ((offsetMinutes o).natAbs % 60) = offsetMinutes o := by
      simp only [Int.ofNat_eq_natCast]; omega
    rw [e]
  · rw [if_neg hm, hany 45 (by decide)]
    simp only [Bool.false_eq_true, if_false, dtParse]
    rw [pyInt_pad4 y (by omega), pyInt_pad2 mo (by omega), pyInt_pad2 dd hd, pyInt_pad2 h (by omega), pyInt_pad2 mi (by omega),
      pyInt_pad2 s (by omega), pyInt_pad6 us (by omega), pyInt_pad2 _ (by omega : (offsetMinutes o).natAbs / 60 < 100),
      pyInt_pad2 _ (by omega : (offsetMinutes o).natAbs % 60 < 100)]
    simp only [Option.bind_eq_bind, Option.bind_some]
    rw [if_pos (by decide), mkDateTime_valid y mo dd h mi s us (some o) _ hv']
    have e : -Int.ofNat ((offsetMinutes o).natAbs / 60) * 60 + -Int.ofNat ((offsetMinutes o).natAbs % 60) = offsetMinutes o := by
      simp only [Int.ofNat_eq_natCast]; omega
    rw [e]

end TwistedProps.C30
