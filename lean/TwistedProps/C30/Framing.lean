import TwistedModel.Amp.Box
/-!
Lemmas for C30 about `IntNStringReceiver.dataReceived` (`loop`, `dataReceived`, `feedAll`) for an
arbitrary receiver, and about `BinaryBoxProtocol` parsing the output of `AmpBox.serialize`.
The statements of the property are in `TwistedProps/C30.lean`.
-/
namespace TwistedProps.C30
open Twisted.Amp.Box

/-! ### one-step unfoldings of the `while` loop -/

theorem loop_cons2 {σ} (R : Recv σ) (st : σ) (b0 b1 : UInt8) (tl : Bytes) :
    loop R st (b0 :: b1 :: tl) =
      if unpack16 b0 b1 > R.maxLength st then (st, none)
      else if (tl.take (unpack16 b0 b1)).length < unpack16 b0 b1 then (st, some (b0 :: b1 :: tl))
      else loop R (R.stringReceived st (tl.take (unpack16 b0 b1))) (tl.drop (unpack16 b0 b1)) := by
  rw [loop]

theorem loop_nil {σ} (R : Recv σ) (st : σ) : loop R st [] = (st, some []) := by
  rw [loop]; simp

theorem loop_one {σ} (R : Recv σ) (st : σ) (b : UInt8) : loop R st [b] = (st, some [b]) := by
  rw [loop]; simp

/-- a complete string at the head of the buffer is delivered and the loop goes on behind it -/
theorem loop_frame {σ} (R : Recv σ) (st : σ) (s tail : Bytes) (hs : s.length < 65536)
    (hmax : s.length ≤ R.maxLength st) :
    loop R st (pack16 s.length ++ s ++ tail) = loop R (R.stringReceived st s) tail := by
  have hu : unpack16 (UInt8.ofNat (s.length / 256)) (UInt8.ofNat (s.length % 256)) = s.length := by
    simp only [unpack16, UInt8.toNat_ofNat']; omega
  simp only [pack16, List.cons_append, List.nil_append]
  rw [loop_cons2, hu, List.take_left' rfl, List.drop_left' rfl]
  have h1 : ¬ s.length > R.maxLength st := by omega
  simp [h1]

/-! ### the incremental-parser lemmas (any receiver) -/

/-- **Continuation**: what one `dataReceived` leaves unprocessed is re-examined from scratch,
    in the state reached, when more data arrives — so cutting the stream anywhere is invisible. -/
theorem loop_append {σ} (R : Recv σ) (st : σ) (rest d : Bytes) (st' : σ) (r : Bytes)
    (h : loop R st rest = (st', some r)) : loop R st (rest ++ d) = loop R st' (r ++ d) := by
  fun_induction loop R st rest with
  | case1 st b0 b1 tl n hn => simp at h
  | case2 st b0 b1 tl n hn packet hp =>
    simp at h; obtain ⟨rfl, rfl⟩ := h; rfl
  | case3 st b0 b1 tl n hn packet hp ih =>
    have ih := ih h
    rw [← ih]
    simp only [List.cons_append]
    rw [loop_cons2]
    have hle : n ≤ tl.length := by
      have : packet.length = min n tl.length := List.length_take
      omega
    have h1 : List.take n (tl ++ d) = List.take n tl := List.take_append_of_le_length hle
    have h2 : List.drop n (tl ++ d) = List.drop n tl ++ d := List.drop_append_of_le_length hle
    show (if n > R.maxLength st then (st, none) else
      if (List.take n (tl ++ d)).length < n then (st, some (b0 :: b1 :: (tl ++ d)))
      else loop R (R.stringReceived st (List.take n (tl ++ d))) (List.drop n (tl ++ d))) = _
    rw [h1, h2, if_neg hn, if_neg hp]
  | case4 st rest hne =>
    simp at h; obtain ⟨rfl, rfl⟩ := h; rfl

/-- if the whole stream never trips `lengthLimitExceeded`, no prefix of it does -/
theorem loop_prefix_ok {σ} (R : Recv σ) (st : σ) (rest d : Bytes) (c : σ) (r : Bytes)
    (h : loop R st (rest ++ d) = (c, some r)) : ∃ c' r', loop R st rest = (c', some r') := by
  fun_induction loop R st rest with
  | case1 st b0 b1 tl n hn =>
    simp only [List.cons_append] at h
    rw [loop_cons2] at h
    have hn' : unpack16 b0 b1 > R.maxLength st := hn
    simp [hn'] at h
  | case2 st b0 b1 tl n hn packet hp => exact ⟨_, _, rfl⟩
  | case3 st b0 b1 tl n hn packet hp ih =>
    apply ih
    simp only [List.cons_append] at h
    rw [loop_cons2] at h
    have hle : n ≤ tl.length := by
      have : packet.length = min n tl.length := List.length_take
      omega
    have h1 : List.take n (tl ++ d) = List.take n tl := List.take_append_of_le_length hle
    have h2 : List.drop n (tl ++ d) = List.drop n tl ++ d := List.drop_append_of_le_length hle
    change (if n > R.maxLength st then (st, none) else
      if (List.take n (tl ++ d)).length < n then (st, some (b0 :: b1 :: (tl ++ d)))
      else loop R (R.stringReceived st (List.take n (tl ++ d))) (List.drop n (tl ++ d))) = _ at h
    rw [h1, h2, if_neg hn, if_neg hp] at h
    exact h
  | case4 st rest hne => exact ⟨_, _, rfl⟩

/-- the leftover of a `dataReceived` is stuck: parsing it again changes nothing -/
theorem loop_stuck {σ} (R : Recv σ) (st : σ) (rest : Bytes) (st' : σ) (r : Bytes)
    (h : loop R st rest = (st', some r)) : loop R st' r = (st', some r) := by
  fun_induction loop R st rest with
  | case1 st b0 b1 tl n hn => simp at h
  | case2 st b0 b1 tl n hn packet hp =>
    simp at h; obtain ⟨rfl, rfl⟩ := h
    rw [loop_cons2]
    have hp' : (List.take (unpack16 b0 b1) tl).length < unpack16 b0 b1 := hp
    have hn' : ¬ unpack16 b0 b1 > R.maxLength st := hn
    rw [if_neg hn', if_pos hp']
  | case3 st b0 b1 tl n hn packet hp ih => exact ih h
  | case4 st rest hne =>
    simp at h; obtain ⟨rfl, rfl⟩ := h
    match rest, hne with
    | [], _ => exact loop_nil R st
    | [b], _ => exact loop_one R st b
    | b0 :: b1 :: tl, hne => exact absurd rfl (hne b0 b1 tl)

/-- **Segmentation invariance**: if parsing the concatenation of all chunks in one go never
    exceeds a length limit, feeding the chunks one `dataReceived` at a time ends in exactly
    the same receiver state and leftover. -/
theorem feedAll_eq {σ} (R : Recv σ) (cs : List Bytes) (p : Proto σ) (c : σ) (r : Bytes)
    (hstuck : loop R p.core p.unprocessed = (p.core, some p.unprocessed))
    (h : loop R p.core (p.unprocessed ++ cs.flatten) = (c, some r)) :
    feedAll R p cs = ⟨c, r, p.exceeded⟩ := by
  induction cs generalizing p with
  | nil =>
    simp only [List.flatten_nil, List.append_nil] at h
    rw [hstuck] at h
    simp at h
    obtain ⟨rfl, rfl⟩ := h
    rfl
  | cons ch cs ih =>
    simp only [List.flatten_cons] at h
    rw [← List.append_assoc] at h
    obtain ⟨c1, r1, h1⟩ := loop_prefix_ok R p.core (p.unprocessed ++ ch) cs.flatten c r h
    have hd : dataReceived R p ch = ⟨c1, r1, p.exceeded⟩ := by
      simp only [dataReceived, h1]
    rw [loop_append R p.core _ cs.flatten c1 r1 h1] at h
    simp only [feedAll, hd]
    exact ih ⟨c1, r1, p.exceeded⟩ (loop_stuck R p.core _ c1 r1 h1) h

/-! ### `AmpBox.serialize` -/

/-- the statement's precondition on one key/value pair -/
def wfItem (kv : Bytes × Bytes) : Prop :=
  1 ≤ kv.1.length ∧ kv.1.length ≤ 255 ∧ kv.2.length ≤ 65535

instance (kv : Bytes × Bytes) : Decidable (wfItem kv) := by unfold wfItem; infer_instance

/-- wire form of one pair -/
def itemWire (kv : Bytes × Bytes) : Bytes :=
  pack16 kv.1.length ++ kv.1 ++ (pack16 kv.2.length ++ kv.2)

/-- wire form of an already sorted item list -/
def itemsWire : Box → Bytes
  | [] => pack16 0
  | kv :: rest => itemWire kv ++ itemsWire rest

theorem encodeItems_ok (items : Box) (h : ∀ kv ∈ items, wfItem kv) :
    encodeItems items = .ok (itemsWire items) := by
  induction items with
  | nil => rfl
  | cons kv rest ih =>
    obtain ⟨k, v⟩ := kv
    have hkv := h (k, v) (by simp)
    simp only [wfItem] at hkv
    have ih := ih (fun x hx => h x (by simp [hx]))
    have h0 : ¬ k.length = 0 := by omega
    have h1 : ¬ k.length > MAX_KEY_LENGTH := by simp only [MAX_KEY_LENGTH]; omega
    have h2 : ¬ v.length > MAX_VALUE_LENGTH := by simp only [MAX_VALUE_LENGTH]; omega
    simp only [encodeItems, h0, h1, h2, if_false, ih, itemsWire, itemWire, List.append_assoc]

theorem encodeItems_wf (items : Box) (w : Bytes) (h : encodeItems items = .ok w) :
    ∀ kv ∈ items, wfItem kv := by
  induction items generalizing w with
  | nil => simp
  | cons kv rest ih =>
    obtain ⟨k, v⟩ := kv
    simp only [encodeItems] at h
    split at h
    · simp at h
    · split at h
      · simp at h
      · split at h
        · simp at h
        · rename_i h0 h1 h2
          split at h
          · simp at h
          · rename_i w' hw'
            intro kv hkv
            simp only [List.mem_cons] at hkv
            rcases hkv with rfl | hkv
            · simp only [wfItem, MAX_KEY_LENGTH, MAX_VALUE_LENGTH] at *
              omega
            · exact ih w' hw' kv hkv

theorem insertItem_perm (x : Bytes × Bytes) (ys : Box) : (insertItem x ys).Perm (x :: ys) := by
  induction ys with
  | nil => exact List.Perm.refl _
  | cons y ys ih =>
    simp only [insertItem]
    split
    · exact (List.Perm.cons y ih).trans (List.Perm.swap x y ys)
    · exact List.Perm.refl _

theorem sortItems_perm' (b : Box) : (sortItems b).Perm b := by
  induction b with
  | nil => exact List.Perm.refl _
  | cons x xs ih => exact (insertItem_perm x (sortItems xs)).trans (List.Perm.cons x ih)

/-! ### `BinaryBoxProtocol` parsing one serialized box -/

/-- between boxes -/
def idle (R : List Box) : Core := ⟨.init, 255, [], [], R⟩
/-- inside a box, expecting a key (or the terminator) -/
def inBox (R : List Box) (cur : Box) : Core := ⟨.key, 255, [], cur, R⟩

theorem step_item_idle (R : List Box) (kv : Bytes × Bytes) (h : wfItem kv) (tail : Bytes) :
    loop boxRecv (idle R) (itemWire kv ++ tail) = loop boxRecv (inBox R (dictSet [] kv.1 kv.2)) tail := by
  obtain ⟨k, v⟩ := kv
  simp only [wfItem] at h
  simp only [itemWire, List.append_assoc]
  have hk : k.isEmpty = false := by cases k <;> simp at h ⊢
  rw [← List.append_assoc, loop_frame boxRecv (idle R) k _ (by omega)
    (by simp [boxRecv, idle]; omega)]
  rw [← List.append_assoc, loop_frame boxRecv _ v tail (by omega)
    (by simp [boxRecv, idle, stringReceived, protoKey, hk, MAX_VALUE_LENGTH]; omega)]
  simp [boxRecv, idle, inBox, stringReceived, protoKey, protoValue, hk, MAX_KEY_LENGTH]

theorem step_item_inBox (R : List Box) (cur : Box) (kv : Bytes × Bytes) (h : wfItem kv) (tail : Bytes) :
    loop boxRecv (inBox R cur) (itemWire kv ++ tail) = loop boxRecv (inBox R (dictSet cur kv.1 kv.2)) tail := by
  obtain ⟨k, v⟩ := kv
  simp only [wfItem] at h
  simp only [itemWire, List.append_assoc]
  have hk : k.isEmpty = false := by cases k <;> simp at h ⊢
  rw [← List.append_assoc, loop_frame boxRecv (inBox R cur) k _ (by omega)
    (by simp [boxRecv, inBox]; omega)]
  rw [← List.append_assoc, loop_frame boxRecv _ v tail (by omega)
    (by simp [boxRecv, inBox, stringReceived, protoKey, hk, MAX_VALUE_LENGTH]; omega)]
  simp [boxRecv, inBox, stringReceived, protoKey, protoValue, hk, MAX_KEY_LENGTH]

theorem step_end_idle (R : List Box) (tail : Bytes) :
    loop boxRecv (idle R) (pack16 0 ++ tail) = loop boxRecv (idle (R ++ [[]])) tail := by
  have := loop_frame boxRecv (idle R) [] tail (by simp) (by simp)
  simp only [List.length_nil, List.append_nil] at this
  rw [this]
  simp [boxRecv, idle, stringReceived, protoKey]

theorem step_end_inBox (R : List Box) (cur : Box) (tail : Bytes) :
    loop boxRecv (inBox R cur) (pack16 0 ++ tail) = loop boxRecv (idle (R ++ [cur])) tail := by
  have := loop_frame boxRecv (inBox R cur) [] tail (by simp) (by simp)
  simp only [List.length_nil, List.append_nil] at this
  rw [this]
  simp [boxRecv, idle, inBox, stringReceived, protoKey]

/-- `d[k] = v` for a key not yet in the dict appends -/
theorem dictSet_fresh (d : Box) (k v : Bytes) (h : k ∉ d.map (·.1)) : dictSet d k v = d ++ [(k, v)] := by
  have : d.any (fun p => p.1 == k) = false := by
    rw [List.any_eq_false]
    intro p hp hpk
    apply h
    simp only [beq_iff_eq] at hpk
    exact List.mem_map.mpr ⟨p, hp, hpk⟩
  simp [dictSet, this]

/-- the items of one box, from inside the box -/
theorem parse_items_inBox (R : List Box) (items cur : Box) (tail : Bytes)
    (hwf : ∀ kv ∈ items, wfItem kv) (hnd : ((cur ++ items).map (·.1)).Nodup) :
    loop boxRecv (inBox R cur) (itemsWire items ++ tail) = loop boxRecv (idle (R ++ [cur ++ items])) tail := by
  induction items generalizing cur with
  | nil => simpa [itemsWire] using step_end_inBox R cur tail
  | cons kv rest ih =>
    simp only [itemsWire, List.append_assoc]
    rw [step_item_inBox R cur kv (hwf kv (by simp))]
    have hfresh : kv.1 ∉ cur.map (·.1) := by
      simp only [List.map_append, List.map_cons] at hnd
      have := (List.nodup_append.mp hnd).2.2
      intro hmem
      exact this _ hmem _ (by simp) rfl
    rw [dictSet_fresh cur kv.1 kv.2 hfresh]
    have := ih (cur ++ [(kv.1, kv.2)]) (fun x hx => hwf x (by simp [hx])) (by simpa using hnd)
    simpa using this

/-- one whole serialized box, from between boxes -/
theorem parse_items_idle (R : List Box) (items : Box) (tail : Bytes)
    (hwf : ∀ kv ∈ items, wfItem kv) (hnd : (items.map (·.1)).Nodup) :
    loop boxRecv (idle R) (itemsWire items ++ tail) = loop boxRecv (idle (R ++ [items])) tail := by
  cases items with
  | nil => simpa [itemsWire] using step_end_idle R tail
  | cons kv rest =>
    simp only [itemsWire, List.append_assoc]
    rw [step_item_idle R kv (hwf kv (by simp))]
    rw [dictSet_fresh [] kv.1 kv.2 (by simp)]
    have := parse_items_inBox R rest [(kv.1, kv.2)] tail (fun x hx => hwf x (by simp [hx])) (by simpa using hnd)
    simpa using this

end TwistedProps.C30
