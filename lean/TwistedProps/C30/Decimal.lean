import TwistedModel.Amp.Args
import TwistedProps.C30.Args
/-!
Lemmas for C30 about `Decimal`: `decimal.Decimal(str(d)) == d` on the model of `Decimal.__str__` and of the
`Decimal(str)` parser (`TwistedModel/Amp/Args.lean`).  Statements of the property are in `TwistedProps/C30.lean`.
-/
namespace TwistedProps.C30
open Twisted.Amp.Box Twisted.Amp.Args

/-! ### bytes that `Decimal(str)`'s preprocessing leaves alone -/

/-- ASCII, not white space for `str.strip()`, not an underscore -/
def cleanByte (b : UInt8) : Prop := b < 128 ∧ isSpaceStr b = false ∧ b ≠ 95

instance : DecidablePred cleanByte := fun b => by unfold cleanByte; infer_instance

theorem isDigit_bounds (b : UInt8) (h : isDigit b = true) : 48 ≤ b.toNat ∧ b.toNat ≤ 57 := by
  simp only [isDigit, Bool.and_eq_true, decide_eq_true_eq, UInt8.le_iff_toNat_le] at h
  simpa using h

theorem isDigit_clean (b : UInt8) (h : isDigit b = true) : cleanByte b := by
  have hb := isDigit_bounds b h
  refine ⟨?_, ?_, ?_⟩
  · rw [UInt8.lt_iff_toNat_lt]; simp; omega
  · simp only [isSpaceStr, isDigit_not_space b h, Bool.false_or, Bool.and_eq_false_iff, decide_eq_false_iff_not,
      UInt8.le_iff_toNat_le]
    simp; omega
  · intro h95; rw [h95] at hb; simp at hb

theorem lstripStr_clean (s : Bytes) (h : ∀ b ∈ s, cleanByte b) : lstripStr s = s := by
  cases s with
  | nil => rfl
  | cons b bs => simp [lstripStr, (h b (by simp)).2.1]

theorem rstripStr_clean (s : Bytes) (h : ∀ b ∈ s, cleanByte b) : rstripStr s = s := by
  induction s with
  | nil => rfl
  | cons b bs ih =>
    have ih := ih (fun x hx => h x (by simp [hx]))
    simp only [rstripStr, ih]
    cases bs with
    | nil => simp [(h b (by simp)).2.1]
    | cons c cs => rfl

/-- the sign dispatch of `pyDecimal` on an already stripped text -/
def decSigned (s : Bytes) : Option Dec :=
  match s with
  | 45 :: r => parseDecBody true r
  | 43 :: r => parseDecBody false r
  | r => parseDecBody false r

theorem pyDecimal_clean (s : Bytes) (h : ∀ b ∈ s, cleanByte b) : pyDecimal s = decSigned s := by
  unfold pyDecimal
  rw [lstripStr_clean s h, rstripStr_clean s h]
  have : s.filter (fun b => b != 95) = s := by
    rw [List.filter_eq_self]
    intro b hb
    simpa using (h b hb).2.2
  rw [this]
  rfl

theorem decFromString_clean (s : Bytes) (h : ∀ b ∈ s, cleanByte b) (d : Dec) (hd : pyDecimal s = some d) :
    decFromString s = .ok d := by
  unfold decFromString
  have : s.any (fun b => decide (b ≥ 128)) = false := by
    rw [List.any_eq_false]
    intro b hb
    have := (h b hb).1
    simp only [decide_eq_true_eq, ge_iff_le, UInt8.not_le]
    exact this
  rw [this, hd]
  rfl

/-! ### digits -/

theorem digitsVal_append (acc : Nat) (a b : Bytes) : digitsVal acc (a ++ b) = digitsVal (digitsVal acc a) b := by
  simp [digitsVal, List.foldl_append]

theorem digitsVal_zeros (k : Nat) : digitsVal 0 (zeros k) = 0 := by
  induction k with
  | zero => rfl
  | succ k ih =>
    simp only [zeros, List.replicate_succ] at ih ⊢
    simp only [digitsVal, List.foldl_cons] at ih ⊢
    exact ih

theorem zeros_digits (k : Nat) : ∀ b ∈ zeros k, isDigit b = true := by
  intro b hb
  simp only [zeros, List.mem_replicate] at hb
  rw [hb.2]; decide

theorem takeWhile_digits (ip rest : Bytes) (hip : ∀ b ∈ ip, isDigit b = true)
    (hrest : rest = [] ∨ ∃ c r, rest = c :: r ∧ isDigit c = false) :
    (ip ++ rest).takeWhile isDigit = ip ∧ (ip ++ rest).dropWhile isDigit = rest := by
  induction ip with
  | nil =>
    rcases hrest with rfl | ⟨c, r, rfl, hc⟩
    · simp
    · simp [hc]
  | cons a as ih =>
    have ha := hip a (by simp)
    have := ih (fun x hx => hip x (by simp [hx]))
    simp [ha, this.1, this.2]

theorem parseExp_fmtPlusD (x : Int) : parseExp (fmtPlusD x) = some x := by
  have hd := natToDec_digits x.natAbs
  have hne := natToDec_ne_nil x.natAbs
  have hall : allDigits (natToDec x.natAbs) = true := by
    simp only [allDigits, List.all_eq_true]; exact hd
  have hemp : (natToDec x.natAbs).isEmpty = false := by
    cases h : natToDec x.natAbs with
    | nil => exact absurd h hne
    | cons _ _ => rfl
  unfold fmtPlusD
  by_cases hx : x < 0
  · rw [if_pos hx]
    simp only [parseExp, hall, hemp, digitsVal_natToDec]
    simp; omega
  · rw [if_neg hx]
    simp only [parseExp, hall, hemp, digitsVal_natToDec]
    simp; omega

theorem fmtPlusD_clean (x : Int) : ∀ b ∈ fmtPlusD x, cleanByte b := by
  intro b hb
  unfold fmtPlusD at hb
  simp only [List.mem_cons] at hb
  rcases hb with rfl | hb
  · split <;> decide
  · exact isDigit_clean b (natToDec_digits _ b hb)

/-- the exponent part `Decimal.__str__` may append: nothing, or `E%+d` -/
def ExpTail (tail : Bytes) (x : Int) : Prop := (tail = [] ∧ x = 0) ∨ tail = 69 :: fmtPlusD x

theorem expTail_head (tail : Bytes) (x : Int) (h : ExpTail tail x) :
    tail = [] ∨ ∃ c r, tail = c :: r ∧ isDigit c = false := by
  rcases h with ⟨rfl, _⟩ | rfl
  · exact Or.inl rfl
  · exact Or.inr ⟨69, _, rfl, by decide⟩

/-- `digits[.digits][E±digits]` as printed parses to coefficient `digits digits`, exponent `x − #fraction` -/
theorem parseNumber_ok (neg : Bool) (ip fp tail : Bytes) (x : Int)
    (hip : ∀ b ∈ ip, isDigit b = true) (hfp : ∀ b ∈ fp, isDigit b = true) (hne : ip ≠ [])
    (htail : ExpTail tail x) :
    parseNumber neg (ip ++ (46 :: (fp ++ tail))) = some (.fin neg (digitsVal 0 (ip ++ fp)) (x - Int.ofNat fp.length))
    ∧ parseNumber neg (ip ++ tail) = some (.fin neg (digitsVal 0 ip) x) := by
  have hlen : 0 < ip.length := List.length_pos_iff.mpr hne
  have t1 := takeWhile_digits ip (46 :: (fp ++ tail)) hip (Or.inr ⟨46, _, rfl, by decide⟩)
  have t2 := takeWhile_digits fp tail hfp (expTail_head tail x htail)
  have t3 := takeWhile_digits ip tail hip (expTail_head tail x htail)
  constructor
  · unfold parseNumber
    simp only [t1.1, t1.2, t2.1, t2.2]
    rw [if_neg (by omega)]
    rcases htail with ⟨rfl, rfl⟩ | rfl
    · simp
    · simp [parseExp_fmtPlusD]
  · unfold parseNumber
    simp only [t3.1, t3.2]
    rcases htail with ⟨rfl, rfl⟩ | rfl
    · simp [hne]
    · simp [hne, parseExp_fmtPlusD]

theorem lowerByte_digit (b : UInt8) (h : isDigit b = true) : lowerByte b = b := by
  have hb := isDigit_bounds b h
  unfold lowerByte
  rw [if_neg]
  simp only [Bool.and_eq_true, decide_eq_true_eq, UInt8.le_iff_toNat_le, not_and]
  intro h65; simp at h65; omega

theorem parseDecBody_digit (neg : Bool) (d0 : UInt8) (rest : Bytes) (h : isDigit d0 = true) :
    parseDecBody neg (d0 :: rest) = parseNumber neg (d0 :: rest) := by
  have hb := isDigit_bounds d0 h
  have n1 : (d0 == 110) = false := by
    rw [beq_eq_false_iff_ne]; intro e; rw [e] at hb; simp at hb
  have n2 : (d0 == 115) = false := by
    rw [beq_eq_false_iff_ne]; intro e; rw [e] at hb; simp at hb
  have n3 : (d0 == 105) = false := by
    rw [beq_eq_false_iff_ne]; intro e; rw [e] at hb; simp at hb
  simp only [parseDecBody, ciPrefix, lowerByte_digit d0 h, n1, n2, n3, Bool.false_eq_true, if_false]

/-- text that starts with a digit, behind an optional `-` -/
theorem decSigned_digit (neg : Bool) (d0 : UInt8) (rest : Bytes) (h : isDigit d0 = true) :
    decSigned (signStr neg ++ d0 :: rest) = parseNumber neg (d0 :: rest) := by
  have hb := isDigit_bounds d0 h
  cases neg with
  | true => simp only [signStr, if_true, List.cons_append, List.nil_append, decSigned]; exact parseDecBody_digit true d0 rest h
  | false =>
    simp only [signStr, Bool.false_eq_true, if_false, List.nil_append]
    unfold decSigned
    split
    · rename_i r heq; cases heq; simp at hb
    · rename_i r heq; cases heq; simp at hb
    · exact parseDecBody_digit false d0 rest h

theorem signStr_clean (neg : Bool) : ∀ b ∈ signStr neg, cleanByte b := by
  cases neg <;> simp [signStr] <;> decide

theorem digits_clean (s : Bytes) (h : ∀ b ∈ s, isDigit b = true) : ∀ b ∈ s, cleanByte b :=
  fun b hb => isDigit_clean b (h b hb)

theorem expTail_clean (tail : Bytes) (x : Int) (h : ExpTail tail x) : ∀ b ∈ tail, cleanByte b := by
  rcases h with ⟨rfl, _⟩ | rfl
  · simp
  · intro b hb
    simp only [List.mem_cons] at hb
    rcases hb with rfl | hb
    · decide
    · exact fmtPlusD_clean x b hb

/-- what `Decimal.fromString` makes of `[-]digits.digits[E±d]` and of `[-]digits[E±d]` -/
theorem decFromString_number (neg : Bool) (ip fp tail : Bytes) (x : Int)
    (hip : ∀ b ∈ ip, isDigit b = true) (hfp : ∀ b ∈ fp, isDigit b = true) (hne : ip ≠ [])
    (htail : ExpTail tail x) :
    decFromString (signStr neg ++ ip ++ (46 :: fp) ++ tail) = .ok (.fin neg (digitsVal 0 (ip ++ fp)) (x - Int.ofNat fp.length))
    ∧ decFromString (signStr neg ++ ip ++ tail) = .ok (.fin neg (digitsVal 0 ip) x) := by
  obtain ⟨d0, ip', rfl⟩ : ∃ d0 ip', ip = d0 :: ip' := by
    cases ip with
    | nil => exact absurd rfl hne
    | cons a as => exact ⟨a, as, rfl⟩
  have hd0 := hip d0 (by simp)
  have hp := parseNumber_ok neg (d0 :: ip') fp tail x hip hfp hne htail
  constructor
  · apply decFromString_clean
    · intro b hb
      simp only [List.mem_append, List.mem_cons] at hb
      rcases hb with ((hb | hb) | hb) | hb
      · exact signStr_clean neg b hb
      · exact isDigit_clean b (hip b (by simpa using hb))
      · rcases hb with rfl | hb
        · decide
        · exact isDigit_clean b (hfp b hb)
      · exact expTail_clean tail x htail b hb
    · rw [pyDecimal_clean]
      · have : signStr neg ++ (d0 :: ip') ++ 46 :: fp ++ tail = signStr neg ++ d0 :: (ip' ++ 46 :: (fp ++ tail)) := by simp
        rw [this, decSigned_digit neg d0 _ hd0]
        have := hp.1
        simpa using this
      · intro b hb
        simp only [List.mem_append, List.mem_cons] at hb
        rcases hb with ((hb | hb) | hb) | hb
        · exact signStr_clean neg b hb
        · exact isDigit_clean b (hip b (by simpa using hb))
        · rcases hb with rfl | hb
          · decide
          · exact isDigit_clean b (hfp b hb)
        · exact expTail_clean tail x htail b hb
  · have hcl : ∀ b ∈ signStr neg ++ (d0 :: ip') ++ tail, cleanByte b := by
      intro b hb
      simp only [List.mem_append, List.mem_cons] at hb
      rcases hb with (hb | hb) | hb
      · exact signStr_clean neg b hb
      · exact isDigit_clean b (hip b (by simpa using hb))
      · exact expTail_clean tail x htail b hb
    apply decFromString_clean _ hcl
    rw [pyDecimal_clean _ hcl]
    have : signStr neg ++ (d0 :: ip') ++ tail = signStr neg ++ d0 :: (ip' ++ tail) := by simp
    rw [this, decSigned_digit neg d0 _ hd0]
    have := hp.2
    simpa using this

/-! ### the specials -/

theorem literal_clean : (∀ b ∈ bInfinity, cleanByte b) ∧ (∀ b ∈ bNaN, cleanByte b) ∧ (∀ b ∈ bsNaN, cleanByte b) := by
  decide

theorem decSigned_alpha (neg : Bool) (c : UInt8) (rest : Bytes) (h1 : c ≠ 45) (h2 : c ≠ 43) :
    decSigned (signStr neg ++ c :: rest) = parseDecBody neg (c :: rest) := by
  cases neg with
  | true => simp [signStr, decSigned]
  | false =>
    simp only [signStr, Bool.false_eq_true, if_false, List.nil_append]
    unfold decSigned
    split
    · rename_i r heq; cases heq; exact absurd rfl h1
    · rename_i r heq; cases heq; exact absurd rfl h2
    · rfl

theorem decimal_inf (neg : Bool) : decFromString (decToString (.inf neg)) = .ok (.inf neg) := by
  cases neg <;> rfl

theorem parseDecBody_nan (neg : Bool) (ds : Bytes) (hd : ∀ b ∈ ds, isDigit b = true) :
    parseDecBody neg (bNaN ++ ds) = some (.nan neg false (digitsVal 0 ds))
    ∧ parseDecBody neg (bsNaN ++ ds) = some (.nan neg true (digitsVal 0 ds)) := by
  have hall : allDigits ds = true := by simp only [allDigits, List.all_eq_true]; exact hd
  constructor
  · simp [parseDecBody, bNaN, ciPrefix, lowerByte, hall]
  · simp [parseDecBody, bsNaN, ciPrefix, lowerByte, hall]

theorem decimal_nan (neg sig : Bool) (p : Nat) : decFromString (decToString (.nan neg sig p)) = .ok (.nan neg sig p) := by
  let ds : Bytes := if p = 0 then [] else natToDec p
  have hds : ∀ b ∈ ds, isDigit b = true := by
    intro b hb
    by_cases hp : p = 0
    · simp [ds, hp] at hb
    · simp only [ds, hp, if_false] at hb; exact natToDec_digits p b hb
  have hval : digitsVal 0 ds = p := by
    by_cases hp : p = 0
    · simp [ds, hp, digitsVal]
    · simp only [ds, hp, if_false]; exact digitsVal_natToDec p
  have hs : decToString (.nan neg sig p) = signStr neg ++ ((if sig then bsNaN else bNaN) ++ ds) := by
    simp [decToString, ds]
  have hcl : ∀ b ∈ signStr neg ++ ((if sig then bsNaN else bNaN) ++ ds), cleanByte b := by
    intro b hb
    simp only [List.mem_append] at hb
    rcases hb with hb | hb | hb
    · exact signStr_clean neg b hb
    · cases sig
      · exact literal_clean.2.1 b (by simpa using hb)
      · exact literal_clean.2.2 b (by simpa using hb)
    · exact isDigit_clean b (hds b hb)
  rw [hs]
  apply decFromString_clean _ hcl
  rw [pyDecimal_clean _ hcl]
  have hp := parseDecBody_nan neg ds hds
  cases sig with
  | false =>
    simp only [Bool.false_eq_true, if_false]
    have : bNaN ++ ds = 78 :: ([97, 78] ++ ds) := rfl
    rw [this, decSigned_alpha neg 78 _ (by decide) (by decide), ← this, hp.1, hval]
  | true =>
    simp only [if_true]
    have : bsNaN ++ ds = 115 :: ([78, 97, 78] ++ ds) := rfl
    rw [this, decSigned_alpha neg 115 _ (by decide) (by decide), ← this, hp.2, hval]

/-! ### finite numbers -/

theorem digitsVal_zero_prefix (k : Nat) (ds : Bytes) : digitsVal 0 ((48 :: (zeros k ++ ds))) = digitsVal 0 ds := by
  have : (48 : UInt8) :: (zeros k ++ ds) = zeros (k + 1) ++ ds := by simp [zeros, List.replicate_succ]
  rw [this, digitsVal_append, digitsVal_zeros]

theorem decimal_fin (neg : Bool) (c : Nat) (e : Int) : decFromString (decToString (.fin neg c e)) = .ok (.fin neg c e) := by
  have hd := natToDec_digits c
  have hne := natToDec_ne_nil c
  have hv := digitsVal_natToDec c
  have hlen : 0 < (natToDec c).length := List.length_pos_iff.mpr hne
  simp only [decToString]
  generalize hds : natToDec c = ds at hd hne hv hlen
  by_cases hP1 : e ≤ 0 ∧ e + (ds.length : Int) > -6
  · rw [if_pos hP1, if_pos rfl]
    by_cases hL : e + (ds.length : Int) ≤ 0
    · -- 0.000ddd
      rw [if_pos hL, if_pos hL]
      have := (decFromString_number neg [48] (zeros (-(e + (ds.length : Int))).toNat ++ ds) [] 0
        (by simp; decide) (by
          intro b hb; simp only [List.mem_append] at hb
          rcases hb with hb | hb
          · exact zeros_digits _ b hb
          · exact hd b hb) (by simp) (Or.inl ⟨rfl, rfl⟩)).1
      simp only [List.append_nil, List.append_assoc, List.cons_append, List.nil_append] at this ⊢
      rw [this, digitsVal_zero_prefix, hv]
      congr 2
      simp only [List.length_append, zeros, List.length_replicate, Int.ofNat_eq_natCast]
      omega
    · rw [if_neg hL, if_neg hL]
      by_cases hB : e + (ds.length : Int) ≥ (ds.length : Int)
      · -- ddd (e = 0)
        rw [if_pos hB, if_pos hB]
        have hz : (e + (ds.length : Int) - (ds.length : Int)).toNat = 0 := by omega
        have := (decFromString_number neg ds [] [] 0 hd (by simp) hne (Or.inl ⟨rfl, rfl⟩)).2
        simp only [hz, zeros, List.replicate_zero, List.append_nil] at this ⊢
        rw [this, hv]
        congr 2; omega
      · -- dd.ddd
        rw [if_neg hB, if_neg hB]
        have := (decFromString_number neg (ds.take (e + (ds.length : Int)).toNat) (ds.drop (e + (ds.length : Int)).toNat) [] 0
          (fun b hb => hd b (List.mem_of_mem_take hb)) (fun b hb => hd b (List.mem_of_mem_drop hb))
          (by
            intro h0
            have := congrArg List.length h0
            simp only [List.length_take, List.length_nil] at this
            omega) (Or.inl ⟨rfl, rfl⟩)).1
        simp only [List.append_nil, List.append_assoc] at this ⊢
        rw [this, List.take_append_drop, hv]
        congr 2
        simp only [List.length_drop, Int.ofNat_eq_natCast]
        omega
  · rw [if_neg hP1]
    have hL : ¬ ((1 : Int) ≤ 0) := by omega
    rw [if_neg hL, if_neg hL]
    have hne1 : ¬ (e + (ds.length : Int) = 1) := by omega
    rw [if_neg hne1]
    by_cases hB : (1 : Int) ≥ (ds.length : Int)
    · -- dE+x
      rw [if_pos hB, if_pos hB]
      have hz : ((1 : Int) - (ds.length : Int)).toNat = 0 := by omega
      have := (decFromString_number neg ds [] (69 :: fmtPlusD (e + (ds.length : Int) - 1)) (e + (ds.length : Int) - 1)
        hd (by simp) hne (Or.inr rfl)).2
      simp only [hz, zeros, List.replicate_zero, List.append_nil] at this ⊢
      rw [this, hv]
      congr 2; omega
    · -- d.dddE+x
      rw [if_neg hB, if_neg hB]
      have := (decFromString_number neg (ds.take (1 : Int).toNat) (ds.drop (1 : Int).toNat)
        (69 :: fmtPlusD (e + (ds.length : Int) - 1)) (e + (ds.length : Int) - 1)
        (fun b hb => hd b (List.mem_of_mem_take hb)) (fun b hb => hd b (List.mem_of_mem_drop hb))
        (by
          intro h0
          have := congrArg List.length h0
          simp only [List.length_take, List.length_nil] at this
          omega) (Or.inr rfl)).1
      simp only [List.append_assoc] at this ⊢
      rw [this, List.take_append_drop, hv]
      congr 2
      simp only [List.length_drop, Int.ofNat_eq_natCast]
      omega

/-- **Decimal**: `Decimal(str(d)) == d` for every `Decimal` (sign, coefficient, exponent; ±Infinity;
    ±NaN / ±sNaN with payload) -/
theorem decFromString_toString (d : Dec) : decFromString (decToString d) = .ok d := by
  cases d with
  | fin neg c e => exact decimal_fin neg c e
  | inf neg => exact decimal_inf neg
  | nan neg sig p => exact decimal_nan neg sig p

end TwistedProps.C30
