import TwistedModel.Amp.Args
import TwistedProps.C30.Framing
/-!
Lemmas for C30 about the modelled argument types: decimal digits vs `int()`, UTF-8, `ListOf` framing.
The statements of the property are in `TwistedProps/C30.lean`.
-/
namespace TwistedProps.C30
open Twisted.Amp.Box Twisted.Amp.Args

/-! ### UTF-8: decoding what was encoded, one code point at a time -/

theorem utf8_1 (c : Nat) (h1 : c < 0x80) (rest : Bytes) :
    utf8Decode (UInt8.ofNat c :: rest) = (utf8Decode rest).map (c :: ·) := by
  rw [utf8Decode.eq_def]
  simp only [UInt8.lt_iff_toNat_lt, UInt8.toNat_ofNat', UInt8.toNat_ofNat, Nat.reducePow, Nat.reduceMod]
  have e0 : c % 256 = c := by omega
  rw [e0, if_pos h1]

theorem utf8_2 (c : Nat) (h1 : ¬ c < 0x80) (h2 : c < 0x800) (rest : Bytes) :
    utf8Decode (UInt8.ofNat (0xC0 + c / 64) :: UInt8.ofNat (0x80 + c % 64) :: rest) = (utf8Decode rest).map (c :: ·) := by
  rw [utf8Decode]
  simp only [UInt8.lt_iff_toNat_lt, UInt8.le_iff_toNat_le, isCont, UInt8.toNat_ofNat', UInt8.toNat_ofNat,
    Nat.reducePow, Nat.reduceMod]
  have e0 : (192 + c / 64) % 256 = 192 + c / 64 := by omega
  have e1 : (128 + c % 64) % 256 = 128 + c % 64 := by omega
  rw [e0, e1, if_neg (by omega), if_neg (by omega), if_pos (by omega)]
  have e : (192 + c / 64 - 192) * 64 + (128 + c % 64 - 128) = c := by omega
  rw [e]
  have hc : (decide (128 ≤ 128 + c % 64) && decide (128 + c % 64 < 192) && decide (128 ≤ c)) = true := by
    simp only [Bool.and_eq_true, decide_eq_true_eq]; omega
  rw [if_pos hc]

theorem utf8_3 (c : Nat) (h1 : ¬ c < 0x800) (h2 : c < 0x10000) (hs : isSurrogate c = false) (rest : Bytes) :
    utf8Decode (UInt8.ofNat (0xE0 + c / 4096) :: UInt8.ofNat (0x80 + c / 64 % 64) :: UInt8.ofNat (0x80 + c % 64) :: rest)
      = (utf8Decode rest).map (c :: ·) := by
  rw [utf8Decode]
  simp only [UInt8.lt_iff_toNat_lt, UInt8.le_iff_toNat_le, isCont, UInt8.toNat_ofNat', UInt8.toNat_ofNat,
    Nat.reducePow, Nat.reduceMod]
  have e0 : (224 + c / 4096) % 256 = 224 + c / 4096 := by omega
  have e1 : (128 + c / 64 % 64) % 256 = 128 + c / 64 % 64 := by omega
  have e2 : (128 + c % 64) % 256 = 128 + c % 64 := by omega
  rw [e0, e1, e2, if_neg (by omega), if_neg (by omega), if_neg (by omega), if_pos (by omega)]
  have e : (224 + c / 4096 - 224) * 4096 + (128 + c / 64 % 64 - 128) * 64 + (128 + c % 64 - 128) = c := by omega
  rw [e, hs]
  have hc : (decide (128 ≤ 128 + c / 64 % 64) && decide (128 + c / 64 % 64 < 192) &&
      (decide (128 ≤ 128 + c % 64) && decide (128 + c % 64 < 192)) && decide (2048 ≤ c) && !false) = true := by
    simp only [Bool.and_eq_true, decide_eq_true_eq, Bool.not_false, and_true]; omega
  rw [if_pos hc]

theorem utf8_4 (c : Nat) (h1 : ¬ c < 0x10000) (h2 : c < 0x110000) (rest : Bytes) :
    utf8Decode (UInt8.ofNat (0xF0 + c / 262144) :: UInt8.ofNat (0x80 + c / 4096 % 64) :: UInt8.ofNat (0x80 + c / 64 % 64)
        :: UInt8.ofNat (0x80 + c % 64) :: rest)
      = (utf8Decode rest).map (c :: ·) := by
  rw [utf8Decode]
  simp only [UInt8.lt_iff_toNat_lt, UInt8.le_iff_toNat_le, isCont, UInt8.toNat_ofNat', UInt8.toNat_ofNat,
    Nat.reducePow, Nat.reduceMod]
  have e0 : (240 + c / 262144) % 256 = 240 + c / 262144 := by omega
  have e1 : (128 + c / 4096 % 64) % 256 = 128 + c / 4096 % 64 := by omega
  have e2 : (128 + c / 64 % 64) % 256 = 128 + c / 64 % 64 := by omega
  have e3 : (128 + c % 64) % 256 = 128 + c % 64 := by omega
  rw [e0, e1, e2, e3, if_neg (by omega), if_neg (by omega), if_neg (by omega), if_neg (by omega), if_pos (by omega)]
  have e : (240 + c / 262144 - 240) * 262144 + (128 + c / 4096 % 64 - 128) * 4096 + (128 + c / 64 % 64 - 128) * 64
      + (128 + c % 64 - 128) = c := by omega
  rw [e]
  have hc : (decide (128 ≤ 128 + c / 4096 % 64) && decide (128 + c / 4096 % 64 < 192) &&
      (decide (128 ≤ 128 + c / 64 % 64) && decide (128 + c / 64 % 64 < 192)) &&
      (decide (128 ≤ 128 + c % 64) && decide (128 + c % 64 < 192)) && decide (65536 ≤ c) && decide (c < 1114112)) = true := by
    simp only [Bool.and_eq_true, decide_eq_true_eq]; omega
  rw [if_pos hc]

/-- the encoding of one code point in front of anything decodes to that code point -/
theorem utf8Decode_encodeChar (c : Nat) (bs rest : Bytes) (h : utf8EncodeChar c = some bs) :
    utf8Decode (bs ++ rest) = (utf8Decode rest).map (c :: ·) := by
  unfold utf8EncodeChar at h
  split at h
  · rename_i h1
    cases h; exact utf8_1 c h1 rest
  · rename_i h1
    split at h
    · rename_i h2
      cases h; exact utf8_2 c h1 h2 rest
    · rename_i h2
      split at h
      · rename_i h3
        split at h
        · cases h
        · rename_i hs
          cases h
          exact utf8_3 c h2 h3 (by simpa using hs) rest
      · rename_i h3
        split at h
        · rename_i h4
          cases h; exact utf8_4 c h3 h4 rest
        · cases h

theorem utf8Decode_encode (cs : List Nat) (bs : Bytes) (h : utf8Encode cs = some bs) :
    utf8Decode bs = some cs := by
  induction cs generalizing bs with
  | nil => simp only [utf8Encode] at h; cases h; rfl
  | cons c cs ih =>
    simp only [utf8Encode] at h
    split at h
    · rename_i a b ha hb
      cases h
      rw [utf8Decode_encodeChar c a b ha, ih b hb]
      rfl
    · cases h

/-- one code point is encodable iff it is a Unicode scalar value -/
theorem utf8EncodeChar_isSome (c : Nat) :
    (utf8EncodeChar c).isSome = (decide (c < 0x110000) && !isSurrogate c) := by
  unfold utf8EncodeChar isSurrogate
  by_cases h1 : c < 0x80
  · have h5 : ¬ (0xD800 ≤ c) := by omega
    have h4 : c < 0x110000 := by omega
    simp [h1, h5, h4]
  · by_cases h2 : c < 0x800
    · have h5 : ¬ (0xD800 ≤ c) := by omega
      have h4 : c < 0x110000 := by omega
      simp [h1, h2, h5, h4]
    · by_cases h3 : c < 0x10000
      · have h4 : c < 0x110000 := by omega
        by_cases h5 : 0xD800 ≤ c
        · by_cases h6 : c < 0xE000
          · simp [h1, h2, h3, h4, h5, h6]
          · simp [h1, h2, h3, h4, h5, h6]
        · simp [h1, h2, h3, h4, h5]
      · by_cases h4 : c < 0x110000
        · have h6 : ¬ c < 0xE000 := by omega
          simp [h1, h2, h3, h4, h6]
        · simp [h1, h2, h3, h4]

/-- `str.encode("utf-8")` refuses exactly the texts containing a surrogate (or a non-code-point) -/
theorem utf8Encode_isSome (cs : List Nat) :
    (utf8Encode cs).isSome = cs.all fun c => decide (c < 0x110000) && !isSurrogate c := by
  induction cs with
  | nil => rfl
  | cons c cs ih =>
    simp only [utf8Encode, List.all_cons]
    rw [← ih, ← utf8EncodeChar_isSome]
    cases utf8EncodeChar c <;> cases utf8Encode cs <;> rfl

/-! ### Integer: `int(b"%d" % n) == n` -/

theorem isDigit_digitByte : ∀ d, d < 10 → isDigit (digitByte d) = true := by decide
theorem digitByte_val : ∀ d, d < 10 → (digitByte d).toNat - 48 = d := by decide

theorem isDigit_not_space (b : UInt8) (h : isDigit b = true) : isSpace b = false := by
  simp only [isDigit, isSpace, Bool.and_eq_true, decide_eq_true_eq, Bool.or_eq_false_iff, beq_eq_false_iff_ne,
    Bool.and_eq_false_iff, decide_eq_false_iff_not, UInt8.le_iff_toNat_le] at h ⊢
  have h1 := h.1; have h2 := h.2
  simp at h1 h2
  constructor
  · intro hb; rw [hb] at h1 h2; simp at h1 h2
  · simp; omega

theorem natToDec_unfold (n : Nat) :
    natToDec n = if n < 10 then [digitByte n] else natToDec (n / 10) ++ [digitByte (n % 10)] := by
  rw [natToDec]

theorem natToDec_digits (n : Nat) : ∀ b ∈ natToDec n, isDigit b = true := by
  induction n using Nat.strongRecOn with
  | _ n ih =>
    rw [natToDec_unfold]
    split
    · rename_i h; intro b hb; simp only [List.mem_singleton] at hb; subst hb; exact isDigit_digitByte n h
    · rename_i h
      intro b hb
      simp only [List.mem_append, List.mem_singleton] at hb
      rcases hb with hb | rfl
      · exact ih (n / 10) (by omega) b hb
      · exact isDigit_digitByte _ (by omega)

theorem natToDec_ne_nil (n : Nat) : natToDec n ≠ [] := by
  rw [natToDec_unfold]; split <;> simp

theorem digitsVal_natToDec (n : Nat) : digitsVal 0 (natToDec n) = n := by
  induction n using Nat.strongRecOn with
  | _ n ih =>
    rw [natToDec_unfold]
    split
    · rename_i h; simp [digitsVal, digitByte_val n h]
    · rename_i h
      have := ih (n / 10) (by omega)
      simp only [digitsVal, List.foldl_append, List.foldl_cons, List.foldl_nil] at this ⊢
      rw [this, digitByte_val _ (by omega)]
      omega

theorem parseDigits_digits (bs : Bytes) (acc : Nat) (h : ∀ b ∈ bs, isDigit b = true) :
    parseDigits bs acc true = some (digitsVal acc bs) := by
  induction bs generalizing acc with
  | nil => rfl
  | cons b bs ih =>
    have hb := h b (by simp)
    simp only [parseDigits, hb, if_true, digitsVal, List.foldl_cons]
    exact ih _ (fun x hx => h x (by simp [hx]))

theorem parseDigits_digits' (bs : Bytes) (acc : Nat) (prev : Bool) (h : ∀ b ∈ bs, isDigit b = true) (hne : bs ≠ []) :
    parseDigits bs acc prev = some (digitsVal acc bs) := by
  cases bs with
  | nil => exact absurd rfl hne
  | cons b bs =>
    have hb := h b (by simp)
    simp only [parseDigits, hb, if_true, digitsVal, List.foldl_cons]
    exact parseDigits_digits bs _ (fun x hx => h x (by simp [hx]))

theorem lstrip_nospace (bs : Bytes) (h : ∀ b ∈ bs, isSpace b = false) : lstrip bs = bs := by
  cases bs with
  | nil => rfl
  | cons b bs => simp [lstrip, h b (by simp)]

theorem rstrip_nospace (bs : Bytes) (h : ∀ b ∈ bs, isSpace b = false) : rstrip bs = bs := by
  induction bs with
  | nil => rfl
  | cons b bs ih =>
    have ih := ih (fun x hx => h x (by simp [hx]))
    simp only [rstrip, ih]
    cases bs with
    | nil => simp [h b (by simp)]
    | cons c cs => rfl

theorem pyInt_natToDec (n : Nat) : pyInt (natToDec n) = some (Int.ofNat n) := by
  have hd := natToDec_digits n
  have hns : ∀ b ∈ natToDec n, isSpace b = false := fun b hb => isDigit_not_space b (hd b hb)
  have hp := parseDigits_digits' (natToDec n) 0 false hd (natToDec_ne_nil n)
  rw [digitsVal_natToDec] at hp
  unfold pyInt
  rw [lstrip_nospace _ hns, rstrip_nospace _ hns]
  split
  · rename_i ds heq
    have := hd 45 (by rw [heq]; simp)
    simp [isDigit] at this
  · rename_i ds heq
    have := hd 43 (by rw [heq]; simp)
    simp [isDigit] at this
  · rw [hp]; rfl

theorem pyInt_neg (n : Nat) : pyInt (45 :: natToDec (n + 1)) = some (Int.negSucc n) := by
  have hd := natToDec_digits (n + 1)
  have hns : ∀ b ∈ (45 : UInt8) :: natToDec (n + 1), isSpace b = false := by
    intro b hb
    simp only [List.mem_cons] at hb
    rcases hb with rfl | hb
    · decide
    · exact isDigit_not_space b (hd b hb)
  have hp := parseDigits_digits' (natToDec (n + 1)) 0 false hd (natToDec_ne_nil _)
  rw [digitsVal_natToDec] at hp
  unfold pyInt
  rw [lstrip_nospace _ hns, rstrip_nospace _ hns]
  simp only [hp, Option.map_some]
  rfl

theorem pyInt_intToString (i : Int) : pyInt (intToString i) = some i := by
  cases i with
  | ofNat n => exact pyInt_natToDec n
  | negSucc n => exact pyInt_neg n

/-! ### ListOf -/

theorem listOf_roundtrip {α : Type} (enc : α → Except ArgErr Bytes) (dec : Bytes → Except ArgErr α)
    (xs : List α) (w : Bytes) (acc : List Bytes)
    (hx : ∀ x ∈ xs, ∀ s, enc x = .ok s → dec s = .ok x)
    (h : listToString enc xs = .ok w) :
    ∃ ss, (loop listRecv acc w).1 = acc ++ ss ∧ mapExcept dec ss = .ok xs := by
  induction xs generalizing w acc with
  | nil =>
    simp only [listToString] at h
    cases h
    exact ⟨[], by simp [loop_nil], rfl⟩
  | cons x xs ih =>
    simp only [listToString] at h
    split at h
    · cases h
    · rename_i s hs
      split at h
      · cases h
      · rename_i hlen
        split at h
        · cases h
        · rename_i w' hw'
          cases h
          rw [loop_frame listRecv acc s w' (by omega) (by simp [listRecv]; omega)]
          obtain ⟨ss, h1, h2⟩ := ih w' (acc ++ [s]) (fun y hy => hx y (by simp [hy])) hw'
          refine ⟨s :: ss, ?_, ?_⟩
          · simpa [listRecv] using h1
          · simp only [mapExcept, hx x (by simp) s hs, h2]

/-! generalised ListOf lemma: the element decoder returns `f x` -/
theorem listOf_roundtrip_map {α β : Type} (enc : α → Except ArgErr Bytes) (dec : Bytes → Except ArgErr β) (f : α → β)
    (xs : List α) (w : Bytes) (acc : List Bytes)
    (hx : ∀ x ∈ xs, ∀ s, enc x = .ok s → dec s = .ok (f x))
    (h : listToString enc xs = .ok w) :
    ∃ ss, (loop listRecv acc w).1 = acc ++ ss ∧ mapExcept dec ss = .ok (xs.map f) := by
  induction xs generalizing w acc with
  | nil =>
    simp only [listToString] at h
    cases h
    exact ⟨[], by simp [loop_nil], rfl⟩
  | cons x xs ih =>
    simp only [listToString] at h
    split at h
    · cases h
    · rename_i s hs
      split at h
      · cases h
      · rename_i hlen
        split at h
        · cases h
        · rename_i w' hw'
          cases h
          rw [loop_frame listRecv acc s w' (by omega) (by simp [listRecv]; omega)]
          obtain ⟨ss, h1, h2⟩ := ih w' (acc ++ [s]) (fun y hy => hx y (by simp [hy])) hw'
          refine ⟨s :: ss, ?_, ?_⟩
          · simpa [listRecv] using h1
          · simp only [mapExcept, hx x (by simp) s hs, h2, List.map_cons]

theorem listOf_roundtrip_generic_map {α β : Type} (enc : α → Except ArgErr Bytes) (dec : Bytes → Except ArgErr β) (f : α → β)
    (xs : List α) (w : Bytes) (hx : ∀ x ∈ xs, ∀ s, enc x = .ok s → dec s = .ok (f x))
    (h : listToString enc xs = .ok w) : listFromString dec w = .ok (xs.map f) := by
  obtain ⟨ss, h1, h2⟩ := listOf_roundtrip_map enc dec f xs w [] hx h
  simp only [listFromString, splitStrings, h1, List.nil_append, h2]

/-! ### `mapExcept` -/

theorem mapExcept_ok_cons {α β : Type} (f : α → Except ArgErr β) (x : α) (xs : List α) (ys : List β)
    (h : mapExcept f (x :: xs) = .ok ys) : ∃ y ys', ys = y :: ys' ∧ f x = .ok y ∧ mapExcept f xs = .ok ys' := by
  simp only [mapExcept] at h
  split at h
  · cases h
  · rename_i y hy
    split at h
    · cases h
    · rename_i ys' hys
      cases h
      exact ⟨y, ys', rfl, hy, hys⟩

theorem mapExcept_mem {α β : Type} (f : α → Except ArgErr β) (xs : List α) (ys : List β)
    (h : mapExcept f xs = .ok ys) : ∀ y ∈ ys, ∃ x ∈ xs, f x = .ok y := by
  induction xs generalizing ys with
  | nil => simp only [mapExcept] at h; cases h; simp
  | cons x xs ih =>
    obtain ⟨y0, ys', rfl, h1, h2⟩ := mapExcept_ok_cons f x xs ys h
    intro y hy
    simp only [List.mem_cons] at hy
    rcases hy with rfl | hy
    · exact ⟨x, by simp, h1⟩
    · obtain ⟨x', hx', hfx⟩ := ih ys' h2 y hy
      exact ⟨x', by simp [hx'], hfx⟩

theorem mapExcept_roundtrip {ρ σ : Type} (toBox : ρ → Except ArgErr Box) (fromBox : Box → Except ArgErr σ) (f : ρ → σ)
    (rows : List ρ) (bs : List Box) (h : mapExcept toBox rows = .ok bs)
    (hx : ∀ r ∈ rows, ∀ b, toBox r = .ok b → fromBox (sortItems b) = .ok (f r)) :
    mapExcept fromBox (bs.map sortItems) = .ok (rows.map f) := by
  induction rows generalizing bs with
  | nil => simp only [mapExcept] at h; cases h; rfl
  | cons r rs ih =>
    obtain ⟨b, bs', rfl, h1, h2⟩ := mapExcept_ok_cons toBox r rs bs h
    simp only [List.map_cons, mapExcept, hx r (by simp) b h1, ih bs' h2 (fun r' hr' => hx r' (by simp [hr']))]

end TwistedProps.C30
