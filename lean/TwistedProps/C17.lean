import TwistedProps.C17.World
import TwistedProps.C17.Wire
import TwistedProps.C17.Quiesce
import TwistedProps.C17.Mono
/-!
C17 — the TLS memory-BIO layer delivers application bytes intact and terminates cleanly.

Model: `TwistedModel/Transport/Tls.lean` (TLSMemoryBIOProtocol / BufferingTLSTransport / _AggregateSmallWrites of
`twisted/protocols/tls.py` after the repair of this round, over the FakeEngine that replaces pyOpenSSL, wired through
two `iosim.FakeTransport`s and driven by an arbitrary schedule `ops : List Op` of application writes `W`,
`loseConnection` `L`, network deliveries of arbitrary segments `D`, clock ticks `T`, local close completions `F` and
EOFs `E`, by either side, in any order, before/during/after the handshake).

FULL STATEMENT (property C17):
  for every schedule, each application receives exactly the bytes the peer wrote before its loseConnection, in order,
  followed by exactly one connectionLost; both underlying transports are eventually closed.

What is proved here, for EVERY schedule, every number of handshake flights, every engine record limit 1..255 (the
range of the stand-in engine: one length byte per record), either protocol class on either side, with or without a
write from `handshakeCompleted`:

 * `sender_accounting`      every byte an application wrote before its loseConnection is — in order, none missing, none
                            twice — either already inside the TLS engine, or in `_appSendBuffer`, or in the aggregator
                            (as long as the TLS connection is not lost); in particular what reached the engine is a
                            prefix of what was written (`sent_in_order`).  This is the invariant the unrepaired code
                            violated (write from handshakeCompleted overtaking `_appSendBuffer`).
 * `receiver_accounting`    what an application has received, plus what the engine still holds decrypted, is exactly
                            what the engine decoded (unless the side aborted); always a prefix (`delivered_in_order`).
 * `engine_pair_contract`   (formerly a HYPOTHESIS) what Y's engine decoded is a prefix of what X's engine accepted:
                            the bytes in flight `Y.inB ++ X.out ++ X.outB` always are the encoding of a list of
                            well-formed records whose data payloads are exactly `sentPlain(X)` minus `recvPlain(Y)`
                            (`WInv`, C17/Chan.lean + C17/Wire.lean); `_flushSendBIO`'s 32768-byte slices, arbitrary
                            delivery segments and a transport told to close only ever cut that stream at its tail.
 * `app_bytes_intact`       END TO END, NO HYPOTHESIS ON THE RUN: received(Y) is a prefix of what X wrote before its
                            loseConnection, in every reachable state.
 * `all_decoded_at_close_notify`  no data record follows a close_notify and none is lost before it: once Y's engine
                            has read X's close_notify, recvPlain(Y) = sentPlain(X).
 * `app_bytes_exact_when_drained`, `app_bytes_exact_at_clean_close`, `app_bytes_exact_after_clean_close`
                            "EXACTLY the bytes written before the peer's loseConnection": in every state in which the
                            direction is drained; at the clean-close point (X called loseConnection with its TLS
                            connection up and its buffer flushed, Y has read X's close_notify); and in EVERY LATER STATE
                            of every continuation of the schedule — in particular in every quiescent final state.
 * `connectionLost_exactly_once`  connectionLost has been delivered exactly once if the underlying transport is gone,
                            and not at all otherwise.
 * `no_data_after_connectionLost`
 * `both_transports_closed_at_quiescence_partial`  in every quiescent reachable world (`Quiescent`: no delivery, timer,
                            close completion or EOF enabled; a fixpoint of all non-application steps and of the drain)
                            in which some transport was told to close, both transports are closed and each application
                            got exactly one connectionLost.

PARTIAL — what is still missing from the full statement:
 (1) PROGRESS of the two-sided dance: that after a loseConnection by either side every fair run reaches (a) a state
     where some transport has been told to close (needed to drop the hypothesis `tDisc` of
     `both_transports_closed_at_quiescence_partial`) and (b) — when the receiver neither closes nor aborts first — the
     clean-close point (needed to drop the hypotheses of `app_bytes_exact_after_clean_close`).  Both need one more
     invariant: the two engines' flight counters `seen` against the handshake records in flight (no deadlock, no
     `failed`), and "close_notify is answered".  They are checked on the real code by the oracle of
     harness/corr/C17.py on every run (keys `lost-bytes`, `not-closed`, `not-quiescent`).
     Note that "exactly" cannot hold unconditionally: if the receiver closes or aborts first, the peer's later writes
     are legitimately dropped (the oracle makes the same exception).
 (2) producers are outside the model (oracle only).
-/
namespace TwistedProps.C17
open Twisted.Transport.Tls

/-- the world after an arbitrary schedule and then `n` fair drain rounds (n = 0: no drain) -/
def reach (k : Nat) (cc cs : Cfg) (ops : List Op) (n : Nat) : World := ((World.init k cc cs).run ops).drain n

theorem reach_inv (k : Nat) (cc cs : Cfg) (ops : List Op) (n : Nat) (hc : 0 < cc.recMax) (hs : 0 < cs.recMax) :
    Inv (reach k cc cs ops n) :=
  drain_inv n _ (run_inv ops _ (init_inv k cc cs hc hs))

/-- the bytes of application `who` that are not yet inside its TLS engine -/
def pendingOf (x : Side) : Bytes := x.buf.flatten ++ (if x.closed then [] else x.agg.flatten)

theorem sender_accounting (k : Nat) (cc cs : Cfg) (ops : List Op) (n : Nat) (hc : 0 < cc.recMax) (hs : 0 < cs.recMax)
    (who : Who) :
    let x := (reach k cc cs ops n).get who
    x.lost = false → x.e.sentPlain ++ pendingOf x = x.accepted := by
  intro x hl
  have := ((reach_inv k cc cs ops n hc hs).get who).1.pend.eq hl
  show x.e.sentPlain ++ pendingOf x = x.accepted
  simp only [pendingOf, aggPart, view, List.append_assoc] at this ⊢
  exact this

theorem sent_in_order (k : Nat) (cc cs : Cfg) (ops : List Op) (n : Nat) (hc : 0 < cc.recMax) (hs : 0 < cs.recMax)
    (who : Who) :
    ((reach k cc cs ops n).get who).e.sentPlain <+: ((reach k cc cs ops n).get who).accepted :=
  ((reach_inv k cc cs ops n hc hs).get who).1.pend.pre

theorem receiver_accounting (k : Nat) (cc cs : Cfg) (ops : List Op) (n : Nat) (hc : 0 < cc.recMax) (hs : 0 < cs.recMax)
    (who : Who) :
    let y := (reach k cc cs ops n).get who
    y.aborted = false → y.rcvd ++ y.e.plain = y.e.recvPlain :=
  fun ha => ((reach_inv k cc cs ops n hc hs).get who).1.rest.g2e ha

theorem delivered_in_order (k : Nat) (cc cs : Cfg) (ops : List Op) (n : Nat) (hc : 0 < cc.recMax) (hs : 0 < cs.recMax)
    (who : Who) :
    ((reach k cc cs ops n).get who).rcvd <+: ((reach k cc cs ops n).get who).e.recvPlain :=
  ((reach_inv k cc cs ops n hc hs).get who).1.rest.g2p

theorem connectionLost_exactly_once (k : Nat) (cc cs : Cfg) (ops : List Op) (n : Nat) (hc : 0 < cc.recMax)
    (hs : 0 < cs.recMax) (who : Who) :
    ((reach k cc cs ops n).get who).lostN = (if ((reach k cc cs ops n).get who).tGone then 1 else 0) :=
  ((reach_inv k cc cs ops n hc hs).get who).2

theorem no_data_after_connectionLost (k : Nat) (cc cs : Cfg) (ops : List Op) (n : Nat) (hc : 0 < cc.recMax)
    (hs : 0 < cs.recMax) (who : Who) :
    ((reach k cc cs ops n).get who).late = false :=
  ((reach_inv k cc cs ops n hc hs).get who).1.rest.late

/-- the engine-pair + wire invariant (`WInv`, TwistedProps/C17/Wire.lean) of every reachable world -/
theorem reach_winv (k : Nat) (cc cs : Cfg) (ops : List Op) (n : Nat) (hc : cc.recMax ≤ 255) (hs : cs.recMax ≤ 255) :
    WInv (reach k cc cs ops n) :=
  drain_winv n _ (run_winv ops _ (init_winv k cc cs hc hs))

/-- THE ENGINE-PAIR CONTRACT (was a hypothesis): over the FakeEngine pair and the fake wire, what the engine of `who`
    has decoded from application-data records is a prefix of what the peer's engine accepted through `send` — for
    every schedule.  Records are `[type,len]++payload` with `len ≤ recMax ≤ 255`, the wire is FIFO, `_flushSendBIO`'s
    32768-byte slices and a transport that was told to close only ever cut the stream at its tail. -/
theorem engine_pair_contract (k : Nat) (cc cs : Cfg) (ops : List Op) (n : Nat) (hc : cc.recMax ≤ 255)
    (hs : cs.recMax ≤ 255) (who : Who) :
    ((reach k cc cs ops n).get who).e.recvPlain <+: ((reach k cc cs ops n).get who.other).e.sentPlain :=
  ((reach_winv k cc cs ops n hc hs).chan who).prefix

/-- End to end given any engine pair that satisfies the contract in the final state (kept for record limits > 255,
    where the one-byte length field of the stand-in's records wraps). `who` is the receiver. -/
theorem app_bytes_intact_of_contract (k : Nat) (cc cs : Cfg) (ops : List Op) (n : Nat) (hc : 0 < cc.recMax)
    (hs : 0 < cs.recMax) (who : Who)
    (contract : ((reach k cc cs ops n).get who).e.recvPlain <+: ((reach k cc cs ops n).get who.other).e.sentPlain) :
    ((reach k cc cs ops n).get who).rcvd <+: ((reach k cc cs ops n).get who.other).accepted :=
  ((delivered_in_order k cc cs ops n hc hs who).trans contract).trans (sent_in_order k cc cs ops n hc hs who.other)

/-- END TO END, no hypothesis on the run: for every schedule, every number of handshake flights, every record limit
    1..255 (the range of the stand-in engine), what application `who` has received is a prefix of what the peer wrote
    before its loseConnection — in order, nothing altered, nothing duplicated. -/
theorem app_bytes_intact (k : Nat) (cc cs : Cfg) (ops : List Op) (n : Nat) (hc : 0 < cc.recMax) (hs : 0 < cs.recMax)
    (hc' : cc.recMax ≤ 255) (hs' : cs.recMax ≤ 255) (who : Who) :
    ((reach k cc cs ops n).get who).rcvd <+: ((reach k cc cs ops n).get who.other).accepted :=
  app_bytes_intact_of_contract k cc cs ops n hc hs who (engine_pair_contract k cc cs ops n hc' hs' who)

/-- "exactly", at the engine level: once the engine of `who` has read the peer's close_notify, it has decoded exactly
    the bytes the peer's engine ever accepted (no data record can follow a close_notify, none is lost before it), and —
    unless `who` aborted — the application has received all of them except what `recv` still holds back. -/
theorem all_decoded_at_close_notify (k : Nat) (cc cs : Cfg) (ops : List Op) (n : Nat) (hc : 0 < cc.recMax)
    (hs : 0 < cs.recMax) (hc' : cc.recMax ≤ 255) (hs' : cs.recMax ≤ 255) (who : Who) :
    let y := (reach k cc cs ops n).get who
    let x := (reach k cc cs ops n).get who.other
    y.e.recvSD = true → y.e.recvPlain = x.e.sentPlain ∧ x.e.sentSD = true ∧
      (y.aborted = false → y.rcvd ++ y.e.plain = x.e.sentPlain) := by
  intro y x hy
  obtain ⟨h1, h2⟩ := ((reach_winv k cc cs ops n hc' hs').chan who).exact hy
  exact ⟨h1, h2, fun ha => (receiver_accounting k cc cs ops n hc hs who ha).trans h1⟩

/-- "exactly", in every state in which the direction `who.other → who` is drained (aggregator, `_appSendBuffer`, send
    BIO, wire, receive BIO and the engine's decrypted buffer all empty) while the sender's TLS connection is up:
    the application `who` has received exactly what the peer wrote before its loseConnection. -/
theorem app_bytes_exact_when_drained (k : Nat) (cc cs : Cfg) (ops : List Op) (n : Nat) (hc : 0 < cc.recMax)
    (hs : 0 < cs.recMax) (hc' : cc.recMax ≤ 255) (hs' : cs.recMax ≤ 255) (who : Who) :
    let y := (reach k cc cs ops n).get who
    let x := (reach k cc cs ops n).get who.other
    x.lost = false → pendingOf x = [] → x.e.outB = [] → x.out = [] → x.tDisc = false → y.e.inB = [] →
      y.e.plain = [] → y.aborted = false → y.rcvd = x.accepted := by
  intro y x hl hp ho hw ht hi hpl ha
  have h1 := ((reach_winv k cc cs ops n hc' hs').chan who).drained hi hw ho ht
  have h2 := receiver_accounting k cc cs ops n hc hs who ha
  have h3 := sender_accounting k cc cs ops n hc hs who.other hl
  show y.rcvd = x.accepted
  have h2' : y.rcvd ++ y.e.plain = y.e.recvPlain := h2
  have h3' : x.e.sentPlain ++ pendingOf x = x.accepted := h3
  rw [hpl, List.append_nil] at h2'
  rw [hp, List.append_nil] at h3'
  rw [h2', ← h3']; exact h1

/-- "exactly the bytes written before the peer's loseConnection", at the clean-close point of the closing dance: the
    peer `x` has called loseConnection while its TLS connection was up, its `_appSendBuffer` is flushed (so its
    close_notify is out), and `who` has read that close_notify and holds nothing back.  Then `who` has received exactly
    what `x` wrote before its loseConnection — every byte, in order, none twice. -/
theorem app_bytes_exact_at_clean_close (k : Nat) (cc cs : Cfg) (ops : List Op) (n : Nat) (hc : 0 < cc.recMax)
    (hs : 0 < cs.recMax) (hc' : cc.recMax ≤ 255) (hs' : cs.recMax ≤ 255) (who : Who) :
    let y := (reach k cc cs ops n).get who
    let x := (reach k cc cs ops n).get who.other
    x.closed = true → x.lost = false → x.buf = [] → y.e.recvSD = true → y.e.plain = [] → y.aborted = false →
      y.rcvd = x.accepted := by
  intro y x hcl hl hb hy hpl ha
  obtain ⟨-, -, h3⟩ := all_decoded_at_close_notify k cc cs ops n hc hs hc' hs' who hy
  have h3' : y.rcvd ++ y.e.plain = x.e.sentPlain := h3 ha
  have h4 : x.e.sentPlain ++ pendingOf x = x.accepted := sender_accounting k cc cs ops n hc hs who.other hl
  have hp : pendingOf x = [] := by simp [pendingOf, hb, hcl]
  rw [hpl, List.append_nil] at h3'
  rw [hp, List.append_nil] at h4
  show y.rcvd = x.accepted
  rw [h3', h4]

/-- "EXACTLY", in every state after the clean-close point — in particular in every quiescent final state: if the
    schedule `ops1` brings the connection to a clean-close point for the direction `who.other → who` (hypotheses of
    `app_bytes_exact_at_clean_close`), then whatever happens afterwards (any further schedule `ops2` of writes,
    loseConnections, deliveries, ticks, closes, EOFs, then any number of drain rounds), `who` has received exactly the
    bytes the peer wrote before its loseConnection: nothing is added, lost or reordered later on.
    PARTIAL w.r.t. the full statement only in that reaching the clean-close point (when the receiver does not close or
    abort first) is the same progress argument that is missing from `both_transports_closed_at_quiescence_partial`. -/
theorem app_bytes_exact_after_clean_close (k : Nat) (cc cs : Cfg) (ops1 ops2 : List Op) (n : Nat) (hc : 0 < cc.recMax)
    (hs : 0 < cs.recMax) (hc' : cc.recMax ≤ 255) (hs' : cs.recMax ≤ 255) (who : Who) :
    let y1 := (reach k cc cs ops1 0).get who
    let x1 := (reach k cc cs ops1 0).get who.other
    let y := (reach k cc cs (ops1 ++ ops2) n).get who
    let x := (reach k cc cs (ops1 ++ ops2) n).get who.other
    x1.closed = true → x1.lost = false → x1.buf = [] → y1.e.recvSD = true → y1.e.plain = [] → y1.aborted = false →
      y.rcvd = x.accepted ∧ x.accepted = x1.accepted := by
  intro y1 x1 y x hcl hl hb hy hpl ha
  have h1 : y1.rcvd = x1.accepted :=
    app_bytes_exact_at_clean_close k cc cs ops1 0 hc hs hc' hs' who hcl hl hb hy hpl ha
  have hm : MonoW (reach k cc cs ops1 0) (reach k cc cs (ops1 ++ ops2) n) := by
    unfold reach
    rw [run_append]
    exact (run_mono ops2 _).trans (drain_mono n _)
  have m1 : y1.rcvd <+: y.rcvd := (hm who).1
  have m2 : x.accepted = x1.accepted := ((hm who.other).2 hcl).2
  have h2 : y.rcvd <+: x.accepted := app_bytes_intact k cc cs (ops1 ++ ops2) n hc hs hc' hs' who
  refine ⟨?_, m2⟩
  rw [m2, ← h1] at h2 ⊢
  exact h2.eq_of_length (Nat.le_antisymm h2.length_le m1.length_le)

/-- Termination, the part that is proved: in every QUIESCENT reachable world (no delivery, timer, close completion or
    EOF is enabled — `Quiescent`, a fixpoint of every non-application step and of the drain: `Quiescent.fix`,
    `Quiescent.drain`) in which some underlying transport was told to close, BOTH underlying transports are closed and
    each application got exactly one connectionLost.
    PARTIAL — missing for the full `both_transports_eventually_closed`: that a loseConnection by either side always
    leads to some transport being told to close before quiescence (progress of the two-sided handshake / close_notify
    dance: needs an invariant tying the two engines' flight counters to the handshake records in flight). -/
theorem both_transports_closed_at_quiescence_partial (k : Nat) (cc cs : Cfg) (ops : List Op) (n : Nat)
    (hc : 0 < cc.recMax) (hs : 0 < cs.recMax) (who : Who) :
    let w := reach k cc cs ops n
    Quiescent w → (w.get who).tDisc = true →
      w.c.tGone = true ∧ w.s.tGone = true ∧ w.c.lostN = 1 ∧ w.s.lostN = 1 := by
  intro w hq hd
  obtain ⟨g1, g2⟩ := hq.both_gone who hd
  have gc : w.c.tGone = true := by cases who <;> assumption
  have gs : w.s.tGone = true := by cases who <;> assumption
  have lc := connectionLost_exactly_once k cc cs ops n hc hs .c
  have ls := connectionLost_exactly_once k cc cs ops n hc hs .s
  refine ⟨gc, gs, ?_, ?_⟩
  · have : w.c.lostN = (if w.c.tGone then 1 else 0) := lc
    rw [this, gc]; rfl
  · have : w.s.lostN = (if w.s.tGone then 1 else 0) := ls
    rw [this, gs]; rfl

/-! ### non-vacuity: a concrete schedule (write during the handshake, write from handshakeCompleted, byte-wise and
bulk deliveries, loseConnection, drain) on which the hypotheses hold and the conclusions are non-trivial -/

def exCfgC : Cfg := { buffering := false, recMax := 2, hook := some (100, 2) }
def exCfgS : Cfg := { buffering := true, recMax := 255, hook := none }
def exOps : List Op := [.W .c 0 3, .D .s 1, .D .s 5, .D .c 9, .W .s 7 2, .T .s, .L .c]
def exW : World := reach 2 exCfgC exCfgS exOps 12

example : exW.s.rcvd = [0, 1, 2, 100, 101] ∧ exW.c.accepted = [0, 1, 2, 100, 101] := by decide +kernel
example : exW.c.rcvd = [7, 8] ∧ exW.s.accepted = [7, 8] := by decide +kernel
example : exW.s.e.recvPlain = exW.c.e.sentPlain ∧ exW.c.e.sentPlain ≠ [] := by decide +kernel
example : exW.s.e.recvSD = true ∧ exW.s.aborted = false ∧ exW.c.e.recvSD = true := by decide +kernel
/-- a drained intermediate state (no loseConnection yet) in which the hypotheses of `app_bytes_exact_when_drained` hold -/
def exD : World := reach 2 exCfgC exCfgS [.W .c 0 3, .D .s 99, .D .c 99, .D .s 99] 0
example : exD.c.lost = false ∧ pendingOf exD.c = [] ∧ exD.c.e.outB = [] ∧ exD.c.out = [] ∧ exD.c.tDisc = false ∧
    exD.s.e.inB = [] ∧ exD.s.e.plain = [] ∧ exD.s.aborted = false ∧ exD.s.rcvd = [0, 1, 2, 100, 101] := by decide +kernel
example : exW.c.lostN = 1 ∧ exW.s.lostN = 1 ∧ exW.c.tGone = true ∧ exW.s.tGone = true ∧ exW.s.late = false := by
  decide +kernel
example : (reach 2 exCfgC exCfgS [.W .c 0 3] 0).c.lost = false ∧
    pendingOf (reach 2 exCfgC exCfgS [.W .c 0 3] 0).c = [0, 1, 2] := by decide +kernel
example : (reach 2 exCfgC exCfgS exOps 0).s.lostN = 0 ∧ (reach 2 exCfgC exCfgS exOps 0).s.tGone = false := by
  decide +kernel

/-- the final world of the example is quiescent, and a transport was told to close -/
example : Quiescent exW ∧ exW.c.tDisc = true :=
  ⟨⟨fun who => by cases who <;> decide +kernel, fun who => by cases who <;> decide +kernel,
    fun who => by cases who <;> decide +kernel, fun who => by cases who <;> decide +kernel⟩, by decide +kernel⟩
/-- the clean-close point: c called loseConnection, s has read c's close_notify, c has not yet seen the reply -/
def exK : World := reach 2 exCfgC exCfgS [.W .c 0 3, .D .s 99, .D .c 99, .D .s 99, .L .c, .D .s 99] 0
example : exK.c.closed = true ∧ exK.c.lost = false ∧ exK.c.buf = [] ∧ exK.s.e.recvSD = true ∧ exK.s.e.plain = [] ∧
    exK.s.aborted = false ∧ exK.s.rcvd = [0, 1, 2, 100, 101] ∧ exK.c.tGone = false := by decide +kernel

/-- after the clean-close point `exK` the schedule goes on (more writes by both sides, deliveries, drain) -/
example : (reach 2 exCfgC exCfgS ([.W .c 0 3, .D .s 99, .D .c 99, .D .s 99, .L .c, .D .s 99] ++ [.W .c 9 9, .W .s 1 1, .D .c 1]) 12).s.rcvd
    = [0, 1, 2, 100, 101] := by decide +kernel


/-! ## writeSequence (step `S` of the harness)

`TLSMemoryBIOProtocol.writeSequence(iovec)` is `self.write(b"".join(iovec))` and `BufferingTLSTransport.writeSequence(sequence)` is
`self._aggregator.write(b"".join(sequence))` — the same call `write` makes.  A step `["S", side, start, [n1, n2, ...], mode]` of
`harness/corr/C17.py` passes the contiguous chunks `seqChunks start [n1, n2, ...]` of one pattern; the line sent to the model is the
single step `W side (start % 256) (n1 + n2 + ...)`.  The lemmas below justify that translation, so every theorem above (stated for
arbitrary schedules of `W` steps) covers schedules containing writeSequence calls. -/

/-- the chunks of an `S` step: contiguous pieces of one pattern -/
def seqChunks (st : Nat) : List Nat → List Bytes
  | [] => []
  | n :: ns => pat st n :: seqChunks (st + n) ns

theorem pat_append (st n1 n2 : Nat) : pat st n1 ++ pat (st + n1) n2 = pat st (n1 + n2) := by
  simp only [pat, List.range_add, List.map_append, List.map_map]
  congr 1
  apply List.map_congr_left
  intro i _
  simp [Function.comp, Nat.add_assoc]

theorem pat_zero (st : Nat) : pat st 0 = [] := by simp [pat]

/-- joining the chunks of a writeSequence step gives the single pattern the model line writes -/
theorem seqChunks_flatten (st : Nat) (ns : List Nat) : (seqChunks st ns).flatten = pat st ns.sum := by
  induction ns generalizing st with
  | nil => simp [seqChunks, pat_zero]
  | cons n ns ih => simp only [seqChunks, List.flatten_cons, List.sum_cons, ih, pat_append]

/-- `pat` only depends on the start value modulo 256 (the model line carries `start % 256`) -/
theorem pat_mod (st n : Nat) : pat (st % 256) n = pat st n := by
  simp only [pat]
  apply List.map_congr_left
  intro i _
  congr 1
  omega

/-- the application's `transport.writeSequence(chunks)` (= `transport.write` of the joined chunks, with the same ghost bookkeeping)
IS the step `W` of the joined pattern -/
theorem writeSequence_step (w : World) (who : Who) (st : Nat) (ns : List Nat) :
    w.set who ((w.get who).appWrite (seqChunks st ns).flatten) = w.step (.W who (st % 256) ns.sum) := by
  simp only [World.step, seqChunks_flatten, pat_mod]

example : seqChunks 250 [0, 3, 0, 4] = [[], [250, 251, 252], [], [253, 254, 255, 0]] := by decide
example : (seqChunks 250 [0, 3, 0, 4]).flatten = pat 250 7 ∧ pat 250 7 ≠ [] := by decide

end TwistedProps.C17
