import TwistedProps.C17.World
/-!
C17 — the TLS memory-BIO layer delivers application bytes intact and terminates cleanly.

Model: `TwistedModel/Transport/Tls.lean` (TLSMemoryBIOProtocol / BufferingTLSTransport / _AggregateSmallWrites of
`twisted/protocols/tls.py` after the repair of this round, over the FakeEngine that replaces pyOpenSSL, wired through
two `iosim.FakeTransport`s and driven by an arbitrary schedule `ops : List Op` of application writes `W`,
`loseConnection` `L`, network deliveries of arbitrary segments `D`, clock ticks `T`, local close completions `F` and
EOFs `E`, by either side, in any order, before/during/after the handshake).

FULL STATEMENT (property C17):
  for every schedule, each application receives exactly the bytes the peer wrote before its loseConnection, in order,
  followed by exactly one connectionLost; both underlying transports are eventually closed.

What is proved here, for EVERY schedule, every number of handshake flights, every engine record limit ≥ 1, either
protocol class on either side, with or without a write from `handshakeCompleted`:

 * `sender_accounting`      every byte an application wrote before its loseConnection is — in order, none missing, none
                            twice — either already inside the TLS engine, or in `_appSendBuffer`, or in the aggregator
                            (as long as the TLS connection is not lost); in particular what reached the engine is a
                            prefix of what was written (`sent_in_order`).  This is the invariant the unrepaired code
                            violated (write from handshakeCompleted overtaking `_appSendBuffer`).
 * `receiver_accounting`    what an application has received, plus what the engine still holds decrypted, is exactly
                            what the engine decoded (unless the side aborted); always a prefix (`delivered_in_order`).
 * `connectionLost_exactly_once`  connectionLost has been delivered exactly once if the underlying transport is gone,
                            and not at all otherwise.
 * `no_data_after_connectionLost`
 * `app_bytes_intact_partial`  end to end: received(Y) is a prefix of what X wrote before its loseConnection, GIVEN the
                            engine-pair contract `recvPlain(Y) <+: sentPlain(X)` for the final state.

PARTIAL — what is missing from the full statement:
 (1) the engine-pair contract is a hypothesis of `app_bytes_intact_partial`, not proved for the FakeEngine + transports
     (it is a statement about the stand-in engine and the fake network, not about Twisted's code; the tie and the
     oracle exercise it on every run);
 (2) completeness and termination at quiescence ("exactly" rather than "a prefix of"; "both transports eventually
     closed") are liveness properties of the two-sided handshake/shutdown dance; they are checked on the real code by
     the oracle of harness/corr/C17.py on every run (keys `lost-bytes`, `not-closed`, `not-quiescent`), not proved;
 (3) producers are outside the model (oracle only).
-/
namespace TwistedProps.C17
open Twisted.Transport.Tls

/-- the world after an arbitrary schedule and then `n` fair drain rounds (n = 0: no drain) -/
def reach (k : Nat) (cc cs : Cfg) (ops : List Op) (n : Nat) : World := ((World.init k cc cs).run ops).drain n

theorem reach_inv (k : Nat) (cc cs : Cfg) (ops : List Op) (n : Nat) (hc : 0 < cc.recMax) (hs : 0 < cs.recMax) :
    Inv (reach k cc cs ops n) :=
  drain_inv n _ (run_inv ops _ (init_inv k cc cs hc hs))

/-- the bytes of application `who` that are not yet inside its TLS engine -/
def pendingOf (x : Side) : Bytes := x.buf.flatten ++ (if x.closed then [] else x.agg.flatten)

theorem sender_accounting (k : Nat) (cc cs : Cfg) (ops : List Op) (n : Nat) (hc : 0 < cc.recMax) (hs : 0 < cs.recMax)
    (who : Who) :
    let x := (reach k cc cs ops n).get who
    x.lost = false → x.e.sentPlain ++ pendingOf x = x.accepted := by
  intro x hl
  have := ((reach_inv k cc cs ops n hc hs).get who).1.pend.eq hl
  show x.e.sentPlain ++ pendingOf x = x.accepted
  simp only [pendingOf, aggPart, view, List.append_assoc] at this ⊢
  exact this

theorem sent_in_order (k : Nat) (cc cs : Cfg) (ops : List Op) (n : Nat) (hc : 0 < cc.recMax) (hs : 0 < cs.recMax)
    (who : Who) :
    ((reach k cc cs ops n).get who).e.sentPlain <+: ((reach k cc cs ops n).get who).accepted :=
  ((reach_inv k cc cs ops n hc hs).get who).1.pend.pre

theorem receiver_accounting (k : Nat) (cc cs : Cfg) (ops : List Op) (n : Nat) (hc : 0 < cc.recMax) (hs : 0 < cs.recMax)
    (who : Who) :
    let y := (reach k cc cs ops n).get who
    y.aborted = false → y.rcvd ++ y.e.plain = y.e.recvPlain :=
  fun ha => ((reach_inv k cc cs ops n hc hs).get who).1.rest.g2e ha

theorem delivered_in_order (k : Nat) (cc cs : Cfg) (ops : List Op) (n : Nat) (hc : 0 < cc.recMax) (hs : 0 < cs.recMax)
    (who : Who) :
    ((reach k cc cs ops n).get who).rcvd <+: ((reach k cc cs ops n).get who).e.recvPlain :=
  ((reach_inv k cc cs ops n hc hs).get who).1.rest.g2p

theorem connectionLost_exactly_once (k : Nat) (cc cs : Cfg) (ops : List Op) (n : Nat) (hc : 0 < cc.recMax)
    (hs : 0 < cs.recMax) (who : Who) :
    ((reach k cc cs ops n).get who).lostN = (if ((reach k cc cs ops n).get who).tGone then 1 else 0) :=
  ((reach_inv k cc cs ops n hc hs).get who).2

theorem no_data_after_connectionLost (k : Nat) (cc cs : Cfg) (ops : List Op) (n : Nat) (hc : 0 < cc.recMax)
    (hs : 0 < cs.recMax) (who : Who) :
    ((reach k cc cs ops n).get who).late = false :=
  ((reach_inv k cc cs ops n hc hs).get who).1.rest.late

/-- End to end, modulo the engine-pair contract (see the header: PARTIAL). `who` is the receiver. -/
theorem app_bytes_intact_partial (k : Nat) (cc cs : Cfg) (ops : List Op) (n : Nat) (hc : 0 < cc.recMax)
    (hs : 0 < cs.recMax) (who : Who)
    (contract : ((reach k cc cs ops n).get who).e.recvPlain <+: ((reach k cc cs ops n).get who.other).e.sentPlain) :
    ((reach k cc cs ops n).get who).rcvd <+: ((reach k cc cs ops n).get who.other).accepted :=
  ((delivered_in_order k cc cs ops n hc hs who).trans contract).trans (sent_in_order k cc cs ops n hc hs who.other)

/-! ### non-vacuity: a concrete schedule (write during the handshake, write from handshakeCompleted, byte-wise and
bulk deliveries, loseConnection, drain) on which the hypotheses hold and the conclusions are non-trivial -/

def exCfgC : Cfg := { buffering := false, recMax := 2, hook := some (100, 2) }
def exCfgS : Cfg := { buffering := true, recMax := 255, hook := none }
def exOps : List Op := [.W .c 0 3, .D .s 1, .D .s 5, .D .c 9, .W .s 7 2, .T .s, .L .c]
def exW : World := reach 2 exCfgC exCfgS exOps 12

example : exW.s.rcvd = [0, 1, 2, 100, 101] ∧ exW.c.accepted = [0, 1, 2, 100, 101] := by decide +kernel
example : exW.c.rcvd = [7, 8] ∧ exW.s.accepted = [7, 8] := by decide +kernel
example : exW.s.e.recvPlain = exW.c.e.sentPlain ∧ exW.c.e.sentPlain ≠ [] := by decide +kernel
example : exW.c.lostN = 1 ∧ exW.s.lostN = 1 ∧ exW.c.tGone = true ∧ exW.s.tGone = true ∧ exW.s.late = false := by
  decide +kernel
example : (reach 2 exCfgC exCfgS [.W .c 0 3] 0).c.lost = false ∧
    pendingOf (reach 2 exCfgC exCfgS [.W .c 0 3] 0).c = [0, 1, 2] := by decide +kernel
example : (reach 2 exCfgC exCfgS exOps 0).s.lostN = 0 ∧ (reach 2 exCfgC exCfgS exOps 0).s.tGone = false := by
  decide +kernel

end TwistedProps.C17
