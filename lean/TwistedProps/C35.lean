import TwistedProps.C35.Tamper
import TwistedProps.C35.Rekey
/-!
C35 — the SSH transport delivers packets intact and detects tampering.

Statement (given): for any sequence of payloads sent over an SSH transport with any supported
cipher, MAC and compression configuration, and any segmentation of the resulting byte stream
(including identification lines sent before the version line), the peer transport delivers exactly
those payloads in order.  Altering any byte of a packet protected by a MAC causes a disconnect and
the altered payload is never delivered.

Model: `TwistedModel/Ssh/Packet.lean` (`sendPacket`, `getPacket`, `dataReceived` of
`twisted/conch/ssh/transport.py` as repaired by the `fix:` commit).  Cipher, MAC and compression are
parameters; what is trusted about them is the structure `Paired` (sender/receiver pair: decrypt inverts
encrypt on whole blocks and is a stream operation, verify accepts makeMAC, decompress inverts compress)
and, for tampering, `DecInj` (decryption in a given state is injective on whole blocks) and
`Unforgeable` (symbolic: the MAC check on the altered bytes succeeds only for the sender's own packet
and tag).  These are hypotheses — the level is PARTIAL with respect to them.  Helper lemmas:
`TwistedProps/C35/{Defs,Recv,Feed,Send,Ident,Tamper}.lean`.

Key (re-)exchange while payloads are being sent: `TwistedModel/Ssh/Rekey.lean` (`sendPacket`'s queue, `sendKexInit`, `ssh_KEXINIT`'s
state step, `_keySetup`, `_newKeys` on both sides, as repaired by the two `fix:` commits found with it); theorems
`held_back_payloads_keep_their_order`, `new_keys_sends_held_back_in_order`, `rekey_stream_delivered_any_segmentation_partial`
(lemmas: `TwistedProps/C35/Rekey.lean`).

Well-formedness hypotheses, all matching preconditions of the protocol:
  * `bannerOK`/`versionOK`: lines before the version line contain no `\n` and do not start with `SSH-`;
    the version line starts with `SSH-`, its protocol version is supported (`2.0`, `1.99`);
  * identification ≤ 4096 bytes (the transport's own limit);
  * every packet is at most 2^20 + 4 bytes before encryption (`getPacket` refuses longer ones);
  * block size between 5 and 128 (real: 8, 16).
-/
namespace TwistedProps.C35
open Twisted.Py Twisted.Ssh.Packet Twisted.Ssh.Rekey

variable {σe σc σd σz : Type}

/-- what the sender writes is a chain of packets the paired receiver accepts (so the frame-level
    theorems below apply to everything `sendPacket` produces), ending in step with the sender -/
theorem sender_frames_accepted (SA : SendAlg σe σc) (RA : RecvAlg σd σz) (Rc : σe → σd → Prop)
    (Rz : σc → σz → Prop) (hp : Paired SA RA Rc Rz) (ms : List Msg) :
    ∀ (s : Sender σe σc) (st : St σd σz), InStep Rc Rz s st →
      (∀ f ∈ framesOf SA s ms, f.plain.length ≤ 1048580) →
      ∃ e, ChainTo RA st (framesOf SA s ms) e ∧ InStep Rc Rz (sendAll SA s ms).1 e := by
  induction ms with
  | nil => intro s st hin _; exact ⟨st, rfl, hin⟩
  | cons m ms ih =>
    intro s st hin hlim
    obtain ⟨st', ha, hin'⟩ := send_accepts SA RA Rc Rz hp s st hin m (hlim _ (by simp [framesOf]))
    obtain ⟨e, hc, he⟩ := ih _ st' hin' (fun f hf => hlim f (by simp [framesOf, hf]))
    exact ⟨e, ⟨st', ha, hc⟩, he⟩

/-- **Packets, any segmentation** (version line already received): every message sent is dispatched,
    in order, exactly once, and nothing else happens — no disconnect. -/
theorem packets_delivered_in_order_any_segmentation (SA : SendAlg σe σc) (RA : RecvAlg σd σz)
    (Rc : σe → σd → Prop) (Rz : σc → σz → Prop) (hp : Paired SA RA Rc Rz)
    (s : Sender σe σc) (r : Receiver σd σz)
    (hr : r.gotVersion = true ∧ r.buf = [] ∧ r.first = none)
    (hin : InStep Rc Rz s ⟨r.seq, r.ds, r.zs⟩)
    (ms : List Msg) (hlim : ∀ f ∈ framesOf SA s ms, f.plain.length ≤ 1048580)
    (segs : List Bytes) (hsegs : segs.flatten = (sendAll SA s ms).2.flatten) :
    feedAll RA r segs = ms.map msgEv := by
  have hc := framesOf_chain SA RA Rc Rz hp ms s ⟨r.seq, r.ds, r.zs⟩ hin hlim
  rw [← framesOf_evs SA s ms]
  apply feed_honest RA hp.bs_ge segs _ ⟨r.seq, r.ds, r.zs⟩ r hc hr.1 rfl rfl
  · rw [hr.2.1, List.nil_append, hsegs, sendAll_wires]
  · intro f rest h
    refine ⟨Or.inl ⟨hr.2.2, rfl⟩, ?_⟩
    rw [hr.2.1]
    rw [h] at hc
    obtain ⟨st', ha, _⟩ := hc
    exact wire_pos RA _ st' f ha

/-- **C35, delivery** — identification lines, version line, packets, *any* segmentation of the whole
    stream: the receiver records the version line and then dispatches exactly the sent payloads in
    order; it never disconnects. -/
theorem payloads_delivered_in_order_any_segmentation (SA : SendAlg σe σc) (RA : RecvAlg σd σz)
    (Rc : σe → σd → Prop) (Rz : σc → σz → Prop) (hp : Paired SA RA Rc Rz)
    (s : Sender σe σc) (r : Receiver σd σz)
    (hr : r.gotVersion = false ∧ r.buf = [] ∧ r.first = none)
    (hin : InStep Rc Rz s ⟨r.seq, r.ds, r.zs⟩)
    (banner : List Bytes) (v : Bytes) (hb : bannerOK banner) (hv : versionOK v)
    (hlen : (identOf banner v).length ≤ 4096)
    (ms : List Msg) (hlim : ∀ f ∈ framesOf SA s ms, f.plain.length ≤ 1048580)
    (segs : List Bytes) (hsegs : segs.flatten = identOf banner v ++ (sendAll SA s ms).2.flatten) :
    feedAll RA r segs = Ev.version (rstripCR v) :: ms.map msgEv := by
  have hc := framesOf_chain SA RA Rc Rz hp ms s ⟨r.seq, r.ds, r.zs⟩ hin hlim
  rw [← framesOf_evs SA s ms]
  apply feed_ident RA hp.bs_ge banner v hb hv hlen segs _ ⟨r.seq, r.ds, r.zs⟩ r hc hr.1 hr.2.2 rfl rfl rfl
  · rw [hr.2.1]; simp [identOf]; omega
  · rw [hr.2.1, List.nil_append, hsegs, sendAll_wires]

/-- **Banner lines are skipped whatever the split**: with nothing but the identification on the wire the
    only thing that happens is that the version line (without `\r`) is recorded. -/
theorem banner_lines_skipped_any_split (RA : RecvAlg σd σz) (hbs : 5 ≤ RA.bs) (r : Receiver σd σz)
    (hr : r.gotVersion = false ∧ r.buf = [] ∧ r.first = none)
    (banner : List Bytes) (v : Bytes) (hb : bannerOK banner) (hv : versionOK v)
    (hlen : (identOf banner v).length ≤ 4096)
    (segs : List Bytes) (hsegs : segs.flatten = identOf banner v) :
    feedAll RA r segs = [Ev.version (rstripCR v)] := by
  have := feed_ident RA hbs banner v hb hv hlen segs [] ⟨r.seq, r.ds, r.zs⟩ r trivial hr.1 hr.2.2 rfl rfl rfl
    (by rw [hr.2.1]; simp [identOf]; omega) (by rw [hr.2.1, List.nil_append, hsegs]; simp [wires])
  simpa [evs] using this

/-- **C35, tampering** — after any honest packets `fs`, let `w'` be *any* bytes other than the next
    packet's own bytes in its place (same length: some byte altered), followed by anything (`post`).
    For every segmentation: the honest payloads are dispatched, the altered one never is, nor anything
    after it; the only other thing that can happen is a disconnect, and if there is none the receiver
    is still waiting for the bytes that the (possibly altered) length field announces. -/
theorem tamper_never_delivered (A : RecvAlg σd σz) (hbs : 5 ≤ A.bs) (hA : DecInj A) (hms : A.ms ≠ 0)
    (st e e' : St σd σz) (fs : List Frame) (fa : Frame) (hc : ChainTo A st fs e) (hacc : Accepts A e fa e')
    (w' post : Bytes) (hunf : Unforgeable A e fa (w' ++ post))
    (hwl : w'.length = fa.wire.length) (hw : w' ≠ fa.wire)
    (r : Receiver σd σz) (hr : r.gotVersion = true ∧ r.buf = [] ∧ r.first = none)
    (hst : r.seq = st.seq ∧ r.ds = st.ds ∧ r.zs = st.zs)
    (segs : List Bytes) (hsegs : segs.flatten = wires fs ++ (w' ++ post)) :
    ∃ tl, feedAll A r segs = evs fs ++ tl ∧
      ((tl = [] ∧ ((w' ++ post).length < A.bs ∨
          (w' ++ post).length < beToNat ((A.dec e.ds ((w' ++ post).take A.bs)).2.take 4) + 4 + A.ms)) ∨
       (∃ reason desc, tl = [Ev.disc reason desc])) := by
  apply feed_tamper A hbs hA hms e e' fa hacc w' post (w' ++ post) hunf rfl hwl hw segs fs st r hc hr.1 hst.1
  · rw [hr.2.1, List.nil_append, hsegs]
  · cases fs with
    | nil => exact ⟨Or.inl ⟨hr.2.2, hst.2.1⟩, Or.inl (by rw [hr.2.1]; simp; omega)⟩
    | cons f rest =>
      obtain ⟨st', ha, _⟩ := hc
      exact ⟨⟨Or.inl ⟨hr.2.2, hst.2.1⟩, hst.2.2⟩, by rw [hr.2.1]; exact wire_pos A _ st' f ha⟩

/-- **… and causes a disconnect**: when the alteration leaves the first cipher block (the one holding the
    length field) as it was — any byte of the rest of the packet or of its MAC — the disconnect is
    certain as soon as the packet's bytes have been delivered. -/
theorem tamper_causes_disconnect (A : RecvAlg σd σz) (hbs : 5 ≤ A.bs) (hA : DecInj A) (hms : A.ms ≠ 0)
    (st e e' : St σd σz) (fs : List Frame) (fa : Frame) (hc : ChainTo A st fs e) (hacc : Accepts A e fa e')
    (w' post : Bytes) (hunf : Unforgeable A e fa (w' ++ post))
    (hwl : w'.length = fa.wire.length) (hw : w' ≠ fa.wire) (hblk : w'.take A.bs = fa.wire.take A.bs)
    (r : Receiver σd σz) (hr : r.gotVersion = true ∧ r.buf = [] ∧ r.first = none)
    (hst : r.seq = st.seq ∧ r.ds = st.ds ∧ r.zs = st.zs)
    (segs : List Bytes) (hsegs : segs.flatten = wires fs ++ (w' ++ post)) :
    ∃ reason desc, feedAll A r segs = evs fs ++ [Ev.disc reason desc] := by
  obtain ⟨tl, hfeed, hcase⟩ :=
    tamper_never_delivered A hbs hA hms st e e' fs fa hc hacc w' post hunf hwl hw r hr hst segs hsegs
  rcases hcase with ⟨_, hshort⟩ | ⟨reason, desc, htl⟩
  · exfalso
    have hw1 := wire_length A e e' fa hacc
    obtain ⟨hL, hmod, hbody, hplain, htag, hd1, _⟩ := hacc
    have hX : (w' ++ post).take A.bs = fa.body.take A.bs := by
      rw [List.take_append_of_le_length (by omega), hblk, Frame.wire, List.take_append_of_le_length (by omega)]
    rw [hX, hd1, List.take_take, Nat.min_eq_left (by omega)] at hshort
    simp only [List.length_append] at hshort
    omega
  · exact ⟨reason, desc, by rw [hfeed, htl]⟩

/-! ### Key (re-)exchange while payloads are being sent (`TwistedModel/Ssh/Rekey.lean`)

Histories of the sending transport: `sendPacket` calls interleaved with key exchanges started by either side
(`sendKexInit` / the peer's KEXINIT), `_keySetup` (our NEWKEYS) and `_newKeys` (the peer's NEWKEYS) in any number of
rounds.  While a key exchange is in progress `sendPacket` holds back what RFC 4253 7.1 forbids to send, and everything once our
own NEWKEYS is out; `_newKeys` takes the next algorithms into use and sends what was held back. -/

/-- **C35, order across key exchanges (sender)** — for EVERY history (no hypothesis on its shape; it may end anywhere, also by
    an exception): the chunks handed to `transport.write` are, one for one, the packets of the messages `ws.map Wr.m`, each
    built with the algorithms in use when it is written; and among them the payloads that may not be sent during key exchange
    — followed by those still held back at the end — are exactly the ones handed to `sendPacket`, in the order of the calls:
    none lost, none duplicated, none overtaken by another one (seeded change C35-2 reversed them). -/
theorem held_back_payloads_keep_their_order (K : KSender σe σc) (hwf : K.kex = Kex.none → K.blocked = [])
    (ops : List Op) :
    ∃ ws : List (Wr σe σc), (kRun K ops).2.1 = ws.map Wr.bytes ∧
      (ws.map Wr.m).filter deferrable ++ (kRun K ops).1.blocked.filter deferrable =
        K.blocked.filter deferrable ++ (kRunM K ops).2.filter deferrable := by
  obtain ⟨h1, h2⟩ := kRun_writes ops K
  exact ⟨kRunW K ops, h1, by rw [← h2]; exact kRun_deferrable_in_order ops K hwf⟩

/-- **`_newKeys` sends what was held back front to back** — every held-back message (whatever its type), in the order it
    was queued, with the new algorithms, and the queue is empty afterwards. -/
theorem new_keys_sends_held_back_in_order (K : KSender σe σc) (e : SEpoch σe σc) (fut : List (SEpoch σe σc))
    (hf : K.future = e :: fut) (hk : K.kex ≠ Kex.none) :
    ∃ (r : KSender σe σc × List Bytes) (ws : List (Wr σe σc)), kNewKeys K = .ok r ∧ r.2 = ws.map Wr.bytes ∧
      ws.map Wr.m = K.blocked ∧ (∀ w ∈ ws, w.alg.bs = e.bs) ∧ r.1.blocked = [] ∧ r.1.kex = Kex.none := by
  obtain ⟨i1, i2, i3⟩ := kFlush_in_order (K.adopt e fut) rfl K.blocked
  obtain ⟨j1, j2⟩ := kFlush_writes K.blocked (K.adopt e fut)
  refine ⟨kFlush (K.adopt e fut) K.blocked, kFlushW (K.adopt e fut) K.blocked, by simp [kNewKeys, hf, hk], j1,
    by rw [← j2, i1], ?_, by rw [i3]; rfl, i2⟩
  have : ∀ (ms : List Msg) (K' : KSender σe σc), K'.kex = Kex.none → ∀ w ∈ kFlushW K' ms, w.alg = K'.alg := by
    intro ms
    induction ms with
    | nil => intro K' _ w hw; simp [kFlushW] at hw
    | cons m ms ih =>
      intro K' hk' w hw
      have hh : K'.holds m.mt = false := by simp [KSender.holds, hk']
      simp only [kFlushW, kSendW, hh, Bool.false_eq_true, if_false, List.cons_append, List.nil_append,
        List.mem_cons] at hw
      rcases hw with rfl | hw
      · rfl
      · have := ih (kSendPacket K' m).1 (by simp [kSendPacket, hh, hk']) w hw
        rw [this]; simp [kSendPacket, hh]
  intro w hw
  rw [this K.blocked (K.adopt e fut) rfl w hw]; rfl

/-- **C35, delivery across key exchanges (receiver), any segmentation** — a stream of honest packets in which every NEWKEYS
    packet is followed by packets for the next algorithms (`KChainTo`): whatever the segmentation, the receiver — which takes
    the next decryptor / MAC / decompressor into use at the moment it dispatches NEWKEYS, also in the middle of a delivery —
    dispatches exactly the payloads, in order, and never disconnects.

    PARTIAL with respect to the full statement `kFeedAll R segs = (kRunM K ops).1.map msgEv` for
    `segs.flatten = (kRun K ops).2.1.flatten`: what is missing is the lemma that the packets a protocol-conforming history
    writes (`kRunW K ops`, with `Paired` contracts for every pair of sender/receiver algorithms that come into use) form such
    a chain — the invariant "nothing is written between our NEWKEYS and `_newKeys`" (that is what `_newKeysSent` is for) —
    and the identification phase in front (`kDataReceived` repeats `dataReceived`'s, proved for one set of algorithms in
    `payloads_delivered_in_order_any_segmentation`).  Both are exercised by the differential tie on every history. -/
theorem rekey_stream_delivered_any_segmentation_partial (R : KReceiver σd σz) (E : RPos σd σz) (hE : 5 ≤ E.A.bs)
    (hr : R.r.gotVersion = true ∧ R.r.buf = [] ∧ R.r.first = none) (fs : List Frame)
    (hc : KChainTo ⟨R.alg, ⟨R.r.seq, R.r.ds, R.r.zs⟩, R.future⟩ fs E)
    (segs : List Bytes) (hsegs : segs.flatten = wires fs) :
    kFeedAll R segs = evs fs := by
  apply kfeed_honest segs fs E hE ⟨R.r.seq, R.r.ds, R.r.zs⟩ R hc hr.1 rfl rfl
  · rw [hr.2.1, List.nil_append, hsegs]
  · intro f rest h
    refine ⟨Or.inl ⟨hr.2.2, rfl⟩, ?_⟩
    rw [hr.2.1]
    rw [h] at hc
    obtain ⟨_, st', ha, _⟩ := hc
    exact wire_pos R.alg _ st' f ha

/-! ### Non-vacuity -/

def toyMac (q : Nat) (p : Bytes) : Bytes := [UInt8.ofNat ((q + p.foldl (fun a b => a + b.toNat) 0) % 251)]

/-- the `none` cipher (identity, block size 8) with a one-byte checksum MAC, no compression -/
def toySend : SendAlg Unit Unit :=
  { bs := 8, enc := fun s x => (s, x), mac := toyMac, comp := fun s x => (s, x) }
def toyRecv : RecvAlg Unit Unit :=
  { bs := 8, ms := 1, dec := fun s x => (s, x), verify := fun q p m => m == toyMac q p,
    decomp := fun s x => (s, some x) }

example : Paired toySend toyRecv (fun _ _ => True) (fun _ _ => True) where
  bs_eq := rfl
  bs_ge := by decide
  bs_le := by decide
  enc_dec := by intro _ _ x _ _; exact ⟨rfl, rfl, trivial⟩
  dec_split := by intro _ a b _; rfl
  dec_len := by intro _ x _; rfl
  mac_len := by intro q p; rfl
  mac_ok := by intro _ q p; simp [toyRecv, toySend]
  comp_decomp := by intro _ _ x _; exact ⟨rfl, trivial⟩

def exBanner : List Bytes := [ascii "hello SSH-", ascii ""]
def exVersion : Bytes := ascii "SSH-2.0-x\r"
def exMsgs : List Msg := [⟨94, [1, 2, 3], [9, 9, 9, 9, 9, 9, 9, 9, 9, 9, 9, 9]⟩, ⟨5, [], []⟩]
def exS : Sender Unit Unit := ⟨4294967295, (), ()⟩
def exR : Receiver Unit Unit := ⟨false, [], none, 4294967295, (), ()⟩

example : bannerOK exBanner ∧ versionOK exVersion ∧ (identOf exBanner exVersion).length ≤ 4096 := by
  unfold bannerOK versionOK; decide
example : ∀ f ∈ framesOf toySend exS exMsgs, f.plain.length ≤ 1048580 := by decide
/-- the stream cut into 5-byte pieces: version recorded, both payloads dispatched, sequence number wrapped -/
example : feedAll toyRecv exR
    (cut (identOf exBanner exVersion ++ (sendAll toySend exS exMsgs).2.flatten) (List.replicate 12 5)) =
    [Ev.version (ascii "SSH-2.0-x"), Ev.msg 94 [1, 2, 3], Ev.msg 5 []] := by decide


/-! a re-key in the middle of traffic: second set of algorithms with another MAC -/
def toyMac2 (q : Nat) (p : Bytes) : Bytes := [UInt8.ofNat ((q + 7 + p.foldl (fun a b => a + 3 * b.toNat) 0) % 251)]
def exSE : SEpoch Unit Unit := { bs := 8, enc := fun s x => (s, x), mac := toyMac2, es := (), z := none }
def exRE : REpoch Unit Unit :=
  { bs := 8, ms := 1, dec := fun s x => (s, x), verify := fun q p m => m == toyMac2 q p, ds := (), z := none }
def exK : KSender Unit Unit :=
  { s := ⟨3, (), ()⟩, alg := toySend, kex := Kex.none, blocked := [], newKeysSent := false, future := [exSE] }
def exKR : KReceiver Unit Unit :=
  { r := ⟨true, [], none, 3, (), ()⟩, alg := toyRecv, future := [exRE] }
/-- payloads 2 and 3 are sent while the key exchange is in flight, IGNORE (type 2) is allowed then — except after our NEWKEYS -/
def exOps : List Op :=
  [.send ⟨94, [1], []⟩, .kexInit ⟨20, [7], []⟩, .send ⟨94, [2], []⟩, .send ⟨2, [9], []⟩, .send ⟨94, [3], []⟩,
   .peerKexInit ⟨20, [], []⟩, .keySetup [], .send ⟨2, [8], []⟩, .newKeys, .send ⟨94, [4], []⟩]

example : (kRunM exK exOps).1.map (fun m => (m.mt, m.data)) =
    [(94, [1]), (20, [7]), (2, [9]), (21, []), (94, [2]), (94, [3]), (2, [8]), (94, [4])] := by decide
/-- the bytes of that history cut into 7-byte pieces: everything is dispatched, the held-back payloads after NEWKEYS in the
    order they were sent, checked with the second MAC -/
example : kFeedAll exKR (cut ((kRun exK exOps).2.1.flatten) (List.replicate 20 7)) =
    [Ev.msg 94 [1], Ev.msg 20 [7], Ev.msg 2 [9], Ev.msg 21 [], Ev.msg 94 [2], Ev.msg 94 [3], Ev.msg 2 [8],
     Ev.msg 94 [4]] := by decide +kernel
/-- … and the same bytes read by a receiver that keeps the first MAC are refused right after NEWKEYS -/
example : (kFeedAll { exKR with future := [{ exRE with verify := fun q p m => m == toyMac q p }] }
    (cut ((kRun exK exOps).2.1.flatten) (List.replicate 20 7))).drop 4 = [Ev.disc 5 (ascii "bad MAC")] := by decide +kernel

/-! tampering: a receiver whose MAC check accepts exactly the sender's packet and tag -/
def plain0 : Bytes := mkPacket 8 [94, 1, 2, 3] [7, 7, 7, 7, 7, 7, 7]
def frame0 : Frame := { plain := plain0, body := plain0, tag := [77], out := [94, 1, 2, 3] }
def hardRecv : RecvAlg Unit Unit :=
  { bs := 8, ms := 1, dec := fun s x => (s, x), verify := fun _ p m => p == plain0 && m == [77],
    decomp := fun s x => (s, some x) }

example : Accepts hardRecv ⟨0, (), ()⟩ frame0 ⟨1, (), ()⟩ := by unfold Accepts; decide
example : DecInj hardRecv := ⟨fun _ _ _ => rfl, fun _ _ _ _ _ h => h⟩
example (X : Bytes) : Unforgeable hardRecv ⟨0, (), ()⟩ frame0 X := by
  intro n h
  simp only [hardRecv, Bool.and_eq_true, beq_iff_eq] at h
  exact h
/-- byte 9 of the packet altered, delivered 3 bytes at a time: nothing dispatched, disconnect "bad MAC" -/
example : (feedAll hardRecv ⟨true, [], none, 0, (), ()⟩
    (cut (tamper frame0.wire 9 1 ++ [0, 0, 0, 12]) (List.replicate 7 3))).map Ev.isDisc = [true] ∧
    tamper frame0.wire 9 1 ≠ frame0.wire ∧ (tamper frame0.wire 9 1).take 8 = frame0.wire.take 8 := by decide

end TwistedProps.C35
