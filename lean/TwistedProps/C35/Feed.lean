import TwistedProps.C35.Recv
/-! C35 — packet phase: any segmentation of an honest stream dispatches exactly its payloads. -/
namespace TwistedProps.C35
open Twisted.Py Twisted.Ssh.Packet

variable {σd σz : Type}

theorem evs_no_disc (fs : List Frame) : (evs fs).any Ev.isDisc = false := by
  induction fs with
  | nil => simp [evs]
  | cons f fs ih =>
    rw [evs_cons, List.any_append, ih]
    cases h : f.out <;> simp [Frame.ev, h, Ev.isDisc]

theorem evs_append (a b : List Frame) : evs (a ++ b) = evs a ++ evs b := by
  simp [evs]

theorem wire_pos (A : RecvAlg σd σz) (st st' : St σd σz) (f : Frame) (h : Accepts A st f st') :
    0 < f.wire.length := by
  have := wire_length A st st' f h; omega

/-- packet phase: whatever the segmentation of an honest stream, exactly its payloads are dispatched -/
theorem feed_honest (A : RecvAlg σd σz) (hbs : 5 ≤ A.bs) :
    ∀ (segs : List Bytes) (fs : List Frame) (st : St σd σz) (r : Receiver σd σz),
      Chain A st fs → r.gotVersion = true → r.seq = st.seq → r.zs = st.zs →
      r.buf ++ segs.flatten = wires fs →
      (∀ f rest, fs = f :: rest → Pre A st (f.body.take A.bs) r ∧ r.buf.length < f.wire.length) →
      feedAll A r segs = evs fs := by
  intro segs
  induction segs with
  | nil =>
    intro fs st r hc hgv hseq hzs hbuf hpre
    cases fs with
    | nil => simp [feedAll, evs]
    | cons f rest =>
      exfalso
      have := (hpre f rest rfl).2
      have h2 := congrArg List.length hbuf
      simp [wires_cons] at h2
      omega
  | cons d ds ih =>
    intro fs st r hc hgv hseq hzs hbuf hpre
    have hbuf' : ({ r with buf := r.buf ++ d } : Receiver σd σz).buf ++ ds.flatten = wires fs := by
      simpa [List.append_assoc] using hbuf
    obtain ⟨done, rest, st', r', hfs, hdr, hc', hs', hz', hgv', hb', hp'⟩ :=
      drain_honest A hbs fs st { r with buf := r.buf ++ d } ds.flatten ((r.buf ++ d).length + 1) hc hseq hzs hbuf'
        (fun f rest h => by
          have := (hpre f rest h).1
          rcases this with ⟨h1, h2⟩ | ⟨h1, h2⟩
          · exact Or.inl ⟨h1, h2⟩
          · exact Or.inr ⟨h1, h2⟩) (by simp only []; omega)
    have hdr' : dataReceived A r d = (r', evs done) := by
      unfold dataReceived
      simp only [hgv, if_true]
      rw [← hgv]
      exact hdr
    have hrest := ih rest st' r' hc' (by rw [hgv']; exact hgv) hs' hz' hb' hp'
    simp only [feedAll, hdr', evs_no_disc, Bool.false_eq_true, if_false, hrest, hfs, evs_append]

end TwistedProps.C35
