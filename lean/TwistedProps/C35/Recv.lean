import TwistedProps.C35.Defs
/-! C35 — receiver lemmas: `getPacket` on complete / partial honest packets, the `while packet:` loop. -/
namespace TwistedProps.C35
open Twisted.Py Twisted.Ssh.Packet

variable {σd σz : Type}

theorem bs_le_of_mod {bs n : Nat} (hn : 0 < n) (h : n % bs = 0) : bs ≤ n :=
  Nat.le_of_dvd hn (Nat.dvd_of_mod_eq_zero h)

theorem firstBlock_pre (A : RecvAlg σd σz) (st : St σd σz) (blk : Bytes) (r : Receiver σd σz)
    (hpre : Pre A st blk r) (htake : r.buf.take A.bs = blk) :
    firstBlock A r = A.dec st.ds blk := by
  unfold firstBlock
  rcases hpre with ⟨h1, h2⟩ | ⟨h1, h2⟩
  · rw [h1, h2, htake]
  · rw [h1, h2]

/-- `getPacket` on a buffer that starts with a whole honest packet -/
theorem getPacket_complete (A : RecvAlg σd σz) (hbs : 5 ≤ A.bs) (st st' : St σd σz) (f : Frame)
    (h : Accepts A st f st') (r : Receiver σd σz) (tail : Bytes)
    (hbuf : r.buf = f.body ++ (f.tag ++ tail)) (hseq : r.seq = st.seq) (hzs : r.zs = st.zs)
    (hpre : Pre A st (f.body.take A.bs) r) :
    getPacket A r =
      ({ r with buf := tail, first := none, seq := st'.seq, ds := st'.ds, zs := st'.zs }, Got.pkt f.out) := by
  obtain ⟨hL, hmod, hbody, hplain, htag, hd1, hd2, hver, hz, hout, hseq'⟩ := h
  generalize hLdef : beToNat (f.plain.take 4) = L at *
  have hbsL : A.bs ≤ L + 4 := bs_le_of_mod (by omega) hmod
  have hlen : r.buf.length = L + 4 + A.ms + tail.length := by
    rw [hbuf]; simp [hbody, htag]; omega
  have htake : r.buf.take A.bs = f.body.take A.bs := by
    rw [hbuf, List.take_append_of_le_length (by omega)]
  have hfd := firstBlock_pre A st _ r hpre htake
  have h4 : (f.plain.take A.bs).take 4 = f.plain.take 4 := by
    rw [List.take_take]; congr 1; omega
  have hE : (r.buf.take (4 + L)) = f.body := by
    rw [hbuf, List.take_append_of_le_length (by omega), List.take_of_length_le (by omega)]
  have hD : r.buf.drop (4 + L) = f.tag ++ tail := by
    rw [hbuf, List.drop_append_of_le_length (by omega), List.drop_of_length_le (by omega)]; simp
  have hpk : f.plain.take A.bs ++ f.plain.drop A.bs = f.plain := List.take_append_drop _ _
  have hg4 : (f.plain.take A.bs).getD 4 0 = f.plain.getD 4 0 := by
    simp only [List.getD_eq_getElem?_getD, List.getElem?_take]
    rw [if_pos (by omega)]
  unfold getPacket
  rw [if_neg (by omega), hfd, hd1]
  unfold getRest
  simp only [h4, hLdef, hE, hD, hd2, hpk, hg4]
  rw [if_neg (by omega), if_neg (by omega), if_neg (by omega), if_neg (by omega)]
  have hT : (f.tag ++ tail).take A.ms = f.tag := by
    rw [List.take_append_of_le_length (by omega), List.take_of_length_le (by omega)]
  have hT2 : (f.tag ++ tail).drop A.ms = tail := by
    rw [List.drop_append_of_le_length (by omega), List.drop_of_length_le (by omega)]; simp
  simp only [hT, hT2, hseq, hzs, hz]
  by_cases hms : A.ms = 0
  · simp [hms, hseq']
  · simp [hms, hver hms, hseq']


theorem wire_length (A : RecvAlg σd σz) (st st' : St σd σz) (f : Frame) (h : Accepts A st f st') :
    f.wire.length = beToNat (f.plain.take 4) + 4 + A.ms ∧ A.bs ≤ beToNat (f.plain.take 4) + 4 := by
  obtain ⟨hL, hmod, hbody, hplain, htag, _⟩ := h
  refine ⟨by simp [Frame.wire, hbody, htag], bs_le_of_mod (by omega) hmod⟩

/-- `getPacket` on a buffer holding only part of the next honest packet: it waits, remembering the
    first block if it could decrypt it -/
theorem getPacket_partial (A : RecvAlg σd σz) (hbs : 5 ≤ A.bs) (st st' : St σd σz) (f : Frame)
    (h : Accepts A st f st') (r : Receiver σd σz) (n : Nat) (hn : n < f.wire.length)
    (hbuf : r.buf = f.wire.take n) (hpre : Pre A st (f.body.take A.bs) r) :
    ∃ r', getPacket A r = (r', Got.wait) ∧ r'.buf = r.buf ∧ r'.seq = r.seq ∧ r'.zs = r.zs ∧
      r'.gotVersion = r.gotVersion ∧ Pre A st (f.body.take A.bs) r' := by
  have hw := wire_length A st st' f h
  obtain ⟨hL, hmod, hbody, hplain, htag, hd1, hd2, hver, hz, hout, hseq'⟩ := h
  generalize hLdef : beToNat (f.plain.take 4) = L at *
  have hlen : r.buf.length = n := by rw [hbuf, List.length_take]; omega
  unfold getPacket
  by_cases hlt : r.buf.length < A.bs
  · exact ⟨r, by rw [if_pos hlt], rfl, rfl, rfl, rfl, hpre⟩
  · have htake : r.buf.take A.bs = f.body.take A.bs := by
      rw [hbuf, List.take_take, Nat.min_eq_left (by omega), Frame.wire,
        List.take_append_of_le_length (by omega)]
    have hfd := firstBlock_pre A st _ r hpre htake
    have h4 : (f.plain.take A.bs).take 4 = f.plain.take 4 := by
      rw [List.take_take]; congr 1; omega
    rw [if_neg hlt, hfd]
    unfold getRest
    simp only [hd1, h4, hLdef]
    rw [if_neg (by omega), if_pos (by omega)]
    refine ⟨_, rfl, rfl, rfl, rfl, rfl, Or.inr ⟨?_, rfl⟩⟩
    simp only [hd1]


theorem wires_cons (f : Frame) (fs : List Frame) : wires (f :: fs) = f.wire ++ wires fs := by
  simp [wires]
theorem evs_cons (f : Frame) (fs : List Frame) : evs (f :: fs) = f.ev ++ evs fs := by
  simp [evs]

theorem prefix_split {a fut w rest : Bytes} (h : a ++ fut = w ++ rest) (hl : w.length ≤ a.length) :
    ∃ tail, a = w ++ tail ∧ tail ++ fut = rest := by
  rcases List.append_eq_append_iff.mp h with ⟨a', h1, h2⟩ | ⟨c', h1, h2⟩
  · -- w = a ++ a'
    have : a' = [] := by
      have := congrArg List.length h1; simp at this
      exact List.eq_nil_of_length_eq_zero (by omega)
    subst this
    exact ⟨[], by simpa using h1.symm, by simpa using h2⟩
  · exact ⟨c', h1, h2.symm⟩

theorem prefix_take {a fut w rest : Bytes} (h : a ++ fut = w ++ rest) (hl : a.length < w.length) :
    a = w.take a.length := by
  have := congrArg (List.take a.length) h
  rw [List.take_append_of_le_length (Nat.le_refl _), List.take_of_length_le (Nat.le_refl _),
    List.take_append_of_le_length (by omega)] at this
  exact this

/-- the `while packet:` loop on a buffer that is a prefix of an honest stream: it dispatches the
    payloads of exactly the packets that are complete, and stops inside the next one -/
theorem drain_honest (A : RecvAlg σd σz) (hbs : 5 ≤ A.bs) :
    ∀ (fs : List Frame) (st : St σd σz) (r : Receiver σd σz) (fut : Bytes) (fuel : Nat),
      Chain A st fs → r.seq = st.seq → r.zs = st.zs → r.buf ++ fut = wires fs →
      (∀ f rest, fs = f :: rest → Pre A st (f.body.take A.bs) r) → r.buf.length < fuel →
      ∃ (done rest : List Frame) (st' : St σd σz) (r' : Receiver σd σz),
        fs = done ++ rest ∧ drain A fuel r = (r', evs done) ∧ Chain A st' rest ∧
        r'.seq = st'.seq ∧ r'.zs = st'.zs ∧ r'.gotVersion = r.gotVersion ∧ r'.buf ++ fut = wires rest ∧
        (∀ f rest', rest = f :: rest' → Pre A st' (f.body.take A.bs) r' ∧ r'.buf.length < f.wire.length) := by
  intro fs
  induction fs with
  | nil =>
    intro st r fut fuel hc hseq hzs hbuf _ hfuel
    have hb : r.buf = [] := by
      have h0 := hbuf
      simp [wires] at h0
      exact h0.1
    cases fuel with
    | zero => omega
    | succ k =>
      refine ⟨[], [], st, r, rfl, ?_, hc, hseq, hzs, rfl, hbuf, by intro f rest' h; cases h⟩
      have : getPacket A r = (r, Got.wait) := by
        unfold getPacket; rw [if_pos (by rw [hb]; simp; omega)]
      simp [drain, this, evs]
  | cons f fs ih =>
    intro st r fut fuel hc hseq hzs hbuf hpre hfuel
    obtain ⟨st1, hacc, hc1⟩ := hc
    have hw := wire_length A st st1 f hacc
    have hpre0 := hpre f fs rfl
    rw [wires_cons] at hbuf
    cases fuel with
    | zero => omega
    | succ k =>
    by_cases hlt : r.buf.length < f.wire.length
    · obtain ⟨r', hg, hb', hs', hz', hgv', hp'⟩ :=
        getPacket_partial A hbs st st1 f hacc r r.buf.length hlt (prefix_take hbuf hlt) hpre0
      refine ⟨[], f :: fs, st, r', rfl, ?_, ⟨st1, hacc, hc1⟩, by rw [hs', hseq], by rw [hz', hzs], hgv',
        by rw [hb', wires_cons]; exact hbuf, ?_⟩
      · simp [drain, hg, evs]
      · intro f' rest' h; cases h; exact ⟨hp', by rw [hb']; exact hlt⟩
    · obtain ⟨tail, hb, ht⟩ := prefix_split hbuf (by omega)
      have hb2 : r.buf = f.body ++ (f.tag ++ tail) := by rw [hb, Frame.wire, List.append_assoc]
      have hg := getPacket_complete A hbs st st1 f hacc r tail hb2 hseq hzs hpre0
      have hlen : r.buf.length = f.wire.length + tail.length := by rw [hb]; simp
      obtain ⟨hL, hmod, hbody, hplain, htag, hd1, hd2, hver, hz, hout, hseq'⟩ := hacc
      obtain ⟨done, rest, st', r', hfs, hdr, hc', hs', hz', hgv', hb', hp'⟩ :=
        ih st1 { r with buf := tail, first := none, seq := st1.seq, ds := st1.ds, zs := st1.zs } fut k hc1 rfl rfl ht
          (fun f' rest' _ => Or.inl ⟨rfl, rfl⟩) (by simp only []; omega)
      refine ⟨f :: done, rest, st', r', by rw [hfs]; rfl, ?_, hc', hs', hz', hgv', hb', hp'⟩
      cases hfo : f.out with
      | nil => exact absurd hfo hout
      | cons t p =>
        rw [hfo] at hg
        simp [drain, hg, hdr, evs_cons, Frame.ev, hfo]

end TwistedProps.C35
