import TwistedProps.C35.Feed
/-! C35 — sender side: what `sendPacket` writes is a frame the paired receiver accepts. -/
namespace TwistedProps.C35
open Twisted.Py Twisted.Ssh.Packet

variable {σe σc σd σz : Type}

theorem beToNat_u32be (n : Nat) (h : n < 4294967296) : beToNat (u32be n) = n := by
  simp only [u32be, beToNat, List.foldl, UInt8.toNat_ofNat']
  omega

theorem padLen_spec (bs total : Nat) (h5 : 5 ≤ bs) (h128 : bs ≤ 128) :
    4 ≤ padLen bs total ∧ padLen bs total < 256 ∧ (total + padLen bs total) % bs = 0 := by
  unfold padLen
  have hm : total % bs < bs := Nat.mod_lt _ (by omega)
  have key : (total + (bs - total % bs)) % bs = 0 := by
    have h1 : total = bs * (total / bs) + total % bs := (Nat.div_add_mod total bs).symm
    have : total + (bs - total % bs) = bs * (total / bs + 1) := by
      rw [Nat.mul_add, Nat.mul_one]; omega
    rw [this]; exact Nat.mul_mod_right _ _
  simp only []
  split
  · refine ⟨by omega, by omega, ?_⟩
    rw [← Nat.add_assoc, Nat.add_mod_right]; exact key
  · exact ⟨by omega, by omega, key⟩

theorem fitPad_length (n : Nat) (pad : Bytes) : (fitPad n pad).length = n := by
  simp [fitPad]

theorem mkPacket_facts (bs : Nat) (P pad : Bytes) (h5 : 5 ≤ bs) (h128 : bs ≤ 128)
    (hlim : (mkPacket bs P pad).length ≤ 1048580) :
    (mkPacket bs P pad).length = beToNat ((mkPacket bs P pad).take 4) + 4 ∧
    (beToNat ((mkPacket bs P pad).take 4) + 4) % bs = 0 ∧
    beToNat ((mkPacket bs P pad).take 4) ≤ 1048576 ∧
    slicePayload (mkPacket bs P pad) ((mkPacket bs P pad).getD 4 0).toNat = P := by
  obtain ⟨hp4, hp256, hpm⟩ := padLen_spec bs (5 + P.length) h5 h128
  generalize hlp : padLen bs (5 + P.length) = lp at *
  have hlen : (mkPacket bs P pad).length = 5 + P.length + lp := by
    simp [mkPacket, hlp, fitPad_length, u32be]; omega
  have htake : (mkPacket bs P pad).take 4 = u32be (5 + P.length + lp - 4) := by
    simp [mkPacket, hlp, u32be]
  have hget : ((mkPacket bs P pad).getD 4 0).toNat = lp := by
    simp [mkPacket, hlp, u32be, List.getD_eq_getElem?_getD]
    omega
  rw [hlen] at hlim
  rw [htake, beToNat_u32be _ (by omega), hget]
  refine ⟨by omega, ?_, by omega, ?_⟩
  · have : 5 + P.length + lp - 4 + 4 = 5 + P.length + lp := by omega
    rw [this]; exact hpm
  · unfold slicePayload
    rw [if_neg (by omega), hlen]
    have : 5 + P.length + lp - lp = 5 + P.length := by omega
    rw [this]
    simp only [mkPacket, hlp, u32be, List.cons_append, List.nil_append]
    have h5' : 5 + P.length = P.length + 1 + 1 + 1 + 1 + 1 := by omega
    rw [h5']
    simp only [List.take_succ_cons, List.drop_succ_cons, List.drop_zero]
    rw [List.take_append_of_le_length (Nat.le_refl _), List.take_of_length_le (Nat.le_refl _)]


theorem split_at {x y p : Bytes} {n : Nat} (h : x ++ y = p) (hx : x.length = n) :
    x = p.take n ∧ y = p.drop n := by
  subst h; subst hx
  simp

/-- the frame the receiver sees for one `sendPacket` -/
def frameOf (SA : SendAlg σe σc) (s : Sender σe σc) (m : Msg) : Frame :=
  let packet := mkPacket SA.bs (SA.comp s.cs (m.mt :: m.data)).2 m.pad
  { plain := packet, body := (SA.enc s.es packet).2, tag := SA.mac s.seq packet, out := m.mt :: m.data }

theorem sendPacket_wire (SA : SendAlg σe σc) (s : Sender σe σc) (m : Msg) :
    (sendPacket SA s m.mt m.data m.pad).2 = (frameOf SA s m).wire := rfl

/-- sender and receiver in step -/
def InStep (Rc : σe → σd → Prop) (Rz : σc → σz → Prop) (s : Sender σe σc) (st : St σd σz) : Prop :=
  s.seq = st.seq ∧ Rc s.es st.ds ∧ Rz s.cs st.zs

/-- what `sendPacket` writes is a packet the paired receiver accepts, and both stay in step -/
theorem send_accepts (SA : SendAlg σe σc) (RA : RecvAlg σd σz) (Rc : σe → σd → Prop) (Rz : σc → σz → Prop)
    (hp : Paired SA RA Rc Rz) (s : Sender σe σc) (st : St σd σz) (hin : InStep Rc Rz s st) (m : Msg)
    (hlim : (frameOf SA s m).plain.length ≤ 1048580) :
    ∃ st', Accepts RA st (frameOf SA s m) st' ∧ InStep Rc Rz (sendPacket SA s m.mt m.data m.pad).1 st' := by
  obtain ⟨hseq, hc, hz⟩ := hin
  have hbs := hp.bs_eq
  generalize hP : (SA.comp s.cs (m.mt :: m.data)).2 = P at *
  generalize hpk : mkPacket SA.bs P m.pad = packet at *
  have hplain : (frameOf SA s m).plain = packet := by simp [frameOf, hP, hpk]
  have hbody : (frameOf SA s m).body = (SA.enc s.es packet).2 := by simp [frameOf, hP, hpk]
  have htag : (frameOf SA s m).tag = SA.mac s.seq packet := by simp [frameOf, hP, hpk]
  have hout : (frameOf SA s m).out = m.mt :: m.data := by simp [frameOf]
  rw [hplain] at hlim
  obtain ⟨f1, f2, f3, f4⟩ := mkPacket_facts SA.bs P m.pad (by rw [hbs]; exact hp.bs_ge) (by rw [hbs]; exact hp.bs_le)
    (by rw [hpk]; exact hlim)
  rw [hpk] at f1 f2 f3 f4
  rw [hbs] at f2
  generalize hL : beToNat (packet.take 4) = L at *
  have hdvd : RA.bs ∣ packet.length := by rw [f1]; exact Nat.dvd_of_mod_eq_zero f2
  obtain ⟨e1, e2, e3⟩ := hp.enc_dec s.es st.ds packet hc hdvd
  generalize hbd : (SA.enc s.es packet).2 = body at *
  have hbsL : RA.bs ≤ L + 4 := bs_le_of_mod (by omega) f2
  have hsplit := hp.dec_split st.ds (body.take RA.bs) (body.drop RA.bs)
    (by rw [List.length_take, Nat.min_eq_left (by omega)]; exact Nat.dvd_refl _)
  rw [List.take_append_drop] at hsplit
  have hl1 : (RA.dec st.ds (body.take RA.bs)).2.length = RA.bs := by
    rw [hp.dec_len _ _ (by rw [List.length_take, Nat.min_eq_left (by omega)]; exact Nat.dvd_refl _), List.length_take,
      Nat.min_eq_left (by omega)]
  have h2 : (RA.dec st.ds body).2 = packet := e2
  rw [hsplit] at h2
  obtain ⟨s1, s2⟩ := split_at h2 hl1
  obtain ⟨c1, c2⟩ := hp.comp_decomp s.cs st.zs (m.mt :: m.data) hz
  rw [hP] at c1 c2
  refine ⟨{ seq := (st.seq + 1) % 4294967296,
            ds := (RA.dec (RA.dec st.ds (body.take RA.bs)).1 (body.drop RA.bs)).1,
            zs := (RA.decomp st.zs P).1 }, ?_, ?_⟩
  · unfold Accepts
    rw [hplain, hbody, htag, hout, hL]
    refine ⟨f3, f2, by omega, f1, hp.mac_len _ _, s1, ?_, ?_, ?_, by simp, rfl⟩
    · exact Prod.ext rfl s2
    · intro hms; rw [← hseq]; exact hp.mac_ok hms _ _
    · rw [f4]; exact Prod.ext rfl c1
  · refine ⟨?_, ?_, ?_⟩
    · simp [sendPacket, hseq]
    · simp only [sendPacket, hP, hpk]
      have : (RA.dec st.ds body).1 = (RA.dec (RA.dec st.ds (body.take RA.bs)).1 (body.drop RA.bs)).1 := by
        rw [hsplit]
      rw [← this]; exact e3
    · simp only [sendPacket]; exact c2

end TwistedProps.C35
