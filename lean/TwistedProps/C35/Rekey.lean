import TwistedProps.C35.Ident
import TwistedModel.Ssh.Rekey
/-! C35 — key (re-)exchange: the receiver taking new algorithms into use when it dispatches NEWKEYS
(`kDrain`), any segmentation. -/
namespace TwistedProps.C35
open Twisted.Py Twisted.Ssh.Packet Twisted.Ssh.Rekey

variable {σe σc σd σz : Type}

/-- the receiving algorithms after `_newKeys` -/
def adoptR (A : RecvAlg σd σz) (e : REpoch σd σz) : RecvAlg σd σz :=
  { bs := e.bs, ms := e.ms, dec := e.dec, verify := e.verify,
    decomp := match e.z with | some z => z.1 | none => A.decomp }

def adoptSt (st : St σd σz) (e : REpoch σd σz) : St σd σz :=
  { seq := st.seq, ds := e.ds, zs := match e.z with | some z => z.2 | none => st.zs }

/-- where the receiver stands between two packets: algorithms in use, their state, the algorithms still to come -/
structure RPos (σd σz : Type) where
  A : RecvAlg σd σz
  st : St σd σz
  fut : List (REpoch σd σz)

/-- a chain of honest packets across key exchanges: every packet is accepted by the algorithms in use when it
    arrives; a NEWKEYS packet (payload exactly `[21]`) is followed by packets for the next algorithms -/
def KChainTo : RPos σd σz → List Frame → RPos σd σz → Prop
  | P, [], E => P = E
  | P, f :: fs, E => 5 ≤ P.A.bs ∧ ∃ st', Accepts P.A P.st f st' ∧
      (if f.out.head? = some 21 then
         f.out = [21] ∧ ∃ e fut', P.fut = e :: fut' ∧ KChainTo ⟨adoptR P.A e, adoptSt st' e, fut'⟩ fs E
       else KChainTo ⟨P.A, st', P.fut⟩ fs E)

theorem kdrain_honest :
    ∀ (fs : List Frame) (E : RPos σd σz) (_hE : 5 ≤ E.A.bs) (st : St σd σz) (R : KReceiver σd σz) (fut : Bytes)
      (fuel : Nat),
      KChainTo ⟨R.alg, st, R.future⟩ fs E → R.r.seq = st.seq → R.r.zs = st.zs →
      R.r.buf ++ fut = wires fs →
      (∀ f rest, fs = f :: rest → Pre R.alg st (f.body.take R.alg.bs) R.r) → R.r.buf.length < fuel →
      ∃ (done rest : List Frame) (st' : St σd σz) (R' : KReceiver σd σz),
        fs = done ++ rest ∧ kDrain fuel R = (R', evs done) ∧ KChainTo ⟨R'.alg, st', R'.future⟩ rest E ∧
        R'.r.seq = st'.seq ∧ R'.r.zs = st'.zs ∧ R'.r.gotVersion = R.r.gotVersion ∧ R'.r.buf ++ fut = wires rest ∧
        (∀ f rest', rest = f :: rest' →
          Pre R'.alg st' (f.body.take R'.alg.bs) R'.r ∧ R'.r.buf.length < f.wire.length) := by
  intro fs
  induction fs with
  | nil =>
    intro E hE st R fut fuel hc hseq hzs hbuf _ hfuel
    have hb : R.r.buf = [] := by
      have h0 := hbuf
      simp [wires] at h0
      exact h0.1
    have hA : E.A = R.alg := by
      have : (⟨R.alg, st, R.future⟩ : RPos σd σz) = E := hc
      rw [← this]
    cases fuel with
    | zero => omega
    | succ k =>
      have : getPacket R.alg R.r = (R.r, Got.wait) := by
        unfold getPacket; rw [if_pos (by rw [hb, ← hA]; simp; omega)]
      refine ⟨[], [], st, R, rfl, ?_, hc, hseq, hzs, rfl, hbuf, by intro f rest' h; cases h⟩
      simp [kDrain, this, evs]
  | cons f fs ih =>
    intro E hE st R fut fuel hc hseq hzs hbuf hpre hfuel
    obtain ⟨hbs, st1, hacc, hnext⟩ := hc
    simp only [] at hbs hacc hnext
    have hw := wire_length R.alg st st1 f hacc
    have hpre0 := hpre f fs rfl
    rw [wires_cons] at hbuf
    cases fuel with
    | zero => omega
    | succ k =>
    by_cases hlt : R.r.buf.length < f.wire.length
    · obtain ⟨r', hg, hb', hs', hz', hgv', hp'⟩ :=
        getPacket_partial R.alg hbs st st1 f hacc R.r R.r.buf.length hlt (prefix_take hbuf hlt) hpre0
      refine ⟨[], f :: fs, st, { R with r := r' }, rfl, ?_, ⟨hbs, st1, hacc, hnext⟩, by simp only []; rw [hs', hseq],
        by simp only []; rw [hz', hzs], hgv', by simp only []; rw [hb', wires_cons]; exact hbuf, ?_⟩
      · simp [kDrain, hg, evs]
      · intro f' rest' h; cases h; exact ⟨hp', by simp only []; rw [hb']; exact hlt⟩
    · obtain ⟨tail, hb, ht⟩ := prefix_split hbuf (by omega)
      have hb2 : R.r.buf = f.body ++ (f.tag ++ tail) := by rw [hb, Frame.wire, List.append_assoc]
      have hg := getPacket_complete R.alg hbs st st1 f hacc R.r tail hb2 hseq hzs hpre0
      have hlen : R.r.buf.length = f.wire.length + tail.length := by rw [hb]; simp
      have hout : f.out ≠ [] := hacc.2.2.2.2.2.2.2.2.2.1
      cases hfo : f.out with
      | nil => exact absurd hfo hout
      | cons t p =>
        rw [hfo] at hg
        by_cases h21 : f.out.head? = some 21
        · rw [if_pos h21] at hnext
          obtain ⟨hnk, e, fut', hfut, hc1⟩ := hnext
          have ht21 : t = 21 ∧ p = [] := by
            rw [hfo] at hnk; simpa using hnk
          obtain ⟨rfl, rfl⟩ := ht21
          obtain ⟨done, rest, st', R', hfs, hdr, hc', hs', hz', hgv', hb', hp'⟩ :=
            ih E hE (adoptSt st1 e)
              (KReceiver.adopt { R with r := { R.r with buf := tail, first := none, seq := st1.seq, ds := st1.ds, zs := st1.zs } } e fut')
              fut k hc1 rfl rfl ht (fun f' rest' _ => Or.inl ⟨rfl, rfl⟩) (by simp only [KReceiver.adopt]; omega)
          refine ⟨f :: done, rest, st', R', by rw [hfs]; rfl, ?_, hc', hs', hz', hgv', hb', hp'⟩
          simp only [KReceiver.adopt] at hdr
          simp [kDrain, hg, KReceiver.dispatched, hfut, KReceiver.adopt, hdr, evs_cons, Frame.ev, hfo]
        · rw [if_neg h21] at hnext
          have ht21 : t ≠ 21 := by
            intro h; apply h21; rw [hfo, h]; rfl
          obtain ⟨done, rest, st', R', hfs, hdr, hc', hs', hz', hgv', hb', hp'⟩ :=
            ih E hE st1
              { R with r := { R.r with buf := tail, first := none, seq := st1.seq, ds := st1.ds, zs := st1.zs } }
              fut k hnext rfl rfl ht (fun f' rest' _ => Or.inl ⟨rfl, rfl⟩) (by simp only []; omega)
          refine ⟨f :: done, rest, st', R', by rw [hfs]; rfl, ?_, hc', hs', hz', hgv', hb', hp'⟩
          simp [kDrain, hg, KReceiver.dispatched, ht21, hdr, evs_cons, Frame.ev, hfo]

/-- packet phase across key exchanges: whatever the segmentation of an honest stream, exactly its payloads are
    dispatched -/
theorem kfeed_honest :
    ∀ (segs : List Bytes) (fs : List Frame) (E : RPos σd σz) (_hE : 5 ≤ E.A.bs) (st : St σd σz) (R : KReceiver σd σz),
      KChainTo ⟨R.alg, st, R.future⟩ fs E → R.r.gotVersion = true → R.r.seq = st.seq → R.r.zs = st.zs →
      R.r.buf ++ segs.flatten = wires fs →
      (∀ f rest, fs = f :: rest → Pre R.alg st (f.body.take R.alg.bs) R.r ∧ R.r.buf.length < f.wire.length) →
      kFeedAll R segs = evs fs := by
  intro segs
  induction segs with
  | nil =>
    intro fs E hE st R hc hgv hseq hzs hbuf hpre
    cases fs with
    | nil => simp [kFeedAll, evs]
    | cons f rest =>
      exfalso
      have := (hpre f rest rfl).2
      have h2 := congrArg List.length hbuf
      simp [wires_cons] at h2
      omega
  | cons d ds ih =>
    intro fs E hE st R hc hgv hseq hzs hbuf hpre
    obtain ⟨done, rest, st', R', hfs, hdr, hc', hs', hz', hgv', hb', hp'⟩ :=
      kdrain_honest fs E hE st { R with r := { R.r with buf := R.r.buf ++ d } } ds.flatten
        ((R.r.buf ++ d).length + 1) hc hseq hzs (by simpa [List.append_assoc] using hbuf)
        (fun f rest h => by
          have := (hpre f rest h).1
          rcases this with ⟨h1, h2⟩ | ⟨h1, h2⟩
          · exact Or.inl ⟨h1, h2⟩
          · exact Or.inr ⟨h1, h2⟩) (by simp only []; omega)
    have hdr' : kDataReceived R d = (R', evs done) := by
      unfold kDataReceived
      simp only [hgv, if_true]
      rw [← hgv]
      exact hdr
    have hrest := ih rest E hE st' R' hc' (by rw [hgv']; exact hgv) hs' hz' hb' hp'
    simp only [kFeedAll, hdr', evs_no_disc, Bool.false_eq_true, if_false, hrest, hfs, evs_append]

/-! ### the sender's queue: what is written, in which order -/

/-- may not be sent while a key exchange is in progress (RFC 4253 7.1): the payloads of the layers above -/
def deferrable (m : Msg) : Bool := !allowedInKex m.mt

/-- messages written by `sendPacket` now -/
def kSendM (K : KSender σe σc) (m : Msg) : List Msg := if K.holds m.mt then [] else [m]

def kFlushM (K : KSender σe σc) : List Msg → List Msg
  | [] => []
  | m :: ms => kSendM K m ++ kFlushM (kSendPacket K m).1 ms

/-- messages an op writes (in wire order) and messages it hands to `sendPacket` -/
def kStepM (K : KSender σe σc) : Op → List Msg × List Msg
  | .send m => (kSendM K m, [m])
  | .kexInit m => (kSendM K m, [m])
  | .peerKexInit m => if K.kex = Kex.requested then ([], []) else (kSendM K m, [m])
  | .keySetup pad => (kSendM K (newKeysMsg pad), [newKeysMsg pad])
  | .newKeys => match K.future with
    | [] => ([], [])
    | e :: fut => (kFlushM (K.adopt e fut) K.blocked, [])

/-- the whole history: messages written in wire order, messages handed to `sendPacket` in call order -/
def kRunM (K : KSender σe σc) : List Op → List Msg × List Msg
  | [] => ([], [])
  | op :: ops =>
    match kStep K op with
    | .error _ => ([], [])
    | .ok r => ((kStepM K op).1 ++ (kRunM r.1 ops).1, (kStepM K op).2 ++ (kRunM r.1 ops).2)

/-- nothing is held back unless a key exchange is in progress -/
def QueueWF (K : KSender σe σc) : Prop := K.kex = Kex.none → K.blocked = []

theorem kSend_deferrable (K : KSender σe σc) (hwf : QueueWF K) (m : Msg) :
    (kSendM K m).filter deferrable ++ (kSendPacket K m).1.blocked.filter deferrable =
      K.blocked.filter deferrable ++ [m].filter deferrable ∧
    (kSendPacket K m).1.kex = K.kex ∧ QueueWF (kSendPacket K m).1 := by
  unfold kSendM kSendPacket
  by_cases hh : K.holds m.mt = true
  · simp only [hh, if_true, List.filter_nil, List.nil_append, List.filter_append, true_and]
    intro hk
    simp [KSender.holds] at hh
    exact absurd hk hh.1
  · simp only [hh, Bool.false_eq_true, if_false, true_and]
    refine ⟨?_, hwf⟩
    by_cases hk : K.kex = Kex.none
    · simp [hwf hk]
    · have : allowedInKex m.mt = true := by
        simp [KSender.holds, hk] at hh
        exact hh.2
      simp [deferrable, this]

/-- `_newKeys` sends what was held back front to back: with no key exchange in progress `kFlush` writes exactly
    the given messages, in the given order -/
theorem kFlush_in_order (K : KSender σe σc) (hk : K.kex = Kex.none) (ms : List Msg) :
    kFlushM K ms = ms ∧ (kFlush K ms).1.kex = Kex.none ∧ (kFlush K ms).1.blocked = K.blocked := by
  induction ms generalizing K with
  | nil => simp [kFlushM, kFlush, hk]
  | cons m ms ih =>
    have hh : K.holds m.mt = false := by simp [KSender.holds, hk]
    have h1 : (kSendPacket K m).1.kex = Kex.none := by simp [kSendPacket, hh, hk]
    have h2 : (kSendPacket K m).1.blocked = K.blocked := by simp [kSendPacket, hh]
    obtain ⟨i1, i2, i3⟩ := ih (kSendPacket K m).1 h1
    simp [kFlushM, kFlush, kSendM, hh, i1, i2, i3, h2]

theorem kStep_deferrable (K : KSender σe σc) (hwf : QueueWF K) (op : Op) (r : KSender σe σc × List Bytes)
    (hstep : kStep K op = .ok r) :
    (kStepM K op).1.filter deferrable ++ r.1.blocked.filter deferrable =
      K.blocked.filter deferrable ++ (kStepM K op).2.filter deferrable ∧ QueueWF r.1 := by
  cases op with
  | send m =>
    simp only [kStep, Except.ok.injEq] at hstep
    subst hstep
    obtain ⟨h1, _, h3⟩ := kSend_deferrable K hwf m
    exact ⟨h1, h3⟩
  | keySetup pad =>
    simp only [kStep, Except.ok.injEq] at hstep
    subst hstep
    obtain ⟨h1, h2, h3⟩ := kSend_deferrable K hwf (newKeysMsg pad)
    exact ⟨h1, fun hk => h3 (by simpa [kKeySetup] using hk)⟩
  | kexInit m =>
    simp only [kStep, kSendKexInit] at hstep
    by_cases hk : K.kex = Kex.none
    · simp only [hk, ne_eq, not_true_eq_false, if_false, Except.ok.injEq] at hstep
      subst hstep
      have hh : K.holds m.mt = false := by simp [KSender.holds, hk]
      simp [kStepM, kSendM, hh, hwf hk, QueueWF]
    · simp [hk] at hstep
  | peerKexInit m =>
    simp only [kStep, kPeerKexInit] at hstep
    by_cases hq : K.kex = Kex.requested
    · simp only [hq, if_true, Except.ok.injEq] at hstep
      subst hstep
      simp [kStepM, hq, QueueWF]
    · simp only [hq, if_false, kSendKexInit] at hstep
      by_cases hk : K.kex = Kex.none
      · simp only [hk, ne_eq, not_true_eq_false, if_false, Except.ok.injEq] at hstep
        subst hstep
        have hh : K.holds m.mt = false := by simp [KSender.holds, hk]
        simp [kStepM, kSendM, hh, hwf hk, QueueWF, hk]
      · simp [hk] at hstep
  | newKeys =>
    simp only [kStep, kNewKeys] at hstep
    cases hf : K.future with
    | nil => simp [hf] at hstep
    | cons e fut =>
      by_cases hk : K.kex = Kex.none
      · simp [hf, hk] at hstep
      · simp only [hf, hk, if_false, Except.ok.injEq] at hstep
        subst hstep
        obtain ⟨i1, i2, i3⟩ := kFlush_in_order (K.adopt e fut) rfl K.blocked
        simp only [kStepM, hf, i1, i3]
        refine ⟨by simp [KSender.adopt], fun _ => by rw [i3]; rfl⟩

/-- **Held-back payloads keep their order** — for every history of the sending transport (sends, key exchanges
    started by either side, NEWKEYS in either order, any number of rounds, ending anywhere): the payloads that may
    not be sent during key exchange appear on the wire — followed by those still held back — exactly in the order
    in which they were handed to `sendPacket`: none lost, none duplicated, none overtaken by another one. -/
theorem kRun_deferrable_in_order (ops : List Op) : ∀ (K : KSender σe σc), QueueWF K →
    (kRunM K ops).1.filter deferrable ++ (kRun K ops).1.blocked.filter deferrable =
      K.blocked.filter deferrable ++ (kRunM K ops).2.filter deferrable := by
  induction ops with
  | nil => intro K _; simp [kRunM, kRun]
  | cons op ops ih =>
    intro K hwf
    cases hstep : kStep K op with
    | error e => simp [kRunM, kRun, hstep]
    | ok r =>
      obtain ⟨h1, hwf'⟩ := kStep_deferrable K hwf op r hstep
      have h2 := ih r.1 hwf'
      simp only [kRunM, kRun, hstep, List.filter_append, List.append_assoc]
      rw [h2, ← List.append_assoc, h1, List.append_assoc]

/-! ### the bytes handed to `transport.write` are the packets of exactly those messages -/

/-- one write: the algorithms and sender state it was made with, and the message -/
structure Wr (σe σc : Type) where
  alg : SendAlg σe σc
  s : Sender σe σc
  m : Msg

def Wr.bytes (w : Wr σe σc) : Bytes := (sendPacket w.alg w.s w.m.mt w.m.data w.m.pad).2
def Wr.frame (w : Wr σe σc) : Frame := frameOf w.alg w.s w.m

def kSendW (K : KSender σe σc) (m : Msg) : List (Wr σe σc) := if K.holds m.mt then [] else [⟨K.alg, K.s, m⟩]

def kFlushW (K : KSender σe σc) : List Msg → List (Wr σe σc)
  | [] => []
  | m :: ms => kSendW K m ++ kFlushW (kSendPacket K m).1 ms

def kStepW (K : KSender σe σc) : Op → List (Wr σe σc)
  | .send m => kSendW K m
  | .kexInit m => kSendW K m
  | .peerKexInit m => if K.kex = Kex.requested then [] else kSendW K m
  | .keySetup pad => kSendW K (newKeysMsg pad)
  | .newKeys => match K.future with
    | [] => []
    | e :: fut => kFlushW (K.adopt e fut) K.blocked

def kRunW (K : KSender σe σc) : List Op → List (Wr σe σc)
  | [] => []
  | op :: ops =>
    match kStep K op with
    | .error _ => []
    | .ok r => kStepW K op ++ kRunW r.1 ops

theorem kSend_writes (K : KSender σe σc) (m : Msg) :
    (kSendPacket K m).2 = (kSendW K m).map Wr.bytes ∧ kSendM K m = (kSendW K m).map Wr.m := by
  unfold kSendPacket kSendW kSendM
  by_cases hh : K.holds m.mt = true
  · simp [hh]
  · simp [hh, Wr.bytes]

theorem kFlush_writes (ms : List Msg) : ∀ (K : KSender σe σc),
    (kFlush K ms).2 = (kFlushW K ms).map Wr.bytes ∧ kFlushM K ms = (kFlushW K ms).map Wr.m := by
  induction ms with
  | nil => intro K; simp [kFlush, kFlushW, kFlushM]
  | cons m ms ih =>
    intro K
    obtain ⟨a, b⟩ := kSend_writes K m
    obtain ⟨c, d⟩ := ih (kSendPacket K m).1
    simp [kFlush, kFlushW, kFlushM, a, b, c, d]

theorem kStep_writes (K : KSender σe σc) (op : Op) (r : KSender σe σc × List Bytes) (hstep : kStep K op = .ok r) :
    r.2 = (kStepW K op).map Wr.bytes ∧ (kStepM K op).1 = (kStepW K op).map Wr.m := by
  cases op with
  | send m =>
    simp only [kStep, Except.ok.injEq] at hstep
    subst hstep
    exact kSend_writes K m
  | keySetup pad =>
    simp only [kStep, Except.ok.injEq] at hstep
    subst hstep
    exact kSend_writes K (newKeysMsg pad)
  | kexInit m =>
    simp only [kStep, kSendKexInit] at hstep
    by_cases hk : K.kex = Kex.none
    · simp only [hk, ne_eq, not_true_eq_false, if_false, Except.ok.injEq] at hstep
      subst hstep
      exact kSend_writes K m
    · simp [hk] at hstep
  | peerKexInit m =>
    simp only [kStep, kPeerKexInit] at hstep
    by_cases hq : K.kex = Kex.requested
    · simp only [hq, if_true, Except.ok.injEq] at hstep
      subst hstep
      simp [kStepW, kStepM, hq]
    · simp only [hq, if_false, kSendKexInit] at hstep
      by_cases hk : K.kex = Kex.none
      · simp only [hk, ne_eq, not_true_eq_false, if_false, Except.ok.injEq] at hstep
        subst hstep
        simpa [kStepW, kStepM, hq] using kSend_writes K m
      · simp [hk] at hstep
  | newKeys =>
    simp only [kStep, kNewKeys] at hstep
    cases hf : K.future with
    | nil => simp [hf] at hstep
    | cons e fut =>
      by_cases hk : K.kex = Kex.none
      · simp [hf, hk] at hstep
      · simp only [hf, hk, if_false, Except.ok.injEq] at hstep
        subst hstep
        simpa [kStepW, kStepM, hf] using kFlush_writes K.blocked (K.adopt e fut)

/-- what the sending transport hands to `transport.write` during a history is, chunk for chunk, the packet
    (`sendPacket` with the algorithms in use at that moment) of the messages `kRunM` lists, in that order -/
theorem kRun_writes (ops : List Op) : ∀ (K : KSender σe σc),
    (kRun K ops).2.1 = (kRunW K ops).map Wr.bytes ∧ (kRunM K ops).1 = (kRunW K ops).map Wr.m := by
  induction ops with
  | nil => intro K; simp [kRun, kRunW, kRunM]
  | cons op ops ih =>
    intro K
    cases hstep : kStep K op with
    | error e => simp [kRun, kRunW, kRunM, hstep]
    | ok r =>
      obtain ⟨a, b⟩ := kStep_writes K op r hstep
      obtain ⟨c, d⟩ := ih r.1
      simp [kRun, kRunW, kRunM, hstep, a, b, c, d]

end TwistedProps.C35
