import TwistedModel.Ssh.Packet
/-!
C35 — definitions used by the statements: the contracts of the cryptographic parameters, what an
honest packet looks like to the receiver (`Frame`, `Accepts`, `Chain`), the identification.
-/
namespace TwistedProps.C35
open Twisted.Py Twisted.Ssh.Packet

/-- one honest packet as the receiver meets it -/
structure Frame where
  plain : Bytes     -- the packet in clear: length field, padding length, payload, padding
  body : Bytes      -- its encrypted form
  tag : Bytes       -- its MAC (empty for `none`)
  out : Bytes       -- message type :: data, what must be dispatched

def Frame.wire (f : Frame) : Bytes := f.body ++ f.tag
def wires (fs : List Frame) : Bytes := (fs.map Frame.wire).flatten
def Frame.ev (f : Frame) : List Ev :=
  match f.out with
  | t :: p => [Ev.msg t p]
  | [] => []
def evs (fs : List Frame) : List Ev := (fs.map Frame.ev).flatten

/-- the receiver's state between two packets -/
structure St (σd σz : Type) where
  seq : Nat
  ds : σd
  zs : σz

/-- `f` is a packet the receiving algorithms accept in state `st`, leading to `st'`:
    the two `decrypt` calls of `getPacket` (first block, rest) give back `plain`, the MAC verifies,
    decompression gives `out`. -/
def Accepts {σd σz : Type} (A : RecvAlg σd σz) (st : St σd σz) (f : Frame) (st' : St σd σz) : Prop :=
  beToNat (f.plain.take 4) ≤ 1048576 ∧
  (beToNat (f.plain.take 4) + 4) % A.bs = 0 ∧
  f.body.length = beToNat (f.plain.take 4) + 4 ∧
  f.plain.length = beToNat (f.plain.take 4) + 4 ∧
  f.tag.length = A.ms ∧
  (A.dec st.ds (f.body.take A.bs)).2 = f.plain.take A.bs ∧
  A.dec (A.dec st.ds (f.body.take A.bs)).1 (f.body.drop A.bs) = (st'.ds, f.plain.drop A.bs) ∧
  (A.ms ≠ 0 → A.verify st.seq f.plain f.tag = true) ∧
  A.decomp st.zs (slicePayload f.plain (f.plain.getD 4 0).toNat) = (st'.zs, some f.out) ∧
  f.out ≠ [] ∧
  st'.seq = (st.seq + 1) % 4294967296

def Chain {σd σz : Type} (A : RecvAlg σd σz) : St σd σz → List Frame → Prop
  | _, [] => True
  | st, f :: fs => ∃ st', Accepts A st f st' ∧ Chain A st' fs

/-- where the receiver is inside the current packet: either nothing of it has been decrypted, or its
    first block has (it is kept in `self.first`) -/
def Pre {σd σz : Type} (A : RecvAlg σd σz) (st : St σd σz) (blk : Bytes) (r : Receiver σd σz) : Prop :=
  (r.first = none ∧ r.ds = st.ds) ∨
  (r.first = some (A.dec st.ds blk).2 ∧ r.ds = (A.dec st.ds blk).1)

/-- The contracts of the cryptographic parameters, sender side paired with receiver side.
    `Rc se sd`: encryptor state `se` and decryptor state `sd` are in step (same key, same chaining
    value / counter); `Rz`: the same for the zlib streams.  These are the facts trusted about
    `cryptography`, `hmac` and `zlib`; they are hypotheses, not axioms. -/
structure Paired {σe σc σd σz : Type} (SA : SendAlg σe σc) (RA : RecvAlg σd σz)
    (Rc : σe → σd → Prop) (Rz : σc → σz → Prop) : Prop where
  bs_eq : SA.bs = RA.bs
  bs_ge : 5 ≤ RA.bs
  bs_le : RA.bs ≤ 128
  /-- decrypting what was encrypted (whole blocks) gives it back, same length, states stay in step -/
  enc_dec : ∀ se sd x, Rc se sd → RA.bs ∣ x.length →
    (SA.enc se x).2.length = x.length ∧ (RA.dec sd (SA.enc se x).2).2 = x ∧
    Rc (SA.enc se x).1 (RA.dec sd (SA.enc se x).2).1
  /-- decryption is a stream operation: it splits over block-aligned concatenation -/
  dec_split : ∀ sd a b, RA.bs ∣ a.length →
    RA.dec sd (a ++ b) = ((RA.dec (RA.dec sd a).1 b).1, (RA.dec sd a).2 ++ (RA.dec (RA.dec sd a).1 b).2)
  dec_len : ∀ sd x, RA.bs ∣ x.length → (RA.dec sd x).2.length = x.length
  mac_len : ∀ q p, (SA.mac q p).length = RA.ms
  mac_ok : RA.ms ≠ 0 → ∀ q p, RA.verify q p (SA.mac q p) = true
  comp_decomp : ∀ sc sz x, Rz sc sz →
    (RA.decomp sz (SA.comp sc x).2).2 = some x ∧ Rz (SA.comp sc x).1 (RA.decomp sz (SA.comp sc x).2).1

end TwistedProps.C35
