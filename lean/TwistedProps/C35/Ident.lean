import TwistedProps.C35.Send
/-! C35 — frames of `sendAll`, identification phase, any segmentation. -/
namespace TwistedProps.C35
open Twisted.Py Twisted.Ssh.Packet

variable {σe σc σd σz : Type}

def framesOf (SA : SendAlg σe σc) : Sender σe σc → List Msg → List Frame
  | _, [] => []
  | s, m :: ms => frameOf SA s m :: framesOf SA (sendPacket SA s m.mt m.data m.pad).1 ms

theorem sendAll_wires (SA : SendAlg σe σc) (s : Sender σe σc) (ms : List Msg) :
    (sendAll SA s ms).2.flatten = wires (framesOf SA s ms) := by
  induction ms generalizing s with
  | nil => simp [sendAll, framesOf, wires]
  | cons m ms ih =>
    simp only [sendAll, framesOf, wires_cons, List.flatten_cons, ih, sendPacket_wire]

def msgEv (m : Msg) : Ev := Ev.msg m.mt m.data

theorem framesOf_evs (SA : SendAlg σe σc) (s : Sender σe σc) (ms : List Msg) :
    evs (framesOf SA s ms) = ms.map msgEv := by
  induction ms generalizing s with
  | nil => simp [framesOf, evs]
  | cons m ms ih => simp [framesOf, evs_cons, ih, Frame.ev, frameOf, msgEv]

theorem framesOf_chain (SA : SendAlg σe σc) (RA : RecvAlg σd σz) (Rc : σe → σd → Prop) (Rz : σc → σz → Prop)
    (hp : Paired SA RA Rc Rz) (ms : List Msg) : ∀ (s : Sender σe σc) (st : St σd σz), InStep Rc Rz s st →
    (∀ f ∈ framesOf SA s ms, f.plain.length ≤ 1048580) → Chain RA st (framesOf SA s ms) := by
  induction ms with
  | nil => intro s st _ _; simp [framesOf, Chain]
  | cons m ms ih =>
    intro s st hin hlim
    obtain ⟨st', ha, hin'⟩ := send_accepts SA RA Rc Rz hp s st hin m (hlim _ (by simp [framesOf]))
    exact ⟨st', ha, ih _ st' hin' (fun f hf => hlim f (by simp [framesOf, hf]))⟩

/-! identification -/

theorem fv_noNL (l acc : Bytes) (h : (10 : UInt8) ∉ l) : findVersion l acc = none := by
  induction l generalizing acc with
  | nil => simp [findVersion]
  | cons b l ih =>
    have hb : b ≠ 10 := fun e => h (by simp [e])
    have hl : (10 : UInt8) ∉ l := fun e => h (by simp [e])
    simp [findVersion, hb, ih _ hl]

theorem fv_line (l rest acc : Bytes) (h : (10 : UInt8) ∉ l) :
    findVersion (l ++ 10 :: rest) acc =
      if isSSH (acc.reverse ++ l) then some (acc.reverse ++ l, rest) else findVersion rest [] := by
  induction l generalizing acc with
  | nil => simp [findVersion]
  | cons b l ih =>
    have hb : b ≠ 10 := fun e => h (by simp [e])
    have hl : (10 : UInt8) ∉ l := fun e => h (by simp [e])
    simp [findVersion, hb, ih _ hl]

/-- lines before the version line: no newline inside, not starting with `SSH-` -/
def bannerOK (banner : List Bytes) : Prop := ∀ l ∈ banner, (10 : UInt8) ∉ l ∧ isSSH l = false
/-- the version line (without its `\n`; a trailing `\r` belongs to it) -/
def versionOK (v : Bytes) : Prop :=
  (10 : UInt8) ∉ v ∧ isSSH v = true ∧ supportedVersions.contains (remoteVersion v) = true

def identOf (banner : List Bytes) (v : Bytes) : Bytes :=
  (banner.map (· ++ [10])).flatten ++ (v ++ [10])

theorem identOf_cons (l : Bytes) (ls : List Bytes) (v : Bytes) :
    identOf (l :: ls) v = l ++ 10 :: identOf ls v := by
  simp [identOf]

theorem fv_ident (banner : List Bytes) (v more : Bytes) (hb : bannerOK banner) (hv : versionOK v) :
    findVersion (identOf banner v ++ more) [] = some (v, more) := by
  induction banner with
  | nil =>
    have : identOf [] v ++ more = v ++ 10 :: more := by simp [identOf]
    rw [this, fv_line _ _ _ hv.1]; simp [hv.2.1]
  | cons l ls ih =>
    have hl := hb l (by simp)
    rw [identOf_cons, List.append_assoc, List.cons_append, fv_line _ _ _ hl.1]
    simp only [List.reverse_nil, List.nil_append, hl.2, Bool.false_eq_true, if_false]
    exact ih (fun x hx => hb x (by simp [hx]))

theorem prefix_noNL {p q l : Bytes} (h : l = p ++ q) (hl : (10 : UInt8) ∉ l) : (10 : UInt8) ∉ p := by
  intro hp; exact hl (by rw [h]; simp [hp])

theorem fv_prefix (banner : List Bytes) (v : Bytes) (hb : bannerOK banner) (hv : versionOK v) :
    ∀ p q : Bytes, p ++ q = identOf banner v → q ≠ [] → findVersion p [] = none := by
  induction banner with
  | nil =>
    intro p q h hq
    have h' : p ++ q = v ++ [10] := by simpa [identOf] using h
    rcases List.append_eq_append_iff.mp h' with ⟨a', h1, h2⟩ | ⟨c', h1, h2⟩
    · exact fv_noNL _ _ (prefix_noNL h1 hv.1)
    · -- p = v ++ c', [10] = c' ++ q, q ≠ [] → c' = []
      have : c' = [] := by
        cases c' with
        | nil => rfl
        | cons x xs =>
          have h3 : xs ++ q = [] := by
            have := (List.cons.inj h2).2; simpa using this.symm
          exact absurd (List.append_eq_nil_iff.mp h3).2 hq
      subst this
      rw [h1]; simp; exact fv_noNL _ _ hv.1
  | cons l ls ih =>
    intro p q h hq
    have hl := hb l (by simp)
    rw [identOf_cons] at h
    rcases List.append_eq_append_iff.mp h with ⟨a', h1, h2⟩ | ⟨c', h1, h2⟩
    · exact fv_noNL _ _ (prefix_noNL h1 hl.1)
    · cases c' with
      | nil => rw [h1]; simp; exact fv_noNL _ _ hl.1
      | cons x p' =>
        have hx : x = 10 := by simp at h2; exact h2.1.symm
        have h3 : p' ++ q = identOf ls v := by simp at h2; exact h2.2.symm
        rw [h1, hx, fv_line _ _ _ hl.1]
        simp only [List.reverse_nil, List.nil_append, hl.2, Bool.false_eq_true, if_false]
        exact ih (fun x hx => hb x (by simp [hx])) p' q h3 hq


/-- identification phase followed by the packet phase, any segmentation -/
theorem feed_ident (A : RecvAlg σd σz) (hbs : 5 ≤ A.bs) (banner : List Bytes) (v : Bytes)
    (hb : bannerOK banner) (hv : versionOK v) (hlen : (identOf banner v).length ≤ 4096) :
    ∀ (segs : List Bytes) (fs : List Frame) (st : St σd σz) (r : Receiver σd σz),
      Chain A st fs → r.gotVersion = false → r.first = none → r.ds = st.ds → r.seq = st.seq → r.zs = st.zs →
      r.buf.length < (identOf banner v).length →
      r.buf ++ segs.flatten = identOf banner v ++ wires fs →
      feedAll A r segs = Ev.version (rstripCR v) :: evs fs := by
  intro segs
  induction segs with
  | nil =>
    intro fs st r _ _ _ _ _ _ hlt hbuf
    exfalso
    have := congrArg List.length hbuf
    simp at this; omega
  | cons d ds ih =>
    intro fs st r hc hgv hfirst hds hseq hzs hlt hbuf
    have hbuf' : (r.buf ++ d) ++ ds.flatten = identOf banner v ++ wires fs := by
      simpa [List.append_assoc] using hbuf
    by_cases hshort : (r.buf ++ d).length < (identOf banner v).length
    · have hp := prefix_take hbuf' hshort
      have hq : (r.buf ++ d) ++ (identOf banner v).drop (r.buf ++ d).length = identOf banner v := by
        conv => lhs; lhs; rw [hp]
        exact List.take_append_drop _ _
      have hne : (identOf banner v).drop (r.buf ++ d).length ≠ [] := by
        intro h
        have := congrArg List.length h
        simp only [List.length_drop, List.length_nil] at this
        omega
      have hfv := fv_prefix banner v hb hv _ _ hq hne
      have hdr : dataReceived A r d = ({ r with buf := r.buf ++ d }, []) := by
        unfold dataReceived
        simp only [hgv, Bool.false_eq_true, if_false, hfv]
        rw [if_neg (by omega)]
      have := ih fs st { r with buf := r.buf ++ d } hc hgv hfirst hds hseq hzs hshort hbuf'
      simp only [feedAll, hdr, List.any_nil, Bool.false_eq_true, if_false, List.nil_append, this]
    · obtain ⟨more, hm, hmore⟩ := prefix_split hbuf' (by omega)
      have hfv : findVersion (r.buf ++ d) [] = some (v, more) := by rw [hm]; exact fv_ident banner v more hb hv
      obtain ⟨done, rest, st', r', hfs, hdrn, hc', hs', hz', hgv', hb', hp'⟩ :=
        drain_honest A hbs fs st { r with gotVersion := true, buf := more } ds.flatten (more.length + 1) hc hseq hzs
          hmore (fun f rest _ => Or.inl ⟨hfirst, hds⟩) (by simp only []; omega)
      have hdr : dataReceived A r d = (r', Ev.version (rstripCR v) :: evs done) := by
        unfold dataReceived
        simp only [hgv, Bool.false_eq_true, if_false, hfv, hv.2.2, if_true]
        rw [hdrn]
      have hrest := feed_honest A hbs ds rest st' r' hc' (by rw [hgv']) hs' hz' hb' hp'
      simp only [feedAll, hdr, List.any_cons, Ev.isDisc, evs_no_disc, Bool.or_self, Bool.false_eq_true, if_false,
        hrest, hfs, evs_append, List.cons_append]

end TwistedProps.C35
