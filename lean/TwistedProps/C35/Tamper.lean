import TwistedProps.C35.Ident
/-! C35 — an altered packet is never dispatched: `getPacket`, the loop, any segmentation. -/
namespace TwistedProps.C35
open Twisted.Py Twisted.Ssh.Packet

variable {σd σz : Type}

/-- receiver-side contracts used by the tamper theorem: decryption keeps lengths and, in a given
    state, is injective on whole blocks (a block cipher mode is a bijection) -/
structure DecInj (A : RecvAlg σd σz) : Prop where
  dec_len : ∀ sd x, A.bs ∣ x.length → (A.dec sd x).2.length = x.length
  dec_inj : ∀ sd x y, A.bs ∣ x.length → x.length = y.length → (A.dec sd x).2 = (A.dec sd y).2 → x = y

/-- symbolic unforgeability, stated on what the receiver computes from the altered bytes `X`: whatever
    packet length `n` it extracts, the MAC check of the bytes it then takes for (packet, tag) succeeds only
    if they are the sender's own packet and tag.  (A `∀ packet tag` form would be unsatisfiable for a
    fixed-length tag; this is the instance the receiver can reach.) -/
def Unforgeable (A : RecvAlg σd σz) (st : St σd σz) (f : Frame) (X : Bytes) : Prop :=
  ∀ n, A.verify st.seq ((A.dec st.ds (X.take A.bs)).2 ++
        (A.dec (A.dec st.ds (X.take A.bs)).1 ((X.take n).drop A.bs)).2) ((X.drop n).take A.ms) = true →
    (A.dec st.ds (X.take A.bs)).2 ++ (A.dec (A.dec st.ds (X.take A.bs)).1 ((X.take n).drop A.bs)).2 = f.plain ∧
    (X.drop n).take A.ms = f.tag

def IsDisc (g : Got) : Prop := ∃ reason desc, g = Got.stop (Ev.disc reason desc)

/-- `getPacket` facing an altered packet never returns a payload: it waits or disconnects -/
theorem tamper_getPacket (A : RecvAlg σd σz) (hbs : 5 ≤ A.bs) (hA : DecInj A) (hms : A.ms ≠ 0)
    (st st' : St σd σz) (f : Frame) (hacc : Accepts A st f st')
    (w' post X : Bytes) (hunf : Unforgeable A st f X) (hX : X = w' ++ post) (hwl : w'.length = f.wire.length) (hw : w' ≠ f.wire)
    (r : Receiver σd σz) (fut : Bytes) (hbuf : r.buf ++ fut = X) (hseq : r.seq = st.seq)
    (hpre : Pre A st (X.take A.bs) r) :
    (∃ r', getPacket A r = (r', Got.wait) ∧ r'.buf = r.buf ∧ r'.seq = r.seq ∧ r'.gotVersion = r.gotVersion ∧
        Pre A st (X.take A.bs) r' ∧
        (r.buf.length < A.bs ∨ r.buf.length < beToNat ((A.dec st.ds (X.take A.bs)).2.take 4) + 4 + A.ms)) ∨
    (∃ r' reason desc, getPacket A r = (r', Got.stop (Ev.disc reason desc))) := by
  unfold getPacket
  unfold Unforgeable at hunf
  by_cases hlt : r.buf.length < A.bs
  · exact Or.inl ⟨r, by rw [if_pos hlt], rfl, rfl, rfl, hpre, Or.inl hlt⟩
  rw [if_neg hlt]
  have htake : r.buf.take A.bs = X.take A.bs := by
    rw [← hbuf, List.take_append_of_le_length (by omega)]
  rw [firstBlock_pre A st _ r hpre htake]
  generalize hfd : A.dec st.ds (X.take A.bs) = fd at *
  unfold getRest
  simp only []
  generalize hpl : beToNat (fd.2.take 4) = pl
  by_cases h1 : pl > 1048576
  · rw [if_pos h1]; exact Or.inr ⟨_, _, _, rfl⟩
  rw [if_neg h1]
  by_cases h2 : r.buf.length < pl + 4 + A.ms
  · rw [if_pos h2]
    exact Or.inl ⟨_, rfl, rfl, rfl, rfl, Or.inr ⟨by rw [hfd], by rw [hfd]⟩, Or.inr h2⟩
  rw [if_neg h2]
  by_cases h3 : (pl + 4) % A.bs ≠ 0
  · rw [if_pos h3]; exact Or.inr ⟨_, _, _, rfl⟩
  rw [if_neg h3]
  by_cases h4 : (fd.2 ++ (A.dec fd.1 ((r.buf.take (4 + pl)).drop A.bs)).2).length ≠ 4 + pl
  · rw [if_pos h4]; exact Or.inr ⟨_, _, _, rfl⟩
  rw [if_neg h4]
  by_cases h5 : A.verify r.seq (fd.2 ++ (A.dec fd.1 ((r.buf.take (4 + pl)).drop A.bs)).2)
      ((r.buf.drop (4 + pl)).take A.ms) = false
  · rw [if_pos ⟨hms, h5⟩]; exact Or.inr ⟨_, _, _, rfl⟩
  -- the MAC verified: impossible
  exfalso
  have hv : A.verify st.seq (fd.2 ++ (A.dec fd.1 ((r.buf.take (4 + pl)).drop A.bs)).2)
      ((r.buf.drop (4 + pl)).take A.ms) = true := by
    rw [← hseq]; cases hh : A.verify r.seq _ _ with
    | true => rfl
    | false => exact absurd hh h5
  have hbX1 : r.buf.take (4 + pl) = X.take (4 + pl) := by
    rw [← hbuf, List.take_append_of_le_length (by omega)]
  have hbX2 : (r.buf.drop (4 + pl)).take A.ms = (X.drop (4 + pl)).take A.ms := by
    rw [← hbuf, List.drop_append_of_le_length (by omega), List.take_append_of_le_length (by simp; omega)]
  rw [hbX1, hbX2] at hv
  obtain ⟨hp, hm⟩ := hunf (4 + pl) hv
  rw [← hbX1] at hp
  rw [← hbX2] at hm
  have hwl' := wire_length A st st' f hacc
  obtain ⟨hL, hmod, hbody, hplain, htag, hd1, hd2, _⟩ := hacc
  generalize hLdef : beToNat (f.plain.take 4) = L at *
  have hXlen : A.bs ≤ X.length := by rw [← hbuf]; simp; omega
  have hfdlen : fd.2.length = A.bs := by
    rw [← hfd, hA.dec_len _ _ (by rw [List.length_take, Nat.min_eq_left hXlen]; exact Nat.dvd_refl _),
      List.length_take, Nat.min_eq_left hXlen]
  obtain ⟨s1, s2⟩ := split_at hp hfdlen
  have hplL : pl = L := by
    rw [← hpl, s1, List.take_take, Nat.min_eq_left (by omega), hLdef]
  subst hplL
  have h3' : (pl + 4) % A.bs = 0 := by
    cases hh : (pl + 4) % A.bs with
    | zero => rfl
    | succ k => exact absurd (by omega) h3
  have hbsL : A.bs ≤ pl + 4 := bs_le_of_mod (by omega) h3'
  -- first block
  have hblk : X.take A.bs = f.body.take A.bs := by
    apply hA.dec_inj st.ds _ _ (by rw [List.length_take, Nat.min_eq_left hXlen]; exact Nat.dvd_refl _)
      (by rw [List.length_take, List.length_take, Nat.min_eq_left hXlen, Nat.min_eq_left (by omega)])
    rw [hfd, s1, hd1]
  have hfd1 : fd.1 = (A.dec st.ds (f.body.take A.bs)).1 := by rw [← hfd, hblk]
  -- the rest
  have hdvd : A.bs ∣ pl + 4 := Nat.dvd_of_mod_eq_zero h3'
  have hrest : (r.buf.take (4 + pl)).drop A.bs = f.body.drop A.bs := by
    apply hA.dec_inj fd.1 _ _
      (by rw [List.length_drop, List.length_take, Nat.min_eq_left (by omega)]
          have : 4 + pl - A.bs = pl + 4 - A.bs := by omega
          rw [this]; exact (Nat.dvd_sub hdvd (Nat.dvd_refl _)))
      (by rw [List.length_drop, List.length_drop, List.length_take, Nat.min_eq_left (by omega), hbody]; omega)
    rw [s2, hfd1, hd2]
  have henc : r.buf.take (4 + pl) = f.body := by
    rw [← List.take_append_drop A.bs (r.buf.take (4 + pl)), hrest, List.take_take,
      Nat.min_eq_left (by omega), htake, hblk, List.take_append_drop]
  have hwire : r.buf.take (4 + pl + A.ms) = f.wire := by
    rw [Frame.wire, ← henc, ← hm, ← List.take_add]
  have : w' = f.wire := by
    rw [← hwire]
    have h6 : X.take (4 + pl + A.ms) = w' := by
      rw [hX, List.take_append_of_le_length (by omega), List.take_of_length_le (by omega)]
    rw [← h6, ← hbuf, List.take_append_of_le_length (by omega)]
  exact hw this


def ChainTo (A : RecvAlg σd σz) : St σd σz → List Frame → St σd σz → Prop
  | st, [], e => st = e
  | st, f :: fs, e => ∃ st', Accepts A st f st' ∧ ChainTo A st' fs e

/-- where the receiver stands: inside the next honest packet, or (no honest packet left) in front of /
    inside the altered bytes `X` -/
def PosW (A : RecvAlg σd σz) (X : Bytes) (fs : List Frame) (st : St σd σz) (r : Receiver σd σz) : Prop :=
  match fs with
  | [] => Pre A st (X.take A.bs) r
  | f :: _ => Pre A st (f.body.take A.bs) r ∧ r.zs = st.zs

def Pos (A : RecvAlg σd σz) (X : Bytes) (fs : List Frame) (st : St σd σz) (r : Receiver σd σz) : Prop :=
  match fs with
  | [] => Pre A st (X.take A.bs) r ∧
      (r.buf.length < A.bs ∨ r.buf.length < beToNat ((A.dec st.ds (X.take A.bs)).2.take 4) + 4 + A.ms)
  | f :: _ => (Pre A st (f.body.take A.bs) r ∧ r.zs = st.zs) ∧ r.buf.length < f.wire.length

theorem Pos.weaken {A : RecvAlg σd σz} {X : Bytes} {fs : List Frame} {st : St σd σz} {r : Receiver σd σz}
    (h : Pos A X fs st r) : PosW A X fs st r := by
  cases fs with
  | nil => exact h.1
  | cons f fs => exact h.1

def TailOK (tl : List Ev) : Prop := tl = [] ∨ ∃ reason desc, tl = [Ev.disc reason desc]

theorem drain_tamper (A : RecvAlg σd σz) (hbs : 5 ≤ A.bs) (hA : DecInj A) (hms : A.ms ≠ 0)
    (e e' : St σd σz) (fa : Frame) (hacc : Accepts A e fa e')
    (w' post X : Bytes) (hunf : Unforgeable A e fa X) (hX : X = w' ++ post) (hwl : w'.length = fa.wire.length) (hw : w' ≠ fa.wire) :
    ∀ (fs : List Frame) (st : St σd σz) (r : Receiver σd σz) (fut : Bytes) (fuel : Nat),
      ChainTo A st fs e → r.seq = st.seq → r.buf ++ fut = wires fs ++ X → PosW A X fs st r →
      r.buf.length < fuel →
      ∃ (done rest : List Frame) (st' : St σd σz) (r' : Receiver σd σz) (tl : List Ev),
        fs = done ++ rest ∧ drain A fuel r = (r', evs done ++ tl) ∧
        ((tl = [] ∧ r'.gotVersion = r.gotVersion ∧ ChainTo A st' rest e ∧ r'.seq = st'.seq ∧ r'.buf ++ fut = wires rest ++ X ∧
            Pos A X rest st' r') ∨
         (rest = [] ∧ ∃ reason desc, tl = [Ev.disc reason desc])) := by
  intro fs
  induction fs with
  | nil =>
    intro st r fut fuel hc hseq hbuf hpos hfuel
    have hst : st = e := hc
    subst hst
    have hbuf' : r.buf ++ fut = X := by simpa [wires] using hbuf
    cases fuel with
    | zero => omega
    | succ k =>
      rcases tamper_getPacket A hbs hA hms st e' fa hacc w' post X hunf hX hwl hw r fut hbuf' hseq hpos with
        ⟨r', hg, hb', hs', hgv', hp', hshort⟩ | ⟨r', reason, desc, hg⟩
      · refine ⟨[], [], st, r', [], rfl, by simp [drain, hg, evs], Or.inl ⟨rfl, hgv', rfl, by rw [hs', hseq], ?_, ?_⟩⟩
        · rw [hb']; exact hbuf
        · exact ⟨hp', by rw [hb']; exact hshort⟩
      · exact ⟨[], [], st, r', [Ev.disc reason desc], rfl, by simp [drain, hg, evs], Or.inr ⟨rfl, _, _, rfl⟩⟩
  | cons f fs ih =>
    intro st r fut fuel hc hseq hbuf hpos hfuel
    obtain ⟨st1, hacc1, hc1⟩ := hc
    have hwl1 := wire_length A st st1 f hacc1
    obtain ⟨hpre0, hzs⟩ := hpos
    rw [wires_cons, List.append_assoc] at hbuf
    cases fuel with
    | zero => omega
    | succ k =>
    by_cases hlt : r.buf.length < f.wire.length
    · obtain ⟨r', hg, hb', hs', hz', hgv', hp'⟩ :=
        getPacket_partial A hbs st st1 f hacc1 r r.buf.length hlt (prefix_take hbuf hlt) hpre0
      refine ⟨[], f :: fs, st, r', [], rfl, by simp [drain, hg, evs],
        Or.inl ⟨rfl, hgv', ⟨st1, hacc1, hc1⟩, by rw [hs', hseq], ?_, ?_⟩⟩
      · rw [hb', wires_cons, List.append_assoc]; exact hbuf
      · exact ⟨⟨hp', by rw [hz', hzs]⟩, by rw [hb']; exact hlt⟩
    · obtain ⟨tail, hb, ht⟩ := prefix_split hbuf (by omega)
      have hb2 : r.buf = f.body ++ (f.tag ++ tail) := by rw [hb, Frame.wire, List.append_assoc]
      have hg := getPacket_complete A hbs st st1 f hacc1 r tail hb2 hseq hzs hpre0
      have hlen : r.buf.length = f.wire.length + tail.length := by rw [hb]; simp
      have hout := hacc1.2.2.2.2.2.2.2.2.2.1
      obtain ⟨done, rest, st', r', tl, hfs, hdr, hcase⟩ :=
        ih st1 { r with buf := tail, first := none, seq := st1.seq, ds := st1.ds, zs := st1.zs } fut k hc1 rfl ht
          (by cases fs with
              | nil => exact Or.inl ⟨rfl, rfl⟩
              | cons g gs => exact ⟨Or.inl ⟨rfl, rfl⟩, rfl⟩) (by simp only []; omega)
      refine ⟨f :: done, rest, st', r', tl, by rw [hfs]; rfl, ?_, hcase⟩
      cases hfo : f.out with
      | nil => exact absurd hfo hout
      | cons t p =>
        rw [hfo] at hg
        simp [drain, hg, hdr, evs_cons, Frame.ev, hfo]


theorem feed_tamper (A : RecvAlg σd σz) (hbs : 5 ≤ A.bs) (hA : DecInj A) (hms : A.ms ≠ 0)
    (e e' : St σd σz) (fa : Frame) (hacc : Accepts A e fa e')
    (w' post X : Bytes) (hunf : Unforgeable A e fa X) (hX : X = w' ++ post) (hwl : w'.length = fa.wire.length) (hw : w' ≠ fa.wire) :
    ∀ (segs : List Bytes) (fs : List Frame) (st : St σd σz) (r : Receiver σd σz),
      ChainTo A st fs e → r.gotVersion = true → r.seq = st.seq → r.buf ++ segs.flatten = wires fs ++ X →
      Pos A X fs st r →
      ∃ tl, feedAll A r segs = evs fs ++ tl ∧
        ((tl = [] ∧ (X.length < A.bs ∨ X.length < beToNat ((A.dec e.ds (X.take A.bs)).2.take 4) + 4 + A.ms)) ∨
         (∃ reason desc, tl = [Ev.disc reason desc])) := by
  intro segs
  induction segs with
  | nil =>
    intro fs st r hc hgv hseq hbuf hpos
    cases fs with
    | nil =>
      have hst : st = e := hc
      subst hst
      have hb : r.buf = X := by simpa [wires] using hbuf
      exact ⟨[], by simp [feedAll, evs], Or.inl ⟨rfl, by have := hpos.2; rw [hb] at this; exact this⟩⟩
    | cons f rest =>
      exfalso
      have := hpos.2
      have h2 := congrArg List.length hbuf
      simp [wires_cons] at h2
      omega
  | cons d ds ih =>
    intro fs st r hc hgv hseq hbuf hpos
    have hbuf' : ({ r with buf := r.buf ++ d } : Receiver σd σz).buf ++ ds.flatten = wires fs ++ X := by
      simpa [List.append_assoc] using hbuf
    have hposW : PosW A X fs st { r with buf := r.buf ++ d } := by
      have := hpos.weaken
      cases fs with
      | nil => exact this
      | cons g gs => exact this
    obtain ⟨done, rest, st', r', tl, hfs, hdr, hcase⟩ :=
      drain_tamper A hbs hA hms e e' fa hacc w' post X hunf hX hwl hw fs st { r with buf := r.buf ++ d }
        ds.flatten ((r.buf ++ d).length + 1) hc hseq hbuf' hposW (by simp only []; omega)
    have hdr' : dataReceived A r d = (r', evs done ++ tl) := by
      unfold dataReceived
      simp only [hgv, if_true]
      rw [← hgv]
      exact hdr
    rcases hcase with ⟨htl, hgv', hc', hs', hb', hp'⟩ | ⟨hrest, reason, desc, htl⟩
    · subst htl
      obtain ⟨tl2, hfeed, hcase2⟩ := ih rest st' r' hc' (by rw [hgv']; exact hgv) hs' hb' hp'
      refine ⟨tl2, ?_, hcase2⟩
      simp only [feedAll, hdr', List.append_nil, evs_no_disc, Bool.false_eq_true, if_false, hfeed, hfs,
        evs_append, List.append_assoc]
    · -- a disconnect in this delivery: nothing is fed afterwards
      subst hrest; subst htl
      refine ⟨[Ev.disc reason desc], ?_, Or.inr ⟨_, _, rfl⟩⟩
      simp only [feedAll, hdr', List.any_append, List.any_cons, Ev.isDisc, Bool.true_or, Bool.or_true, if_true,
        hfs, List.append_nil]

end TwistedProps.C35
