import TwistedProps.C02.Quiet
import TwistedProps.C02.Chain
import TwistedProps.C02.Explicit
import TwistedProps.C02.Inner
import TwistedProps.C02.Inline
import TwistedProps.C02.Plain
/-!
C02 — Deferred chaining depth never exhausts the stack.

Statement (fixed): a chain of any length in which each Deferred's callback returns the next
Deferred, and an inlineCallbacks generator or coroutine that awaits any number of already-fired
Deferreds, completes without a RecursionError; stack usage of firing such chains does not grow
with their length.

Model: `TwistedModel/Defer/Depth.lean` — `_runCallbacks` (with its explicit `chain` list),
`_inlineCallbacks` (with its `waiting` cell) and `Deferred.__iter__`, every function carrying the
depth `D` of the Python frame it stands for; `maxDepth` is the deepest frame entered, `probes` the
depths at which the probe callbacks ran.  "No RecursionError" = "`maxDepth` is bounded by a
constant that does not depend on the length"; "completes" = the run does not need more than a
linear amount of fuel (`oof = false`), every probe ran, the final results are in place.

PARTIAL BY NATURE: CPython frames are abstracted to this counter (one unit per Python-level
activation on the path; leaf helpers and C calls not counted).  The correspondence check compares
the counter with the real number of frames (`sys._getframe` walk) on every run.
-/
namespace TwistedProps.C02
open Twisted.Defer.Depth

/-! ### 1. No nesting at all, for every heap, every schedule, every fuel -/

/-- **Depth invariant.**  Take ANY heap of Deferreds (fired or not, paused or not, waiting on each
    other in any way) whose callbacks only probe, return a Deferred, return a value or raise, and
    ANY sequence of `callback` / `errback` / `pause` / `unpause` / `addBoth` operations (any
    firing order, success or failure), with any fuel: no frame deeper than 4 is ever entered and
    every probe runs at depth ≤ 4.  Chains of callbacks returning Deferreds never recurse,
    whatever their length and build order. -/
theorem callbacks_returning_deferreds_depth_le_4 (fuel : Nat) (st : St) (ops : List Op)
    (hheap : ∀ i, ∀ cb ∈ (st.get i).callbacks, quietCb cb = true)
    (hops : ∀ op ∈ ops, quietOp op = true)
    (hd : st.maxDepth ≤ 4) (hp : ∀ p ∈ st.probes, p ≤ 4) :
    (exec fuel st ops).maxDepth ≤ 4 ∧ ∀ p ∈ (exec fuel st ops).probes, p ≤ 4 :=
  let h := exec_ok fuel ops st ⟨hheap, hd, hp⟩ hops
  ⟨h.depth, h.probes⟩

/-- the same inside one activation of `_runCallbacks` at any depth `D`: only `D+1` is entered -/
theorem runCallbacks_enters_only_next_frame (fuel D self K : Nat) (st : St)
    (hheap : ∀ i, ∀ cb ∈ (st.get i).callbacks, quietCb cb = true)
    (hd : st.maxDepth ≤ K) (hp : ∀ p ∈ st.probes, p ≤ K) (hK : D + 1 ≤ K) :
    (runCallbacks fuel D self st).maxDepth ≤ K :=
  (runCallbacks_ok fuel D self st ⟨hheap, hd, hp⟩ hK).depth

/-- non-vacuity: a 3-chain, fired outer first, with a failure -/
example : (exec 30 (chainHeap 3) (outerFirstOps 3 true)).maxDepth = 4
    ∧ (exec 30 (chainHeap 3) (outerFirstOps 3 true)).probes = [4, 4, 4, 4] := by decide +kernel

theorem chainHeap_quiet (n : Nat) : ∀ i, ∀ cb ∈ ((chainHeap n).get i).callbacks, quietCb cb = true := by
  intro i cb hcb
  by_cases hi : i ≤ n
  · rw [chainHeap_get n i hi] at hcb
    unfold chainDfd at hcb
    split at hcb <;> simp at hcb <;> rcases hcb with rfl | rfl <;> rfl
  · have hnone : (chainHeap n).heap[i]? = none :=
      Array.getElem?_eq_none (by rw [chainHeap_size]; omega)
    have : (chainHeap n).get i = default := by
      simp [St.get, Array.getD_eq_getD_getElem?, hnone]
    rw [this] at hcb
    cases hcb

theorem outerFirstOps_quiet (n : Nat) (failure : Bool) : ∀ op ∈ outerFirstOps n failure, quietOp op = true := by
  intro op hop
  simp only [outerFirstOps, List.mem_append, List.mem_map, List.mem_singleton] at hop
  rcases hop with ⟨i, _, rfl⟩ | rfl
  · rfl
  · cases failure <;> rfl

/-! ### 2. The chains complete — every length, both build orders, success and failure -/

/-- what the last Deferred is fired with -/
def outcome (failure : Bool) : Res := if failure then .fail 5 else .val 5

/-- **Outer fired first.**  `d_0, …, d_{n-1}` are fired in that order (each one's callback returns
    the next, still unfired, Deferred: it pauses and waits), then `d_n` is fired with a value or a
    failure.  For every `n`, with fuel `5n+6` or more per operation: the run completes, all `n+1`
    probes run at depth exactly 4, `d_0` ends with the outcome, every other Deferred with `None`,
    nothing is left paused or pending, and no frame deeper than 4 was entered. -/
theorem chain_outer_first_completes (n extra : Nat) (failure : Bool) :
    let st := exec (extra + 5*n + 6) (chainHeap n) (outerFirstOps n failure)
    st.oof = false ∧ st.raised = 0 ∧ st.probes = List.replicate (n+1) 4 ∧ st.maxDepth ≤ 4 ∧
    st.get 0 = { called := true, result := outcome failure } ∧
    (∀ j, 0 < j → j ≤ n → st.get j = { called := true, result := .val 0 }) := by
  intro st
  have hd : st.maxDepth ≤ 4 :=
    (callbacks_returning_deferreds_depth_le_4 _ (chainHeap n) _ (chainHeap_quiet n)
      (outerFirstOps_quiet n failure) (Nat.zero_le _) (by intro p hp; cases hp)).1
  have hlink : Linked n n (exec (extra + 5*n + 6) (chainHeap n) ((List.range n).map fun i => Op.fire i 1)) := by
    have e : extra + 5*n + 6 = (extra + 5*n + 1) + 5 := by omega
    rw [e]; exact linked_prefix n _ n (Nat.le_refl n)
  have hr : (outcome failure).isDfd = false := by cases failure <;> rfl
  have hlast := fire_last n extra (outcome failure) hr _ hlink
  have hst : st = (fireD (extra + (5*n+6)) 1 n (outcome failure)
      (exec (extra + 5*n + 6) (chainHeap n) ((List.range n).map fun i => Op.fire i 1))).1 := by
    show exec _ _ (outerFirstOps n failure) = _
    unfold outerFirstOps
    rw [exec_append]
    have e : extra + 5*n + 6 = extra + (5*n+6) := by omega
    rw [e]
    rw [exec_singleton]
    have h2 := hlast.2
    cases failure
    · exact step_fire_ok _ n 5 _ h2
    · exact step_fail_ok _ n 5 _ h2
  have hc := hlast.1
  rw [← hst] at hc
  refine ⟨hc.oof, hc.raised, hc.probes, hd, ?_, ?_⟩
  · rw [hc.all 0 (Nat.zero_le _)]; rfl
  · intro j h0 hj
    rw [hc.all j hj]
    have : j ≠ 0 := by omega
    simp [done, this]

/-- non-vacuity: length 4, failing outcome, exactly the fuel of the theorem — computed by the kernel -/
example : (exec 26 (chainHeap 4) (outerFirstOps 4 true)).probes = List.replicate 5 4
    ∧ (exec 26 (chainHeap 4) (outerFirstOps 4 true)).get 0 = { called := true, result := .fail 5 } := by
  decide +kernel

theorem innerFirstOps_quiet (n : Nat) (failure : Bool) : ∀ op ∈ innerFirstOps n failure, quietOp op = true := by
  intro op hop
  simp only [innerFirstOps, List.mem_cons, List.mem_map] at hop
  rcases hop with rfl | ⟨i, _, rfl⟩
  · cases failure <;> rfl
  · rfl

/-- **Inner fired first.**  `d_n` is fired first (value or failure), then `d_{n-1}, …, d_0`: each
    callback returns a Deferred that already has a result, which is taken over on the spot.  For
    every `n`, fuel 7 or more per operation: same conclusion as for the other build order. -/
theorem chain_inner_first_completes (n extra : Nat) (failure : Bool) :
    let st := exec (extra + 7) (chainHeap n) (innerFirstOps n failure)
    st.oof = false ∧ st.raised = 0 ∧ st.probes = List.replicate (n+1) 4 ∧ st.maxDepth ≤ 4 ∧
    st.get 0 = { called := true, result := outcome failure } ∧
    (∀ j, 0 < j → j ≤ n → st.get j = { called := true, result := .val 0 }) := by
  intro st
  have hd : st.maxDepth ≤ 4 :=
    (callbacks_returning_deferreds_depth_le_4 _ (chainHeap n) _ (chainHeap_quiet n)
      (innerFirstOps_quiet n failure) (Nat.zero_le _) (by intro p hp; cases hp)).1
  have hr : (outcome failure).isDfd = false := by cases failure <;> rfl
  have hr0 : outcome failure ≠ .none := by cases failure <;> simp [outcome]
  have hfirst := fire_innermost n extra (outcome failure) hr
  have hstep : step (extra + 7) (chainHeap n) (lastOp n failure)
      = (fireD (extra + 7) 1 n (outcome failure) (chainHeap n)).1 := by
    have h2 := hfirst.2
    cases failure
    · exact step_fire_ok _ n 5 _ h2
    · exact step_fail_ok _ n 5 _ h2
  have hall : Stolen n 0 (outcome failure) st := by
    show Stolen n 0 _ (exec _ (step (extra + 7) (chainHeap n) (lastOp n failure)) _)
    rw [hstep]
    exact steal_all n extra (outcome failure) hr0 hr n _ (Nat.le_refl n) hfirst.1
  refine ⟨hall.oof, hall.raised, by rw [hall.probes, Nat.sub_zero], hd, hall.here, ?_⟩
  intro j h0 hj
  exact hall.above j h0 hj

/-- non-vacuity: length 4, success, exactly the fuel of the theorem -/
example : (exec 7 (chainHeap 4) (innerFirstOps 4 false)).probes = List.replicate 5 4
    ∧ (exec 7 (chainHeap 4) (innerFirstOps 4 false)).get 0 = { called := true, result := .val 5 } := by
  decide +kernel

/-! ### 3. Generators and coroutines over already-fired Deferreds -/

/-- **Coroutine awaiting `n` already-fired Deferreds** (`Deferred.fromCoroutine(co())`, then a probe
    is added to the returned Deferred).  For every `n` and EVERY pattern of successes and failures
    among the awaited Deferreds, fuel `n+8` or more: the coroutine completes inside its first
    `send`, each of its `n` probes runs at depth exactly 5, the returned Deferred holds the
    coroutine's return value (its probe runs at depth 3), nothing raises. -/
theorem coroutine_prefired_depth_bounded (n extra : Nat) (fails : Nat → Bool) :
    let st := exec (extra + n + 8) (prefiredHeap n fails true) (prefiredOps n)
    st.oof = false ∧ st.raised = 0 ∧ st.probes = 3 :: List.replicate n 5 ∧
    (∀ p ∈ st.probes, p ≤ 5) ∧ st.get n = { called := true, result := .val 7 } := by
  intro st
  obtain ⟨s1, e1, hs1, hg1, hp1, ho1, hr1⟩ := coro_start n extra fails
  have e : extra + n + 8 = (extra + n + 2) + 6 := by omega
  obtain ⟨s2, e2, _, hg2, _, hp2, ho2, hr2⟩ :=
    add_probe_fired (extra + n + 2) n (.val 7) rfl s1 (by omega) hg1
  have hst : st = s2 := by
    show exec _ (step (extra + n + 8) _ (.start 0)) [.add n .probe] = s2
    rw [e1, exec_singleton, e, e2]
  have hprobes : st.probes = 3 :: List.replicate n 5 := by rw [hst, hp2, hp1]
  refine ⟨by rw [hst, ho2, ho1], by rw [hst, hr2, hr1], hprobes, ?_, by rw [hst, hg2]⟩
  intro p hp
  rw [hprobes] at hp
  rcases List.mem_cons.mp hp with rfl | hp
  · omega
  · rw [List.eq_of_mem_replicate hp]; omega

/-- non-vacuity: four awaits, the 2nd and 4th Deferred failed -/
example : (exec 12 (prefiredHeap 4 (fun i => i % 2 = 1) true) (prefiredOps 4)).probes = [3, 5, 5, 5, 5] := by
  decide +kernel

/-- **Generator yielding `n` already-fired Deferreds** (`@inlineCallbacks`, `r = yield d_i`).  Every
    yield goes through `_inlineCallbacks`: `addBoth(_gotResultInlineCallbacks)` fires at once, finds
    the `waiting` cell armed, parks the result, and the `while` loop goes round again in the same
    frame.  For every `n` and EVERY pattern of successes and failures, fuel `n+8` or more: the
    call completes, exactly `n` probes ran inside the generator, each at depth 5 (value sent) or 6
    (failure thrown through `throwExceptionIntoGenerator`), the returned Deferred holds the return
    value and its own probe runs at depth 3.  Nothing depends on `n`. -/
theorem inline_prefired_depth_bounded (n extra : Nat) (fails : Nat → Bool) :
    let st := exec (extra + n + 8) (prefiredHeap n fails false) (prefiredOps n)
    st.oof = false ∧ st.raised = 0 ∧ st.probes.length = n + 1 ∧
    (∀ p ∈ st.probes, p ≤ 6) ∧ st.get n = { called := true, result := .val 7 } := by
  intro st
  have e0 : extra + n + 8 = (extra + 1) + n + 7 := by omega
  obtain ⟨s1, e1, hd⟩ := gen_start n (extra + 1) fails
  have e : extra + n + 8 = (extra + n + 2) + 6 := by omega
  obtain ⟨s2, e2, _, hg2, _, hp2, ho2, hr2⟩ :=
    add_probe_fired (extra + n + 2) n (.val 7) rfl s1 (by rw [hd.size]; omega) hd.out
  have hst : st = s2 := by
    show exec _ (step (extra + n + 8) _ (.start 0)) [.add n .probe] = s2
    rw [e0, e1, exec_singleton, ← e0, e, e2]
  refine ⟨by rw [hst, ho2, hd.oof], by rw [hst, hr2, hd.raised], by rw [hst, hp2]; simp [hd.count], ?_,
    by rw [hst, hg2]⟩
  intro p hp
  rw [hst, hp2] at hp
  rcases List.mem_cons.mp hp with rfl | hp
  · omega
  · rcases hd.pb p hp with rfl | rfl <;> omega

/-- non-vacuity: four yields, the 2nd and 4th Deferred failed: depths 5, 6, 5, 6 then 3 (newest first) -/
example : (exec 12 (prefiredHeap 4 (fun i => i % 2 = 1) false) (prefiredOps 4)).probes = [3, 6, 5, 6, 5] := by
  decide +kernel

/-- **Generator yielding `n` things that are not Deferreds** (`r = yield 5`; "things that are not
    Deferreds may also be yielded, and your generator will be resumed with the same object sent
    back").  `_inlineCallbacks` finds `isDeferred` false and goes round its `while 1:` again in the
    same frame — it must not call itself.  For every `n`, fuel `n+9` or more: the call completes,
    exactly `n` probes ran inside the generator, each at depth exactly 5, the returned Deferred
    holds the return value and its own probe runs at depth 3.  (Mixtures of plain yields with
    already-fired / unfired Deferreds are in the model and are tied to the implementation by the
    correspondence check — families `genplain`, random programs —, but no theorem quantifies over
    them: `inline_prefired_depth_bounded` is all-Deferreds, this one all-plain.) -/
theorem inline_plain_yields_depth_bounded (n extra : Nat) :
    let st := exec (extra + n + 9) (plainHeap n) plainOps
    st.oof = false ∧ st.raised = 0 ∧ st.probes = 3 :: List.replicate n 5 ∧
    (∀ p ∈ st.probes, p ≤ 5) ∧ st.get 0 = { called := true, result := .val 7 } := by
  intro st
  have e0 : extra + n + 9 = (extra + 1) + n + 8 := by omega
  obtain ⟨s1, e1, hs1, hg1, hp1, ho1, hr1⟩ := plain_start n (extra + 1)
  have e : extra + n + 9 = (extra + n + 3) + 6 := by omega
  obtain ⟨s2, e2, _, hg2, _, hp2, ho2, hr2⟩ :=
    add_probe_fired (extra + n + 3) 0 (.val 7) rfl s1 (by omega) hg1
  have hst : st = s2 := by
    show exec _ (step (extra + n + 9) _ (.start 0)) [.add 0 .probe] = s2
    rw [e0, e1, exec_singleton, ← e0, e, e2]
  have hprobes : st.probes = 3 :: List.replicate n 5 := by rw [hst, hp2, hp1]
  refine ⟨by rw [hst, ho2, ho1], by rw [hst, hr2, hr1], hprobes, ?_, by rw [hst, hg2]⟩
  intro p hp
  rw [hprobes] at hp
  rcases List.mem_cons.mp hp with rfl | hp
  · omega
  · rw [List.eq_of_mem_replicate hp]; omega

/-- non-vacuity: four plain yields, exactly the fuel of the theorem -/
example : (exec 13 (plainHeap 4) plainOps).probes = [3, 5, 5, 5, 5]
    ∧ (exec 13 (plainHeap 4) plainOps).get 0 = { called := true, result := .val 7 } := by
  decide +kernel

/-- non-vacuity of the mixture (not covered by a ∀-theorem): Deferred, 5, failed Deferred, None -/
example : (exec 40 { heap := #[{ called := true, result := .val 1 }, { called := true, result := .fail 3 }, {}]
                     gens := #[{ items := [.yieldD 0, .yieldV 5, .yieldD 1, .yieldV 0], out := 2 }] }
            [.start 0, .add 2 .probe]).probes = [3, 5, 6, 5, 5] := by
  decide +kernel

/-! ### 4. Negative control: the counter is not trivially constant -/

/-- **Explicit `chainDeferred` chains recurse linearly** (as the docstring of `chainDeferred` warns):
    `d_i.callbacks = [probe, d_{i+1}.callback]`, `d_0.callback(5)`.  For every `n` the probes run at
    depths `4, 7, …, 3n+4` (newest first in the log), so the deepest frame grows with the length. -/
theorem chainDeferred_depth_linear (n extra : Nat) :
    let st := exec (extra + 6*(n+1)) (explicitHeap n) [.fire 0 5]
    st.oof = false ∧ st.raised = 0 ∧
    st.probes = (List.range (n+1)).reverse.map (fun t => 3*t + 4) ∧
    st.probes.head? = some (3*n + 4) := by
  intro st
  obtain ⟨s, e, _, _, hp, ho, hr⟩ :=
    explicit_nest n (.val 5) rfl n 0 1 extra (explicitHeap n) (by omega)
      (by rw [explicitHeap_size]; omega) (fun j _ hj => explicitHeap_get n j hj)
  have hst : st = s := by
    show exec _ _ [.fire 0 5] = s
    rw [exec_singleton, step_fire_ok _ 0 5 _ (by rw [e]), e]
  have hprobes : st.probes = (List.range (n+1)).reverse.map (fun t => 3*t + 4) := by
    rw [hst, hp]
    show stairs 1 n ++ [] = _
    rw [List.append_nil]
    unfold stairs
    apply List.map_congr_left
    intro t _; omega
  refine ⟨by rw [hst, ho]; rfl, by rw [hst, hr]; rfl, hprobes, ?_⟩
  rw [hprobes, List.range_succ]
  simp

/-- non-vacuity: five links nest down to depth 16 -/
example : (exec 36 (explicitHeap 4) [.fire 0 5]).probes = [16, 13, 10, 7, 4]
    ∧ (exec 36 (explicitHeap 4) [.fire 0 5]).maxDepth = 16 := by decide +kernel

end TwistedProps.C02
