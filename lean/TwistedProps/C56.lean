import TwistedProps.C56.Keys
import TwistedProps.C56.Reent
/-!
C56 — flattened and JSON-serialized log events format like the original.

Statement (properties.jsonl): for any event whose format string references its fields (attribute and
index lookups, conversions, format specs, call syntax) and whose values format deterministically,
formatting the event after `flattenEvent`, and after `eventAsJSON`/`eventFromJSON`, gives the same text
as formatting the original event.

Model: `TwistedModel/Log/FlatFormat.lean` (the code after the fix recorded in known-findings.txt:
`flattenEvent` resolves fields like `formatWithCall` and keeps `!a`).

Proved here, for EVERY format string, event, and `str`/`repr`/`ascii`/`format` oracle:
  * `flat_equals_original_partial`, `json_equals_original_partial` — the property for format
    strings none of whose replacement fields carries a format spec.  Hypotheses (all decidable /
    explicit): the event has a text `log_format` and is not flattened yet; `specFree`; the original
    formats to a text at all (lookups, calls and conversions succeed: "references its fields");
    the oracle satisfies `format(v, "") = str(v)`.
  * `spec_dropped_counterexample` — the statement without `specFree` is FALSE for the code as it is
    (`{n:05d}`, n = 42: `00042` vs `42`): finding `format-spec-dropped`.
  * `custom_format_counterexample` — the oracle hypothesis cannot be dropped either
    (finding `custom-format-ignored`).
  * re-entrant field values (added after seeded change C56-2 was missed): `flatteners_are_private`,
    `reentrant_flat_equals_original_partial`, `reentrant_json_equals_original_partial`,
    `hooks_flat_and_json_equal_original_partial` — the same property when evaluating a field value runs the flatten
    machinery again (model `TwistedModel/Log/FlatReent.lean`: every `KeyFlattener()` is an allocation in an explicit
    heap; lemmas in `TwistedProps/C56/Reent.lean`).
  * histories (added after the white-box mutation audit, harness/mutants/C56): `flattenEvent_idem` — an event whose
    `log_flattened` already lets the format string format is left exactly as it is, no field is looked up again;
    `any_history_equals_original_partial` — after ANY sequence of `flattenEvent` / `eventAsJSON`+`eventFromJSON` steps
    (flattened twice, flattened then serialized, serialized twice by a forwarding observer, loaded and flattened
    again, …) every step succeeds and the event formats to the original text.
Missing for full strength: fields with a format spec (the code drops the spec; see DESIGN §7.8).

Proof: one induction over the parsed items that runs the original formatter, the `flattenEvent`
loop and the `flatFormat` loop in lockstep (`lockstep`), with the invariant that every
flattened-shape key `name!c:[/n]` (c ∈ s,r,a) present in the fields dict holds
`str/repr/ascii` of the value `name` resolves to; `name!:[/n]` keys (the structured values) can never
collide with those (`mk_inj`), and the `/n` counters of both loops agree on flattened-shape keys.
-/
namespace TwistedProps.C56
open Twisted.Log.FlatFormat Twisted.Log.FlatReent

def okc (c : Char) : Prop := c = 's' ∨ c = 'r' ∨ c = 'a'

theorem okc_nobang (c : Char) (h : okc c) : '!' ∉ [c] := by
  rcases h with h | h | h <;> subst h <;> decide

def FlatKey (k name : Text) (c : Char) : Prop := okc c ∧ ∃ sfx, ':' ∉ sfx ∧ k = mk name [c] sfx

def Inv (O : Ops) (ev fs : Dict) : Prop :=
  ∀ k name c val, FlatKey k name c → lookup fs k = some val →
    ∃ v, getField ev name = .ok v ∧ val = .text (convText O c v)

def Pres (fs fs' : Dict) : Prop :=
  ∀ k name c val, FlatKey k name c → lookup fs k = some val → lookup fs' k = some val

def PresT (fs fsF : Dict) : Prop :=
  ∀ k name c t, FlatKey k name c → lookup fs k = some (.text t) → lookup fsF k = some (.text t)

def SpecFree (items : List Item) : Prop := ∀ it ∈ items, ∀ f, it.field = some f → f.spec = []

def CountsAgree (csF csL : Counts) : Prop :=
  ∀ name c, okc c → count csF (baseKey name [] [c]) = count csL (baseKey name [] [c])

def origField (O : Ops) (ev : Dict) (f : Field) : Except Err Text :=
  (vfield ev f.name).bind fun v =>
  (convert O v f.conv).bind fun cv =>
  (vformat O ev 2 f.spec).bind fun sp =>
  O.fmt cv sp

theorem fmtItems_cons (O : Ops) (ev : Dict) (it : Item) (rest : List Item) (ok : Bool) :
    fmtItems O ev (vformat O ev 2) (it :: rest) ok =
      ((match it.field with
        | none => (.ok [] : Except Err Text)
        | some f => origField O ev f).bind fun t =>
       (fmtItems O ev (vformat O ev 2) rest ok).bind fun r => .ok (it.lit ++ t ++ r)) := by
  cases h : it.field <;> simp [fmtItems, h, origField]

theorem expand_nil (O : Ops) (ev : Dict) : vformat O ev 2 [] = .ok [] := by
  rfl

theorem bind_ok {α β : Type} (x : Except Err α) (f : α → Except Err β) (b : β)
    (h : x.bind f = .ok b) : ∃ a, x = .ok a ∧ f a = .ok b := by
  cases x with
  | error e => simp [Except.bind] at h
  | ok a => exact ⟨a, rfl, h⟩

theorem strOf_text (O : Ops) (t : Text) : strOf O (.text t) = t := rfl

theorem orig_field (O : Ops) (hfmt : ∀ v, O.fmt v [] = .ok (strOf O v)) (v : Val) (conv : Option Char)
    (t : Text) (h : (convert O v conv).bind (fun cv => O.fmt cv []) = .ok t) :
    okc (flatConv conv) ∧ convOr conv = [flatConv conv] ∧ t = convText O (flatConv conv) v := by
  cases conv with
  | none =>
    simp only [convert, Except.bind, hfmt, Except.ok.injEq] at h
    simp [flatConv, convOr, convText, okc, h]
  | some x =>
    by_cases hs : x = 's'
    · subst hs
      simp only [convert, Except.bind, hfmt, if_true, Except.ok.injEq, strOf_text] at h
      simp [flatConv, convOr, convText, okc, h]
    · by_cases hr : x = 'r'
      · subst hr
        simp [convert, Except.bind, hfmt, strOf_text] at h
        simp [flatConv, convOr, convText, okc, h]
      · by_cases ha : x = 'a'
        · subst ha
          simp [convert, Except.bind, hfmt, strOf_text] at h
          simp [flatConv, convOr, convText, okc, h]
        · simp [convert, Except.bind, hs, hr, ha] at h


theorem flattenLoop_none (O : Ops) (ev : Dict) (it : Item) (rest : List Item) (ok : Bool) (cs : Counts) (fs : Dict)
    (h : it.field = none) : flattenLoop O ev (it :: rest) ok cs fs = flattenLoop O ev rest ok cs fs := by
  simp [flattenLoop, h]

theorem flattenLoop_some (O : Ops) (ev : Dict) (it : Item) (rest : List Item) (ok : Bool) (cs : Counts) (fs : Dict)
    (f : Field) (h : it.field = some f) (hs : f.spec = []) :
    flattenLoop O ev (it :: rest) ok cs fs =
      if (lookup fs (flatKey cs f.name [] [flatConv f.conv]).1).isSome then
        flattenLoop O ev rest ok (flatKey (flatKey cs f.name [] [flatConv f.conv]).2 f.name [] []).2 fs
      else
        (getField ev f.name).bind fun v =>
          flattenLoop O ev rest ok (flatKey (flatKey cs f.name [] [flatConv f.conv]).2 f.name [] []).2
            (dictSet (dictSet fs (flatKey cs f.name [] [flatConv f.conv]).1 (.text (convText O (flatConv f.conv) v)))
              (flatKey (flatKey cs f.name [] [flatConv f.conv]).2 f.name [] []).1 v) := by
  simp [flattenLoop, h, hs]

theorem flatLoop_none (O : Ops) (fs : Dict) (it : Item) (rest : List Item) (ok : Bool) (cs : Counts)
    (h : it.field = none) :
    flatLoop O fs (it :: rest) ok cs = (flatLoop O fs rest ok cs).bind fun r => .ok (it.lit ++ r) := by
  simp [flatLoop, h]

theorem flatLoop_some (O : Ops) (fs : Dict) (it : Item) (rest : List Item) (ok : Bool) (cs : Counts)
    (f : Field) (h : it.field = some f) (hs : f.spec = []) (v : Val)
    (hl : lookup fs (flatKey cs f.name [] (convOr f.conv)).1 = some v) :
    flatLoop O fs (it :: rest) ok cs =
      (flatLoop O fs rest ok (flatKey cs f.name [] (convOr f.conv)).2).bind fun r => .ok (it.lit ++ strOf O v ++ r) := by
  simp [flatLoop, h, hs, hl]

theorem structKey_not_flat (name : Text) (n : Nat) (name' : Text) (c' : Char) :
    ¬ FlatKey (mk name [] (suffix n)) name' c' := by
  rintro ⟨hc, sfx, hs, he⟩
  have := mk_inj _ _ _ _ _ _ (colon_not_in_suffix n) hs (by simp) (okc_nobang c' hc) he
  simp at this

theorem flatKey_unique (k name name' : Text) (c c' : Char) (h : FlatKey k name c) (h' : FlatKey k name' c') :
    name = name' ∧ c = c' := by
  obtain ⟨hc, sfx, hs, he⟩ := h
  obtain ⟨hc', sfx', hs', he'⟩ := h'
  have := mk_inj _ _ _ _ _ _ hs hs' (okc_nobang c hc) (okc_nobang c' hc') (he.symm.trans he')
  exact ⟨this.1, by simpa using this.2.1⟩

theorem lockstep (O : Ops) (ev : Dict) (hfmt : ∀ v, O.fmt v [] = .ok (strOf O v)) (ok : Bool) (items : List Item) :
    ∀ (csF csL : Counts) (fs : Dict) (out : Text),
      SpecFree items → CountsAgree csF csL → Inv O ev fs →
      fmtItems O ev (vformat O ev 2) items ok = .ok out →
      ∃ fs', flattenLoop O ev items ok csF fs = .ok fs' ∧ Inv O ev fs' ∧ Pres fs fs' ∧
        (fs ≠ [] → fs' ≠ []) ∧ ((∃ it ∈ items, it.field.isSome = true) → fs' ≠ []) ∧
        ∀ fsF, PresT fs' fsF → flatLoop O fsF items ok csL = .ok out := by
  induction items with
  | nil =>
    intro csF csL fs out _ _ hinv h
    cases ok with
    | false => simp [fmtItems] at h
    | true =>
      simp [fmtItems] at h
      subst h
      refine ⟨fs, by simp [flattenLoop], hinv, fun _ _ _ _ _ h => h, fun h => h, by simp, ?_⟩
      intro fsF _
      simp [flatLoop]
  | cons it rest ih =>
    intro csF csL fs out hsf hca hinv h
    rw [fmtItems_cons] at h
    obtain ⟨t, ht, h⟩ := bind_ok _ _ _ h
    obtain ⟨r, hr, h⟩ := bind_ok _ _ _ h
    have hout : out = it.lit ++ t ++ r := by simpa using h.symm
    have hsf' : SpecFree rest := fun it' hm => hsf it' (by simp [hm])
    cases hf : it.field with
    | none =>
      rw [hf] at ht
      have ht' : t = [] := by simpa using ht.symm
      obtain ⟨fs', h1, h2, h3, h4, h5, h6⟩ := ih csF csL fs r hsf' hca hinv hr
      refine ⟨fs', by rw [flattenLoop_none _ _ _ _ _ _ _ hf]; exact h1, h2, h3, h4, ?_, ?_⟩
      · rintro ⟨it', hmem, hsome⟩
        simp only [List.mem_cons] at hmem
        rcases hmem with rfl | hmem
        · simp [hf] at hsome
        · exact h5 ⟨it', hmem, hsome⟩
      · intro fsF hp
        rw [flatLoop_none _ _ _ _ _ _ hf, h6 fsF hp, hout, ht']
        simp [Except.bind]
    | some f =>
      have hspec : f.spec = [] := hsf it (by simp) f hf
      rw [hf] at ht
      simp only [origField] at ht
      rw [hspec, expand_nil] at ht
      obtain ⟨v, hv, ht⟩ := bind_ok _ _ _ ht
      have ht' : (convert O v f.conv).bind (fun cv => O.fmt cv []) = .ok t := ht
      obtain ⟨hokc, hconvOr, htxt⟩ := orig_field O hfmt v f.conv t ht'
      have hget : getField ev f.name = .ok v := by
        unfold vfield at hv
        split at hv
        · simp at hv
        · exact hv
      -- the keys
      have hK1 : FlatKey (flatKey csF f.name [] [flatConv f.conv]).1 f.name (flatConv f.conv) := by
        rw [flatKey_fst]; exact ⟨hokc, _, colon_not_in_suffix _, rfl⟩
      have hK2 : ∀ name' c', ¬ FlatKey (flatKey (flatKey csF f.name [] [flatConv f.conv]).2 f.name [] []).1 name' c' := by
        intro name' c'; rw [flatKey_fst]; exact structKey_not_flat _ _ _ _
      have hKL : (flatKey csL f.name [] (convOr f.conv)).1 = (flatKey csF f.name [] [flatConv f.conv]).1 := by
        rw [hconvOr, flatKey_fst, flatKey_fst, hca f.name _ hokc]
      have hca' : CountsAgree (flatKey (flatKey csF f.name [] [flatConv f.conv]).2 f.name [] []).2
          (flatKey csL f.name [] (convOr f.conv)).2 := by
        intro name' c' hc'
        rw [hconvOr, flatKey_snd, flatKey_snd, flatKey_snd]
        simp only [count_dictSet]
        have hne : baseKey f.name [] [] ≠ baseKey name' [] [c'] := by
          rw [baseKey_eq_mk, baseKey_eq_mk]
          intro e
          have := mk_inj _ _ _ _ _ _ (by simp) (by simp) (by simp) (okc_nobang c' hc') e
          simp at this
        simp only [hne, if_false]
        rw [hca f.name _ hokc, hca name' c' hc']
      -- both branches end the same way
      have fin : ∀ (fs1 fs' : Dict), lookup fs1 (flatKey csF f.name [] [flatConv f.conv]).1 = some (.text t) →
          Pres fs1 fs' →
          (∀ fsF, PresT fs' fsF → flatLoop O fsF rest ok (flatKey csL f.name [] (convOr f.conv)).2 = .ok r) →
          ∀ fsF, PresT fs' fsF → flatLoop O fsF (it :: rest) ok csL = .ok out := by
        intro fs1 fs' hl hp h6 fsF hpt
        have h1 := hp _ _ _ _ hK1 hl
        have h2 := hpt _ _ _ _ hK1 h1
        rw [flatLoop_some O fsF it rest ok csL f hf hspec (.text t) (by rw [hKL]; exact h2), h6 fsF hpt, hout]
        simp [Except.bind, strOf_text]
      cases hl : lookup fs (flatKey csF f.name [] [flatConv f.conv]).1 with
      | some val =>
        obtain ⟨v', hv', hval⟩ := hinv _ _ _ _ hK1 hl
        rw [hget] at hv'
        have hvv : v' = v := by injection hv' with e; exact e.symm
        subst hvv
        obtain ⟨fs', h1, h2, h3, h4, h5, h6⟩ := ih _ _ fs r hsf' hca' hinv hr
        have hne : fs ≠ [] := by intro e; rw [e] at hl; simp [lookup] at hl
        refine ⟨fs', ?_, h2, h3, h4, fun _ => h4 hne, ?_⟩
        · rw [flattenLoop_some O ev it rest ok csF fs f hf hspec, hl]; simpa using h1
        · exact fin fs fs' (by rw [hl, hval, htxt]) h3 h6
      | none =>
        have hinv1 : Inv O ev (dictSet (dictSet fs (flatKey csF f.name [] [flatConv f.conv]).1
            (.text (convText O (flatConv f.conv) v)))
            (flatKey (flatKey csF f.name [] [flatConv f.conv]).2 f.name [] []).1 v) := by
          intro k name' c' val hk hlk
          rw [lookup_dictSet, lookup_dictSet] at hlk
          split at hlk
          · rename_i e; subst e; exact absurd hk (hK2 _ _)
          · split at hlk
            · rename_i e; subst e
              obtain ⟨e1, e2⟩ := flatKey_unique _ _ _ _ _ hK1 hk
              subst e1; subst e2
              exact ⟨v, hget, by injection hlk with e; exact e.symm⟩
            · exact hinv _ _ _ _ hk hlk
        have hpres1 : Pres fs (dictSet (dictSet fs (flatKey csF f.name [] [flatConv f.conv]).1
            (.text (convText O (flatConv f.conv) v)))
            (flatKey (flatKey csF f.name [] [flatConv f.conv]).2 f.name [] []).1 v) := by
          intro k name' c' val hk hlk
          rw [lookup_dictSet, lookup_dictSet]
          split
          · rename_i e; subst e; exact absurd hk (hK2 _ _)
          · split
            · rename_i e; subst e; rw [hl] at hlk; simp at hlk
            · exact hlk
        obtain ⟨fs', h1, h2, h3, h4, h5, h6⟩ := ih _ _ _ r hsf' hca' hinv1 hr
        have hne' : fs' ≠ [] := h4 (dictSet_ne_nil _ _ _)
        refine ⟨fs', ?_, h2, ?_, fun _ => hne', fun _ => hne', ?_⟩
        · rw [flattenLoop_some O ev it rest ok csF fs f hf hspec, hl, hget]; simpa [Except.bind] using h1
        · intro k name' c' val hk hlk
          exact h3 _ _ _ _ hk (hpres1 _ _ _ _ hk hlk)
        · refine fin _ fs' ?_ h3 h6
          rw [lookup_dictSet, lookup_dictSet]
          split
          · rename_i e; rw [← e] at hK1; exact absurd hK1 (hK2 _ _)
          · simp [htxt]


/-- decidable form of "no field carries a format spec" -/
def specFree (items : List Item) : Bool :=
  items.all fun it => match it.field with
    | none => true
    | some f => f.spec.isEmpty

theorem specFree_spec (items : List Item) (h : specFree items = true) : SpecFree items := by
  intro it hm f hf
  unfold specFree at h
  rw [List.all_eq_true] at h
  have := h it hm
  simp only [hf] at this
  simpa using this

theorem inv_nil (O : Ops) (ev : Dict) : Inv O ev [] := by
  intro k name c val _ h
  simp [lookup] at h

theorem kFlattened_ne_kFormat : kFlattened ≠ kFormat := by decide

theorem jsonRT_text (t : Text) : jsonRT (.text t) = .text t := by simp [jsonRT]

theorem lookup_jsonRTKvs (d : Dict) (k : Text) : lookup (jsonRTKvs d) k = (lookup d k).map jsonRT := by
  induction d with
  | nil => simp [jsonRTKvs, lookup]
  | cons p d ih =>
    obtain ⟨k', v'⟩ := p
    by_cases h : k' = k <;> simp [jsonRTKvs, lookup, h, ih]

/-- formatting a format string without replacement fields does not look at the event -/
theorem fmtItems_noFields (O : Ops) (ev ev' : Dict) (e e' : Text → Except Err Text) (ok : Bool) (items : List Item)
    (h : ¬ ∃ it ∈ items, it.field.isSome = true) :
    fmtItems O ev e items ok = fmtItems O ev' e' items ok := by
  induction items with
  | nil => simp [fmtItems]
  | cons it rest ih =>
    have hn : it.field = none := by
      cases hf : it.field with
      | none => rfl
      | some f => exact absurd ⟨it, by simp, by simp [hf]⟩ h
    have := ih (by rintro ⟨it', hm, hs⟩; exact h ⟨it', by simp [hm], hs⟩)
    simp [fmtItems, hn, this]

theorem formatEvent_unflattened (O : Ops) (ev : Dict) (s : Text)
    (hs : lookup ev kFormat = some (.text s)) (hnf : lookup ev kFlattened = none) :
    formatEvent O ev = fmtItems O ev (vformat O ev 2) (parse s).1 (parse s).2 := by
  simp [formatEvent, hs, hnf, formatWithCall, vformat]

theorem formatEvent_flattened (O : Ops) (ev fs : Dict) (s : Text)
    (hs : lookup ev kFormat = some (.text s)) (hf : lookup ev kFlattened = some (.dict fs)) :
    formatEvent O ev = flatLoop O fs (parse s).1 (parse s).2 [] := by
  simp [formatEvent, hs, hf, flatFormat]

/-- what `flattenEvent` does to an unflattened event with a text format, in terms of the loop -/
theorem flattenEvent_unflattened (O : Ops) (ev fs' : Dict) (s : Text)
    (hs : lookup ev kFormat = some (.text s)) (hnf : lookup ev kFlattened = none)
    (hl : flattenLoop O ev (parse s).1 (parse s).2 [] [] = .ok fs') :
    flattenEvent O ev = .ok (if fs'.isEmpty then ev else dictSet ev kFlattened (.dict fs')) := by
  simp only [flattenEvent, hs, hnf, Except.bind, hl]
  split <;> rfl

/-- **C56, flattening (partial: fields without a format spec).**
Full statement (false for the code as it is, see `spec_dropped_counterexample`): the same
without the hypothesis `hsf`.

For every `str`/`repr`/`ascii`/`format` oracle with `format(v, "") == str(v)`, every event that is
not yet flattened and whose `log_format` is a text `s`: if no replacement field of `s` carries a
format spec and the original event formats to `out` (so every lookup, call and conversion in it
succeeds), then `flattenEvent` succeeds and the flattened event formats to the same `out`. -/
theorem flat_equals_original_partial (O : Ops) (hfmt : ∀ v, O.fmt v [] = .ok (strOf O v))
    (ev : Dict) (s out : Text)
    (hs : lookup ev kFormat = some (.text s)) (hnf : lookup ev kFlattened = none)
    (hsf : specFree (parse s).1 = true)
    (horig : formatEvent O ev = .ok out) :
    ∃ ev', flattenEvent O ev = .ok ev' ∧ formatEvent O ev' = .ok out := by
  rw [formatEvent_unflattened O ev s hs hnf] at horig
  obtain ⟨fs', h1, _, _, _, _, h6⟩ :=
    lockstep O ev hfmt _ _ [] [] [] out (specFree_spec _ hsf) (fun _ _ _ => rfl) (inv_nil O ev) horig
  refine ⟨_, flattenEvent_unflattened O ev fs' s hs hnf h1, ?_⟩
  by_cases he : fs'.isEmpty = true
  · simp only [he, if_true]
    rw [formatEvent_unflattened O ev s hs hnf]; exact horig
  · simp only [he, Bool.false_eq_true, if_false]
    rw [formatEvent_flattened O _ fs' s]
    · exact h6 fs' (fun _ _ _ _ _ h => h)
    · rw [lookup_dictSet]; simp [kFlattened_ne_kFormat, hs]
    · rw [lookup_dictSet]; simp

/-- **C56, JSON (partial: fields without a format spec).**  Same hypotheses: `eventAsJSON`
succeeds and the event loaded back by `eventFromJSON` formats to the same `out`. -/
theorem json_equals_original_partial (O : Ops) (hfmt : ∀ v, O.fmt v [] = .ok (strOf O v))
    (ev : Dict) (s out : Text)
    (hs : lookup ev kFormat = some (.text s)) (hnf : lookup ev kFlattened = none)
    (hsf : specFree (parse s).1 = true)
    (horig : formatEvent O ev = .ok out) :
    ∃ ev'', jsonRoundTrip O ev = .ok ev'' ∧ formatEvent O ev'' = .ok out := by
  rw [formatEvent_unflattened O ev s hs hnf] at horig
  obtain ⟨fs', h1, _, _, _, h5, h6⟩ :=
    lockstep O ev hfmt _ _ [] [] [] out (specFree_spec _ hsf) (fun _ _ _ => rfl) (inv_nil O ev) horig
  refine ⟨_, by simp only [jsonRoundTrip, flattenEvent_unflattened O ev fs' s hs hnf h1, Except.bind]; rfl, ?_⟩
  by_cases he : fs'.isEmpty = true
  · simp only [he, if_true]
    have hnil : fs' = [] := by simpa using he
    rw [formatEvent_unflattened O _ s (by rw [lookup_jsonRTKvs, hs]; simp [jsonRT_text])
      (by rw [lookup_jsonRTKvs, hnf]; rfl)]
    rw [← horig]
    exact fmtItems_noFields O _ _ _ _ _ _ (fun hex => h5 hex hnil)
  · simp only [he, Bool.false_eq_true, if_false]
    rw [formatEvent_flattened O _ (jsonRTKvs fs') s]
    · refine h6 _ ?_
      intro k name c t _ hl
      rw [lookup_jsonRTKvs, hl]; simp [jsonRT_text]
    · rw [lookup_jsonRTKvs, lookup_dictSet]; simp [kFlattened_ne_kFormat, hs, jsonRT_text]
    · rw [lookup_jsonRTKvs, lookup_dictSet]; simp [jsonRT]


/-! ### the concrete oracle satisfies the hypothesis; witnesses; non-vacuity -/

/-- CPython: `format(v, "") == str(v)` for str/int/bool/None/list/dict and objects without `__format__` -/
theorem pyOps_fmt_nil : ∀ v, pyOps.fmt v [] = .ok (strOf pyOps v) := by
  intro v
  cases v <;> simp [pyOps, pyFmt, fmtText, fmtInt, strOf, pyStr, pyRepr]

def isOkText (x : Except Err Text) (t : String) : Bool :=
  match x with
  | .ok r => r == t.toList
  | .error _ => false

/-- the witness: `dict(log_format="{n:05d}", n=42)` -/
def evSpec : Dict := [(kFormat, .text "{n:05d}".toList), ("n".toList, .int 42)]

/-- **The full statement is false for the code as it is**: a field with a format spec formats as
`00042` originally, but as `42` after `flattenEvent` and after the JSON round trip (the witness
satisfies every other hypothesis of the theorems above). -/
theorem spec_dropped_counterexample :
    isOkText (formatEvent pyOps evSpec) "00042" = true ∧
    isOkText ((flattenEvent pyOps evSpec).bind (formatEvent pyOps)) "42" = true ∧
    isOkText ((jsonRoundTrip pyOps evSpec).bind (formatEvent pyOps)) "42" = true ∧
    lookup evSpec kFlattened = none ∧ specFree (parse "{n:05d}".toList).1 = false := by
  decide +kernel

/-- an oracle whose objects have their own `__format__` (`format(obj, "") != str(obj)`) -/
def fmtOps : Ops :=
  { pyOps with fmt := fun v spec => match v with
      | .obj _ _ _ _ => .ok ("<fmt:".toList ++ spec ++ ['>'])
      | v => pyFmt v spec }

def evFmt : Dict := [(kFormat, .text "{x}".toList), ("x".toList, .obj "x-str".toList "x-repr".toList [] none)]

/-- the hypothesis `format(v, "") == str(v)` cannot be dropped: with a value that has its own
`__format__` a spec-free field formats through it originally but as `str(x)` once flattened. -/
theorem custom_format_counterexample :
    isOkText (formatEvent fmtOps evFmt) "<fmt:>" = true ∧
    isOkText ((flattenEvent fmtOps evFmt).bind (formatEvent fmtOps)) "x-str" = true ∧
    isOkText ((jsonRoundTrip fmtOps evFmt).bind (formatEvent fmtOps)) "x-str" = true ∧
    specFree (parse "{x}".toList).1 = true := by
  decide +kernel

/-- non-vacuity: an event with attribute, index, key and call lookups (a call in the middle of the
chain), all conversions, a repeated field and escaped braces -/
def fmtEx : Text := "{{m}} {o.f().y!r} {o.a} {l[1]!a} {d[k]!s} {o.f().y!r} {o.f()}".toList

def evEx : Dict :=
  [ (kFormat, .text fmtEx),
    ("o".toList, .obj "O".toList "<O>".toList
        [("a".toList, .int (-5)),
         ("f".toList, .obj "f".toList "<f>".toList []
            (some (.obj "ret".toList "<ret>".toList [("y".toList, .text "it's".toList)] none)))] none),
    ("l".toList, .list [.int 1, .text "é".toList]),
    ("d".toList, .dict [("k".toList, .list [.bool true, .none])]) ]

def outEx : Text := "{m} \"it's\" -5 '\\xe9' [True, None] \"it's\" ret".toList

theorem evEx_formats : isOkText (formatEvent pyOps evEx) (String.ofList outEx) = true := by decide +kernel

theorem ok_of_isOkText (x : Except Err Text) (t : Text) (h : isOkText x (String.ofList t) = true) : x = .ok t := by
  cases x with
  | error e => simp [isOkText] at h
  | ok r => simp [isOkText] at h; rw [h]

example : ∃ ev', flattenEvent pyOps evEx = .ok ev' ∧ formatEvent pyOps ev' = .ok outEx :=
  flat_equals_original_partial pyOps pyOps_fmt_nil evEx fmtEx outEx (by simp [evEx, lookup]) (by decide +kernel)
    (by decide +kernel) (ok_of_isOkText _ _ evEx_formats)

example : ∃ ev'', jsonRoundTrip pyOps evEx = .ok ev'' ∧ formatEvent pyOps ev'' = .ok outEx :=
  json_equals_original_partial pyOps pyOps_fmt_nil evEx fmtEx outEx (by simp [evEx, lookup]) (by decide +kernel)
    (by decide +kernel) (ok_of_isOkText _ _ evEx_formats)

/-- … and the flattened event really is a different event (six keys in `log_flattened`) -/
example : (match flattenEvent pyOps evEx with
    | .ok ev' => (match lookup ev' kFlattened with | some (.dict fs) => fs.length | _ => 0)
    | .error _ => 0) = 12 := by decide +kernel

/-! ### re-entrant field values (seeded change C56-2) -/

/-- **No interference.**  Whatever the field values do when they are evaluated (`Good`: they may allocate and use
any number of further `KeyFlattener`s — by formatting, flattening, serializing other events, by calling
`extractField`, recursively — but cannot reach the ones that already exist), each entry point of the machinery
returns what the pure function returns, independent of the heap it starts in, and leaves every flattener that
existed before the call exactly as it was. -/
theorem flatteners_are_private (OW : OpsW) (hg : Good OW) (ev : Dict) (field : Text) (w : World) :
    ((flattenEventW OW ev w).1 = flattenEvent OW.pure ev ∧ Ext w (flattenEventW OW ev w).2) ∧
    ((formatEventW OW ev w).1 = formatEvent OW.pure ev ∧ Ext w (formatEventW OW ev w).2) ∧
    ((jsonRoundTripW OW ev w).1 = jsonRoundTrip OW.pure ev ∧ Ext w (jsonRoundTripW OW ev w).2) ∧
    ((extractFieldW OW field ev w).1 = Twisted.Log.FlatReent.extractField OW.pure field ev ∧
      Ext w (extractFieldW OW field ev w).2) :=
  ⟨flattenEventW_sim OW hg ev w, formatEventW_sim OW hg ev w, jsonRoundTripW_sim OW hg ev w,
   extractFieldW_sim OW hg field ev w⟩

/-- **C56 with re-entrant values, flattening (partial: fields without a format spec).**  For every stateful value
oracle that does not interfere, in every heap `w`: under the hypotheses of `flat_equals_original_partial` (stated
for the oracle's texts) `flattenEvent` run with explicit flatteners succeeds, and formatting the flattened event —
again with explicit flatteners, in the heap the first call left behind — gives the text of the original. -/
theorem reentrant_flat_equals_original_partial (OW : OpsW) (hg : Good OW)
    (hfmt : ∀ v, OW.pure.fmt v [] = .ok (strOf OW.pure v))
    (ev : Dict) (s out : Text) (w : World)
    (hs : lookup ev kFormat = some (.text s)) (hnf : lookup ev kFlattened = none)
    (hsf : specFree (parse s).1 = true)
    (horig : formatEvent OW.pure ev = .ok out) :
    ∃ ev', (flattenEventW OW ev w).1 = .ok ev' ∧
      (formatEventW OW ev' (flattenEventW OW ev w).2).1 = .ok out ∧
      Ext w (formatEventW OW ev' (flattenEventW OW ev w).2).2 := by
  obtain ⟨ev', h1, h2⟩ := flat_equals_original_partial OW.pure hfmt ev s out hs hnf hsf horig
  have a := flattenEventW_sim OW hg ev w
  have b := formatEventW_sim OW hg ev' (flattenEventW OW ev w).2
  exact ⟨ev', by rw [a.1, h1], by rw [b.1, h2], a.2.trans b.2⟩

/-- **C56 with re-entrant values, JSON (partial: fields without a format spec).** -/
theorem reentrant_json_equals_original_partial (OW : OpsW) (hg : Good OW)
    (hfmt : ∀ v, OW.pure.fmt v [] = .ok (strOf OW.pure v))
    (ev : Dict) (s out : Text) (w : World)
    (hs : lookup ev kFormat = some (.text s)) (hnf : lookup ev kFlattened = none)
    (hsf : specFree (parse s).1 = true)
    (horig : formatEvent OW.pure ev = .ok out) :
    ∃ ev'', (jsonRoundTripW OW ev w).1 = .ok ev'' ∧
      (formatEventW OW ev'' (jsonRoundTripW OW ev w).2).1 = .ok out ∧
      Ext w (formatEventW OW ev'' (jsonRoundTripW OW ev w).2).2 := by
  obtain ⟨ev'', h1, h2⟩ := json_equals_original_partial OW.pure hfmt ev s out hs hnf hsf horig
  have a := jsonRoundTripW_sim OW hg ev w
  have b := formatEventW_sim OW hg ev'' (jsonRoundTripW OW ev w).2
  exact ⟨ev'', by rw [a.1, h1], by rw [b.1, h2], a.2.trans b.2⟩

/-- the two theorems for the concrete re-entrant objects of the correspondence check: hooks (objects whose
`__str__`/`__repr__`/`__call__`/`__getattr__` format flattened / JSON-loaded events, flatten or serialize events,
log to a JSON observer, call `extractField`) nested `n` deep, over CPython's `str`/`repr`/`ascii`/`format` -/
theorem hooks_flat_and_json_equal_original_partial (n : Nat) (ev : Dict) (s out : Text) (w : World)
    (hs : lookup ev kFormat = some (.text s)) (hnf : lookup ev kFlattened = none)
    (hsf : specFree (parse s).1 = true)
    (horig : formatEvent (pureLevel pyOps n) ev = .ok out) :
    (∃ ev', (flattenEventW (opsLevel pyOps n) ev w).1 = .ok ev' ∧
      (formatEventW (opsLevel pyOps n) ev' (flattenEventW (opsLevel pyOps n) ev w).2).1 = .ok out) ∧
    (∃ ev'', (jsonRoundTripW (opsLevel pyOps n) ev w).1 = .ok ev'' ∧
      (formatEventW (opsLevel pyOps n) ev'' (jsonRoundTripW (opsLevel pyOps n) ev w).2).1 = .ok out) := by
  have hg := opsLevel_good pyOps n
  have hp := opsLevel_pure pyOps n
  have hfmt : ∀ v, (opsLevel pyOps n).pure.fmt v [] = .ok (strOf (opsLevel pyOps n).pure v) := by
    rw [hp]; exact pureLevel_fmt_nil pyOps pyOps_fmt_nil n
  have horig' : formatEvent (opsLevel pyOps n).pure ev = .ok out := by rw [hp]; exact horig
  obtain ⟨e1, a1, a2, _⟩ := reentrant_flat_equals_original_partial _ hg hfmt ev s out w hs hnf hsf horig'
  obtain ⟨e2, b1, b2, _⟩ := reentrant_json_equals_original_partial _ hg hfmt ev s out w hs hnf hsf horig'
  exact ⟨⟨e1, a1, a2⟩, ⟨e2, b1, b2⟩⟩

/-- non-vacuity: `{host}: forwarding <{record}> received from {host}` where `str(record)` formats an event that was
loaded from JSON (so it goes through `flatFormat` and its own `KeyFlattener`) and `repr(record)` serializes one -/
def innerEx : Dict :=
  [(kFormat, .text "disk {disk} at {pct}% {disk}".toList), ("disk".toList, .text "sda".toList), ("pct".toList, .int 91)]

def hookEx : Val :=
  .obj "rec:".toList "<rec>".toList
    [(kS, .list [.list [.text "fmt".toList, .text "json".toList, .text [], .dict innerEx]]),
     (kR, .list [.list [.text "json".toList, .text [], .text [], .dict innerEx]]),
     (kL, .list [])] none

def fmtHook : Text := "{host}: forwarding <{record}> received from {host} {record!r}".toList

def evHook : Dict := [(kFormat, .text fmtHook), ("host".toList, .text "db1".toList), ("record".toList, hookEx)]

def outHook : Text := "db1: forwarding <rec:disk sda at 91% sda> received from db1 <rec>".toList

theorem evHook_formats : isOkText (formatEvent (pureLevel pyOps 1) evHook) (String.ofList outHook) = true := by
  decide +kernel

example : ∃ ev', (flattenEventW (opsLevel pyOps 1) evHook ⟨[[("x".toList, 7)]]⟩).1 = .ok ev' ∧
      (formatEventW (opsLevel pyOps 1) ev' (flattenEventW (opsLevel pyOps 1) evHook ⟨[[("x".toList, 7)]]⟩).2).1
        = .ok outHook :=
  (hooks_flat_and_json_equal_original_partial 1 evHook fmtHook outHook ⟨[[("x".toList, 7)]]⟩
    (by simp [evHook, lookup]) (by decide +kernel) (by decide +kernel) (ok_of_isOkText _ _ evHook_formats)).1

/-- … and the nested calls really happened: flattening `evHook` in the empty heap allocates three flatteners (the
outer one, the `flatFormat` of the inner event under `str(record)`, the `flattenEvent` of `eventAsJSON` under
`repr(record)`), and the outer one ends with its own counters (`host` seen twice) -/
example : ((flattenEventW (opsLevel pyOps 1) evHook ⟨[]⟩).2.cells.length,
    count ((flattenEventW (opsLevel pyOps 1) evHook ⟨[]⟩).2.get 0) "host!s:".toList,
    count ((flattenEventW (opsLevel pyOps 1) evHook ⟨[]⟩).2.get 1) "disk!s:".toList) = (3, 2, 2) := by
  decide +kernel

/-! ### histories: an event that was flattened / went through JSON is flattened / serialized again -/

/-- every replacement field's conversion is absent or one of `s`, `r`, `a` (what a successful original
formatting guarantees): `flatFormat`'s `conversion or "s"` and `flattenEvent`'s key conversion coincide -/
def ConvOK (items : List Item) : Prop :=
  ∀ it ∈ items, ∀ f, it.field = some f → convOr f.conv = [flatConv f.conv]

theorem okc_flatConv (conv : Option Char) : okc (flatConv conv) := by
  cases conv with
  | none => simp [flatConv, okc]
  | some c =>
    by_cases hr : c = 'r'
    · simp [flatConv, okc, hr]
    · by_cases ha : c = 'a'
      · simp [flatConv, okc, ha]
      · simp [flatConv, okc, hr, ha]

theorem convOK_of_orig (O : Ops) (ev : Dict) (hfmt : ∀ v, O.fmt v [] = .ok (strOf O v)) (ok : Bool)
    (items : List Item) :
    ∀ out, SpecFree items → fmtItems O ev (vformat O ev 2) items ok = .ok out → ConvOK items := by
  induction items with
  | nil => intro _ _ _ it hm; simp at hm
  | cons it rest ih =>
    intro out hsf h
    rw [fmtItems_cons] at h
    obtain ⟨t, ht, h⟩ := bind_ok _ _ _ h
    obtain ⟨r, hr, _⟩ := bind_ok _ _ _ h
    have hsf' : SpecFree rest := fun it' hm => hsf it' (by simp [hm])
    have hrest := ih r hsf' hr
    intro it' hm f hf
    simp only [List.mem_cons] at hm
    rcases hm with rfl | hm
    · have hspec : f.spec = [] := hsf it' (by simp) f hf
      rw [hf] at ht
      simp only [origField] at ht
      rw [hspec, expand_nil] at ht
      obtain ⟨v, _, ht⟩ := bind_ok _ _ _ ht
      have ht' : (convert O v f.conv).bind (fun cv => O.fmt cv []) = .ok t := ht
      exact (orig_field O hfmt v f.conv t ht').2.1
    · exact hrest it' hm f hf

/-- flattening over a fields dict from which the format string already formats changes nothing: every
flattened key is found, so no field is looked up in the event again (whatever the event's values are now) -/
theorem flattenLoop_noop (O : Ops) (ev2 fs : Dict) (ok : Bool) (items : List Item) :
    ∀ (csF csL : Counts) (out : Text), SpecFree items → ConvOK items → CountsAgree csF csL →
      flatLoop O fs items ok csL = .ok out → flattenLoop O ev2 items ok csF fs = .ok fs := by
  induction items with
  | nil =>
    intro csF csL out _ _ _ h
    cases ok <;> simp [flatLoop, flattenLoop] at h ⊢
  | cons it rest ih =>
    intro csF csL out hsf hcv hca h
    have hsf' : SpecFree rest := fun it' hm => hsf it' (by simp [hm])
    have hcv' : ConvOK rest := fun it' hm => hcv it' (by simp [hm])
    cases hf : it.field with
    | none =>
      rw [flatLoop_none _ _ _ _ _ _ hf] at h
      obtain ⟨r, hr, _⟩ := bind_ok _ _ _ h
      rw [flattenLoop_none _ _ _ _ _ _ _ hf]
      exact ih csF csL r hsf' hcv' hca hr
    | some f =>
      have hspec : f.spec = [] := hsf it (by simp) f hf
      have hconvOr : convOr f.conv = [flatConv f.conv] := hcv it (by simp) f hf
      have hokc : okc (flatConv f.conv) := okc_flatConv f.conv
      have hKL : (flatKey csL f.name [] (convOr f.conv)).1 = (flatKey csF f.name [] [flatConv f.conv]).1 := by
        rw [hconvOr, flatKey_fst, flatKey_fst, hca f.name _ hokc]
      have hca' : CountsAgree (flatKey (flatKey csF f.name [] [flatConv f.conv]).2 f.name [] []).2
          (flatKey csL f.name [] (convOr f.conv)).2 := by
        intro name' c' hc'
        rw [hconvOr, flatKey_snd, flatKey_snd, flatKey_snd]
        simp only [count_dictSet]
        have hne : baseKey f.name [] [] ≠ baseKey name' [] [c'] := by
          rw [baseKey_eq_mk, baseKey_eq_mk]
          intro e
          have := mk_inj _ _ _ _ _ _ (by simp) (by simp) (by simp) (okc_nobang c' hc') e
          simp at this
        simp only [hne, if_false]
        rw [hca f.name _ hokc, hca name' c' hc']
      cases hl : lookup fs (flatKey csL f.name [] (convOr f.conv)).1 with
      | none => simp [flatLoop, hf, hspec, hl] at h
      | some v =>
        rw [flatLoop_some O fs it rest ok csL f hf hspec v hl] at h
        obtain ⟨r, hr, _⟩ := bind_ok _ _ _ h
        rw [flattenLoop_some O ev2 it rest ok csF fs f hf hspec, ← hKL, hl]
        simpa using ih _ _ r hsf' hcv' hca' hr

theorem flattenEvent_flattened (O : Ops) (ev fs fs' : Dict) (s : Text)
    (hs : lookup ev kFormat = some (.text s)) (hf : lookup ev kFlattened = some (.dict fs))
    (hl : flattenLoop O ev (parse s).1 (parse s).2 [] fs = .ok fs') :
    flattenEvent O ev = .ok (if fs'.isEmpty then ev else dictSet ev kFlattened (.dict fs')) := by
  simp only [flattenEvent, hs, hf, Except.bind, hl]
  split <;> rfl

theorem dictSet_self {α : Type} (d : List (Text × α)) (k : Text) (v : α) (h : lookup d k = some v) :
    dictSet d k v = d := by
  induction d with
  | nil => simp [lookup] at h
  | cons p d ih =>
    obtain ⟨k', v'⟩ := p
    by_cases hk : k' = k
    · subst hk
      simp [lookup] at h
      simp [dictSet, h]
    · simp [lookup, hk] at h
      simp [dictSet, hk, ih h]

theorem jsonRTKvs_ne_nil (d : Dict) (h : d ≠ []) : jsonRTKvs d ≠ [] := by
  cases d with
  | nil => exact absurd rfl h
  | cons p d => obtain ⟨k, v⟩ := p; simp [jsonRTKvs]

theorem presT_refl (fs : Dict) : PresT fs fs := fun _ _ _ _ _ h => h

theorem presT_json (fs fsG : Dict) (h : PresT (jsonRTKvs fs) fsG) : PresT fs fsG := by
  intro k name c t hk hl
  exact h k name c t hk (by rw [lookup_jsonRTKvs, hl]; simp [jsonRT_text])

/-- **idempotence**: an event whose `log_flattened` already lets the format string format is left exactly as
it is by `flattenEvent` — whatever its values have become (after JSON they are no longer the objects) -/
theorem flattenEvent_idem (O : Ops) (e fsF : Dict) (s out : Text)
    (hs : lookup e kFormat = some (.text s)) (hf : lookup e kFlattened = some (.dict fsF)) (hne : fsF ≠ [])
    (hsf : SpecFree (parse s).1) (hcv : ConvOK (parse s).1)
    (hfl : flatLoop O fsF (parse s).1 (parse s).2 [] = .ok out) :
    flattenEvent O e = .ok e := by
  have hl := flattenLoop_noop O e fsF (parse s).2 (parse s).1 [] [] out hsf hcv (fun _ _ _ => rfl) hfl
  rw [flattenEvent_flattened O e fsF fsF s hs hf hl]
  have : fsF.isEmpty = false := by cases fsF with
    | nil => exact absurd rfl hne
    | cons _ _ => rfl
  simp only [this, Bool.false_eq_true, if_false]
  rw [dictSet_self e kFlattened _ hf]

/-- one step of an event's later life: it is flattened (again), or serialized to JSON and loaded back -/
inductive Step where
  | flatten | json

def step (O : Ops) : Step → Dict → Except Err Dict
  | .flatten, e => flattenEvent O e
  | .json, e => jsonRoundTrip O e

def runSteps (O : Ops) : List Step → Dict → Except Err Dict
  | [], e => .ok e
  | st :: r, e => (step O st e).bind (runSteps O r)

/-- unflattened, formats to `out` (the original event is such an event) -/
def GoodA (O : Ops) (s out : Text) (e : Dict) : Prop :=
  lookup e kFormat = some (.text s) ∧ lookup e kFlattened = none ∧ formatEvent O e = .ok out

/-- flattened, and every fields dict that keeps the flattened texts formats to `out` -/
def GoodB (O : Ops) (s out : Text) (e : Dict) : Prop :=
  lookup e kFormat = some (.text s) ∧ ∃ fsF, lookup e kFlattened = some (.dict fsF) ∧ fsF ≠ [] ∧
    ∀ fsG, PresT fsF fsG → flatLoop O fsG (parse s).1 (parse s).2 [] = .ok out

theorem goodB_formats (O : Ops) (s out : Text) (e : Dict) (h : GoodB O s out e) : formatEvent O e = .ok out := by
  obtain ⟨hs, fsF, hf, _, hall⟩ := h
  rw [formatEvent_flattened O e fsF s hs hf]
  exact hall fsF (presT_refl fsF)

theorem good_step (O : Ops) (hfmt : ∀ v, O.fmt v [] = .ok (strOf O v)) (s out : Text)
    (hsf : specFree (parse s).1 = true) (hcv : ConvOK (parse s).1) (st : Step) (e : Dict)
    (h : GoodA O s out e ∨ GoodB O s out e) :
    ∃ e', step O st e = .ok e' ∧ (GoodA O s out e' ∨ GoodB O s out e') := by
  rcases h with ⟨hs, hnf, horig⟩ | hB
  · -- an unflattened event: the lockstep induction
    have horig0 := horig
    rw [formatEvent_unflattened O e s hs hnf] at horig
    obtain ⟨fs', h1, _, _, _, h5, h6⟩ :=
      lockstep O e hfmt _ _ [] [] [] out (specFree_spec _ hsf) (fun _ _ _ => rfl) (inv_nil O e) horig
    have hfe := flattenEvent_unflattened O e fs' s hs hnf h1
    by_cases he : fs'.isEmpty = true
    · have hnil : fs' = [] := by simpa using he
      simp only [he, if_true] at hfe
      cases st with
      | flatten => exact ⟨e, hfe, Or.inl ⟨hs, hnf, horig0⟩⟩
      | json =>
        refine ⟨jsonRTKvs e, by simp only [step, jsonRoundTrip, hfe, Except.bind], Or.inl ⟨?_, ?_, ?_⟩⟩
        · rw [lookup_jsonRTKvs, hs]; simp [jsonRT_text]
        · rw [lookup_jsonRTKvs, hnf]; rfl
        · rw [formatEvent_unflattened O _ s (by rw [lookup_jsonRTKvs, hs]; simp [jsonRT_text])
            (by rw [lookup_jsonRTKvs, hnf]; rfl)]
          rw [← horig]
          exact fmtItems_noFields O _ _ _ _ _ _ (fun hex => h5 hex hnil)
    · simp only [he, Bool.false_eq_true, if_false] at hfe
      have hne : fs' ≠ [] := by intro e0; rw [e0] at he; simp at he
      cases st with
      | flatten =>
        refine ⟨_, hfe, Or.inr ⟨?_, fs', ?_, hne, h6⟩⟩
        · rw [lookup_dictSet]; simp [kFlattened_ne_kFormat, hs]
        · rw [lookup_dictSet]; simp
      | json =>
        refine ⟨jsonRTKvs (dictSet e kFlattened (.dict fs')),
          by simp only [step, jsonRoundTrip, hfe, Except.bind], Or.inr ⟨?_, jsonRTKvs fs', ?_, jsonRTKvs_ne_nil _ hne, ?_⟩⟩
        · rw [lookup_jsonRTKvs, lookup_dictSet]; simp [kFlattened_ne_kFormat, hs, jsonRT_text]
        · rw [lookup_jsonRTKvs, lookup_dictSet]; simp [jsonRT]
        · intro fsG hp
          exact h6 fsG (presT_json fs' fsG hp)
  · -- an already flattened event: nothing is looked up again
    obtain ⟨hs, fsF, hf, hne, hall⟩ := hB
    have hidem := flattenEvent_idem O e fsF s out hs hf hne (specFree_spec _ hsf) hcv (hall fsF (presT_refl fsF))
    cases st with
    | flatten => exact ⟨e, hidem, Or.inr ⟨hs, fsF, hf, hne, hall⟩⟩
    | json =>
      refine ⟨jsonRTKvs e, by simp only [step, jsonRoundTrip, hidem, Except.bind],
        Or.inr ⟨?_, jsonRTKvs fsF, ?_, jsonRTKvs_ne_nil _ hne, ?_⟩⟩
      · rw [lookup_jsonRTKvs, hs]; simp [jsonRT_text]
      · rw [lookup_jsonRTKvs, hf]; simp [jsonRT]
      · intro fsG hp
        exact hall fsG (presT_json fsF fsG hp)

/-- **C56 over histories (partial: fields without a format spec).**  Same hypotheses as
`flat_equals_original_partial`.  Whatever sequence of `flattenEvent` and `eventAsJSON`/`eventFromJSON` steps the
event goes through afterwards (flattened twice; flattened, then serialized; serialized, loaded and serialized again
by a forwarding observer; loaded and flattened again; …), every step succeeds and the event at the end formats to
the text the original event formats to.  The two theorems above are the histories `[flatten]` and `[json]`. -/
theorem any_history_equals_original_partial (O : Ops) (hfmt : ∀ v, O.fmt v [] = .ok (strOf O v))
    (ev : Dict) (s out : Text)
    (hs : lookup ev kFormat = some (.text s)) (hnf : lookup ev kFlattened = none)
    (hsf : specFree (parse s).1 = true)
    (horig : formatEvent O ev = .ok out) (steps : List Step) :
    ∃ e, runSteps O steps ev = .ok e ∧ formatEvent O e = .ok out := by
  have hcv : ConvOK (parse s).1 := by
    have h := horig
    rw [formatEvent_unflattened O ev s hs hnf] at h
    exact convOK_of_orig O ev hfmt _ _ out (specFree_spec _ hsf) h
  have gen : ∀ (steps : List Step) (e : Dict), (GoodA O s out e ∨ GoodB O s out e) →
      ∃ e', runSteps O steps e = .ok e' ∧ formatEvent O e' = .ok out := by
    intro steps
    induction steps with
    | nil =>
      intro e h
      refine ⟨e, rfl, ?_⟩
      rcases h with h | h
      · exact h.2.2
      · exact goodB_formats O s out e h
    | cons st r ih =>
      intro e h
      obtain ⟨e1, h1, hg⟩ := good_step O hfmt s out hsf hcv st e h
      obtain ⟨e2, h2, hf2⟩ := ih e1 hg
      exact ⟨e2, by simp only [runSteps, h1, Except.bind]; exact h2, hf2⟩
  exact gen steps ev (Or.inl ⟨hs, hnf, horig⟩)

/-- the histories the correspondence harness observes, as instances -/
theorem observed_histories_equal_original_partial (O : Ops) (hfmt : ∀ v, O.fmt v [] = .ok (strOf O v))
    (ev : Dict) (s out : Text)
    (hs : lookup ev kFormat = some (.text s)) (hnf : lookup ev kFlattened = none)
    (hsf : specFree (parse s).1 = true)
    (horig : formatEvent O ev = .ok out) :
    (∃ e, runSteps O [.flatten, .flatten] ev = .ok e ∧ formatEvent O e = .ok out) ∧
    (∃ e, runSteps O [.flatten, .flatten, .json] ev = .ok e ∧ formatEvent O e = .ok out) ∧
    (∃ e, runSteps O [.json, .json] ev = .ok e ∧ formatEvent O e = .ok out) ∧
    (∃ e, runSteps O [.json, .flatten] ev = .ok e ∧ formatEvent O e = .ok out) :=
  ⟨any_history_equals_original_partial O hfmt ev s out hs hnf hsf horig _,
   any_history_equals_original_partial O hfmt ev s out hs hnf hsf horig _,
   any_history_equals_original_partial O hfmt ev s out hs hnf hsf horig _,
   any_history_equals_original_partial O hfmt ev s out hs hnf hsf horig _⟩

/-- non-vacuity: the example event of this file through the history json → flatten → json → json -/
example : ∃ e, runSteps pyOps [.json, .flatten, .json, .json] evEx = .ok e ∧ formatEvent pyOps e = .ok outEx :=
  any_history_equals_original_partial pyOps pyOps_fmt_nil evEx fmtEx outEx (by simp [evEx, lookup]) (by decide +kernel)
    (by decide +kernel) (ok_of_isOkText _ _ evEx_formats) _

end TwistedProps.C56
