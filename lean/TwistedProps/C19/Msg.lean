import TwistedProps.C19.Sim
/-!
C19: one whole message — head, then the body the framing decision announces — on the channel model
and in the reference.
-/
namespace TwistedProps.C19
open Twisted.Http.Chunked hiding St feed init
open Twisted.Http.Channel

/-- the application answers every request inside `requestReceived` (the assumption of the C19 check:
    otherwise pipelined requests stay buffered, unparsed) -/
def AtOnce (app : App) : Prop := ∀ k r, (app.onRequest k r).2 = true

theorem delivered_append (a b : List Out) : delivered (a ++ b) = delivered a ++ delivered b := by
  induction a with
  | nil => rfl
  | cons h t ih => cases h <;> simp [delivered, ih]

theorem delivered_if (p : Prop) [Decidable p] (a b : List Out) :
    delivered (if p then a else b) = if p then delivered a else delivered b := by
  split <;> rfl

/-- `allContentReceived` when the application answers at once -/
theorem acr (app : App) (hfin : AtOnce app) (y : Chan) (hq : y.requeue = []) (hc : y.closed = false)
    (hr : y.raised = none) (hd : y.dead = false) (hh : y.header = []) :
    delivered (allContentReceived app y).2 = [⟨y.command, y.path, y.version, y.reqHeaders, y.decoder.body⟩] ∧
    (allContentReceived app y).1.raised = none ∧
    (y.persistent = true → Ready { (allContentReceived app y).1 with requeue := [] } 1 ∧
      (allContentReceived app y).1.requeue = y.dataBuffer ∧ (allContentReceived app y).1.closed = false) ∧
    (y.persistent = false → (allContentReceived app y).1.closed = true ∧ (allContentReceived app y).1.requeue = []) := by
  have h2 := hfin y.nreq ⟨y.command, y.path, y.version, y.reqHeaders, y.decoder.body⟩
  cases y
  simp only at hq hc hr hd hh h2
  subst hq hc hr hd hh
  rename_i lineMode firstLine length persistent hdrCount hdrSize handling dataBuffer decoder command path version
    waiting reqHeaders nreq inflight pendingNotify
  cases persistent
  · refine ⟨?_, ?_, ?_, ?_⟩
    · simp [allContentReceived, h2, requestDoneBusy, requestDoneCore, delivered_append, delivered_if, delivered, notifyOuts]
    · simp [allContentReceived, h2, requestDoneBusy, requestDoneCore]
    · intro h; simp at h
    · intro _; simp [allContentReceived, h2, requestDoneBusy, requestDoneCore]
  · refine ⟨?_, ?_, ?_, ?_⟩
    · simp [allContentReceived, h2, requestDoneBusy, requestDoneCore, delivered_append, delivered_if, delivered, notifyOuts]
    · simp [allContentReceived, h2, requestDoneBusy, requestDoneCore]
    · intro _
      refine ⟨⟨?_, ?_, ?_, ?_, ?_, ?_, ?_, ?_, ?_, ?_, ?_, ?_, ?_, ?_⟩, ?_, ?_⟩ <;>
        simp [allContentReceived, h2, requestDoneBusy, requestDoneCore]
    · intro h; simp at h

/-- the body decoder finishes on the buffered bytes `B`, leaving `extra` -/
theorem D_raw_finish (app : App) (hfin : AtOnce app) (w : Chan) (B : Bytes) (dcd : Decoder) (extra : Bytes)
    (hlm : w.lineMode = false) (hq : w.requeue = []) (hc : w.closed = false) (hr : w.raised = none)
    (hd : w.dead = false) (hh : w.header = [])
    (hraw : rawDataReceived app w B = allContentReceived app { w with decoder := dcd, dataBuffer := extra })
    (hlt : extra.length < B.length) :
    ∃ o, delivered o = [⟨w.command, w.path, w.version, w.reqHeaders, dcd.body⟩] ∧
      ((w.persistent = true ∧ ∃ z, Ready z 1 ∧ D app w B = pre o (D app z extra)) ∨
       (w.persistent = false ∧ ∃ z b, z.closed = true ∧ z.raised = none ∧ D app w B = (z, b, o))) := by
  have hB : B ≠ [] := by
    intro h; subst h; simp at hlt
  obtain ⟨y, hy⟩ : ∃ y, y = ({ w with decoder := dcd, dataBuffer := extra } : Chan) := ⟨_, rfl⟩
  rw [← hy] at hraw
  have hyp : y.persistent = w.persistent := by rw [hy]
  have hyd : y.dataBuffer = extra := by rw [hy]
  have hyr : (⟨y.command, y.path, y.version, y.reqHeaders, y.decoder.body⟩ : Req) =
      ⟨w.command, w.path, w.version, w.reqHeaders, dcd.body⟩ := by rw [hy]
  obtain ⟨a1, a2, a3, a4⟩ := acr app hfin y (by rw [hy]; exact hq) (by rw [hy]; exact hc) (by rw [hy]; exact hr)
    (by rw [hy]; exact hd) (by rw [hy]; exact hh)
  rw [hyr] at a1
  obtain ⟨r, hr'⟩ : ∃ r, r = allContentReceived app y := ⟨_, rfl⟩
  rw [← hr'] at a1 a2 a3 a4 hraw
  have hstep : stepLoop app w B = ⟨{ r.1 with requeue := [] }, r.1.requeue, r.2, r.1.raised.isNone⟩ := by
    simp [stepLoop, hlm, hraw]
  refine ⟨r.2, a1, ?_⟩
  cases hp : w.persistent with
  | true =>
    left
    obtain ⟨b1, b2, b3⟩ := a3 (by rw [hyp]; exact hp)
    rw [hyd] at b2
    refine ⟨rfl, _, b1, ?_⟩
    rw [D_go app w B hB (by rw [hstep]; simp [a2]) (by rw [hstep]; dsimp only; rw [b2]; exact hlt), hstep]
    dsimp only
    rw [b2]
  | false =>
    right
    obtain ⟨b1, b2⟩ := a4 (by rw [hyp]; exact hp)
    refine ⟨rfl, { r.1 with requeue := [] }, [], b1, a2, ?_⟩
    rw [D_go app w B hB (by rw [hstep]; simp [a2]) (by
      rw [hstep]; dsimp only; rw [b2]; exact List.length_pos_iff.mpr hB), hstep]
    dsimp only
    rw [b2, D_nil]
    simp [pre]

/-! ### one message -/

/-- a refusal after possibly a `100 Continue`: connection closing, the 400 is the last thing written,
    no request handed over -/
def RefusedRun' (x : Chan × Bytes × List Out) : Prop :=
  x.1.closed = true ∧ ∃ o, x.2.2 = o ++ [.write badRequestBytes, .lose] ∧ delivered o = []

theorem RefusedRun.weaken {x : Chan × Bytes × List Out} (h : RefusedRun x) : RefusedRun' x :=
  ⟨h.1, [], by simpa using h.2, rfl⟩

/-- what the channel does with one message the reference reads: exactly one request handed over, with the
    reference's request line and body; then on with the rest of the stream, or the connection is closing
    because the request (as handed over) is not persistent -/
def MsgDone (app : App) (c : Chan) (s rest m t v body : Bytes) : Prop :=
  ∃ (r : Req) (o : List Out), delivered o = [r] ∧ r.method = m ∧ r.uri = t ∧ r.version = v ∧ r.body = body ∧
    ((checkPersistence r.headers r.version = true ∧ ∃ z, Ready z 1 ∧ D app c s = pre o (D app z rest)) ∨
     (checkPersistence r.headers r.version = false ∧ ∃ z b, z.closed = true ∧ z.raised = none ∧ D app c s = (z, b, o)))

theorem delivered_cont (hs : Headers) (v : Bytes) : delivered (contOuts hs v) = [] := by
  unfold contOuts; split <;> rfl

theorem afterHead_facts (c : Chan) (fl : Nat) (hc : Ready c fl) (m t v : Bytes) (size n : Nat) (hs : Headers)
    (fr : R.Framing) :
    (afterHead c m t v size n hs fr).requeue = [] ∧ (afterHead c m t v size n hs fr).closed = false ∧
    (afterHead c m t v size n hs fr).raised = none ∧ (afterHead c m t v size n hs fr).dead = false ∧
    (afterHead c m t v size n hs fr).header = [] ∧ (afterHead c m t v size n hs fr).dataBuffer = [] ∧
    (afterHead c m t v size n hs fr).handling = false ∧ (afterHead c m t v size n hs fr).decoder = decOf fr ∧
    (afterHead c m t v size n hs fr).persistent = checkPersistence hs v :=
  ⟨hc.requeue, hc.closed, hc.raised, hc.dead, rfl, hc.dataBuffer, hc.handling, rfl, rfl⟩

theorem takeLine_crlf (r : Bytes) : R.takeLine (CR :: LF :: r) = some ([], r) := by
  simp [Twisted.Http.Rfc9112Request.takeLine, CR, LF]

/-- the empty line ends the head and the message has no body octets to wait for (`length = 0`) -/
theorem end_nobody (app : App) (hfin : AtOnce app) (c : Chan) (fl : Nat) (hc : Ready c fl) (m t v : Bytes)
    (size n : Nat) (chs : Headers) (frm : R.Framing) (hlen : lenOf frm = some 0) (hbody : (decOf frm).body = [])
    (x' : Chan) (r2 : Bytes) (hlm : x'.lineMode = true)
    (hend : lineReceived app x' [] = endHead app (afterHead c m t v size n chs frm) (contOuts chs v) frm) :
    MsgDone app x' (CR :: LF :: r2) r2 m t v [] := by
  obtain ⟨y1, y2, y3, y4, y5, y6, y7, y8, y9⟩ := afterHead_facts c fl hc m t v size n chs frm
  have hyr : (⟨(afterHead c m t v size n chs frm).command, (afterHead c m t v size n chs frm).path,
      (afterHead c m t v size n chs frm).version, (afterHead c m t v size n chs frm).reqHeaders,
      (afterHead c m t v size n chs frm).decoder.body⟩ : Req) = ⟨m, t, v, chs, []⟩ := by
    rw [y8, hbody]; rfl
  obtain ⟨y, hy⟩ : ∃ y, y = afterHead c m t v size n chs frm := ⟨_, rfl⟩
  rw [← hy] at y1 y2 y3 y4 y5 y6 y7 y8 y9 hyr hend
  obtain ⟨a1, a2, a3, a4⟩ := acr app hfin y y1 y2 y3 y4 y5
  rw [hyr] at a1
  simp only [endHead, hlen, if_true] at hend
  obtain ⟨r, hr'⟩ : ∃ r, r = allContentReceived app y := ⟨_, rfl⟩
  rw [← hr'] at a1 a2 a3 a4 hend
  refine ⟨⟨m, t, v, chs, []⟩, contOuts chs v ++ r.2, by rw [delivered_append, delivered_cont, a1]; rfl,
    rfl, rfl, rfl, rfl, ?_⟩
  cases hp : checkPersistence chs v with
  | true =>
    left
    obtain ⟨b1, b2, b3⟩ := a3 (by rw [y9]; exact hp)
    rw [y6] at b2
    rw [requeue_eta _ b2] at b1
    refine ⟨rfl, r.1, b1, ?_⟩
    rw [D_line app x' (CR :: LF :: r2) [] r2 hlm (takeLine_crlf r2) (by simp) (by rw [hend]; exact b2), hend]
    simp [b3, a2]
  | false =>
    right
    obtain ⟨b1, b2⟩ := a4 (by rw [y9]; exact hp)
    refine ⟨rfl, r.1, r2, b1, a2, ?_⟩
    rw [D_line app x' (CR :: LF :: r2) [] r2 hlm (takeLine_crlf r2) (by simp) (by rw [hend]; exact b2), hend]
    simp [b1]

/-- the empty line ends the head and a body follows: raw mode, and the decoder finishes on the buffered bytes -/
theorem end_body (app : App) (hfin : AtOnce app) (c : Chan) (fl : Nat) (hc : Ready c fl) (m t v : Bytes)
    (size n : Nat) (chs : Headers) (frm : R.Framing) (hlen : lenOf frm ≠ some 0)
    (x' : Chan) (r2 : Bytes) (hlm : x'.lineMode = true)
    (hend : lineReceived app x' [] = endHead app (afterHead c m t v size n chs frm) (contOuts chs v) frm)
    (dcd : Decoder) (extra : Bytes) (hlt : extra.length < r2.length)
    (hraw : rawDataReceived app { afterHead c m t v size n chs frm with lineMode := false } r2 =
      allContentReceived app { afterHead c m t v size n chs frm with lineMode := false, decoder := dcd, dataBuffer := extra }) :
    MsgDone app x' (CR :: LF :: r2) extra m t v dcd.body := by
  obtain ⟨y1, y2, y3, y4, y5, y6, y7, y8, y9⟩ := afterHead_facts c fl hc m t v size n chs frm
  obtain ⟨w, hw⟩ : ∃ w : Chan, w = { afterHead c m t v size n chs frm with lineMode := false } := ⟨_, rfl⟩
  have hend' : lineReceived app x' [] = (w, contOuts chs v) := by
    rw [hend, hw]; unfold endHead; rw [if_neg hlen]
  have hraw' : rawDataReceived app w r2 = allContentReceived app { w with decoder := dcd, dataBuffer := extra } := by
    rw [hw]; exact hraw
  have w1 : w.requeue = [] := by rw [hw]; exact y1
  have w2 : w.closed = false := by rw [hw]; exact y2
  have w3 : w.raised = none := by rw [hw]; exact y3
  have w4 : w.dead = false := by rw [hw]; exact y4
  have w5 : w.header = [] := by rw [hw]; exact y5
  have w6 : w.persistent = checkPersistence chs v := by rw [hw]; exact y9
  have wr : (⟨w.command, w.path, w.version, w.reqHeaders, dcd.body⟩ : Req) = ⟨m, t, v, chs, dcd.body⟩ := by
    rw [hw]; rfl
  obtain ⟨o, ho, hcase⟩ := D_raw_finish app hfin w r2 dcd extra (by rw [hw]) w1 w2 w3 w4 w5 hraw' hlt
  rw [wr] at ho
  rw [w6] at hcase
  have hD : D app x' (CR :: LF :: r2) = pre (contOuts chs v) (D app w r2) := by
    rw [D_line app x' (CR :: LF :: r2) [] r2 hlm (takeLine_crlf r2) (by simp) (by rw [hend']; exact w1), hend']
    simp only [w2, w3, and_self, if_true]
  refine ⟨⟨m, t, v, chs, dcd.body⟩, contOuts chs v ++ o, by rw [delivered_append, delivered_cont, ho]; rfl,
    rfl, rfl, rfl, rfl, ?_⟩
  rcases hcase with ⟨hp, z, hz, hDz⟩ | ⟨hp, z, b, hz1, hz2, hDz⟩
  · left
    refine ⟨hp, z, hz, ?_⟩
    rw [hD, hDz, pre_pre]
  · right
    refine ⟨hp, z, b, hz1, hz2, ?_⟩
    rw [hD, hDz]; rfl

theorem MsgDone_of_eq (app : App) (c c' : Chan) (s s' rest m t v body : Bytes) (h : D app c s = D app c' s')
    (hm : MsgDone app c' s' rest m t v body) : MsgDone app c s rest m t v body := by
  unfold MsgDone at hm ⊢
  rw [h]; exact hm

theorem raw_ident (app : App) (w : Chan) (n : Nat) (B : Bytes) (hh : w.handling = false)
    (hdec : w.decoder = .ident (Ident.init (some n))) (hdb : w.dataBuffer = []) (hge : ¬ B.length < n) :
    rawDataReceived app w B =
      allContentReceived app { w with decoder := .ident ⟨some 0, false, B.take n, [B.drop n]⟩, dataBuffer := B.drop n } := by
  cases w
  simp only at hh hdec hdb
  subst hh hdec hdb
  simp [rawDataReceived, Ident.dataReceived, Ident.init, hge, finishRequestBody]

theorem raw_chunked (app : App) (w : Chan) (B : Bytes) (d : Dec) (extra : Bytes) (hh : w.handling = false)
    (hdec : w.decoder = .chunked Twisted.Http.Chunked.init) (hdb : w.dataBuffer = [])
    (hd : Twisted.Http.Chunked.dataReceived Twisted.Http.Chunked.init B = .ok d) (hf : d.fin = [extra]) :
    rawDataReceived app w B = allContentReceived app { w with decoder := .chunked d, dataBuffer := extra } := by
  cases w
  simp only at hh hdec hdb
  subst hh hdec hdb
  simp [rawDataReceived, hd, hf, finishRequestBody]

theorem raw_chunked_bad (app : App) (w : Chan) (B : Bytes) (d : Dec) (hh : w.handling = false)
    (hdec : w.decoder = .chunked Twisted.Http.Chunked.init)
    (hd : Twisted.Http.Chunked.dataReceived Twisted.Http.Chunked.init B = .error (.malformed, d)) :
    rawDataReceived app w B = badRequest w := by
  cases w
  simp only at hh hdec
  subst hh hdec
  simp [rawDataReceived, hd]

theorem chunked_rest_lt (fuel : Nat) (s body rest : Bytes) (h : R.chunkedBody fuel s = .ok (body, rest)) :
    rest.length < s.length := by
  obtain ⟨chunks, last, trailers, _, _, _, _, hs, _⟩ := chunked_decomp fuel s body rest h
  rw [hs]
  simp [C22.encode]
  omega

/-- the decoder refuses the body: 400 after whatever `100 Continue` was sent -/
theorem end_badbody (app : App) (c : Chan) (fl : Nat) (hc : Ready c fl) (m t v : Bytes)
    (size n : Nat) (chs : Headers) (x' : Chan) (r2 : Bytes) (hlm : x'.lineMode = true)
    (hend : lineReceived app x' [] = endHead app (afterHead c m t v size n chs .chunked) (contOuts chs v) .chunked)
    (d : Dec) (hd : Twisted.Http.Chunked.dataReceived Twisted.Http.Chunked.init r2 = .error (.malformed, d)) :
    RefusedRun' (D app x' (CR :: LF :: r2)) := by
  obtain ⟨y1, y2, y3, y4, y5, y6, y7, y8, y9⟩ := afterHead_facts c fl hc m t v size n chs .chunked
  obtain ⟨w, hw⟩ : ∃ w : Chan, w = { afterHead c m t v size n chs .chunked with lineMode := false } := ⟨_, rfl⟩
  have hend' : lineReceived app x' [] = (w, contOuts chs v) := by
    rw [hend, hw]; unfold endHead; rw [if_neg (by simp [lenOf])]
  have w1 : w.requeue = [] := by rw [hw]; exact y1
  have w2 : w.closed = false := by rw [hw]; exact y2
  have w3 : w.raised = none := by rw [hw]; exact y3
  have w0 : w.lineMode = false := by rw [hw]
  have hraw := raw_chunked_bad app w r2 d (by rw [hw]; exact y7) (by rw [hw]; exact y8) hd
  have hB : r2 ≠ [] := by
    intro h; subst h
    simp [Twisted.Http.Chunked.dataReceived, Dec.append, Twisted.Http.Chunked.init, C22.loop_eq] at hd
  have hstep : stepLoop app w r2 =
      ⟨{ (badRequest w).1 with requeue := [] }, [], [.write badRequestBytes, .lose], true⟩ := by
    simp [stepLoop, w0, hraw, badRequest, w1, w3]
  have hD : D app x' (CR :: LF :: r2) = pre (contOuts chs v) (D app w r2) := by
    rw [D_line app x' (CR :: LF :: r2) [] r2 hlm (takeLine_crlf r2) (by simp) (by rw [hend']; exact w1), hend']
    simp only [w2, w3, and_self, if_true]
  rw [hD, D_go app w r2 hB (by rw [hstep]) (by rw [hstep]; exact List.length_pos_iff.mpr hB), hstep]
  dsimp only
  rw [D_nil]
  exact ⟨rfl, contOuts chs v, by simp [pre], delivered_cont chs v⟩

end TwistedProps.C19
