import TwistedProps.C19.Defs
/-!
C19, framing: the reference's whole-list decision `R.framing hs` (RFC 9112 §6.3) against the
incremental `choose .none hs`.
-/
namespace TwistedProps.C19

theorem framing_forall_uint8 (P : UInt8 → Prop) (h : ∀ n : Fin 256, P (UInt8.ofNat n.val)) : ∀ c, P c := by
  intro c; have := h ⟨c.toNat, c.toNat_lt⟩; simpa using this

/-! ### the body of `R.framing` over the two value lists -/

def framing_core (cls tes : List R.Bytes) : Except R.Stop R.Framing :=
  if !tes.isEmpty && !cls.isEmpty then
    if tes.all fun t => R.lower (R.stripBy R.isWs t) = R.sIdentity then .error (.bad .teIdentity)
    else .error (.bad .clTe)
  else if !tes.isEmpty then
    let cs := R.codings tes
    if cs = [R.sChunked] && tes.length = 1 && tes.map R.lower = [R.sChunked] then .ok .chunked
    else if tes.length > 1 && cs.all (· = R.sChunked) then .error (.bad .teRepeated)
    else if cs.getLast? = some R.sChunked && cs.all (fun c => R.isToken (R.codingName c)) then .error .may
    else if cs.contains R.sIdentity && cs.all (fun c => c = R.sIdentity || c = R.sChunked) then .error (.bad .teIdentity)
    else .error (.bad .teUnsupported)
  else match cls with
    | [] => .ok .none
    | [v] =>
      if !v.isEmpty && v.all R.isDigit then
        if v.length > R.maxDigits then .error (.bad .clDigits) else .ok (.length (R.decVal v))
      else if R.isNumberList v then .error .may
      else .error (.bad .clNonnumeric)
    | _ => .error (.bad .clRepeated)

theorem framing_eq_core (hs : List (R.Bytes × R.Bytes)) :
    R.framing hs = framing_core (R.fieldValues hs R.sContentLength) (R.fieldValues hs R.sTransferEncoding) := rfl

theorem framing_core_nil_nil : framing_core [] [] = .ok .none := rfl

theorem framing_core_cl1 (v : R.Bytes) : framing_core [v] [] =
    if !v.isEmpty && v.all R.isDigit then
      (if v.length > R.maxDigits then .error (.bad .clDigits) else .ok (.length (R.decVal v)))
    else if R.isNumberList v then .error .may
    else .error (.bad .clNonnumeric) := rfl

theorem framing_core_cl2 (v w : R.Bytes) (r : List R.Bytes) :
    framing_core (v :: w :: r) [] = .error (.bad .clRepeated) := rfl

theorem framing_core_both (c : R.Bytes) (cs : List R.Bytes) (t : R.Bytes) (ts : List R.Bytes) :
    framing_core (c :: cs) (t :: ts) =
      if (t :: ts).all fun t => R.lower (R.stripBy R.isWs t) = R.sIdentity then .error (.bad .teIdentity)
      else .error (.bad .clTe) := rfl

theorem framing_core_te (t : R.Bytes) (ts : List R.Bytes) :
    framing_core [] (t :: ts) =
      if R.codings (t :: ts) = [R.sChunked] && (t :: ts).length = 1 && (t :: ts).map R.lower = [R.sChunked] then .ok .chunked
      else if (t :: ts).length > 1 && (R.codings (t :: ts)).all (· = R.sChunked) then .error (.bad .teRepeated)
      else if (R.codings (t :: ts)).getLast? = some R.sChunked &&
          (R.codings (t :: ts)).all (fun c => R.isToken (R.codingName c)) then .error .may
      else if (R.codings (t :: ts)).contains R.sIdentity &&
          (R.codings (t :: ts)).all (fun c => c = R.sIdentity || c = R.sChunked) then .error (.bad .teIdentity)
      else .error (.bad .teUnsupported) := rfl

/-! ### field values, one step of the chooser -/

theorem framing_ne : R.sContentLength ≠ R.sTransferEncoding := by decide +kernel

theorem framing_fv_nil (name : R.Bytes) : R.fieldValues [] name = [] := rfl

theorem framing_fv_cons (h : R.Bytes × R.Bytes) (hs : List (R.Bytes × R.Bytes)) (name : R.Bytes) :
    R.fieldValues (h :: hs) name = if h.1 = name then h.2 :: R.fieldValues hs name else R.fieldValues hs name := by
  by_cases e : h.1 = name
  · simp [Twisted.Http.Rfc9112Request.fieldValues, e]
  · simp [Twisted.Http.Rfc9112Request.fieldValues, e]

def framing_clOK (v : R.Bytes) : Prop :=
  v.all R.isDigit = true ∧ v.isEmpty = false ∧ v.length ≤ R.maxDigits

def framing_teOK (v : R.Bytes) : Prop := R.lower v = R.sChunked ∨ R.lower v = R.sIdentity

def framing_cap : R.Framing → Nat
  | .none => 1
  | _ => 0

theorem framing_cap_none : framing_cap .none = 1 := rfl
theorem framing_cap_length (n : Nat) : framing_cap (.length n) = 0 := rfl
theorem framing_cap_chunked : framing_cap .chunked = 0 := rfl

theorem framing_bool1 (A B : Bool) : (¬ (!(A && !B)) = true) ↔ (A = true ∧ B = false) := by
  cases A <;> cases B <;> decide

theorem framing_bool2 (A B : Bool) : ((!B && A) = true) ↔ (A = true ∧ B = false) := by
  cases A <;> cases B <;> decide

theorem framing_step_other (f : R.Framing) (h : R.Bytes × R.Bytes)
    (h1 : h.1 ≠ R.sContentLength) (h2 : h.1 ≠ R.sTransferEncoding) : chooseStep f h = some f := by
  unfold chooseStep; rw [if_neg h1, if_neg h2]

theorem framing_step_cl_ok (h : R.Bytes × R.Bytes) (h1 : h.1 = R.sContentLength) (ok : framing_clOK h.2) :
    chooseStep .none h = some (.length (R.decVal h.2)) := by
  obtain ⟨a, b, c⟩ := ok
  unfold chooseStep
  rw [if_pos h1, if_neg ((framing_bool1 _ _).mpr ⟨a, b⟩), if_neg (Nat.not_lt.mpr c)]
  rfl

theorem framing_step_cl (f : R.Framing) (h : R.Bytes × R.Bytes) (f' : R.Framing)
    (h1 : h.1 = R.sContentLength) (e : chooseStep f h = some f') :
    framing_clOK h.2 ∧ f = .none ∧ f' = .length (R.decVal h.2) := by
  unfold chooseStep at e
  rw [if_pos h1] at e
  split at e
  · cases e
  · rename_i c1
    split at e
    · cases e
    · rename_i c2
      split at e
      · cases e
      · rename_i c3
        simp only [Option.some.injEq] at e
        have q := (framing_bool1 _ _).mp c1
        exact ⟨⟨q.1, q.2, Nat.le_of_not_lt c2⟩, Classical.not_not.mp c3, e.symm⟩

theorem framing_step_te_chunked (h : R.Bytes × R.Bytes) (h2 : h.1 = R.sTransferEncoding)
    (c : R.lower h.2 = R.sChunked) : chooseStep .none h = some .chunked := by
  have h1 : h.1 ≠ R.sContentLength := by rw [h2]; exact fun x => framing_ne x.symm
  unfold chooseStep
  rw [if_neg h1, if_pos h2, if_pos c]
  rfl

theorem framing_step_te (f : R.Framing) (h : R.Bytes × R.Bytes) (f' : R.Framing)
    (h2 : h.1 = R.sTransferEncoding) (e : chooseStep f h = some f') :
    (R.lower h.2 = R.sChunked ∧ f = .none ∧ f' = .chunked) ∨
      (R.lower h.2 ≠ R.sChunked ∧ R.lower h.2 = R.sIdentity ∧ f' = f) := by
  have h1 : h.1 ≠ R.sContentLength := by rw [h2]; exact fun x => framing_ne x.symm
  unfold chooseStep at e
  rw [if_neg h1, if_pos h2] at e
  split at e
  · rename_i c1
    split at e
    · cases e
    · rename_i c2
      simp only [Option.some.injEq] at e
      exact .inl ⟨c1, Classical.not_not.mp c2, e.symm⟩
  · rename_i c1
    split at e
    · rename_i c2
      simp only [Option.some.injEq] at e
      exact .inr ⟨c1, c2, e.symm⟩
    · cases e

theorem framing_choose_cons (f : R.Framing) (h : R.Bytes × R.Bytes) (hs : List (R.Bytes × R.Bytes)) :
    choose f (h :: hs) = match chooseStep f h with
      | none => none
      | some f' => choose f' hs := rfl

/-! ### `framing` accepts ⇒ `choose` gives the same framing -/

theorem framing_choose_pass (hs : List (R.Bytes × R.Bytes)) : ∀ f : R.Framing,
    R.fieldValues hs R.sContentLength = [] → R.fieldValues hs R.sTransferEncoding = [] →
    choose f hs = some f := by
  induction hs with
  | nil => intro f _ _; rfl
  | cons h hs ih =>
    intro f a b
    rw [framing_fv_cons] at a b
    by_cases e1 : h.1 = R.sContentLength
    · rw [if_pos e1] at a; cases a
    · by_cases e2 : h.1 = R.sTransferEncoding
      · rw [if_pos e2] at b; cases b
      · rw [if_neg e1] at a; rw [if_neg e2] at b
        rw [framing_choose_cons, framing_step_other f h e1 e2]
        exact ih f a b

theorem framing_choose_length (hs : List (R.Bytes × R.Bytes)) (v : R.Bytes) (ok : framing_clOK v) :
    R.fieldValues hs R.sContentLength = [v] → R.fieldValues hs R.sTransferEncoding = [] →
    choose .none hs = some (.length (R.decVal v)) := by
  induction hs with
  | nil => intro a _; rw [framing_fv_nil] at a; cases a
  | cons h hs ih =>
    intro a b
    rw [framing_fv_cons] at a b
    by_cases e1 : h.1 = R.sContentLength
    · have e2 : h.1 ≠ R.sTransferEncoding := by rw [e1]; exact framing_ne
      rw [if_pos e1] at a
      rw [if_neg e2] at b
      simp only [List.cons.injEq] at a
      obtain ⟨a1, a2⟩ := a
      subst a1
      rw [framing_choose_cons, framing_step_cl_ok h e1 ok]
      exact framing_choose_pass hs _ a2 b
    · rw [if_neg e1] at a
      by_cases e2 : h.1 = R.sTransferEncoding
      · rw [if_pos e2] at b; cases b
      · rw [if_neg e2] at b
        rw [framing_choose_cons, framing_step_other _ h e1 e2]
        exact ih a b

theorem framing_choose_chunked (hs : List (R.Bytes × R.Bytes)) (v : R.Bytes) (ok : R.lower v = R.sChunked) :
    R.fieldValues hs R.sContentLength = [] → R.fieldValues hs R.sTransferEncoding = [v] →
    choose .none hs = some .chunked := by
  induction hs with
  | nil => intro _ b; rw [framing_fv_nil] at b; cases b
  | cons h hs ih =>
    intro a b
    rw [framing_fv_cons] at a b
    by_cases e1 : h.1 = R.sContentLength
    · rw [if_pos e1] at a; cases a
    · rw [if_neg e1] at a
      by_cases e2 : h.1 = R.sTransferEncoding
      · rw [if_pos e2] at b
        simp only [List.cons.injEq] at b
        obtain ⟨b1, b2⟩ := b
        subst b1
        rw [framing_choose_cons, framing_step_te_chunked h e2 ok]
        exact framing_choose_pass hs _ a b2
      · rw [if_neg e2] at b
        rw [framing_choose_cons, framing_step_other _ h e1 e2]
        exact ih a b

theorem framing_core_ok (cls tes : List R.Bytes) (fr : R.Framing) (h : framing_core cls tes = .ok fr) :
    (fr = .none ∧ cls = [] ∧ tes = []) ∨
    (∃ v, fr = .length (R.decVal v) ∧ cls = [v] ∧ tes = [] ∧ framing_clOK v) ∨
    (∃ v, fr = .chunked ∧ cls = [] ∧ tes = [v] ∧ R.lower v = R.sChunked) := by
  rcases tes with _ | ⟨t, ts⟩
  · rcases cls with _ | ⟨v, _ | ⟨w, r⟩⟩
    · rw [framing_core_nil_nil] at h; cases h; exact .inl ⟨rfl, rfl, rfl⟩
    · rw [framing_core_cl1] at h
      split at h
      · rename_i c1
        split at h
        · cases h
        · rename_i c2
          cases h
          have q := (framing_bool2 _ _).mp c1
          exact .inr (.inl ⟨v, rfl, rfl, rfl, q.1, q.2, Nat.le_of_not_lt c2⟩)
      · split at h <;> cases h
    · rw [framing_core_cl2] at h; cases h
  · rcases cls with _ | ⟨c, cs⟩
    · rw [framing_core_te] at h
      split at h
      · rename_i c1
        cases h
        simp only [Bool.and_eq_true, decide_eq_true_eq] at c1
        obtain ⟨⟨_, _⟩, c13⟩ := c1
        simp only [List.map_cons, List.cons.injEq, List.map_eq_nil_iff] at c13
        obtain ⟨c131, c132⟩ := c13
        subst c132
        exact .inr (.inr ⟨t, rfl, rfl, rfl, c131⟩)
      · split at h
        · cases h
        · split at h
          · cases h
          · split at h <;> cases h
    · rw [framing_core_both] at h; split at h <;> cases h

theorem choose_of_framing_ok (hs : List (R.Bytes × R.Bytes)) (fr : R.Framing)
    (h : R.framing hs = .ok fr) : choose .none hs = some fr := by
  rw [framing_eq_core] at h
  rcases framing_core_ok _ _ _ h with ⟨rfl, a, b⟩ | ⟨v, rfl, a, b, ok⟩ | ⟨v, rfl, a, b, ok⟩
  · exact framing_choose_pass hs _ a b
  · exact framing_choose_length hs v ok a b
  · exact framing_choose_chunked hs v ok a b

/-! ### what a successful `choose` says about the field values -/

theorem framing_success (hs : List (R.Bytes × R.Bytes)) : ∀ f g : R.Framing, choose f hs = some g →
    (∀ v ∈ R.fieldValues hs R.sTransferEncoding, framing_teOK v) ∧
    (∀ v ∈ R.fieldValues hs R.sContentLength, framing_clOK v) ∧
    ((R.fieldValues hs R.sTransferEncoding).filter (fun v => decide (R.lower v = R.sChunked))).length +
      (R.fieldValues hs R.sContentLength).length ≤ framing_cap f := by
  induction hs with
  | nil =>
    intro f g _
    rw [framing_fv_nil, framing_fv_nil]
    exact ⟨fun _ h => (nomatch h), fun _ h => (nomatch h), Nat.zero_le _⟩
  | cons h hs ih =>
    intro f g e
    rw [framing_choose_cons] at e
    cases hstep : chooseStep f h with
    | none => rw [hstep] at e; cases e
    | some f' =>
      rw [hstep] at e
      have e' : choose f' hs = some g := e
      obtain ⟨i1, i2, i3⟩ := ih f' g e'
      by_cases e1 : h.1 = R.sContentLength
      · have e2 : h.1 ≠ R.sTransferEncoding := by rw [e1]; exact framing_ne
        simp only [framing_fv_cons, if_pos e1, if_neg e2]
        obtain ⟨k1, k2, k3⟩ := framing_step_cl f h f' e1 hstep
        subst k2; subst k3
        refine ⟨i1, ?_, ?_⟩
        · intro v hv
          rcases List.mem_cons.mp hv with rfl | hv
          · exact k1
          · exact i2 v hv
        · rw [framing_cap_length] at i3
          rw [framing_cap_none]
          simp only [List.length_cons]
          omega
      · by_cases e2 : h.1 = R.sTransferEncoding
        · simp only [framing_fv_cons, if_neg e1, if_pos e2]
          rcases framing_step_te f h f' e2 hstep with ⟨k1, k2, k3⟩ | ⟨k1, k2, k3⟩
          · subst k2; subst k3
            have q : decide (R.lower h.2 = R.sChunked) = true := decide_eq_true k1
            refine ⟨?_, i2, ?_⟩
            · intro v hv
              rcases List.mem_cons.mp hv with rfl | hv
              · exact .inl k1
              · exact i1 v hv
            · rw [framing_cap_chunked] at i3
              rw [framing_cap_none]
              simp only [List.filter_cons, q, if_true, List.length_cons]
              omega
          · subst k3
            have q : decide (R.lower h.2 = R.sChunked) = false := decide_eq_false k1
            refine ⟨?_, i2, ?_⟩
            · intro v hv
              rcases List.mem_cons.mp hv with rfl | hv
              · exact .inr k2
              · exact i1 v hv
            · simp only [List.filter_cons, q, Bool.false_eq_true, if_false]
              exact i3
        · simp only [framing_fv_cons, if_neg e1, if_neg e2]
          rw [framing_step_other f h e1 e2] at hstep
          cases hstep
          exact ⟨i1, i2, i3⟩

/-! ### octets of values that lower-case to `chunked` / `identity` -/

theorem framing_byte : ∀ c : UInt8, (R.lowerByte c ∈ R.sChunked ∨ R.lowerByte c ∈ R.sIdentity) →
    c ≠ 44 ∧ R.isOWS c = false ∧ R.isWs c = false := by
  apply framing_forall_uint8; decide +kernel

theorem framing_bytes (v : R.Bytes) (ok : framing_teOK v) :
    ∀ c ∈ v, c ≠ 44 ∧ R.isOWS c = false ∧ R.isWs c = false := by
  intro c hc
  apply framing_byte
  have m : R.lowerByte c ∈ R.lower v := List.mem_map.mpr ⟨c, hc, rfl⟩
  rcases ok with o | o
  · left; rw [← o]; exact m
  · right; rw [← o]; exact m

theorem framing_dropWhile_id (p : UInt8 → Bool) (l : R.Bytes) (h : ∀ c ∈ l, p c = false) :
    l.dropWhile p = l := by
  cases l with
  | nil => rfl
  | cons c r => simp [h c (List.mem_cons.mpr (.inl rfl))]

theorem framing_stripBy_id (p : UInt8 → Bool) (l : R.Bytes) (h : ∀ c ∈ l, p c = false) :
    R.stripBy p l = l := by
  unfold Twisted.Http.Rfc9112Request.stripBy
  rw [framing_dropWhile_id p l h,
    framing_dropWhile_id p l.reverse (fun c hc => h c (List.mem_reverse.mp hc)), List.reverse_reverse]

theorem framing_splitAt_id (sep : UInt8) (l : R.Bytes) (h : ∀ c ∈ l, c ≠ sep) : R.splitAt sep l = [l] := by
  induction l with
  | nil => rfl
  | cons c r ih =>
    have hc : c ≠ sep := h c (List.mem_cons.mpr (.inl rfl))
    have hr := ih (fun d hd => h d (List.mem_cons.mpr (.inr hd)))
    simp only [Twisted.Http.Rfc9112Request.splitAt, if_neg hc, hr]

theorem framing_te_coding (v : R.Bytes) (ok : framing_teOK v) :
    (R.splitAt 44 v).map (fun t => R.lower (R.stripBy R.isOWS t)) = [R.lower v] := by
  have b := framing_bytes v ok
  rw [framing_splitAt_id 44 v (fun c hc => (b c hc).1)]
  simp only [List.map_cons, List.map_nil]
  rw [framing_stripBy_id R.isOWS v (fun c hc => (b c hc).2.1)]

theorem framing_te_ws (v : R.Bytes) (ok : framing_teOK v) : R.lower (R.stripBy R.isWs v) = R.lower v := by
  have b := framing_bytes v ok
  rw [framing_stripBy_id R.isWs v (fun c hc => (b c hc).2.2)]

theorem framing_codings_cons (v : R.Bytes) (tes : List R.Bytes) :
    R.codings (v :: tes) = (R.splitAt 44 v).map (fun t => R.lower (R.stripBy R.isOWS t)) ++ R.codings tes := by
  first | rfl | simp [Twisted.Http.Rfc9112Request.codings]

theorem framing_codings_eq (tes : List R.Bytes) (h : ∀ v ∈ tes, framing_teOK v) :
    R.codings tes = tes.map R.lower := by
  induction tes with
  | nil => rfl
  | cons v tes ih =>
    rw [framing_codings_cons, framing_te_coding v (h v (List.mem_cons.mpr (.inl rfl))),
      ih (fun w hw => h w (List.mem_cons.mpr (.inr hw)))]
    rfl

theorem framing_id_ne_chunked : R.sIdentity ≠ R.sChunked := by decide +kernel

/-! ### `choose` succeeds ⇒ `framing` does not refuse (except as `teIdentity`) -/

theorem framing_core_bad (cls tes : List R.Bytes) (k : R.BadKey)
    (h : framing_core cls tes = .error (.bad k)) (hk : k ≠ .teIdentity)
    (a : ∀ v ∈ tes, framing_teOK v) (b : ∀ v ∈ cls, framing_clOK v)
    (c : (tes.filter (fun v => decide (R.lower v = R.sChunked))).length + cls.length ≤ 1) : False := by
  rcases tes with _ | ⟨t, ts⟩
  · rcases cls with _ | ⟨v, _ | ⟨w, r⟩⟩
    · rw [framing_core_nil_nil] at h; cases h
    · obtain ⟨b1, b2, b3⟩ := b v (List.mem_cons.mpr (.inl rfl))
      rw [framing_core_cl1, if_pos ((framing_bool2 _ _).mpr ⟨b1, b2⟩), if_neg (Nat.not_lt.mpr b3)] at h
      cases h
    · simp only [List.length_cons] at c; omega
  · rcases cls with _ | ⟨c0, cs⟩
    · have ce := framing_codings_eq (t :: ts) a
      rw [framing_core_te, ce] at h
      by_cases A : ∀ v ∈ t :: ts, R.lower v = R.sChunked
      · have fe : (t :: ts).filter (fun v => decide (R.lower v = R.sChunked)) = t :: ts :=
          List.filter_eq_self.mpr (fun v hv => decide_eq_true (A v hv))
        rw [fe] at c
        simp only [List.length_cons, List.length_nil] at c
        have tn : ts = [] := List.eq_nil_of_length_eq_zero (by omega)
        subst tn
        have lt : R.lower t = R.sChunked := A t (List.mem_cons.mpr (.inl rfl))
        split at h
        · cases h
        · rename_i n
          exact n (by simp [lt])
      · have ⟨v, hv, nv⟩ : ∃ v, v ∈ t :: ts ∧ R.lower v ≠ R.sChunked := by
          apply Classical.byContradiction
          intro n
          apply A
          intro v hv
          apply Classical.byContradiction
          intro nv
          exact n ⟨v, hv, nv⟩
        have iv : R.lower v = R.sIdentity := (a v hv).resolve_left nv
        have mem : R.sIdentity ∈ (t :: ts).map R.lower := by
          rw [← iv]; exact List.mem_map.mpr ⟨v, hv, rfl⟩
        have all : ∀ x ∈ (t :: ts).map R.lower, x = R.sIdentity ∨ x = R.sChunked := by
          intro x hx
          obtain ⟨w, hw, rfl⟩ := List.mem_map.mp hx
          exact (a w hw).symm
        split at h
        · cases h
        · split at h
          · rename_i n2
            simp only [Bool.and_eq_true, List.all_eq_true, decide_eq_true_eq] at n2
            exact framing_id_ne_chunked (n2.2 _ mem)
          · split at h
            · cases h
            · split at h
              · cases h; exact hk rfl
              · rename_i n4
                apply n4
                simp only [Bool.and_eq_true, List.all_eq_true, Bool.or_eq_true, decide_eq_true_eq]
                exact ⟨by simpa using mem, all⟩
    · rw [framing_core_both] at h
      simp only [List.length_cons] at c
      generalize hF : (t :: ts).filter (fun v => decide (R.lower v = R.sChunked)) = F at c
      have fn : F = [] := List.eq_nil_of_length_eq_zero (by omega)
      subst fn
      have allid : ∀ v ∈ t :: ts, R.lower (R.stripBy R.isWs v) = R.sIdentity := by
        intro v hv
        have nc : R.lower v ≠ R.sChunked := by
          intro x
          have m : v ∈ (t :: ts).filter (fun v => decide (R.lower v = R.sChunked)) :=
            List.mem_filter.mpr ⟨hv, decide_eq_true x⟩
          rw [hF] at m; cases m
        rw [framing_te_ws v (a v hv)]; exact (a v hv).resolve_left nc
      rw [if_pos (List.all_eq_true.mpr (fun v hv => decide_eq_true (allid v hv)))] at h
      cases h; exact hk rfl

theorem choose_of_framing_bad (hs : List (R.Bytes × R.Bytes)) (k : R.BadKey)
    (h : R.framing hs = .error (.bad k)) (hk : k ≠ .teIdentity) : choose .none hs = none := by
  cases e : choose .none hs with
  | none => rfl
  | some g =>
    exfalso
    obtain ⟨a, b, c⟩ := framing_success hs .none g e
    rw [framing_eq_core] at h
    rw [framing_cap_none] at c
    exact framing_core_bad _ _ k h hk a b c

end TwistedProps.C19
