import TwistedProps.C19.Basic
/-!
C19, shared definitions: the incremental choice of the body framing that `_maybeChooseTransferDecoder`
makes field line by field line, written over the reference's field list (lower-case names,
trimmed values) with the reference's own octet functions.  `C19/Framing.lean` relates it to the
reference's `framing` (RFC 9112 §6.3, decided on the whole field section); `C19/Head.lean` shows that
the channel model follows it.
-/
namespace TwistedProps.C19
namespace R
export Twisted.Http.Rfc9112Request (Bytes BadKey Stop Msg Framing isDigit isAlpha isVchar isHex isTchar isToken isOWS isWs
  lowerByte lower stripBy splitAt splitFirst startsOWS startsCRLF decVal hexDigitVal hexVal
  sContentLength sTransferEncoding sChunked sIdentity sHttp10 sHttp11 maxLine maxFields maxChunkLine maxTrailer maxDigits
  isVersion parseRequestLine parseFieldLine fieldLines fieldValues trailerSection badExtByte parseChunkLine chunkedBody
  codings codingName isNumberList framing parseOne messages parseStream)
end R

/-- one field line seen by the incremental chooser; `none` = refused (400) -/
def chooseStep (f : R.Framing) (h : R.Bytes × R.Bytes) : Option R.Framing :=
  if h.1 = R.sContentLength then
    if !(h.2.all R.isDigit && !h.2.isEmpty) then none
    else if h.2.length > R.maxDigits then none
    else if f ≠ .none then none
    else some (.length (R.decVal h.2))
  else if h.1 = R.sTransferEncoding then
    if R.lower h.2 = R.sChunked then (if f ≠ .none then none else some .chunked)
    else if R.lower h.2 = R.sIdentity then some f
    else none
  else some f

/-- the field lines in order -/
def choose : R.Framing → List (R.Bytes × R.Bytes) → Option R.Framing
  | f, [] => some f
  | f, h :: hs =>
    match chooseStep f h with
    | none => none
    | some f' => choose f' hs

end TwistedProps.C19
