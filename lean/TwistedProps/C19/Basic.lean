import TwistedModel.Http.Channel
import TwistedModel.Http.Rfc9112Request
/-!
C19, basic lemmas: the receive loop of the channel model one iteration at a time, and the line
splitter of the reference (`takeLine`) against the one of the channel (`findCRLF` / `take` / `drop`).
-/
namespace TwistedProps.C19
open Twisted.Http.Chunked hiding St feed init
open Twisted.Http.Channel
open Twisted.Http (Rfc9112Request.takeLine)
namespace R
export Twisted.Http.Rfc9112Request (takeLine)
end R

/-! ### fuel of the receive loop (as in `TwistedProps/C18/Basic.lean`) -/

theorem drain_fuel (app : App) : ∀ (n m : Nat) (c : Chan) (B : Bytes), B.length < n → B.length < m →
    drain app n c B = drain app m c B := by
  intro n
  induction n with
  | zero => intro m c B h; omega
  | succ n ih =>
    intro m c B hn hm
    cases m with
    | zero => omega
    | succ m =>
      simp only [drain]
      split
      · rfl
      · split
        · rfl
        · split
          · rename_i hlt
            rw [ih m _ _ (by omega) (by omega)]
          · rfl

/-- the loop with the fuel `dataReceived` gives it -/
def D (app : App) (c : Chan) (B : Bytes) : Chan × Bytes × List Out := drain app (B.length + 1) c B

/-- outputs `o` first, then the run `x` -/
def pre (o : List Out) (x : Chan × Bytes × List Out) : Chan × Bytes × List Out := (x.1, x.2.1, o ++ x.2.2)

theorem pre_nil (x : Chan × Bytes × List Out) : pre [] x = x := rfl
theorem pre_pre (a b : List Out) (x : Chan × Bytes × List Out) : pre a (pre b x) = pre (a ++ b) x := by
  simp [pre]

theorem D_eq (app : App) (c : Chan) (B : Bytes) :
    D app c B =
      if B.isEmpty then (c, B, [])
      else
        let r := stepLoop app c B
        if !r.goOn then (r.chan, r.buffer, r.outs)
        else if r.buffer.length < B.length then pre r.outs (D app r.chan r.buffer)
        else ({ r.chan with raised := some .stuck }, r.buffer, r.outs) := by
  show drain app (B.length + 1) c B = _
  simp only [drain]
  by_cases hB : B.isEmpty = true
  · simp [hB]
  · simp only [hB]
    by_cases hg : (!(stepLoop app c B).goOn) = true
    · simp [hg]
    · simp only [hg]
      by_cases hlt : (stepLoop app c B).buffer.length < B.length
      · simp only [hlt, if_true]
        rw [drain_fuel app B.length ((stepLoop app c B).buffer.length + 1) _ _ hlt (by omega)]
        rfl
      · simp only [hlt, if_false]

theorem D_nil (app : App) (c : Chan) : D app c [] = (c, [], []) := by
  rw [D_eq]; simp

theorem D_stop (app : App) (c : Chan) (B : Bytes) (hB : B ≠ []) (h : (stepLoop app c B).goOn = false) :
    D app c B = ((stepLoop app c B).chan, (stepLoop app c B).buffer, (stepLoop app c B).outs) := by
  rw [D_eq]; simp [hB, h]

theorem D_go (app : App) (c : Chan) (B : Bytes) (hB : B ≠ []) (h : (stepLoop app c B).goOn = true)
    (hlt : (stepLoop app c B).buffer.length < B.length) :
    D app c B = pre (stepLoop app c B).outs (D app (stepLoop app c B).chan (stepLoop app c B).buffer) := by
  rw [D_eq]; simp [hB, h, hlt]

/-! ### `takeLine` is `findCRLF` + `take` + `drop` -/

theorem takeLine_cons2 (c d : UInt8) (rest : Bytes) :
    R.takeLine (c :: d :: rest) =
      if c = 13 ∧ d = 10 then some ([], rest)
      else match R.takeLine (d :: rest) with
        | some p => some (c :: p.1, p.2)
        | none => none := by
  rw [Twisted.Http.Rfc9112Request.takeLine]
  split
  · rfl
  · cases Twisted.Http.Rfc9112Request.takeLine (d :: rest) <;> rfl

theorem takeLine_some : ∀ (s line rest : Bytes), R.takeLine s = some (line, rest) →
    s = line ++ CR :: LF :: rest ∧ ∀ k, findCRLFFrom s k = some (k + line.length) := by
  intro s
  induction s with
  | nil => intro line rest h; simp [Twisted.Http.Rfc9112Request.takeLine] at h
  | cons c t ih =>
    intro line rest h
    cases t with
    | nil => simp [Twisted.Http.Rfc9112Request.takeLine] at h
    | cons d t' =>
      rw [takeLine_cons2] at h
      split at h
      · rename_i hcd
        obtain ⟨rfl, rfl⟩ := hcd
        simp only [Option.some.injEq, Prod.mk.injEq] at h
        obtain ⟨rfl, rfl⟩ := h
        refine ⟨rfl, fun k => ?_⟩
        simp [findCRLFFrom, CR, LF]
      · rename_i hcd
        cases hr : R.takeLine (d :: t') with
        | none => simp [hr] at h
        | some p =>
          simp only [hr, Option.some.injEq, Prod.mk.injEq] at h
          obtain ⟨rfl, rfl⟩ := h
          obtain ⟨h1, h2⟩ := ih p.1 p.2 (by rw [hr])
          refine ⟨by rw [h1]; rfl, fun k => ?_⟩
          have hne : ¬ (c = CR ∧ (d :: t').head? = some LF) := by
            simpa [CR, LF] using hcd
          rw [findCRLFFrom, if_neg hne, h2 (k + 1)]
          simp; omega

theorem takeLine_none : ∀ (s : Bytes), R.takeLine s = none → ∀ k, findCRLFFrom s k = none := by
  intro s
  induction s with
  | nil => intro _ k; rfl
  | cons c t ih =>
    intro h k
    cases t with
    | nil => simp [findCRLFFrom]
    | cons d t' =>
      rw [takeLine_cons2] at h
      split at h
      · simp at h
      · rename_i hcd
        cases hr : R.takeLine (d :: t') with
        | some p => simp [hr] at h
        | none =>
          have hne : ¬ (c = CR ∧ (d :: t').head? = some LF) := by
            simpa [CR, LF] using hcd
          rw [findCRLFFrom, if_neg hne]
          exact ih hr (k + 1)

theorem findCRLF0 (s : Bytes) : findCRLF s 0 = findCRLFFrom s 0 := by simp [findCRLF]

/-- the reference's line is the channel's line -/
theorem takeLine_find (s line rest : Bytes) (h : R.takeLine s = some (line, rest)) :
    findCRLF s 0 = some line.length ∧ s.take line.length = line ∧ s.drop (line.length + 2) = rest := by
  obtain ⟨h1, h2⟩ := takeLine_some s line rest h
  refine ⟨by rw [findCRLF0, h2 0]; simp, ?_, ?_⟩
  · rw [h1]; simp
  · rw [h1]
    have : line ++ CR :: LF :: rest = (line ++ [CR, LF]) ++ rest := by simp
    rw [this, List.drop_left' (by simp)]

theorem takeLine_find_none (s : Bytes) (h : R.takeLine s = none) : findCRLF s 0 = none := by
  rw [findCRLF0]; exact takeLine_none s h 0

end TwistedProps.C19
