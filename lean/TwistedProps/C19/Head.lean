import TwistedProps.C19.Bridge
import TwistedProps.C19.Framing
import TwistedProps.C19.Chunked
/-!
C19: the channel model reading the head of one request (request line, field lines, empty line),
in lockstep with the reference parser.
-/
namespace TwistedProps.C19
open Twisted.Http.Chunked hiding St feed init
open Twisted.Http.Channel

/-! ### one line of the receive loop -/

theorem requeue_eta (c : Chan) (h : c.requeue = []) : { c with requeue := [] } = c := by
  cases c; simp_all

/-- a complete line of at most 16384 octets in line mode: `lineReceived`, then on with the rest -/
theorem D_line (app : App) (c : Chan) (s line rest : Bytes) (hm : c.lineMode = true)
    (ht : R.takeLine s = some (line, rest)) (hl : line.length ≤ 16384)
    (hq : (lineReceived app c line).1.requeue = []) :
    D app c s =
      if (lineReceived app c line).1.closed = false ∧ (lineReceived app c line).1.raised = none then
        pre (lineReceived app c line).2 (D app (lineReceived app c line).1 rest)
      else ((lineReceived app c line).1, rest, (lineReceived app c line).2) := by
  obtain ⟨hf, htake, hdrop⟩ := takeLine_find s line rest ht
  obtain ⟨hs, _⟩ := takeLine_some s line rest ht
  have hne : s ≠ [] := by rw [hs]; simp
  have hstep : stepLoop app c s =
      ⟨(lineReceived app c line).1, rest, (lineReceived app c line).2,
        !(lineReceived app c line).1.closed && (lineReceived app c line).1.raised.isNone⟩ := by
    simp only [stepLoop, hm, if_true, hf]
    have : ¬ line.length > maxLength := by simp only [maxLength]; omega
    simp only [this, if_false, htake, hdrop, hq, List.append_nil]
    rw [requeue_eta _ hq]
  by_cases hgo : (lineReceived app c line).1.closed = false ∧ (lineReceived app c line).1.raised = none
  · rw [if_pos hgo, D_go app c s hne (by rw [hstep]; simp [hgo.1, hgo.2]) (by rw [hstep, hs]; simp; omega)]
    rw [hstep]
  · rw [if_neg hgo, D_stop app c s hne (by
      rw [hstep]
      simp only [Bool.and_eq_false_iff, Bool.not_eq_false', Option.isNone_eq_false_iff]
      by_cases hc : (lineReceived app c line).1.closed = true
      · exact Or.inl hc
      · right
        have hc' : (lineReceived app c line).1.closed = false := by simpa using hc
        cases hr : (lineReceived app c line).1.raised with
        | none => exact absurd ⟨hc', hr⟩ hgo
        | some e => simp)]
    rw [hstep]

/-! ### channel states -/

/-- between requests: nothing of a request read yet (`firstLine` is 1, or 2 after one empty line) -/
structure Ready (c : Chan) (fl : Nat) : Prop where
  lineMode : c.lineMode = true
  firstLine : c.firstLine = fl
  header : c.header = []
  length : c.length = some 0
  persistent : c.persistent = true
  hdrCount : c.hdrCount = 0
  hdrSize : c.hdrSize = 0
  handling : c.handling = false
  dataBuffer : c.dataBuffer = []
  decoder : c.decoder = .none
  dead : c.dead = false
  requeue : c.requeue = []
  closed : c.closed = false
  raised : c.raised = none

def decOf : R.Framing → Decoder
  | .none => .none
  | .length n => .ident (Ident.init (some n))
  | .chunked => .chunked Twisted.Http.Chunked.init

def lenOf : R.Framing → Option Nat
  | .none => some 0
  | .length n => some n
  | .chunked => none

/-- in the field section: request line read, `n` field lines processed into `hs` with framing decision
    `fr`, the line `pend` held back (`__header`), `size` octets of head lines so far -/
def inHead (c : Chan) (m t v : Bytes) (size : Nat) (pend : Bytes) (n : Nat) (hs : Headers) (fr : R.Framing) : Chan :=
  { c with firstLine := 0, command := m, path := t, version := v, hdrSize := size, header := pend,
           hdrCount := n, reqHeaders := hs, decoder := decOf fr, length := lenOf fr }

/-- what a refusal leaves: connection closing, exactly the 400 written -/
def RefusedRun (x : Chan × Bytes × List Out) : Prop :=
  x.1.closed = true ∧ x.2.2 = [.write badRequestBytes, .lose]

theorem lineReceived_skip (app : App) (c : Chan) (hc : Ready c 1) :
    lineReceived app c [] = ({ c with firstLine := 2 }, []) ∧ Ready { c with firstLine := 2 } 2 := by
  obtain ⟨h1, h2, h3, h4, h5, h6, h7, h8, h9, h10, h11, h12, h13, h14⟩ := hc
  refine ⟨?_, ⟨h1, rfl, h3, h4, h5, h6, h7, h8, h9, h10, h11, h12, h13, h14⟩⟩
  cases c
  simp_all [lineReceived, totalHeadersSize]

theorem lineReceived_reqline (app : App) (c : Chan) (fl : Nat) (hfl : fl = 1 ∨ fl = 2) (hc : Ready c fl)
    (line m t v : Bytes) (hp : parseRequestLine line = some (m, t, v)) (hl : line.length ≤ 16384) :
    lineReceived app c line = (inHead c m t v line.length [] 0 [] .none, []) := by
  have hne : line ≠ [] := by
    intro h; subst h; simp [parseRequestLine, splitOn] at hp
  obtain ⟨h1, h2, h3, h4, h5, h6, h7, h8, h9, h10, h11, h12, h13, h14⟩ := hc
  have hfl0 : c.firstLine ≠ 0 := by rw [h2]; omega
  cases c
  simp only at h1 h2 h3 h4 h5 h6 h7 h8 h9 h10 h11 h12 h13 h14 hfl0
  subst h1 h3 h4 h5 h6 h7 h8 h9 h10 h11 h12 h13 h14
  have : ¬ line.length > totalHeadersSize := by simp only [totalHeadersSize]; omega
  simp [lineReceived, inHead, decOf, lenOf, hp, hne, hfl0, this]

theorem lineReceived_badline (app : App) (c : Chan) (fl : Nat) (hfl : fl = 1 ∨ fl = 2) (hc : Ready c fl)
    (line : Bytes) (hp : parseRequestLine line = none) (hne : line ≠ [] ∨ fl = 2) (hl : line.length ≤ 16384) :
    (lineReceived app c line).1.closed = true ∧ (lineReceived app c line).2 = [.write badRequestBytes, .lose] ∧
      (lineReceived app c line).1.requeue = [] := by
  obtain ⟨h1, h2, h3, h4, h5, h6, h7, h8, h9, h10, h11, h12, h13, h14⟩ := hc
  have hfl0 : c.firstLine ≠ 0 := by rw [h2]; omega
  have h2' : ¬ (line = [] ∧ c.firstLine = 1) := by
    rintro ⟨ha, hb⟩
    rcases hne with h | h
    · exact h ha
    · omega
  cases c
  simp only at h1 h2 h3 h4 h5 h6 h7 h8 h9 h10 h11 h12 h13 h14 hfl0 h2'
  subst h1 h3 h4 h5 h6 h7 h8 h9 h10 h11 h12 h13 h14
  have : ¬ line.length > totalHeadersSize := by simp only [totalHeadersSize]; omega
  simp [lineReceived, hp, hfl0, this, h2', badRequest]

/-! ### `_maybeChooseTransferDecoder` follows `chooseStep` -/

theorem decOf_eq_none (fr : R.Framing) : decOf fr = Decoder.none ↔ fr = .none := by
  cases fr <;> simp [decOf]

theorem all_isDigit_eq (v : Bytes) : v.all R.isDigit = v.all isDigit := by
  have : R.isDigit = isDigit := funext isDigit_eq
  rw [this]

theorem maybeChoose_step (x : Chan) (fr : R.Framing) (hdec : x.decoder = decOf fr) (hlen : x.length = lenOf fr)
    (name hn value : Bytes)
    (h1 : hn = hContentLength ↔ R.lower name = R.sContentLength)
    (h2 : hn = hTransferEncoding ↔ R.lower name = R.sTransferEncoding) :
    maybeChoose x hn value =
      match chooseStep fr (R.lower name, value) with
      | some fr' => (({ x with length := lenOf fr', decoder := decOf fr' }, []), true)
      | none => (failChoose x, false) := by
  have hx : ({ x with length := lenOf fr, decoder := decOf fr } : Chan) = x := by
    cases x; simp_all
  have hne : hTransferEncoding ≠ hContentLength := by decide
  have hne' : R.sTransferEncoding ≠ R.sContentLength := by decide
  unfold maybeChoose chooseStep
  by_cases hcl : hn = hContentLength
  · have hcl' := h1.mp hcl
    simp only [hcl, hcl', if_true, all_isDigit_eq]
    by_cases hd : (value.all isDigit && !value.isEmpty) = true
    · simp only [hd, Bool.not_true, Bool.false_eq_true, if_false]
      by_cases hlong : value.length > maxStrDigits
      · have : value.length > R.maxDigits := hlong
        simp [hlong, this]
      · have : ¬ value.length > R.maxDigits := hlong
        simp only [hlong, this, if_false]
        by_cases hf : fr = .none
        · subst hf
          have : x.decoder = Decoder.none := by rw [hdec]; rfl
          simp [this, lenOf, decOf, Twisted.Http.Rfc9112Request.decVal]
        · have : x.decoder ≠ Decoder.none := by rw [hdec]; exact fun h => hf ((decOf_eq_none fr).mp h)
          simp [this, hf]
    · simp [hd]
  · have hcl' : ¬ R.lower name = R.sContentLength := fun h => hcl (h1.mpr h)
    simp only [hcl, hcl', if_false]
    by_cases hte : hn = hTransferEncoding
    · have hte' := h2.mp hte
      simp only [hte, hte', if_true, ← lower_eq]
      have e1 : vChunked = R.sChunked := rfl
      have e2 : vIdentity = R.sIdentity := rfl
      rw [e1, e2]
      by_cases hch : R.lower value = R.sChunked
      · simp only [hch, if_true]
        by_cases hf : fr = .none
        · subst hf
          have : x.decoder = Decoder.none := by rw [hdec]; rfl
          simp [this, lenOf, decOf]
        · have : x.decoder ≠ Decoder.none := by rw [hdec]; exact fun h => hf ((decOf_eq_none fr).mp h)
          simp [this, hf]
      · simp only [hch, if_false]
        by_cases hid : R.lower value = R.sIdentity
        · simp [hid, hx]
        · simp [hid]
    · have hte' : ¬ R.lower name = R.sTransferEncoding := fun h => hte (h2.mpr h)
      simp [hte, hte', hx]

/-! ### `headerReceived` on a field line the reference has judged -/

theorem parseFieldLine_ok (pend : Bytes) (f : Bytes × Bytes) (h : R.parseFieldLine pend = .ok f) :
    ∃ name data, splitOnce COLON pend = some (name, data) ∧ isToken name = true ∧
      f = (R.lower name, stripSpTab data) ∧ 0 ∉ stripSpTab data := by
  unfold Twisted.Http.Rfc9112Request.parseFieldLine at h
  rw [splitFirst_eq] at h
  cases hs : splitOnce COLON pend with
  | none => simp [hs] at h
  | some p =>
    obtain ⟨name, data⟩ := p
    simp only [hs, isToken_eq, strip_eq] at h
    by_cases ht : isToken name = true
    · by_cases h0 : 0 ∈ stripSpTab data
      · simp [ht, h0] at h
      · refine ⟨name, data, rfl, ht, ?_, h0⟩
        simp only [ht, Bool.not_true, Bool.false_eq_true, if_false, List.contains_eq_mem, h0, decide_false] at h
        split at h
        · simp at h
        · simp only [Except.ok.injEq] at h
          exact h.symm
    · simp [ht] at h

theorem parseFieldLine_bad (pend : Bytes) (k : R.BadKey) (h : R.parseFieldLine pend = .error (.bad k)) :
    splitOnce COLON pend = none ∨ ∃ name data, splitOnce COLON pend = some (name, data) ∧
      (isToken name = false ∨ (isToken name = true ∧ 0 ∈ stripSpTab data)) := by
  unfold Twisted.Http.Rfc9112Request.parseFieldLine at h
  rw [splitFirst_eq] at h
  cases hs : splitOnce COLON pend with
  | none => exact Or.inl rfl
  | some p =>
    obtain ⟨name, data⟩ := p
    right
    refine ⟨name, data, rfl, ?_⟩
    simp only [hs, isToken_eq, strip_eq] at h
    by_cases ht : isToken name = true
    · right
      refine ⟨ht, ?_⟩
      by_cases h0 : 0 ∈ stripSpTab data
      · exact h0
      · simp only [ht, Bool.not_true, Bool.false_eq_true, if_false, List.contains_eq_mem, h0, decide_false] at h
        split at h <;> simp at h
    · left; simpa using ht

theorem headerReceived_ok (x : Chan) (fr fr' : R.Framing) (hdec : x.decoder = decOf fr) (hlen : x.length = lenOf fr)
    (pend : Bytes) (f : Bytes × Bytes) (hp : R.parseFieldLine pend = .ok f) (hc : chooseStep fr f = some fr')
    (hn : x.hdrCount + 1 ≤ 500) :
    ∃ hs', headerReceived x pend =
      (({ x with length := lenOf fr', decoder := decOf fr', reqHeaders := hs', hdrCount := x.hdrCount + 1 }, []), true) := by
  obtain ⟨name, data, hsplit, htok, rfl, h0⟩ := parseFieldLine_ok pend f hp
  obtain ⟨hn', hen, h1, h2⟩ := encodeName_some name htok
  refine ⟨addRawHeader x.reqHeaders hn' (stripSpTab data), ?_⟩
  unfold headerReceived
  simp only [hsplit, hen, List.contains_eq_mem, h0, decide_false, Bool.false_eq_true, if_false]
  rw [maybeChoose_step x fr hdec hlen name hn' (stripSpTab data) h1 h2, hc]
  have : ¬ x.hdrCount + 1 > maxHeaders := by simp only [maxHeaders]; omega
  simp [this]

theorem headerReceived_refuse (x : Chan) (fr : R.Framing) (hdec : x.decoder = decOf fr) (hlen : x.length = lenOf fr)
    (pend : Bytes)
    (h : (∃ k, R.parseFieldLine pend = .error (.bad k)) ∨ (∃ f, R.parseFieldLine pend = .ok f ∧ chooseStep fr f = none)) :
    (headerReceived x pend).2 = false ∧ (headerReceived x pend).1.1.closed = true ∧
      (headerReceived x pend).1.2 = [.write badRequestBytes, .lose] ∧ (headerReceived x pend).1.1.requeue = x.requeue := by
  rcases h with ⟨k, hk⟩ | ⟨f, hp, hc⟩
  · rcases parseFieldLine_bad pend k hk with hnone | ⟨name, data, hsplit, hb⟩
    · simp [headerReceived, hnone, badRequest]
    · rcases hb with ht | ⟨ht, h0⟩
      · simp [headerReceived, hsplit, encodeName_none name ht, badRequest]
      · obtain ⟨hn', hen, _, _⟩ := encodeName_some name ht
        simp [headerReceived, hsplit, hen, h0, badRequest]
  · obtain ⟨name, data, hsplit, htok, rfl, h0⟩ := parseFieldLine_ok pend f hp
    obtain ⟨hn', hen, h1, h2⟩ := encodeName_some name htok
    unfold headerReceived
    simp only [hsplit, hen, List.contains_eq_mem, h0, decide_false, Bool.false_eq_true, if_false]
    rw [maybeChoose_step x fr hdec hlen name hn' (stripSpTab data) h1 h2, hc]
    simp [failChoose]

/-! ### `lineReceived` inside the field section -/

theorem startsOWS_head (line : Bytes) (h : R.startsOWS line = false) :
    ¬ (line.head? = some SP ∨ line.head? = some HT) := by
  cases line with
  | nil => simp
  | cons a l =>
    simp only [Twisted.Http.Rfc9112Request.startsOWS, Twisted.Http.Rfc9112Request.isOWS, Bool.or_eq_false_iff,
      decide_eq_false_iff_not] at h
    simp only [List.head?_cons, Option.some.injEq, SP, HT]
    exact fun h' => h'.elim h.1 h.2

theorem lineReceived_field (app : App) (x : Chan) (line : Bytes) (hd : x.dead = false) (hf : x.firstLine = 0)
    (hsz : x.hdrSize + line.length ≤ 16384) (hne : line ≠ []) (hows : R.startsOWS line = false) :
    lineReceived app x line =
      (if x.header.isEmpty then ({ x with hdrSize := x.hdrSize + line.length, header := line }, [])
       else ({ (headerReceived { x with hdrSize := x.hdrSize + line.length } x.header).1.1 with header := line },
             (headerReceived { x with hdrSize := x.hdrSize + line.length } x.header).1.2)) := by
  have h1 : ¬ x.hdrSize + line.length > totalHeadersSize := by simp only [totalHeadersSize]; omega
  have h2 := startsOWS_head line hows
  unfold lineReceived
  simp only [hd, Bool.false_eq_true, if_false, h1, hf, ne_eq, not_true_eq_false, List.isEmpty_iff, hne, h2]
  split <;> rfl

theorem lineReceived_blank (app : App) (x : Chan) (hd : x.dead = false) (hf : x.firstLine = 0)
    (hsz : x.hdrSize ≤ 16384) :
    lineReceived app x [] =
      (if !(if x.header.isEmpty then ((x, []), true) else headerReceived x x.header).2 then
        (if x.header.isEmpty then ((x, []), true) else headerReceived x x.header).1
       else
        if (allHeadersReceived { (if x.header.isEmpty then ((x, []), true) else headerReceived x x.header).1.1 with header := [] }).1.length = some 0 then
          ((allContentReceived app (allHeadersReceived { (if x.header.isEmpty then ((x, []), true) else headerReceived x x.header).1.1 with header := [] }).1).1,
            (if x.header.isEmpty then ((x, []), true) else headerReceived x x.header).1.2 ++
            (allHeadersReceived { (if x.header.isEmpty then ((x, []), true) else headerReceived x x.header).1.1 with header := [] }).2 ++
            (allContentReceived app (allHeadersReceived { (if x.header.isEmpty then ((x, []), true) else headerReceived x x.header).1.1 with header := [] }).1).2)
        else
          ({ (allHeadersReceived { (if x.header.isEmpty then ((x, []), true) else headerReceived x x.header).1.1 with header := [] }).1 with lineMode := false },
            (if x.header.isEmpty then ((x, []), true) else headerReceived x x.header).1.2 ++
            (allHeadersReceived { (if x.header.isEmpty then ((x, []), true) else headerReceived x x.header).1.1 with header := [] }).2)) := by
  have h1 : ¬ x.hdrSize > totalHeadersSize := by simp only [totalHeadersSize]; omega
  cases x
  simp only at hd hf h1
  subst hd hf
  simp [lineReceived, h1]

/-! ### the field section, in step with the reference -/

theorem choose_append (f : R.Framing) (a b : List (R.Bytes × R.Bytes)) :
    choose f (a ++ b) = (choose f a).bind fun g => choose g b := by
  induction a generalizing f with
  | nil => simp [choose]
  | cons h t ih =>
    simp only [List.cons_append, choose]
    cases chooseStep f h with
    | none => rfl
    | some g => exact ih g

theorem fieldLines_cases (fuel : Nat) (s : Bytes) (size : Nat) (acc : List (R.Bytes × R.Bytes)) :
    (∃ e, (e = .may ∨ e = .more) ∧ R.fieldLines (fuel + 1) s size acc = .error e) ∨
    (∃ rest, R.takeLine s = some ([], rest) ∧ R.fieldLines (fuel + 1) s size acc = .ok (acc, rest)) ∨
    (∃ hl rest l2 rest2, R.takeLine s = some (hl, rest) ∧ hl ≠ [] ∧ size + hl.length ≤ 16384 ∧
      R.startsOWS hl = false ∧ R.takeLine rest = some (l2, rest2) ∧ l2.length ≤ 16384 ∧ R.startsOWS rest = false ∧
      ((∃ e, R.parseFieldLine hl = .error e ∧ R.fieldLines (fuel + 1) s size acc = .error e) ∨
       (∃ f, R.parseFieldLine hl = .ok f ∧ acc.length + 1 ≤ 500 ∧
          R.fieldLines (fuel + 1) s size acc = R.fieldLines fuel rest (size + hl.length) (acc ++ [f])) ∨
       (∃ f, R.parseFieldLine hl = .ok f ∧ R.fieldLines (fuel + 1) s size acc = .error .may))) := by
  rw [Twisted.Http.Rfc9112Request.fieldLines]
  cases ht : R.takeLine s with
  | none =>
    left
    by_cases hl : s.length ≥ R.maxLine
    · exact ⟨.may, Or.inl rfl, by simp [hl]⟩
    · exact ⟨.more, Or.inr rfl, by simp [hl]⟩
  | some p =>
    obtain ⟨hl, rest⟩ := p
    simp only
    by_cases hsz : (size + hl.length > R.maxLine || hl.length > R.maxLine) = true
    · left; exact ⟨.may, Or.inl rfl, by simp [hsz]⟩
    · simp only [hsz, Bool.false_eq_true, if_false]
      have hsz' : size + hl.length ≤ 16384 := by
        have h1 : ¬ size + hl.length > R.maxLine := by
          intro h; apply hsz; simp [h]
        simp only [Twisted.Http.Rfc9112Request.maxLine] at h1
        omega
      by_cases he : hl.isEmpty = true
      · right; left
        have : hl = [] := by simpa using he
        subst this
        exact ⟨rest, rfl, by simp⟩
      · simp only [he, Bool.false_eq_true, if_false]
        have hne : hl ≠ [] := by simpa using he
        by_cases hows : R.startsOWS hl = true
        · left; exact ⟨.may, Or.inl rfl, by simp [hows]⟩
        · simp only [hows, Bool.false_eq_true, if_false]
          have hows' : R.startsOWS hl = false := by simpa using hows
          cases ht2 : R.takeLine rest with
          | none => left; exact ⟨.more, Or.inr rfl, by simp⟩
          | some p2 =>
            obtain ⟨l2, rest2⟩ := p2
            simp only
            by_cases hl2 : l2.length > R.maxLine
            · left; exact ⟨.may, Or.inl rfl, by simp [hl2]⟩
            · simp only [hl2, if_false]
              have hl2' : l2.length ≤ 16384 := by
                simp only [Twisted.Http.Rfc9112Request.maxLine] at hl2; omega
              by_cases hows2 : R.startsOWS rest = true
              · left; exact ⟨.may, Or.inl rfl, by simp [hows2]⟩
              · simp only [hows2, Bool.false_eq_true, if_false]
                have hows2' : R.startsOWS rest = false := by simpa using hows2
                right; right
                refine ⟨hl, rest, l2, rest2, rfl, hne, hsz', hows', ht2, hl2', hows2', ?_⟩
                cases hp : R.parseFieldLine hl with
                | error e => left; exact ⟨e, rfl, rfl⟩
                | ok f =>
                  simp only
                  by_cases hcnt : acc.length + 1 > R.maxFields
                  · right; right; exact ⟨f, rfl, by simp [hcnt]⟩
                  · right; left
                    refine ⟨f, rfl, ?_, by simp [hcnt]⟩
                    simp only [Twisted.Http.Rfc9112Request.maxFields] at hcnt; omega

theorem fieldLines_extends : ∀ (fuel : Nat) (s : Bytes) (size : Nat) (acc hs' : List (R.Bytes × R.Bytes)) (rest : Bytes),
    R.fieldLines fuel s size acc = .ok (hs', rest) → ∃ more, hs' = acc ++ more := by
  intro fuel
  induction fuel with
  | zero => intro s size acc hs' rest h; simp [Twisted.Http.Rfc9112Request.fieldLines] at h
  | succ fuel ih =>
    intro s size acc hs' rest h
    rcases fieldLines_cases fuel s size acc with ⟨e, _, he⟩ | ⟨r, _, hr⟩ | ⟨hl, r, l2, r2, _, _, _, _, _, _, _, hcase⟩
    · rw [he] at h; simp at h
    · rw [hr] at h
      simp only [Except.ok.injEq, Prod.mk.injEq] at h
      exact ⟨[], by simp [h.1]⟩
    · rcases hcase with ⟨e, _, he⟩ | ⟨f, _, _, hf⟩ | ⟨f, _, he⟩
      · rw [he] at h; simp at h
      · rw [hf] at h
        obtain ⟨more, hm⟩ := ih _ _ _ _ _ h
        exact ⟨f :: more, by simp [hm]⟩
      · rw [he] at h; simp at h

/-- the channel in the field section, in step with the reference having judged the fields `acc`:
    all of them but the last are processed, the last one is held back -/
def HeadInv (c : Chan) (m t v : Bytes) (size : Nat) (acc : List (Bytes × Bytes)) (x : Chan) : Prop :=
  (acc = [] ∧ x = inHead c m t v size [] 0 [] .none) ∨
  (∃ acc0 f pend chs fr, acc = acc0 ++ [f] ∧ R.parseFieldLine pend = .ok f ∧ pend ≠ [] ∧
      choose .none acc0 = some fr ∧ x = inHead c m t v size pend acc0.length chs fr)

theorem inHead_facts (c : Chan) (fl : Nat) (hc : Ready c fl) (m t v : Bytes) (size : Nat) (pend : Bytes) (n : Nat)
    (hs : Headers) (fr : R.Framing) :
    (inHead c m t v size pend n hs fr).dead = false ∧ (inHead c m t v size pend n hs fr).firstLine = 0 ∧
    (inHead c m t v size pend n hs fr).hdrSize = size ∧ (inHead c m t v size pend n hs fr).header = pend ∧
    (inHead c m t v size pend n hs fr).decoder = decOf fr ∧ (inHead c m t v size pend n hs fr).length = lenOf fr ∧
    (inHead c m t v size pend n hs fr).hdrCount = n ∧ (inHead c m t v size pend n hs fr).closed = false ∧
    (inHead c m t v size pend n hs fr).raised = none ∧ (inHead c m t v size pend n hs fr).requeue = [] ∧
    (inHead c m t v size pend n hs fr).lineMode = true :=
  ⟨hc.dead, rfl, rfl, rfl, rfl, rfl, rfl, hc.closed, hc.raised, hc.requeue, hc.lineMode⟩

/-- a refusing `lineReceived` -/
def LineRefused (r : Chan × List Out) : Prop :=
  r.1.closed = true ∧ r.2 = [.write badRequestBytes, .lose] ∧ r.1.requeue = []

/-- the channel right after a field line `hl` was taken in (held back), the fields `acc` before it processed -/
def HeadMid (c : Chan) (m t v : Bytes) (size : Nat) (acc : List (Bytes × Bytes)) (hl : Bytes) (x : Chan) : Prop :=
  ∃ chs fr n, n = acc.length ∧ choose .none acc = some fr ∧ x = inHead c m t v size hl n chs fr

theorem HeadMid_inv (c : Chan) (m t v : Bytes) (size : Nat) (acc : List (Bytes × Bytes)) (hl : Bytes) (x : Chan)
    (h : HeadMid c m t v size acc hl x) (hne : hl ≠ []) (f : Bytes × Bytes) (hp : R.parseFieldLine hl = .ok f) :
    HeadInv c m t v size (acc ++ [f]) x := by
  obtain ⟨chs, fr, n, rfl, hch, rfl⟩ := h
  exact Or.inr ⟨acc, f, hl, chs, fr, rfl, hp, hne, hch, rfl⟩

/-- one more line that is not empty and not a continuation -/
theorem lineReceived_step (app : App) (c : Chan) (fl : Nat) (hc : Ready c fl) (m t v : Bytes) (size : Nat)
    (acc : List (Bytes × Bytes)) (x : Chan) (hinv : HeadInv c m t v size acc x) (hacc : acc.length ≤ 500)
    (hl : Bytes) (hne : hl ≠ []) (hows : R.startsOWS hl = false) (hsz : size + hl.length ≤ 16384) :
    (∃ x', lineReceived app x hl = (x', []) ∧ HeadMid c m t v (size + hl.length) acc hl x') ∨
    (LineRefused (lineReceived app x hl) ∧ choose .none acc = none) := by
  rcases hinv with ⟨rfl, rfl⟩ | ⟨acc0, f0, pend, chs, fr, rfl, hp0, hpne, hch, rfl⟩
  · left
    obtain ⟨h1, h2, h3, h4, _⟩ := inHead_facts c fl hc m t v size [] 0 [] .none
    refine ⟨inHead c m t v (size + hl.length) hl 0 [] .none, ?_, ⟨[], .none, 0, rfl, rfl, rfl⟩⟩
    rw [lineReceived_field app _ hl h1 h2 (by rw [h3]; exact hsz) hne hows]
    simp [inHead]
  · obtain ⟨h1, h2, h3, h4, h5, h6, h7, h8, h9, h10, _⟩ := inHead_facts c fl hc m t v size pend acc0.length chs fr
    obtain ⟨x, hx⟩ : ∃ x, x = inHead c m t v size pend acc0.length chs fr := ⟨_, rfl⟩
    rw [← hx] at h1 h2 h3 h4 h5 h6 h7 h8 h9 h10 ⊢
    rw [lineReceived_field app x hl h1 h2 (by rw [h3]; exact hsz) hne hows]
    have hpe : x.header.isEmpty = false := by
      rw [h4]; simpa using hpne
    rw [if_neg (by simp [hpe])]
    cases hcs : chooseStep fr f0 with
    | some fr' =>
      left
      obtain ⟨hs', hhr⟩ := headerReceived_ok { x with hdrSize := x.hdrSize + hl.length }
        fr fr' h5 h6 x.header f0 (h4 ▸ hp0) hcs (by
          show x.hdrCount + 1 ≤ 500
          rw [h7]; simpa using hacc)
      refine ⟨inHead c m t v (size + hl.length) hl (acc0.length + 1) hs' fr', ?_,
        ⟨hs', fr', acc0.length + 1, by simp, ?_, rfl⟩⟩
      · rw [hhr, hx]; rfl
      · rw [choose_append, hch]; simp [choose, hcs]
    | none =>
      right
      obtain ⟨r1, r2, r3, r4⟩ := headerReceived_refuse { x with hdrSize := x.hdrSize + hl.length }
        fr h5 h6 x.header (Or.inr ⟨f0, h4 ▸ hp0, hcs⟩)
      refine ⟨⟨r2, r3, ?_⟩, ?_⟩
      · show (headerReceived _ x.header).1.1.requeue = []
        rw [r4]; exact h10
      · rw [choose_append, hch]; simp [choose, hcs]

theorem HeadInv_facts (c : Chan) (fl : Nat) (hc : Ready c fl) (m t v : Bytes) (size : Nat)
    (acc : List (Bytes × Bytes)) (x : Chan) (h : HeadInv c m t v size acc x) :
    x.dead = false ∧ x.firstLine = 0 ∧ x.hdrSize = size ∧ x.closed = false ∧ x.raised = none ∧ x.requeue = [] ∧
      x.lineMode = true := by
  rcases h with ⟨_, rfl⟩ | ⟨acc0, f0, pend, chs, fr, _, _, _, _, rfl⟩
  · obtain ⟨h1, h2, h3, _, _, _, _, h8, h9, h10, h11⟩ := inHead_facts c fl hc m t v size [] 0 [] .none
    exact ⟨h1, h2, h3, h8, h9, h10, h11⟩
  · obtain ⟨h1, h2, h3, _, _, _, _, h8, h9, h10, h11⟩ := inHead_facts c fl hc m t v size pend acc0.length chs fr
    exact ⟨h1, h2, h3, h8, h9, h10, h11⟩

/-- after the field section: the held-back line processed, `checkPersistence` done -/
def afterHead (c : Chan) (m t v : Bytes) (size n : Nat) (hs : Headers) (fr : R.Framing) : Chan :=
  { inHead c m t v size [] n hs fr with persistent := checkPersistence hs v }

def contOuts (hs : Headers) (v : Bytes) : List Out := if expects100 hs v then [.write continueBytes] else []

/-- what the empty line at the end of the field section does -/
def endHead (app : App) (y : Chan) (cont : List Out) (fr : R.Framing) : Chan × List Out :=
  if lenOf fr = some 0 then ((allContentReceived app y).1, cont ++ (allContentReceived app y).2)
  else ({ y with lineMode := false }, cont)

theorem lineReceived_end (app : App) (c : Chan) (fl : Nat) (hc : Ready c fl) (m t v : Bytes) (size : Nat)
    (hs' : List (Bytes × Bytes)) (x : Chan) (hinv : HeadInv c m t v size hs' x) (hsz : size ≤ 16384)
    (hacc : hs'.length ≤ 500) :
    (∀ frm, choose .none hs' = some frm →
      ∃ chs, lineReceived app x [] = endHead app (afterHead c m t v size hs'.length chs frm) (contOuts chs v) frm) ∧
    (choose .none hs' = none → LineRefused (lineReceived app x [])) := by
  obtain ⟨f1, f2, f3, f4, f5, f6, f7⟩ := HeadInv_facts c fl hc m t v size hs' x hinv
  rw [lineReceived_blank app x f1 f2 (by rw [f3]; exact hsz)]
  rcases hinv with ⟨rfl, rfl⟩ | ⟨acc0, f0, pend, chs, fr, rfl, hp0, hpne, hch, rfl⟩
  · constructor
    · intro frm hfrm
      simp only [choose, Option.some.injEq] at hfrm
      subst hfrm
      refine ⟨[], ?_⟩
      rfl
    · intro h; simp [choose] at h
  · obtain ⟨h1, h2, h3, h4, h5, h6, h7, h8, h9, h10, _⟩ := inHead_facts c fl hc m t v size pend acc0.length chs fr
    obtain ⟨x, hx⟩ : ∃ x, x = inHead c m t v size pend acc0.length chs fr := ⟨_, rfl⟩
    rw [← hx] at h1 h2 h3 h4 h5 h6 h7 h8 h9 h10 ⊢
    have hpe : x.header.isEmpty = false := by
      rw [h4]; simpa using hpne
    simp only [hpe, Bool.false_eq_true, if_false]
    constructor
    · intro frm hfrm
      have hcs : chooseStep fr f0 = some frm := by
        rw [choose_append, hch] at hfrm
        simp only [Option.bind_some, choose] at hfrm
        cases hcs : chooseStep fr f0 with
        | none => simp [hcs] at hfrm
        | some g => simp only [hcs, Option.some.injEq] at hfrm; rw [hfrm]
      obtain ⟨hs2, hhr⟩ := headerReceived_ok x fr frm h5 h6 x.header f0 (h4 ▸ hp0) hcs (by
        rw [h7]; simpa using hacc)
      refine ⟨hs2, ?_⟩
      rw [hhr, hx]
      simp only [Bool.not_true, Bool.false_eq_true, if_false, List.length_append, List.length_cons, List.length_nil]
      rfl
    · intro hnone
      have hcs : chooseStep fr f0 = none := by
        rw [choose_append, hch] at hnone
        simp only [Option.bind_some, choose] at hnone
        cases hcs : chooseStep fr f0 with
        | none => rfl
        | some g => simp [hcs] at hnone
      obtain ⟨r1, r2, r3, r4⟩ := headerReceived_refuse x fr h5 h6 x.header (Or.inr ⟨f0, h4 ▸ hp0, hcs⟩)
      simp only [r1, Bool.not_false, if_true]
      exact ⟨r2, r3, by rw [r4]; exact h10⟩

/-- a field line the reference refuses is held back: whatever complete line comes next, the channel refuses -/
theorem lineReceived_after_bad (app : App) (x : Chan) (fr : R.Framing) (hd : x.dead = false) (hf : x.firstLine = 0)
    (hdec : x.decoder = decOf fr) (hlen : x.length = lenOf fr) (hq : x.requeue = [])
    (hpne : x.header ≠ []) (k : R.BadKey) (hbad : R.parseFieldLine x.header = .error (.bad k))
    (l2 : Bytes) (hows : R.startsOWS l2 = false) : LineRefused (lineReceived app x l2) := by
  have hpe : x.header.isEmpty = false := by simpa using hpne
  by_cases hsz : x.hdrSize + l2.length ≤ 16384
  · by_cases hl2 : l2 = []
    · subst hl2
      rw [lineReceived_blank app x hd hf (by simpa using hsz)]
      obtain ⟨r1, r2, r3, r4⟩ := headerReceived_refuse x fr hdec hlen x.header (Or.inl ⟨k, hbad⟩)
      simp only [hpe, Bool.false_eq_true, if_false, r1, Bool.not_false, if_true]
      exact ⟨r2, r3, by rw [r4]; exact hq⟩
    · rw [lineReceived_field app x l2 hd hf hsz hl2 hows, if_neg (by simp [hpe])]
      obtain ⟨r1, r2, r3, r4⟩ := headerReceived_refuse { x with hdrSize := x.hdrSize + l2.length } fr hdec hlen
        x.header (Or.inl ⟨k, hbad⟩)
      exact ⟨r2, r3, by
        show (headerReceived _ x.header).1.1.requeue = []
        rw [r4]; exact hq⟩
  · have h1 : x.hdrSize + l2.length > totalHeadersSize := by simp only [totalHeadersSize]; omega
    cases x
    simp only at hd hq h1
    subst hd hq
    simp [lineReceived, h1, badRequest, LineRefused]

end TwistedProps.C19
