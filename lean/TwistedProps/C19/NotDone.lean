import TwistedProps.C19.Head
/-! C19: the reference never reports `done` from inside a message (`done` is the end of the stream only). -/
namespace TwistedProps.C19
open Twisted.Http.Rfc9112Request

theorem nd_reqline (line : Bytes) : parseRequestLine line ≠ .error .done := by
  intro h
  unfold parseRequestLine at h
  split at h
  · repeat' split at h
    all_goals simp at h
  · simp at h

theorem nd_fieldLine (hl : Bytes) : parseFieldLine hl ≠ .error .done := by
  intro h
  unfold parseFieldLine at h
  split at h
  · simp at h
  · dsimp only at h
    repeat' split at h
    all_goals simp at h

theorem nd_fieldLines : ∀ (fuel : Nat) (s : Bytes) (size : Nat) (acc : List (Bytes × Bytes)),
    fieldLines fuel s size acc ≠ .error .done := by
  intro fuel
  induction fuel with
  | zero => intro s size acc h; simp [fieldLines] at h
  | succ fuel ih =>
    intro s size acc h
    rcases fieldLines_cases fuel s size acc with ⟨e, he, hr⟩ | ⟨r, _, hr⟩ | ⟨hl, r, l2, r2, _, _, _, _, _, _, _, hcase⟩
    · rw [hr] at h; simp only [Except.error.injEq] at h; subst h; rcases he with h | h <;> simp at h
    · rw [hr] at h; simp at h
    · rcases hcase with ⟨e, hp, hr⟩ | ⟨f, _, _, hr⟩ | ⟨f, _, hr⟩
      · rw [hr] at h; simp only [Except.error.injEq] at h; subst h; exact nd_fieldLine hl hp
      · rw [hr] at h; exact ih _ _ _ h
      · rw [hr] at h; simp at h

theorem nd_framing (hs : List (Bytes × Bytes)) : framing hs ≠ .error .done := by
  intro h
  unfold framing at h
  dsimp only at h
  repeat' split at h
  all_goals simp at h

theorem nd_trailer : ∀ (fuel : Nat) (s : Bytes) (total : Nat), trailerSection fuel s total ≠ .error .done := by
  intro fuel
  induction fuel with
  | zero => intro s total h; simp [trailerSection] at h
  | succ fuel ih =>
    intro s total h
    rw [trailerSection] at h
    repeat' split at h
    all_goals first | simp at h | exact ih _ _ h

theorem nd_chunkLine (line : Bytes) : parseChunkLine line ≠ .error .done := by
  intro h
  unfold parseChunkLine at h
  dsimp only at h
  repeat' split at h
  all_goals simp at h

theorem nd_chunked : ∀ (fuel : Nat) (s : Bytes), chunkedBody fuel s ≠ .error .done := by
  intro fuel
  induction fuel with
  | zero => intro s h; simp [chunkedBody] at h
  | succ fuel ih =>
    intro s h
    rw [chunkedBody] at h
    split at h
    · split at h <;> simp at h
    · split at h
      · simp at h
      · split at h
        · rename_i e he
          simp only [Except.error.injEq] at h
          subst h
          exact nd_chunkLine _ he
        · cases ht : trailerSection _ _ 0 with
          | error e => rw [ht] at h; simp [Except.map] at h; subst h; exact nd_trailer _ _ _ ht
          | ok r => rw [ht] at h; simp [Except.map] at h
        · repeat' split at h
          all_goals first | simp at h | skip
          rename_i k _ _ _ _
          cases hc : chunkedBody fuel _ with
          | error e => rw [hc] at h; simp [Except.map] at h; subst h; exact ih _ hc
          | ok r => rw [hc] at h; simp [Except.map] at h

theorem nd_parseOne (s : Bytes) : parseOne s ≠ .error .done := by
  intro h
  unfold parseOne at h
  split at h
  · split at h <;> simp at h
  · split at h
    · simp at h
    · split at h
      · rename_i e he
        simp only [Except.error.injEq] at h; subst h; exact nd_reqline _ he
      · split at h
        · rename_i e he
          simp only [Except.error.injEq] at h; subst h; exact nd_fieldLines _ _ _ _ he
        · split at h
          · rename_i e he
            simp only [Except.error.injEq] at h; subst h; exact nd_framing _ he
          · simp at h
          · split at h <;> simp at h
          · split at h
            · rename_i e he
              simp only [Except.error.injEq] at h; subst h; exact nd_chunked _ _ he
            · simp at h

end TwistedProps.C19
