import TwistedProps.C19.Head
/-!
C19: the field section as a whole (`head_sim`): the channel model and the reference in lockstep, by
induction over the reference's line loop.
-/
namespace TwistedProps.C19
open Twisted.Http.Chunked hiding St feed init
open Twisted.Http.Channel

theorem D_refused (app : App) (x : Chan) (s line rest : Bytes) (hm : x.lineMode = true)
    (ht : R.takeLine s = some (line, rest)) (hl : line.length ≤ 16384)
    (h : LineRefused (lineReceived app x line)) : RefusedRun (D app x s) := by
  rw [D_line app x s line rest hm ht hl h.2.2, if_neg (by simp [h.1])]
  exact ⟨h.1, h.2.1⟩

theorem D_continue (app : App) (x : Chan) (s line rest : Bytes) (x' : Chan) (hm : x.lineMode = true)
    (ht : R.takeLine s = some (line, rest)) (hl : line.length ≤ 16384)
    (h : lineReceived app x line = (x', [])) (hc : x'.closed = false) (hr : x'.raised = none)
    (hq : x'.requeue = []) : D app x s = D app x' rest := by
  rw [D_line app x s line rest hm ht hl (by rw [h]; exact hq)]
  simp [h, hc, hr, pre]

theorem HeadMid_facts (c : Chan) (fl : Nat) (hc : Ready c fl) (m t v : Bytes) (size : Nat)
    (acc : List (Bytes × Bytes)) (hl : Bytes) (x : Chan) (h : HeadMid c m t v size acc hl x) :
    x.dead = false ∧ x.firstLine = 0 ∧ x.hdrSize = size ∧ x.closed = false ∧ x.raised = none ∧ x.requeue = [] ∧
      x.lineMode = true ∧ x.header = hl ∧ ∃ fr, x.decoder = decOf fr ∧ x.length = lenOf fr := by
  obtain ⟨chs, fr, n, _, _, rfl⟩ := h
  obtain ⟨h1, h2, h3, h4, h5, h6, _, h8, h9, h10, h11⟩ := inHead_facts c fl hc m t v size hl n chs fr
  exact ⟨h1, h2, h3, h8, h9, h10, h11, h4, fr, h5, h6⟩

theorem startsOWS_line (rest l2 rest2 : Bytes) (ht : R.takeLine rest = some (l2, rest2))
    (h : R.startsOWS rest = false) : R.startsOWS l2 = false := by
  obtain ⟨hs, _⟩ := takeLine_some rest l2 rest2 ht
  cases l2 with
  | nil => rfl
  | cons a l =>
    rw [hs] at h
    simpa [Twisted.Http.Rfc9112Request.startsOWS] using h

theorem choose_none_extends (acc more : List (R.Bytes × R.Bytes)) (h : choose .none acc = none) :
    choose .none (acc ++ more) = none := by
  rw [choose_append, h]; rfl

/-- **the field section.**  From a state in step with the reference (`HeadInv`), on the bytes `s`:
    if the reference reads the field section to its end, the channel either is in step at the empty line,
    or has refused because the incremental framing choice failed; if the reference refuses a field line,
    the channel has refused. -/
theorem head_sim (app : App) (c : Chan) (fl : Nat) (hc : Ready c fl) (m t v : Bytes) :
    ∀ (fuel : Nat) (s : Bytes) (size : Nat) (acc : List (Bytes × Bytes)) (x : Chan),
      HeadInv c m t v size acc x → size ≤ 16384 → acc.length ≤ 500 →
      (∀ hs' rest, R.fieldLines fuel s size acc = .ok (hs', rest) →
        (∃ x' size', HeadInv c m t v size' hs' x' ∧ size' ≤ 16384 ∧ hs'.length ≤ 500 ∧
            D app x s = D app x' (CR :: LF :: rest)) ∨
        (choose .none hs' = none ∧ RefusedRun (D app x s))) ∧
      (∀ k, R.fieldLines fuel s size acc = .error (.bad k) → RefusedRun (D app x s)) := by
  intro fuel
  induction fuel with
  | zero =>
    intro s size acc x _ _ _
    constructor
    · intro hs' rest h; simp [Twisted.Http.Rfc9112Request.fieldLines] at h
    · intro k h; simp [Twisted.Http.Rfc9112Request.fieldLines] at h
  | succ fuel ih =>
    intro s size acc x hinv hsz hacc
    obtain ⟨f1, f2, f3, f4, f5, f6, f7⟩ := HeadInv_facts c fl hc m t v size acc x hinv
    rcases fieldLines_cases fuel s size acc with ⟨e, he, hres⟩ | ⟨rest0, ht, hres⟩ |
      ⟨hl, rest1, l2, rest2, ht, hne, hsz1, hows, ht2, hl2, hows2, hcase⟩
    · rw [hres]
      constructor
      · intro hs' rest h; simp at h
      · intro k h
        simp only [Except.error.injEq] at h
        rcases he with rfl | rfl <;> simp at h
    · rw [hres]
      constructor
      · intro hs' rest h
        simp only [Except.ok.injEq, Prod.mk.injEq] at h
        obtain ⟨rfl, rfl⟩ := h
        left
        refine ⟨x, size, hinv, hsz, hacc, ?_⟩
        obtain ⟨hs, _⟩ := takeLine_some s [] rest0 ht
        rw [hs]; rfl
      · intro k h; simp at h
    · have hll : hl.length ≤ 16384 := by omega
      rcases hcase with ⟨e, hp, hres⟩ | ⟨f, hp, hcnt, hres⟩ | ⟨f, hp, hres⟩
      · -- the reference refuses `hl`
        rw [hres]
        constructor
        · intro hs' rest h; simp at h
        · intro k h
          simp only [Except.error.injEq] at h
          subst h
          rcases lineReceived_step app c fl hc m t v size acc x hinv hacc hl hne hows hsz1 with
            ⟨x', hx', hmid⟩ | ⟨href, _⟩
          · obtain ⟨g1, g2, g3, g4, g5, g6, g7, g8, fr, g9, g10⟩ :=
              HeadMid_facts c fl hc m t v (size + hl.length) acc hl x' hmid
            rw [D_continue app x s hl rest1 x' f7 ht hll hx' g4 g5 g6]
            exact D_refused app x' rest1 l2 rest2 g7 ht2 hl2
              (lineReceived_after_bad app x' fr g1 g2 g9 g10 g6 (by rw [g8]; exact hne) k (by rw [g8]; exact hp)
                l2 (startsOWS_line rest1 l2 rest2 ht2 hows2))
          · exact D_refused app x s hl rest1 f7 ht hll href
      · -- the reference accepts `hl` and goes on
        rw [hres]
        rcases lineReceived_step app c fl hc m t v size acc x hinv hacc hl hne hows hsz1 with
          ⟨x', hx', hmid⟩ | ⟨href, hnone⟩
        · have hinv' := HeadMid_inv c m t v (size + hl.length) acc hl x' hmid hne f hp
          obtain ⟨g1, g2, g3, g4, g5, g6, g7⟩ := HeadInv_facts c fl hc m t v _ _ x' hinv'
          rw [D_continue app x s hl rest1 x' f7 ht hll hx' g4 g5 g6]
          exact ih rest1 (size + hl.length) (acc ++ [f]) x' hinv' hsz1 (by simpa using hcnt)
        · have hR := D_refused app x s hl rest1 f7 ht hll href
          constructor
          · intro hs' rest h
            right
            obtain ⟨more, rfl⟩ := fieldLines_extends _ _ _ _ _ _ h
            refine ⟨?_, hR⟩
            rw [List.append_assoc]
            exact choose_none_extends acc _ hnone
          · intro k _; exact hR
      · rw [hres]
        constructor
        · intro hs' rest h; simp at h
        · intro k h; simp at h

end TwistedProps.C19
