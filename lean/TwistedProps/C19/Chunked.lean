import TwistedProps.C19.Defs
import TwistedProps.C22
/-!
C19, chunked bodies: what the reference parser (`R.chunkedBody`, RFC 9112 §7.1) accepts is a
`C22.encode … ++ rest`, hence (`C22.decode_encode`) the model of `_ChunkedTransferDecoder`, handed the
whole of it in one delivery, delivers exactly the reference's content and finishes with exactly the
reference's remainder.
-/
namespace TwistedProps.C19
open Twisted.Http.Chunked hiding St feed init

theorem chunked_forall_uint8 (P : UInt8 → Prop) (h : ∀ n : Fin 256, P (UInt8.ofNat n.val)) : ∀ c, P c := by
  intro c; have := h ⟨c.toNat, c.toNat_lt⟩; simpa using this

/-! ### octets -/

theorem chunked_isHex_eq : ∀ c : UInt8, R.isHex c = isHexDigit c := by
  apply chunked_forall_uint8; decide +kernel

theorem chunked_isHex_fun : Twisted.Http.Rfc9112Request.isHex = isHexDigit := funext chunked_isHex_eq

theorem chunked_hexDigitVal_eq : ∀ c : UInt8, isHexDigit c = true → R.hexDigitVal c = hexDigitVal c := by
  apply chunked_forall_uint8; decide +kernel

theorem chunked_extChar : ∀ c : UInt8, R.badExtByte c = false → c ≠ 92 → chunkExtChar c = true := by
  apply chunked_forall_uint8; decide +kernel

theorem chunked_hexVal_foldl (b : Bytes) (h : ∀ c ∈ b, isHexDigit c = true) : ∀ acc : Nat,
    b.foldl (fun acc c => acc * 16 + R.hexDigitVal c) acc = b.foldl (fun acc c => acc * 16 + hexDigitVal c) acc := by
  induction b with
  | nil => intro acc; rfl
  | cons c b ih =>
    intro acc
    simp only [List.foldl_cons]
    rw [chunked_hexDigitVal_eq c (h c (by simp))]
    exact ih (fun x hx => h x (by simp [hx])) _

theorem chunked_hexVal_eq (b : Bytes) (h : ∀ c ∈ b, isHexDigit c = true) : R.hexVal b = hexVal b :=
  chunked_hexVal_foldl b h 0

/-! ### the chunk-size line -/

theorem chunked_split (line : Bytes) :
    ((R.splitFirst 59 line).map (·.1)).getD line = (splitSemi line).1 ∧
    ((R.splitFirst 59 line).map (·.2)).getD [] = (splitSemi line).2 := by
  induction line with
  | nil => exact ⟨rfl, rfl⟩
  | cons c rest ih =>
    simp only [Twisted.Http.Rfc9112Request.splitFirst, splitSemi, SEMI]
    by_cases hc : c = 59
    · simp [hc]
    · simp only [hc, if_false]
      cases hs : R.splitFirst 59 rest with
      | none =>
        rw [hs] at ih
        simp only [Option.map_none, Option.getD_none] at ih ⊢
        exact ⟨by rw [← ih.1], ih.2⟩
      | some p =>
        rw [hs] at ih
        simp only [Option.map_some, Option.getD_some] at ih ⊢
        exact ⟨by rw [ih.1], ih.2⟩

theorem chunked_parseChunkLine (line : Bytes) (n : Nat) (h : R.parseChunkLine line = .ok n) :
    hexint (splitSemi line).1 = some n ∧ (splitSemi line).2.all chunkExtChar = true := by
  unfold Twisted.Http.Rfc9112Request.parseChunkLine at h
  simp only [(chunked_split line).1, (chunked_split line).2] at h
  split at h
  · cases h
  · rename_i h1
    split at h
    · cases h
    · rename_i h2
      split at h
      · cases h
      · rename_i h3
        simp only [Except.ok.injEq] at h
        simp only [Bool.or_eq_true, Bool.not_eq_true', not_or, Bool.not_eq_true, Bool.not_eq_false] at h1
        obtain ⟨h1a, h1b⟩ := h1
        rw [chunked_isHex_fun] at h1b
        have hall : ∀ c ∈ (splitSemi line).1, isHexDigit c = true := List.all_eq_true.mp h1b
        refine ⟨?_, ?_⟩
        · have hd : isHexDigits (splitSemi line).1 = true := by
            simp only [isHexDigits, Bool.and_eq_true, Bool.not_eq_true']
            exact ⟨h1b, h1a⟩
          rw [hexint, if_pos hd, ← chunked_hexVal_eq _ hall]
          exact congrArg some h
        · rw [List.all_eq_true]
          intro c hc
          apply chunked_extChar c
          · cases hb : R.badExtByte c with
            | false => rfl
            | true =>
              exfalso; apply h2
              rw [List.any_eq_true]; exact ⟨c, hc, hb⟩
          · intro h92
            apply h3
            rw [List.contains_iff_mem]; rw [← h92]; exact hc

/-! ### lines -/

theorem chunked_takeLine_noCRLF : ∀ (s line rest : Bytes), R.takeLine s = some (line, rest) →
    C22.noCRLF line = true := by
  intro s
  induction s with
  | nil => intro line rest h; simp [Twisted.Http.Rfc9112Request.takeLine] at h
  | cons c t ih =>
    intro line rest h
    cases t with
    | nil => simp [Twisted.Http.Rfc9112Request.takeLine] at h
    | cons d t' =>
      rw [takeLine_cons2] at h
      split at h
      · simp only [Option.some.injEq, Prod.mk.injEq] at h
        obtain ⟨rfl, rfl⟩ := h
        rfl
      · rename_i hcd
        cases hr : R.takeLine (d :: t') with
        | none => simp [hr] at h
        | some p =>
          simp only [hr, Option.some.injEq, Prod.mk.injEq] at h
          obtain ⟨rfl, rfl⟩ := h
          have hp := ih p.1 p.2 (by rw [hr])
          obtain ⟨h1, _⟩ := takeLine_some (d :: t') p.1 p.2 (by rw [hr])
          rw [C22.noCRLF_cons]
          refine ⟨?_, hp⟩
          rintro ⟨hc, hh⟩
          cases hp1 : p.1 with
          | nil => rw [hp1] at hh; simp at hh
          | cons x xs =>
            rw [hp1] at hh h1
            simp only [List.head?_cons, Option.some.injEq] at hh
            simp only [List.cons_append, List.cons.injEq] at h1
            apply hcd
            exact ⟨hc, by rw [h1.1, hh]; rfl⟩

theorem chunked_startsCRLF (m : Bytes) (h : R.startsCRLF m = true) : ∃ t, m = CR :: LF :: t := by
  unfold Twisted.Http.Rfc9112Request.startsCRLF at h
  split at h
  · exact ⟨_, rfl⟩
  · cases h

/-! ### the trailer section -/

theorem chunked_trailer : ∀ (fuel : Nat) (s : Bytes) (total : Nat) (r : Bytes), total ≤ 65000 →
    R.trailerSection fuel s total = .ok r →
    ∃ ts : List Bytes, (∀ t ∈ ts, C22.trailerOK t) ∧ s = C22.encTrailers ts ++ CR :: LF :: r ∧
      total + C22.trailerSize ts ≤ 65000 := by
  intro fuel
  induction fuel with
  | zero => intro s total r _ h; simp [Twisted.Http.Rfc9112Request.trailerSection] at h
  | succ fuel ih =>
    intro s total r htot h
    simp only [Twisted.Http.Rfc9112Request.trailerSection] at h
    split at h
    · split at h <;> cases h
    · rename_i line rest hT
      obtain ⟨hs, _⟩ := takeLine_some s line rest hT
      split at h
      · rename_i he
        simp only [Except.ok.injEq] at h
        subst h
        have : line = [] := by simpa using he
        subst this
        exact ⟨[], by simp, by simpa [C22.encTrailers] using hs, by simpa [C22.trailerSize] using htot⟩
      · rename_i he
        split at h
        · cases h
        · rename_i hlim
          simp only [Twisted.Http.Rfc9112Request.maxTrailer] at hlim
          obtain ⟨ts, h1, h2, h3⟩ := ih rest (total + line.length + 2) r (by omega) h
          refine ⟨line :: ts, ?_, ?_, ?_⟩
          · intro t ht
            simp only [List.mem_cons] at ht
            rcases ht with rfl | ht
            · exact ⟨by intro hn; apply he; simp [hn], chunked_takeLine_noCRLF s t rest hT⟩
            · exact h1 t ht
          · rw [hs, h2]; simp [C22.encTrailers]
          · have : C22.trailerSize (line :: ts) = line.length + 2 + C22.trailerSize ts := by
              simp [C22.trailerSize]
            omega

/-! ### the chunked body -/

theorem chunked_encode_cons (c : C22.Chunk) (cs : List C22.Chunk) (last : Bytes) (ts : List Bytes) :
    C22.encode (c :: cs) last ts = C22.encChunk c ++ C22.encode cs last ts := by
  simp [C22.encode]

/-- what the reference accepts as a chunked body is an encoding in the sense of C22 -/
theorem chunked_decomp : ∀ (fuel : Nat) (s body rest : Bytes), R.chunkedBody fuel s = .ok (body, rest) →
    ∃ (chunks : List C22.Chunk) (last : Bytes) (trailers : List Bytes),
      (∀ c ∈ chunks, c.wf) ∧ C22.lineOK last 0 ∧ (∀ t ∈ trailers, C22.trailerOK t) ∧
      C22.trailerSize trailers ≤ maxTrailerHeadersSize ∧
      s = C22.encode chunks last trailers ++ rest ∧ body = C22.body chunks := by
  intro fuel
  induction fuel with
  | zero => intro s body rest h; simp [Twisted.Http.Rfc9112Request.chunkedBody] at h
  | succ fuel ih =>
    intro s body rest h
    simp only [Twisted.Http.Rfc9112Request.chunkedBody] at h
    split at h
    · split at h <;> cases h
    · rename_i line r1 hT
      obtain ⟨hs, _⟩ := takeLine_some s line r1 hT
      have hno := chunked_takeLine_noCRLF s line r1 hT
      split at h
      · cases h
      · rename_i hlen
        simp only [Twisted.Http.Rfc9112Request.maxChunkLine, ge_iff_le, Nat.not_le] at hlen
        split at h
        · cases h
        · -- last-chunk
          rename_i hp
          obtain ⟨hp1, hp2⟩ := chunked_parseChunkLine line 0 hp
          cases htr : R.trailerSection (r1.length + 1) r1 0 with
          | error e => rw [htr] at h; cases h
          | ok r =>
            rw [htr] at h
            simp only [Except.map, Except.ok.injEq, Prod.mk.injEq] at h
            obtain ⟨rfl, rfl⟩ := h
            obtain ⟨ts, t1, t2, t3⟩ := chunked_trailer _ r1 0 r (by omega) htr
            refine ⟨[], line, ts, by simp, ⟨hno, by omega, hp1, hp2⟩, t1, ?_, ?_, by simp [C22.body]⟩
            · simp only [maxTrailerHeadersSize]; omega
            · rw [hs, t2]; simp [C22.encode]
        · -- a chunk
          rename_i k hk0 hp
          obtain ⟨hp1, hp2⟩ := chunked_parseChunkLine line k hp
          split at h
          · cases h
          · rename_i hk
            split at h
            · cases h
            · split at h
              · cases h
              · rename_i hcrlf
                have hcrlf' : R.startsCRLF (r1.drop k) = true := by simpa using hcrlf
                obtain ⟨t, ht⟩ := chunked_startsCRLF _ hcrlf'
                have hdd : r1.drop (k + 2) = t := by
                  have : r1.drop (k + 2) = (r1.drop k).drop 2 := by
                    rw [List.drop_drop]
                  rw [this, ht]; rfl
                have hr1 : r1.take k ++ CR :: LF :: r1.drop (k + 2) = r1 := by
                  rw [hdd, ← ht, List.take_append_drop]
                cases hrec : R.chunkedBody fuel (r1.drop (k + 2)) with
                | error e => rw [hrec] at h; cases h
                | ok p =>
                  rw [hrec] at h
                  simp only [Except.map, Except.ok.injEq, Prod.mk.injEq] at h
                  obtain ⟨rfl, rfl⟩ := h
                  obtain ⟨chunks, last, ts, a1, a2, a3, a4, a5, a6⟩ := ih _ p.1 p.2 hrec
                  have hlenk : (r1.take k).length = k := by
                    rw [List.length_take]; omega
                  refine ⟨⟨line, r1.take k⟩ :: chunks, last, ts, ?_, a2, a3, a4, ?_, ?_⟩
                  · intro c hc
                    simp only [List.mem_cons] at hc
                    rcases hc with rfl | hc
                    · have hkpos : 0 < k := Nat.pos_of_ne_zero (by intro h0; exact hk0 h0)
                      have hlen' : line.length ≤ 1023 := by omega
                      refine ⟨⟨hno, hlen', ?_, hp2⟩, ?_⟩
                      · show hexint (splitSemi line).1 = some (r1.take k).length
                        rw [hlenk]; exact hp1
                      · show 0 < (r1.take k).length
                        rw [hlenk]; omega
                    · exact a1 c hc
                  · rw [chunked_encode_cons, List.append_assoc, ← a5, hs]
                    simp only [C22.encChunk]
                    conv => lhs; rw [← hr1]
                    simp
                  · rw [a6]; simp [C22.body]

/-! ### the decoder on a body the reference accepts -/

/-- **Chunked body accepted by the reference**: the decoder, handed the stream in one delivery,
    does not raise, delivers exactly the reference's content and calls `finishCallback` exactly
    once, with exactly what the reference says follows the body. -/
theorem chunked_ok (fuel : Nat) (s body rest : Bytes) (h : R.chunkedBody fuel s = .ok (body, rest)) :
    ∃ d, Twisted.Http.Chunked.dataReceived Twisted.Http.Chunked.init s = .ok d ∧ d.data = body ∧ d.fin = [rest] := by
  obtain ⟨chunks, last, ts, a1, a2, a3, a4, a5, a6⟩ := chunked_decomp fuel s body rest h
  obtain ⟨d, rest', e, h1, _, _, h4, h5, h6⟩ :=
    C22.decode_encode chunks last ts rest [s] a1 a2 a3 a4 (by simp [a5])
  have hfeed : Twisted.Http.Chunked.feed Twisted.Http.Chunked.init [s] =
      (dataReceived Twisted.Http.Chunked.init s).bind fun s' => Twisted.Http.Chunked.feed s' [] := by
    simp [Twisted.Http.Chunked.feed, Twisted.Http.Chunked.init]
  rw [hfeed] at h1
  cases hd : dataReceived Twisted.Http.Chunked.init s with
  | error err => rw [hd] at h1; simp [Except.bind] at h1
  | ok d' =>
    rw [hd] at h1
    simp only [Except.bind, Twisted.Http.Chunked.feed, Except.ok.injEq, Prod.mk.injEq] at h1
    obtain ⟨rfl, rfl⟩ := h1
    refine ⟨d', rfl, by rw [h4, a6], ?_⟩
    rw [h5]
    simpa using h6

/-! ### rejection: what the reference calls invalid, the decoder refuses -/

theorem chunked_badExt : ∀ c : UInt8, R.badExtByte c = true → chunkExtChar c = false := by
  apply chunked_forall_uint8; decide +kernel

theorem chunked_parseChunkLine_bad (line : Bytes) (k : R.BadKey) (h : R.parseChunkLine line = .error (.bad k)) :
    hexint (splitSemi line).1 = none ∨ (splitSemi line).2.all chunkExtChar = false := by
  unfold Twisted.Http.Rfc9112Request.parseChunkLine at h
  simp only [(chunked_split line).1, (chunked_split line).2] at h
  split at h
  · rename_i h1
    left
    simp only [Bool.or_eq_true, Bool.not_eq_true'] at h1
    rw [chunked_isHex_fun] at h1
    rw [hexint, if_neg]
    intro hd
    simp only [isHexDigits, Bool.and_eq_true, Bool.not_eq_true'] at hd
    rcases h1 with h1 | h1
    · rw [hd.2] at h1; cases h1
    · rw [hd.1] at h1; cases h1
  · split at h
    · rename_i h2
      right
      obtain ⟨c, hc, hb⟩ := List.any_eq_true.mp h2
      rw [List.all_eq_false]
      exact ⟨c, hc, by rw [chunked_badExt c hb]; simp⟩
    · split at h
      · cases h
      · cases h

theorem chunked_takeLine_none_noCRLF : ∀ (s : Bytes), R.takeLine s = none → C22.noCRLF s = true := by
  intro s
  induction s with
  | nil => intro _; rfl
  | cons c t ih =>
    intro h
    cases t with
    | nil => exact C22.noCRLF_short _ (by simp)
    | cons d t' =>
      rw [takeLine_cons2] at h
      split at h
      · simp at h
      · rename_i hcd
        cases hr : R.takeLine (d :: t') with
        | some p => simp [hr] at h
        | none =>
          rw [C22.noCRLF_cons]
          exact ⟨by simpa [CR, LF] using hcd, ih hr⟩

theorem chunked_not_startsCRLF (x y : UInt8) (t : Bytes) (h : R.startsCRLF (x :: y :: t) = false) :
    ¬(x = CR ∧ y = LF) := by
  unfold Twisted.Http.Rfc9112Request.startsCRLF at h
  split at h
  · cases h
  · rename_i hne
    rintro ⟨hx, hy⟩
    exact hne t (by rw [hx, hy]; rfl)

theorem chunked_trailer_notbad : ∀ (fuel : Nat) (s : Bytes) (total : Nat) (k : R.BadKey),
    R.trailerSection fuel s total ≠ .error (.bad k) := by
  intro fuel
  induction fuel with
  | zero => intro s total k h; simp [Twisted.Http.Rfc9112Request.trailerSection] at h
  | succ fuel ih =>
    intro s total k h
    simp only [Twisted.Http.Rfc9112Request.trailerSection] at h
    split at h
    · split at h <;> cases h
    · split at h
      · cases h
      · split at h
        · cases h
        · exact ih _ _ _ h

/-- what stops the decoder: a terminated size line it must refuse, chunk data followed by two
    octets other than CRLF, or more than 1024 octets without any CRLF where a size line is due -/
def chunked_badTail (X : Bytes) : Prop :=
  (∃ line rest, C22.lineBad line ∧ X = line ++ CR :: LF :: rest) ∨
  (∃ (c : C22.Chunk) (x y : UInt8) (rest : Bytes), c.wf ∧ ¬(x = CR ∧ y = LF) ∧
      X = c.line ++ CR :: LF :: (c.data ++ x :: y :: rest)) ∨
  (C22.noCRLF X = true ∧ 1024 < X.length)

/-- what the reference calls an invalid chunked body is some good chunks followed by a `chunked_badTail` -/
theorem chunked_bad_decomp : ∀ (fuel : Nat) (s : Bytes) (k : R.BadKey), R.chunkedBody fuel s = .error (.bad k) →
    ∃ (chunks : List C22.Chunk) (X : Bytes), (∀ c ∈ chunks, c.wf) ∧
      s = (chunks.map C22.encChunk).flatten ++ X ∧ chunked_badTail X := by
  intro fuel
  induction fuel with
  | zero => intro s k h; simp [Twisted.Http.Rfc9112Request.chunkedBody] at h
  | succ fuel ih =>
    intro s k h
    simp only [Twisted.Http.Rfc9112Request.chunkedBody] at h
    split at h
    · rename_i hT
      split at h
      · rename_i hlen
        simp only [Twisted.Http.Rfc9112Request.maxChunkLine] at hlen
        exact ⟨[], s, by simp, by simp, Or.inr (Or.inr ⟨chunked_takeLine_none_noCRLF s hT, hlen⟩)⟩
      · cases h
    · rename_i line r1 hT
      obtain ⟨hs, _⟩ := takeLine_some s line r1 hT
      have hno := chunked_takeLine_noCRLF s line r1 hT
      split at h
      · cases h
      · rename_i hlen
        simp only [Twisted.Http.Rfc9112Request.maxChunkLine, ge_iff_le, Nat.not_le] at hlen
        split at h
        · rename_i e hp
          simp only [Except.error.injEq] at h
          subst h
          exact ⟨[], s, by simp, by simp,
            Or.inl ⟨line, r1, ⟨hno, Or.inr (chunked_parseChunkLine_bad line k hp)⟩, hs⟩⟩
        · cases htr : R.trailerSection (r1.length + 1) r1 0 with
          | error e =>
            rw [htr] at h
            simp only [Except.map, Except.error.injEq] at h
            subst h
            exact absurd htr (chunked_trailer_notbad _ _ _ _)
          | ok r => rw [htr] at h; cases h
        · rename_i n hn0 hp
          obtain ⟨hp1, hp2⟩ := chunked_parseChunkLine line n hp
          have hnpos : 0 < n := Nat.pos_of_ne_zero (by intro h0; exact hn0 h0)
          have hlen' : line.length ≤ 1023 := by omega
          split at h
          · cases h
          · rename_i hk
            have hlenk : (r1.take n).length = n := by
              rw [List.length_take]; omega
            have hwf : (C22.Chunk.mk line (r1.take n)).wf := by
              refine ⟨⟨hno, hlen', ?_, hp2⟩, ?_⟩
              · show hexint (splitSemi line).1 = some (r1.take n).length
                rw [hlenk]; exact hp1
              · show 0 < (r1.take n).length
                rw [hlenk]; exact hnpos
            split at h
            · cases h
            · rename_i h2
              split at h
              · rename_i hcrlf
                have hcrlf' : R.startsCRLF (r1.drop n) = false := by simpa using hcrlf
                cases hD : r1.drop n with
                | nil => rw [hD] at h2; simp at h2
                | cons x l =>
                  cases l with
                  | nil => rw [hD] at h2; simp at h2
                  | cons y rest' =>
                    rw [hD] at hcrlf'
                    have hxy := chunked_not_startsCRLF x y rest' hcrlf'
                    have hr1 : r1.take n ++ x :: y :: rest' = r1 := by
                      rw [← hD, List.take_append_drop]
                    refine ⟨[], s, by simp, by simp, Or.inr (Or.inl ⟨⟨line, r1.take n⟩, x, y, rest', hwf, hxy, ?_⟩)⟩
                    show s = line ++ CR :: LF :: (r1.take n ++ x :: y :: rest')
                    rw [hr1]; exact hs
              · rename_i hcrlf
                have hcrlf' : R.startsCRLF (r1.drop n) = true := by simpa using hcrlf
                obtain ⟨t, ht⟩ := chunked_startsCRLF _ hcrlf'
                have hdd : r1.drop (n + 2) = t := by
                  have : r1.drop (n + 2) = (r1.drop n).drop 2 := by
                    rw [List.drop_drop]
                  rw [this, ht]; rfl
                have hr1 : r1.take n ++ CR :: LF :: r1.drop (n + 2) = r1 := by
                  rw [hdd, ← ht, List.take_append_drop]
                cases hrec : R.chunkedBody fuel (r1.drop (n + 2)) with
                | ok p => rw [hrec] at h; cases h
                | error e =>
                  rw [hrec] at h
                  simp only [Except.map, Except.error.injEq] at h
                  subst h
                  obtain ⟨chunks, X, a1, a2, a3⟩ := ih _ k hrec
                  refine ⟨⟨line, r1.take n⟩ :: chunks, X, ?_, ?_, a3⟩
                  · intro c hc
                    simp only [List.mem_cons] at hc
                    rcases hc with rfl | hc
                    · exact hwf
                    · exact a1 c hc
                  · simp only [List.map_cons, List.flatten_cons, List.append_assoc]
                    rw [← a2, hs]
                    simp only [C22.encChunk]
                    conv => lhs; rw [← hr1]
                    simp

/-- CHUNK_LENGTH: more than 1024 octets without a CRLF are refused, under every segmentation -/
theorem chunked_run_overlong (tail : Bytes) (hno : C22.noCRLF tail = true) (hlen : 1024 < tail.length) :
    ∀ (cs : List Bytes) (s : Dec), s.state = .chunkLength → C22.startOK s →
      s.buffer ++ cs.flatten = tail → ∃ s', C22.run s cs = .error (.malformed, s') := by
  have now : ∀ (cs : List Bytes) (s : Dec), s.state = .chunkLength → C22.startOK s →
      C22.noCRLF s.buffer = true → s.buffer.length > maxChunkSizeLineLength →
      ∃ s', C22.run s cs = .error (.malformed, s') := by
    intro cs s hst hso hnoB hbig
    have hf : findCRLF s.buffer s.start = none := by
      rw [C22.findCRLF_eq s hso]; exact C22.find_none_of_noCRLF _ _ hnoB
    have hnil : s.buffer ≠ [] := by
      intro h0; rw [h0] at hbig; simp [maxChunkSizeLineLength] at hbig
    have hh : handler s = .error .malformed := by
      simp only [handler, hst, handleChunkLength, hf]; simp [hbig]
    exact ⟨s, C22.run_err s _ _ hnil hh⟩
  intro cs
  induction cs with
  | nil =>
    intro s hst hso hb
    have hb' : s.buffer = tail := by simpa using hb
    exact now [] s hst hso (by rw [hb']; exact hno) (by rw [hb']; simpa [maxChunkSizeLineLength] using hlen)
  | cons d cs ih =>
    intro s hst hso hb
    have hnoB : C22.noCRLF s.buffer = true :=
      C22.noCRLF_prefix _ (d :: cs).flatten (by rw [hb]; exact hno)
    by_cases hbig : s.buffer.length > maxChunkSizeLineLength
    · exact now _ s hst hso hnoB hbig
    · by_cases hnil : s.buffer = []
      · rw [C22.run_nil_cons s d cs hnil (by simp [hst])]
        exact ih (s.append d) hst (C22.startOK_append s d hso)
          (by simpa [Dec.append, List.append_assoc] using hb)
      · have hf : findCRLF s.buffer s.start = none := by
          rw [C22.findCRLF_eq s hso]; exact C22.find_none_of_noCRLF _ _ hnoB
        have hh : handler s = .ok (false, { s with start := s.buffer.length - 1 }) := by
          simp only [handler, hst, handleChunkLength, hf]; simp [hbig]
        rw [C22.run_stop_cons s _ d cs hnil hh (by simp [hst])]
        have hpos : 0 < s.buffer.length := List.length_pos_iff.mpr hnil
        have hso' : C22.startOK ({ s with start := s.buffer.length - 1 } : Dec) := by
          refine ⟨?_, by simp⟩
          simp only
          rw [List.take_of_length_le (by omega)]; exact hnoB
        exact ih (({ s with start := s.buffer.length - 1 } : Dec).append d) hst
          (C22.startOK_append _ d hso') (by simpa [Dec.append, List.append_assoc] using hb)

theorem chunked_feed_one (s : Bytes) :
    Twisted.Http.Chunked.feed Twisted.Http.Chunked.init [s] =
      (dataReceived Twisted.Http.Chunked.init s).bind fun s' => Twisted.Http.Chunked.feed s' [] := by
  simp [Twisted.Http.Chunked.feed, Twisted.Http.Chunked.init]

theorem chunked_of_feed_error (s : Bytes) (e : Err × Dec)
    (h : Twisted.Http.Chunked.feed Twisted.Http.Chunked.init [s] = .error e) :
    dataReceived Twisted.Http.Chunked.init s = .error e := by
  rw [chunked_feed_one] at h
  cases hd : dataReceived Twisted.Http.Chunked.init s with
  | error e' => rw [hd] at h; simpa [Except.bind] using h
  | ok d' => rw [hd] at h; simp [Except.bind, Twisted.Http.Chunked.feed] at h

theorem chunked_of_feedAll_error (s : Bytes) (e : Err × Dec)
    (h : feedAll Twisted.Http.Chunked.init [s] = .error e) :
    dataReceived Twisted.Http.Chunked.init s = .error e := by
  simp only [feedAll] at h
  cases hd : dataReceived Twisted.Http.Chunked.init s with
  | error e' => rw [hd] at h; simpa [Except.bind] using h
  | ok d' => rw [hd] at h; simp [Except.bind] at h

/-- **Chunked body the reference calls invalid** (chunk-size line not `1*HEXDIG [";" ext]`, a
    forbidden octet in the extension, more than 1024 octets without CRLF where a size line is due,
    chunk data not followed by CRLF): the decoder raises `_MalformedChunkedDataError`. -/
theorem chunked_bad (fuel : Nat) (s : Bytes) (k : R.BadKey) (h : R.chunkedBody fuel s = .error (.bad k)) :
    ∃ d, Twisted.Http.Chunked.dataReceived Twisted.Http.Chunked.init s = .error (.malformed, d) := by
  obtain ⟨chunks, X, hc, hs, hX⟩ := chunked_bad_decomp fuel s k h
  rcases hX with ⟨line, rest, hl, rfl⟩ | ⟨c, x, y, rest, hcw, hxy, rfl⟩ | ⟨hno, hlen⟩
  · obtain ⟨d, _, h2, _⟩ := C22.rejects_bad_size_line chunks line rest [s] hc hl (by simp [hs])
    exact ⟨d, chunked_of_feed_error s _ h2⟩
  · obtain ⟨d, h1, _⟩ := C22.rejects_missing_crlf_after_data chunks c x y rest [s] hc hcw hxy (by simp [hs])
    exact ⟨d, chunked_of_feedAll_error s _ h1⟩
  · have hb : Twisted.Http.Chunked.init.buffer ++ [s].flatten = (chunks.map C22.encChunk).flatten ++ X := by
      simp [hs, Twisted.Http.Chunked.init]
    obtain ⟨s1, cs1, a1, a2, a3, _, _, _, a7⟩ :=
      C22.run_chunks X chunks hc [s] Twisted.Http.Chunked.init rfl C22.startOK_init hb
    obtain ⟨d, hd⟩ := chunked_run_overlong X hno hlen cs1 s1 a1 a2 a3
    refine ⟨d, chunked_of_feed_error s _ ?_⟩
    rw [C22.feed_eq_run _ _ rfl, a7, hd]

end TwistedProps.C19
