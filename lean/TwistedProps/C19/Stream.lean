import TwistedProps.C19.Msg
import TwistedProps.C19.NotDone
/-!
C19: one message (`msg_sim`), then the whole stream (`stream_sim`): the channel model against the
reference parser `TwistedModel/Http/Rfc9112Request.lean`.
-/
namespace TwistedProps.C19
open Twisted.Http.Chunked hiding St feed init
open Twisted.Http.Channel

theorem startsCRLF_line (s line r1 : Bytes) (ht : R.takeLine s = some (line, r1)) (h : R.startsCRLF s = false) :
    line ≠ [] := by
  intro hl; subst hl
  obtain ⟨hs, _⟩ := takeLine_some s [] r1 ht
  rw [hs] at h
  simp [Twisted.Http.Rfc9112Request.startsCRLF, CR, LF] at h

theorem fieldLines_rest_le : ∀ (fuel : Nat) (s : Bytes) (size : Nat) (acc hs' : List (R.Bytes × R.Bytes)) (rest : Bytes),
    R.fieldLines fuel s size acc = .ok (hs', rest) → rest.length ≤ s.length := by
  intro fuel
  induction fuel with
  | zero => intro s size acc hs' rest h; simp [Twisted.Http.Rfc9112Request.fieldLines] at h
  | succ fuel ih =>
    intro s size acc hs' rest h
    rcases fieldLines_cases fuel s size acc with ⟨e, _, he⟩ | ⟨r, ht, hr⟩ | ⟨hl, r, l2, r2, ht, _, _, _, _, _, _, hcase⟩
    · rw [he] at h; simp at h
    · rw [hr] at h
      simp only [Except.ok.injEq, Prod.mk.injEq] at h
      obtain ⟨hs, _⟩ := takeLine_some s [] r ht
      rw [hs, ← h.2]; simp only [List.nil_append, List.length_cons]; omega
    · obtain ⟨hs, _⟩ := takeLine_some s hl r ht
      rcases hcase with ⟨e, _, he⟩ | ⟨f, _, _, hf⟩ | ⟨f, _, he⟩
      · rw [he] at h; simp at h
      · rw [hf] at h
        have := ih _ _ _ _ _ h
        rw [hs]; simp; omega
      · rw [he] at h; simp at h

/-- **one message.**  From a channel between requests, on a stream that does not start with an empty line:
    a message the reference reads is handed over with exactly its request line and body, and the channel
    goes on with exactly the bytes the reference leaves; a message the reference refuses (other than the
    `te-identity` class) is answered with 400 and nothing more. -/
theorem msg_sim (app : App) (hfin : AtOnce app) (c : Chan) (fl : Nat) (hfl : fl = 1 ∨ fl = 2) (hc : Ready c fl)
    (s : Bytes) (hcr : R.startsCRLF s = false) :
    (∀ msg rest, R.parseOne s = .ok (msg, rest) →
      MsgDone app c s rest msg.method msg.target msg.version msg.body ∧ rest.length < s.length ∧
        msg.stop = s.length - rest.length) ∧
    (∀ k, R.parseOne s = .error (.bad k) → k ≠ .teIdentity → RefusedRun' (D app c s)) := by
  unfold Twisted.Http.Rfc9112Request.parseOne
  cases ht : R.takeLine s with
  | none =>
    constructor
    · intro msg rest h; simp only at h; split at h <;> simp at h
    · intro k h; simp only at h; split at h <;> simp at h
  | some p =>
    obtain ⟨line, r1⟩ := p
    simp only
    obtain ⟨hs, _⟩ := takeLine_some s line r1 ht
    have hr1 : r1.length < s.length := by rw [hs]; simp; omega
    by_cases hlen : line.length > R.maxLine
    · simp only [hlen, if_true]
      exact ⟨fun _ _ h => by simp at h, fun _ h => by simp at h⟩
    · simp only [hlen, if_false]
      have hll : line.length ≤ 16384 := by
        simp only [Twisted.Http.Rfc9112Request.maxLine] at hlen; omega
      have hne := startsCRLF_line s line r1 ht hcr
      cases hrl : R.parseRequestLine line with
      | error e =>
        simp only
        refine ⟨fun _ _ h => by simp at h, fun k h hk => ?_⟩
        simp only [Except.error.injEq] at h
        subst h
        have := lineReceived_badline app c fl hfl hc line (reqline_bad line k hrl) (Or.inl hne) hll
        exact (D_refused app c s line r1 hc.lineMode ht hll this).weaken
      | ok mtv =>
        obtain ⟨m, t, v⟩ := mtv
        simp only
        have hx0 := lineReceived_reqline app c fl hfl hc line m t v (reqline_ok line m t v hrl) hll
        obtain ⟨i1, i2, i3, i4, i5, i6, i7, i8, i9, i10, i11⟩ := inHead_facts c fl hc m t v line.length [] 0 [] .none
        have hD0 := D_continue app c s line r1 _ hc.lineMode ht hll hx0 i8 i9 i10
        have hinv0 : HeadInv c m t v line.length [] (inHead c m t v line.length [] 0 [] .none) := Or.inl ⟨rfl, rfl⟩
        obtain ⟨P1, P2⟩ := head_sim app c fl hc m t v (r1.length + 1) r1 line.length [] _ hinv0 hll (by simp)
        cases hfl' : R.fieldLines (r1.length + 1) r1 line.length [] with
        | error e =>
          simp only
          refine ⟨fun _ _ h => by simp at h, fun k h hk => ?_⟩
          simp only [Except.error.injEq] at h
          subst h
          rw [hD0]; exact (P2 k hfl').weaken
        | ok hr =>
          obtain ⟨hs', r2⟩ := hr
          simp only
          have hr2 : r2.length ≤ r1.length := fieldLines_rest_le _ _ _ _ _ _ hfl'
          cases hfr : R.framing hs' with
          | error e =>
            simp only
            refine ⟨fun _ _ h => by simp at h, fun k h hk => ?_⟩
            simp only [Except.error.injEq] at h
            subst h
            have hnone := choose_of_framing_bad hs' k hfr hk
            rw [hD0]
            rcases P1 hs' r2 hfl' with ⟨x', size', hinv', hsz', hacc', hD1⟩ | ⟨_, hR⟩
            · rw [hD1]
              obtain ⟨g1, g2, g3, g4, g5, g6, g7⟩ := HeadInv_facts c fl hc m t v size' hs' x' hinv'
              exact (D_refused app x' _ [] r2 g7 (takeLine_crlf r2) (by simp)
                ((lineReceived_end app c fl hc m t v size' hs' x' hinv' hsz' hacc').2 hnone)).weaken
            · exact hR.weaken
          | ok frm =>
            have hsome := choose_of_framing_ok hs' frm hfr
            rcases P1 hs' r2 hfl' with ⟨x', size', hinv', hsz', hacc', hD1⟩ | ⟨hnone, _⟩
            · obtain ⟨g1, g2, g3, g4, g5, g6, g7⟩ := HeadInv_facts c fl hc m t v size' hs' x' hinv'
              obtain ⟨chs, hend⟩ := (lineReceived_end app c fl hc m t v size' hs' x' hinv' hsz' hacc').1 frm hsome
              have hDD : D app c s = D app x' (CR :: LF :: r2) := by rw [hD0, hD1]
              cases frm with
              | none =>
                simp only
                refine ⟨fun msg rest h => ?_, fun _ h => by simp at h⟩
                simp only [Except.ok.injEq, Prod.mk.injEq] at h
                obtain ⟨rfl, rfl⟩ := h
                refine ⟨MsgDone_of_eq app c x' s _ _ _ _ _ _ hDD
                  (end_nobody app hfin c fl hc m t v size' hs'.length chs .none rfl rfl x' _ g7 hend), by omega, rfl⟩
              | length n =>
                simp only
                by_cases hn : r2.length < n
                · simp only [hn, if_true]
                  exact ⟨fun _ _ h => by simp at h, fun _ h => by simp at h⟩
                · simp only [hn, if_false]
                  refine ⟨fun msg rest h => ?_, fun _ h => by simp at h⟩
                  simp only [Except.ok.injEq, Prod.mk.injEq] at h
                  obtain ⟨rfl, rfl⟩ := h
                  by_cases hn0 : n = 0
                  · subst hn0
                    refine ⟨MsgDone_of_eq app c x' s _ _ _ _ _ _ hDD ?_, by simp; omega, rfl⟩
                    simpa using end_nobody app hfin c fl hc m t v size' hs'.length chs (.length 0) rfl rfl x' r2 g7 hend
                  · refine ⟨MsgDone_of_eq app c x' s _ _ _ _ _ _ hDD ?_, by simp; omega, rfl⟩
                    have hraw := raw_ident app { afterHead c m t v size' hs'.length chs (.length n) with lineMode := false } n r2
                      hc.handling rfl hc.dataBuffer hn
                    exact end_body app hfin c fl hc m t v size' hs'.length chs (.length n)
                      (by simp [lenOf, hn0]) x' r2 g7 hend (.ident ⟨some 0, false, r2.take n, [r2.drop n]⟩) (r2.drop n)
                      (by simp; omega) hraw
              | chunked =>
                simp only
                cases hcb : R.chunkedBody (r2.length + 1) r2 with
                | error e =>
                  simp only
                  refine ⟨fun _ _ h => by simp at h, fun k h hk => ?_⟩
                  simp only [Except.error.injEq] at h
                  subst h
                  obtain ⟨d, hd⟩ := chunked_bad _ r2 k hcb
                  rw [hDD]
                  exact end_badbody app c fl hc m t v size' hs'.length chs x' r2 g7 hend d hd
                | ok br =>
                  obtain ⟨body, r3⟩ := br
                  simp only
                  refine ⟨fun msg rest h => ?_, fun _ h => by simp at h⟩
                  simp only [Except.ok.injEq, Prod.mk.injEq] at h
                  obtain ⟨rfl, rfl⟩ := h
                  obtain ⟨d, hd, hdata, hfinl⟩ := chunked_ok _ r2 body r3 hcb
                  have hlt := chunked_rest_lt _ r2 body r3 hcb
                  refine ⟨MsgDone_of_eq app c x' s _ _ _ _ _ _ hDD ?_, by omega, rfl⟩
                  have hraw := raw_chunked app { afterHead c m t v size' hs'.length chs .chunked with lineMode := false } r2 d r3
                    hc.handling rfl hc.dataBuffer hd hfinl
                  have := end_body app hfin c fl hc m t v size' hs'.length chs .chunked
                    (by simp [lenOf]) x' r2 g7 hend (.chunked d) r3 hlt hraw
                  simpa [Decoder.body, hdata] using this
            · rw [hsome] at hnone; simp at hnone

/-! ### the whole stream -/

theorem startsCRLF_eq (s : Bytes) (h : R.startsCRLF s = true) : s = CR :: LF :: s.drop 2 := by
  unfold Twisted.Http.Rfc9112Request.startsCRLF at h
  split at h
  · rfl
  · simp at h

def sameMsg (r : Req) (m : R.Msg) : Prop :=
  r.method = m.method ∧ r.uri = m.target ∧ r.version = m.version ∧ r.body = m.body

/-- the run `x` of the channel follows the reference's reading `msgs`, `stop` of the stream: message by
    message one request with the reference's request line and body, in order, as long as the requests (as
    handed over) are persistent; at the reference's stop: a refusal for an invalid message (not `te-identity`),
    nothing more at the end of the stream.  (`may`, `more`: nothing is said.) -/
def Follows : List R.Msg → R.Stop → Chan × Bytes × List Out → Prop
  | [], .bad k, x => k ≠ .teIdentity → RefusedRun' x
  | [], .done, x => delivered x.2.2 = []
  | [], _, _ => True
  | m :: ms, stop, x =>
    ∃ (r : Req) (o : List Out), sameMsg r m ∧ delivered o = [r] ∧
      ((checkPersistence r.headers r.version = true ∧ ∃ x', x = pre o x' ∧ Follows ms stop x') ∨
       (checkPersistence r.headers r.version = false ∧ x.1.closed = true ∧ x.2.2 = o))

theorem messages_succ (fuel : Nat) (s : Bytes) (pos : Nat) (skipped : Bool) :
    R.messages (fuel + 1) s pos skipped =
      if s.isEmpty then ([], .done)
      else if R.startsCRLF s then
        if skipped then ([], .may) else R.messages fuel (s.drop 2) (pos + 2) true
      else match R.parseOne s with
        | .error e => ([], e)
        | .ok (m, rest) =>
          ({ m with start := pos, stop := pos + m.stop } :: (R.messages fuel rest (pos + m.stop) false).1,
            (R.messages fuel rest (pos + m.stop) false).2) := by
  rw [Twisted.Http.Rfc9112Request.messages]
  split
  · rfl
  · split
    · rfl
    · cases R.parseOne s with
      | error e => rfl
      | ok p => rfl

theorem stream_sim (app : App) (hfin : AtOnce app) :
    ∀ (fuel : Nat) (s : Bytes) (pos : Nat) (skipped : Bool) (c : Chan) (fl : Nat),
      fl = (if skipped then 2 else 1) → Ready c fl → s.length < fuel →
      Follows (R.messages fuel s pos skipped).1 (R.messages fuel s pos skipped).2 (D app c s) := by
  intro fuel
  induction fuel with
  | zero => intro s pos skipped c fl _ _ h; omega
  | succ fuel ih =>
    intro s pos skipped c fl hfl hc hlen
    rw [messages_succ]
    by_cases he : s.isEmpty = true
    · have : s = [] := by simpa using he
      subst this
      simp [Follows, D_nil, delivered]
    · simp only [he, Bool.false_eq_true, if_false]
      by_cases hcr : R.startsCRLF s = true
      · simp only [hcr, if_true]
        cases skipped with
        | true => simp [Follows]
        | false =>
          simp only [Bool.false_eq_true, if_false] at hfl ⊢
          subst hfl
          obtain ⟨hskip, hc2⟩ := lineReceived_skip app c hc
          have hs : s = CR :: LF :: s.drop 2 := startsCRLF_eq s hcr
          have hsl : s.length = (s.drop 2).length + 2 := by
            have := congrArg List.length hs
            simpa using this
          have hD : D app c s = D app { c with firstLine := 2 } (s.drop 2) := by
            have ht : R.takeLine s = some ([], s.drop 2) := by rw [hs]; exact takeLine_crlf _
            exact D_continue app c s [] (s.drop 2) _ hc.lineMode ht (by simp) hskip hc2.closed hc2.raised hc2.requeue
          rw [hD]
          exact ih (s.drop 2) (pos + 2) true _ 2 rfl hc2 (by omega)
      · have hcr' : R.startsCRLF s = false := by simpa using hcr
        simp only [hcr, Bool.false_eq_true, if_false]
        have hfl' : fl = 1 ∨ fl = 2 := by cases skipped <;> simp at hfl <;> omega
        obtain ⟨M1, M2⟩ := msg_sim app hfin c fl hfl' hc s hcr'
        cases hp : R.parseOne s with
        | error e =>
          simp only
          cases e with
          | bad k => exact fun hk => M2 k hp hk
          | may => trivial
          | more => trivial
          | done => exact absurd hp (nd_parseOne s)
        | ok p =>
          obtain ⟨m, rest⟩ := p
          simp only
          obtain ⟨⟨r, o, ho, h1, h2, h3, h4, hcase⟩, hlt, _⟩ := M1 m rest hp
          refine ⟨r, o, ⟨h1, h2, h3, h4⟩, ho, ?_⟩
          rcases hcase with ⟨hpers, z, hz, hD⟩ | ⟨hpers, z, b, hz1, hz2, hD⟩
          · left
            exact ⟨hpers, _, hD, ih rest (pos + m.stop) false z 1 rfl hz (by omega)⟩
          · right
            exact ⟨hpers, by rw [hD]; exact hz1, by rw [hD]⟩

end TwistedProps.C19
