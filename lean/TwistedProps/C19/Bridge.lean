import TwistedProps.C19.Defs
/-!
C19, bridge lemmas: the octet and line functions of the reference parser (`R.…`) are those of the
channel model, the reference's request-line verdicts carry over to `_parseRequestLine`, and
`_NameEncoder.encode` identifies `Content-Length` / `Transfer-Encoding` exactly when the lower-cased
name does.
-/
namespace TwistedProps.C19
open Twisted.Http.Chunked hiding St feed init
open Twisted.Http.Channel

theorem bridge_forall_uint8 (P : UInt8 → Prop) (h : ∀ n : Fin 256, P (UInt8.ofNat n.val)) : ∀ c, P c := by
  intro c; have := h ⟨c.toNat, c.toNat_lt⟩; simpa using this

/-! ### octets -/

theorem isTchar_eq (c : UInt8) : R.isTchar c = isTchar c := by
  revert c; apply bridge_forall_uint8; decide +kernel

theorem bridge_isVchar_eq (c : UInt8) : R.isVchar c = targetByteOK c := by
  revert c; apply bridge_forall_uint8; decide +kernel

theorem isDigit_eq (c : UInt8) : R.isDigit c = isDigit c := rfl

theorem bridge_lower_upper (c : UInt8) : lowerByte (upperByte c) = lowerByte c := by
  revert c; apply bridge_forall_uint8; decide +kernel

theorem bridge_lower_lower (c : UInt8) : lowerByte (lowerByte c) = lowerByte c := by
  revert c; apply bridge_forall_uint8; decide +kernel

theorem bridge_upper_lower (c : UInt8) : upperByte (lowerByte c) = upperByte c := by
  revert c; apply bridge_forall_uint8; decide +kernel

theorem bridge_lowerByte_dash (c : UInt8) : lowerByte c = 45 ↔ c = 45 := by
  revert c; apply bridge_forall_uint8; decide +kernel

/-! ### tokens, splitting, stripping, lower-casing -/

theorem bridge_isTchar_fun : Twisted.Http.Rfc9112Request.isTchar = isTchar := funext isTchar_eq

theorem isToken_eq (b : Bytes) : R.isToken b = isToken b := by
  show (!b.isEmpty && b.all Twisted.Http.Rfc9112Request.isTchar) = (b.all isTchar && !b.isEmpty)
  rw [bridge_isTchar_fun, Bool.and_comm]

theorem bridge_splitFirst_eq (sep : UInt8) (b : Bytes) : R.splitFirst sep b = splitOnce sep b := by
  induction b with
  | nil => rfl
  | cons c rest ih =>
    simp only [Twisted.Http.Rfc9112Request.splitFirst, Twisted.Http.Channel.splitOnce, ih]
    split
    · rfl
    · cases splitOnce sep rest with
      | none => rfl
      | some p => cases p; rfl

theorem splitFirst_eq (b : Bytes) : R.splitFirst 58 b = splitOnce COLON b :=
  bridge_splitFirst_eq 58 b

theorem splitAt_eq (sep : UInt8) (b : Bytes) : R.splitAt sep b = splitOn sep b := by
  induction b with
  | nil => rfl
  | cons c rest ih =>
    simp only [Twisted.Http.Rfc9112Request.splitAt, Twisted.Http.Channel.splitOn, ih] <;> rfl

theorem strip_eq (b : Bytes) : R.stripBy R.isOWS b = stripSpTab b := rfl

theorem lower_eq (b : Bytes) : R.lower b = lower b := rfl

/-! ### request-line -/

theorem bridge_isVchar_fun : Twisted.Http.Rfc9112Request.isVchar = targetByteOK := funext bridge_isVchar_eq

theorem reqline_ok (line m t v : Bytes) (h : R.parseRequestLine line = .ok (m, t, v)) :
    parseRequestLine line = some (m, t, v) := by
  unfold Twisted.Http.Rfc9112Request.parseRequestLine at h
  unfold Twisted.Http.Channel.parseRequestLine
  rw [splitAt_eq] at h
  rw [show SP = (32 : UInt8) from rfl]
  generalize splitOn 32 line = parts at h ⊢
  rcases parts with _ | ⟨a, _ | ⟨b, _ | ⟨c, _ | ⟨d, r⟩⟩⟩⟩
  · simp at h
  · simp at h
  · simp at h
  · dsimp only at h ⊢
    split at h
    · cases h
    · rename_i h1
      split at h
      · cases h
      · rename_i h2
        split at h
        · cases h
        · rename_i h3
          split at h
          · cases h
          · rename_i h4
            simp only [Except.ok.injEq, Prod.mk.injEq] at h
            rw [← h.1, ← h.2.1, ← h.2.2]
            have g1 : ¬ (!isToken a) = true := by rw [← isToken_eq]; exact h1
            rw [bridge_isVchar_fun] at h2
            have g2 : ¬ (!b.all targetByteOK) = true := fun x => h2 (by rw [x, Bool.or_true])
            have g3 : ¬ b.isEmpty = true := fun x => h2 (by rw [x, Bool.true_or])
            have g4 : ¬ (c ≠ http11 ∧ c ≠ http10) := fun x => h4 ⟨x.2, x.1⟩
            rw [if_neg g1, if_neg g2, if_neg g3, if_neg g4]
  · simp at h

theorem reqline_bad (line : Bytes) (k : R.BadKey) (h : R.parseRequestLine line = .error (.bad k)) :
    parseRequestLine line = none := by
  unfold Twisted.Http.Rfc9112Request.parseRequestLine at h
  unfold Twisted.Http.Channel.parseRequestLine
  rw [splitAt_eq] at h
  rw [show SP = (32 : UInt8) from rfl]
  generalize splitOn 32 line = parts at h ⊢
  rcases parts with _ | ⟨a, _ | ⟨b, _ | ⟨c, _ | ⟨d, r⟩⟩⟩⟩
  · rfl
  · rfl
  · rfl
  · dsimp only at h ⊢
    split
    · rfl
    · rename_i g1
      split
      · rfl
      · rename_i g2
        split
        · rfl
        · rename_i g3
          split
          · rfl
          · rename_i g4
            exfalso
            split at h
            · rename_i h1
              rw [isToken_eq] at h1
              exact g1 h1
            · split at h
              · rename_i h2
                rw [bridge_isVchar_fun] at h2
                simp only [Bool.or_eq_true] at h2
                rcases h2 with x | x
                · exact g3 x
                · exact g2 x
              · split at h
                · rename_i h3
                  by_cases e1 : c = http11
                  · rw [e1] at h3; exact absurd h3 (by decide)
                  · by_cases e2 : c = http10
                    · rw [e2] at h3; exact absurd h3 (by decide)
                    · exact g4 ⟨e1, e2⟩
                · split at h
                  · cases h
                  · cases h
  · rfl

/-! ### `_NameEncoder.encode` -/

theorem encodeName_none (name : Bytes) (h : isToken name = false) : encodeName name = none := by
  simp [Twisted.Http.Channel.encodeName, h]

theorem bridge_lower_cons (c : UInt8) (r : Bytes) : lower (c :: r) = lowerByte c :: lower r := rfl

theorem bridge_lower_append (a b : Bytes) : lower (a ++ b) = lower a ++ lower b := by
  simp [Twisted.Http.Channel.lower]

theorem bridge_lower_idem (b : Bytes) : lower (lower b) = lower b := by
  induction b with
  | nil => rfl
  | cons c r ih => rw [bridge_lower_cons, bridge_lower_cons, bridge_lower_lower, ih]

theorem bridge_lower_dash : lower [45] = [45] := by decide +kernel

theorem bridge_lower_capitalize (p : Bytes) : lower (capitalize p) = lower p := by
  cases p with
  | nil => rfl
  | cons c r =>
    show lowerByte (upperByte c) :: lower (lower r) = lowerByte c :: lower r
    rw [bridge_lower_upper, bridge_lower_idem]

theorem bridge_capitalize_lower (p : Bytes) : capitalize (lower p) = capitalize p := by
  cases p with
  | nil => rfl
  | cons c r =>
    show upperByte (lowerByte c) :: lower (lower r) = upperByte c :: lower r
    rw [bridge_upper_lower, bridge_lower_idem]

theorem bridge_lower_joinWith (ps : List Bytes) :
    lower (joinWith [45] ps) = joinWith [45] (ps.map lower) := by
  induction ps with
  | nil => rfl
  | cons p qs ih =>
    cases qs with
    | nil => rfl
    | cons q qs =>
      have e1 : joinWith [45] (p :: q :: qs) = p ++ [45] ++ joinWith [45] (q :: qs) := rfl
      have e2 : joinWith [45] ((p :: q :: qs).map lower) =
          lower p ++ [45] ++ joinWith [45] ((q :: qs).map lower) := rfl
      rw [e1, e2, ← ih, bridge_lower_append, bridge_lower_append, bridge_lower_dash]

theorem bridge_splitOn_ne_nil (sep : UInt8) (b : Bytes) : splitOn sep b ≠ [] := by
  cases b with
  | nil => simp [Twisted.Http.Channel.splitOn]
  | cons c r =>
    simp only [Twisted.Http.Channel.splitOn]
    split
    · simp
    · split <;> simp

theorem bridge_joinWith_consHead (sep : Bytes) (c : UInt8) (p : Bytes) (ps : List Bytes) :
    joinWith sep ((c :: p) :: ps) = c :: joinWith sep (p :: ps) := by
  cases ps with
  | nil => rfl
  | cons q qs => rfl

theorem bridge_join_split (sep : UInt8) (b : Bytes) : joinWith [sep] (splitOn sep b) = b := by
  induction b with
  | nil => rfl
  | cons c r ih =>
    have hne := bridge_splitOn_ne_nil sep r
    simp only [Twisted.Http.Channel.splitOn]
    split
    · rename_i hc
      cases hs : splitOn sep r with
      | nil => exact absurd hs hne
      | cons q qs =>
        rw [hs] at ih
        show [] ++ [sep] ++ joinWith [sep] (q :: qs) = c :: r
        rw [ih, hc]
        first | done | rfl
    · cases hs : splitOn sep r with
      | nil => exact absurd hs hne
      | cons q qs =>
        rw [hs] at ih
        show joinWith [sep] ((c :: q) :: qs) = c :: r
        rw [bridge_joinWith_consHead, ih]

theorem bridge_splitOn_lower (b : Bytes) : splitOn 45 (lower b) = (splitOn 45 b).map lower := by
  induction b with
  | nil => rfl
  | cons c r ih =>
    rw [bridge_lower_cons]
    simp only [Twisted.Http.Channel.splitOn]
    by_cases hc : c = 45
    · have hl : lowerByte c = 45 := (bridge_lowerByte_dash c).2 hc
      rw [if_pos hl, if_pos hc, ih]
      first | done | rfl
    · have hl : ¬ lowerByte c = 45 := fun h => hc ((bridge_lowerByte_dash c).1 h)
      rw [if_neg hl, if_neg hc, ih]
      cases splitOn 45 r with
      | nil => rfl
      | cons p ps => rfl

/-- the canonical form `_NameEncoder.encode` gives a token -/
def bridge_canon (n : Bytes) : Bytes := caseMapping (joinWith [45] ((splitOn 45 n).map capitalize))

theorem bridge_canon_lower (n : Bytes) : bridge_canon (lower n) = bridge_canon n := by
  unfold bridge_canon
  rw [bridge_splitOn_lower, List.map_map]
  have e : capitalize ∘ lower = capitalize := funext bridge_capitalize_lower
  rw [e]

theorem bridge_lower_caseMapping (x : Bytes) : lower (caseMapping x) = lower x := by
  unfold Twisted.Http.Channel.caseMapping
  repeat' split
  all_goals first | rfl | (rename_i h; subst h; decide +kernel)

theorem bridge_lower_canon (n : Bytes) : lower (bridge_canon n) = lower n := by
  unfold bridge_canon
  rw [bridge_lower_caseMapping, bridge_lower_joinWith, List.map_map]
  have e : lower ∘ capitalize = lower := funext bridge_lower_capitalize
  rw [e, ← bridge_lower_joinWith, bridge_join_split]

theorem bridge_encodeName_canon (name : Bytes) (h : isToken name = true) :
    encodeName name = some (bridge_canon name) := by
  simp [Twisted.Http.Channel.encodeName, bridge_canon, h]

theorem encodeName_some (name : Bytes) (h : isToken name = true) :
    ∃ hn, encodeName name = some hn ∧ (hn = hContentLength ↔ R.lower name = R.sContentLength) ∧
      (hn = hTransferEncoding ↔ R.lower name = R.sTransferEncoding) := by
  refine ⟨bridge_canon name, bridge_encodeName_canon name h, ?_, ?_⟩
  · show bridge_canon name = hContentLength ↔ lower name = R.sContentLength
    constructor
    · intro e
      have h1 := bridge_lower_canon name
      rw [e] at h1
      rw [← h1]; decide +kernel
    · intro e
      have h1 := bridge_canon_lower name
      rw [e] at h1
      rw [← h1]; decide +kernel
  · show bridge_canon name = hTransferEncoding ↔ lower name = R.sTransferEncoding
    constructor
    · intro e
      have h1 := bridge_lower_canon name
      rw [e] at h1
      rw [← h1]; decide +kernel
    · intro e
      have h1 := bridge_canon_lower name
      rw [e] at h1
      rw [← h1]; decide +kernel

end TwistedProps.C19
