import TwistedProps.C19.Stream
/-!
C19: what `Follows` says about the observables of a connection (requests handed over, bytes written,
closing), and the reference's own bookkeeping of offsets (`Consecutive`).
-/
namespace TwistedProps.C19
open Twisted.Http.Chunked hiding St feed init
open Twisted.Http.Channel

theorem ready_init : Ready ({} : Chan) 1 := ⟨rfl, rfl, rfl, rfl, rfl, rfl, rfl, rfl, rfl, rfl, rfl, rfl, rfl, rfl⟩

/-- the connection after the whole stream arrived in one delivery is the receive loop on the stream -/
theorem feed_init (app : App) (stream : Bytes) :
    (feed app init stream).outs = (D app {} stream).2.2 ∧ (feed app init stream).chan = (D app {} stream).1 := by
  simp [feed, init, D]

theorem follows_stream (app : App) (hfin : AtOnce app) (stream : Bytes) :
    Follows (R.parseStream stream).1 (R.parseStream stream).2 (D app {} stream) :=
  stream_sim app hfin (stream.length + 1) stream 0 false {} 1 rfl ready_init (by omega)

theorem pre_outs (o : List Out) (x : Chan × Bytes × List Out) : (pre o x).2.2 = o ++ x.2.2 := rfl

theorem follows_cons {m : R.Msg} {ms : List R.Msg} {stop : R.Stop} {x : Chan × Bytes × List Out}
    (h : Follows (m :: ms) stop x) :
    ∃ (r : Req) (o : List Out), sameMsg r m ∧ delivered o = [r] ∧
      ((checkPersistence r.headers r.version = true ∧ ∃ x', x = pre o x' ∧ Follows ms stop x') ∨
       (checkPersistence r.headers r.version = false ∧ x.1.closed = true ∧ x.2.2 = o)) := h

theorem delivered_pre (o : List Out) (x' : Chan × Bytes × List Out) (r0 : Req) (ho : delivered o = [r0]) :
    delivered (pre o x').2.2 = r0 :: delivered x'.2.2 := by
  rw [pre_outs, delivered_append, ho]; rfl

/-- request `k` handed over is message `k` of the reference -/
theorem follows_delivered : ∀ (msgs : List R.Msg) (stop : R.Stop) (x : Chan × Bytes × List Out), Follows msgs stop x →
    ∀ (k : Nat) (r : Req) (m : R.Msg), (delivered x.2.2)[k]? = some r → msgs[k]? = some m → sameMsg r m := by
  intro msgs
  induction msgs with
  | nil => intro stop x _ k r m _ h2; simp at h2
  | cons m0 ms ih =>
    intro stop x hF k r m h1 h2
    obtain ⟨r0, o, hsame, ho, hcase⟩ := follows_cons hF
    rcases hcase with ⟨_, x', rfl, hF'⟩ | ⟨_, _, hx⟩
    · rw [delivered_pre o x' r0 ho] at h1
      cases k with
      | zero =>
        simp only [List.getElem?_cons_zero, Option.some.injEq] at h1 h2
        subst h1 h2; exact hsame
      | succ k =>
        simp only [List.getElem?_cons_succ] at h1 h2
        exact ih stop x' hF' k r m h1 h2
    · rw [hx, ho] at h1
      cases k with
      | zero =>
        simp only [List.getElem?_cons_zero, Option.some.injEq] at h1 h2
        subst h1 h2; exact hsame
      | succ k => simp at h1

theorem delivered_400 : delivered [Out.write badRequestBytes, Out.lose] = [] := rfl

/-- at the end of the stream, or after an invalid message: no request beyond the reference's messages -/
theorem follows_count : ∀ (msgs : List R.Msg) (stop : R.Stop) (x : Chan × Bytes × List Out), Follows msgs stop x →
    (stop = .done ∨ ∃ k, stop = .bad k ∧ k ≠ .teIdentity) → (delivered x.2.2).length ≤ msgs.length := by
  intro msgs
  induction msgs with
  | nil =>
    intro stop x hF hs
    rcases hs with rfl | ⟨k, rfl, hk⟩
    · have : delivered x.2.2 = [] := hF
      simp [this]
    · obtain ⟨_, o, ho, hdo⟩ := (hF : k ≠ .teIdentity → RefusedRun' x) hk
      rw [ho, delivered_append, hdo, delivered_400]; simp
  | cons m0 ms ih =>
    intro stop x hF hs
    obtain ⟨r0, o, _, ho, hcase⟩ := follows_cons hF
    rcases hcase with ⟨_, x', rfl, hF'⟩ | ⟨_, _, hx⟩
    · rw [pre_outs, delivered_append, ho]
      have := ih stop x' hF' hs
      simp; omega
    · rw [hx, ho]; simp

/-- after an invalid message (not `te-identity`): the connection is closing; and unless the server had already
    closed after a request that was not persistent, the 400 is the last thing written, after one request per
    message of the reference -/
theorem follows_bad : ∀ (msgs : List R.Msg) (k : R.BadKey) (x : Chan × Bytes × List Out), Follows msgs (.bad k) x →
    k ≠ .teIdentity →
    x.1.closed = true ∧
    ((∀ r ∈ delivered x.2.2, checkPersistence r.headers r.version = true) →
      ∃ o, x.2.2 = o ++ [.write badRequestBytes, .lose] ∧ delivered o = delivered x.2.2 ∧
        (delivered x.2.2).length = msgs.length) := by
  intro msgs
  induction msgs with
  | nil =>
    intro k x hF hk
    obtain ⟨hc, o, ho, hdo⟩ := (hF : k ≠ .teIdentity → RefusedRun' x) hk
    refine ⟨hc, fun _ => ⟨o, ho, ?_, ?_⟩⟩
    · rw [ho, delivered_append, delivered_400]; simp
    · rw [ho, delivered_append, hdo, delivered_400]; rfl
  | cons m0 ms ih =>
    intro k x hF hk
    obtain ⟨r0, o, _, ho, hcase⟩ := follows_cons hF
    rcases hcase with ⟨_, x', rfl, hF'⟩ | ⟨hnp, hcl, hx⟩
    · obtain ⟨hc, hrest⟩ := ih k x' hF' hk
      refine ⟨hc, fun hall => ?_⟩
      have hd : delivered (pre o x').2.2 = r0 :: delivered x'.2.2 := by
        rw [pre_outs, delivered_append, ho]; rfl
      obtain ⟨o', ho', hdo', hlen⟩ := hrest (fun r hr => hall r (by rw [hd]; exact List.mem_cons_of_mem _ hr))
      refine ⟨o ++ o', by rw [pre_outs, ho']; simp, ?_, ?_⟩
      · rw [delivered_append, ho, hd, hdo']; rfl
      · rw [hd]; simp [hlen]
    · refine ⟨hcl, fun hall => ?_⟩
      have : checkPersistence r0.headers r0.version = true := hall r0 (by rw [hx, ho]; simp)
      rw [this] at hnp; simp at hnp

/-! ### the reference's offsets -/

theorem fieldLines_suffix : ∀ (fuel : Nat) (s : Bytes) (size : Nat) (acc hs' : List (R.Bytes × R.Bytes)) (rest : Bytes),
    R.fieldLines fuel s size acc = .ok (hs', rest) → ∃ p, s = p ++ rest := by
  intro fuel
  induction fuel with
  | zero => intro s size acc hs' rest h; simp [Twisted.Http.Rfc9112Request.fieldLines] at h
  | succ fuel ih =>
    intro s size acc hs' rest h
    rcases fieldLines_cases fuel s size acc with ⟨e, _, he⟩ | ⟨r, ht, hr⟩ | ⟨hl, r, l2, r2, ht, _, _, _, _, _, _, hcase⟩
    · rw [he] at h; simp at h
    · rw [hr] at h
      simp only [Except.ok.injEq, Prod.mk.injEq] at h
      obtain ⟨hs, _⟩ := takeLine_some s [] r ht
      exact ⟨[CR, LF], by rw [hs, ← h.2]; rfl⟩
    · obtain ⟨hs, _⟩ := takeLine_some s hl r ht
      rcases hcase with ⟨e, _, he⟩ | ⟨f, _, _, hf⟩ | ⟨f, _, he⟩
      · rw [he] at h; simp at h
      · rw [hf] at h
        obtain ⟨p, hp⟩ := ih _ _ _ _ _ h
        exact ⟨hl ++ CR :: LF :: p, by rw [hs, hp]; simp⟩
      · rw [he] at h; simp at h

theorem drop_of_suffix (s p rest : Bytes) (h : s = p ++ rest) : s.drop (s.length - rest.length) = rest := by
  subst h; simp

/-- what follows a message in the reference is the stream from the message's `stop` on -/
theorem parseOne_rest (s : Bytes) (m : R.Msg) (rest : Bytes) (h : R.parseOne s = .ok (m, rest)) :
    s.drop m.stop = rest := by
  unfold Twisted.Http.Rfc9112Request.parseOne at h
  split at h
  · split at h <;> simp at h
  · rename_i line r1 ht
    obtain ⟨hs, _⟩ := takeLine_some s line r1 ht
    split at h
    · simp at h
    · split at h
      · simp at h
      · split at h
        · simp at h
        · rename_i hs' r2 hfl
          obtain ⟨p, hp⟩ := fieldLines_suffix _ _ _ _ _ _ hfl
          have hsuf : s = (line ++ CR :: LF :: p) ++ r2 := by rw [hs, hp]; simp
          split at h
          · simp at h
          · simp only [Except.ok.injEq, Prod.mk.injEq] at h
            obtain ⟨rfl, rfl⟩ := h
            exact drop_of_suffix s _ _ hsuf
          · rename_i n _
            split at h
            · simp at h
            · simp only [Except.ok.injEq, Prod.mk.injEq] at h
              obtain ⟨rfl, rfl⟩ := h
              refine drop_of_suffix s ((line ++ CR :: LF :: p) ++ r2.take n) _ ?_
              rw [List.append_assoc, List.take_append_drop]; exact hsuf
          · split at h
            · simp at h
            · rename_i body r3 hcb
              simp only [Except.ok.injEq, Prod.mk.injEq] at h
              obtain ⟨rfl, rfl⟩ := h
              obtain ⟨chunks, last, trailers, _, _, _, _, hr2, _⟩ := chunked_decomp _ r2 body _ hcb
              refine drop_of_suffix s ((line ++ CR :: LF :: p) ++ C22.encode chunks last trailers) _ ?_
              rw [List.append_assoc, ← hr2]; exact hsuf

/-- the messages of the reference lie one after the other in the stream `orig`: each starts where the one
    before stops (after at most one empty line) and is what `parseOne` reads there -/
def Consecutive (orig : Bytes) : Nat → List R.Msg → Prop
  | _, [] => True
  | prev, m :: ms =>
    (m.start = prev ∨ (m.start = prev + 2 ∧ R.startsCRLF (orig.drop prev) = true)) ∧
    (∃ m' rest, R.parseOne (orig.drop m.start) = .ok (m', rest) ∧ m'.method = m.method ∧ m'.target = m.target ∧
      m'.version = m.version ∧ m'.body = m.body ∧ m.stop = m.start + m'.stop) ∧
    Consecutive orig m.stop ms

theorem messages_consecutive (orig : Bytes) : ∀ (fuel : Nat) (s : Bytes) (pos : Nat) (skipped : Bool) (prev : Nat),
    s = orig.drop pos →
    (if skipped then pos = prev + 2 ∧ R.startsCRLF (orig.drop prev) = true else pos = prev) →
    Consecutive orig prev (R.messages fuel s pos skipped).1 := by
  intro fuel
  induction fuel with
  | zero => intro s pos skipped prev _ _; simp [Twisted.Http.Rfc9112Request.messages, Consecutive]
  | succ fuel ih =>
    intro s pos skipped prev hs hsk
    rw [messages_succ]
    by_cases he : s.isEmpty = true
    · simp [he, Consecutive]
    · simp only [he, Bool.false_eq_true, if_false]
      by_cases hcr : R.startsCRLF s = true
      · simp only [hcr, if_true]
        cases skipped with
        | true => simp [Consecutive]
        | false =>
          simp only [Bool.false_eq_true, if_false] at hsk ⊢
          subst hsk
          exact ih (s.drop 2) (pos + 2) true pos (by rw [hs, List.drop_drop]) (by simp [← hs, hcr])
      · simp only [hcr, Bool.false_eq_true, if_false]
        cases hp : R.parseOne s with
        | error e => simp [Consecutive]
        | ok p =>
          obtain ⟨m, rest⟩ := p
          simp only
          refine ⟨?_, ⟨m, rest, by rw [← hs]; exact hp, rfl, rfl, rfl, rfl, rfl⟩, ?_⟩
          · cases skipped with
            | true => right; simpa using hsk
            | false => left; simpa using hsk
          · refine ih rest (pos + m.stop) false (pos + m.stop) ?_ (by simp)
            rw [← parseOne_rest s m rest hp, hs, List.drop_drop]

theorem parseStream_consecutive (stream : Bytes) : Consecutive stream 0 (R.parseStream stream).1 :=
  messages_consecutive stream _ stream 0 false 0 (by simp) (by simp)

end TwistedProps.C19
