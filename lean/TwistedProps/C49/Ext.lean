import TwistedProps.C49.Inv
import TwistedProps.C49.Fields
/-! Further invariants, on top of `Inv`:
    * `Num`  — a backlog means the idle set is empty; after `startFinishing` the idle set is empty and the
               coordinator is quit unless a worker is still busy;
    * `LiveOK` — every worker that is not quit is idle, holds a task, or waits to be recycled;
    * `finPending` — after `quit()` the `startFinishing` item is queued or has run. -/
namespace TwistedProps.C49
open Twisted.Threads Twisted.Threads.St

structure Num (s : St) : Prop where
  pendIdle : s.pending ≠ [] → s.idle = []
  sqIdle : s.shouldQuit = true → s.idle = [] ∧ (s.coordQuit = true ∨ s.busy > 0)

theorem num_coordinate {s : St} (h : Num s) (t : Task) : Num (s.coordinate t) := by
  obtain ⟨c1, c2, _, _, c5⟩ := coordinate_fields s t
  rcases c5 with ⟨d0, d1, d2, d3⟩ | ⟨d0, _, d1, d2, d3⟩ | ⟨d0, _, d1, d2, d3⟩
  · refine ⟨fun hp => ?_, fun hs => ?_⟩
    · rw [d3] at hp; exact absurd (h.pendIdle hp) d0
    · rw [c1] at hs; exact absurd (h.sqIdle hs).1 d0
  · refine ⟨fun _ => d1, fun hs => ⟨d1, ?_⟩⟩
    rw [c1] at hs; rw [c2, d2]; exact (h.sqIdle hs).2
  · exact ⟨fun _ => d1, fun _ => ⟨d1, Or.inr (by omega)⟩⟩

theorem num_quitIdlers {s : St} (h : Num s) (n : Option Nat) : Num (s.quitIdlers n) := by
  obtain ⟨q1, q2, q3, q4, q5, _⟩ := quitIdlers_fields s n
  have hi : s.idle = [] → (s.quitIdlers n).idle = [] := fun hx => by
    apply List.eq_nil_of_length_eq_zero; rw [q1, hx]; simp
  refine ⟨fun hp => hi (h.pendIdle (by rw [← q3]; exact hp)), fun hs => ?_⟩
  rw [q4] at hs
  obtain ⟨a, b⟩ := h.sqIdle hs
  refine ⟨hi a, ?_⟩
  rw [q5, q2]
  rcases b with b | b
  · left; simp [b]
  · right; exact b

/-- `startFinishing` -/
theorem num_finish {s : St} : Num (({ s with shouldQuit := true } : St).quitIdlers none) := by
  obtain ⟨q1, q2, q3, q4, q5, _⟩ := quitIdlers_fields { s with shouldQuit := true } none
  have hi : (({ s with shouldQuit := true } : St).quitIdlers none).idle = [] := by
    apply List.eq_nil_of_length_eq_zero; rw [q1]; simp
  refine ⟨fun _ => hi, fun _ => ⟨hi, ?_⟩⟩
  rw [q5, q2]
  show (s.coordQuit || (true && s.busy == 0)) = true ∨ s.busy > 0
  by_cases hb : s.busy = 0
  · left; simp [hb]
  · right; omega

theorem num_recycle {s : St} {w : Nat} (hni : w ∉ s.idle) (hp : s.pending ≠ [] → s.idle = []) :
    Num (s.recycle w) := by
  obtain ⟨r1, _, r3⟩ := recycle_fields s w hni
  rcases r3 with ⟨t, rest, e1, e2, e3, e4, e5⟩ | ⟨e1, e2, e3, e4, e5, e6⟩ | ⟨e1, e2, e3, e4, e5, e6⟩
  · have hi : (s.recycle w).idle = [] := by
      apply List.eq_nil_of_length_eq_zero; rw [e3, hp (by rw [e1]; simp)]; rfl
    exact ⟨fun _ => hi, fun _ => ⟨hi, Or.inr (by omega)⟩⟩
  · refine ⟨fun _ => e4, fun _ => ⟨e4, ?_⟩⟩
    rw [e6, e5]
    by_cases hb : s.busy = 0
    · left; simp [hb]
    · right; omega
  · refine ⟨fun hx => absurd e2 hx, fun hx => ?_⟩
    rw [r1, e3] at hx; cases hx

/-! ### live workers are accounted for -/

def LiveOK (s : St) (v : Nat) : Prop :=
  ∀ wk : Worker, s.workers[v]? = some wk → wk.quit = false →
    v ∈ s.idle ∨ wk.queue ≠ [] ∨ CItem.recycle v ∈ s.coordQ

theorem LiveOK.congr {s s' : St} {v : Nat} (h : LiveOK s v) (h1 : s'.workers = s.workers)
    (h2 : v ∈ s.idle → v ∈ s'.idle) (h3 : CItem.recycle v ∈ s.coordQ → CItem.recycle v ∈ s'.coordQ) :
    LiveOK s' v := by
  intro wk hw hq
  rw [h1] at hw
  rcases h wk hw hq with a | a | a
  · exact Or.inl (h2 a)
  · exact Or.inr (Or.inl a)
  · exact Or.inr (Or.inr (h3 a))

/-- handing a task to worker `w` -/
theorem live_set_queue {s : St} {w : Nat} {wk : Worker} (t : Task) (hl : ∀ v, v ≠ w → LiveOK s v) :
    ∀ v, LiveOK { s with workers := s.workers.set w { wk with queue := wk.queue ++ [t] } } v := by
  intro v wk' hw hq
  by_cases hv : v = w
  · subst hv
    simp [List.getElem?_set] at hw
    obtain ⟨_, rfl⟩ := hw
    right; left; simp
  · simp only [List.getElem?_set_ne (Ne.symm hv)] at hw
    exact hl v hv wk' hw hq

/-- quitting worker `w` -/
theorem live_set_quit {s : St} {w : Nat} {wk : Worker} (hl : ∀ v, v ≠ w → LiveOK s v) :
    ∀ v, LiveOK { s with workers := s.workers.set w { wk with quit := true } } v := by
  intro v wk' hw hq
  by_cases hv : v = w
  · subst hv
    simp [List.getElem?_set] at hw
    obtain ⟨_, rfl⟩ := hw
    simp at hq
  · simp only [List.getElem?_set_ne (Ne.symm hv)] at hw
    exact hl v hv wk' hw hq

theorem live_erase {s : St} {w : Nat} (hl : ∀ v, LiveOK s v) :
    ∀ v, v ≠ w → LiveOK { s with idle := s.idle.erase w } v := by
  intro v hv
  exact (hl v).congr rfl (fun hx => (List.mem_erase_of_ne hv).mpr hx) (fun hc => hc)


theorem live_append {s : St} (x : Worker) (hl : ∀ v, LiveOK s v) :
    ∀ v, v ≠ s.workers.length → LiveOK { s with workers := s.workers ++ [x] } v := by
  intro v hv wk hw hq
  simp only [List.getElem?_append] at hw
  split at hw
  · exact hl v wk hw hq
  · rename_i hge
    have : v - s.workers.length ≠ 0 := by omega
    cases hk : v - s.workers.length with
    | zero => exact absurd hk this
    | succ k => rw [hk] at hw; simp at hw

theorem live_dispatch {s : St} {w : Nat} {wk : Worker} (t : Task) (hw : s.workers[w]? = some wk)
    (hq : wk.quit = false) (hl : ∀ v, v ≠ w → LiveOK s v) :
    ∀ v, LiveOK (({ s with busy := s.busy + 1 }).workerDo w t) v := by
  have hw' : ({ s with busy := s.busy + 1 } : St).workers[w]? = some wk := hw
  rw [workerDo_eq t hw' hq]
  exact live_set_queue (s := { s with busy := s.busy + 1 }) t hl

theorem live_workerQuit {s : St} {w : Nat} {wk : Worker} (hw : s.workers[w]? = some wk)
    (hq : wk.quit = false) (hl : ∀ v, v ≠ w → LiveOK s v) : ∀ v, LiveOK (s.workerQuit w) v := by
  rw [workerQuit_eq hw hq]
  exact live_set_quit (s := s) hl

theorem live_coordinate {s : St} (h : Mid s) (hl : ∀ v, LiveOK s v) (t : Task) :
    ∀ v, LiveOK (s.coordinate t) v := by
  unfold St.coordinate
  cases hp : s.popIdle with
  | some r =>
    obtain ⟨w, s1⟩ := r
    obtain ⟨hm, hs1⟩ := popIdle_spec h.core.nodup hp
    obtain ⟨wk, hw, hq, he⟩ := h.core.idleOK w hm
    subst hs1
    simp only
    exact live_dispatch (s := { s with idle := s.idle.erase w, choices := s.choices.tail }) t hw hq
      (fun v hv => (hl v).congr rfl (fun hx => (List.mem_erase_of_ne hv).mpr hx) (fun hc => hc))
  | none =>
    simp only
    cases hc : s.createWorker with
    | mk o s1 =>
      cases o with
      | none =>
        obtain ⟨hs1, _⟩ := createWorker_none hc
        subst hs1
        exact fun v => (hl v).congr rfl (fun hx => hx) (fun hc => hc)
      | some w =>
        obtain ⟨hwl, _, hs1⟩ := createWorker_some hc
        subst hs1; subst hwl
        simp only
        refine live_dispatch (wk := ({ } : Worker)) t (by simp [St.emit]) rfl ?_
        exact live_append (s := s) _ hl

theorem live_quitLoop {s : St} (h : Mid s) (hl : ∀ v, LiveOK s v) (n : Nat) :
    ∀ v, LiveOK (quitLoop n s) v := by
  induction n generalizing s with
  | zero => exact hl
  | succ n ih =>
    have hM1 := (mid_quitLoop h 1).1
    unfold quitLoop
    unfold quitLoop at hM1
    cases hp : s.popIdle with
    | some r =>
      obtain ⟨w, s1⟩ := r
      rw [hp] at hM1
      simp only [quitLoop] at hM1 ⊢
      obtain ⟨hm, hs1⟩ := popIdle_spec h.core.nodup hp
      obtain ⟨wk, hw, hq, he⟩ := h.core.idleOK w hm
      apply ih hM1
      subst hs1
      exact live_workerQuit (s := { s with idle := s.idle.erase w, choices := s.choices.tail }) hw hq
        (fun v hv => (hl v).congr rfl (fun hx => (List.mem_erase_of_ne hv).mpr hx) (fun hc => hc))
    | none =>
      simp only
      exact ih (s := { s with toShrink := s.toShrink + 1 }) (mid_congr h rfl rfl rfl rfl rfl rfl rfl)
        (fun v => (hl v).congr rfl (fun hx => hx) (fun hc => hc))

theorem live_quitIdlers {s : St} (h : Mid s) (hl : ∀ v, LiveOK s v) (n : Option Nat) :
    ∀ v, LiveOK (s.quitIdlers n) v := by
  have h1 := live_quitLoop h hl (n.getD (s.idle.length + s.busy))
  unfold St.quitIdlers
  simp only
  generalize quitLoop (n.getD (s.idle.length + s.busy)) s = s2 at *
  split
  · intro v
    refine (h1 v).congr ?_ ?_ ?_ <;> unfold St.coordinatorQuit <;> split
    · unfold St.crash; split <;> rfl
    · rfl
    · unfold St.crash; split <;> exact fun hx => hx
    · exact fun hx => hx
    · unfold St.crash; split <;> exact fun hx => hx
    · exact fun hx => hx
  · exact h1

/-- `_recycleWorker(w)`: every worker but `w` is accounted for before, every worker afterwards -/
theorem live_recycle {s : St} (h : Mid s) {w : Nat} {wk : Worker}
    (hw : s.workers[w]? = some wk) (hq : wk.quit = false) (he : wk.queue = [])
    (hnr : CItem.recycle w ∉ s.coordQ) (hl : ∀ v, v ≠ w → LiveOK s v) :
    ∀ v, LiveOK (s.recycle w) v := by
  obtain ⟨f1, f2, f3, f4, f5, f6, f7, f8, f9⟩ := idleAdd_frame s w
  have hM1 : Mid (s.idleAdd w) := by
    refine ⟨core_idleAdd h.core hw hq he hnr, ?_, ?_, ?_⟩
    · have := h.bsum; simp only [qsum, recs] at *; rw [f2, f3, f4]; exact this
    · rw [f5, f3]; exact h.sqRec
    · rw [f6, f5, f4, f3]; exact h.cq
  have hmem := idleAdd_mem s w
  have hsub : ∀ x, x ∈ s.idle → x ∈ (s.idleAdd w).idle := by
    intro x hx; unfold St.idleAdd; split
    · exact hx
    · simp [hx]
  have hl1 : ∀ v, LiveOK (s.idleAdd w) v := by
    intro v
    by_cases hv : v = w
    · subst hv; intro _ _ _; exact Or.inl hmem
    · exact (hl v hv).congr f2 (hsub v) (by rw [f3]; exact fun hx => hx)
  have hw1 : (s.idleAdd w).workers[w]? = some wk := by rw [f2]; exact hw
  unfold St.recycle
  generalize s.idleAdd w = s1 at *
  simp only
  split
  · rename_i t rest hp
    exact live_coordinate (s := { s1 with pending := rest }) (mid_congr hM1 rfl rfl rfl rfl rfl rfl rfl) hl1 t
  · split
    · exact live_quitIdlers hM1 hl1 none
    · split
      · exact live_workerQuit (s := { s1 with toShrink := s1.toShrink - 1, idle := s1.idle.erase w }) hw1 hq
          (fun v hv => (hl1 v).congr rfl (fun hx => (List.mem_erase_of_ne hv).mpr hx) (fun hc => hc))
      · exact hl1

theorem live_growLoop {s : St} (h : Mid s) (hsq : s.shouldQuit = false) (hcq : s.coordQuit = false)
    (hl : ∀ v, LiveOK s v) (n : Nat) : ∀ v, LiveOK (growLoop n s) v := by
  induction n generalizing s with
  | zero => exact hl
  | succ n ih =>
    obtain ⟨hM1, hF1⟩ := mid_growLoop h hsq hcq 1
    unfold growLoop
    unfold growLoop at hM1 hF1
    cases hc : s.createWorker with
    | mk o s1 =>
      rw [hc] at hM1 hF1
      cases o with
      | none =>
        obtain ⟨hs1, _⟩ := createWorker_none hc
        subst hs1; exact hl
      | some w =>
        simp only [growLoop] at hM1 hF1 ⊢
        obtain ⟨hwl, _, hs1⟩ := createWorker_some hc
        obtain ⟨hcore, hni, hnr⟩ := core_create h.core
        have hMs1 : Mid s1 := by
          subst hs1
          refine ⟨core_congr hcore rfl rfl rfl rfl, ?_, h.sqRec, h.cq⟩
          have := h.bsum; simp only [qsum, recs, St.emit] at *; simp; omega
        have hw1 : s1.workers[w]? = some ({ } : Worker) := by subst hs1; subst hwl; simp [St.emit]
        have hnr1 : CItem.recycle w ∉ s1.coordQ := by subst hs1; subst hwl; exact hnr
        have hl1 : ∀ v, v ≠ w → LiveOK s1 v := by
          subst hs1; subst hwl
          exact live_append (s := s) _ hl
        have hl2 := live_recycle hMs1 hw1 rfl rfl hnr1 hl1
        have hsq2 : (s1.recycle w).shouldQuit = false := by rw [hF1.2.1]; exact hsq
        have hcq2 : (s1.recycle w).coordQuit = false := by rw [hF1.2.2.2.2 hsq]; exact hcq
        exact ih hM1 hsq2 hcq2 hl2

theorem num_growLoop {s : St} (h : Mid s) (hsq : s.shouldQuit = false) (hcq : s.coordQuit = false)
    (hn : Num s) (n : Nat) : Num (growLoop n s) := by
  induction n generalizing s with
  | zero => exact hn
  | succ n ih =>
    obtain ⟨hM1, hF1⟩ := mid_growLoop h hsq hcq 1
    unfold growLoop
    unfold growLoop at hM1 hF1
    cases hc : s.createWorker with
    | mk o s1 =>
      rw [hc] at hM1 hF1
      cases o with
      | none =>
        obtain ⟨hs1, _⟩ := createWorker_none hc
        subst hs1; exact hn
      | some w =>
        simp only [growLoop] at hM1 hF1 ⊢
        obtain ⟨hwl, _, hs1⟩ := createWorker_some hc
        obtain ⟨_, hni, _⟩ := core_create h.core
        have hni1 : w ∉ s1.idle := by subst hs1; subst hwl; exact hni
        have hp1 : s1.pending ≠ [] → s1.idle = [] := by subst hs1; exact hn.pendIdle
        have hn2 := num_recycle hni1 hp1
        have hsq2 : (s1.recycle w).shouldQuit = false := by rw [hF1.2.1]; exact hsq
        have hcq2 : (s1.recycle w).coordQuit = false := by rw [hF1.2.2.2.2 hsq]; exact hcq
        exact ih hM1 hsq2 hcq2 hn2

end TwistedProps.C49
