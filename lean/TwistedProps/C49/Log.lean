import TwistedModel.Threads.Team
/-! Every `create` event in the log was emitted with `busy + idle < limit` (a separate, simple invariant). -/
namespace TwistedProps.C49
open Twisted.Threads Twisted.Threads.St

/-- what the creation clause needs of one event -/
def EvOK : Ev → Prop
  | .create _ live lim => (live : Int) < lim
  | _ => True

def LogOK (s : St) : Prop := ∀ e ∈ s.log, EvOK e

theorem LogOK_coordinate {s : St} (t : Task) (h : LogOK s) : LogOK (s.coordinate t) := by
  unfold LogOK at *
  unfold St.coordinate St.popIdle St.createWorker St.workerDo St.crash St.emit
  intro e
  (repeat' split) <;> simp_all [EvOK] <;> grind [EvOK]

theorem LogOK_quitLoop {s : St} (n : Nat) (h : LogOK s) : LogOK (quitLoop n s) := by
  induction n generalizing s with
  | zero => simpa [quitLoop] using h
  | succ n ih =>
    unfold quitLoop
    split
    · rename_i w s' hp
      apply ih
      unfold LogOK at *
      unfold St.popIdle at hp
      unfold St.workerQuit St.crash St.emit
      intro e
      (repeat' split) <;> simp_all [EvOK] <;> grind [EvOK]
    · apply ih; exact h

theorem LogOK_quitIdlers {s : St} (n : Option Nat) (h : LogOK s) : LogOK (s.quitIdlers n) := by
  unfold St.quitIdlers
  have := LogOK_quitLoop (n.getD (s.idle.length + s.busy)) h
  simp only
  generalize quitLoop (n.getD (s.idle.length + s.busy)) s = s2 at *
  unfold LogOK at *
  unfold St.coordinatorQuit St.crash St.emit
  intro e
  (repeat' split) <;> simp_all [EvOK] <;> grind [EvOK]

theorem LogOK_idleAdd {s : St} (w : Nat) (h : LogOK s) : LogOK (s.idleAdd w) := by
  unfold St.idleAdd; split <;> exact h

theorem LogOK_recycle {s : St} (w : Nat) (h : LogOK s) : LogOK (s.recycle w) := by
  unfold St.recycle
  have h1 := LogOK_idleAdd w h
  generalize s.idleAdd w = s1 at *
  simp only
  split
  · exact LogOK_coordinate _ (by exact h1)
  · split
    · exact LogOK_quitIdlers none h1
    · split
      · unfold LogOK at *
        unfold St.workerQuit St.crash St.emit
        intro e
        (repeat' split) <;> simp_all [EvOK] <;> grind [EvOK]
      · exact h1

theorem LogOK_createWorker {s : St} (h : LogOK s) : LogOK s.createWorker.2 := by
  unfold LogOK at *
  unfold St.createWorker St.emit
  intro e
  split <;> simp_all [EvOK] <;> grind [EvOK]

theorem LogOK_growLoop {s : St} (n : Nat) (h : LogOK s) : LogOK (growLoop n s) := by
  induction n generalizing s with
  | zero => exact h
  | succ n ih =>
    unfold growLoop
    have hc := LogOK_createWorker h
    split
    · rename_i s' heq; rw [heq] at hc; exact hc
    · rename_i w s' heq; rw [heq] at hc; exact ih (LogOK_recycle w hc)

theorem LogOK_stepC {s : St} (h : LogOK s) : LogOK s.stepC := by
  unfold St.stepC
  split
  · exact h
  · rename_i c rest hq
    have h0 : LogOK { s with coordQ := rest } := h
    cases c with
    | coord t => exact LogOK_coordinate t h0
    | grow n => exact LogOK_growLoop n h0
    | shrink n => exact LogOK_quitIdlers n h0
    | recycle w => exact LogOK_recycle w (s := { s with coordQ := rest, busy := s.busy - 1 }) h0
    | finish => exact LogOK_quitIdlers none (s := { s with coordQ := rest, shouldQuit := true }) h0

theorem LogOK_stepW {s : St} (w : Nat) (h : LogOK s) : LogOK (s.stepW w) := by
  unfold LogOK at *
  unfold St.stepW St.coordDo St.crash St.taskEvents
  intro e
  (repeat' split) <;> simp_all [EvOK] <;> grind [EvOK]

theorem LogOK_emit {s : St} {e : Ev} (h : LogOK s) (he : EvOK e) : LogOK (s.emit e) := by
  intro x hx; simp [St.emit] at hx; rcases hx with hx | hx
  · exact h x hx
  · subst hx; exact he

theorem LogOK_teamSubmit {s : St} (what : Nat) (c : CItem) (h : LogOK s) : LogOK (s.teamSubmit what c).1 := by
  unfold St.teamSubmit; split
  · exact LogOK_emit h trivial
  · exact h

theorem LogOK_teamDo {s : St} (t : Task) (h : LogOK s) : LogOK (s.teamDo t).1 := by
  unfold St.teamDo; split
  · exact LogOK_emit h trivial
  · exact LogOK_emit (s := { s with coordQ := s.coordQ ++ [CItem.coord t] }) h trivial

theorem LogOK_teamQuit {s : St} (h : LogOK s) : LogOK s.teamQuit.1 := by
  unfold St.teamQuit; split
  · exact LogOK_emit h trivial
  · simp only; split
    · exact LogOK_emit (s := { s with quit := true }) h trivial
    · exact h

theorem LogOK_poolAdjustCore {s : St} (mn mx : Int) (h : LogOK s) : LogOK (s.poolAdjustCore mn mx).1 := by
  unfold St.poolAdjustCore
  have h0 : LogOK { s with pmin := mn, pmax := mx, limit := if s.started then mx else 0 } := h
  generalize ({ s with pmin := mn, pmax := mx, limit := if s.started then mx else 0 } : St) = s0 at h0
  simp only
  split
  · exact h0
  · have h1 : LogOK (if s0.poolWorkers > s0.pmax then s0.teamShrink (some (s0.poolWorkers - s0.pmax).toNat) else (s0, true)).1 := by
      split
      · exact LogOK_teamSubmit _ _ h0
      · exact h0
    generalize (if s0.poolWorkers > s0.pmax then s0.teamShrink (some (s0.poolWorkers - s0.pmax).toNat) else (s0, true)) = r1 at h1
    split
    · exact h1
    · have h2 : LogOK (if r1.1.poolWorkers < r1.1.pmin then r1.1.teamGrow (r1.1.pmin - r1.1.poolWorkers).toNat else r1).1 := by
        split
        · exact LogOK_teamSubmit _ _ h1
        · exact h1
      generalize (if r1.1.poolWorkers < r1.1.pmin then r1.1.teamGrow (r1.1.pmin - r1.1.poolWorkers).toNat else r1) = r2 at h2
      split
      · exact h2
      · split
        · exact LogOK_teamSubmit _ _ h2
        · exact h2

theorem LogOK_poolAdjust {s : St} (mn mx : Option Int) (h : LogOK s) : LogOK (s.poolAdjust mn mx).1 := by
  unfold St.poolAdjust
  simp only
  split
  · exact LogOK_emit h trivial
  · exact LogOK_poolAdjustCore _ _ h

theorem LogOK_applyOp {s : St} (o : Op) (h : LogOK s) : LogOK (applyOp s o) := by
  cases o with
  | doTask t r => exact LogOK_teamDo _ h
  | grow n => exact LogOK_teamSubmit _ _ h
  | shrink n => exact LogOK_teamSubmit _ _ h
  | quit => exact LogOK_teamQuit h
  | limit l => exact h
  | stepC => exact LogOK_stepC h
  | stepW w => exact LogOK_stepW w h
  | any k =>
    show LogOK (s.stepAny k)
    unfold St.stepAny
    split
    · exact h
    · split
      · exact LogOK_stepC h
      · exact LogOK_stepW _ h
  | pStart => exact LogOK_poolAdjust (s := { s with joined := false, started := true, limit := s.pmax }) none none h
  | pStop => exact LogOK_teamQuit (s := { s with joined := true, started := false, limit := 0 }) h
  | pCall t r cb =>
    show LogOK (s.poolCall t r cb)
    unfold St.poolCall
    split
    · exact LogOK_emit h trivial
    · exact LogOK_teamDo _ h
  | pAdjust mn mx => exact LogOK_poolAdjust mn mx h
  | pStartWorker => exact LogOK_teamSubmit _ _ h
  | pStopWorker => exact LogOK_teamSubmit _ _ h

theorem LogOK_run {s : St} (ops : List Op) (h : LogOK s) : LogOK (run s ops) := by
  induction ops generalizing s with
  | nil => exact h
  | cons o ops ih =>
    apply ih
    unfold step; split
    · exact h
    · exact LogOK_applyOp o h

end TwistedProps.C49
