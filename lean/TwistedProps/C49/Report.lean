import TwistedProps.C49.Count
/-! Keys for the outcome reports of `ThreadPool.callInThreadWithCallback` (see `Count.lean`):
    * `resKey x ok`   calls `x` that carry a callback and whose `func` has outcome `ok`  /  `onResult(ok, …)` events of `x`;
    * `errKey x`      tasks `x` from which an exception reaches `Team`'s handler (a raising `Team.do` task, or a call
                      whose callback raises)  /  `logException()` events of `x`;
    * `logerrKey x`   failing calls `x` without callback  /  `log.err(failure)` events of `x`. -/
namespace TwistedProps.C49
open Twisted.Threads Twisted.Threads.St

/-- ThreadPool call `x` with a callback (well-behaved or raising) whose `func` returns (`ok`) / raises (`¬ok`) -/
def isCall (x : Nat) (ok : Bool) (t : Task) : Bool :=
  t.1 == x && (if ok then (t.2 == 2 || t.2 == 4) else (t.2 == 3 || t.2 == 5))

def resE (x : Nat) (ok : Bool) : Ev → Bool
  | .res t o => t == x && o == ok
  | _ => false

theorem resE_task (x : Nat) (ok : Bool) (t : Task) (w : Nat) :
    (taskEvents t w).countP (resE x ok) = if isCall x ok t then 1 else 0 := by
  unfold taskEvents isCall
  cases ok <;> (repeat' split) <;> simp_all [resE]

def resKey (x : Nat) (ok : Bool) : Key where
  tp := isCall x ok
  ev := resE x ok
  ev_task := resE_task x ok
  ev_other := by intro e h; cases e <;> simp_all [fromTask, resE]

/-- tasks whose own exception, or whose callback's exception, reaches `Team`'s `except BaseException` -/
def isErr (x : Nat) (t : Task) : Bool := t.1 == x && (t.2 == 1 || t.2 == 4 || t.2 == 5)

def errE (x : Nat) : Ev → Bool
  | .err t => t == x
  | _ => false

theorem errE_task (x : Nat) (t : Task) (w : Nat) :
    (taskEvents t w).countP (errE x) = if isErr x t then 1 else 0 := by
  unfold taskEvents isErr
  (repeat' split) <;> simp_all [errE]

def errKey (x : Nat) : Key where
  tp := isErr x
  ev := errE x
  ev_task := errE_task x
  ev_other := by intro e h; cases e <;> simp_all [fromTask, errE]

/-- failing calls without callback -/
def isLogErr (x : Nat) (t : Task) : Bool := t.1 == x && t.2 == 7

def logerrE (x : Nat) : Ev → Bool
  | .logerr t => t == x
  | _ => false

theorem logerrE_task (x : Nat) (t : Task) (w : Nat) :
    (taskEvents t w).countP (logerrE x) = if isLogErr x t then 1 else 0 := by
  unfold taskEvents isLogErr
  (repeat' split) <;> simp_all [logerrE]

def logerrKey (x : Nat) : Key where
  tp := isLogErr x
  ev := logerrE x
  ev_task := logerrE_task x
  ev_other := by intro e h; cases e <;> simp_all [fromTask, logerrE]

/-- what `callInThreadWithCallback(onResult, func)` submits, in terms of the keys: it is a "call with outcome `ok`"
    iff it carries a callback and `func`'s outcome is `ok` — whatever the callback then does. -/
theorem isCall_callKind (x t : Nat) (ok r : Bool) (cb : Cb) :
    isCall x ok (t, callKind r cb) = (t == x && (cb != Cb.absent) && (ok == !r)) := by
  cases ok <;> cases r <;> cases cb <;> simp [isCall, callKind]

theorem isErr_callKind (x t : Nat) (r : Bool) (cb : Cb) :
    isErr x (t, callKind r cb) = (t == x && (cb == Cb.raises)) := by
  cases r <;> cases cb <;> simp [isErr, callKind]

theorem isLogErr_callKind (x t : Nat) (r : Bool) (cb : Cb) :
    isLogErr x (t, callKind r cb) = (t == x && (cb == Cb.absent) && r) := by
  cases r <;> cases cb <;> simp [isLogErr, callKind]

end TwistedProps.C49
