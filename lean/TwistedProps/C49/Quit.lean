import TwistedModel.Threads.Team
/-! `Team._quit` is never cleared: no operation or queue item changes it except `quit()`, which sets it. -/
namespace TwistedProps.C49
open Twisted.Threads Twisted.Threads.St

@[simp] theorem quit_crash (s : St) (c : Nat) : (s.crash c).quit = s.quit := by
  unfold St.crash; split <;> rfl

@[simp] theorem quit_workerDo (s : St) (w : Nat) (t : Task) : (s.workerDo w t).quit = s.quit := by
  unfold St.workerDo; split
  · simp
  · split <;> simp

@[simp] theorem quit_workerQuit (s : St) (w : Nat) : (s.workerQuit w).quit = s.quit := by
  unfold St.workerQuit; split
  · simp
  · split <;> simp [St.emit]

theorem quit_popIdle {s s' : St} {w : Nat} (h : s.popIdle = some (w, s')) : s'.quit = s.quit := by
  unfold St.popIdle at h; split at h
  · cases h
  · simp only [Option.some.injEq, Prod.mk.injEq] at h; rw [← h.2]

theorem quit_createWorker (s : St) : s.createWorker.2.quit = s.quit := by
  unfold St.createWorker St.emit; split <;> rfl

theorem quit_coordinate (s : St) (t : Task) : (s.coordinate t).quit = s.quit := by
  unfold St.coordinate
  cases hp : s.popIdle with
  | some r =>
    obtain ⟨w, s1⟩ := r
    simp only [quit_workerDo]
    exact quit_popIdle hp
  | none =>
    simp only
    have hc := quit_createWorker s
    cases hcw : s.createWorker with
    | mk o s1 =>
      rw [hcw] at hc
      cases o with
      | none => exact hc
      | some w => simp only [quit_workerDo]; exact hc

theorem quit_quitLoop (n : Nat) (s : St) : (quitLoop n s).quit = s.quit := by
  induction n generalizing s with
  | zero => rfl
  | succ n ih =>
    unfold quitLoop
    cases hp : s.popIdle with
    | some r =>
      obtain ⟨w, s1⟩ := r
      simp only
      rw [ih, quit_workerQuit]; exact quit_popIdle hp
    | none => simp only; rw [ih]

theorem quit_quitIdlers (s : St) (n : Option Nat) : (s.quitIdlers n).quit = s.quit := by
  unfold St.quitIdlers
  have := quit_quitLoop (n.getD (s.idle.length + s.busy)) s
  simp only
  generalize quitLoop (n.getD (s.idle.length + s.busy)) s = s2 at *
  unfold St.coordinatorQuit
  (repeat' split) <;> simp_all [St.emit]

theorem quit_recycle (s : St) (w : Nat) : (s.recycle w).quit = s.quit := by
  unfold St.recycle
  have h1 : (s.idleAdd w).quit = s.quit := by unfold St.idleAdd; split <;> rfl
  generalize s.idleAdd w = s1 at *
  simp only
  split
  · rw [quit_coordinate]; exact h1
  · split
    · rw [quit_quitIdlers]; exact h1
    · split
      · split
        · simp only [quit_workerQuit]; exact h1
        · simp only [quit_crash]; exact h1
      · exact h1

theorem quit_growLoop (n : Nat) (s : St) : (growLoop n s).quit = s.quit := by
  induction n generalizing s with
  | zero => rfl
  | succ n ih =>
    unfold growLoop
    have hc : s.createWorker.2.quit = s.quit := by
      unfold St.createWorker St.emit; split <;> rfl
    split
    · rename_i s' heq; rw [heq] at hc; exact hc
    · rename_i w s' heq; rw [heq] at hc; rw [ih, quit_recycle]; exact hc

theorem quit_stepC (s : St) : s.stepC.quit = s.quit := by
  unfold St.stepC
  split
  · rfl
  · rename_i c rest hq
    cases c with
    | coord t => exact quit_coordinate _ t
    | grow n => exact quit_growLoop n _
    | shrink n => exact quit_quitIdlers _ n
    | recycle w => exact quit_recycle _ w
    | finish => exact quit_quitIdlers _ none

theorem quit_stepW (s : St) (w : Nat) : (s.stepW w).quit = s.quit := by
  unfold St.stepW St.coordDo
  split
  · rfl
  · split
    · rfl
    · simp only; split <;> simp

theorem quit_teamSubmit (s : St) (k : Nat) (c : CItem) : (s.teamSubmit k c).1.quit = s.quit := by
  unfold St.teamSubmit St.emit; split <;> rfl

theorem quit_teamDo (s : St) (t : Task) : (s.teamDo t).1.quit = s.quit := by
  unfold St.teamDo St.emit; split <;> rfl

theorem quit_teamQuit (s : St) (h : s.quit = true) : s.teamQuit.1.quit = true := by
  unfold St.teamQuit St.emit; simp [h]

theorem quit_poolAdjustCore (s : St) (mn mx : Int) : (s.poolAdjustCore mn mx).1.quit = s.quit := by
  unfold St.poolAdjustCore
  have h0 : ({ s with pmin := mn, pmax := mx, limit := if s.started then mx else 0 } : St).quit = s.quit := rfl
  generalize ({ s with pmin := mn, pmax := mx, limit := if s.started then mx else 0 } : St) = s0 at h0
  simp only
  split
  · exact h0
  · have h1 : (if s0.poolWorkers > s0.pmax then s0.teamShrink (some (s0.poolWorkers - s0.pmax).toNat) else (s0, true)).1.quit = s.quit := by
      split
      · rw [St.teamShrink, quit_teamSubmit]; exact h0
      · exact h0
    generalize (if s0.poolWorkers > s0.pmax then s0.teamShrink (some (s0.poolWorkers - s0.pmax).toNat) else (s0, true)) = r1 at h1
    split
    · exact h1
    · have h2 : (if r1.1.poolWorkers < r1.1.pmin then r1.1.teamGrow (r1.1.pmin - r1.1.poolWorkers).toNat else r1).1.quit = s.quit := by
        split
        · rw [St.teamGrow, quit_teamSubmit]; exact h1
        · exact h1
      generalize (if r1.1.poolWorkers < r1.1.pmin then r1.1.teamGrow (r1.1.pmin - r1.1.poolWorkers).toNat else r1) = r2 at h2
      split
      · exact h2
      · split
        · rw [St.teamGrow, quit_teamSubmit]; exact h2
        · exact h2

theorem quit_poolAdjust (s : St) (mn mx : Option Int) : (s.poolAdjust mn mx).1.quit = s.quit := by
  unfold St.poolAdjust
  simp only
  split
  · rfl
  · exact quit_poolAdjustCore s _ _

/-- once `Team.quit()` has been accepted the flag stays set, whatever happens next -/
theorem quit_step (s : St) (o : Op) (h : s.quit = true) : (step s o).quit = true := by
  unfold step
  split
  · exact h
  · cases o with
    | doTask t r => show (s.teamDo _).1.quit = true; rw [quit_teamDo]; exact h
    | grow n => show (s.teamSubmit _ _).1.quit = true; rw [quit_teamSubmit]; exact h
    | shrink n => show (s.teamSubmit _ _).1.quit = true; rw [quit_teamSubmit]; exact h
    | quit => exact quit_teamQuit s h
    | limit l => exact h
    | stepC => show s.stepC.quit = true; rw [quit_stepC]; exact h
    | stepW w => show (s.stepW w).quit = true; rw [quit_stepW]; exact h
    | any k =>
      show (s.stepAny k).quit = true
      unfold St.stepAny
      split
      · exact h
      · split
        · rw [quit_stepC]; exact h
        · rw [quit_stepW]; exact h
    | pStart =>
      show (St.poolAdjust _ none none).1.quit = true
      rw [quit_poolAdjust]; exact h
    | pStop => exact quit_teamQuit { s with joined := true, started := false, limit := 0 } h
    | pCall t r cb =>
      show (s.poolCall t r cb).quit = true
      unfold St.poolCall
      split
      · exact h
      · rw [quit_teamDo]; exact h
    | pAdjust mn mx => show (s.poolAdjust mn mx).1.quit = true; rw [quit_poolAdjust]; exact h
    | pStartWorker => show (s.teamSubmit _ _).1.quit = true; rw [quit_teamSubmit]; exact h
    | pStopWorker => show (s.teamSubmit _ _).1.quit = true; rw [quit_teamSubmit]; exact h

theorem quit_run (s : St) (ops : List Op) (h : s.quit = true) : (run s ops).quit = true := by
  induction ops generalizing s with
  | nil => exact h
  | cons o ops ih => exact ih _ (quit_step s o h)

end TwistedProps.C49
