import TwistedProps.C49.Inv2
import TwistedProps.C49.Quit
/-! A backlog survives only while the worker creator refuses: for histories in which the limit function changes
    only through `ThreadPool` (no raw `Op.limit`), whenever `Team._pending` is non-empty before `quit()`, either
    `limitedWorkerCreator` would return `None` now, or a `grow(n)` with `n ≥ len(_pending)` (the kick queued by
    `adjustPoolsize`) is still in the coordinator queue. -/
namespace TwistedProps.C49
open Twisted.Threads Twisted.Threads.St

def tot (s : St) : Nat := s.busy + s.idle.length

/-- a `grow(n)` large enough for the whole backlog is queued -/
def cover (s : St) : Prop := ∃ n, CItem.grow n ∈ s.coordQ ∧ s.pending.length ≤ n

def Back (s : St) : Prop := s.pending ≠ [] → s.quit = true ∨ refuses s ∨ cover s

theorem refuses_iff (s : St) : refuses s ↔ ((tot s : Nat) : Int) ≥ s.limit := Iff.rfl

theorem Back.mono {s s' : St} (h : Back s) (hq : s'.quit = s.quit) (hl : s'.limit = s.limit)
    (ht : s'.pending ≠ [] → tot s ≤ tot s') (hp : s'.pending.length ≤ s.pending.length)
    (hc : ∀ n, CItem.grow n ∈ s.coordQ → CItem.grow n ∈ s'.coordQ) : Back s' := by
  intro hne
  have hne0 : s.pending ≠ [] := by
    intro hx; rw [hx] at hp; simp at hp; exact hne hp
  rcases h hne0 with a | a | ⟨n, a, b⟩
  · exact Or.inl (by rw [hq]; exact a)
  · right; left
    have := ht hne
    rw [refuses_iff] at a ⊢
    rw [hl]; omega
  · right; right; exact ⟨n, hc n a, by omega⟩

theorem back_coordinate {s : St} (hn : Num s) (h : Back s) (t : Task) : Back (s.coordinate t) := by
  obtain ⟨_, _, _, hP, c5⟩ := coordinate_fields s t
  obtain ⟨p1, p2, p3, _, _, _⟩ := hP
  rcases c5 with ⟨d0, d1, d2, d3⟩ | ⟨d0, dr, d1, d2, d3⟩ | ⟨d0, dr, d1, d2, d3⟩
  · intro hne; rw [d3] at hne; exact absurd (hn.pendIdle hne) d0
  · intro _; right; left
    rw [refuses_iff] at dr ⊢
    simp only [tot] at dr ⊢
    rw [p1, d1, d2, d0] at *; exact dr
  · refine h.mono p2 p1 (fun _ => ?_) (by rw [d3]; exact Nat.le_refl _) (fun n hx => by rw [p3]; exact hx)
    simp only [tot]; rw [d1, d2, d0]; simp

theorem back_quitIdlers {s : St} (hn : Num s) (h : Back s) (n : Option Nat) : Back (s.quitIdlers n) := by
  obtain ⟨q1, q2, q3, _, _, hP⟩ := quitIdlers_fields s n
  obtain ⟨p1, p2, p3, _, _, _⟩ := hP
  refine h.mono p2 p1 (fun hne => ?_) (by rw [q3]; exact Nat.le_refl _) (fun n hx => by rw [p3]; exact hx)
  rw [q3] at hne
  have := hn.pendIdle hne
  simp only [tot]; rw [q1, q2, this]; simp

theorem back_recycle {s : St} {w : Nat} (hni : w ∉ s.idle) (h : Back { s with busy := s.busy + 1 }) :
    Back (s.recycle w) := by
  obtain ⟨_, hP, r3⟩ := recycle_fields s w hni
  obtain ⟨p1, p2, p3, _, _, _⟩ := hP
  rcases r3 with ⟨t, rest, e1, e2, e3, e4, e5⟩ | ⟨e1, e2, _⟩ | ⟨e1, e2, _⟩
  · refine h.mono p2 p1 (fun _ => ?_) ?_ (fun n hx => by rw [p3]; exact hx)
    · simp only [tot]; rw [e3, e4]; exact Nat.le_refl _
    · show _ ≤ s.pending.length; rw [e2, e1]; simp
  · intro hne; exact absurd e2 hne
  · intro hne; exact absurd e2 hne

/-- `grow(n)`: afterwards the backlog is empty, or the creator refuses, or `n` backlog entries were served -/
theorem growLoop_backlog {s : St} (h : Mid s) (hsq : s.shouldQuit = false) (hcq : s.coordQuit = false)
    (hn : Num s) (n : Nat) :
    Pub s (growLoop n s) ∧ (growLoop n s).pending.length ≤ s.pending.length ∧
    (n = 0 ∨ (growLoop n s).pending = [] ∨ refuses (growLoop n s) ∨
      (growLoop n s).pending.length + n ≤ s.pending.length) ∧
    (refuses s → growLoop n s = s) := by
  induction n generalizing s with
  | zero => exact ⟨Pub.refl s, Nat.le_refl _, Or.inl rfl, fun _ => rfl⟩
  | succ n ih =>
    obtain ⟨hM1, hF1⟩ := mid_growLoop h hsq hcq 1
    have hr := createWorker_refuses s
    unfold growLoop
    unfold growLoop at hM1 hF1
    cases hc : s.createWorker with
    | mk o s1 =>
      rw [hc] at hM1 hF1 hr
      cases o with
      | none =>
        obtain ⟨hs1, _⟩ := createWorker_none hc
        subst hs1
        exact ⟨Pub.refl _, Nat.le_refl _, Or.inr (Or.inr (Or.inl (hr.mp rfl))), fun _ => rfl⟩
      | some w =>
        simp only [growLoop] at hM1 hF1 ⊢
        have hnr : ¬ refuses s := fun hx => by have := hr.mpr hx; simp at this
        obtain ⟨hwl, _, hs1⟩ := createWorker_some hc
        obtain ⟨_, hni, _⟩ := core_create h.core
        have hni1 : w ∉ s1.idle := by subst hs1; subst hwl; exact hni
        have hp1 : s1.pending ≠ [] → s1.idle = [] := by subst hs1; exact hn.pendIdle
        have hP1 : Pub s s1 := by subst hs1; exact ⟨rfl, rfl, rfl, rfl, rfl, rfl⟩
        have hpe : s1.pending = s.pending := by subst hs1; rfl
        have hn2 := num_recycle hni1 hp1
        have hsq2 : (s1.recycle w).shouldQuit = false := by rw [hF1.2.1]; exact hsq
        have hcq2 : (s1.recycle w).coordQuit = false := by rw [hF1.2.2.2.2 hsq]; exact hcq
        obtain ⟨i1, i2, i3, _⟩ := ih hM1 hsq2 hcq2 hn2
        obtain ⟨_, hP2, r3⟩ := recycle_fields s1 w hni1
        refine ⟨(hP1.trans hP2).trans i1, ?_, ?_, fun hx => absurd hx hnr⟩
        · rcases r3 with ⟨t, rest, e1, e2, _⟩ | ⟨e1, e2, _⟩ | ⟨e1, e2, _⟩
          · rw [e2] at i2; rw [← hpe, e1]; simp; omega
          · rw [e2] at i2; simp at i2; rw [i2]; simp
          · rw [e2] at i2; simp at i2; rw [i2]; simp
        · right
          rcases r3 with ⟨t, rest, e1, e2, _⟩ | ⟨e1, e2, _⟩ | ⟨e1, e2, _⟩
          · rw [e2] at i2 i3
            rcases i3 with a | a | a | a
            · subst a
              simp only [growLoop] at i2 ⊢
              right; right; rw [← hpe, e1, e2]; simp
            · exact Or.inl a
            · exact Or.inr (Or.inl a)
            · right; right; rw [← hpe, e1]; simp; omega
          · rw [e2] at i2; simp at i2
            exact Or.inl i2
          · rw [e2] at i2; simp at i2
            exact Or.inl i2


structure Inv3 (s : St) : Prop where
  inv2 : Inv2 s
  back : Back s
  poolOK : 0 ≤ s.pmin ∧ s.pmin ≤ s.pmax

theorem poolOK_of_pub {s s' : St} (h : 0 ≤ s.pmin ∧ s.pmin ≤ s.pmax) (hP : Pub s s') :
    0 ≤ s'.pmin ∧ s'.pmin ≤ s'.pmax := by
  obtain ⟨_, _, _, p4, p5, _⟩ := hP
  rw [p4, p5]; exact h

theorem inv3_stepC {s : St} (h : Inv3 s) : Inv3 s.stepC := by
  have hI := inv2_stepC h.inv2
  have h2 := h.inv2
  unfold St.stepC at hI ⊢
  split
  · exact h
  · rename_i c rest hq
    rw [hq] at hI
    simp only at hI
    have hsq : s.shouldQuit = true → ∀ x ∈ rest, isRecycle x = true :=
      fun hx x hm => h2.inv.mid.sqRec hx x (by rw [hq]; simp [hm])
    have hnum0 : Num { s with coordQ := rest } := ⟨h2.num.pendIdle, h2.num.sqIdle⟩
    have hback0 : (∀ n, c ≠ .grow n) → Back { s with coordQ := rest } := fun hc =>
      h.back.mono rfl rfl (fun _ => Nat.le_refl _) (Nat.le_refl _) (fun n hx => by
        rw [hq] at hx; simp only [List.mem_cons] at hx
        rcases hx with hx | hx
        · exact absurd hx.symm (hc n)
        · exact hx)
    have hpool0 : 0 ≤ ({ s with coordQ := rest } : St).pmin ∧
        ({ s with coordQ := rest } : St).pmin ≤ ({ s with coordQ := rest } : St).pmax := h.poolOK
    cases c with
    | coord t =>
      exact ⟨hI, back_coordinate hnum0 (hback0 (by simp)) t,
        poolOK_of_pub hpool0 (coordinate_fields { s with coordQ := rest } t).2.2.2.1⟩
    | shrink n =>
      exact ⟨hI, back_quitIdlers hnum0 (hback0 (by simp)) n,
        poolOK_of_pub hpool0 (quitIdlers_fields { s with coordQ := rest } n).2.2.2.2.2⟩
    | finish =>
      have hquit : s.quit = true := by
        cases hx : s.quit with
        | true => rfl
        | false => exact absurd (by rw [hq]; simp) (h2.inv.noFin hx)
      have hP := (quitIdlers_fields { s with coordQ := rest, shouldQuit := true } none).2.2.2.2.2
      refine ⟨hI, fun _ => Or.inl ?_, poolOK_of_pub (s := { s with coordQ := rest, shouldQuit := true }) h.poolOK hP⟩
      show (St.quitIdlers { s with coordQ := rest, shouldQuit := true } none).quit = true
      rw [hP.2.1]; exact hquit
    | recycle w =>
      have hni : w ∉ s.idle := fun hm => h2.inv.mid.core.idleNoRec w hm (by rw [hq]; simp)
      have hb1 : Back { s with coordQ := rest, busy := s.busy - 1 + 1 } :=
        h.back.mono rfl rfl (fun _ => by simp only [tot]; omega) (Nat.le_refl _) (fun n hx => by
          rw [hq] at hx; simpa using hx)
      exact ⟨hI, back_recycle (s := { s with coordQ := rest, busy := s.busy - 1 }) hni hb1,
        poolOK_of_pub (s := { s with coordQ := rest, busy := s.busy - 1 }) h.poolOK
          (recycle_fields { s with coordQ := rest, busy := s.busy - 1 } w hni).2.1⟩
    | grow n =>
      have hnsq : s.shouldQuit = false := by
        cases hx : s.shouldQuit with
        | false => rfl
        | true => have := h2.inv.mid.sqRec hx (.grow n) (by rw [hq]; simp); simp [isRecycle] at this
      obtain ⟨hM, hcq⟩ := mid_pop h2.inv hq rfl s.shouldQuit hsq
      obtain ⟨gP, g2, g3, g4⟩ := growLoop_backlog hM hnsq hcq hnum0 n
      refine ⟨hI, ?_, poolOK_of_pub hpool0 gP⟩
      show Back (growLoop n { s with coordQ := rest })
      intro hne
      have hne0 : s.pending ≠ [] := by
        intro hx
        have h0 : s.pending.length = 0 := by rw [hx]; rfl
        have h1 : (growLoop n { s with coordQ := rest }).pending.length ≤ s.pending.length := g2
        have h3 : (growLoop n { s with coordQ := rest }).pending.length = 0 := by omega
        exact hne (List.eq_nil_of_length_eq_zero h3)
      rcases h.back hne0 with a | a | ⟨m, hm, hle⟩
      · left; rw [gP.2.1]; exact a
      · right; left
        have : refuses { s with coordQ := rest } := a
        rw [g4 this]; exact this
      · rw [hq] at hm
        simp only [List.mem_cons, CItem.grow.injEq] at hm
        rcases hm with hm | hm
        · subst hm
          have g2' : (growLoop m { s with coordQ := rest }).pending.length ≤ s.pending.length := g2
          rcases g3 with a | a | a | a
          · subst a; simp at hle; exact absurd hle hne0
          · exact absurd a hne
          · exact Or.inr (Or.inl a)
          · have a' : (growLoop m { s with coordQ := rest }).pending.length + m ≤ s.pending.length := a
            have : (growLoop m { s with coordQ := rest }).pending.length = 0 := by omega
            exact absurd (List.eq_nil_of_length_eq_zero this) hne
        · right; right
          refine ⟨m, by rw [gP.2.2.1]; exact hm, ?_⟩
          have g2' : (growLoop n { s with coordQ := rest }).pending.length ≤ s.pending.length := g2
          omega


theorem stepW_fields (s : St) (w : Nat) :
    Pub { s with coordQ := [] } { s.stepW w with coordQ := [] } ∧ (s.stepW w).busy = s.busy ∧
    (s.stepW w).idle = s.idle ∧ (s.stepW w).pending = s.pending ∧
    (∀ c, c ∈ s.coordQ → c ∈ (s.stepW w).coordQ) := by
  unfold St.stepW
  split
  · exact ⟨Pub.refl _, rfl, rfl, rfl, fun _ hc => hc⟩
  · split
    · exact ⟨Pub.refl _, rfl, rfl, rfl, fun _ hc => hc⟩
    · simp only [St.coordDo]
      split
      · unfold St.crash; split
        · exact ⟨⟨rfl, rfl, rfl, rfl, rfl, rfl⟩, rfl, rfl, rfl, fun _ hc => hc⟩
        · exact ⟨⟨rfl, rfl, rfl, rfl, rfl, rfl⟩, rfl, rfl, rfl, fun _ hc => hc⟩
      · exact ⟨⟨rfl, rfl, rfl, rfl, rfl, rfl⟩, rfl, rfl, rfl, fun _ hc => by simp [hc]⟩

theorem inv3_stepW {s : St} (h : Inv3 s) (w : Nat) : Inv3 (s.stepW w) := by
  obtain ⟨hP, f1, f2, f3, f4⟩ := stepW_fields s w
  obtain ⟨p1, p2, _, p4, p5, _⟩ := hP
  refine ⟨inv2_stepW h.inv2 w, ?_, ?_⟩
  · exact h.back.mono p2 p1 (fun _ => by simp only [tot]; rw [f1, f2]; exact Nat.le_refl _)
      (by rw [f3]; exact Nat.le_refl _) (fun n hx => f4 _ hx)
  · have := h.poolOK
    have e4 : (s.stepW w).pmin = s.pmin := p4
    have e5 : (s.stepW w).pmax = s.pmax := p5
    rw [e4, e5]; exact this

theorem inv3_stepAny {s : St} (h : Inv3 s) (k : Nat) : Inv3 (s.stepAny k) := by
  unfold St.stepAny
  split
  · exact h
  · split
    · exact inv3_stepC h
    · exact inv3_stepW h _

/-- public calls that leave the limit alone -/
def Pres2 (s s' : St) : Prop :=
  Pres s s' ∧ s'.limit = s.limit ∧ s'.pmin = s.pmin ∧ s'.pmax = s.pmax ∧ (s.quit = true → s'.quit = true)

theorem back_of_pres2 {s s' : St} (h : Back s) (hp : Pres2 s s') : Back s' := by
  obtain ⟨⟨a1, a2, a3, a4, a5, a6, a7, a8⟩, b1, b2, b3, b4⟩ := hp
  cases hq' : s'.quit with
  | true => exact fun _ => Or.inl hq'
  | false =>
    have hq : s.quit = false := by
      cases hx : s.quit with
      | false => rfl
      | true => rw [b4 hx] at hq'; cases hq'
    have := h.mono (s' := s') (by rw [hq, hq']) b1 (fun _ => by simp only [tot]; rw [a2, a4]; exact Nat.le_refl _)
      (by rw [a3]; exact Nat.le_refl _) (fun n hx => a7 _ hx)
    intro hne
    rcases this hne with a | a | a
    · rw [hq'] at a; cases a
    · exact Or.inr (Or.inl a)
    · exact Or.inr (Or.inr a)

theorem inv3_of_pres2 {s s' : St} (h : Inv3 s) (hI : Inv s') (hp : Pres2 s s') : Inv3 s' :=
  ⟨inv2_of_pres h.inv2 hI hp.1, back_of_pres2 h.back hp, by rw [hp.2.2.1, hp.2.2.2.1]; exact h.poolOK⟩

theorem pres2_teamSubmit (s : St) (what : Nat) (c : CItem) : Pres2 s (s.teamSubmit what c).1 := by
  refine ⟨pres_teamSubmit s what c, ?_⟩
  unfold St.teamSubmit; split
  · exact ⟨rfl, rfl, rfl, fun hx => hx⟩
  · exact ⟨rfl, rfl, rfl, fun hx => hx⟩

theorem pres2_teamDo (s : St) (t : Task) : Pres2 s (s.teamDo t).1 := by
  refine ⟨pres_teamDo s t, ?_⟩
  unfold St.teamDo; split
  · exact ⟨rfl, rfl, rfl, fun hx => hx⟩
  · exact ⟨rfl, rfl, rfl, fun hx => hx⟩

theorem teamQuit_quit (s : St) : s.teamQuit.1.quit = true := by
  unfold St.teamQuit; split
  · rename_i hx; exact hx
  · simp only; split <;> rfl

theorem teamSubmit_ok {s : St} (what : Nat) (c : CItem) (hq : s.quit = false) (hcq : s.coordQuit = false) :
    s.teamSubmit what c = ({ s with coordQ := s.coordQ ++ [c] }, true) := by
  unfold St.teamSubmit; simp [hq, hcq]

/-- `adjustPoolsize` (after its assertions) re-establishes the backlog invariant whatever the limit was before -/
theorem back_poolAdjustCore {s : St} (hcq : s.quit = false → s.coordQuit = false) (mn mx : Int) :
    Back (s.poolAdjustCore mn mx).1 ∧ (s.poolAdjustCore mn mx).1.pmin = mn ∧ (s.poolAdjustCore mn mx).1.pmax = mx := by
  have hquit := quit_poolAdjustCore s mn mx
  cases hq : s.quit with
  | true =>
    rw [hq] at hquit
    refine ⟨fun _ => Or.inl hquit, ?_⟩
    -- pmin/pmax: every branch keeps the new values
    unfold St.poolAdjustCore
    have h0 : ({ s with pmin := mn, pmax := mx, limit := if s.started then mx else 0 } : St).pmin = mn ∧
        ({ s with pmin := mn, pmax := mx, limit := if s.started then mx else 0 } : St).pmax = mx := ⟨rfl, rfl⟩
    generalize ({ s with pmin := mn, pmax := mx, limit := if s.started then mx else 0 } : St) = s0 at h0
    simp only
    split
    · exact h0
    · have h1 : (if s0.poolWorkers > s0.pmax then s0.teamShrink (some (s0.poolWorkers - s0.pmax).toNat) else (s0, true)).1.pmin = mn ∧
          (if s0.poolWorkers > s0.pmax then s0.teamShrink (some (s0.poolWorkers - s0.pmax).toNat) else (s0, true)).1.pmax = mx := by
        split
        · have := pres2_teamSubmit s0 2 (.shrink (some (s0.poolWorkers - s0.pmax).toNat))
          exact ⟨by rw [St.teamShrink, this.2.2.1]; exact h0.1, by rw [St.teamShrink, this.2.2.2.1]; exact h0.2⟩
        · exact h0
      generalize (if s0.poolWorkers > s0.pmax then s0.teamShrink (some (s0.poolWorkers - s0.pmax).toNat) else (s0, true)) = r1 at h1
      split
      · exact h1
      · have h2 : (if r1.1.poolWorkers < r1.1.pmin then r1.1.teamGrow (r1.1.pmin - r1.1.poolWorkers).toNat else r1).1.pmin = mn ∧
            (if r1.1.poolWorkers < r1.1.pmin then r1.1.teamGrow (r1.1.pmin - r1.1.poolWorkers).toNat else r1).1.pmax = mx := by
          split
          · have := pres2_teamSubmit r1.1 1 (.grow (r1.1.pmin - r1.1.poolWorkers).toNat)
            exact ⟨by rw [St.teamGrow, this.2.2.1]; exact h1.1, by rw [St.teamGrow, this.2.2.2.1]; exact h1.2⟩
          · exact h1
        generalize (if r1.1.poolWorkers < r1.1.pmin then r1.1.teamGrow (r1.1.pmin - r1.1.poolWorkers).toNat else r1) = r2 at h2
        split
        · exact h2
        · split
          · have := pres2_teamSubmit r2.1 1 (.grow r2.1.pending.length)
            exact ⟨by rw [St.teamGrow, this.2.2.1]; exact h2.1, by rw [St.teamGrow, this.2.2.2.1]; exact h2.2⟩
          · exact h2
  | false =>
    have hc := hcq hq
    unfold St.poolAdjustCore
    have h0 : ({ s with pmin := mn, pmax := mx, limit := if s.started then mx else 0 } : St).pmin = mn ∧
        ({ s with pmin := mn, pmax := mx, limit := if s.started then mx else 0 } : St).pmax = mx ∧
        ({ s with pmin := mn, pmax := mx, limit := if s.started then mx else 0 } : St).quit = false ∧
        ({ s with pmin := mn, pmax := mx, limit := if s.started then mx else 0 } : St).coordQuit = false ∧
        ((!({ s with pmin := mn, pmax := mx, limit := if s.started then mx else 0 } : St).started) = true →
          ({ s with pmin := mn, pmax := mx, limit := if s.started then mx else 0 } : St).limit = 0) := by
      refine ⟨rfl, rfl, hq, hc, fun hx => ?_⟩
      simp only [Bool.not_eq_true'] at hx
      show (if s.started = true then mx else 0) = 0
      have hx' : s.started = false := hx
      simp [hx']
    generalize ({ s with pmin := mn, pmax := mx, limit := if s.started then mx else 0 } : St) = s0 at h0
    obtain ⟨e1, e2, e3, e4, e5⟩ := h0
    simp only
    split
    · rename_i hns
      refine ⟨fun _ => Or.inr (Or.inl ?_), e1, e2⟩
      rw [refuses_iff, e5 hns]; omega
    · have h1 : (if s0.poolWorkers > s0.pmax then s0.teamShrink (some (s0.poolWorkers - s0.pmax).toNat) else (s0, true)).2 = true ∧
          (if s0.poolWorkers > s0.pmax then s0.teamShrink (some (s0.poolWorkers - s0.pmax).toNat) else (s0, true)).1.pmin = mn ∧
          (if s0.poolWorkers > s0.pmax then s0.teamShrink (some (s0.poolWorkers - s0.pmax).toNat) else (s0, true)).1.pmax = mx ∧
          (if s0.poolWorkers > s0.pmax then s0.teamShrink (some (s0.poolWorkers - s0.pmax).toNat) else (s0, true)).1.quit = false ∧
          (if s0.poolWorkers > s0.pmax then s0.teamShrink (some (s0.poolWorkers - s0.pmax).toNat) else (s0, true)).1.coordQuit = false := by
        split
        · rw [St.teamShrink, teamSubmit_ok _ _ e3 e4]; exact ⟨rfl, e1, e2, e3, e4⟩
        · exact ⟨rfl, e1, e2, e3, e4⟩
      generalize (if s0.poolWorkers > s0.pmax then s0.teamShrink (some (s0.poolWorkers - s0.pmax).toNat) else (s0, true)) = r1 at h1
      obtain ⟨a0, a1, a2, a3, a4⟩ := h1
      split
      · rename_i hx; rw [a0] at hx; simp at hx
      · have h2 : (if r1.1.poolWorkers < r1.1.pmin then r1.1.teamGrow (r1.1.pmin - r1.1.poolWorkers).toNat else r1).2 = true ∧
            (if r1.1.poolWorkers < r1.1.pmin then r1.1.teamGrow (r1.1.pmin - r1.1.poolWorkers).toNat else r1).1.pmin = mn ∧
            (if r1.1.poolWorkers < r1.1.pmin then r1.1.teamGrow (r1.1.pmin - r1.1.poolWorkers).toNat else r1).1.pmax = mx ∧
            (if r1.1.poolWorkers < r1.1.pmin then r1.1.teamGrow (r1.1.pmin - r1.1.poolWorkers).toNat else r1).1.quit = false ∧
            (if r1.1.poolWorkers < r1.1.pmin then r1.1.teamGrow (r1.1.pmin - r1.1.poolWorkers).toNat else r1).1.coordQuit = false := by
          split
          · rw [St.teamGrow, teamSubmit_ok _ _ a3 a4]; exact ⟨rfl, a1, a2, a3, a4⟩
          · exact ⟨a0, a1, a2, a3, a4⟩
        generalize (if r1.1.poolWorkers < r1.1.pmin then r1.1.teamGrow (r1.1.pmin - r1.1.poolWorkers).toNat else r1) = r2 at h2
        obtain ⟨b0, b1, b2, b3, b4⟩ := h2
        split
        · rename_i hx; rw [b0] at hx; simp at hx
        · split
          · rw [St.teamGrow, teamSubmit_ok _ _ b3 b4]
            refine ⟨fun _ => Or.inr (Or.inr ⟨r2.1.pending.length, by simp, Nat.le_refl _⟩), b1, b2⟩
          · rename_i hx
            refine ⟨fun hne => ?_, b1, b2⟩
            exact absurd (List.length_pos_iff.mpr hne) hx


theorem teamQuit_pool (s : St) : s.teamQuit.1.pmin = s.pmin ∧ s.teamQuit.1.pmax = s.pmax := by
  unfold St.teamQuit; split
  · exact ⟨rfl, rfl⟩
  · simp only; split <;> exact ⟨rfl, rfl⟩

theorem pres2_refl (s : St) : Pres2 s s := ⟨Pres.refl s, rfl, rfl, rfl, fun hx => hx⟩

theorem back_poolAdjust {s : St} (hb : Back s) (hcq : s.quit = false → s.coordQuit = false)
    (hpool : 0 ≤ s.pmin ∧ s.pmin ≤ s.pmax) (mn mx : Option Int) :
    Back (s.poolAdjust mn mx).1 ∧
    (0 ≤ (s.poolAdjust mn mx).1.pmin ∧ (s.poolAdjust mn mx).1.pmin ≤ (s.poolAdjust mn mx).1.pmax) := by
  unfold St.poolAdjust
  simp only
  split
  · exact ⟨back_of_pres2 hb (pres2_refl s), hpool⟩
  · rename_i hx
    simp only [Bool.or_eq_true, decide_eq_true_eq, not_or, Int.not_lt, Int.not_lt] at hx
    obtain ⟨b, e1, e2⟩ := back_poolAdjustCore hcq (mn.getD s.pmin) (mx.getD s.pmax)
    refine ⟨b, ?_⟩
    rw [e1, e2]; omega

theorem poolAdjust_none {s : St} (hpool : 0 ≤ s.pmin ∧ s.pmin ≤ s.pmax) :
    s.poolAdjust none none = s.poolAdjustCore s.pmin s.pmax := by
  unfold St.poolAdjust
  simp only [Option.getD_none]
  rw [if_neg]
  simp only [Bool.or_eq_true, decide_eq_true_eq, not_or, Int.not_lt]
  omega

theorem inv3_applyOp {s : St} (h : Inv3 s) (o : Op) (hno : ∀ l, o ≠ .limit l) : Inv3 (applyOp s o) := by
  have h2 := inv2_applyOp h.inv2 o
  have hcq : s.quit = false → s.coordQuit = false := h.inv2.inv.notCoordQuit'
  cases o with
  | doTask t r => exact inv3_of_pres2 h h2.inv (pres2_teamDo s _)
  | grow n => exact inv3_of_pres2 h h2.inv (pres2_teamSubmit s _ _)
  | shrink n => exact inv3_of_pres2 h h2.inv (pres2_teamSubmit s _ _)
  | quit =>
    refine ⟨h2, fun _ => Or.inl (teamQuit_quit s), ?_⟩
    have := teamQuit_pool s
    show 0 ≤ s.teamQuit.1.pmin ∧ s.teamQuit.1.pmin ≤ s.teamQuit.1.pmax
    rw [this.1, this.2]; exact h.poolOK
  | limit l => exact absurd rfl (hno l)
  | stepC => exact inv3_stepC h
  | stepW w => exact inv3_stepW h w
  | any k => exact inv3_stepAny h k
  | pStart =>
    have hp1 : 0 ≤ ({ s with joined := false, started := true, limit := s.pmax } : St).pmin ∧
        ({ s with joined := false, started := true, limit := s.pmax } : St).pmin ≤
          ({ s with joined := false, started := true, limit := s.pmax } : St).pmax := h.poolOK
    obtain ⟨b, e1, e2⟩ := back_poolAdjustCore (s := { s with joined := false, started := true, limit := s.pmax })
      hcq s.pmin s.pmax
    have he : applyOp s .pStart =
        (St.poolAdjustCore { s with joined := false, started := true, limit := s.pmax } s.pmin s.pmax).1 := by
      show (St.poolAdjust { s with joined := false, started := true, limit := s.pmax } none none).1 = _
      rw [poolAdjust_none hp1]
    rw [he] at h2 ⊢
    exact ⟨h2, b, by rw [e1, e2]; exact h.poolOK⟩
  | pStop =>
    refine ⟨h2, fun _ => Or.inl (teamQuit_quit _), ?_⟩
    have := teamQuit_pool { s with joined := true, started := false, limit := 0 }
    show 0 ≤ (St.teamQuit { s with joined := true, started := false, limit := 0 }).1.pmin ∧
      (St.teamQuit { s with joined := true, started := false, limit := 0 }).1.pmin ≤
        (St.teamQuit { s with joined := true, started := false, limit := 0 }).1.pmax
    rw [this.1, this.2]; exact h.poolOK
  | pCall t r cb =>
    refine inv3_of_pres2 h h2.inv ?_
    show Pres2 s (s.poolCall t r cb)
    unfold St.poolCall
    split
    · exact pres2_refl s
    · exact pres2_teamDo s _
  | pAdjust mn mx =>
    obtain ⟨b, p⟩ := back_poolAdjust h.back hcq h.poolOK mn mx
    exact ⟨h2, b, p⟩
  | pStartWorker => exact inv3_of_pres2 h h2.inv (pres2_teamSubmit s _ _)
  | pStopWorker => exact inv3_of_pres2 h h2.inv (pres2_teamSubmit s _ _)


theorem inv3_step {s : St} (h : Inv3 s) (o : Op) (hno : ∀ l, o ≠ .limit l) : Inv3 (step s o) := by
  unfold step; split
  · exact h
  · exact inv3_applyOp h o hno

theorem inv3_run {s : St} (h : Inv3 s) (ops : List Op) (hno : ∀ o ∈ ops, ∀ l, o ≠ Op.limit l) :
    Inv3 (run s ops) := by
  induction ops generalizing s with
  | nil => exact h
  | cons o ops ih =>
    exact ih (inv3_step h o (hno o (by simp))) (fun o' ho' => hno o' (by simp [ho']))

theorem inv3_init (l : Int) (ch : List Nat) : Inv3 (init l ch) :=
  ⟨inv2_init l ch, fun hne => absurd rfl hne, by show (0 : Int) ≤ 5 ∧ (5 : Int) ≤ 20; decide⟩

theorem inv3_initPool (mn mx : Int) (ch : List Nat) (h : 0 ≤ mn ∧ mn ≤ mx) : Inv3 (initPool mn mx ch) :=
  ⟨inv2_initPool mn mx ch, fun hne => absurd rfl hne, h⟩

end TwistedProps.C49
