import TwistedModel.Threads.Team
/-! Task conservation: for every task id `x`,
    `#run x` (log) `+ #in-flight x` (backlog + worker queues + `coord` items of the coordinator queue) `= #accept x` (log).

    The lemmas are "crash-robust": each says that IF the procedure's result is not crashed THEN its input was not
    crashed and the counts are related — so no structural invariant is needed here; `no_queue_item_raises`
    discharges the hypothesis at the end. -/
namespace TwistedProps.C49
open Twisted.Threads Twisted.Threads.St

def isT (x : Nat) (t : Task) : Bool := t.1 == x
def cT (x : Nat) : CItem → Bool
  | .coord t => t.1 == x
  | _ => false
def rE (x : Nat) : Ev → Bool
  | .run t _ => t == x
  | _ => false
def aE (x : Nat) : Ev → Bool
  | .accept t => t == x
  | _ => false

/-- copies of task `x` sitting in worker queues -/
def wsum (x : Nat) (ws : List Worker) : Nat := (ws.map (fun w => w.queue.countP (isT x))).sum

/-- how often task `x` has been called -/
def runs (x : Nat) (s : St) : Nat := s.log.countP (rE x)
/-- copies of task `x` not yet called: backlog + worker queues + coordinator queue -/
def inflight (x : Nat) (s : St) : Nat :=
  s.pending.countP (isT x) + wsum x s.workers + s.coordQ.countP (cT x)
/-- how often `Team.do` accepted task `x` -/
def accepts (x : Nat) (s : St) : Nat := s.log.countP (aE x)

def M (x : Nat) (s : St) : Nat := runs x s + inflight x s

def NC (s : St) : Prop := s.crashed = none

def d (x : Nat) (t : Task) : Nat := if t.1 = x then 1 else 0

theorem countP_isT_single (x : Nat) (t : Task) : List.countP (isT x) [t] = d x t := by
  simp [List.countP_cons, isT, d]

theorem wsum_set (x : Nat) (l : List Worker) (w : Nat) (wk y : Worker) (h : l[w]? = some wk) :
    wsum x (l.set w y) + wk.queue.countP (isT x) = wsum x l + y.queue.countP (isT x) := by
  unfold wsum
  induction l generalizing w with
  | nil => simp at h
  | cons a l ih =>
    cases w with
    | zero => simp at h; subst h; simp; omega
    | succ w => simp at h; have := ih w h; simp [-List.map_set] at this ⊢; omega

theorem wsum_append_empty (x : Nat) (l : List Worker) : wsum x (l ++ [({ } : Worker)]) = wsum x l := by
  simp [wsum]

theorem not_NC_crash (s : St) (c : Nat) : ¬ NC (s.crash c) := by
  unfold NC St.crash; split <;> simp_all

/-- the shape of a lemma about a coordinator procedure `f` whose net effect on `M x` is `+k` -/
def Keeps (x : Nat) (s s' : St) (k : Nat) : Prop :=
  NC s' → NC s ∧ M x s' = M x s + k ∧ accepts x s' = accepts x s

theorem Keeps.refl (x : Nat) (s : St) : Keeps x s s 0 := fun h => ⟨h, rfl, rfl⟩

theorem Keeps.trans {x : Nat} {a b c : St} {j k : Nat} (h1 : Keeps x a b j) (h2 : Keeps x b c k) :
    Keeps x a c (j + k) := by
  intro h
  obtain ⟨hb, m2, a2⟩ := h2 h
  obtain ⟨ha, m1, a1⟩ := h1 hb
  exact ⟨ha, by omega, by omega⟩

/-- a state change that touches none of the counted fields -/
theorem Keeps.of_eq {x : Nat} {s s' : St} (hc : s'.crashed = s.crashed) (hl : s'.log = s.log)
    (hp : s'.pending = s.pending) (hw : s'.workers = s.workers) (hq : s'.coordQ = s.coordQ) : Keeps x s s' 0 := by
  intro h
  refine ⟨by unfold NC at *; rw [← hc]; exact h, ?_, ?_⟩
  · simp only [M, runs, inflight, hl, hp, hw, hq]; rfl
  · simp only [accepts, hl]

theorem keeps_workerDo (x : Nat) (s : St) (w : Nat) (t : Task) : Keeps x s (s.workerDo w t) (d x t) := by
  unfold St.workerDo
  split
  · intro h; exact absurd h (not_NC_crash _ _)
  · rename_i wk hw
    split
    · intro h; exact absurd h (not_NC_crash _ _)
    · intro h
      refine ⟨h, ?_, rfl⟩
      have := wsum_set x s.workers w wk { wk with queue := wk.queue ++ [t] } hw
      simp only [List.countP_append, countP_isT_single] at this
      simp only [M, runs, inflight]
      omega

theorem keeps_workerQuit (x : Nat) (s : St) (w : Nat) : Keeps x s (s.workerQuit w) 0 := by
  unfold St.workerQuit
  split
  · intro h; exact absurd h (not_NC_crash _ _)
  · rename_i wk hw
    split
    · intro h; exact absurd h (not_NC_crash _ _)
    · intro h
      have := wsum_set x s.workers w wk { wk with quit := true } hw
      dsimp only at this
      refine ⟨h, ?_, ?_⟩
      · simp only [M, runs, inflight, St.emit, List.countP_append]
        simp [rE]; omega
      · simp [accepts, St.emit, aE]

theorem keeps_popIdle {x : Nat} {s s' : St} {w : Nat} (h : s.popIdle = some (w, s')) : Keeps x s s' 0 := by
  unfold St.popIdle at h
  split at h
  · cases h
  · simp only [Option.some.injEq, Prod.mk.injEq] at h
    rw [← h.2]; exact Keeps.of_eq rfl rfl rfl rfl rfl

theorem keeps_createWorker (x : Nat) (s : St) : Keeps x s s.createWorker.2 0 := by
  unfold St.createWorker
  split
  · exact Keeps.refl x s
  · intro h
    refine ⟨h, ?_, ?_⟩
    · simp only [M, runs, inflight, St.emit, List.countP_append, wsum_append_empty]
      simp [rE]
    · simp [accepts, St.emit, aE]

theorem keeps_coordinate (x : Nat) (s : St) (t : Task) : Keeps x s (s.coordinate t) (d x t) := by
  unfold St.coordinate
  cases hp : s.popIdle with
  | some r =>
    obtain ⟨w, s1⟩ := r
    simp only
    have h1 := keeps_popIdle (x := x) hp
    have h2 : Keeps x s1 { s1 with busy := s1.busy + 1 } 0 := Keeps.of_eq rfl rfl rfl rfl rfl
    have h3 := keeps_workerDo x { s1 with busy := s1.busy + 1 } w t
    simpa using (h1.trans h2).trans h3
  | none =>
    simp only
    have hc := keeps_createWorker x s
    cases hcw : s.createWorker with
    | mk o s1 =>
      rw [hcw] at hc
      cases o with
      | none =>
        simp only
        have h2 : Keeps x s1 { s1 with pending := s1.pending ++ [t] } (d x t) := by
          intro h
          refine ⟨h, ?_, rfl⟩
          simp only [M, runs, inflight, List.countP_append, countP_isT_single]; omega
        simpa using hc.trans h2
      | some w =>
        simp only
        have h2 : Keeps x s1 { s1 with busy := s1.busy + 1 } 0 := Keeps.of_eq rfl rfl rfl rfl rfl
        have h3 := keeps_workerDo x { s1 with busy := s1.busy + 1 } w t
        simpa using (hc.trans h2).trans h3

theorem keeps_quitLoop (x : Nat) (n : Nat) (s : St) : Keeps x s (quitLoop n s) 0 := by
  induction n generalizing s with
  | zero => exact Keeps.refl x s
  | succ n ih =>
    unfold quitLoop
    cases hp : s.popIdle with
    | some r =>
      obtain ⟨w, s1⟩ := r
      simp only
      simpa using ((keeps_popIdle (x := x) hp).trans (keeps_workerQuit x s1 w)).trans (ih _)
    | none =>
      simp only
      have h2 : Keeps x s { s with toShrink := s.toShrink + 1 } 0 := Keeps.of_eq rfl rfl rfl rfl rfl
      simpa using h2.trans (ih _)

theorem keeps_coordinatorQuit (x : Nat) (s : St) : Keeps x s s.coordinatorQuit 0 := by
  unfold St.coordinatorQuit
  split
  · intro h; exact absurd h (not_NC_crash _ _)
  · intro h
    refine ⟨h, ?_, ?_⟩
    · simp only [M, runs, inflight, St.emit, List.countP_append]; simp [rE]
    · simp [accepts, St.emit, aE]

theorem keeps_quitIdlers (x : Nat) (s : St) (n : Option Nat) : Keeps x s (s.quitIdlers n) 0 := by
  unfold St.quitIdlers
  have h1 := keeps_quitLoop x (n.getD (s.idle.length + s.busy)) s
  simp only
  generalize quitLoop (n.getD (s.idle.length + s.busy)) s = s2 at *
  split
  · simpa using h1.trans (keeps_coordinatorQuit x s2)
  · exact h1

theorem keeps_idleAdd (x : Nat) (s : St) (w : Nat) : Keeps x s (s.idleAdd w) 0 := by
  unfold St.idleAdd; split
  · exact Keeps.refl x s
  · exact Keeps.of_eq rfl rfl rfl rfl rfl

theorem keeps_recycle (x : Nat) (s : St) (w : Nat) : Keeps x s (s.recycle w) 0 := by
  unfold St.recycle
  have h1 := keeps_idleAdd x s w
  generalize s.idleAdd w = s1 at *
  simp only
  split
  · rename_i t rest hp
    have h3 := keeps_coordinate x { s1 with pending := rest } t
    intro h
    obtain ⟨h4, m4, a4⟩ := h3 h
    have hM : M x s1 = M x { s1 with pending := rest } + d x t := by
      simp only [M, runs, inflight, hp, List.countP_cons, isT, d, beq_iff_eq]; omega
    obtain ⟨h5, m5, a5⟩ := h1 (show NC s1 from h4)
    have a4' : accepts x { s1 with pending := rest } = accepts x s1 := rfl
    exact ⟨h5, by omega, by omega⟩
  · split
    · simpa using h1.trans (keeps_quitIdlers x s1 none)
    · split
      · split
        · have h2 : Keeps x s1 { s1 with toShrink := s1.toShrink - 1, idle := s1.idle.erase w } 0 :=
            Keeps.of_eq rfl rfl rfl rfl rfl
          simpa using (h1.trans h2).trans (keeps_workerQuit x _ w)
        · intro h; exact absurd h (not_NC_crash _ _)
      · exact h1


theorem keeps_growLoop (x : Nat) (n : Nat) (s : St) : Keeps x s (growLoop n s) 0 := by
  induction n generalizing s with
  | zero => exact Keeps.refl x s
  | succ n ih =>
    unfold growLoop
    have hc := keeps_createWorker x s
    split
    · rename_i s' heq; rw [heq] at hc; exact hc
    · rename_i w s' heq; rw [heq] at hc
      simpa using (hc.trans (keeps_recycle x s' w)).trans (ih _)

/-- conservation for one state -/
def Cons (s : St) : Prop := ∀ x, runs x s + inflight x s = accepts x s

theorem cons_of_keeps {s s' : St} (h : ∀ x, Keeps x s s' 0) (hn : NC s') (hc : Cons s) : Cons s' := by
  intro x
  obtain ⟨_, m, a⟩ := h x hn
  have := hc x
  simp only [M] at m; omega

/-- one coordinator item: the `coord` item leaves the queue and its task enters the backlog or a worker queue -/
theorem keeps_stepC (x : Nat) (s : St) : Keeps x s s.stepC 0 := by
  unfold St.stepC
  split
  · exact Keeps.refl x s
  · rename_i c rest hq
    have hpop : ∀ (c' : CItem), cT x c' = false → s.coordQ = c' :: rest → Keeps x s { s with coordQ := rest } 0 := by
      intro c' hc' hq' h
      refine ⟨h, ?_, rfl⟩
      simp only [M, runs, inflight, hq', List.countP_cons, hc']; simp
    cases c with
    | coord t =>
      simp only [St.runC]
      have h3 := keeps_coordinate x { s with coordQ := rest } t
      intro h
      obtain ⟨h4, m4, a4⟩ := h3 h
      have hM : M x s = M x { s with coordQ := rest } + d x t := by
        simp only [M, runs, inflight, hq, List.countP_cons, cT, d, beq_iff_eq]; omega
      have a4' : accepts x { s with coordQ := rest } = accepts x s := rfl
      exact ⟨h4, by omega, by omega⟩
    | grow n => simpa [St.runC] using (hpop _ rfl hq).trans (keeps_growLoop x n _)
    | shrink n => simpa [St.runC] using (hpop _ rfl hq).trans (keeps_quitIdlers x _ n)
    | recycle w =>
      have h2 : Keeps x { s with coordQ := rest } { s with coordQ := rest, busy := s.busy - 1 } 0 :=
        Keeps.of_eq rfl rfl rfl rfl rfl
      simpa [St.runC] using ((hpop _ rfl hq).trans h2).trans (keeps_recycle x _ w)
    | finish =>
      have h2 : Keeps x { s with coordQ := rest } { s with coordQ := rest, shouldQuit := true } 0 :=
        Keeps.of_eq rfl rfl rfl rfl rfl
      simpa [St.runC] using ((hpop _ rfl hq).trans h2).trans (keeps_quitIdlers x _ none)

theorem countP_rE_taskEvents (x : Nat) (t : Task) (w : Nat) : (taskEvents t w).countP (rE x) = d x t := by
  unfold taskEvents d
  (repeat' split) <;> simp_all [rE]

theorem countP_aE_taskEvents (x : Nat) (t : Task) (w : Nat) : (taskEvents t w).countP (aE x) = 0 := by
  unfold taskEvents
  (repeat' split) <;> simp [aE]

/-- one worker item: the task leaves the worker's queue and is called (one `run` event) -/
theorem keeps_stepW (x : Nat) (s : St) (w : Nat) : Keeps x s (s.stepW w) 0 := by
  unfold St.stepW
  split
  · exact Keeps.refl x s
  · rename_i wk hw
    split
    · exact Keeps.refl x s
    · rename_i t rest hqe
      simp only [St.coordDo]
      split
      · intro h; exact absurd h (not_NC_crash _ _)
      · intro h
        have := wsum_set x s.workers w wk { wk with queue := rest } hw
        rw [hqe] at this
        simp only [List.countP_cons, isT, beq_iff_eq] at this
        refine ⟨h, ?_, ?_⟩
        · simp only [M, runs, inflight, List.countP_append, countP_rE_taskEvents, d]
          simp [cT]
          split <;> simp_all <;> omega
        · simp only [accepts, List.countP_append, countP_aE_taskEvents]; rfl

/-! public operations: they only append to the coordinator queue and the log -/

theorem cons_emit {s : St} (e : Ev) (hr : ∀ x, rE x e = false) (ha : ∀ x, aE x e = false) (h : Cons s) :
    Cons (s.emit e) := by
  intro x
  have := h x
  simp only [runs, inflight, accepts, St.emit, List.countP_append, List.countP_cons, hr, ha] at *
  simpa using this

theorem cons_append {s : St} (c : CItem) (hc : ∀ x, cT x c = false) (h : Cons s) :
    Cons { s with coordQ := s.coordQ ++ [c] } := by
  intro x
  have := h x
  simp only [runs, inflight, accepts, List.countP_append, List.countP_cons, hc] at *
  simpa using this

theorem cons_teamSubmit {s : St} (what : Nat) (c : CItem) (hc : ∀ x, cT x c = false) (h : Cons s) :
    Cons (s.teamSubmit what c).1 := by
  unfold St.teamSubmit; split
  · exact cons_emit _ (fun _ => rfl) (fun _ => rfl) h
  · exact cons_append c hc h

theorem cons_teamDo {s : St} (t : Task) (h : Cons s) : Cons (s.teamDo t).1 := by
  unfold St.teamDo; split
  · exact cons_emit _ (fun _ => rfl) (fun _ => rfl) h
  · intro x
    have := h x
    simp only [runs, inflight, accepts, St.emit, List.countP_append, List.countP_cons, rE, aE, cT] at *
    simp
    omega

theorem cons_teamQuit {s : St} (h : Cons s) : Cons s.teamQuit.1 := by
  unfold St.teamQuit; split
  · exact cons_emit _ (fun _ => rfl) (fun _ => rfl) h
  · simp only; split
    · exact cons_emit (s := { s with quit := true }) _ (fun _ => rfl) (fun _ => rfl) h
    · exact cons_append (s := { s with quit := true }) .finish (fun _ => rfl) h

theorem cons_poolAdjustCore {s : St} (mn mx : Int) (h : Cons s) : Cons (s.poolAdjustCore mn mx).1 := by
  unfold St.poolAdjustCore
  have h0 : Cons { s with pmin := mn, pmax := mx, limit := if s.started then mx else 0 } := h
  generalize ({ s with pmin := mn, pmax := mx, limit := if s.started then mx else 0 } : St) = s0 at h0
  simp only
  split
  · exact h0
  · have h1 : Cons (if s0.poolWorkers > s0.pmax then s0.teamShrink (some (s0.poolWorkers - s0.pmax).toNat) else (s0, true)).1 := by
      split
      · exact cons_teamSubmit _ _ (fun _ => rfl) h0
      · exact h0
    generalize (if s0.poolWorkers > s0.pmax then s0.teamShrink (some (s0.poolWorkers - s0.pmax).toNat) else (s0, true)) = r1 at h1
    split
    · exact h1
    · have h2 : Cons (if r1.1.poolWorkers < r1.1.pmin then r1.1.teamGrow (r1.1.pmin - r1.1.poolWorkers).toNat else r1).1 := by
        split
        · exact cons_teamSubmit _ _ (fun _ => rfl) h1
        · exact h1
      generalize (if r1.1.poolWorkers < r1.1.pmin then r1.1.teamGrow (r1.1.pmin - r1.1.poolWorkers).toNat else r1) = r2 at h2
      split
      · exact h2
      · split
        · exact cons_teamSubmit _ _ (fun _ => rfl) h2
        · exact h2

theorem cons_poolAdjust {s : St} (mn mx : Option Int) (h : Cons s) : Cons (s.poolAdjust mn mx).1 := by
  unfold St.poolAdjust
  simp only
  split
  · exact cons_emit _ (fun _ => rfl) (fun _ => rfl) h
  · exact cons_poolAdjustCore _ _ h

theorem cons_applyOp {s : St} (o : Op) (hn : NC (applyOp s o)) (h : Cons s) : Cons (applyOp s o) := by
  cases o with
  | doTask t r => exact cons_teamDo _ h
  | grow n => exact cons_teamSubmit _ _ (fun _ => rfl) h
  | shrink n => exact cons_teamSubmit _ _ (fun _ => rfl) h
  | quit => exact cons_teamQuit h
  | limit l => exact h
  | stepC => exact cons_of_keeps (fun x => keeps_stepC x s) hn h
  | stepW w => exact cons_of_keeps (fun x => keeps_stepW x s w) hn h
  | any k =>
    revert hn
    show NC (s.stepAny k) → Cons (s.stepAny k)
    unfold St.stepAny
    split
    · exact fun _ => h
    · split
      · exact fun hn => cons_of_keeps (fun x => keeps_stepC x s) hn h
      · exact fun hn => cons_of_keeps (fun x => keeps_stepW x s _) hn h
  | pStart => exact cons_poolAdjust (s := { s with joined := false, started := true, limit := s.pmax }) none none h
  | pStop => exact cons_teamQuit (s := { s with joined := true, started := false, limit := 0 }) h
  | pCall t r =>
    show Cons (s.poolCall t r)
    unfold St.poolCall
    split
    · exact cons_emit _ (fun _ => rfl) (fun _ => rfl) h
    · exact cons_teamDo _ h
  | pAdjust mn mx => exact cons_poolAdjust mn mx h
  | pStartWorker => exact cons_teamSubmit _ _ (fun _ => rfl) h
  | pStopWorker => exact cons_teamSubmit _ _ (fun _ => rfl) h

theorem cons_step {s : St} (o : Op) (hn : NC (step s o)) (h : Cons s) : Cons (step s o) := by
  unfold step at hn ⊢
  split
  · exact h
  · rename_i hc; rw [hc] at hn; exact cons_applyOp o hn h

theorem run_crashed {s : St} {c : Nat} (h : s.crashed = some c) (ops : List Op) : run s ops = s := by
  induction ops with
  | nil => rfl
  | cons o ops ih =>
    show run (step s o) ops = s
    have : step s o = s := by unfold step; rw [h]
    rw [this]; exact ih

theorem cons_run {s : St} (ops : List Op) (hn : NC (run s ops)) (h : Cons s) : Cons (run s ops) := by
  induction ops generalizing s with
  | nil => exact h
  | cons o ops ih =>
    show Cons (run (step s o) ops)
    have hn' : NC (run (step s o) ops) := hn
    have hs : NC (step s o) := by
      cases hc : (step s o).crashed with
      | none => exact hc
      | some c => rw [run_crashed hc] at hn'; unfold NC at hn'; rw [hc] at hn'; cases hn'
    exact ih hn' (cons_step o hs h)

theorem cons_fresh (s : St) (h1 : s.log = []) (h2 : s.pending = []) (h3 : s.workers = []) (h4 : s.coordQ = []) :
    Cons s := by
  intro x; simp [runs, inflight, accepts, wsum, h1, h2, h3, h4]

end TwistedProps.C49
