import TwistedModel.Threads.Team
/-! Task conservation, for every *key* `κ` = (a set of tasks `κ.tp`, the log event `κ.ev` that marks one of them as done):
    `#done κ` (log) `+ #in-flight κ` (backlog + worker queues + `coord` items of the coordinator queue) `= #accept κ` (log).

    Instances (`runKey`, `resKey`, `errKey`, `logerrKey`):
    * tasks with id `x` / the `run x` events                       → every task is called exactly once;
    * ThreadPool calls `x` with a callback whose `func` had outcome `ok` / the `res x ok` events
                                                                    → every outcome is reported exactly once, with the right flag;
    * tasks `x` whose exception (or whose callback's exception) reaches `Team` / `err x` → logged exactly once;
    * failing calls `x` without callback / `logerr x`               → `log.err` exactly once.

    The lemmas are "crash-robust": each says that IF the procedure's result is not crashed THEN its input was not
    crashed and the counts are related — so no structural invariant is needed here; `no_queue_item_raises`
    discharges the hypothesis at the end. -/
namespace TwistedProps.C49
open Twisted.Threads Twisted.Threads.St

/-- events appended by a worker item (`taskEvents`); every other event comes from the coordinator or a public call -/
def fromTask : Ev → Bool
  | .run _ _ => true
  | .err _ => true
  | .res _ _ => true
  | .logerr _ => true
  | _ => false

/-- what is counted: the tasks `tp`, and the log event `ev` that calling one of them produces exactly once
    (and calling any other task never produces) -/
structure Key where
  tp : Task → Bool
  ev : Ev → Bool
  ev_task : ∀ (t : Task) (w : Nat), (taskEvents t w).countP ev = if tp t then 1 else 0
  ev_other : ∀ e : Ev, fromTask e = false → ev e = false

@[simp] theorem Key.ev_create (κ : Key) (w l : Nat) (lim : Int) : κ.ev (.create w l lim) = false := κ.ev_other _ rfl
@[simp] theorem Key.ev_wquit (κ : Key) (w : Nat) : κ.ev (.wquit w) = false := κ.ev_other _ rfl
@[simp] theorem Key.ev_cquit (κ : Key) : κ.ev .cquit = false := κ.ev_other _ rfl
@[simp] theorem Key.ev_accept (κ : Key) (t : Task) : κ.ev (.accept t) = false := κ.ev_other _ rfl
@[simp] theorem Key.ev_refused (κ : Key) (k : Nat) : κ.ev (.refused k) = false := κ.ev_other _ rfl
@[simp] theorem Key.ev_dropped (κ : Key) (t : Nat) : κ.ev (.dropped t) = false := κ.ev_other _ rfl
@[simp] theorem Key.ev_assertion (κ : Key) : κ.ev .assertion = false := κ.ev_other _ rfl

def cK (κ : Key) : CItem → Bool
  | .coord t => κ.tp t
  | _ => false
def aK (κ : Key) : Ev → Bool
  | .accept t => κ.tp t
  | _ => false

/-- copies of `κ`-tasks sitting in worker queues -/
def wsumK (κ : Key) (ws : List Worker) : Nat := (ws.map (fun w => w.queue.countP κ.tp)).sum
/-- how often a `κ`-task has been done (its event is in the log) -/
def runsK (κ : Key) (s : St) : Nat := s.log.countP κ.ev
/-- copies of `κ`-tasks not yet called: backlog + worker queues + coordinator queue -/
def inflightK (κ : Key) (s : St) : Nat :=
  s.pending.countP κ.tp + wsumK κ s.workers + s.coordQ.countP (cK κ)
/-- how often `Team.do` accepted a `κ`-task -/
def acceptsK (κ : Key) (s : St) : Nat := s.log.countP (aK κ)

/-! the key "task id `x`, `run x` events" -/
def isT (x : Nat) (t : Task) : Bool := t.1 == x
def rE (x : Nat) : Ev → Bool
  | .run t _ => t == x
  | _ => false

theorem rE_task (x : Nat) (t : Task) (w : Nat) : (taskEvents t w).countP (rE x) = if isT x t then 1 else 0 := by
  unfold taskEvents isT
  (repeat' split) <;> simp_all [rE]

def runKey (x : Nat) : Key where
  tp := isT x
  ev := rE x
  ev_task := rE_task x
  ev_other := by intro e h; cases e <;> simp_all [fromTask, rE]

def cT (x : Nat) : CItem → Bool := cK (runKey x)
def aE (x : Nat) : Ev → Bool := aK (runKey x)

/-- copies of task `x` sitting in worker queues -/
def wsum (x : Nat) (ws : List Worker) : Nat := wsumK (runKey x) ws

/-- how often task `x` has been called -/
def runs (x : Nat) (s : St) : Nat := runsK (runKey x) s
/-- copies of task `x` not yet called: backlog + worker queues + coordinator queue -/
def inflight (x : Nat) (s : St) : Nat := inflightK (runKey x) s
/-- how often `Team.do` accepted task `x` -/
def accepts (x : Nat) (s : St) : Nat := acceptsK (runKey x) s

theorem inflight_eq (x : Nat) (s : St) :
    inflight x s = s.pending.countP (isT x) + wsum x s.workers + s.coordQ.countP (cT x) := rfl

def M (κ : Key) (s : St) : Nat := runsK κ s + inflightK κ s

def NC (s : St) : Prop := s.crashed = none

def d (κ : Key) (t : Task) : Nat := if κ.tp t then 1 else 0

theorem countP_isT_single (κ : Key) (t : Task) : List.countP κ.tp [t] = d κ t := by
  simp [List.countP_cons, d]

theorem countP_cons_d (κ : Key) (t : Task) (l : List Task) :
    List.countP κ.tp (t :: l) = List.countP κ.tp l + d κ t := by
  simp [List.countP_cons, d]

theorem countP_cK_coord (κ : Key) (t : Task) (l : List CItem) :
    List.countP (cK κ) (CItem.coord t :: l) = List.countP (cK κ) l + d κ t := by
  cases h : κ.tp t <;> simp [d, cK, h]

theorem countP_cK_single (κ : Key) (t : Task) : List.countP (cK κ) [CItem.coord t] = d κ t := by
  cases h : κ.tp t <;> simp [d, cK, h]

theorem countP_aK_single (κ : Key) (t : Task) : List.countP (aK κ) [Ev.accept t] = d κ t := by
  cases h : κ.tp t <;> simp [d, aK, h]

theorem wsum_set (κ : Key) (l : List Worker) (w : Nat) (wk y : Worker) (h : l[w]? = some wk) :
    wsumK κ (l.set w y) + wk.queue.countP (κ.tp) = wsumK κ l + y.queue.countP (κ.tp) := by
  unfold wsumK
  induction l generalizing w with
  | nil => simp at h
  | cons a l ih =>
    cases w with
    | zero => simp at h; subst h; simp; omega
    | succ w => simp at h; have := ih w h; simp [-List.map_set] at this ⊢; omega

theorem wsum_append_empty (κ : Key) (l : List Worker) : wsumK κ (l ++ [({ } : Worker)]) = wsumK κ l := by
  simp [wsumK]

theorem not_NC_crash (s : St) (c : Nat) : ¬ NC (s.crash c) := by
  unfold NC St.crash; split <;> simp_all

/-- the shape of a lemma about a coordinator procedure `f` whose net effect on `M κ` is `+k` -/
def Keeps (κ : Key) (s s' : St) (k : Nat) : Prop :=
  NC s' → NC s ∧ M κ s' = M κ s + k ∧ acceptsK κ s' = acceptsK κ s

theorem Keeps.refl (κ : Key) (s : St) : Keeps κ s s 0 := fun h => ⟨h, rfl, rfl⟩

theorem Keeps.trans {κ : Key} {a b c : St} {j k : Nat} (h1 : Keeps κ a b j) (h2 : Keeps κ b c k) :
    Keeps κ a c (j + k) := by
  intro h
  obtain ⟨hb, m2, a2⟩ := h2 h
  obtain ⟨ha, m1, a1⟩ := h1 hb
  exact ⟨ha, by omega, by omega⟩

/-- a state change that touches none of the counted fields -/
theorem Keeps.of_eq {κ : Key} {s s' : St} (hc : s'.crashed = s.crashed) (hl : s'.log = s.log)
    (hp : s'.pending = s.pending) (hw : s'.workers = s.workers) (hq : s'.coordQ = s.coordQ) : Keeps κ s s' 0 := by
  intro h
  refine ⟨by unfold NC at *; rw [← hc]; exact h, ?_, ?_⟩
  · simp only [M, runsK, inflightK, hl, hp, hw, hq]; rfl
  · simp only [acceptsK, hl]

theorem keeps_workerDo (κ : Key) (s : St) (w : Nat) (t : Task) : Keeps κ s (s.workerDo w t) (d κ t) := by
  unfold St.workerDo
  split
  · intro h; exact absurd h (not_NC_crash _ _)
  · rename_i wk hw
    split
    · intro h; exact absurd h (not_NC_crash _ _)
    · intro h
      refine ⟨h, ?_, rfl⟩
      have := wsum_set κ s.workers w wk { wk with queue := wk.queue ++ [t] } hw
      simp only [List.countP_append, countP_isT_single] at this
      simp only [M, runsK, inflightK]
      omega

theorem keeps_workerQuit (κ : Key) (s : St) (w : Nat) : Keeps κ s (s.workerQuit w) 0 := by
  unfold St.workerQuit
  split
  · intro h; exact absurd h (not_NC_crash _ _)
  · rename_i wk hw
    split
    · intro h; exact absurd h (not_NC_crash _ _)
    · intro h
      have := wsum_set κ s.workers w wk { wk with quit := true } hw
      dsimp only at this
      refine ⟨h, ?_, ?_⟩
      · simp only [M, runsK, inflightK, St.emit, List.countP_append]
        simp; omega
      · simp [acceptsK, St.emit, aK]

theorem keeps_popIdle {κ : Key} {s s' : St} {w : Nat} (h : s.popIdle = some (w, s')) : Keeps κ s s' 0 := by
  unfold St.popIdle at h
  split at h
  · cases h
  · simp only [Option.some.injEq, Prod.mk.injEq] at h
    rw [← h.2]; exact Keeps.of_eq rfl rfl rfl rfl rfl

theorem keeps_createWorker (κ : Key) (s : St) : Keeps κ s s.createWorker.2 0 := by
  unfold St.createWorker
  split
  · exact Keeps.refl κ s
  · intro h
    refine ⟨h, ?_, ?_⟩
    · simp only [M, runsK, inflightK, St.emit, List.countP_append, wsum_append_empty]
      simp
    · simp [acceptsK, St.emit, aK]

theorem keeps_coordinate (κ : Key) (s : St) (t : Task) : Keeps κ s (s.coordinate t) (d κ t) := by
  unfold St.coordinate
  cases hp : s.popIdle with
  | some r =>
    obtain ⟨w, s1⟩ := r
    simp only
    have h1 := keeps_popIdle (κ := κ) hp
    have h2 : Keeps κ s1 { s1 with busy := s1.busy + 1 } 0 := Keeps.of_eq rfl rfl rfl rfl rfl
    have h3 := keeps_workerDo κ { s1 with busy := s1.busy + 1 } w t
    simpa using (h1.trans h2).trans h3
  | none =>
    simp only
    have hc := keeps_createWorker κ s
    cases hcw : s.createWorker with
    | mk o s1 =>
      rw [hcw] at hc
      cases o with
      | none =>
        simp only
        have h2 : Keeps κ s1 { s1 with pending := s1.pending ++ [t] } (d κ t) := by
          intro h
          refine ⟨h, ?_, rfl⟩
          simp only [M, runsK, inflightK, List.countP_append, countP_isT_single]; omega
        simpa using hc.trans h2
      | some w =>
        simp only
        have h2 : Keeps κ s1 { s1 with busy := s1.busy + 1 } 0 := Keeps.of_eq rfl rfl rfl rfl rfl
        have h3 := keeps_workerDo κ { s1 with busy := s1.busy + 1 } w t
        simpa using (hc.trans h2).trans h3

theorem keeps_quitLoop (κ : Key) (n : Nat) (s : St) : Keeps κ s (quitLoop n s) 0 := by
  induction n generalizing s with
  | zero => exact Keeps.refl κ s
  | succ n ih =>
    unfold quitLoop
    cases hp : s.popIdle with
    | some r =>
      obtain ⟨w, s1⟩ := r
      simp only
      simpa using ((keeps_popIdle (κ := κ) hp).trans (keeps_workerQuit κ s1 w)).trans (ih _)
    | none =>
      simp only
      have h2 : Keeps κ s { s with toShrink := s.toShrink + 1 } 0 := Keeps.of_eq rfl rfl rfl rfl rfl
      simpa using h2.trans (ih _)

theorem keeps_coordinatorQuit (κ : Key) (s : St) : Keeps κ s s.coordinatorQuit 0 := by
  unfold St.coordinatorQuit
  split
  · intro h; exact absurd h (not_NC_crash _ _)
  · intro h
    refine ⟨h, ?_, ?_⟩
    · simp only [M, runsK, inflightK, St.emit, List.countP_append]; simp
    · simp [acceptsK, St.emit, aK]

theorem keeps_quitIdlers (κ : Key) (s : St) (n : Option Nat) : Keeps κ s (s.quitIdlers n) 0 := by
  unfold St.quitIdlers
  have h1 := keeps_quitLoop κ (n.getD (s.idle.length + s.busy)) s
  simp only
  generalize quitLoop (n.getD (s.idle.length + s.busy)) s = s2 at *
  split
  · simpa using h1.trans (keeps_coordinatorQuit κ s2)
  · exact h1

theorem keeps_idleAdd (κ : Key) (s : St) (w : Nat) : Keeps κ s (s.idleAdd w) 0 := by
  unfold St.idleAdd; split
  · exact Keeps.refl κ s
  · exact Keeps.of_eq rfl rfl rfl rfl rfl

theorem keeps_recycle (κ : Key) (s : St) (w : Nat) : Keeps κ s (s.recycle w) 0 := by
  unfold St.recycle
  have h1 := keeps_idleAdd κ s w
  generalize s.idleAdd w = s1 at *
  simp only
  split
  · rename_i t rest hp
    have h3 := keeps_coordinate κ { s1 with pending := rest } t
    intro h
    obtain ⟨h4, m4, a4⟩ := h3 h
    have hM : M κ s1 = M κ { s1 with pending := rest } + d κ t := by
      simp only [M, runsK, inflightK, hp, countP_cons_d]; omega
    obtain ⟨h5, m5, a5⟩ := h1 (show NC s1 from h4)
    have a4' : acceptsK κ { s1 with pending := rest } = acceptsK κ s1 := rfl
    exact ⟨h5, by omega, by omega⟩
  · split
    · simpa using h1.trans (keeps_quitIdlers κ s1 none)
    · split
      · split
        · have h2 : Keeps κ s1 { s1 with toShrink := s1.toShrink - 1, idle := s1.idle.erase w } 0 :=
            Keeps.of_eq rfl rfl rfl rfl rfl
          simpa using (h1.trans h2).trans (keeps_workerQuit κ _ w)
        · intro h; exact absurd h (not_NC_crash _ _)
      · exact h1


theorem keeps_growLoop (κ : Key) (n : Nat) (s : St) : Keeps κ s (growLoop n s) 0 := by
  induction n generalizing s with
  | zero => exact Keeps.refl κ s
  | succ n ih =>
    unfold growLoop
    have hc := keeps_createWorker κ s
    split
    · rename_i s' heq; rw [heq] at hc; exact hc
    · rename_i w s' heq; rw [heq] at hc
      simpa using (hc.trans (keeps_recycle κ s' w)).trans (ih _)

/-- conservation for one state -/
def Cons (s : St) : Prop := ∀ κ : Key, runsK κ s + inflightK κ s = acceptsK κ s

theorem cons_of_keeps {s s' : St} (h : ∀ κ, Keeps κ s s' 0) (hn : NC s') (hc : Cons s) : Cons s' := by
  intro κ
  obtain ⟨_, m, a⟩ := h κ hn
  have := hc κ
  simp only [M] at m; omega

/-- one coordinator item: the `coord` item leaves the queue and its task enters the backlog or a worker queue -/
theorem keeps_stepC (κ : Key) (s : St) : Keeps κ s s.stepC 0 := by
  unfold St.stepC
  split
  · exact Keeps.refl κ s
  · rename_i c rest hq
    have hpop : ∀ (c' : CItem), cK κ c' = false → s.coordQ = c' :: rest → Keeps κ s { s with coordQ := rest } 0 := by
      intro c' hc' hq' h
      refine ⟨h, ?_, rfl⟩
      simp only [M, runsK, inflightK, hq', List.countP_cons, hc']; simp
    cases c with
    | coord t =>
      simp only [St.runC]
      have h3 := keeps_coordinate κ { s with coordQ := rest } t
      intro h
      obtain ⟨h4, m4, a4⟩ := h3 h
      have hM : M κ s = M κ { s with coordQ := rest } + d κ t := by
        simp only [M, runsK, inflightK, hq, countP_cK_coord]; omega
      have a4' : acceptsK κ { s with coordQ := rest } = acceptsK κ s := rfl
      exact ⟨h4, by omega, by omega⟩
    | grow n => simpa [St.runC] using (hpop _ rfl hq).trans (keeps_growLoop κ n _)
    | shrink n => simpa [St.runC] using (hpop _ rfl hq).trans (keeps_quitIdlers κ _ n)
    | recycle w =>
      have h2 : Keeps κ { s with coordQ := rest } { s with coordQ := rest, busy := s.busy - 1 } 0 :=
        Keeps.of_eq rfl rfl rfl rfl rfl
      simpa [St.runC] using ((hpop _ rfl hq).trans h2).trans (keeps_recycle κ _ w)
    | finish =>
      have h2 : Keeps κ { s with coordQ := rest } { s with coordQ := rest, shouldQuit := true } 0 :=
        Keeps.of_eq rfl rfl rfl rfl rfl
      simpa [St.runC] using ((hpop _ rfl hq).trans h2).trans (keeps_quitIdlers κ _ none)

theorem countP_rE_taskEvents (κ : Key) (t : Task) (w : Nat) : (taskEvents t w).countP (κ.ev) = d κ t := by
  unfold d; exact κ.ev_task t w

theorem countP_aE_taskEvents (κ : Key) (t : Task) (w : Nat) : (taskEvents t w).countP (aK κ) = 0 := by
  unfold taskEvents
  (repeat' split) <;> simp [aK]

/-- one worker item: the task leaves the worker's queue and is called (one `run` event) -/
theorem keeps_stepW (κ : Key) (s : St) (w : Nat) : Keeps κ s (s.stepW w) 0 := by
  unfold St.stepW
  split
  · exact Keeps.refl κ s
  · rename_i wk hw
    split
    · exact Keeps.refl κ s
    · rename_i t rest hqe
      simp only [St.coordDo]
      split
      · intro h; exact absurd h (not_NC_crash _ _)
      · intro h
        have := wsum_set κ s.workers w wk { wk with queue := rest } hw
        rw [hqe] at this
        simp only [countP_cons_d] at this
        refine ⟨h, ?_, ?_⟩
        · simp only [M, runsK, inflightK, List.countP_append, countP_rE_taskEvents]
          simp [cK]
          omega
        · simp only [acceptsK, List.countP_append, countP_aE_taskEvents]; rfl

/-! public operations: they only append to the coordinator queue and the log -/

theorem cons_emit {s : St} (e : Ev) (hr : fromTask e = false) (ha : ∀ κ, aK κ e = false) (h : Cons s) :
    Cons (s.emit e) := by
  intro κ
  have := h κ
  have hr' := κ.ev_other e hr
  simp only [runsK, inflightK, acceptsK, St.emit, List.countP_append, List.countP_cons, hr', ha] at *
  simpa using this

theorem cons_append {s : St} (c : CItem) (hc : ∀ κ, cK κ c = false) (h : Cons s) :
    Cons { s with coordQ := s.coordQ ++ [c] } := by
  intro κ
  have := h κ
  simp only [runsK, inflightK, acceptsK, List.countP_append, List.countP_cons, hc] at *
  simpa using this

theorem cons_teamSubmit {s : St} (what : Nat) (c : CItem) (hc : ∀ κ, cK κ c = false) (h : Cons s) :
    Cons (s.teamSubmit what c).1 := by
  unfold St.teamSubmit; split
  · exact cons_emit _ rfl (fun _ => rfl) h
  · exact cons_append c hc h

theorem cons_teamDo {s : St} (t : Task) (h : Cons s) : Cons (s.teamDo t).1 := by
  unfold St.teamDo; split
  · exact cons_emit _ rfl (fun _ => rfl) h
  · intro κ
    have := h κ
    simp only [runsK, inflightK, acceptsK, St.emit, List.countP_append, countP_cK_single, countP_aK_single] at *
    simp
    omega

theorem cons_teamQuit {s : St} (h : Cons s) : Cons s.teamQuit.1 := by
  unfold St.teamQuit; split
  · exact cons_emit _ rfl (fun _ => rfl) h
  · simp only; split
    · exact cons_emit (s := { s with quit := true }) _ rfl (fun _ => rfl) h
    · exact cons_append (s := { s with quit := true }) .finish (fun _ => rfl) h

theorem cons_poolAdjustCore {s : St} (mn mx : Int) (h : Cons s) : Cons (s.poolAdjustCore mn mx).1 := by
  unfold St.poolAdjustCore
  have h0 : Cons { s with pmin := mn, pmax := mx, limit := if s.started then mx else 0 } := h
  generalize ({ s with pmin := mn, pmax := mx, limit := if s.started then mx else 0 } : St) = s0 at h0
  simp only
  split
  · exact h0
  · have h1 : Cons (if s0.poolWorkers > s0.pmax then s0.teamShrink (some (s0.poolWorkers - s0.pmax).toNat) else (s0, true)).1 := by
      split
      · exact cons_teamSubmit _ _ (fun _ => rfl) h0
      · exact h0
    generalize (if s0.poolWorkers > s0.pmax then s0.teamShrink (some (s0.poolWorkers - s0.pmax).toNat) else (s0, true)) = r1 at h1
    split
    · exact h1
    · have h2 : Cons (if r1.1.poolWorkers < r1.1.pmin then r1.1.teamGrow (r1.1.pmin - r1.1.poolWorkers).toNat else r1).1 := by
        split
        · exact cons_teamSubmit _ _ (fun _ => rfl) h1
        · exact h1
      generalize (if r1.1.poolWorkers < r1.1.pmin then r1.1.teamGrow (r1.1.pmin - r1.1.poolWorkers).toNat else r1) = r2 at h2
      split
      · exact h2
      · split
        · exact cons_teamSubmit _ _ (fun _ => rfl) h2
        · exact h2

theorem cons_poolAdjust {s : St} (mn mx : Option Int) (h : Cons s) : Cons (s.poolAdjust mn mx).1 := by
  unfold St.poolAdjust
  simp only
  split
  · exact cons_emit _ rfl (fun _ => rfl) h
  · exact cons_poolAdjustCore _ _ h

theorem cons_applyOp {s : St} (o : Op) (hn : NC (applyOp s o)) (h : Cons s) : Cons (applyOp s o) := by
  cases o with
  | doTask t r => exact cons_teamDo _ h
  | grow n => exact cons_teamSubmit _ _ (fun _ => rfl) h
  | shrink n => exact cons_teamSubmit _ _ (fun _ => rfl) h
  | quit => exact cons_teamQuit h
  | limit l => exact h
  | stepC => exact cons_of_keeps (fun κ => keeps_stepC κ s) hn h
  | stepW w => exact cons_of_keeps (fun κ => keeps_stepW κ s w) hn h
  | any k =>
    revert hn
    show NC (s.stepAny k) → Cons (s.stepAny k)
    unfold St.stepAny
    split
    · exact fun _ => h
    · split
      · exact fun hn => cons_of_keeps (fun κ => keeps_stepC κ s) hn h
      · exact fun hn => cons_of_keeps (fun κ => keeps_stepW κ s _) hn h
  | pStart => exact cons_poolAdjust (s := { s with joined := false, started := true, limit := s.pmax }) none none h
  | pStop => exact cons_teamQuit (s := { s with joined := true, started := false, limit := 0 }) h
  | pCall t r cb =>
    show Cons (s.poolCall t r cb)
    unfold St.poolCall
    split
    · exact cons_emit _ rfl (fun _ => rfl) h
    · exact cons_teamDo _ h
  | pAdjust mn mx => exact cons_poolAdjust mn mx h
  | pStartWorker => exact cons_teamSubmit _ _ (fun _ => rfl) h
  | pStopWorker => exact cons_teamSubmit _ _ (fun _ => rfl) h

theorem cons_step {s : St} (o : Op) (hn : NC (step s o)) (h : Cons s) : Cons (step s o) := by
  unfold step at hn ⊢
  split
  · exact h
  · rename_i hc; rw [hc] at hn; exact cons_applyOp o hn h

theorem run_crashed {s : St} {c : Nat} (h : s.crashed = some c) (ops : List Op) : run s ops = s := by
  induction ops with
  | nil => rfl
  | cons o ops ih =>
    show run (step s o) ops = s
    have : step s o = s := by unfold step; rw [h]
    rw [this]; exact ih

theorem cons_run {s : St} (ops : List Op) (hn : NC (run s ops)) (h : Cons s) : Cons (run s ops) := by
  induction ops generalizing s with
  | nil => exact h
  | cons o ops ih =>
    show Cons (run (step s o) ops)
    have hn' : NC (run (step s o) ops) := hn
    have hs : NC (step s o) := by
      cases hc : (step s o).crashed with
      | none => exact hc
      | some c => rw [run_crashed hc] at hn'; unfold NC at hn'; rw [hc] at hn'; cases hn'
    exact ih hn' (cons_step o hs h)

theorem cons_fresh (s : St) (h1 : s.log = []) (h2 : s.pending = []) (h3 : s.workers = []) (h4 : s.coordQ = []) :
    Cons s := by
  intro κ; simp [runsK, inflightK, acceptsK, wsumK, h1, h2, h3, h4]

end TwistedProps.C49
