import TwistedProps.C49.Basic
/-! Invariants of the Team model: `Core` (structure of idle set / worker queues / recycle items),
    `Mid` (adds the busy count and the quit flags; holds while a coordinator item runs). -/
namespace TwistedProps.C49
open Twisted.Threads Twisted.Threads.St

structure Core (s : St) : Prop where
  nocrash : s.crashed = none
  nodup : s.idle.Nodup
  idleOK : ∀ w ∈ s.idle, ∃ wk : Worker, s.workers[w]? = some wk ∧ wk.quit = false ∧ wk.queue = []
  idleNoRec : ∀ w ∈ s.idle, CItem.recycle w ∉ s.coordQ
  one : ∀ (w : Nat) (wk : Worker), s.workers[w]? = some wk → wk.queue.length + s.coordQ.count (.recycle w) ≤ 1
  recOK : ∀ w, CItem.recycle w ∈ s.coordQ → ∃ wk : Worker, s.workers[w]? = some wk ∧ wk.quit = false
  busyOK : ∀ (w : Nat) (wk : Worker), s.workers[w]? = some wk → wk.queue ≠ [] → wk.quit = false

theorem workerDo_eq {s : St} {w : Nat} {wk : Worker} (t : Task) (hw : s.workers[w]? = some wk)
    (hq : wk.quit = false) :
    s.workerDo w t = { s with workers := s.workers.set w { wk with queue := wk.queue ++ [t] } } := by
  simp [St.workerDo, hw, hq]

theorem workerQuit_eq {s : St} {w : Nat} {wk : Worker} (hw : s.workers[w]? = some wk)
    (hq : wk.quit = false) :
    s.workerQuit w = ({ s with workers := s.workers.set w { wk with quit := true } }).emit (.wquit w) := by
  simp [St.workerQuit, hw, hq]

theorem core_workerDo {s : St} (h : Core s) {w : Nat} {wk : Worker} (t : Task)
    (hw : s.workers[w]? = some wk) (hq : wk.quit = false) (he : wk.queue = [])
    (hni : w ∉ s.idle) (hnr : CItem.recycle w ∉ s.coordQ) : Core (s.workerDo w t) := by
  rw [workerDo_eq t hw hq]
  obtain ⟨h1, h2, h3, h4, h5, h6, h7⟩ := h
  have hc : s.coordQ.count (.recycle w) = 0 := List.count_eq_zero.mpr hnr
  refine ⟨h1, h2, ?_, h4, ?_, ?_, ?_⟩ <;> simp only [he, List.nil_append]
  · intro v hv; have := h3 v hv; grind
  · intro v wk' hv; have := h5 v; grind
  · intro v hv; have := h6 v hv; grind
  · intro v wk' hv; have := h7 v; grind

theorem core_workerQuit {s : St} (h : Core s) {w : Nat} {wk : Worker}
    (hw : s.workers[w]? = some wk) (hq : wk.quit = false) (he : wk.queue = [])
    (hni : w ∉ s.idle) (hnr : CItem.recycle w ∉ s.coordQ) : Core (s.workerQuit w) := by
  rw [workerQuit_eq hw hq]
  obtain ⟨h1, h2, h3, h4, h5, h6, h7⟩ := h
  refine ⟨h1, h2, ?_, h4, ?_, ?_, ?_⟩ <;> simp only [St.emit]
  · intro v hv; have := h3 v hv; grind
  · intro v wk' hv; have := h5 v; grind
  · intro v hv; have := h6 v hv; grind
  · intro v wk' hv; have := h7 v; grind


theorem core_congr {s s' : St} (h : Core s) (h1 : s'.crashed = s.crashed) (h2 : s'.idle = s.idle)
    (h3 : s'.workers = s.workers) (h4 : s'.coordQ = s.coordQ) : Core s' := by
  obtain ⟨a, b, c, d, e, f, g⟩ := h
  exact ⟨by rw [h1]; exact a, by rw [h2]; exact b, by rw [h2, h3]; exact c, by rw [h2, h4]; exact d,
    by rw [h3, h4]; exact e, by rw [h3, h4]; exact f, by rw [h3]; exact g⟩

/-- removing an element from the idle set -/
theorem core_erase {s : St} (h : Core s) (w : Nat) : Core { s with idle := s.idle.erase w } := by
  obtain ⟨h1, h2, h3, h4, h5, h6, h7⟩ := h
  refine ⟨h1, h2.erase w, ?_, ?_, h5, h6, h7⟩
  · intro v hv; exact h3 v (List.mem_of_mem_erase hv)
  · intro v hv; exact h4 v (List.mem_of_mem_erase hv)

theorem core_idleAdd {s : St} (h : Core s) {w : Nat} {wk : Worker}
    (hw : s.workers[w]? = some wk) (hq : wk.quit = false) (he : wk.queue = [])
    (hnr : CItem.recycle w ∉ s.coordQ) : Core (s.idleAdd w) := by
  unfold St.idleAdd
  split
  · exact h
  · rename_i hni
    obtain ⟨h1, h2, h3, h4, h5, h6, h7⟩ := h
    refine ⟨h1, ?_, ?_, ?_, h5, h6, h7⟩
    · simp only; rw [List.nodup_append]; grind
    · intro v hv; simp only [List.mem_append, List.mem_singleton] at hv; grind
    · intro v hv; simp only [List.mem_append, List.mem_singleton] at hv; grind

theorem idleAdd_mem (s : St) (w : Nat) : w ∈ (s.idleAdd w).idle := by
  unfold St.idleAdd; split <;> simp_all

/-- `createWorker` when it makes one: the new worker is the next index, fresh -/
theorem createWorker_some {s s' : St} {w : Nat} (h : s.createWorker = (some w, s')) :
    w = s.workers.length ∧ ((s.busy + s.idle.length : Nat) : Int) < s.limit ∧
    s' = ({ s with workers := s.workers ++ [({ } : Worker)] }).emit
            (.create w (s.busy + s.idle.length) s.limit) := by
  unfold St.createWorker at h
  split at h
  · simp at h
  · simp only [Prod.mk.injEq, Option.some.injEq] at h
    refine ⟨h.1.symm, by omega, ?_⟩
    rw [← h.2, ← h.1]

theorem createWorker_none {s s' : St} (h : s.createWorker = (none, s')) :
    s' = s ∧ ((s.busy + s.idle.length : Nat) : Int) ≥ s.limit := by
  unfold St.createWorker at h
  split at h
  · simp only [Prod.mk.injEq, true_and] at h; exact ⟨h.symm, by assumption⟩
  · simp at h

theorem core_create {s : St} (h : Core s) :
    Core { s with workers := s.workers ++ [({ } : Worker)] } ∧
    s.workers.length ∉ s.idle ∧ CItem.recycle s.workers.length ∉ s.coordQ := by
  obtain ⟨h1, h2, h3, h4, h5, h6, h7⟩ := h
  have hni : s.workers.length ∉ s.idle := by
    intro hm; obtain ⟨wk, hw, _⟩ := h3 _ hm; simp at hw
  have hnr : CItem.recycle s.workers.length ∉ s.coordQ := by
    intro hm; obtain ⟨wk, hw, _⟩ := h6 _ hm; simp at hw
  refine ⟨⟨h1, h2, ?_, h4, ?_, ?_, ?_⟩, hni, hnr⟩
  · intro v hv; have := h3 v hv; grind
  · intro v wk' hv
    have hc : s.coordQ.count (.recycle s.workers.length) = 0 := List.count_eq_zero.mpr hnr
    have := h5 v; grind
  · intro v hv; have := h6 v hv; grind
  · intro v wk' hv; have := h7 v; grind

/-- a worker finished its task: the queue item becomes a recycle item -/
theorem core_stepW {s : St} (h : Core s) {w : Nat} {wk : Worker} {t : Task} {rest : List Task}
    (hw : s.workers[w]? = some wk) (hqe : wk.queue = t :: rest) :
    Core { s with workers := s.workers.set w { wk with queue := rest }, coordQ := s.coordQ ++ [.recycle w] }
    ∧ rest = [] := by
  obtain ⟨h1, h2, h3, h4, h5, h6, h7⟩ := h
  have hr : rest = [] := by
    have := h5 w wk hw; rw [hqe] at this; simp at this
    cases rest with
    | nil => rfl
    | cons a b => simp at this; omega
  have hc : s.coordQ.count (.recycle w) = 0 := by
    have := h5 w wk hw; rw [hqe] at this; simp at this; omega
  have hnq : wk.quit = false := h7 w wk hw (by rw [hqe]; simp)
  have hni : w ∉ s.idle := by
    intro hm; obtain ⟨wk', hw', _, he⟩ := h3 w hm; rw [hw] at hw'; cases hw'; rw [hqe] at he; cases he
  subst hr
  refine ⟨⟨h1, h2, ?_, ?_, ?_, ?_, ?_⟩, rfl⟩
  · intro v hv; have := h3 v hv; grind
  · intro v hv; have := h4 v hv; simp only [List.mem_append, List.mem_singleton]; grind
  · intro v wk' hv
    have := h5 v
    simp only [List.count_append]
    by_cases hvw : v = w
    · subst hvw; simp at hv; grind
    · have : List.count (CItem.recycle v) [CItem.recycle w] = 0 := by
        simp [List.count_singleton]; grind
      grind
  · intro v hv; simp only [List.mem_append, List.mem_singleton] at hv
    have := h6 v; grind
  · intro v wk' hv; have := h7 v; grind

def isRecycle : CItem → Bool
  | .recycle _ => true
  | _ => false

def qsum (s : St) : Nat := (s.workers.map (·.queue.length)).sum
def recs (s : St) : Nat := s.coordQ.countP isRecycle

theorem sum_map_set (l : List Worker) (w : Nat) (wk x : Worker) (h : l[w]? = some wk) :
    ((l.set w x).map (·.queue.length)).sum + wk.queue.length
      = (l.map (·.queue.length)).sum + x.queue.length := by
  induction l generalizing w with
  | nil => simp at h
  | cons a l ih =>
    cases w with
    | zero => simp at h; subst h; simp; omega
    | succ w => simp at h; have := ih w h; simp [-List.map_set]; omega

structure Mid (s : St) : Prop where
  core : Core s
  bsum : s.busy = qsum s + recs s
  sqRec : s.shouldQuit = true → ∀ c ∈ s.coordQ, isRecycle c = true
  cq : s.coordQuit = true → s.shouldQuit = true ∧ s.busy = 0 ∧ s.coordQ = []

/-- what a coordinator procedure leaves alone -/
def Frame (s s' : St) : Prop :=
  s'.quit = s.quit ∧ s'.shouldQuit = s.shouldQuit ∧ s'.coordQ = s.coordQ ∧ s'.limit = s.limit ∧
  (s.shouldQuit = false → s'.coordQuit = s.coordQuit)

theorem Frame.refl (s : St) : Frame s s := ⟨rfl, rfl, rfl, rfl, fun _ => rfl⟩
theorem Frame.trans {a b c : St} (h1 : Frame a b) (h2 : Frame b c) : Frame a c := by
  obtain ⟨a1, a2, a3, a4, a5⟩ := h1
  obtain ⟨b1, b2, b3, b4, b5⟩ := h2
  refine ⟨by rw [b1, a1], by rw [b2, a2], by rw [b3, a3], by rw [b4, a4], ?_⟩
  intro h; rw [b5 (by rw [a2]; exact h), a5 h]

/-- dispatching task `t` to the (valid, unoccupied, non-idle) worker `w` -/
theorem mid_dispatch {s : St} (h : Mid s) (hcq : s.coordQuit = false) {w : Nat} {wk : Worker} (t : Task)
    (hw : s.workers[w]? = some wk) (hq : wk.quit = false) (he : wk.queue = [])
    (hni : w ∉ s.idle) (hnr : CItem.recycle w ∉ s.coordQ) :
    Mid (({ s with busy := s.busy + 1 }).workerDo w t) ∧
    Frame s (({ s with busy := s.busy + 1 }).workerDo w t) ∧
    (({ s with busy := s.busy + 1 }).workerDo w t).coordQuit = false := by
  have hc : Core { s with busy := s.busy + 1 } := core_congr h.core rfl rfl rfl rfl
  have hw' : ({ s with busy := s.busy + 1 } : St).workers[w]? = some wk := hw
  have hcore := core_workerDo hc t hw' hq he hni hnr
  rw [workerDo_eq t hw' hq] at hcore ⊢
  refine ⟨⟨hcore, ?_, h.sqRec, ?_⟩, ⟨rfl, rfl, rfl, rfl, fun _ => rfl⟩, hcq⟩
  · have := sum_map_set s.workers w wk { wk with queue := wk.queue ++ [t] } hw
    have hb := h.bsum
    simp only [qsum, recs] at *
    simp only [he, List.nil_append, List.length_cons, List.length_nil] at this ⊢
    omega
  · intro hx; simp only at hx; rw [hcq] at hx; cases hx

theorem mid_coordinate {s : St} (h : Mid s) (hcq : s.coordQuit = false) (t : Task) :
    Mid (s.coordinate t) ∧ Frame s (s.coordinate t) ∧ (s.coordinate t).coordQuit = false := by
  unfold St.coordinate
  cases hp : s.popIdle with
  | some r =>
    obtain ⟨w, s1⟩ := r
    obtain ⟨hm, hs1⟩ := popIdle_spec h.core.nodup hp
    obtain ⟨wk, hw, hq, he⟩ := h.core.idleOK w hm
    have hnr := h.core.idleNoRec w hm
    have hM1 : Mid s1 := by
      subst hs1
      exact ⟨core_congr (core_erase h.core w) rfl rfl rfl rfl, h.bsum, h.sqRec, h.cq⟩
    have hni : w ∉ s1.idle := by
      subst hs1; simp only; exact fun hx => (List.Nodup.mem_erase_iff h.core.nodup).mp hx |>.1 rfl
    have hF : Frame s s1 := by subst hs1; exact ⟨rfl, rfl, rfl, rfl, fun _ => rfl⟩
    have hw1 : s1.workers[w]? = some wk := by subst hs1; exact hw
    have hnr1 : CItem.recycle w ∉ s1.coordQ := by subst hs1; exact hnr
    have hcq1 : s1.coordQuit = false := by subst hs1; exact hcq
    obtain ⟨a, b, c⟩ := mid_dispatch hM1 hcq1 t hw1 hq he hni hnr1
    exact ⟨a, hF.trans b, c⟩
  | none =>
    simp only
    cases hc : s.createWorker with
    | mk o s1 =>
      cases o with
      | none =>
        obtain ⟨hs1, _⟩ := createWorker_none hc
        subst hs1
        exact ⟨⟨core_congr h.core rfl rfl rfl rfl, h.bsum, h.sqRec, h.cq⟩,
          ⟨rfl, rfl, rfl, rfl, fun _ => rfl⟩, hcq⟩
      | some w =>
        obtain ⟨hwl, _, hs1⟩ := createWorker_some hc
        obtain ⟨hcore, hni, hnr⟩ := core_create h.core
        have hM1 : Mid s1 := by
          subst hs1
          refine ⟨core_congr hcore rfl rfl rfl rfl, ?_, h.sqRec, h.cq⟩
          have := h.bsum; simp only [qsum, recs, St.emit] at *; simp; omega
        have hF : Frame s s1 := by subst hs1; exact ⟨rfl, rfl, rfl, rfl, fun _ => rfl⟩
        have hw1 : s1.workers[w]? = some ({ } : Worker) := by subst hs1; subst hwl; simp [St.emit]
        have hni1 : w ∉ s1.idle := by subst hs1; subst hwl; exact hni
        have hnr1 : CItem.recycle w ∉ s1.coordQ := by subst hs1; subst hwl; exact hnr
        have hcq1 : s1.coordQuit = false := by subst hs1; exact hcq
        obtain ⟨a, b, c⟩ := mid_dispatch hM1 hcq1 t hw1 rfl rfl hni1 hnr1
        exact ⟨a, hF.trans b, c⟩

theorem mid_congr {s s' : St} (h : Mid s) (h1 : s'.crashed = s.crashed) (h2 : s'.idle = s.idle)
    (h3 : s'.workers = s.workers) (h4 : s'.coordQ = s.coordQ) (h5 : s'.busy = s.busy)
    (h6 : s'.shouldQuit = s.shouldQuit) (h7 : s'.coordQuit = s.coordQuit) : Mid s' := by
  refine ⟨core_congr h.core h1 h2 h3 h4, ?_, ?_, ?_⟩
  · have := h.bsum; simp only [qsum, recs] at *; rw [h3, h4, h5]; exact this
  · rw [h6, h4]; exact h.sqRec
  · rw [h7, h6, h5, h4]; exact h.cq

theorem mid_quitLoop {s : St} (h : Mid s) (n : Nat) :
    Mid (quitLoop n s) ∧ Frame s (quitLoop n s) ∧ (quitLoop n s).coordQuit = s.coordQuit ∧
    (quitLoop n s).busy = s.busy ∧ (quitLoop n s).pending = s.pending := by
  induction n generalizing s with
  | zero => exact ⟨h, Frame.refl s, rfl, rfl, rfl⟩
  | succ n ih =>
    unfold quitLoop
    cases hp : s.popIdle with
    | some r =>
      obtain ⟨w, s1⟩ := r
      simp only
      obtain ⟨hm, hs1⟩ := popIdle_spec h.core.nodup hp
      obtain ⟨wk, hw, hq, he⟩ := h.core.idleOK w hm
      have hnr := h.core.idleNoRec w hm
      have hni : w ∉ s.idle.erase w := fun hx => (List.Nodup.mem_erase_iff h.core.nodup).mp hx |>.1 rfl
      have hc1 : Core s1 := by subst hs1; exact core_congr (core_erase h.core w) rfl rfl rfl rfl
      have hw1 : s1.workers[w]? = some wk := by subst hs1; exact hw
      have hcore := core_workerQuit hc1 hw1 hq he (by subst hs1; exact hni) (by subst hs1; exact hnr)
      have hM : Mid (s1.workerQuit w) := by
        refine ⟨hcore, ?_, ?_, ?_⟩
        · rw [workerQuit_eq hw1 hq]
          have := sum_map_set s1.workers w wk { wk with quit := true } hw1
          have hb := h.bsum
          subst hs1
          simp only [qsum, recs, St.emit] at *
          omega
        · rw [workerQuit_eq hw1 hq]; subst hs1; exact h.sqRec
        · rw [workerQuit_eq hw1 hq]; subst hs1; exact h.cq
      obtain ⟨a, b, c, d, e⟩ := ih hM
      have hF : Frame s (s1.workerQuit w) := by
        rw [workerQuit_eq hw1 hq]; subst hs1; exact ⟨rfl, rfl, rfl, rfl, fun _ => rfl⟩
      refine ⟨a, hF.trans b, ?_, ?_, ?_⟩
      · rw [c, workerQuit_eq hw1 hq]; subst hs1; rfl
      · rw [d, workerQuit_eq hw1 hq]; subst hs1; rfl
      · rw [e, workerQuit_eq hw1 hq]; subst hs1; rfl
    | none =>
      simp only
      have hM : Mid { s with toShrink := s.toShrink + 1 } := mid_congr h rfl rfl rfl rfl rfl rfl rfl
      obtain ⟨a, b, c, d, e⟩ := ih hM
      exact ⟨a, (show Frame s { s with toShrink := s.toShrink + 1 } from ⟨rfl, rfl, rfl, rfl, fun _ => rfl⟩).trans b, c, d, e⟩

theorem all_countP_zero {l : List CItem} (h : ∀ c ∈ l, isRecycle c = true) (h0 : l.countP isRecycle = 0) : l = [] := by
  cases l with
  | nil => rfl
  | cons a l => have := h a (by simp); simp [this] at h0

theorem mid_quitIdlers {s : St} (h : Mid s) (hcq : s.coordQuit = false) (n : Option Nat) :
    Mid (s.quitIdlers n) ∧ Frame s (s.quitIdlers n) ∧ (s.quitIdlers n).pending = s.pending := by
  have hq : s.quitIdlers n =
      if ((quitLoop (n.getD (s.idle.length + s.busy)) s).shouldQuit &&
          (quitLoop (n.getD (s.idle.length + s.busy)) s).busy == 0) = true
      then (quitLoop (n.getD (s.idle.length + s.busy)) s).coordinatorQuit
      else quitLoop (n.getD (s.idle.length + s.busy)) s := rfl
  rw [hq]
  obtain ⟨a, b, c, d, e⟩ := mid_quitLoop h (n.getD (s.idle.length + s.busy))
  generalize quitLoop (n.getD (s.idle.length + s.busy)) s = s2 at *
  split
  · rename_i hcond
    simp only [Bool.and_eq_true, beq_iff_eq] at hcond
    unfold St.coordinatorQuit
    rw [c, hcq]
    simp only [Bool.false_eq_true, if_false, St.emit]
    refine ⟨⟨core_congr a.core rfl rfl rfl rfl, a.bsum, a.sqRec, ?_⟩, ?_, e⟩
    · intro _
      refine ⟨hcond.1, hcond.2, ?_⟩
      have hb := a.bsum
      have : recs s2 = 0 := by omega
      exact all_countP_zero (a.sqRec hcond.1) this
    · obtain ⟨b1, b2, b3, b4, b5⟩ := b
      refine ⟨b1, b2, b3, b4, ?_⟩
      intro hx; rw [← b2, hcond.1] at hx; cases hx
  · exact ⟨a, b, e⟩

theorem idleAdd_frame (s : St) (w : Nat) :
    (s.idleAdd w).crashed = s.crashed ∧ (s.idleAdd w).workers = s.workers ∧ (s.idleAdd w).coordQ = s.coordQ ∧
    (s.idleAdd w).busy = s.busy ∧ (s.idleAdd w).shouldQuit = s.shouldQuit ∧ (s.idleAdd w).coordQuit = s.coordQuit ∧
    (s.idleAdd w).quit = s.quit ∧ (s.idleAdd w).limit = s.limit ∧ (s.idleAdd w).pending = s.pending := by
  unfold St.idleAdd; split <;> simp

/-- `_recycleWorker(w)` for a valid, live, unoccupied worker -/
theorem mid_recycle {s : St} (h : Mid s) (hcq : s.coordQuit = false) {w : Nat} {wk : Worker}
    (hw : s.workers[w]? = some wk) (hq : wk.quit = false) (he : wk.queue = [])
    (hnr : CItem.recycle w ∉ s.coordQ) :
    Mid (s.recycle w) ∧ Frame s (s.recycle w) := by
  obtain ⟨f1, f2, f3, f4, f5, f6, f7, f8, f9⟩ := idleAdd_frame s w
  have hM1 : Mid (s.idleAdd w) := by
    refine ⟨core_idleAdd h.core hw hq he hnr, ?_, ?_, ?_⟩
    · have := h.bsum; simp only [qsum, recs] at *; rw [f2, f3, f4]; exact this
    · rw [f5, f3]; exact h.sqRec
    · rw [f6, f5, f4, f3]; exact h.cq
  have hF1 : Frame s (s.idleAdd w) := ⟨f7, f5, f3, f8, fun _ => f6⟩
  have hmem := idleAdd_mem s w
  have hcq1 : (s.idleAdd w).coordQuit = false := by rw [f6]; exact hcq
  have hw1 : (s.idleAdd w).workers[w]? = some wk := by rw [f2]; exact hw
  have hnr1 : CItem.recycle w ∉ (s.idleAdd w).coordQ := by rw [f3]; exact hnr
  unfold St.recycle
  generalize s.idleAdd w = s1 at *
  simp only
  split
  · rename_i t rest hp
    have hM2 : Mid { s1 with pending := rest } := mid_congr hM1 rfl rfl rfl rfl rfl rfl rfl
    obtain ⟨a, b, _⟩ := mid_coordinate hM2 hcq1 t
    exact ⟨a, hF1.trans ((show Frame s1 { s1 with pending := rest } from ⟨rfl, rfl, rfl, rfl, fun _ => rfl⟩).trans b)⟩
  · split
    · obtain ⟨a, b, _⟩ := mid_quitIdlers hM1 hcq1 none
      exact ⟨a, hF1.trans b⟩
    · split
      · have hc2 : Core { s1 with toShrink := s1.toShrink - 1, idle := s1.idle.erase w } :=
          core_congr (core_erase hM1.core w) rfl rfl rfl rfl
        have hni : w ∉ s1.idle.erase w :=
          fun hx => (List.Nodup.mem_erase_iff hM1.core.nodup).mp hx |>.1 rfl
        have hcore := core_workerQuit (s := { s1 with toShrink := s1.toShrink - 1, idle := s1.idle.erase w })
          hc2 hw1 hq he hni hnr1
        rw [workerQuit_eq (s := { s1 with toShrink := s1.toShrink - 1, idle := s1.idle.erase w }) hw1 hq] at hcore ⊢
        refine ⟨⟨hcore, ?_, hM1.sqRec, hM1.cq⟩, hF1.trans ⟨rfl, rfl, rfl, rfl, fun _ => rfl⟩⟩
        have := sum_map_set s1.workers w wk { wk with quit := true } hw1
        have hb := hM1.bsum
        simp only [qsum, recs, St.emit] at *
        omega
      · exact ⟨hM1, hF1⟩

theorem mid_growLoop {s : St} (h : Mid s) (hsq : s.shouldQuit = false) (hcq : s.coordQuit = false) (n : Nat) :
    Mid (growLoop n s) ∧ Frame s (growLoop n s) := by
  induction n generalizing s with
  | zero => exact ⟨h, Frame.refl s⟩
  | succ n ih =>
    unfold growLoop
    cases hc : s.createWorker with
    | mk o s1 =>
      cases o with
      | none =>
        obtain ⟨hs1, _⟩ := createWorker_none hc
        subst hs1; exact ⟨h, Frame.refl _⟩
      | some w =>
        simp only
        obtain ⟨hwl, _, hs1⟩ := createWorker_some hc
        obtain ⟨hcore, hni, hnr⟩ := core_create h.core
        have hM1 : Mid s1 := by
          subst hs1
          refine ⟨core_congr hcore rfl rfl rfl rfl, ?_, h.sqRec, h.cq⟩
          have := h.bsum; simp only [qsum, recs, St.emit] at *; simp; omega
        have hF : Frame s s1 := by subst hs1; exact ⟨rfl, rfl, rfl, rfl, fun _ => rfl⟩
        have hw1 : s1.workers[w]? = some ({ } : Worker) := by subst hs1; subst hwl; simp [St.emit]
        have hnr1 : CItem.recycle w ∉ s1.coordQ := by subst hs1; subst hwl; exact hnr
        have hcq1 : s1.coordQuit = false := by subst hs1; exact hcq
        obtain ⟨a, b⟩ := mid_recycle hM1 hcq1 hw1 rfl rfl hnr1
        have hsq2 : (s1.recycle w).shouldQuit = false := by rw [b.2.1, hF.2.1]; exact hsq
        have hcq2 : (s1.recycle w).coordQuit = false := by
          rw [b.2.2.2.2 (by rw [hF.2.1]; exact hsq)]; exact hcq1
        obtain ⟨c, d⟩ := ih a hsq2 hcq2
        exact ⟨c, hF.trans (b.trans d)⟩

/-- after a `finish` item only recycle items follow -/
def afterFinishOK : List CItem → Bool
  | [] => true
  | .finish :: rest => rest.all isRecycle
  | _ :: rest => afterFinishOK rest

theorem afterFinishOK_of_all {l : List CItem} (h : ∀ c ∈ l, isRecycle c = true) : afterFinishOK l = true := by
  induction l with
  | nil => rfl
  | cons a l ih =>
    have ha := h a (by simp)
    cases a <;> simp [isRecycle] at ha
    simp [afterFinishOK]; exact ih (fun c hc => h c (by simp [hc]))

theorem afterFinishOK_append_rec {l : List CItem} (w : Nat) (h : afterFinishOK l = true) :
    afterFinishOK (l ++ [.recycle w]) = true := by
  induction l with
  | nil => rfl
  | cons a l ih =>
    cases a <;> simp_all [afterFinishOK, isRecycle]

theorem afterFinishOK_append_nofin {l : List CItem} (c : CItem) (h : CItem.finish ∉ l) :
    afterFinishOK (l ++ [c]) = true := by
  induction l with
  | nil => cases c <;> simp [afterFinishOK]
  | cons a l ih =>
    cases a <;> simp_all [afterFinishOK]

structure Inv (s : St) : Prop where
  mid : Mid s
  sqQuit : s.shouldQuit = true → s.quit = true
  noFin : s.quit = false → CItem.finish ∉ s.coordQ
  aft : afterFinishOK s.coordQ = true

theorem Inv.notCoordQuit {s : St} (h : Inv s) (hne : s.coordQ ≠ []) : s.coordQuit = false := by
  cases hq : s.coordQuit with
  | false => rfl
  | true => exact absurd (h.mid.cq hq).2.2 hne

/-- removing the head item of the coordinator queue -/
theorem core_pop {s : St} (h : Core s) {c : CItem} {rest : List CItem} (hq : s.coordQ = c :: rest) :
    Core { s with coordQ := rest } := by
  obtain ⟨h1, h2, h3, h4, h5, h6, h7⟩ := h
  refine ⟨h1, h2, h3, ?_, ?_, ?_, h7⟩
  · intro v hv hx; exact h4 v hv (by rw [hq]; simp [hx])
  · intro v wk hv; have := h5 v wk hv; rw [hq] at this
    have : List.count (CItem.recycle v) rest ≤ List.count (CItem.recycle v) (c :: rest) := by
      simp [List.count_cons]
    simp only; omega
  · intro v hv; exact h6 v (by rw [hq]; simp [hv])

theorem inv_of_mid_frame {s0 s' : St} (a : Mid s') (b : Frame s0 s')
    (hsq : s0.shouldQuit = true → s0.quit = true) (hnf : s0.quit = false → CItem.finish ∉ s0.coordQ)
    (haft : afterFinishOK s0.coordQ = true) : Inv s' := by
  obtain ⟨b1, b2, b3, b4, b5⟩ := b
  exact ⟨a, by rw [b2, b1]; exact hsq, by rw [b1, b3]; exact hnf, by rw [b3]; exact haft⟩

theorem inv_stepC {s : St} (h : Inv s) : Inv s.stepC := by
  unfold St.stepC
  split
  · exact h
  · rename_i c rest hq
    have hcq := h.notCoordQuit (by rw [hq]; simp)
    have hcore := core_pop h.mid.core hq
    have hb := h.mid.bsum
    have haft := h.aft
    rw [hq] at haft
    have hnoFin : s.quit = false → CItem.finish ∉ rest := fun hx hm => h.noFin hx (by rw [hq]; simp [hm])
    -- the state with the head removed satisfies `Mid`, except that a recycle item still counts in `busy`
    have hsq : s.shouldQuit = true → ∀ x ∈ rest, isRecycle x = true :=
      fun hx x hm => h.mid.sqRec hx x (by rw [hq]; simp [hm])
    cases c with
    | coord t =>
      have hM : Mid { s with coordQ := rest } := by
        refine ⟨hcore, ?_, hsq, fun hx => by simp only at hx; rw [hcq] at hx; cases hx⟩
        simp only [qsum, recs, hq] at *; simpa [isRecycle] using hb
      obtain ⟨a, b, _⟩ := mid_coordinate hM hcq t
      exact inv_of_mid_frame a b h.sqQuit hnoFin (by simpa [afterFinishOK] using haft)
    | grow n =>
      have hnsq : s.shouldQuit = false := by
        cases hx : s.shouldQuit with
        | false => rfl
        | true => have := h.mid.sqRec hx (.grow n) (by rw [hq]; simp); simp [isRecycle] at this
      have hM : Mid { s with coordQ := rest } := by
        refine ⟨hcore, ?_, hsq, fun hx => by simp only at hx; rw [hcq] at hx; cases hx⟩
        simp only [qsum, recs, hq] at *; simpa [isRecycle] using hb
      obtain ⟨a, b⟩ := mid_growLoop hM hnsq hcq n
      exact inv_of_mid_frame a b h.sqQuit hnoFin (by simpa [afterFinishOK] using haft)
    | shrink n =>
      have hM : Mid { s with coordQ := rest } := by
        refine ⟨hcore, ?_, hsq, fun hx => by simp only at hx; rw [hcq] at hx; cases hx⟩
        simp only [qsum, recs, hq] at *; simpa [isRecycle] using hb
      obtain ⟨a, b, _⟩ := mid_quitIdlers hM hcq n
      exact inv_of_mid_frame a b h.sqQuit hnoFin (by simpa [afterFinishOK] using haft)
    | recycle w =>
      obtain ⟨wk, hw, hwq⟩ := h.mid.core.recOK w (by rw [hq]; simp)
      have hone := h.mid.core.one w wk hw
      rw [hq] at hone
      simp only [List.count_cons_self] at hone
      have hwe : wk.queue = [] := by
        cases hx : wk.queue with
        | nil => rfl
        | cons a b => rw [hx] at hone; simp at hone; omega
      have hnr : CItem.recycle w ∉ rest := by
        intro hm; have := List.count_pos_iff.mpr hm; omega
      have hM : Mid { s with coordQ := rest, busy := s.busy - 1 } := by
        refine ⟨core_congr hcore rfl rfl rfl rfl, ?_, hsq, fun hx => by simp only at hx; rw [hcq] at hx; cases hx⟩
        have hrec : (CItem.recycle w :: rest).countP isRecycle = rest.countP isRecycle + 1 := by
          rw [List.countP_cons]; rfl
        have hb' : s.busy = (s.workers.map (·.queue.length)).sum + (CItem.recycle w :: rest).countP isRecycle := by
          rw [← hq]; exact hb
        show s.busy - 1 = (s.workers.map (·.queue.length)).sum + rest.countP isRecycle
        omega
      obtain ⟨a, b⟩ := mid_recycle (s := { s with coordQ := rest, busy := s.busy - 1 }) hM hcq hw hwq hwe hnr
      exact inv_of_mid_frame a b h.sqQuit hnoFin (by simpa [afterFinishOK] using haft)
    | finish =>
      have hquit : s.quit = true := by
        cases hx : s.quit with
        | true => rfl
        | false => exact absurd (by rw [hq]; simp) (h.noFin hx)
      have hall : ∀ x ∈ rest, isRecycle x = true := by
        simpa [afterFinishOK, List.all_eq_true] using haft
      have hM : Mid { s with coordQ := rest, shouldQuit := true } := by
        refine ⟨core_congr hcore rfl rfl rfl rfl, ?_, fun _ => hall, fun hx => by simp only at hx; rw [hcq] at hx; cases hx⟩
        simp only [qsum, recs, hq] at *; simpa [isRecycle] using hb
      obtain ⟨a, b, _⟩ := mid_quitIdlers (s := { s with coordQ := rest, shouldQuit := true }) hM hcq none
      exact inv_of_mid_frame a b (fun _ => hquit) (fun hx => by simp only at hx; rw [hquit] at hx; cases hx)
        (afterFinishOK_of_all hall)

theorem inv_congr {s s' : St} (h : Inv s) (h1 : s'.crashed = s.crashed) (h2 : s'.idle = s.idle)
    (h3 : s'.workers = s.workers) (h4 : s'.coordQ = s.coordQ) (h5 : s'.busy = s.busy)
    (h6 : s'.shouldQuit = s.shouldQuit) (h7 : s'.coordQuit = s.coordQuit) (h8 : s'.quit = s.quit) : Inv s' :=
  ⟨mid_congr h.mid h1 h2 h3 h4 h5 h6 h7, by rw [h6, h8]; exact h.sqQuit, by rw [h8, h4]; exact h.noFin,
    by rw [h4]; exact h.aft⟩

theorem inv_stepW {s : St} (h : Inv s) (w : Nat) : Inv (s.stepW w) := by
  unfold St.stepW
  split
  · exact h
  · rename_i wk hw
    split
    · exact h
    · rename_i t rest hqe
      obtain ⟨hcore, hr⟩ := core_stepW h.mid.core hw hqe
      have hsum := sum_map_set s.workers w wk { wk with queue := rest } hw
      have hb := h.mid.bsum
      simp only [qsum, recs] at hb
      rw [hqe] at hsum
      simp only [List.length_cons] at hsum
      have hbpos : s.busy ≠ 0 := by omega
      have hcq : s.coordQuit = false := by
        cases hx : s.coordQuit with
        | false => rfl
        | true => exact absurd (h.mid.cq hx).2.1 hbpos
      simp only [St.coordDo, hcq, Bool.false_eq_true, if_false]
      refine ⟨⟨core_congr hcore rfl rfl rfl rfl, ?_, ?_, ?_⟩, h.sqQuit, ?_, ?_⟩
      · simp only [qsum, recs, List.countP_append]
        have : List.countP isRecycle [CItem.recycle w] = 1 := rfl
        omega
      · intro hx c hc
        simp only [List.mem_append, List.mem_singleton] at hc
        rcases hc with hc | hc
        · exact h.mid.sqRec hx c hc
        · subst hc; rfl
      · intro hx; simp at hx
      · intro hx hm
        simp only [List.mem_append, List.mem_singleton] at hm
        rcases hm with hm | hm
        · exact h.noFin hx hm
        · cases hm
      · exact afterFinishOK_append_rec w h.aft

theorem inv_stepAny {s : St} (h : Inv s) (k : Nat) : Inv (s.stepAny k) := by
  unfold St.stepAny
  split
  · exact h
  · split
    · exact inv_stepC h
    · exact inv_stepW h _

/-- appending a non-recycle item -/
theorem mid_append {s : St} (h : Mid s) (c : CItem) (hc : isRecycle c = false)
    (hsq : s.shouldQuit = false) (hcq : s.coordQuit = false) : Mid { s with coordQ := s.coordQ ++ [c] } := by
  obtain ⟨h1, h2, h3, h4, h5, h6, h7⟩ := h.core
  have hnr : ∀ v, c ≠ CItem.recycle v := by intro v hx; subst hx; simp [isRecycle] at hc
  refine ⟨⟨h1, h2, h3, ?_, ?_, ?_, h7⟩, ?_, ?_, ?_⟩
  · intro v hv hm; simp only [List.mem_append, List.mem_singleton] at hm
    rcases hm with hm | hm
    · exact h4 v hv hm
    · exact hnr v hm.symm
  · intro v wk hv
    have := h5 v wk hv
    simp only [List.count_append]
    have : List.count (CItem.recycle v) [c] = 0 := by
      simp [List.count_singleton]; exact fun hx => hnr v hx
    omega
  · intro v hm; simp only [List.mem_append, List.mem_singleton] at hm
    rcases hm with hm | hm
    · exact h6 v hm
    · exact absurd hm.symm (hnr v)
  · have := h.bsum
    simp only [qsum, recs, List.countP_append] at *
    have : List.countP isRecycle [c] = 0 := by simp [hc]
    omega
  · intro hx; simp only at hx; rw [hsq] at hx; cases hx
  · intro hx; simp only at hx; rw [hcq] at hx; cases hx

theorem Inv.notShouldQuit {s : St} (h : Inv s) (hq : s.quit = false) : s.shouldQuit = false := by
  cases hx : s.shouldQuit with
  | false => rfl
  | true => have := h.sqQuit hx; rw [hq] at this; cases this

theorem Inv.notCoordQuit' {s : St} (h : Inv s) (hq : s.quit = false) : s.coordQuit = false := by
  cases hx : s.coordQuit with
  | false => rfl
  | true => have := (h.mid.cq hx).1; rw [h.notShouldQuit hq] at this; cases this

theorem inv_submit {s : St} (h : Inv s) (c : CItem) (hc : isRecycle c = false) (hcf : c ≠ .finish)
    (hq : s.quit = false) (hcq : s.coordQuit = false) : Inv { s with coordQ := s.coordQ ++ [c] } := by
  refine ⟨mid_append h.mid c hc (h.notShouldQuit hq) hcq, h.sqQuit, ?_, afterFinishOK_append_nofin c (h.noFin hq)⟩
  intro _ hm; simp only [List.mem_append, List.mem_singleton] at hm
  rcases hm with hm | hm
  · exact h.noFin hq hm
  · exact hcf hm.symm

theorem inv_emit {s : St} (h : Inv s) (e : Ev) : Inv (s.emit e) := inv_congr h rfl rfl rfl rfl rfl rfl rfl rfl

theorem inv_teamSubmit {s : St} (h : Inv s) (what : Nat) (c : CItem) (hc : isRecycle c = false) (hcf : c ≠ .finish) :
    Inv (s.teamSubmit what c).1 := by
  unfold St.teamSubmit
  split
  · exact inv_emit h _
  · rename_i hx
    simp only [Bool.or_eq_true, not_or, Bool.not_eq_true] at hx
    exact inv_submit h c hc hcf hx.1 hx.2

theorem inv_teamDo {s : St} (h : Inv s) (t : Task) : Inv (s.teamDo t).1 := by
  unfold St.teamDo
  split
  · exact inv_emit h _
  · rename_i hx
    simp only [Bool.or_eq_true, not_or, Bool.not_eq_true] at hx
    exact inv_emit (inv_submit h (.coord t) rfl (by simp) hx.1 hx.2) _

theorem inv_teamGrow {s : St} (h : Inv s) (n : Nat) : Inv (s.teamGrow n).1 :=
  inv_teamSubmit h 1 (.grow n) rfl (by simp)
theorem inv_teamShrink {s : St} (h : Inv s) (n : Option Nat) : Inv (s.teamShrink n).1 :=
  inv_teamSubmit h 2 (.shrink n) rfl (by simp)

theorem inv_teamQuit {s : St} (h : Inv s) : Inv s.teamQuit.1 := by
  unfold St.teamQuit
  split
  · exact inv_emit h _
  · rename_i hq
    simp only [Bool.not_eq_true] at hq
    have hcq := h.notCoordQuit' hq
    simp only [hcq, Bool.false_eq_true, if_false]
    have hM := mid_append h.mid .finish rfl (h.notShouldQuit hq) hcq
    refine ⟨mid_congr hM rfl rfl rfl rfl rfl rfl (by simp only; exact hcq.symm), fun _ => rfl, ?_,
      afterFinishOK_append_nofin _ (h.noFin hq)⟩
    intro hx; cases hx

theorem inv_limit {s : St} (h : Inv s) (l : Int) : Inv { s with limit := l } :=
  inv_congr h rfl rfl rfl rfl rfl rfl rfl rfl

theorem inv_poolAdjustCore {s : St} (h : Inv s) (mn mx : Int) : Inv (s.poolAdjustCore mn mx).1 := by
  unfold St.poolAdjustCore
  have h0 : Inv { s with pmin := mn, pmax := mx, limit := if s.started then mx else 0 } :=
    inv_congr h rfl rfl rfl rfl rfl rfl rfl rfl
  generalize ({ s with pmin := mn, pmax := mx, limit := if s.started then mx else 0 } : St) = s0 at h0
  simp only
  split
  · exact h0
  · have h1 : Inv (if s0.poolWorkers > s0.pmax then s0.teamShrink (some (s0.poolWorkers - s0.pmax).toNat) else (s0, true)).1 := by
      split
      · exact inv_teamShrink h0 _
      · exact h0
    generalize (if s0.poolWorkers > s0.pmax then s0.teamShrink (some (s0.poolWorkers - s0.pmax).toNat) else (s0, true)) = r1 at h1
    split
    · exact h1
    · have h2 : Inv (if r1.1.poolWorkers < r1.1.pmin then r1.1.teamGrow (r1.1.pmin - r1.1.poolWorkers).toNat else r1).1 := by
        split
        · exact inv_teamGrow h1 _
        · exact h1
      generalize (if r1.1.poolWorkers < r1.1.pmin then r1.1.teamGrow (r1.1.pmin - r1.1.poolWorkers).toNat else r1) = r2 at h2
      split
      · exact h2
      · split
        · exact inv_teamGrow h2 _
        · exact h2

theorem inv_poolAdjust {s : St} (h : Inv s) (mn mx : Option Int) : Inv (s.poolAdjust mn mx).1 := by
  unfold St.poolAdjust
  simp only
  split
  · exact inv_emit h _
  · exact inv_poolAdjustCore h _ _

theorem inv_applyOp {s : St} (h : Inv s) (o : Op) : Inv (applyOp s o) := by
  cases o with
  | doTask t r => exact inv_teamDo h _
  | grow n => exact inv_teamGrow h n
  | shrink n => exact inv_teamShrink h n
  | quit => exact inv_teamQuit h
  | limit l => exact inv_limit h l
  | stepC => exact inv_stepC h
  | stepW w => exact inv_stepW h w
  | any k => exact inv_stepAny h k
  | pStart =>
    exact inv_poolAdjust (s := { s with joined := false, started := true, limit := s.pmax })
      (inv_congr h rfl rfl rfl rfl rfl rfl rfl rfl) none none
  | pStop =>
    exact inv_teamQuit (s := { s with joined := true, started := false, limit := 0 })
      (inv_congr h rfl rfl rfl rfl rfl rfl rfl rfl)
  | pCall t r cb =>
    show Inv (s.poolCall t r cb)
    unfold St.poolCall
    split
    · exact inv_emit h _
    · exact inv_teamDo h _
  | pAdjust mn mx => exact inv_poolAdjust h mn mx
  | pStartWorker => exact inv_teamGrow h 1
  | pStopWorker => exact inv_teamShrink h (some 1)

theorem inv_step {s : St} (h : Inv s) (o : Op) : Inv (step s o) := by
  unfold step; split
  · exact h
  · exact inv_applyOp h o

theorem inv_run {s : St} (h : Inv s) (ops : List Op) : Inv (run s ops) := by
  induction ops generalizing s with
  | nil => exact h
  | cons o ops ih => exact ih (inv_step h o)

theorem inv_fresh (s : St) (h1 : s.crashed = none) (h2 : s.idle = []) (h3 : s.workers = []) (h4 : s.coordQ = [])
    (h5 : s.busy = 0) (h6 : s.shouldQuit = false) (h7 : s.coordQuit = false) : Inv s := by
  refine ⟨⟨⟨h1, by rw [h2]; exact List.nodup_nil, by rw [h2]; simp, by rw [h2]; simp, by rw [h3]; simp,
    by rw [h4]; simp, by rw [h3]; simp⟩, by simp [qsum, recs, h3, h4, h5], by rw [h6]; simp, by rw [h7]; simp⟩,
    by rw [h6]; simp, by rw [h4]; simp, by rw [h4]; rfl⟩

theorem inv_init (l : Int) (ch : List Nat) : Inv (init l ch) := inv_fresh _ rfl rfl rfl rfl rfl rfl rfl
theorem inv_initPool (mn mx : Int) (ch : List Nat) : Inv (initPool mn mx ch) :=
  inv_fresh _ rfl rfl rfl rfl rfl rfl rfl

end TwistedProps.C49
