import TwistedProps.C49.Basic
/-! What each coordinator procedure does to the bookkeeping fields (`idle` length, `busy`, `pending`, the flags).
    None of this needs an invariant: a `crash` only touches `crashed`, worker calls only touch `workers`/`log`. -/
namespace TwistedProps.C49
open Twisted.Threads Twisted.Threads.St

/-- forget the worker table, the log and the crash marker -/
def abs (s : St) : St := { s with workers := [], log := [], crashed := none }

/-- `limitedWorkerCreator` would return `None` now -/
def refuses (s : St) : Prop := ((s.busy + s.idle.length : Nat) : Int) ≥ s.limit

instance (s : St) : Decidable (refuses s) := by unfold refuses; infer_instance

@[simp] theorem abs_crash (s : St) (c : Nat) : abs (s.crash c) = abs s := by
  unfold St.crash; split <;> rfl

@[simp] theorem abs_emit (s : St) (e : Ev) : abs (s.emit e) = abs s := rfl

@[simp] theorem abs_workerDo (s : St) (w : Nat) (t : Task) : abs (s.workerDo w t) = abs s := by
  unfold St.workerDo; split
  · simp
  · split
    · simp
    · rfl

@[simp] theorem abs_workerQuit (s : St) (w : Nat) : abs (s.workerQuit w) = abs s := by
  unfold St.workerQuit; split
  · simp
  · split
    · simp
    · rfl

theorem abs_idle {s s' : St} (h : abs s' = abs s) : s'.idle = s.idle := by
  have := congrArg St.idle h; exact this
theorem abs_busy {s s' : St} (h : abs s' = abs s) : s'.busy = s.busy := by
  have := congrArg St.busy h; exact this
theorem abs_pending {s s' : St} (h : abs s' = abs s) : s'.pending = s.pending := by
  have := congrArg St.pending h; exact this
theorem abs_limit {s s' : St} (h : abs s' = abs s) : s'.limit = s.limit := by
  have := congrArg St.limit h; exact this
theorem abs_shouldQuit {s s' : St} (h : abs s' = abs s) : s'.shouldQuit = s.shouldQuit := by
  have := congrArg St.shouldQuit h; exact this
theorem abs_coordQuit {s s' : St} (h : abs s' = abs s) : s'.coordQuit = s.coordQuit := by
  have := congrArg St.coordQuit h; exact this
theorem abs_coordQ {s s' : St} (h : abs s' = abs s) : s'.coordQ = s.coordQ := by
  have := congrArg St.coordQ h; exact this
theorem abs_quit {s s' : St} (h : abs s' = abs s) : s'.quit = s.quit := by
  have := congrArg St.quit h; exact this
theorem abs_toShrink {s s' : St} (h : abs s' = abs s) : s'.toShrink = s.toShrink := by
  have := congrArg St.toShrink h; exact this
theorem abs_pmin {s s' : St} (h : abs s' = abs s) : s'.pmin = s.pmin := by
  have := congrArg St.pmin h; exact this
theorem abs_pmax {s s' : St} (h : abs s' = abs s) : s'.pmax = s.pmax := by
  have := congrArg St.pmax h; exact this
theorem abs_started {s s' : St} (h : abs s' = abs s) : s'.started = s.started := by
  have := congrArg St.started h; exact this

/-- the fields that only public calls change -/
def Pub (s s' : St) : Prop :=
  s'.limit = s.limit ∧ s'.quit = s.quit ∧ s'.coordQ = s.coordQ ∧ s'.pmin = s.pmin ∧ s'.pmax = s.pmax ∧
  s'.started = s.started

theorem Pub.refl (s : St) : Pub s s := ⟨rfl, rfl, rfl, rfl, rfl, rfl⟩
theorem Pub.trans {a b c : St} (h1 : Pub a b) (h2 : Pub b c) : Pub a c := by
  obtain ⟨a1, a2, a3, a4, a5, a6⟩ := h1
  obtain ⟨b1, b2, b3, b4, b5, b6⟩ := h2
  exact ⟨by rw [b1, a1], by rw [b2, a2], by rw [b3, a3], by rw [b4, a4], by rw [b5, a5], by rw [b6, a6]⟩
theorem Pub.of_abs {s s' : St} (h : abs s' = abs s) : Pub s s' :=
  ⟨abs_limit h, abs_quit h, abs_coordQ h, abs_pmin h, abs_pmax h, abs_started h⟩

theorem pubBusy (s : St) (b : Nat) : Pub s { s with busy := b } := ⟨rfl, rfl, rfl, rfl, rfl, rfl⟩
theorem pubPending (s : St) (p : List Task) : Pub s { s with pending := p } := ⟨rfl, rfl, rfl, rfl, rfl, rfl⟩

/-- `set.pop()` on a non-empty set: one element less, nothing else -/
theorem popIdle_fields {s s' : St} {w : Nat} (h : s.popIdle = some (w, s')) :
    s.idle ≠ [] ∧ s'.idle.length + 1 = s.idle.length := by
  unfold St.popIdle at h
  split at h
  · cases h
  · rename_i i rest hi
    simp only [Option.some.injEq, Prod.mk.injEq] at h
    have hlt : s.choices.headD 0 % (i :: rest).length < (i :: rest).length := Nat.mod_lt _ (by simp)
    refine ⟨by rw [hi]; simp, ?_⟩
    rw [← h.2, hi]; simp only [List.length_eraseIdx, hlt, if_true]; simp

theorem popIdle_busy {s s' : St} {w : Nat} (h : s.popIdle = some (w, s')) :
    s'.busy = s.busy ∧ s'.pending = s.pending ∧ s'.shouldQuit = s.shouldQuit ∧ s'.coordQuit = s.coordQuit ∧
    s'.toShrink = s.toShrink ∧ Pub s s' := by
  unfold St.popIdle at h
  split at h
  · cases h
  · simp only [Option.some.injEq, Prod.mk.injEq] at h
    rw [← h.2]
    exact ⟨rfl, rfl, rfl, rfl, rfl, rfl, rfl, rfl, rfl, rfl, rfl⟩

theorem coordinatorQuit_fields (s : St) :
    s.coordinatorQuit.coordQuit = true ∧ s.coordinatorQuit.idle = s.idle ∧ s.coordinatorQuit.busy = s.busy ∧
    s.coordinatorQuit.pending = s.pending ∧ s.coordinatorQuit.shouldQuit = s.shouldQuit ∧
    Pub s s.coordinatorQuit := by
  unfold St.coordinatorQuit
  split
  · rename_i hx
    have ha := abs_crash s 2
    exact ⟨by rw [abs_coordQuit ha]; exact hx, abs_idle ha, abs_busy ha, abs_pending ha, abs_shouldQuit ha,
      Pub.of_abs ha⟩
  · exact ⟨rfl, rfl, rfl, rfl, rfl, rfl, rfl, rfl, rfl, rfl, rfl⟩

theorem createWorker_abs (s : St) : abs s.createWorker.2 = abs s := by
  unfold St.createWorker; split <;> rfl

theorem createWorker_refuses (s : St) : (s.createWorker.1 = none ↔ refuses s) := by
  unfold St.createWorker refuses; split <;> simp_all

/-- `_coordinateThisTask`: an idle worker, else a new one, else the backlog -/
theorem coordinate_fields (s : St) (t : Task) :
    (s.coordinate t).shouldQuit = s.shouldQuit ∧ (s.coordinate t).coordQuit = s.coordQuit ∧
    (s.coordinate t).toShrink = s.toShrink ∧ Pub s (s.coordinate t) ∧
    ((s.idle ≠ [] ∧ (s.coordinate t).idle.length + 1 = s.idle.length ∧ (s.coordinate t).busy = s.busy + 1 ∧
        (s.coordinate t).pending = s.pending) ∨
     (s.idle = [] ∧ refuses s ∧ (s.coordinate t).idle = [] ∧ (s.coordinate t).busy = s.busy ∧
        (s.coordinate t).pending = s.pending ++ [t]) ∨
     (s.idle = [] ∧ ¬ refuses s ∧ (s.coordinate t).idle = [] ∧ (s.coordinate t).busy = s.busy + 1 ∧
        (s.coordinate t).pending = s.pending)) := by
  unfold St.coordinate
  cases hp : s.popIdle with
  | some r =>
    obtain ⟨w, s1⟩ := r
    simp only
    obtain ⟨h1, h2⟩ := popIdle_fields hp
    obtain ⟨b1, b2, b3, b4, b5, b6⟩ := popIdle_busy hp
    have ha : abs (({ s1 with busy := s1.busy + 1 }).workerDo w t) = abs { s1 with busy := s1.busy + 1 } := abs_workerDo _ _ _
    refine ⟨by rw [abs_shouldQuit ha]; exact b3, by rw [abs_coordQuit ha]; exact b4, by rw [abs_toShrink ha]; exact b5,
      (b6.trans (pubBusy s1 _)).trans (Pub.of_abs ha), Or.inl ⟨h1, ?_, ?_, ?_⟩⟩
    · rw [abs_idle ha]; exact h2
    · rw [abs_busy ha]; simp only; rw [b1]
    · rw [abs_pending ha]; exact b2
  | none =>
    have hi := popIdle_none.mp hp
    simp only
    have hc := createWorker_abs s
    have hr := createWorker_refuses s
    cases hcw : s.createWorker with
    | mk o s1 =>
      rw [hcw] at hc hr
      cases o with
      | none =>
        simp only
        have hr' := hr.mp rfl
        refine ⟨abs_shouldQuit hc, abs_coordQuit hc, abs_toShrink hc, (Pub.of_abs hc).trans (pubPending s1 _), Or.inr (Or.inl ⟨hi, hr', ?_, abs_busy hc, ?_⟩)⟩
        · show s1.idle = []; rw [abs_idle hc]; exact hi
        · show s1.pending ++ [t] = _; rw [abs_pending hc]
      | some w =>
        simp only
        have hr' : ¬ refuses s := fun hx => by have := hr.mpr hx; simp at this
        have ha : abs (({ s1 with busy := s1.busy + 1 }).workerDo w t) = abs { s1 with busy := s1.busy + 1 } := abs_workerDo _ _ _
        have hc' : abs s1 = abs s := hc
        have e1 := abs_shouldQuit hc'
        have e2 := abs_coordQuit hc'
        have e3 := abs_toShrink hc'
        have e4 := abs_idle hc'
        have e5 := abs_busy hc'
        have e6 := abs_pending hc'
        refine ⟨by rw [abs_shouldQuit ha]; exact e1, by rw [abs_coordQuit ha]; exact e2,
          by rw [abs_toShrink ha]; exact e3,
          ((Pub.of_abs hc').trans (pubBusy s1 _)).trans (Pub.of_abs ha), Or.inr (Or.inr ⟨hi, hr', ?_, ?_, ?_⟩)⟩
        · rw [abs_idle ha]; show s1.idle = []; rw [e4]; exact hi
        · rw [abs_busy ha]; show s1.busy + 1 = _; rw [e5]
        · rw [abs_pending ha]; exact e6

/-- the loop of `_quitIdlers`: pops up to `n` idle workers -/
theorem quitLoop_fields (n : Nat) (s : St) :
    (quitLoop n s).idle.length = s.idle.length - n ∧ (quitLoop n s).busy = s.busy ∧
    (quitLoop n s).pending = s.pending ∧ (quitLoop n s).shouldQuit = s.shouldQuit ∧
    (quitLoop n s).coordQuit = s.coordQuit ∧ Pub s (quitLoop n s) := by
  induction n generalizing s with
  | zero => exact ⟨rfl, rfl, rfl, rfl, rfl, Pub.refl s⟩
  | succ n ih =>
    unfold quitLoop
    cases hp : s.popIdle with
    | some r =>
      obtain ⟨w, s1⟩ := r
      simp only
      obtain ⟨h1, h2⟩ := popIdle_fields hp
      obtain ⟨b1, b2, b3, b4, b5, b6⟩ := popIdle_busy hp
      have ha := abs_workerQuit s1 w
      obtain ⟨i1, i2, i3, i4, i5, i6⟩ := ih (s1.workerQuit w)
      refine ⟨?_, ?_, ?_, ?_, ?_, (b6.trans (Pub.of_abs ha)).trans i6⟩
      · rw [i1, abs_idle ha]; omega
      · rw [i2, abs_busy ha, b1]
      · rw [i3, abs_pending ha, b2]
      · rw [i4, abs_shouldQuit ha, b3]
      · rw [i5, abs_coordQuit ha, b4]
    | none =>
      have hi := popIdle_none.mp hp
      simp only
      obtain ⟨i1, i2, i3, i4, i5, i6⟩ := ih { s with toShrink := s.toShrink + 1 }
      refine ⟨?_, i2, i3, i4, i5, i6⟩
      rw [i1]; simp [hi]

/-- `_quitIdlers(n)`: the loop, then the coordinator is quit iff `_shouldQuitCoordinator` and nothing is busy -/
theorem quitIdlers_fields (s : St) (n : Option Nat) :
    (s.quitIdlers n).idle.length = s.idle.length - n.getD (s.idle.length + s.busy) ∧
    (s.quitIdlers n).busy = s.busy ∧ (s.quitIdlers n).pending = s.pending ∧
    (s.quitIdlers n).shouldQuit = s.shouldQuit ∧
    (s.quitIdlers n).coordQuit = (s.coordQuit || (s.shouldQuit && s.busy == 0)) ∧ Pub s (s.quitIdlers n) := by
  unfold St.quitIdlers
  obtain ⟨i1, i2, i3, i4, i5, i6⟩ := quitLoop_fields (n.getD (s.idle.length + s.busy)) s
  simp only
  generalize quitLoop (n.getD (s.idle.length + s.busy)) s = s2 at *
  split
  · rename_i hc
    obtain ⟨c1, c2, c3, c4, c5, c6⟩ := coordinatorQuit_fields s2
    rw [i4, i2] at hc
    refine ⟨by rw [c2]; exact i1, by rw [c3]; exact i2, by rw [c4]; exact i3, by rw [c5]; exact i4, ?_, i6.trans c6⟩
    rw [c1, hc]; simp
  · rename_i hc
    rw [i4, i2] at hc
    refine ⟨i1, i2, i3, i4, ?_, i6⟩
    rw [i5]; simp only [Bool.not_eq_true] at hc; rw [hc]; simp


theorem idleAdd_fields (s : St) (w : Nat) (hni : w ∉ s.idle) :
    (s.idleAdd w).idle = s.idle ++ [w] ∧ (s.idleAdd w).busy = s.busy ∧ (s.idleAdd w).pending = s.pending ∧
    (s.idleAdd w).shouldQuit = s.shouldQuit ∧ (s.idleAdd w).coordQuit = s.coordQuit ∧
    (s.idleAdd w).toShrink = s.toShrink ∧ Pub s (s.idleAdd w) := by
  unfold St.idleAdd; rw [if_neg hni]
  exact ⟨rfl, rfl, rfl, rfl, rfl, rfl, rfl, rfl, rfl, rfl, rfl, rfl⟩

/-- `_recycleWorker(w)` for a worker that is not in the idle set -/
theorem recycle_fields (s : St) (w : Nat) (hni : w ∉ s.idle) :
    (s.recycle w).shouldQuit = s.shouldQuit ∧ Pub s (s.recycle w) ∧
    ((∃ t rest, s.pending = t :: rest ∧ (s.recycle w).pending = rest ∧
        (s.recycle w).idle.length = s.idle.length ∧ (s.recycle w).busy = s.busy + 1 ∧
        (s.recycle w).coordQuit = s.coordQuit) ∨
     (s.pending = [] ∧ (s.recycle w).pending = [] ∧ s.shouldQuit = true ∧ (s.recycle w).idle = [] ∧
        (s.recycle w).busy = s.busy ∧ (s.recycle w).coordQuit = (s.coordQuit || s.busy == 0)) ∨
     (s.pending = [] ∧ (s.recycle w).pending = [] ∧ s.shouldQuit = false ∧ (s.recycle w).busy = s.busy ∧
        (s.recycle w).coordQuit = s.coordQuit ∧
        ((s.recycle w).idle.length = s.idle.length ∨ (s.recycle w).idle.length = s.idle.length + 1))) := by
  obtain ⟨f1, f2, f3, f4, f5, f6, f7⟩ := idleAdd_fields s w hni
  unfold St.recycle
  generalize s.idleAdd w = s1 at *
  simp only
  split
  · rename_i t rest hp
    obtain ⟨c1, c2, c3, c4, c5⟩ := coordinate_fields { s1 with pending := rest } t
    refine ⟨by rw [c1]; exact f4, (f7.trans (pubPending s1 rest)).trans c4, Or.inl ⟨t, rest, by rw [← f3]; exact hp, ?_⟩⟩
    have hne : ({ s1 with pending := rest } : St).idle ≠ [] := by show s1.idle ≠ []; rw [f1]; simp
    rcases c5 with ⟨_, d1, d2, d3⟩ | ⟨d0, _⟩ | ⟨d0, _⟩
    · refine ⟨d3, ?_, ?_, by rw [c2]; exact f5⟩
      · have : ({ s1 with pending := rest } : St).idle.length = s.idle.length + 1 := by
          show s1.idle.length = _; rw [f1]; simp
        omega
      · rw [d2]; show s1.busy + 1 = _; rw [f2]
    · exact absurd d0 hne
    · exact absurd d0 hne
  · rename_i hp
    have hp1 : s1.pending = [] := hp
    have hp' : s.pending = [] := by rw [← f3]; exact hp
    split
    · rename_i hsq
      obtain ⟨q1, q2, q3, q4, q5, q6⟩ := quitIdlers_fields s1 none
      refine ⟨by rw [q4]; exact f4, f7.trans q6, Or.inr (Or.inl ⟨hp', by rw [q3]; exact hp1, by rw [← f4]; exact hsq, ?_, by rw [q2]; exact f2, ?_⟩)⟩
      · apply List.eq_nil_of_length_eq_zero; rw [q1]; simp
      · rw [q5, hsq, f5, f2]; simp
    · rename_i hsq
      simp only [Bool.not_eq_true] at hsq
      have hsq' : s.shouldQuit = false := by rw [← f4]; exact hsq
      split
      · split
        · have ha := abs_workerQuit { s1 with toShrink := s1.toShrink - 1, idle := s1.idle.erase w } w
          have hP : Pub s1 { s1 with toShrink := s1.toShrink - 1, idle := s1.idle.erase w } := ⟨rfl, rfl, rfl, rfl, rfl, rfl⟩
          refine ⟨by rw [abs_shouldQuit ha]; exact f4, f7.trans (hP.trans (Pub.of_abs ha)),
            Or.inr (Or.inr ⟨hp', by rw [abs_pending ha]; exact hp1, hsq', by rw [abs_busy ha]; exact f2,
              by rw [abs_coordQuit ha]; exact f5, Or.inl ?_⟩)⟩
          rw [abs_idle ha]; show (s1.idle.erase w).length = _
          rw [f1]; simp
        · have ha := abs_crash { s1 with toShrink := s1.toShrink - 1 } 7
          have hP : Pub s1 { s1 with toShrink := s1.toShrink - 1 } := ⟨rfl, rfl, rfl, rfl, rfl, rfl⟩
          refine ⟨by rw [abs_shouldQuit ha]; exact f4, f7.trans (hP.trans (Pub.of_abs ha)),
            Or.inr (Or.inr ⟨hp', by rw [abs_pending ha]; exact hp1, hsq', by rw [abs_busy ha]; exact f2,
              by rw [abs_coordQuit ha]; exact f5, Or.inr ?_⟩)⟩
          rw [abs_idle ha]; show s1.idle.length = _; rw [f1]; simp
      · exact ⟨f4, f7, Or.inr (Or.inr ⟨hp', hp1, hsq', f2, f5, Or.inr (by rw [f1]; simp)⟩)⟩

end TwistedProps.C49
