import TwistedProps.C49.Inv2
import TwistedProps.C49.Count
/-! Quiescent states (no queue has work): what the invariants say there. -/
namespace TwistedProps.C49
open Twisted.Threads Twisted.Threads.St

/-- no queue would do anything: the coordinator queue and every worker queue are empty -/
theorem enabled_nil_iff (s : St) :
    s.enabled = [] ↔ s.coordQ = [] ∧ ∀ (w : Nat) (wk : Worker), s.workers[w]? = some wk → wk.queue = [] := by
  unfold St.enabled
  simp only [List.append_eq_nil_iff, List.map_eq_nil_iff, List.filter_eq_nil_iff, List.mem_range]
  constructor
  · rintro ⟨h1, h2⟩
    have hcq : s.coordQ = [] := by
      cases hc : s.coordQ with
      | nil => rfl
      | cons a b => simp [hc] at h1
    refine ⟨hcq, ?_⟩
    intro w wk hw
    have hlt : w < s.workers.length := by
      rcases Nat.lt_or_ge w s.workers.length with hlt | hge
      · exact hlt
      · rw [List.getElem?_eq_none hge] at hw; cases hw
    have := h2 w hlt
    rw [hw] at this
    simpa using this
  · rintro ⟨h1, h2⟩
    refine ⟨by simp [h1], ?_⟩
    intro w hlt
    cases hw : s.workers[w]? with
    | none => simp
    | some wk => simp [h2 w wk hw]

theorem wsumK_zero_of_empty (κ : Key) (ws : List Worker)
    (h : ∀ (w : Nat) (wk : Worker), ws[w]? = some wk → wk.queue = []) : wsumK κ ws = 0 := by
  unfold wsumK
  induction ws with
  | nil => rfl
  | cons a l ih =>
    have ha := h 0 a (by simp)
    have := ih (fun w wk hw => h (w + 1) wk (by simpa using hw))
    simp [ha, this]

theorem wsum_zero_of_empty (x : Nat) (ws : List Worker)
    (h : ∀ (w : Nat) (wk : Worker), ws[w]? = some wk → wk.queue = []) : wsum x ws = 0 :=
  wsumK_zero_of_empty (runKey x) ws h

theorem qsum_zero_of_empty (s : St)
    (h : ∀ (w : Nat) (wk : Worker), s.workers[w]? = some wk → wk.queue = []) : qsum s = 0 := by
  unfold qsum
  generalize s.workers = ws at h
  induction ws with
  | nil => rfl
  | cons a l ih =>
    have ha := h 0 a (by simp)
    have := ih (fun w wk hw => h (w + 1) wk (by simpa using hw))
    simp [ha, this]

/-- at a quiescent state nothing is busy -/
theorem quiescent_busy_zero {s : St} (h : Inv2 s) (he : s.enabled = []) : s.busy = 0 := by
  obtain ⟨hq, hw⟩ := (enabled_nil_iff s).mp he
  have := h.inv.mid.bsum
  rw [qsum_zero_of_empty s hw] at this
  simp [recs, hq] at this
  exact this

/-- at a quiescent state every worker that is not quit sits in the idle set -/
theorem quiescent_live_idle {s : St} (h : Inv2 s) (he : s.enabled = []) (w : Nat) (wk : Worker)
    (hw : s.workers[w]? = some wk) (hq : wk.quit = false) : w ∈ s.idle := by
  obtain ⟨hcq, hwq⟩ := (enabled_nil_iff s).mp he
  rcases h.live w wk hw hq with a | a | a
  · exact a
  · exact absurd (hwq w wk hw) a
  · rw [hcq] at a; simp at a

end TwistedProps.C49
