import TwistedModel.Threads.Team
namespace TwistedProps.C49
open Twisted.Threads Twisted.Threads.St

theorem getD_mod_mem (l : List Nat) (k d : Nat) (h : l ≠ []) : l.getD (k % l.length) d ∈ l := by
  have hl : 0 < l.length := List.length_pos_iff.mpr h
  have : k % l.length < l.length := Nat.mod_lt _ hl
  simp [List.getD, this]

theorem eraseIdx_eq_erase (l : List Nat) (i : Nat) (hi : i < l.length) (hn : l.Nodup) :
    l.eraseIdx i = l.erase l[i] := by
  induction l generalizing i with
  | nil => simp at hi
  | cons a l ih =>
    cases i with
    | zero => simp
    | succ i =>
      simp at hi
      have hn' := List.nodup_cons.mp hn
      have hne : l[i] ≠ a := by
        intro h; exact hn'.1 (h ▸ List.getElem_mem hi)
      simp [hne.symm, ih i hi hn'.2]

theorem getD_eq_getElem' (l : List Nat) (k d : Nat) (h : k < l.length) : l.getD k d = l[k] := by
  simp [List.getD, h]

/-- `set.pop()`: removes a member (named by the next choice) -/
theorem popIdle_spec {s s' : St} {w : Nat} (hn : s.idle.Nodup) (h : s.popIdle = some (w, s')) :
    w ∈ s.idle ∧ s' = { s with idle := s.idle.erase w, choices := s.choices.tail } := by
  unfold St.popIdle at h
  split at h
  · cases h
  · rename_i i rest hi
    simp only [Option.some.injEq, Prod.mk.injEq] at h
    obtain ⟨hw, hs⟩ := h
    have hne : (i :: rest) ≠ [] := by simp
    have hlt : s.choices.headD 0 % (i :: rest).length < (i :: rest).length :=
      Nat.mod_lt _ (by simp)
    have hmem := getD_mod_mem (i :: rest) (s.choices.headD 0) i hne
    rw [hi] at hn
    have hE := eraseIdx_eq_erase (i :: rest) _ hlt hn
    have hget := getD_eq_getElem' (i :: rest) _ i hlt
    rw [hget] at hw hmem
    subst hw
    refine ⟨by rw [hi]; exact hmem, ?_⟩
    rw [← hs, hE, hi]

theorem popIdle_none {s : St} : s.popIdle = none ↔ s.idle = [] := by
  unfold St.popIdle; split <;> simp_all
end TwistedProps.C49
