import TwistedProps.C49.Ext
/-! The extended invariant `Inv2` is inductive over all histories. -/
namespace TwistedProps.C49
open Twisted.Threads Twisted.Threads.St

structure Inv2 (s : St) : Prop where
  inv : Inv s
  num : Num s
  live : ∀ v, LiveOK s v
  finPending : s.quit = true → s.shouldQuit = true ∨ CItem.finish ∈ s.coordQ

/-- popping a non-recycle head item -/
theorem mid_pop {s : St} (h : Inv s) {c : CItem} {rest : List CItem} (hq : s.coordQ = c :: rest)
    (hc : isRecycle c = false) (sq : Bool)
    (hsq' : sq = true → ∀ x ∈ rest, isRecycle x = true) :
    Mid { s with coordQ := rest, shouldQuit := sq } ∧ s.coordQuit = false := by
  have hcq := h.notCoordQuit (by rw [hq]; simp)
  have hcore := core_pop h.mid.core hq
  have hb := h.mid.bsum
  refine ⟨⟨core_congr hcore rfl rfl rfl rfl, ?_, hsq', fun hx => by simp only at hx; rw [hcq] at hx; cases hx⟩, hcq⟩
  simp only [qsum, recs, hq, List.countP_cons, hc] at *
  simpa using hb

theorem live_pop {s : St} {c : CItem} {rest : List CItem} (hq : s.coordQ = c :: rest)
    (hl : ∀ v, LiveOK s v) : ∀ v, c ≠ .recycle v → LiveOK { s with coordQ := rest } v := by
  intro v hv
  refine (hl v).congr rfl (fun hx => hx) (fun hx => ?_)
  rw [hq] at hx
  simp only [List.mem_cons] at hx
  rcases hx with hx | hx
  · exact absurd hx.symm hv
  · exact hx

theorem inv2_stepC {s : St} (h : Inv2 s) : Inv2 s.stepC := by
  have hI := inv_stepC h.inv
  unfold St.stepC at hI ⊢
  split
  · exact h
  · rename_i c rest hq
    rw [hq] at hI
    simp only at hI
    have hsq : s.shouldQuit = true → ∀ x ∈ rest, isRecycle x = true :=
      fun hx x hm => h.inv.mid.sqRec hx x (by rw [hq]; simp [hm])
    have hnum0 : Num { s with coordQ := rest } := ⟨h.num.pendIdle, h.num.sqIdle⟩
    have hfin : ∀ s' : St, Frame { s with coordQ := rest } s' → c ≠ .finish →
        (s'.quit = true → s'.shouldQuit = true ∨ CItem.finish ∈ s'.coordQ) := by
      intro s' hF hcf hqt
      obtain ⟨b1, b2, b3, _, _⟩ := hF
      rw [b1] at hqt
      rw [b2, b3]
      rcases h.finPending hqt with hx | hx
      · exact Or.inl hx
      · rw [hq] at hx
        simp only [List.mem_cons] at hx
        rcases hx with hx | hx
        · exact absurd hx.symm hcf
        · exact Or.inr hx
    cases c with
    | coord t =>
      obtain ⟨hM, hcq⟩ := mid_pop h.inv hq rfl s.shouldQuit hsq
      obtain ⟨_, b, _⟩ := mid_coordinate hM hcq t
      exact ⟨hI, num_coordinate hnum0 t, live_coordinate hM (fun v => live_pop hq h.live v (by simp)) t,
        hfin _ b (by simp)⟩
    | grow n =>
      have hnsq : s.shouldQuit = false := by
        cases hx : s.shouldQuit with
        | false => rfl
        | true => have := h.inv.mid.sqRec hx (.grow n) (by rw [hq]; simp); simp [isRecycle] at this
      obtain ⟨hM, hcq⟩ := mid_pop h.inv hq rfl s.shouldQuit hsq
      obtain ⟨_, b⟩ := mid_growLoop hM hnsq hcq n
      exact ⟨hI, num_growLoop hM hnsq hcq hnum0 n,
        live_growLoop hM hnsq hcq (fun v => live_pop hq h.live v (by simp)) n, hfin _ b (by simp)⟩
    | shrink n =>
      obtain ⟨hM, hcq⟩ := mid_pop h.inv hq rfl s.shouldQuit hsq
      obtain ⟨_, b, _⟩ := mid_quitIdlers hM hcq n
      exact ⟨hI, num_quitIdlers hnum0 n, live_quitIdlers hM (fun v => live_pop hq h.live v (by simp)) n,
        hfin _ b (by simp)⟩
    | recycle w =>
      have hcq := h.inv.notCoordQuit (by rw [hq]; simp)
      have hcore := core_pop h.inv.mid.core hq
      have hb := h.inv.mid.bsum
      obtain ⟨wk, hw, hwq⟩ := h.inv.mid.core.recOK w (by rw [hq]; simp)
      have hone := h.inv.mid.core.one w wk hw
      rw [hq] at hone
      simp only [List.count_cons_self] at hone
      have hwe : wk.queue = [] := by
        cases hx : wk.queue with
        | nil => rfl
        | cons a b => rw [hx] at hone; simp at hone; omega
      have hnr : CItem.recycle w ∉ rest := by
        intro hm; have := List.count_pos_iff.mpr hm; omega
      have hni : w ∉ s.idle := fun hm => h.inv.mid.core.idleNoRec w hm (by rw [hq]; simp)
      have hM : Mid { s with coordQ := rest, busy := s.busy - 1 } := by
        refine ⟨core_congr hcore rfl rfl rfl rfl, ?_, hsq, fun hx => by simp only at hx; rw [hcq] at hx; cases hx⟩
        have hrec : (CItem.recycle w :: rest).countP isRecycle = rest.countP isRecycle + 1 := by
          rw [List.countP_cons]; rfl
        have hb' : s.busy = (s.workers.map (·.queue.length)).sum + (CItem.recycle w :: rest).countP isRecycle := by
          rw [← hq]; exact hb
        show s.busy - 1 = (s.workers.map (·.queue.length)).sum + rest.countP isRecycle
        omega
      obtain ⟨_, b⟩ := mid_recycle (s := { s with coordQ := rest, busy := s.busy - 1 }) hM hcq hw hwq hwe hnr
      refine ⟨hI, num_recycle (s := { s with coordQ := rest, busy := s.busy - 1 }) hni h.num.pendIdle,
        live_recycle (s := { s with coordQ := rest, busy := s.busy - 1 }) hM hw hwq hwe hnr ?_, ?_⟩
      · intro v hv
        exact live_pop hq h.live v (by intro hx; cases hx; exact hv rfl)
      · have hF : Frame { s with coordQ := rest } { s with coordQ := rest, busy := s.busy - 1 } :=
          ⟨rfl, rfl, rfl, rfl, fun _ => rfl⟩
        exact hfin _ (hF.trans b) (by simp)
    | finish =>
      have haft := h.inv.aft
      rw [hq] at haft
      have hall : ∀ x ∈ rest, isRecycle x = true := by
        simpa [afterFinishOK, List.all_eq_true] using haft
      obtain ⟨hM, hcq⟩ := mid_pop h.inv hq rfl true (fun _ => hall)
      obtain ⟨_, b, _⟩ := mid_quitIdlers (s := { s with coordQ := rest, shouldQuit := true }) hM hcq none
      refine ⟨hI, num_finish (s := { s with coordQ := rest }),
        live_quitIdlers (s := { s with coordQ := rest, shouldQuit := true }) hM
          (fun v => live_pop hq h.live v (by simp)) none, fun _ => Or.inl ?_⟩
      exact b.2.1


theorem inv2_stepW {s : St} (h : Inv2 s) (w : Nat) : Inv2 (s.stepW w) := by
  have hI := inv_stepW h.inv w
  unfold St.stepW at hI ⊢
  split
  · exact h
  · rename_i wk hw
    rw [hw] at hI
    simp only at hI
    split
    · exact h
    · rename_i t rest hqe
      rw [hqe] at hI
      simp only at hI
      have hsum := sum_map_set s.workers w wk { wk with queue := rest } hw
      have hb := h.inv.mid.bsum
      simp only [qsum, recs] at hb
      rw [hqe] at hsum
      simp only [List.length_cons] at hsum
      have hbpos : s.busy ≠ 0 := by omega
      have hcq : s.coordQuit = false := by
        cases hx : s.coordQuit with
        | false => rfl
        | true => exact absurd (h.inv.mid.cq hx).2.1 hbpos
      simp only [St.coordDo, hcq, Bool.false_eq_true, if_false] at hI ⊢
      refine ⟨hI, ⟨h.num.pendIdle, fun hx => by have := h.num.sqIdle hx; simpa [hcq] using this⟩, ?_, ?_⟩
      · intro v wk' hv hq'
        by_cases hvw : v = w
        · subst hvw; right; right; simp
        · simp only [List.getElem?_set_ne (Ne.symm hvw)] at hv
          rcases h.live v wk' hv hq' with a | a | a
          · exact Or.inl a
          · exact Or.inr (Or.inl a)
          · right; right; simp [a]
      · intro hqt
        rcases h.finPending hqt with a | a
        · exact Or.inl a
        · right; simp [a]

theorem inv2_stepAny {s : St} (h : Inv2 s) (k : Nat) : Inv2 (s.stepAny k) := by
  unfold St.stepAny
  split
  · exact h
  · split
    · exact inv2_stepC h
    · exact inv2_stepW h _

/-- what a public call may do: append to the coordinator queue, write the log, set limits and the quit flag -/
def Pres (s s' : St) : Prop :=
  s'.workers = s.workers ∧ s'.idle = s.idle ∧ s'.pending = s.pending ∧ s'.busy = s.busy ∧
  s'.shouldQuit = s.shouldQuit ∧ s'.coordQuit = s.coordQuit ∧ (∀ c, c ∈ s.coordQ → c ∈ s'.coordQ) ∧
  (s'.quit = true → s.quit = true ∨ (s.coordQuit = false → CItem.finish ∈ s'.coordQ))

theorem Pres.refl (s : St) : Pres s s := ⟨rfl, rfl, rfl, rfl, rfl, rfl, fun _ hc => hc, fun hx => Or.inl hx⟩

theorem Pres.trans {a b c : St} (h1 : Pres a b) (h2 : Pres b c) : Pres a c := by
  obtain ⟨a1, a2, a3, a4, a5, a6, a7, a8⟩ := h1
  obtain ⟨b1, b2, b3, b4, b5, b6, b7, b8⟩ := h2
  refine ⟨by rw [b1, a1], by rw [b2, a2], by rw [b3, a3], by rw [b4, a4], by rw [b5, a5], by rw [b6, a6],
    fun x hx => b7 x (a7 x hx), fun hx => ?_⟩
  rcases b8 hx with hb | hb
  · rcases a8 hb with ha | ha
    · exact Or.inl ha
    · exact Or.inr fun hcq => b7 _ (ha hcq)
  · exact Or.inr fun hcq => hb (by rw [a6]; exact hcq)

theorem inv2_of_pres {s s' : St} (h : Inv2 s) (hI : Inv s') (hp : Pres s s') : Inv2 s' := by
  obtain ⟨a1, a2, a3, a4, a5, a6, a7, a8⟩ := hp
  refine ⟨hI, ⟨?_, ?_⟩, ?_, ?_⟩
  · rw [a3, a2]; exact h.num.pendIdle
  · rw [a5, a2, a6, a4]; exact h.num.sqIdle
  · intro v; exact (h.live v).congr a1 (by rw [a2]; exact fun hx => hx) (a7 _)
  · intro hq
    rw [a5]
    rcases a8 hq with hx | hx
    · rcases h.finPending hx with hy | hy
      · exact Or.inl hy
      · exact Or.inr (a7 _ hy)
    · cases hqs : s.quit with
      | true =>
        rcases h.finPending hqs with hy | hy
        · exact Or.inl hy
        · exact Or.inr (a7 _ hy)
      | false => exact Or.inr (hx (h.inv.notCoordQuit' hqs))

theorem pres_emit (s : St) (e : Ev) : Pres s (s.emit e) := Pres.refl s

theorem pres_teamSubmit (s : St) (what : Nat) (c : CItem) : Pres s (s.teamSubmit what c).1 := by
  unfold St.teamSubmit; split
  · exact Pres.refl s
  · exact ⟨rfl, rfl, rfl, rfl, rfl, rfl, fun _ hc => by simp [hc], fun hx => Or.inl hx⟩

theorem pres_teamDo (s : St) (t : Task) : Pres s (s.teamDo t).1 := by
  unfold St.teamDo; split
  · exact Pres.refl s
  · exact ⟨rfl, rfl, rfl, rfl, rfl, rfl, fun _ hc => by simp [St.emit, hc], fun hx => Or.inl hx⟩

theorem pres_teamQuit (s : St) : Pres s s.teamQuit.1 := by
  unfold St.teamQuit; split
  · exact Pres.refl s
  · simp only; split
    · rename_i hcq
      exact ⟨rfl, rfl, rfl, rfl, rfl, rfl, fun _ hc => hc, fun _ => Or.inr fun hx => by
        rw [hx] at hcq; cases hcq⟩
    · exact ⟨rfl, rfl, rfl, rfl, rfl, rfl, fun _ hc => by simp [hc], fun _ => Or.inr fun _ => by simp⟩

theorem pres_poolAdjustCore (s : St) (mn mx : Int) : Pres s (s.poolAdjustCore mn mx).1 := by
  unfold St.poolAdjustCore
  have h0 : Pres s { s with pmin := mn, pmax := mx, limit := if s.started then mx else 0 } :=
    ⟨rfl, rfl, rfl, rfl, rfl, rfl, fun _ hc => hc, fun hx => Or.inl hx⟩
  generalize ({ s with pmin := mn, pmax := mx, limit := if s.started then mx else 0 } : St) = s0 at h0
  simp only
  split
  · exact h0
  · have h1 : Pres s (if s0.poolWorkers > s0.pmax then s0.teamShrink (some (s0.poolWorkers - s0.pmax).toNat) else (s0, true)).1 := by
      split
      · exact h0.trans (pres_teamSubmit _ _ _)
      · exact h0
    generalize (if s0.poolWorkers > s0.pmax then s0.teamShrink (some (s0.poolWorkers - s0.pmax).toNat) else (s0, true)) = r1 at h1
    split
    · exact h1
    · have h2 : Pres s (if r1.1.poolWorkers < r1.1.pmin then r1.1.teamGrow (r1.1.pmin - r1.1.poolWorkers).toNat else r1).1 := by
        split
        · exact h1.trans (pres_teamSubmit _ _ _)
        · exact h1
      generalize (if r1.1.poolWorkers < r1.1.pmin then r1.1.teamGrow (r1.1.pmin - r1.1.poolWorkers).toNat else r1) = r2 at h2
      split
      · exact h2
      · split
        · exact h2.trans (pres_teamSubmit _ _ _)
        · exact h2

theorem pres_poolAdjust (s : St) (mn mx : Option Int) : Pres s (s.poolAdjust mn mx).1 := by
  unfold St.poolAdjust
  simp only
  split
  · exact Pres.refl s
  · exact pres_poolAdjustCore s _ _

theorem inv2_applyOp {s : St} (h : Inv2 s) (o : Op) : Inv2 (applyOp s o) := by
  have hI := inv_applyOp h.inv o
  cases o with
  | doTask t r => exact inv2_of_pres h hI (pres_teamDo s _)
  | grow n => exact inv2_of_pres h hI (pres_teamSubmit s _ _)
  | shrink n => exact inv2_of_pres h hI (pres_teamSubmit s _ _)
  | quit => exact inv2_of_pres h hI (pres_teamQuit s)
  | limit l => exact inv2_of_pres h hI ⟨rfl, rfl, rfl, rfl, rfl, rfl, fun _ hc => hc, fun hx => Or.inl hx⟩
  | stepC => exact inv2_stepC h
  | stepW w => exact inv2_stepW h w
  | any k => exact inv2_stepAny h k
  | pStart =>
    refine inv2_of_pres h hI (Pres.trans (b := { s with joined := false, started := true, limit := s.pmax }) ?_
      (pres_poolAdjust _ none none))
    exact ⟨rfl, rfl, rfl, rfl, rfl, rfl, fun _ hc => hc, fun hx => Or.inl hx⟩
  | pStop =>
    refine inv2_of_pres h hI (Pres.trans (b := { s with joined := true, started := false, limit := 0 }) ?_
      (pres_teamQuit _))
    exact ⟨rfl, rfl, rfl, rfl, rfl, rfl, fun _ hc => hc, fun hx => Or.inl hx⟩
  | pCall t r cb =>
    refine inv2_of_pres h hI ?_
    show Pres s (s.poolCall t r cb)
    unfold St.poolCall
    split
    · exact Pres.refl s
    · exact pres_teamDo s _
  | pAdjust mn mx => exact inv2_of_pres h hI (pres_poolAdjust s mn mx)
  | pStartWorker => exact inv2_of_pres h hI (pres_teamSubmit s _ _)
  | pStopWorker => exact inv2_of_pres h hI (pres_teamSubmit s _ _)

theorem inv2_step {s : St} (h : Inv2 s) (o : Op) : Inv2 (step s o) := by
  unfold step; split
  · exact h
  · exact inv2_applyOp h o

theorem inv2_run {s : St} (h : Inv2 s) (ops : List Op) : Inv2 (run s ops) := by
  induction ops generalizing s with
  | nil => exact h
  | cons o ops ih => exact ih (inv2_step h o)

theorem inv2_fresh (s : St) (hI : Inv s) (h2 : s.idle = []) (h3 : s.workers = []) (h6 : s.shouldQuit = false)
    (h7 : s.quit = false) : Inv2 s := by
  refine ⟨hI, ⟨fun _ => h2, fun hx => by rw [h6] at hx; cases hx⟩, ?_, fun hx => by rw [h7] at hx; cases hx⟩
  intro v wk hw; rw [h3] at hw; simp at hw

theorem inv2_init (l : Int) (ch : List Nat) : Inv2 (init l ch) := inv2_fresh _ (inv_init l ch) rfl rfl rfl rfl
theorem inv2_initPool (mn mx : Int) (ch : List Nat) : Inv2 (initPool mn mx ch) :=
  inv2_fresh _ (inv_initPool mn mx ch) rfl rfl rfl rfl

end TwistedProps.C49
