import TwistedModel.Fs.Lock
/-!
C50 — `FilesystemLock` is mutually exclusive even when breaking stale locks.

Statement (given, fixed): for any number of processes concurrently calling `lock` and `unlock` on the
same lock path, with any interleaving of their filesystem operations and possibly a stale lock left by
a dead process, at most one process holds the lock at any time.  A holder can always release it, and
a lock left by a dead process can eventually be acquired.

Model: `TwistedModel/Fs/Lock.lean` — processes are all of `Nat` (process `i` has pid `i`), a schedule
is any `List Ev` (`lock i`/`unlock i` enter a call, `step i` runs one primitive, `crash i` = the
process dies or exits, `spawn i` = a new process with a fresh lock object is started under the pid of a
dead one that the lock path does not name — pid reuse), `run (init link status) es` is the state after the schedule; every prefix of
a schedule is a schedule, so a theorem about `run … es` for all `es` is a theorem about every moment.

FULL STATEMENT (NOT provable — it is false for the code as written):

    theorem mutual_exclusion (link status es i j) :
        holds (run (init link status) es) i → holds (run (init link status) es) j → i = j

`mutual_exclusion_counterexample` (dead owner's link present at the start),
`mutual_exclusion_counterexample_exit` (no stale link ever: the owner unlocks and exits between another
process's `readlink` and `kill`) and `mutual_exclusion_counterexample_reuse` (the robbed holder is a new
process born under the pid that was judged dead) prove its negation on concrete schedules; all are replayed on the
real `FilesystemLock` by `harness/corr/C50.py`.  Cause: `readlink → kill(pid,0)=ESRCH → rmlink` is not
atomic and `rmlink` removes whatever link is there *now*, so a process that judged pid x dead deletes
the live lock another process created in between, then acquires.

What IS proved, for all schedules and any number of processes:
* `mutual_exclusion_neverBreaks` — at most one holder on every run in which no process ever takes the
  stale-breaking branch (sees `ESRCH`), crashes and stale links allowed;
* `mutual_exclusion_partial` — the schedule-level corollary: no dead owner's link at the start and no
  process dies ⇒ at most one holder, whatever `lock`/`unlock` calls (including `unlock` by
  non-holders and re-`lock` by the holder) are interleaved in whatever way, new processes arriving
  under reused pids (`spawn`) included;
  MISSING w.r.t. the full statement: exactly the runs that take the `ESRCH → rmlink` branch while some
  other process can act between the `readlink` and the `rmlink` — where the code is wrong;
* `holder_can_release` / `holder_can_release_interleaved_partial` — a holder's `unlock()` succeeds,
  solo and under any interleaving of other processes' events (on never-breaking runs; on a breaking run
  the robbed holder's `unlock()` raises ValueError: `holder_release_counterexample`);
* `stale_lock_eventually_acquirable` — from ANY state whose link is absent or names a dead pid, any live
  process, from any program point, acquires by running alone (no hypothesis on how the state arose).
-/
namespace TwistedProps.C50
open Twisted.Fs.Lock

/-- event `e` makes a live process take the stale-breaking branch: its `kill(x, 0)` answers `ESRCH` -/
def breaksAt (s : Sys) : Ev → Bool
  | .step i =>
    decide (s.status i = .alive) &&
      match (s.procs i).pc with
      | .lKill _ x => decide (s.status x = .dead)
      | _ => false
  | _ => false

/-- along the run of `es` from `s` the stale-breaking branch is never taken -/
def NeverBreaks (s : Sys) : List Ev → Prop
  | [] => True
  | e :: es => breaksAt s e = false ∧ NeverBreaks (apply s e) es

def decNeverBreaks : (s : Sys) → (es : List Ev) → Decidable (NeverBreaks s es)
  | _, [] => isTrue trivial
  | s, e :: es =>
    match decEq (breaksAt s e) false, decNeverBreaks (apply s e) es with
    | isTrue a, isTrue b => isTrue ⟨a, b⟩
    | isFalse a, _ => isFalse fun h => a h.1
    | _, isFalse b => isFalse fun h => b h.2

instance (s : Sys) (es : List Ev) : Decidable (NeverBreaks s es) := decNeverBreaks s es

/-- the inductive invariant of never-breaking runs: a live holder owns the link; a live process about
    to `rmlink` inside `unlock()` owns the link; no live process is about to `rmlink` inside `lock()` -/
structure Inv (s : Sys) : Prop where
  locked_link : ∀ i, s.status i = .alive → (s.procs i).locked = true → s.link = some i
  urm_link : ∀ i, s.status i = .alive → (s.procs i).pc = .uRmlink → s.link = some i
  no_rm : ∀ i c, s.status i = .alive → (s.procs i).pc ≠ .lRmlink c

/-- what one primitive of `j` can do, seen from the invariant -/
theorem stepLocal_facts (j : Nat) (status : Nat → Status) (p : Proc) (link : Option Nat)
    (hl : p.locked = true → link = some j) (hu : p.pc = .uRmlink → link = some j)
    (hr : ∀ c, p.pc ≠ .lRmlink c)
    (hb : ∀ c x, p.pc = .lKill c x → status x ≠ .dead) :
    let r := stepLocal j status p link
    (r.1.locked = true → r.2 = some j) ∧ (r.1.pc = .uRmlink → r.2 = some j) ∧
    (∀ c, r.1.pc ≠ .lRmlink c) ∧ (r.2 ≠ link → link = none ∨ link = some j) ∧
    (r.2 ≠ link → r.2 = none ∨ r.2 = some j) := by
  intro r
  rcases p with ⟨pc, locked, clean, last⟩
  cases pc <;> cases link <;> simp_all [r, stepLocal]
  all_goals (split <;> simp_all)


theorem setProc_same (f : Nat → Proc) (i : Nat) (p : Proc) : setProc f i p i = p := by simp [setProc]
theorem setProc_ne (f : Nat → Proc) (i j : Nat) (p : Proc) (h : j ≠ i) : setProc f i p j = f j := by
  simp [setProc, h]

theorem inv_enter (s : Sys) (j : Nat) (pc : PC) (h : Inv s) (hu : pc ≠ .uRmlink)
    (hr : ∀ c, pc ≠ .lRmlink c) : Inv (enter s j pc) := by
  obtain ⟨h1, h2, h3⟩ := h
  unfold enter
  split
  · constructor
    · intro i hi hl
      by_cases hij : i = j
      · subst hij; simp only [setProc_same] at hl; exact h1 i hi hl
      · simp only [setProc_ne _ _ _ _ hij] at hl; exact h1 i hi hl
    · intro i hi hl
      by_cases hij : i = j
      · subst hij; simp only [setProc_same] at hl; exact absurd hl hu
      · simp only [setProc_ne _ _ _ _ hij] at hl; exact h2 i hi hl
    · intro i c hi hl
      by_cases hij : i = j
      · subst hij; simp only [setProc_same] at hl; exact absurd hl (hr c)
      · simp only [setProc_ne _ _ _ _ hij] at hl; exact h3 i c hi hl
  · exact ⟨h1, h2, h3⟩

theorem inv_apply (s : Sys) (e : Ev) (h : Inv s) (hb : breaksAt s e = false) : Inv (apply s e) := by
  cases e with
  | lock j =>
    simp only [apply]
    split
    · exact inv_enter s j _ h (by simp) (by simp)
    · exact h
  | unlock j =>
    simp only [apply]
    split
    · exact inv_enter s j _ h (by simp) (by simp)
    · exact h
  | crash j =>
    obtain ⟨h1, h2, h3⟩ := h
    simp only [apply]
    split
    · constructor
      · intro i hi hl
        have hi' : s.status i = .alive := by
          by_cases hij : i = j
          · simp [hij] at hi
          · simpa [hij] using hi
        exact h1 i hi' hl
      · intro i hi hl
        have hi' : s.status i = .alive := by
          by_cases hij : i = j
          · simp [hij] at hi
          · simpa [hij] using hi
        exact h2 i hi' hl
      · intro i c hi hl
        have hi' : s.status i = .alive := by
          by_cases hij : i = j
          · simp [hij] at hi
          · simpa [hij] using hi
        exact h3 i c hi' hl
    · exact ⟨h1, h2, h3⟩
  | spawn j =>
    -- a brand-new process: fresh object (not locked, idle), so every clause is vacuous for it
    obtain ⟨h1, h2, h3⟩ := h
    simp only [apply]
    split
    · constructor
      · intro i hi hl
        by_cases hij : i = j
        · subst hij; simp [setProc_same] at hl
        · simp only [setProc_ne _ _ _ _ hij] at hl
          exact h1 i (by simpa [hij] using hi) hl
      · intro i hi hl
        by_cases hij : i = j
        · subst hij; simp [setProc_same] at hl
        · simp only [setProc_ne _ _ _ _ hij] at hl
          exact h2 i (by simpa [hij] using hi) hl
      · intro i c hi hl
        by_cases hij : i = j
        · subst hij; simp [setProc_same] at hl
        · simp only [setProc_ne _ _ _ _ hij] at hl
          exact h3 i c (by simpa [hij] using hi) hl
    · exact ⟨h1, h2, h3⟩
  | step j =>
    obtain ⟨h1, h2, h3⟩ := h
    simp only [apply]
    split
    next ha =>
      have hbk : ∀ c x, (s.procs j).pc = .lKill c x → s.status x ≠ .dead := by
        intro c x hpc hd
        simp [breaksAt, ha, hpc, hd] at hb
      have f := stepLocal_facts j s.status (s.procs j) s.link (h1 j ha) (h2 j ha) (fun c => h3 j c ha) hbk
      obtain ⟨f1, f2, f3, f4, f5⟩ := f
      have other : ∀ i, i ≠ j → s.status i = .alive → s.link = some i →
          (stepLocal j s.status (s.procs j) s.link).2 = some i := by
        intro i hij hi hli
        by_cases hc : (stepLocal j s.status (s.procs j) s.link).2 = s.link
        · rw [hc, hli]
        · rcases f4 hc with h | h
          · rw [h] at hli; cases hli
          · rw [h] at hli; injection hli with hli; exact absurd hli.symm hij
      constructor
      · intro i hi hl
        by_cases hij : i = j
        · subst hij
          simp only [stepProc, setProc_same] at hl
          exact f1 hl
        · simp only [stepProc, setProc_ne _ _ _ _ hij] at hl
          exact other i hij hi (h1 i hi hl)
      · intro i hi hl
        by_cases hij : i = j
        · subst hij
          simp only [stepProc, setProc_same] at hl
          exact f2 hl
        · simp only [stepProc, setProc_ne _ _ _ _ hij] at hl
          exact other i hij hi (h2 i hi hl)
      · intro i c hi hl
        by_cases hij : i = j
        · subst hij
          simp only [stepProc, setProc_same] at hl
          exact f3 c hl
        · simp only [stepProc, setProc_ne _ _ _ _ hij] at hl
          exact h3 i c hi hl
    next => exact ⟨h1, h2, h3⟩


theorem inv_run (s : Sys) (es : List Ev) (h : Inv s) (hn : NeverBreaks s es) : Inv (run s es) := by
  induction es generalizing s with
  | nil => exact h
  | cons e es ih => exact ih (apply s e) (inv_apply s e h hn.1) hn.2

theorem inv_init (link : Option Nat) (status : Nat → Status) : Inv (init link status) := by
  constructor <;> intros <;> simp_all [init]

theorem inv_exclusive (s : Sys) (h : Inv s) (i j : Nat) (hi : holds s i) (hj : holds s j) : i = j := by
  have a := h.locked_link i hi.1 hi.2
  have b := h.locked_link j hj.1 hj.2
  rw [a] at b; injection b

/-- no dead pid is visible: neither in the link nor in a pid some process has read and is about to probe -/
structure NoDead (s : Sys) : Prop where
  link_live : ∀ q, s.link = some q → s.status q ≠ .dead
  kill_live : ∀ i c x, (s.procs i).pc = .lKill c x → s.status x ≠ .dead

def isCrash : Ev → Bool
  | .crash _ => true
  | _ => false

theorem stepLocal_nodead (j : Nat) (status : Nat → Status) (p : Proc) (link : Option Nat) :
    let r := stepLocal j status p link
    (r.2 = link ∨ r.2 = none ∨ r.2 = some j) ∧
    (∀ c x, r.1.pc = .lKill c x → p.pc = .lKill c x ∨ link = some x) := by
  intro r
  rcases p with ⟨pc, locked, clean, last⟩
  cases pc <;> cases link <;> simp_all [r, stepLocal]
  all_goals (split <;> simp_all)

theorem nodead_apply (s : Sys) (e : Ev) (h : NoDead s) (hc : isCrash e = false) :
    NoDead (apply s e) ∧ breaksAt s e = false := by
  obtain ⟨h1, h2⟩ := h
  cases e with
  | crash j => simp [isCrash] at hc
  | lock j =>
    refine ⟨?_, rfl⟩
    simp only [apply, enter]
    split
    · split
      · constructor
        · exact h1
        · intro i c x hl
          by_cases hij : i = j
          · subst hij; simp [setProc_same] at hl
          · simp only [setProc_ne _ _ _ _ hij] at hl; exact h2 i c x hl
      · exact ⟨h1, h2⟩
    · exact ⟨h1, h2⟩
  | unlock j =>
    refine ⟨?_, rfl⟩
    simp only [apply, enter]
    split
    · split
      · constructor
        · exact h1
        · intro i c x hl
          by_cases hij : i = j
          · subst hij; simp [setProc_same] at hl
          · simp only [setProc_ne _ _ _ _ hij] at hl; exact h2 i c x hl
      · exact ⟨h1, h2⟩
    · exact ⟨h1, h2⟩
  | spawn j =>
    refine ⟨?_, rfl⟩
    simp only [apply]
    split
    · constructor
      · intro q hq
        show (if q = j then Status.alive else s.status q) ≠ .dead
        by_cases hqj : q = j
        · simp [hqj]
        · simp only [hqj, if_false]; exact h1 q hq
      · intro i c x hl
        show (if x = j then Status.alive else s.status x) ≠ .dead
        have hl' : (s.procs i).pc = .lKill c x := by
          by_cases hij : i = j
          · subst hij; simp [setProc_same] at hl
          · simpa only [setProc_ne _ _ _ _ hij] using hl
        by_cases hxj : x = j
        · simp [hxj]
        · simp only [hxj, if_false]; exact h2 i c x hl'
    · exact ⟨h1, h2⟩
  | step j =>
    constructor
    · simp only [apply]
      split
      next ha =>
        obtain ⟨f1, f2⟩ := stepLocal_nodead j s.status (s.procs j) s.link
        constructor
        · intro q hq
          simp only [stepProc] at hq
          rcases f1 with f | f | f
          · rw [f] at hq; exact h1 q hq
          · rw [f] at hq; cases hq
          · rw [f] at hq; injection hq with hq; subst hq
            show s.status j ≠ .dead
            rw [ha]; simp
        · intro i c x hl
          show s.status x ≠ .dead
          by_cases hij : i = j
          · subst hij
            simp only [stepProc, setProc_same] at hl
            rcases f2 c x hl with f | f
            · exact h2 i c x f
            · exact h1 x f
          · simp only [stepProc, setProc_ne _ _ _ _ hij] at hl; exact h2 i c x hl
      next => exact ⟨h1, h2⟩
    · simp only [breaksAt]
      cases hpc : (s.procs j).pc <;> simp
      rename_i c x
      intro _
      exact h2 j c x hpc

theorem nodead_neverBreaks (s : Sys) (es : List Ev) (h : NoDead s) (hc : ∀ e ∈ es, isCrash e = false) :
    NeverBreaks s es := by
  induction es generalizing s with
  | nil => trivial
  | cons e es ih =>
    have := nodead_apply s e h (hc e (by simp))
    exact ⟨this.2, ih (apply s e) this.1 (fun e' he' => hc e' (by simp [he']))⟩

/-- **At most one holder on every never-breaking run** — any number of processes, any schedule
    (crashes, stale links, stray `unlock`s included), from any state satisfying the invariant. -/
theorem mutual_exclusion_neverBreaks (s : Sys) (es : List Ev) (h : Inv s) (hn : NeverBreaks s es)
    (i j : Nat) (hi : holds (run s es) i) (hj : holds (run s es) j) : i = j :=
  inv_exclusive _ (inv_run s es h hn) i j hi hj

/-- **Mutual exclusion, partial**: if the initial link (if any) does not name a dead pid and no
    process dies during the schedule, then at every moment at most one process holds the lock — for
    every number of processes and every interleaving of their `lock`/`unlock` primitives.
    (The full statement drops both hypotheses and is false: see the counterexamples below.) -/
theorem mutual_exclusion_partial (link : Option Nat) (status : Nat → Status) (es : List Ev)
    (hlink : ∀ q, link = some q → status q ≠ .dead) (hc : ∀ e ∈ es, isCrash e = false)
    (i j : Nat) (hi : holds (run (init link status) es) i) (hj : holds (run (init link status) es) j) :
    i = j := by
  apply mutual_exclusion_neverBreaks _ es (inv_init link status) _ i j hi hj
  apply nodead_neverBreaks _ _ _ hc
  constructor
  · exact hlink
  · intro i c x h; simp [init] at h


/-! ### the full statement is false for the code as written -/

def stAlive (xs : List Nat) : Nat → Status := fun x => if xs.contains x then .alive else .dead

def wStale : List Ev :=
  [.lock 1, .step 1, .step 1, .step 1, .lock 0, .step 0, .step 0, .step 0, .step 0, .step 0, .step 1, .step 1]

/-- non-vacuity of `mutual_exclusion_partial`: a crash-free contended schedule; 0 holds, 1 was refused -/
example :
    let es : List Ev := [.lock 0, .step 0, .lock 1, .step 1, .step 1, .step 1]
    (∀ e ∈ es, isCrash e = false) ∧ holds (run (init none (stAlive [0, 1])) es) 0 ∧
      ¬ holds (run (init none (stAlive [0, 1])) es) 1 ∧
      ((run (init none (stAlive [0, 1])) es).procs 1).last = .retFalse := by decide

/-- non-vacuity of `mutual_exclusion_neverBreaks`: a holder crashes, its link stays, nobody probes it -/
example :
    let es : List Ev := [.lock 0, .step 0, .crash 0, .lock 1, .step 1, .step 1]
    NeverBreaks (init none (stAlive [0, 1])) es ∧
      ((run (init none (stAlive [0, 1])) es).procs 1).pc = .lKill true 0 := by decide

/-- **Counterexample (stale link at the start, no process dies)**: pid 7 is dead and owns the link.
    Process 1 runs `symlink`(EEXIST), `readlink`(7), `kill`(ESRCH) and is about to `rmlink`; process 0
    runs its whole `lock()` (removes the stale link, acquires); 1's pending `rmlink` deletes 0's LIVE
    link and 1 acquires too. -/
theorem mutual_exclusion_counterexample :
    ∃ (link : Option Nat) (status : Nat → Status) (es : List Ev) (i j : Nat),
      (∀ e ∈ es, isCrash e = false) ∧
      holds (run (init link status) es) i ∧ holds (run (init link status) es) j ∧ i ≠ j :=
  ⟨some 7, stAlive [0, 1], wStale, 0, 1, by decide, by decide, by decide, by decide⟩

def wExit : List Ev :=
  [.lock 0, .step 0, .lock 1, .step 1, .step 1, .unlock 0, .step 0, .step 0, .crash 0,
   .lock 2, .step 2, .step 1, .step 1, .step 1]

/-- **Counterexample (no stale link ever present)**: 0 holds; 1 reads pid 0 from the link; 0 unlocks
    and exits; 2 acquires; 1's `kill(0)` answers ESRCH, its `rmlink` deletes 2's live link, 1 acquires. -/
theorem mutual_exclusion_counterexample_exit :
    ∃ (status : Nat → Status) (es : List Ev) (i j : Nat),
      holds (run (init none status) es) i ∧ holds (run (init none status) es) j ∧ i ≠ j :=
  ⟨stAlive [0, 1, 2], wExit, 1, 2, by decide, by decide, by decide⟩

/-! ### pid reuse (`spawn`): a new process that gets the pid of a dead one -/

/-- `spawn` is refused while the lock path names the dead pid (the ASSUMES of the check: a dead pid is
    not reused while the lock path names it), and for a pid that is alive -/
theorem spawn_guard (s : Sys) (i : Nat) (h : s.link = some i ∨ s.status i ≠ .dead) :
    apply s (.spawn i) = s := by
  simp only [apply]
  split
  next hs => rcases h with h | h
             · exact absurd h hs.2
             · exact absurd hs.1 h
  next => rfl

/-- a spawned process is alive, idle, and holds nothing: its `FilesystemLock` object is fresh -/
theorem spawn_fresh (s : Sys) (i : Nat) (hd : s.status i = .dead) (hl : s.link ≠ some i) :
    (apply s (.spawn i)).status i = .alive ∧ (apply s (.spawn i)).procs i = {} ∧
      (apply s (.spawn i)).link = s.link := by
  simp [apply, hd, hl, setProc_same]

/-- non-vacuity of `mutual_exclusion_partial` over schedules with `spawn`: pid 1 is dead at the start
    (the link does not name it); process 0 locks and unlocks; a new process is born with pid 1 and
    acquires; 0's next `lock()` probes pid 1, finds it alive and is refused -/
example :
    let es : List Ev := [.lock 0, .step 0, .unlock 0, .step 0, .step 0, .spawn 1, .lock 1, .step 1,
                         .lock 0, .step 0, .step 0, .step 0]
    (∀ e ∈ es, isCrash e = false) ∧ holds (run (init none (stAlive [0])) es) 1 ∧
      ¬ holds (run (init none (stAlive [0])) es) 0 ∧
      ((run (init none (stAlive [0])) es).procs 0).last = .retFalse := by decide

/-- **Counterexample with pid reuse** (the same defect, the robbed holder carries the pid the robber
    judged dead): dead pid 1 owns the link; 0 reads it, `kill` answers ESRCH, 0 is about to `rmlink`;
    2 breaks the stale link, acquires, releases; a new process is born with pid 1 and acquires; 0's
    pending `rmlink` deletes ITS live link and 0 acquires too. -/
def wReuse : List Ev :=
  [.lock 0, .step 0, .step 0, .step 0, .lock 2, .step 2, .step 2, .step 2, .step 2, .step 2,
   .unlock 2, .step 2, .step 2, .spawn 1, .lock 1, .step 1, .step 0, .step 0]

theorem mutual_exclusion_counterexample_reuse :
    ∃ (link : Option Nat) (status : Nat → Status) (es : List Ev) (i j : Nat),
      (∀ e ∈ es, isCrash e = false) ∧
      holds (run (init link status) es) i ∧ holds (run (init link status) es) j ∧ i ≠ j :=
  ⟨some 1, stAlive [0, 2], wReuse, 0, 1, by decide, by decide, by decide, by decide⟩

/-! ### a holder can release -/

def evProc : Ev → Nat
  | .lock i | .unlock i | .step i | .crash i | .spawn i => i

theorem run_append (s : Sys) (a b : List Ev) : run s (a ++ b) = run (run s a) b := by
  simp [run, List.foldl_append]

theorem run_cons (s : Sys) (e : Ev) (es : List Ev) : run s (e :: es) = run (apply s e) es := rfl

theorem neverBreaks_append (s : Sys) (a b : List Ev) :
    NeverBreaks s (a ++ b) ↔ NeverBreaks s a ∧ NeverBreaks (run s a) b := by
  induction a generalizing s with
  | nil => simp [NeverBreaks, run]
  | cons e a ih => simp [NeverBreaks, run_cons, ih, and_assoc]

/-- frame: an event of another process touches neither `i`'s object nor `i`'s liveness -/
theorem apply_other (s : Sys) (e : Ev) (i : Nat) (h : evProc e ≠ i) :
    (apply s e).procs i = s.procs i ∧ (apply s e).status i = s.status i := by
  have h' : i ≠ evProc e := fun x => h x.symm
  cases e with
  | lock j =>
    simp only [evProc] at h'
    simp only [apply, enter]; split
    · split
      · exact ⟨setProc_ne _ _ _ _ h', rfl⟩
      · exact ⟨rfl, rfl⟩
    · exact ⟨rfl, rfl⟩
  | unlock j =>
    simp only [evProc] at h'
    simp only [apply, enter]; split
    · split
      · exact ⟨setProc_ne _ _ _ _ h', rfl⟩
      · exact ⟨rfl, rfl⟩
    · exact ⟨rfl, rfl⟩
  | step j =>
    simp only [evProc] at h'
    simp only [apply]; split
    · exact ⟨setProc_ne _ _ _ _ h', rfl⟩
    · exact ⟨rfl, rfl⟩
  | crash j =>
    simp only [evProc] at h'
    simp only [apply]; split
    · exact ⟨rfl, by simp [h']⟩
    · exact ⟨rfl, rfl⟩
  | spawn j =>
    simp only [evProc] at h'
    simp only [apply]; split
    · exact ⟨setProc_ne _ _ _ _ h', by simp [h']⟩
    · exact ⟨rfl, rfl⟩

theorem run_others (s : Sys) (es : List Ev) (i : Nat) (h : ∀ e ∈ es, evProc e ≠ i) :
    (run s es).procs i = s.procs i ∧ (run s es).status i = s.status i := by
  induction es generalizing s with
  | nil => exact ⟨rfl, rfl⟩
  | cons e es ih =>
    have a := apply_other s e i (h e (by simp))
    have b := ih (apply s e) (fun e' he' => h e' (by simp [he']))
    rw [run_cons]
    exact ⟨b.1.trans a.1, b.2.trans a.2⟩

/-- **A holder can release** (solo form): an idle holder's `unlock()` = `readlink`, `rmlink` returns
    normally, clears `locked` and leaves the path free. -/
theorem holder_can_release (s : Sys) (i : Nat) (h : Inv s) (hh : holds s i)
    (hidle : (s.procs i).pc = .idle) :
    let s' := run s [.unlock i, .step i, .step i]
    s'.link = none ∧ ¬ holds s' i ∧ (s'.procs i).last = .retNone ∧ (s'.procs i).pc = .idle := by
  have hl := h.locked_link i hh.1 hh.2
  have ha := hh.1
  simp [run, apply, enter, stepProc, stepLocal, setProc, holds, ha, hidle, hl]


/-- non-vacuity of `holder_can_release` -/
example :
    let s := run (init none (stAlive [0, 1])) [.lock 0, .step 0]
    Inv s ∧ holds s 0 ∧ (s.procs 0).pc = .idle :=
  ⟨inv_run _ _ (inv_init _ _) (by decide), by decide, by decide⟩

/-- **A holder can release under any interleaving**: whatever the other processes do between the holder's `unlock()` entry and its
    two primitives, on a run that never takes the stale-breaking branch the release succeeds. -/
theorem holder_can_release_interleaved_partial (s : Sys) (i : Nat) (b c : List Ev)
    (h : Inv s) (hh : holds s i) (hidle : (s.procs i).pc = .idle)
    (hb : ∀ e ∈ b, evProc e ≠ i) (hc : ∀ e ∈ c, evProc e ≠ i)
    (hn : NeverBreaks s ([.unlock i] ++ b ++ [.step i] ++ c ++ [.step i])) :
    let s' := run s ([.unlock i] ++ b ++ [.step i] ++ c ++ [.step i])
    s'.link = none ∧ ¬ holds s' i ∧ (s'.procs i).last = .retNone ∧ (s'.procs i).pc = .idle := by
  intro s'
  have es : s' = run (run (run (run (run s [.unlock i]) b) [.step i]) c) [.step i] := by
    simp only [s', run_append]
  simp only [neverBreaks_append, run_append] at hn
  obtain ⟨⟨⟨⟨n1, n2⟩, n3⟩, n4⟩, n5⟩ := hn
  -- s1
  have i1 := inv_run s _ h n1
  have p1 : (run s [.unlock i]).procs i = { s.procs i with pc := .uReadlink } := by
    simp [run, apply, enter, hh.1, hidle, setProc_same]
  have a1 : (run s [.unlock i]).status i = .alive := by
    simp only [run, List.foldl, apply, enter]; split <;> (try split) <;> exact hh.1
  generalize run s [.unlock i] = s1 at *
  -- s2
  have i2 := inv_run s1 b i1 n2
  have f2 := run_others s1 b i hb
  have p2 := f2.1.trans p1
  have a2 := f2.2.trans a1
  generalize run s1 b = s2 at *
  have l2 : s2.link = some i := i2.locked_link i a2 (by rw [p2]; exact hh.2)
  -- s3
  have i3 := inv_run s2 _ i2 n3
  have p3 : (run s2 [.step i]).procs i = { s.procs i with pc := .uRmlink } := by
    simp [run, apply, a2, stepProc, stepLocal, p2, l2, setProc_same]
  have a3 : (run s2 [.step i]).status i = .alive := by
    simp [run, apply, a2, stepProc]
  generalize run s2 [.step i] = s3 at *
  -- s4
  have i4 := inv_run s3 c i3 n4
  have f4 := run_others s3 c i hc
  have p4 := f4.1.trans p3
  have a4 := f4.2.trans a3
  generalize run s3 c = s4 at *
  have l4 : s4.link = some i := i4.urm_link i a4 (by rw [p4])
  rw [es]
  simp [run, apply, a4, stepProc, stepLocal, p4, l4, setProc_same, holds]


/-- non-vacuity of `holder_can_release_interleaved_partial`: process 1 contends during the release -/
example :
    let s := run (init none (stAlive [0, 1])) [.lock 0, .step 0]
    let b : List Ev := [.lock 1, .step 1]
    let c : List Ev := [.step 1, .step 1]
    Inv s ∧ holds s 0 ∧ (∀ e ∈ b, evProc e ≠ 0) ∧ (∀ e ∈ c, evProc e ≠ 0) ∧
      NeverBreaks s ([.unlock 0] ++ b ++ [.step 0] ++ c ++ [.step 0]) :=
  ⟨inv_run _ _ (inv_init _ _) (by decide), by decide, by decide, by decide, by decide⟩

/-- on a breaking run the robbed holder CANNOT release: after the first counterexample schedule
    process 0 still `holds`, and its `unlock()` raises ValueError (the link names pid 1) -/
theorem holder_release_counterexample :
    ∃ (link : Option Nat) (status : Nat → Status) (es : List Ev) (i : Nat),
      holds (run (init link status) es) i ∧ ((run (init link status) es).procs i).pc = .idle ∧
      let s' := run (run (init link status) es) [.unlock i, .step i, .step i]
      holds s' i ∧ (s'.procs i).last = .valueError :=
  ⟨some 7, stAlive [0, 1], wStale, 0, by decide, by decide, by decide, by decide⟩

/-! ### a dead owner's lock can be acquired -/

def iterLocal (i : Nat) (status : Nat → Status) : Nat → Proc × Option Nat → Proc × Option Nat
  | 0, r => r
  | n + 1, r => iterLocal i status n (stepLocal i status r.1 r.2)

theorem solo_steps (s : Sys) (i : Nat) (n : Nat) (ha : s.status i = .alive) :
    (run s (List.replicate n (.step i))).procs i = (iterLocal i s.status n (s.procs i, s.link)).1 ∧
    (run s (List.replicate n (.step i))).link = (iterLocal i s.status n (s.procs i, s.link)).2 ∧
    (run s (List.replicate n (.step i))).status = s.status := by
  induction n generalizing s with
  | zero => exact ⟨rfl, rfl, rfl⟩
  | succ n ih =>
    rw [List.replicate_succ, run_cons]
    have e : apply s (.step i) = stepProc s i := by simp [apply, ha]
    rw [e]
    have := ih (stepProc s i) ha
    simp only [stepProc, setProc_same] at this
    exact this

/-- the lock path is free or names a dead pid -/
def Free (status : Nat → Status) (link : Option Nat) : Prop :=
  link = none ∨ ∃ d, link = some d ∧ status d = .dead

def Acquired (i : Nat) (r : Proc × Option Nat) : Prop :=
  r.1.pc = .idle ∧ r.1.locked = true ∧ r.1.last = .retTrue ∧ r.2 = some i

syntax "try_n " num : tactic
macro_rules
  | `(tactic| try_n $k) => `(tactic| (refine ⟨$k, ?_⟩; simp_all [iterLocal, stepLocal, Free, Acquired]; done))

theorem local_finish (i : Nat) (status : Nat → Status) (p : Proc) (link : Option Nat)
    (ha : status i = .alive) (hf : Free status link) :
    ∃ n, (iterLocal i status n (p, link)).1.pc = .idle ∧
      (Free status (iterLocal i status n (p, link)).2 ∨ Acquired i (iterLocal i status n (p, link))) := by
  rcases p with ⟨pc, locked, clean, last⟩
  rcases hf with rfl | ⟨d, rfl, hd⟩
  · cases pc with
    | lKill c x => rcases hx : status x <;> first | try_n 1 | try_n 2 | try_n 3
    | _ => first | try_n 0 | try_n 1 | try_n 2 | try_n 3
  · have hdi : ¬ d = i := by rintro rfl; rw [ha] at hd; cases hd
    cases pc with
    | lKill c x => rcases hx : status x <;> first | try_n 1 | try_n 2 | try_n 3
    | _ => first | try_n 0 | try_n 1 | try_n 2 | try_n 3 | try_n 4 | try_n 5


theorem local_acquire (i : Nat) (status : Nat → Status) (p : Proc) (link : Option Nat)
    (hf : Free status link) :
    ∃ n, Acquired i (iterLocal i status n ({ p with pc := .lSymlink true }, link)) := by
  rcases p with ⟨pc, locked, clean, last⟩
  rcases hf with rfl | ⟨d, rfl, hd⟩
  · try_n 1
  · try_n 5

/-- events of process `i` that only continue or start a `lock()` -/
def lockOnly (i : Nat) (e : Ev) : Prop := e = .lock i ∨ e = .step i

/-- **A lock left by a dead process can be acquired**: from ANY state in which the lock path is
    absent or names a dead pid, every live process — wherever it is in `lock()`/`unlock()` — acquires
    the lock when it runs alone: finishing the pending call and, if that did not acquire, one more
    `lock()`.  No fairness or reachability assumption. -/
theorem stale_lock_eventually_acquirable (s : Sys) (i : Nat) (ha : s.status i = .alive)
    (hf : Free s.status s.link) :
    ∃ es : List Ev, (∀ e ∈ es, lockOnly i e) ∧
      holds (run s es) i ∧ (run s es).link = some i ∧
      ((run s es).procs i).last = .retTrue ∧ ((run s es).procs i).pc = .idle := by
  obtain ⟨n, hidle, hfa⟩ := local_finish i s.status (s.procs i) s.link ha hf
  obtain ⟨q1, q2, q3⟩ := solo_steps s i n ha
  rcases hfa with hfree | hacq
  · -- idle with the path still free: call lock()
    generalize hs1 : run s (List.replicate n (.step i)) = s1 at *
    have a1 : s1.status i = .alive := by rw [q3]; exact ha
    have f1 : Free s1.status s1.link := by rw [q3, q2]; exact hfree
    have idle1 : (s1.procs i).pc = .idle := by rw [q1]; exact hidle
    obtain ⟨m, hm⟩ := local_acquire i s1.status (s1.procs i) s1.link f1
    have e2 : (apply s1 (.lock i)).status = s1.status := by simp [apply, a1, enter, idle1]
    have a2 : (apply s1 (.lock i)).status i = .alive := by rw [e2]; exact a1
    obtain ⟨r1, r2, r3⟩ := solo_steps (apply s1 (.lock i)) i m a2
    have p2 : (apply s1 (.lock i)).procs i = { s1.procs i with pc := .lSymlink true } := by
      simp [apply, a1, enter, idle1, setProc_same]
    have l2 : (apply s1 (.lock i)).link = s1.link := by simp [apply, a1, enter, idle1]
    rw [p2, l2, e2] at r1 r2
    refine ⟨List.replicate n (.step i) ++ (.lock i :: List.replicate m (.step i)), ?_, ?_⟩
    · intro e he
      simp only [List.mem_append, List.mem_cons, List.mem_replicate] at he
      rcases he with ⟨_, rfl⟩ | rfl | ⟨_, rfl⟩
      · exact Or.inr rfl
      · exact Or.inl rfl
      · exact Or.inr rfl
    · rw [run_append, hs1, run_cons]
      obtain ⟨h1, h2, h3, h4⟩ := hm
      refine ⟨⟨?_, ?_⟩, ?_, ?_, ?_⟩
      · rw [r3, e2]; exact a1
      · rw [r1]; exact h2
      · rw [r2]; exact h4
      · rw [r1]; exact h3
      · rw [r1]; exact h1
  · refine ⟨List.replicate n (.step i), ?_, ?_⟩
    · intro e he
      simp only [List.mem_replicate] at he
      exact Or.inr he.2
    · obtain ⟨h1, h2, h3, h4⟩ := hacq
      refine ⟨⟨?_, ?_⟩, ?_, ?_, ?_⟩
      · rw [q3]; exact ha
      · rw [q1]; exact h2
      · rw [q2]; exact h4
      · rw [q1]; exact h3
      · rw [q1]; exact h1

/-- non-vacuity of `stale_lock_eventually_acquirable`: dead pid 7 owns the link, process 0 is in the
    middle of `lock()` (about to probe pid 7), process 1 is about to `rmlink` -/
example :
    let s := run (init (some 7) (stAlive [0, 1])) [.lock 1, .step 1, .step 1, .step 1, .lock 0, .step 0, .step 0]
    s.status 0 = .alive ∧ Free s.status s.link ∧ (s.procs 0).pc = .lKill true 7 :=
  ⟨by decide, Or.inr ⟨7, by decide, by decide⟩, by decide⟩

/-- the common case spelled out: an idle live process facing a dead owner's link acquires it in
    exactly five primitives (EEXIST, readlink, kill→ESRCH, rmlink, symlink) and reports `clean = False` -/
theorem stale_lock_acquired_in_five (s : Sys) (i d : Nat) (ha : s.status i = .alive)
    (hidle : (s.procs i).pc = .idle) (hl : s.link = some d) (hd : s.status d = .dead) :
    let s' := run s [.lock i, .step i, .step i, .step i, .step i, .step i]
    holds s' i ∧ s'.link = some i ∧ (s'.procs i).last = .retTrue ∧ (s'.procs i).clean = some false := by
  simp [run, apply, enter, stepProc, stepLocal, setProc, holds, ha, hidle, hl, hd]

end TwistedProps.C50
