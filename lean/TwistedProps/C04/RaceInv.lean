import TwistedModel.Defer.Aggregate
/-!
C04 — invariants of `race` states (lemmas for `TwistedProps/C04.lean`): `NI` holds at every point, also inside
`succeeded`'s cancel loop; `RI` (= `NI` + a race with a winner has fired) at every reachable top-level state.
-/
namespace TwistedProps.C04
set_option linter.unusedSimpArgs false
set_option linter.unusedVariables false
open Twisted.Defer.Aggregate

/-- a delivery with a success result -/
def isSucc (e : Nat × Res) : Bool := !e.2.isFailure

/-- invariant of every race state, also in the middle of `succeeded`'s cancel loop -/
structure NI (n : Nat) (s : Race) : Prop where
  len : s.inputs.length = n
  unm : s.unmodelled = false
  called : s.finalCalled = !s.fires.isEmpty
  once : s.fires.length ≤ 1
  win : s.winner = (s.log.find? isSucc).map (·.1)
  won : ∀ (i : Nat) (v : Res), RaceRes.won i v ∈ s.fires → s.log.find? isSucc = some (i, v)
  fg : ∀ fs, RaceRes.failureGroup fs ∈ s.fires → ∃ st : List (Nat × Res), fs = st.map (·.2) ∧
        st.Pairwise (fun a b => a.1 ≤ b.1) ∧ st.length = n ∧ ∀ x ∈ st, x ∈ s.log ∧ x.2.isFailure = true
  fst : ∀ x ∈ s.failureState, x ∈ s.log ∧ x.2.isFailure = true

def Ext (s s' : Race) : Prop := ∃ ext, s'.log = s.log ++ ext

theorem Ext.refl (s : Race) : Ext s s := ⟨[], by simp⟩
theorem Ext.trans {a b c : Race} (h1 : Ext a b) (h2 : Ext b c) : Ext a c := by
  obtain ⟨e1, h1⟩ := h1; obtain ⟨e2, h2⟩ := h2
  exact ⟨e1 ++ e2, by rw [h2, h1, List.append_assoc]⟩

theorem find_ext {s s' : Race} (h : Ext s s') {x : Nat × Res} (hx : s.log.find? isSucc = some x) :
    s'.log.find? isSucc = some x := by
  obtain ⟨e, he⟩ := h
  rw [he, List.find?_append, hx]; rfl

theorem NI.setInputs {n : Nat} {s : Race} (h : NI n s) (inputs' : List Inp) (hl : inputs'.length = n) :
    NI n { s with inputs := inputs' } :=
  ⟨hl, h.unm, h.called, h.once, h.win, h.won, h.fg, h.fst⟩

/-! sorting by index -/
theorem mem_insertByIdx (x y : Nat × Res) (l : List (Nat × Res)) : y ∈ insertByIdx x l ↔ y = x ∨ y ∈ l := by
  induction l with
  | nil => simp [insertByIdx]
  | cons z zs ih =>
    simp only [insertByIdx]; split
    · simp
    · simp [ih]; grind

theorem mem_sortByIdx (y : Nat × Res) (l : List (Nat × Res)) : y ∈ sortByIdx l ↔ y ∈ l := by
  induction l with
  | nil => simp [sortByIdx]
  | cons z zs ih => simp [sortByIdx, mem_insertByIdx, ih]

theorem length_insertByIdx (x : Nat × Res) (l : List (Nat × Res)) : (insertByIdx x l).length = l.length + 1 := by
  induction l with
  | nil => simp [insertByIdx]
  | cons z zs ih => simp only [insertByIdx]; split <;> simp [ih]

theorem length_sortByIdx (l : List (Nat × Res)) : (sortByIdx l).length = l.length := by
  induction l with
  | nil => simp [sortByIdx]
  | cons z zs ih => simp [sortByIdx, length_insertByIdx, ih]

theorem sorted_insertByIdx (x : Nat × Res) (l : List (Nat × Res)) (h : l.Pairwise (fun a b => a.1 ≤ b.1)) :
    (insertByIdx x l).Pairwise (fun a b => a.1 ≤ b.1) := by
  induction l with
  | nil => simp [insertByIdx]
  | cons z zs ih =>
    simp only [insertByIdx]; split
    · rename_i hle
      rw [List.pairwise_cons] at h ⊢
      refine ⟨?_, List.pairwise_cons.2 h⟩
      intro a ha
      rcases List.mem_cons.1 ha with rfl | ha
      · exact hle
      · exact Nat.le_trans hle (h.1 a ha)
    · rename_i hle
      rw [List.pairwise_cons] at h ⊢
      refine ⟨?_, ih h.2⟩
      intro a ha
      rcases (mem_insertByIdx x a zs).1 ha with rfl | ha
      · omega
      · exact h.1 a ha

theorem sorted_sortByIdx (l : List (Nat × Res)) : (sortByIdx l).Pairwise (fun a b => a.1 ≤ b.1) := by
  induction l with
  | nil => simp [sortByIdx]
  | cons z zs ih => exact sorted_insertByIdx z _ ih

/-! the closures -/

theorem fireFinal_ni {n : Nat} {s : Race} (h : NI n s) (x : RaceRes)
    (hwon : ∀ i v, x = .won i v → s.log.find? isSucc = some (i, v))
    (hfg : ∀ fs, x = .failureGroup fs → ∃ st : List (Nat × Res), fs = st.map (·.2) ∧
        st.Pairwise (fun a b => a.1 ≤ b.1) ∧ st.length = n ∧ ∀ x ∈ st, x ∈ s.log ∧ x.2.isFailure = true) :
    NI n (Race.fireFinal s x).1 ∧ (Race.fireFinal s x).1.finalCalled = true ∧
      (Race.fireFinal s x).1.log = s.log ∧ (Race.fireFinal s x).1.winner = s.winner := by
  unfold Race.fireFinal
  split
  · rename_i hc; exact ⟨h, hc, rfl, rfl⟩
  · rename_i hc
    have hc' : s.finalCalled = false := by simpa using hc
    have hf : s.fires = [] := by have := h.called; rw [hc'] at this; simpa using this.symm
    refine ⟨⟨h.len, h.unm, by simp, by simp [hf], h.win, ?_, ?_, h.fst⟩, rfl, rfl, rfl⟩
    · intro i v hm; simp [hf] at hm; exact hwon i v hm.symm
    · intro fs hm; simp [hf] at hm; exact hfg fs hm.symm

theorem failed_ni {n : Nat} {s : Race} (h : NI n s) (j : Nat) (f : Res) (hf : f.isFailure = true) :
    NI n (Race.failed s j f).1 ∧ Ext s (Race.failed s j f).1 ∧ (Race.failed s j f).1.winner = s.winner ∧
      (s.finalCalled = true → (Race.failed s j f).1.finalCalled = true) := by
  have hfind : (s.log ++ [(j, f)]).find? isSucc = s.log.find? isSucc := by
    rw [List.find?_append]; simp [isSucc, hf]
  have h1 : NI n { s with failureState := s.failureState ++ [(j, f)], log := s.log ++ [(j, f)] } := by
    refine ⟨h.len, h.unm, h.called, h.once, by simp only [hfind]; exact h.win, ?_, ?_, ?_⟩
    · intro i v hm; simp only [hfind]; exact h.won i v hm
    · intro fs hm
      obtain ⟨st, a, b, c, d⟩ := h.fg fs hm
      exact ⟨st, a, b, c, fun x hx => ⟨by simp [(d x hx).1], (d x hx).2⟩⟩
    · intro x hx
      simp only [List.mem_append, List.mem_singleton] at hx ⊢
      rcases hx with hx | hx
      · exact ⟨Or.inl (h.fst x hx).1, (h.fst x hx).2⟩
      · subst hx; exact ⟨Or.inr rfl, hf⟩
  unfold Race.failed
  simp only []
  split
  · rename_i hlen
    have h2 : NI n { s with failureState := sortByIdx (s.failureState ++ [(j, f)]), log := s.log ++ [(j, f)] } := by
      refine ⟨h1.len, h1.unm, h1.called, h1.once, h1.win, h1.won, h1.fg, ?_⟩
      intro x hx
      exact h1.fst x ((mem_sortByIdx x _).1 hx)
    have := fireFinal_ni h2 (.failureGroup ((sortByIdx (s.failureState ++ [(j, f)])).map (·.2)))
      (by intro i v hx; cases hx)
      (by
        intro fs hx
        injection hx with hx
        refine ⟨_, hx.symm, sorted_sortByIdx _, ?_, ?_⟩
        · rw [length_sortByIdx]
          have : (s.failureState ++ [(j, f)]).length = s.inputs.length := by simpa using hlen
          rw [this, h.len]
        · intro x hx; exact h1.fst x ((mem_sortByIdx x _).1 hx))
    exact ⟨this.1, ⟨[(j, f)], by rw [this.2.2.1]⟩, by rw [this.2.2.2], fun _ => this.2.1⟩
  · exact ⟨h1, ⟨[(j, f)], rfl⟩, rfl, fun hc => hc⟩


/-- `s'` is reached from `s` by race code: invariant kept, log only extended, winner unchanged,
    the result Deferred stays fired -/
structure Nst (n : Nat) (s s' : Race) : Prop where
  ni : NI n s'
  ext : Ext s s'
  win : s'.winner = s.winner
  mono : s.finalCalled = true → s'.finalCalled = true

theorem Nst.rfl' {n : Nat} {s : Race} (h : NI n s) : Nst n s s := ⟨h, Ext.refl _, rfl, fun hc => hc⟩

theorem Nst.trans {n : Nat} {a b c : Race} (h1 : Nst n a b) (h2 : Nst n b c) : Nst n a c :=
  ⟨h2.ni, h1.ext.trans h2.ext, by rw [h2.win, h1.win], fun hc => h2.mono (h1.mono hc)⟩

theorem nst_setInputs {n : Nat} {s : Race} (h : NI n s) (inputs' : List Inp) (hl : inputs'.length = n) :
    Nst n s { s with inputs := inputs' } := ⟨h.setInputs inputs' hl, Ext.refl _, rfl, fun hc => hc⟩

theorem succeededNested_ni {n : Nat} {s : Race} (h : NI n s) (hw : s.winner.isSome = true) (j : Nat) (v : Res)
    (hv : v.isFailure = false) : Nst n s (Race.succeededNested s j v).1 := by
  obtain ⟨w, hw'⟩ := Option.isSome_iff_exists.1 hw
  have hfs : ∃ x, s.log.find? isSucc = some x := by
    have := h.win; rw [hw'] at this
    cases hf : s.log.find? isSucc with
    | none => rw [hf] at this; simp at this
    | some x => exact ⟨x, rfl⟩
  obtain ⟨x, hx⟩ := hfs
  have hfind : (s.log ++ [(j, v)]).find? isSucc = s.log.find? isSucc := by
    rw [List.find?_append, hx]; rfl
  unfold Race.succeededNested
  simp only []
  split
  · rename_i hn; simp [hw'] at hn
  refine ⟨⟨h.len, h.unm, h.called, h.once, by simp only [hfind]; exact h.win, ?_, ?_, ?_⟩, ⟨[(j, v)], rfl⟩, rfl, fun hc => hc⟩
  · intro i v' hm; simp only [hfind]; exact h.won i v' hm
  · intro fs hm
    obtain ⟨st, a, b, c, d⟩ := h.fg fs hm
    exact ⟨st, a, b, c, fun x hx => ⟨by simp [(d x hx).1], (d x hx).2⟩⟩
  · intro x hx; exact ⟨by simp [(h.fst x hx).1], (h.fst x hx).2⟩

theorem callbackNested_ni {n : Nat} {s : Race} (h : NI n s) (hw : s.winner.isSome = true) (j : Nat) (r : Res) :
    Nst n s (Race.callbackNested s j r).1 := by
  unfold Race.callbackNested
  split
  · rename_i hf; have := failed_ni h j r hf; exact ⟨this.1, this.2.1, this.2.2.1, this.2.2.2⟩
  · rename_i hf; exact succeededNested_ni h hw j r (by simpa using hf)

theorem deliverNested_ni {n : Nat} {s : Race} (h : NI n s) (hw : s.winner.isSome = true) (j : Nat) (inp : Inp) (r : Res) :
    Nst n s (Race.deliverNested s j inp r) := by
  unfold Race.deliverNested
  simp only []
  have h1 := nst_setInputs h (s.inputs.set j { inp with res := some r, canc := .none }) (by simp [h.len])
  split
  · have h2 := callbackNested_ni h1.ni (by rw [h1.win]; exact hw) j r
    have h3 := nst_setInputs h2.ni ((Race.callbackNested { s with inputs := s.inputs.set j { inp with res := some r, canc := .none } } j r).1.inputs.set j
      { inp with res := some (Race.callbackNested { s with inputs := s.inputs.set j { inp with res := some r, canc := .none } } j r).2, canc := .none })
      (by simp [h2.ni.len])
    exact (h1.trans h2).trans h3
  · exact h1

theorem cancelNested_ni {n : Nat} {s : Race} (h : NI n s) (hw : s.winner.isSome = true) (j : Nat) :
    Nst n s (Race.cancelNested s j) := by
  unfold Race.cancelNested
  split
  · exact Nst.rfl' h
  · rename_i inp hin
    simp only []
    split
    · exact nst_setInputs h _ (by simp [h.len])
    · split
      · exact nst_setInputs h _ (by simp [h.len])
      · have h1 := nst_setInputs h (s.inputs.set j (if inp.canc.effect.2 = true then
            { inp with cancels := inp.cancels + 1, cancCalls := inp.cancCalls + 1 }
            else { inp with cancels := inp.cancels + 1 })) (by simp [h.len])
        exact h1.trans (deliverNested_ni h1.ni (by rw [h1.win]; exact hw) j _ _)

theorem cancelOthers_ni {n : Nat} (w : Nat) (js : List Nat) {s : Race} (h : NI n s) (hw : s.winner.isSome = true) :
    Nst n s (Race.cancelOthers s w js) := by
  induction js generalizing s with
  | nil => exact Nst.rfl' h
  | cons j js ih =>
    simp only [Race.cancelOthers]
    split
    · exact ih h hw
    · have h1 := cancelNested_ni h hw j
      exact h1.trans (ih h1.ni (by rw [h1.win]; exact hw))

/-! top level -/

/-- `s'` is reached from `s` by top-level race code -/
structure Top (n : Nat) (s s' : Race) : Prop where
  ni : NI n s'
  ext : Ext s s'
  win : s.winner.isSome = true → s'.winner = s.winner
  mono : s.finalCalled = true → s'.finalCalled = true
  done : s'.winner.isSome = true → s.winner.isSome = false → s'.finalCalled = true

theorem Top.rfl' {n : Nat} {s : Race} (h : NI n s) : Top n s s :=
  ⟨h, Ext.refl _, fun _ => rfl, fun hc => hc, fun h1 h2 => by rw [h1] at h2; cases h2⟩

theorem Top.trans {n : Nat} {a b c : Race} (h1 : Top n a b) (h2 : Top n b c) : Top n a c := by
  refine ⟨h2.ni, h1.ext.trans h2.ext, ?_, fun hc => h2.mono (h1.mono hc), ?_⟩
  · intro hw
    have := h1.win hw
    rw [h2.win (by rw [this]; exact hw), this]
  · intro hc ha
    cases hb : b.winner.isSome with
    | true => exact h2.mono (h1.done hb ha)
    | false => exact h2.done hc hb

theorem Nst.toTop {n : Nat} {s s' : Race} (h : Nst n s s') : Top n s s' :=
  ⟨h.ni, h.ext, fun _ => h.win, h.mono, fun h1 h2 => by rw [h.win, h2] at h1; cases h1⟩

theorem succeeded_top {n : Nat} {s : Race} (h : NI n s) (i : Nat) (v : Res) (hv : v.isFailure = false) :
    Top n s (Race.succeeded s i v).1 := by
  unfold Race.succeeded
  simp only []
  split
  · rename_i hn
    have hwn : s.winner = none := by simpa using hn
    have hfn : s.log.find? isSucc = none := by
      have := h.win; rw [hwn] at this
      cases hf : s.log.find? isSucc with
      | none => rfl
      | some x => rw [hf] at this; simp at this
    have hfind : (s.log ++ [(i, v)]).find? isSucc = some (i, v) := by
      rw [List.find?_append, hfn]; simp [isSucc, hv]
    have h1 : NI n { s with log := s.log ++ [(i, v)], winner := some i } := by
      refine ⟨h.len, h.unm, h.called, h.once, by simp [hfind], ?_, ?_, ?_⟩
      · intro i' v' hm; have := h.won i' v' hm; rw [hfn] at this; cases this
      · intro fs hm
        obtain ⟨st, a, b, c, d⟩ := h.fg fs hm
        exact ⟨st, a, b, c, fun x hx => ⟨by simp [(d x hx).1], (d x hx).2⟩⟩
      · intro x hx; exact ⟨by simp [(h.fst x hx).1], (h.fst x hx).2⟩
    have h2 := cancelOthers_ni i (List.range s.inputs.length) h1 rfl
    have hf2 := find_ext h2.ext hfind
    have h3 := fireFinal_ni h2.ni (.won i v) (by intro i' v' hx; injection hx with ha hb; subst ha; subst hb; exact hf2)
      (by intro fs hx; cases hx)
    refine ⟨h3.1, ?_, ?_, ?_, ?_⟩
    · obtain ⟨e, he⟩ := h2.ext
      exact ⟨[(i, v)] ++ e, by rw [h3.2.2.1, he]; simp⟩
    · intro hw; rw [hwn] at hw; cases hw
    · intro _; exact h3.2.1
    · intro _ _; exact h3.2.1
  · rename_i hn
    have hw : s.winner.isSome = true := by
      cases hx : s.winner with
      | none => rw [hx] at hn; simp at hn
      | some w => rfl
    have := succeededNested_ni h hw i v hv
    unfold Race.succeededNested at this
    simp only [] at this
    rw [if_neg hn] at this
    exact this.toTop


theorem top_setInputs {n : Nat} {s : Race} (h : NI n s) (inputs' : List Inp) (hl : inputs'.length = n) :
    Top n s { s with inputs := inputs' } := (nst_setInputs h inputs' hl).toTop

theorem callback_top {n : Nat} {s : Race} (h : NI n s) (j : Nat) (r : Res) : Top n s (Race.callback s j r).1 := by
  unfold Race.callback
  split
  · rename_i hf; have := failed_ni h j r hf
    exact (Nst.mk this.1 this.2.1 this.2.2.1 this.2.2.2).toTop
  · rename_i hf; exact succeeded_top h j r (by simpa using hf)

theorem deliver_top {n : Nat} {s : Race} (h : NI n s) (j : Nat) (inp : Inp) (r : Res) :
    Top n s (Race.deliver s j inp r) := by
  unfold Race.deliver
  simp only []
  have h1 := top_setInputs h (s.inputs.set j { inp with res := some r, canc := .none }) (by simp [h.len])
  split
  · have h2 := callback_top h1.ni j r
    split
    · exact h1.trans h2
    · exact (h1.trans h2).trans (top_setInputs h2.ni _ (by simp [h2.ni.len]))
  · exact h1

theorem fireInput_top {n : Nat} {s : Race} (h : NI n s) (i : Nat) (r : Res) : Top n s (Race.fireInput s i r) := by
  unfold Race.fireInput
  split
  · exact Top.rfl' h
  · split
    · exact Top.rfl' h
    · exact deliver_top h i _ r

theorem cancelInput_top {n : Nat} {s : Race} (h : NI n s) (j : Nat) : Top n s (Race.cancelInput s j) := by
  unfold Race.cancelInput
  split
  · exact Top.rfl' h
  · rename_i inp hin
    simp only []
    split
    · exact top_setInputs h _ (by simp [h.len])
    · split
      · exact top_setInputs h _ (by simp [h.len])
      · have h1 := top_setInputs h (s.inputs.set j (if inp.canc.effect.2 = true then
            { inp with cancels := inp.cancels + 1, cancCalls := inp.cancCalls + 1 }
            else { inp with cancels := inp.cancels + 1 })) (by simp [h.len])
        exact h1.trans (deliver_top h1.ni j _ _)

theorem cancelLoop_top {n : Nat} (js : List Nat) {s : Race} (h : NI n s) : Top n s (Race.cancelLoop s js) := by
  induction js generalizing s with
  | nil => exact Top.rfl' h
  | cons j js ih =>
    simp only [Race.cancelLoop]
    have h1 := cancelInput_top h j
    exact h1.trans (ih h1.ni)

theorem cancelAgg_top {n : Nat} {s : Race} (h : NI n s) : Top n s (Race.cancelAgg s) := by
  unfold Race.cancelAgg
  split
  · exact Top.rfl' h
  · simp only []
    have h1 := cancelLoop_top (List.range s.inputs.length) h
    split
    · have h2 := fireFinal_ni h1.ni .cancelledErr (by intro i v hx; cases hx) (by intro fs hx; cases hx)
      refine ⟨h2.1, ?_, ?_, fun _ => h2.2.1, fun _ _ => h2.2.1⟩
      · obtain ⟨e, he⟩ := h1.ext; exact ⟨e, by rw [h2.2.2.1, he]⟩
      · intro hw; rw [h2.2.2.2]; exact h1.win hw
    · exact h1

theorem step_top {n : Nat} {s : Race} (h : NI n s) (op : Op) : Top n s (Race.step s op) := by
  cases op with
  | fire i r => exact fireInput_top h i r
  | cancelAgg => exact cancelAgg_top h
  | cancelInput i => exact cancelInput_top h i

theorem attach_top {n : Nat} {s : Race} (h : NI n s) (j : Nat) : Top n s (Race.attach s j) := by
  unfold Race.attach
  split
  · exact Top.rfl' h
  · split
    · exact ⟨⟨h.len, h.unm, h.called, h.once, h.win, h.won, h.fg, h.fst⟩, Ext.refl _, fun _ => rfl, fun hc => hc,
        fun h1 h2 => by simp only [] at h1; rw [h1] at h2; cases h2⟩
    · rename_i r hr
      have h2 := callback_top h j r
      simp only []
      split
      · exact h2
      · have h3 : Top n (Race.callback s j r).1 { (Race.callback s j r).1 with
            inputs := (Race.callback s j r).1.inputs.set j { (‹Inp› : Inp) with res := some (Race.callback s j r).2 },
            attached := j + 1 } :=
          ⟨⟨by simp [h2.ni.len], h2.ni.unm, h2.ni.called, h2.ni.once, h2.ni.win, h2.ni.won, h2.ni.fg, h2.ni.fst⟩,
            Ext.refl _, fun _ => rfl, fun hc => hc, fun h1 h2 => by simp only [] at h1; rw [h1] at h2; cases h2⟩
        exact h2.trans h3

/-- reachable (top-level) race states: the invariant, and a race that has a winner has fired -/
structure RI (n : Nat) (s : Race) : Prop where
  ni : NI n s
  done : s.winner.isSome = true → s.finalCalled = true

theorem RI.step {n : Nat} {s s' : Race} (h : RI n s) (t : Top n s s') : RI n s' := by
  refine ⟨t.ni, fun hw => ?_⟩
  cases hs : s.winner.isSome with
  | true => exact t.mono (h.done hs)
  | false => exact t.done hw hs

theorem attachLoop_ri {n : Nat} (js : List Nat) {s : Race} (h : RI n s) : RI n (Race.attachLoop s js) := by
  induction js generalizing s with
  | nil => exact h
  | cons j js ih => exact ih (h.step (attach_top h.ni j))

theorem exec_ri {n : Nat} (ops : List Op) {s : Race} (h : RI n s) : RI n (Race.exec s ops) := by
  induction ops generalizing s with
  | nil => exact h
  | cons op ops ih => exact ih (h.step (step_top h.ni op))

theorem run_ri (inputs : List Inp) (ops : List Op) : RI inputs.length (Race.run inputs ops) := by
  unfold Race.run Race.construct
  apply exec_ri
  apply attachLoop_ri
  refine ⟨⟨rfl, rfl, rfl, by simp, rfl, ?_, ?_, ?_⟩, fun hw => by cases hw⟩
  · intro i v hm; cases hm
  · intro fs hm; cases hm
  · intro x hx; cases hx

end TwistedProps.C04
