import TwistedModel.Defer.Aggregate
/-!
C04 — `cancel()` calls received by the inputs of a `race` (lemmas for `TwistedProps/C04.lean`), for EVERY state (no
reachability needed): what `succeeded`'s cancel loop and the race's canceller do to each input's `cancels` counter.
`R a k s s'`: from `s` to `s'` input `k` received `a` calls of `cancel()`, plus one more if the first success happened
in between and `k` is not the winner; a winner, once set, stays.
-/
namespace TwistedProps.C04
set_option linter.unusedSimpArgs false
set_option linter.unusedVariables false
open Twisted.Defer.Aggregate

theorem failed_inputs (s : Race) (j : Nat) (f : Res) : (Race.failed s j f).1.inputs = s.inputs := by
  unfold Race.failed Race.fireFinal
  simp only []
  split
  · split <;> rfl
  · rfl

theorem callbackNested_inputs (s : Race) (j : Nat) (r : Res) : (Race.callbackNested s j r).1.inputs = s.inputs := by
  unfold Race.callbackNested Race.succeededNested
  split
  · exact failed_inputs s j r
  · simp only []; split <;> rfl

theorem getElem?_some_lt {α} {l : List α} {i : Nat} {x : α} (h : l[i]? = some x) : i < l.length := by
  rcases Nat.lt_or_ge i l.length with h1 | h1
  · exact h1
  · rw [List.getElem?_eq_none h1] at h; simp at h

theorem deliverNested_inputs (s : Race) (j : Nat) (inp : Inp) (r : Res) :
    ∃ X : Inp, (Race.deliverNested s j inp r).inputs = s.inputs.set j X ∧ X.cancels = inp.cancels := by
  unfold Race.deliverNested
  simp only []
  split
  · exact ⟨{ inp with res := some (Race.callbackNested
        { s with inputs := s.inputs.set j { inp with res := some r, canc := .none } } j r).2, canc := .none },
      by rw [callbackNested_inputs]; simp only [List.set_set], rfl⟩
  · exact ⟨{ inp with res := some r, canc := .none }, rfl, rfl⟩

theorem cancelNested_inputs (s : Race) (j : Nat) (inp : Inp) (h : s.inputs[j]? = some inp) :
    ∃ X : Inp, (Race.cancelNested s j).inputs = s.inputs.set j X ∧ X.cancels = inp.cancels + 1 := by
  unfold Race.cancelNested
  rw [h]
  simp only []
  split
  · exact ⟨_, rfl, rfl⟩
  · split
    · refine ⟨_, rfl, ?_⟩; split <;> rfl
    · rename_i r hr
      obtain ⟨X, hX, hc⟩ := deliverNested_inputs
        { s with inputs := s.inputs.set j (if inp.canc.effect.2 = true then
            { inp with cancels := inp.cancels + 1, cancCalls := inp.cancCalls + 1 }
            else { inp with cancels := inp.cancels + 1 }) } j
        (if inp.canc.effect.2 = true then
            { inp with cancels := inp.cancels + 1, cancCalls := inp.cancCalls + 1 }
            else { inp with cancels := inp.cancels + 1 }) r
      refine ⟨X, ?_, ?_⟩
      · rw [hX]; simp only [List.set_set]
      · rw [hc]; split <;> rfl

theorem cancelNested_cancels (s : Race) (j i : Nat) :
    ((Race.cancelNested s j).inputs[i]?).map (·.cancels) =
      (s.inputs[i]?).map (fun x => x.cancels + if i = j then 1 else 0) := by
  cases hj : s.inputs[j]? with
  | none =>
    have : Race.cancelNested s j = s := by unfold Race.cancelNested; rw [hj]
    rw [this]
    by_cases hij : i = j
    · subst hij; simp [hj]
    · simp [hij]
  | some inp =>
    obtain ⟨X, hX, hc⟩ := cancelNested_inputs s j inp hj
    rw [hX, List.getElem?_set]
    by_cases hij : j = i
    · subst hij
      have hlt := getElem?_some_lt hj
      have hg : s.inputs[j] = inp := by
        rw [List.getElem?_eq_getElem hlt] at hj; exact Option.some.inj hj
      simp [hlt, hg, hc]
    · have : ¬ i = j := fun e => hij e.symm
      simp [hij, this]

theorem cancelOthers_cancels (w : Nat) (js : List Nat) (s : Race) (i : Nat) :
    ((Race.cancelOthers s w js).inputs[i]?).map (·.cancels) =
      (s.inputs[i]?).map (fun x => x.cancels + if i = w then 0 else js.count i) := by
  induction js generalizing s with
  | nil => simp [Race.cancelOthers]
  | cons j js ih =>
    simp only [Race.cancelOthers]
    rw [ih]
    by_cases hjw : j = w
    · simp only [hjw, if_true]
      cases s.inputs[i]? with
      | none => rfl
      | some y =>
        simp only [Option.map_some, List.count_cons]
        by_cases hiw : i = w
        · simp [hiw]
        · have : ¬ w = i := fun e => hiw e.symm
          simp [hiw, this]
    · simp only [hjw, if_false]
      have h1 := cancelNested_cancels s j i
      cases hx : (Race.cancelNested s j).inputs[i]? with
      | none =>
        rw [hx] at h1
        cases hy : s.inputs[i]? with
        | none => rfl
        | some y => rw [hy] at h1; simp at h1
      | some x =>
        rw [hx] at h1
        cases hy : s.inputs[i]? with
        | none => rw [hy] at h1; simp at h1
        | some y =>
          rw [hy] at h1
          simp only [Option.map_some, List.count_cons, Option.some.injEq] at h1 ⊢
          by_cases hiw : i = w
          · simp [hiw]
            subst hiw
            have : ¬ i = j := fun e => hjw e.symm
            simp [this] at h1; omega
          · simp only [hiw, if_false]
            by_cases hij : i = j
            · subst hij; simp at h1 ⊢; omega
            · have : ¬ j = i := fun e => hij e.symm
              simp [hij, this] at h1 ⊢; omega

/-! the winner is only ever set by a top-level `succeeded` -/

theorem failed_winner (s : Race) (j : Nat) (f : Res) : (Race.failed s j f).1.winner = s.winner := by
  unfold Race.failed Race.fireFinal
  simp only []
  split
  · split <;> rfl
  · rfl

theorem callbackNested_winner (s : Race) (j : Nat) (r : Res) : (Race.callbackNested s j r).1.winner = s.winner := by
  unfold Race.callbackNested Race.succeededNested
  split
  · exact failed_winner s j r
  · simp only []; split <;> rfl

theorem deliverNested_winner (s : Race) (j : Nat) (inp : Inp) (r : Res) :
    (Race.deliverNested s j inp r).winner = s.winner := by
  unfold Race.deliverNested
  simp only []
  split
  · simp only [callbackNested_winner]
  · rfl

theorem cancelNested_winner (s : Race) (j : Nat) : (Race.cancelNested s j).winner = s.winner := by
  unfold Race.cancelNested
  split
  · rfl
  · simp only []
    split
    · rfl
    · split
      · rfl
      · rw [deliverNested_winner]

theorem cancelOthers_winner (w : Nat) (js : List Nat) (s : Race) : (Race.cancelOthers s w js).winner = s.winner := by
  induction js generalizing s with
  | nil => rfl
  | cons j js ih =>
    simp only [Race.cancelOthers]
    rw [ih]
    split
    · rfl
    · exact cancelNested_winner s j

/-! counting -/

/-- `cancel()` calls received so far by input `k` -/
def cancelsOf (s : Race) (k : Nat) : Option Nat := (s.inputs[k]?).map (·.cancels)

/-- the one `cancel()` that the first success `w` gives every other input -/
def extra : Option Nat → Nat → Nat
  | some w, k => if k = w then 0 else 1
  | none, _ => 0

structure R (a k : Nat) (s s' : Race) : Prop where
  cnt : cancelsOf s' k = (cancelsOf s k).map (fun x => x + a + (if s.winner.isNone then extra s'.winner k else 0))
  win : s.winner.isSome = true → s'.winner = s.winner

theorem R.of_same {a k : Nat} {s s' : Race} (hw : s'.winner = s.winner)
    (hc : cancelsOf s' k = (cancelsOf s k).map (fun x => x + a)) : R a k s s' := by
  refine ⟨?_, fun _ => hw⟩
  rw [hc, hw]
  cases hs : s.winner <;> simp [extra]

theorem R.rfl' (k : Nat) (s : Race) : R 0 k s s := R.of_same rfl (by cases cancelsOf s k <;> simp)

theorem R.trans {a a' k : Nat} {s s' s'' : Race} (h1 : R a k s s') (h2 : R a' k s' s'') : R (a + a') k s s'' := by
  refine ⟨?_, ?_⟩
  · rw [h2.cnt, h1.cnt]
    cases hs : s.winner with
    | some w =>
      have := h1.win (by rw [hs]; rfl)
      rw [hs] at this
      simp [this, Option.map_map]
      cases cancelsOf s k <;> simp; omega
    | none =>
      cases hs' : s'.winner with
      | some w' =>
        have := h2.win (by rw [hs']; rfl)
        rw [hs'] at this
        simp [this, extra, Option.map_map]
        cases cancelsOf s k <;> simp; omega
      | none =>
        simp [extra, Option.map_map]
        cases cancelsOf s k <;> simp; omega
  · intro hw
    have := h1.win hw
    rw [h2.win (by rw [this]; exact hw), this]

theorem R.cast {a a' k : Nat} {s s' : Race} (h : R a k s s') (e : a = a') : R a' k s s' := e ▸ h

/-- overwriting the record of input `j` by one with `a` more `cancel()` calls -/
theorem R.setInputs (k : Nat) (s : Race) (j : Nat) (X Y : Inp) (a : Nat) (hY : s.inputs[j]? = some Y)
    (hX : X.cancels = Y.cancels + a) :
    R (if k = j then a else 0) k s { s with inputs := s.inputs.set j X } := by
  have hw : ({ s with inputs := s.inputs.set j X } : Race).winner = s.winner := rfl
  refine R.of_same hw ?_
  simp only [cancelsOf]
  by_cases hkj : k = j
  · subst hkj
    have hlt := getElem?_some_lt hY
    have hg : s.inputs[k] = Y := by
      rw [List.getElem?_eq_getElem hlt] at hY; exact Option.some.inj hY
    simp [hlt, hg, hX]
  · have : ¬ j = k := fun e => hkj e.symm
    rw [List.getElem?_set_ne this]
    simp [hkj]
    cases s.inputs[k]? <;> simp

theorem failed_R (k : Nat) (s : Race) (j : Nat) (f : Res) : R 0 k s (Race.failed s j f).1 :=
  R.of_same (failed_winner s j f) (by simp only [cancelsOf, failed_inputs]; cases s.inputs[k]? <;> simp)

theorem fireFinal_R (k : Nat) (s : Race) (x : RaceRes) : R 0 k s (Race.fireFinal s x).1 := by
  unfold Race.fireFinal
  split
  · exact R.rfl' k s
  · exact R.of_same rfl (by simp only [cancelsOf]; cases s.inputs[k]? <;> simp)

theorem succeeded_R (k : Nat) (s : Race) (i : Nat) (v : Res) : R 0 k s (Race.succeeded s i v).1 := by
  cases hw : s.winner with
  | none =>
    have hc := cancelOthers_cancels i (List.range s.inputs.length)
      { s with log := s.log ++ [(i, v)], winner := some i } k
    have hwin := cancelOthers_winner i (List.range s.inputs.length)
      { s with log := s.log ++ [(i, v)], winner := some i }
    have e1 : (Race.succeeded s i v).1.inputs = (Race.cancelOthers { s with log := s.log ++ [(i, v)], winner := some i } i
        (List.range s.inputs.length)).inputs := by
      unfold Race.succeeded Race.fireFinal
      simp only [hw, Option.isNone_none, if_true]
      split <;> rfl
    have e2 : (Race.succeeded s i v).1.winner = some i := by
      unfold Race.succeeded Race.fireFinal
      simp only [hw, Option.isNone_none, if_true]
      split <;> exact hwin
    refine ⟨?_, fun h => by rw [hw] at h; cases h⟩
    simp only [cancelsOf, e1, e2, hw, Option.isNone_none, if_true, extra]
    rw [hc]
    cases hk : s.inputs[k]? with
    | none => rfl
    | some y =>
      have hlt := getElem?_some_lt hk
      simp only [Option.map_some, List.count_range, hlt, if_true, Option.some.injEq]
      by_cases hki : k = i <;> simp [hki]
  | some w =>
    apply R.of_same
    · unfold Race.succeeded; simp [hw]
    · unfold Race.succeeded; simp [hw, cancelsOf]; cases s.inputs[k]? <;> simp

theorem callback_R (k : Nat) (s : Race) (j : Nat) (r : Res) : R 0 k s (Race.callback s j r).1 := by
  unfold Race.callback
  split
  · exact failed_R k s j r
  · exact succeeded_R k s j r

theorem deliver_R (k : Nat) (s : Race) (j : Nat) (inp Y : Inp) (r : Res) (hY : s.inputs[j]? = some Y)
    (hc : inp.cancels = Y.cancels) : R 0 k s (Race.deliver s j inp r) := by
  unfold Race.deliver
  simp only []
  have h1 := (R.setInputs k s j { inp with res := some r, canc := .none } Y 0 hY hc).cast (a' := 0) (by split <;> rfl)
  split
  · have h2 := callback_R k { s with inputs := s.inputs.set j { inp with res := some r, canc := .none } } j r
    split
    · exact (h1.trans h2).cast rfl
    · rename_i inp' hin'
      have h3 := (R.setInputs k (Race.callback { s with inputs := s.inputs.set j { inp with res := some r, canc := .none } } j r).1
        j { inp' with res := some (Race.callback { s with inputs := s.inputs.set j { inp with res := some r, canc := .none } } j r).2 }
        inp' 0 hin' rfl).cast (a' := 0) (by split <;> rfl)
      exact ((h1.trans h2).trans h3).cast rfl
  · exact h1

theorem cancelInput_R (k : Nat) (s : Race) (j : Nat) : R (if k = j then 1 else 0) k s (Race.cancelInput s j) := by
  cases hin : s.inputs[j]? with
  | none =>
    have e : Race.cancelInput s j = s := by unfold Race.cancelInput; rw [hin]
    rw [e]
    by_cases hkj : k = j
    · subst hkj; exact R.of_same rfl (by simp [cancelsOf, hin])
    · simp only [hkj, if_false]; exact R.rfl' k s
  | some inp =>
    unfold Race.cancelInput
    rw [hin]
    simp only []
    cases hres : inp.res with
    | some r0 => exact R.setInputs k s j _ inp 1 hin rfl
    | none =>
      simp only []
      cases heff : inp.canc.effect.1 with
      | none => exact R.setInputs k s j _ inp 1 hin (by split <;> rfl)
      | some r =>
        simp only []
        have h1 := R.setInputs k s j (if inp.canc.effect.2 = true then
            { inp with cancels := inp.cancels + 1, cancCalls := inp.cancCalls + 1 }
            else { inp with cancels := inp.cancels + 1 }) inp 1 hin (by split <;> rfl)
        have hlt := getElem?_some_lt hin
        have h2 := deliver_R k { s with inputs := s.inputs.set j (if inp.canc.effect.2 = true then
            { inp with cancels := inp.cancels + 1, cancCalls := inp.cancCalls + 1 }
            else { inp with cancels := inp.cancels + 1 }) } j (if inp.canc.effect.2 = true then
            { inp with cancels := inp.cancels + 1, cancCalls := inp.cancCalls + 1 }
            else { inp with cancels := inp.cancels + 1 }) _ r (by simp [hlt]) rfl
        have h3 := (h1.trans h2).cast (a' := if k = j then 1 else 0) (by simp)
        simp only [hres] at h3
        exact h3

theorem cancelLoop_R (k : Nat) (js : List Nat) (s : Race) : R (js.count k) k s (Race.cancelLoop s js) := by
  induction js generalizing s with
  | nil => exact R.rfl' k s
  | cons j js ih =>
    simp only [Race.cancelLoop]
    refine ((cancelInput_R k s j).trans (ih (Race.cancelInput s j))).cast ?_
    rw [List.count_cons]
    by_cases hkj : k = j
    · subst hkj; simp; omega
    · have : ¬ j = k := fun e => hkj e.symm
      simp [hkj, this]

/-- `final_result.cancel()` on an unfired race: one `cancel()` for every input from the race's canceller -/
theorem cancelAgg_R (k : Nat) (s : Race) (hf : s.finalCalled = false) :
    R ((List.range s.inputs.length).count k) k s (Race.cancelAgg s) := by
  have h1 := cancelLoop_R k (List.range s.inputs.length) s
  have e : Race.cancelAgg s = if !(Race.cancelLoop s (List.range s.inputs.length)).finalCalled
      then (Race.fireFinal (Race.cancelLoop s (List.range s.inputs.length)) .cancelledErr).1
      else Race.cancelLoop s (List.range s.inputs.length) := by
    unfold Race.cancelAgg; simp [hf]
  rw [e]
  split
  · exact (h1.trans (fireFinal_R k _ _)).cast rfl
  · exact h1

end TwistedProps.C04
