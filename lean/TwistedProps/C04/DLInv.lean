import TwistedModel.Defer.Aggregate
/-!
C04 — the invariant of every reachable `DeferredList` state (lemmas for `TwistedProps/C04.lean`):
`cbDeferred_inv` (one run of `_cbDeferred`), `GInv`/`LInv` (aggregate + inputs), preserved by construction
and by every operation.
-/
namespace TwistedProps.C04
set_option linter.unusedSimpArgs false
set_option linter.unusedVariables false
open Twisted.Defer.Aggregate

/-- the aggregate result an input's firing asks for at once, if any -/
def trigger (fl : Flags) (e : Nat × Res) : Option AggRes :=
  if !e.2.isFailure && fl.foc then some (.one e.2 e.1)
  else if e.2.isFailure && fl.foe then some (.firstError e.2 e.1)
  else none

/-- what a `DeferredList` over `n` inputs must have fired with, given the deliveries `log` so far and
    its result list `rl` -/
def specFires (fl : Flags) (n : Nat) (log : List (Nat × Res)) (rl : List (Option (Bool × Res))) : List AggRes :=
  match log.findSome? (trigger fl) with
  | some x => [x]
  | none => if log.length = n ∧ (0 < n ∨ fl.foc = false) then [.list rl] else []

structure AInv (n : Nat) (a : Agg) : Prop where
  len : a.resultList.length = n
  slots : ∀ i b r, a.resultList[i]? = some (some (b, r)) ↔ ((i, r) ∈ a.log ∧ b = !r.isFailure)
  count : a.finishedCount = a.resultList.countP Option.isSome
  logLen : a.log.length = a.finishedCount
  called : a.called = !a.fires.isEmpty
  spec : a.fires = specFires a.flags n a.log a.resultList

theorem cbDeferred_flags (a : Agg) (i : Nat) (r : Res) : (cbDeferred a i r).1.flags = a.flags := by
  unfold cbDeferred Agg.fire
  simp only []
  split <;> (try split) <;> (try split) <;> (try split) <;> (try split) <;> rfl

theorem count_lt_of_none {l : List (Option (Bool × Res))} {i : Nat} (h : l[i]? = some none) :
    l.countP Option.isSome < l.length := by
  have hle := List.countP_le_length (p := Option.isSome) (l := l)
  rcases Nat.lt_or_ge (l.countP Option.isSome) l.length with h1 | h1
  · exact h1
  · have heq : l.countP Option.isSome = l.length := Nat.le_antisymm hle h1
    rw [List.countP_eq_length] at heq
    have hm := List.mem_of_getElem? h
    have := heq _ hm
    simp at this

theorem cbDeferred_inv {n : Nat} {a : Agg} (h : AInv n a) (i : Nat) (r : Res) (hi : i < n)
    (hnone : a.resultList[i]? = some none) : AInv n (cbDeferred a i r).1 := by
  obtain ⟨hlen, hslots, hcount, hlog, hcalled, hspec⟩ := h
  have hil : i < a.resultList.length := by omega
  have hlt := count_lt_of_none hnone
  have hgi : a.resultList[i] = none := by
    have := List.getElem?_eq_getElem hil
    rw [this] at hnone; exact Option.some.inj hnone
  -- the fields after the three assignments
  have hlen' : (a.resultList.set i (some (!r.isFailure, r))).length = n := by simp [hlen]
  have hslots' : ∀ j b r', (a.resultList.set i (some (!r.isFailure, r)))[j]? = some (some (b, r')) ↔
      ((j, r') ∈ a.log ++ [(i, r)] ∧ b = !r'.isFailure) := by
    intro j b r'
    rw [List.getElem?_set, List.mem_append]
    by_cases hij : i = j
    · subst hij
      have hno : ∀ r'', (i, r'') ∉ a.log := by
        intro r'' hm
        have := (hslots i (!r''.isFailure) r'').2 ⟨hm, rfl⟩
        rw [hnone] at this; simp at this
      simp only [if_true, hil]
      constructor
      · intro h; simp at h; obtain ⟨h1, h2⟩ := h; subst h2; simp [h1]
      · rintro ⟨h1 | h1, h2⟩
        · exact absurd h1 (hno _)
        · simp at h1; subst h1; simp [h2]
    · simp only [hij, if_false]
      rw [hslots j b r']
      constructor
      · rintro ⟨h1, h2⟩; exact ⟨Or.inl h1, h2⟩
      · rintro ⟨h1 | h1, h2⟩
        · exact ⟨h1, h2⟩
        · simp at h1; exact absurd h1.1.symm hij
  have hcount' : a.finishedCount + 1 = (a.resultList.set i (some (!r.isFailure, r))).countP Option.isSome := by
    rw [List.countP_set hil, hgi, hcount]; simp
  have hfc : a.finishedCount < n := by omega
  unfold cbDeferred
  simp only []
  by_cases hc : a.called = true
  · -- already fired: by `spec` a trigger is in the log (a complete list is impossible: slot i is empty)
    simp only [hc, Bool.not_true, Bool.false_eq_true, if_false]
    have hne : a.fires ≠ [] := by
      intro h; rw [h] at hcalled; simp [hc] at hcalled
    refine ⟨hlen', hslots', hcount', by simp [hlog], by simpa [hc] using hne, ?_⟩
    show a.fires = specFires a.flags n (a.log ++ [(i, r)]) _
    unfold specFires at hspec ⊢
    rw [List.findSome?_append]
    cases hf : a.log.findSome? (trigger a.flags) with
    | some x => rw [hf] at hspec; simpa using hspec
    | none =>
      rw [hf] at hspec
      simp only at hspec
      rw [if_neg (by omega)] at hspec
      exact absurd hspec hne
  · have hc' : a.called = false := by simpa using hc
    have hfires : a.fires = [] := by
      rw [hc'] at hcalled; simpa using hcalled.symm
    have hnotrig : a.log.findSome? (trigger a.flags) = none := by
      cases hf : a.log.findSome? (trigger a.flags) with
      | none => rfl
      | some x =>
        unfold specFires at hspec; rw [hf] at hspec; rw [hfires] at hspec; simp at hspec
    simp only [hc', Bool.not_false, if_true]
    by_cases h1 : (!r.isFailure && a.flags.foc) = true
    · simp only [h1, if_true]
      unfold Agg.fire
      simp only [hc', Bool.false_eq_true, if_false]
      refine ⟨hlen', hslots', hcount', by simp [hlog], by simp [hfires], ?_⟩
      simp only [hfires, List.nil_append]
      unfold specFires
      rw [List.findSome?_append, hnotrig]
      simp [trigger, h1]
    · simp only [h1, if_false]
      by_cases h2 : (!!r.isFailure && a.flags.foe) = true
      · simp only [h2, if_true]
        unfold Agg.fire
        simp only [hc', Bool.false_eq_true, if_false]
        refine ⟨hlen', hslots', hcount', by simp [hlog], by simp [hfires], ?_⟩
        simp only [hfires, List.nil_append]
        unfold specFires
        rw [List.findSome?_append, hnotrig]
        have h2' : (r.isFailure && a.flags.foe) = true := by simpa using h2
        simp [trigger, h1, h2']
      · simp only [h2, if_false]
        have h2' : ¬ (r.isFailure && a.flags.foe) = true := by simpa using h2
        have htr : trigger a.flags (i, r) = none := by simp [trigger, h1, h2']
        by_cases h3 : (a.finishedCount + 1 == (a.resultList.set i (some (!r.isFailure, r))).length) = true
        · simp only [h3, if_true]
          unfold Agg.fire
          simp only [hc', Bool.false_eq_true, if_false]
          refine ⟨hlen', hslots', hcount', by simp [hlog], by simp [hfires], ?_⟩
          simp only [hfires, List.nil_append]
          unfold specFires
          rw [List.findSome?_append, hnotrig]
          have : a.finishedCount + 1 = n := by simpa [hlen] using h3
          simp [htr, hlog, this]
          omega
        · simp only [h3, if_false, Bool.false_eq_true]
          refine ⟨hlen', hslots', hcount', by simp [hlog], by simp [hfires, hc'], ?_⟩
          show a.fires = _
          rw [hfires]
          unfold specFires
          rw [List.findSome?_append, hnotrig]
          have : ¬ a.finishedCount + 1 = n := by simpa [hlen] using h3
          simp [htr, hlog, this]


/-- what a callback added to an input after the DeferredList exists sees -/
def seenBy (ce : Bool) (r : Res) : Res := if r.isFailure && ce then .pyNone else r

theorem cbDeferred_ret (a : Agg) (i : Nat) (r : Res) : (cbDeferred a i r).2 = seenBy a.flags.ce r := by
  unfold cbDeferred seenBy; simp

theorem cbDeferred_resultList (a : Agg) (i : Nat) (r : Res) :
    (cbDeferred a i r).1.resultList = a.resultList.set i (some (!r.isFailure, r)) := by
  unfold cbDeferred Agg.fire
  simp only []
  split <;> (try split) <;> (try split) <;> (try split) <;> (try split) <;> rfl

theorem cbDeferred_log (a : Agg) (i : Nat) (r : Res) : (cbDeferred a i r).1.log = a.log ++ [(i, r)] := by
  unfold cbDeferred Agg.fire
  simp only []
  split <;> (try split) <;> (try split) <;> (try split) <;> (try split) <;> rfl

def resOf (s : DL) : List (Option Res) := s.inputs.map (·.res)

structure GInv (fl : Flags) (k : Nat) (s : DL) : Prop where
  flags : s.agg.flags = fl
  agg : AInv s.inputs.length s.agg
  pend : ∀ (i : Nat), k ≤ i → i < s.inputs.length → s.agg.resultList[i]? = some none
  link : ∀ (i : Nat), i < k → ((∃ r, (resOf s)[i]? = some (some r)) ↔ (∃ x, s.agg.resultList[i]? = some (some x)))
  seen : ∀ (i : Nat) (r : Res), (i, r) ∈ s.agg.log → (resOf s)[i]? = some (some (seenBy fl.ce r))

/-- the invariant of every state reachable after construction -/
abbrev LInv (fl : Flags) (s : DL) : Prop := GInv fl s.inputs.length s

theorem slot_none_of_unfired {fl : Flags} {k : Nat} {s : DL} (h : GInv fl k s) {i : Nat} (hi : i < s.inputs.length)
    (hik : i < k) (hun : (resOf s)[i]? = some none) : s.agg.resultList[i]? = some none := by
  have hl := h.agg.len
  have hil : i < s.agg.resultList.length := by omega
  rw [List.getElem?_eq_getElem hil]
  cases hx : s.agg.resultList[i] with
  | none => rfl
  | some x =>
    have : ∃ x, s.agg.resultList[i]? = some (some x) := ⟨x, by rw [List.getElem?_eq_getElem hil, hx]⟩
    obtain ⟨r, hr⟩ := (h.link i hik).2 this
    rw [hun] at hr; simp at hr

/-- one run of `_cbDeferred` for input `i` whose slot is still empty, the input's record replaced by one
    holding the callback's return value -/
theorem update_inv {fl : Flags} {k : Nat} {s : DL} (h : GInv fl k s) {i : Nat} (hi : i < s.inputs.length)
    (hslot : s.agg.resultList[i]? = some none) (k' : Nat) (hk : k ≤ k') (hik : i < k')
    (hk' : ∀ j, j < k' → j ≠ i → j < k) (inp' : Inp) (r : Res)
    (hres : inp'.res = some (cbDeferred s.agg i r).2) :
    GInv fl k' { agg := (cbDeferred s.agg i r).1, inputs := s.inputs.set i inp' } := by
  have hres' : resOf { agg := (cbDeferred s.agg i r).1, inputs := s.inputs.set i inp' }
      = (resOf s).set i (some (seenBy fl.ce r)) := by
    simp [resOf, List.map_set, hres, cbDeferred_ret, h.flags]
  have hrl : (resOf s).length = s.inputs.length := by simp [resOf]
  have hl := h.agg.len
  refine ⟨?_, ?_, ?_, ?_, ?_⟩
  · simp [cbDeferred_flags, h.flags]
  · have := cbDeferred_inv h.agg i r hi hslot
    simpa using this
  · intro j hj hjn
    simp only [cbDeferred_resultList, List.getElem?_set]
    have hij : i ≠ j := by omega
    simp only [hij, if_false]
    exact h.pend j (by omega) (by simpa using hjn)
  · intro j hj
    rw [hres']
    simp only [cbDeferred_resultList, List.getElem?_set]
    by_cases hij : i = j
    · subst hij
      simp [hrl, hi, hl]
    · simp only [hij, if_false]; exact h.link j (hk' j hj (fun e => hij e.symm))
  · intro j r' hm
    rw [hres']
    simp only [cbDeferred_log, List.mem_append] at hm
    rw [List.getElem?_set]
    by_cases hij : i = j
    · subst hij
      rcases hm with hm | hm
      · have := (h.agg.slots i (!r'.isFailure) r').2 ⟨hm, rfl⟩
        rw [hslot] at this; simp at this
      · simp at hm; subst hm; simp [hrl, hi]
    · simp only [hij, if_false]
      rcases hm with hm | hm
      · exact h.seen j r' hm
      · simp at hm; exact absurd hm.1.symm hij

theorem resOf_getElem? (s : DL) (i : Nat) : (resOf s)[i]? = (s.inputs[i]?).map (·.res) := by
  simp [resOf]

theorem lt_of_getElem?_some {α} {l : List α} {i : Nat} {x : α} (h : l[i]? = some x) : i < l.length := by
  rcases Nat.lt_or_ge i l.length with h1 | h1
  · exact h1
  · rw [List.getElem?_eq_none h1] at h; simp at h

theorem deliver_inv {fl : Flags} {s : DL} (h : LInv fl s) {i : Nat} (hi : i < s.inputs.length)
    (hun : (resOf s)[i]? = some none) (inp : Inp) (r : Res) : LInv fl (DL.deliver s i inp r) := by
  have hslot := slot_none_of_unfired h hi hi hun
  have := update_inv h hi hslot s.inputs.length (Nat.le_refl _) hi (fun j hj _ => hj)
    { inp with res := some (cbDeferred s.agg i r).2, canc := .none } r rfl
  unfold LInv
  simpa [DL.deliver] using this

theorem setSame_inv {fl : Flags} {k : Nat} {s : DL} (h : GInv fl k s) {i : Nat} {inp inp' : Inp}
    (hin : s.inputs[i]? = some inp) (hres : inp'.res = inp.res) :
    GInv fl k { s with inputs := s.inputs.set i inp' } := by
  have hr : resOf { s with inputs := s.inputs.set i inp' } = resOf s := by
    simp only [resOf, List.map_set, hres]
    apply List.ext_getElem? ; intro j
    rw [List.getElem?_set]
    by_cases hij : i = j
    · subst hij
      simp only [if_true, List.length_map, List.getElem?_map, hin, Option.map_some]
      simp [lt_of_getElem?_some hin]
    · simp [hij]
  refine ⟨h.flags, ?_, ?_, ?_, ?_⟩
  · simpa using h.agg
  · intro j hj hjn; exact h.pend j hj (by simpa using hjn)
  · intro j hj; rw [hr]; exact h.link j hj
  · intro j r' hm; rw [hr]; exact h.seen j r' hm

theorem fireInput_inv {fl : Flags} {s : DL} (h : LInv fl s) (i : Nat) (r : Res) : LInv fl (DL.fireInput s i r) := by
  unfold DL.fireInput
  split
  · exact h
  · rename_i inp hin
    split
    · exact h
    · rename_i hnone
      exact deliver_inv h (lt_of_getElem?_some hin) (by rw [resOf_getElem?, hin]; simp [hnone]) inp r

theorem cancelInput_inv {fl : Flags} {s : DL} (h : LInv fl s) (i : Nat) : LInv fl (DL.cancelInput s i) := by
  unfold DL.cancelInput
  split
  · exact h
  · rename_i inp hin
    have hlen : ∀ inp', ({ s with inputs := s.inputs.set i inp' } : DL).inputs.length = s.inputs.length := by simp
    split
    · have := setSame_inv (inp' := { inp with cancels := inp.cancels + 1 }) h hin rfl
      unfold LInv; simpa using this
    · rename_i hnone
      simp only []
      split
      · have := setSame_inv (inp' := if inp.canc.effect.2 = true then
            { inp with cancels := inp.cancels + 1, cancCalls := inp.cancCalls + 1 }
            else { inp with cancels := inp.cancels + 1 }) h hin (by split <;> rfl)
        unfold LInv; simpa using this
      · exact deliver_inv h (lt_of_getElem?_some hin) (by rw [resOf_getElem?, hin]; simp [hnone]) _ _

theorem cancelInput_length (s : DL) (i : Nat) : (DL.cancelInput s i).inputs.length = s.inputs.length := by
  unfold DL.cancelInput DL.deliver
  split
  · rfl
  · split
    · simp
    · simp only []; split <;> simp

theorem cancelLoop_inv {fl : Flags} (is : List Nat) {s : DL} (h : LInv fl s) : LInv fl (DL.cancelLoop s is) := by
  induction is generalizing s with
  | nil => exact h
  | cons i is ih => exact ih (cancelInput_inv h i)

theorem step_inv {fl : Flags} {s : DL} (h : LInv fl s) (op : Op) : LInv fl (DL.step s op) := by
  cases op with
  | fire i r => exact fireInput_inv h i r
  | cancelAgg =>
    simp only [DL.step, DL.cancelAgg]
    split
    · exact cancelLoop_inv _ h
    · exact h
  | cancelInput i => exact cancelInput_inv h i

theorem exec_inv {fl : Flags} (ops : List Op) {s : DL} (h : LInv fl s) : LInv fl (DL.exec s ops) := by
  induction ops generalizing s with
  | nil => exact h
  | cons op ops ih => exact ih (step_inv h op)


/-! ### construction -/

theorem attach_length (s : DL) (k : Nat) : (DL.attach s k).inputs.length = s.inputs.length := by
  unfold DL.attach
  split
  · rfl
  · split <;> simp

theorem attach_inv {fl : Flags} {k : Nat} {s : DL} (h : GInv fl k s) (hk : k < s.inputs.length) :
    GInv fl (k + 1) (DL.attach s k) := by
  unfold DL.attach
  split
  · rename_i hnone
    rw [List.getElem?_eq_getElem hk] at hnone; simp at hnone
  · rename_i inp hin
    split
    · rename_i hnone
      refine ⟨h.flags, h.agg, fun j hj hjn => h.pend j (by omega) hjn, ?_, h.seen⟩
      intro j hj
      by_cases hjk : j < k
      · exact h.link j hjk
      · have : j = k := by omega
        subst this
        have h1 := h.pend j (Nat.le_refl _) hk
        rw [resOf_getElem?, hin, h1]; simp [hnone]
    · rename_i r hr
      exact update_inv h hk (h.pend k (Nat.le_refl _) hk) (k + 1) (by omega) (by omega)
        (fun j hj hne => by omega) _ r rfl

theorem attachLoop_inv {fl : Flags} (m : Nat) : ∀ (k : Nat) (s : DL), GInv fl k s → k + m = s.inputs.length →
    GInv fl (k + m) (DL.attachLoop s (List.range' k m)) ∧
    (DL.attachLoop s (List.range' k m)).inputs.length = s.inputs.length := by
  induction m with
  | zero => intro k s h _; exact ⟨h, rfl⟩
  | succ m ih =>
    intro k s h hkm
    rw [List.range'_succ]
    simp only [DL.attachLoop]
    have h1 := attach_inv h (by omega)
    have hl := attach_length s k
    have := ih (k + 1) (DL.attach s k) h1 (by omega)
    rw [show k + (m + 1) = k + 1 + m by omega]
    exact ⟨this.1, by rw [this.2, hl]⟩

theorem init_inv (fl : Flags) (inputs : List Inp) :
    GInv fl 0 { agg := { (if (inputs.length == 0 && !fl.foc) = true then
                    ({ resultList := List.replicate inputs.length none } : Agg).fire (.list [])
                  else { resultList := List.replicate inputs.length none }) with flags := fl },
                inputs := inputs } := by
  refine ⟨rfl, ?_, ?_, fun j hj => absurd hj (Nat.not_lt_zero _), ?_⟩
  · by_cases hc : (inputs.length == 0 && !fl.foc) = true
    · simp only [hc, if_true, Agg.fire]
      have h0 : inputs.length = 0 := by simp at hc; simpa using hc.1
      have hf : fl.foc = false := by simp at hc; exact hc.2
      refine ⟨by simp, ?_, by simp [h0], by simp, by simp, ?_⟩
      · intro i b r; simp [h0]
      · simp [specFires, h0, hf]
    · simp only [hc, if_false]
      refine ⟨by simp, ?_, by simp [List.countP_replicate], by simp, by simp, ?_⟩
      · intro i b r; simp [List.getElem?_replicate]
      · simp only [specFires, List.findSome?_nil, List.length_nil]
        have : ¬ (0 = inputs.length ∧ (0 < inputs.length ∨ fl.foc = false)) := by
          simp at hc
          rintro ⟨h1, h2⟩
          rcases h2 with h2 | h2
          · omega
          · have := hc (List.eq_nil_of_length_eq_zero h1.symm); simp [h2] at this
        simp [this]
  · intro j _ hj
    by_cases hc : (inputs.length == 0 && !fl.foc) = true
    · simp only [hc, if_true, Agg.fire]
      have h0 : inputs.length = 0 := by simp at hc; simpa using hc.1
      simp at hj; omega
    · simp only [hc, if_false]
      simp [List.getElem?_replicate]; simpa using hj
  · intro j r hm
    by_cases hc : (inputs.length == 0 && !fl.foc) = true
    · simp [hc, Agg.fire] at hm
    · simp [hc] at hm

theorem construct_inv (fl : Flags) (inputs : List Inp) :
    LInv fl (DL.construct fl inputs) ∧ (DL.construct fl inputs).inputs.length = inputs.length := by
  have h0 := init_inv fl inputs
  have := attachLoop_inv inputs.length 0 _ h0 (by simp)
  unfold DL.construct LInv
  simp only []
  rw [List.range_eq_range']
  simp only [Nat.zero_add] at this
  rw [this.2]
  exact ⟨this.1, rfl⟩

theorem run_inv (fl : Flags) (inputs : List Inp) (ops : List Op) : LInv fl (DL.run fl inputs ops) :=
  exec_inv ops (construct_inv fl inputs).1

end TwistedProps.C04
