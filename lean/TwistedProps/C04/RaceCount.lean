import TwistedProps.C04.RaceInv
/-!
C04 — the counting invariant of `race` (lemmas for `TwistedProps/C04.lean`): every input is delivered to the race's
callbacks `succeeded`/`failed` AT MOST ONCE (`CI0.nd`: the indices in `log` are pairwise distinct), only after it has
fired (`CI0.fired`), `failure_state` is a rearrangement of the failures delivered so far (`CI0.fsp`), the race has
fired as soon as `failure_state` holds `n` entries (`CI.fc`), a FailureGroup it fired with is the sorted
`failure_state` of `n` entries (`CI0.fgx`), and `CancelledError` only comes from cancelling the race (`CI0.nce`).
Holds at every point, also inside `succeeded`'s cancel loop and while `race()` is still attaching callbacks
(`b` bounds the indices that may have been delivered: `attached ≤ b ≤ n`).
-/
namespace TwistedProps.C04
set_option linter.unusedSimpArgs false
set_option linter.unusedVariables false
open Twisted.Defer.Aggregate

/-! lists -/

/-- a duplicate-free list all of whose members are in `b` is not longer than `b` -/
theorem nodup_subset_length {a b : List Nat} (hn : a.Nodup) (hs : ∀ x ∈ a, x ∈ b) : a.length ≤ b.length := by
  induction a generalizing b with
  | nil => simp
  | cons x t ih =>
    rw [List.nodup_cons] at hn
    have hx : x ∈ b := hs x (by simp)
    have h1 : ∀ y ∈ t, y ∈ b.erase x := by
      intro y hy
      have hne : y ≠ x := fun e => hn.1 (e ▸ hy)
      exact (List.mem_erase_of_ne hne).2 (hs y (by simp [hy]))
    have h2 := ih hn.2 h1
    rw [List.length_erase_of_mem hx] at h2
    have : 0 < b.length := List.length_pos_of_mem hx
    simp only [List.length_cons]; omega

/-- pigeonhole: a duplicate-free list of numbers below `n` has at most `n` members -/
theorem nodup_lt_length {a : List Nat} {n : Nat} (hn : a.Nodup) (hs : ∀ x ∈ a, x < n) : a.length ≤ n := by
  have := nodup_subset_length (b := List.range n) hn (fun x hx => List.mem_range.2 (hs x hx))
  simpa using this

/-- strictly increasing, within `[lo, lo + length)` → it is `lo, lo+1, …` -/
theorem strict_range' (l : List Nat) (lo : Nat) (hp : l.Pairwise (· < ·)) (hb : ∀ x ∈ l, lo ≤ x ∧ x < lo + l.length) :
    l = List.range' lo l.length := by
  induction l generalizing lo with
  | nil => rfl
  | cons a t ih =>
    rw [List.pairwise_cons] at hp
    have ha := hb a (by simp)
    have ht : t = List.range' (lo + 1) t.length := by
      apply ih (lo + 1) hp.2
      intro x hx
      have h1 := hp.1 x hx
      have h2 := hb x (by simp [hx])
      simp only [List.length_cons] at h2
      omega
    have hal : a = lo := by
      cases t with
      | nil => simp at ha; omega
      | cons c u =>
        have h1 := hp.1 c (by simp)
        simp only [List.length_cons, List.range'_succ] at ht
        injection ht with hc _
        omega
    subst hal
    simp only [List.length_cons, List.range'_succ]
    rw [← ht]

theorem perm_insertByIdx (x : Nat × Res) (l : List (Nat × Res)) : (insertByIdx x l).Perm (x :: l) := by
  induction l with
  | nil => simp [insertByIdx]
  | cons y ys ih =>
    simp only [insertByIdx]; split
    · exact List.Perm.refl _
    · exact ((List.Perm.cons y ih).trans (List.Perm.swap x y ys))

theorem perm_sortByIdx (l : List (Nat × Res)) : (sortByIdx l).Perm l := by
  induction l with
  | nil => simp [sortByIdx]
  | cons y ys ih => exact (perm_insertByIdx y _).trans (List.Perm.cons y ih)

/-! the invariant -/

/-- a delivery with a failure result -/
def isFail (e : Nat × Res) : Bool := e.2.isFailure

/-- input `j` of the list has fired -/
def RFired (inputs : List Inp) (j : Nat) : Prop := ∃ inp, inputs[j]? = some inp ∧ inp.res.isSome = true

structure CI0 (n b : Nat) (c : Bool) (s : Race) : Prop where
  len : s.inputs.length = n
  att : s.attached ≤ b
  bn : b ≤ n
  nd : (s.log.map (·.1)).Nodup
  lt : ∀ x ∈ s.log, x.1 < b
  fired : ∀ x ∈ s.log, RFired s.inputs x.1
  fsp : s.failureState.Perm (s.log.filter isFail)
  fgx : ∀ fs, RaceRes.failureGroup fs ∈ s.fires → fs = s.failureState.map (·.2) ∧
          s.failureState.Pairwise (fun a b => a.1 ≤ b.1) ∧ s.failureState.length = n
  nce : c = false → RaceRes.cancelledErr ∉ s.fires

structure CI (n b : Nat) (c : Bool) (s : Race) : Prop where
  base : CI0 n b c s
  fc : s.failureState.length = n → 0 < n → s.finalCalled = true

theorem CI0.congr {n b : Nat} {c : Bool} {s s' : Race} (h : CI0 n b c s) (h1 : s'.inputs = s.inputs)
    (h2 : s'.attached = s.attached) (h3 : s'.log = s.log) (h4 : s'.failureState = s.failureState)
    (h5 : s'.fires = s.fires) : CI0 n b c s' :=
  ⟨by rw [h1]; exact h.len, by rw [h2]; exact h.att, h.bn, by rw [h3]; exact h.nd, by rw [h3]; exact h.lt,
    by rw [h3, h1]; exact h.fired, by rw [h3, h4]; exact h.fsp, by rw [h4, h5]; exact h.fgx, by rw [h5]; exact h.nce⟩

theorem CI.congr {n b : Nat} {c : Bool} {s s' : Race} (h : CI n b c s) (h1 : s'.inputs = s.inputs)
    (h2 : s'.attached = s.attached) (h3 : s'.log = s.log) (h4 : s'.failureState = s.failureState)
    (h5 : s'.fires = s.fires) (h6 : s'.finalCalled = s.finalCalled) : CI n b c s' :=
  ⟨h.base.congr h1 h2 h3 h4 h5, by rw [h4, h6]; exact h.fc⟩

theorem CI.mono {n b b' : Nat} {c : Bool} {s : Race} (h : CI n b c s) (h1 : b ≤ b') (h2 : b' ≤ n) : CI n b' c s :=
  ⟨⟨h.base.len, Nat.le_trans h.base.att h1, h2, h.base.nd, fun x hx => Nat.lt_of_lt_of_le (h.base.lt x hx) h1,
    h.base.fired, h.base.fsp, h.base.fgx, h.base.nce⟩, h.fc⟩

theorem CI.toTrue {n b : Nat} {c : Bool} {s : Race} (h : CI n b c s) : CI n b true s :=
  ⟨⟨h.base.len, h.base.att, h.base.bn, h.base.nd, h.base.lt, h.base.fired, h.base.fsp, h.base.fgx,
    fun hc => by cases hc⟩, h.fc⟩

/-- an unfired input has not been delivered -/
theorem CI0.fresh {n b : Nat} {c : Bool} {s : Race} (h : CI0 n b c s) {j : Nat} {X : Inp}
    (hj : s.inputs[j]? = some X) (hr : X.res = none) : j ∉ s.log.map (·.1) := by
  intro hm
  obtain ⟨x, hx, hxj⟩ := List.mem_map.1 hm
  obtain ⟨inp, hi, hs⟩ := h.fired x hx
  rw [hxj, hj] at hi
  injection hi with hi
  rw [← hi, hr] at hs
  cases hs

/-- below the bound and not yet delivered: fewer than `n` deliveries so far -/
theorem CI0.room {n b : Nat} {c : Bool} {s : Race} (h : CI0 n b c s) {j : Nat} (hj : j < b)
    (hf : j ∉ s.log.map (·.1)) : s.log.length < n := by
  have hn : (j :: s.log.map (·.1)).Nodup := List.nodup_cons.2 ⟨hf, h.nd⟩
  have := nodup_lt_length (n := n) hn (by
    intro x hx
    rcases List.mem_cons.1 hx with rfl | hx
    · exact Nat.lt_of_lt_of_le hj h.bn
    · obtain ⟨y, hy, rfl⟩ := List.mem_map.1 hx
      exact Nat.lt_of_lt_of_le (h.lt y hy) h.bn)
  simp only [List.length_cons, List.length_map] at this
  omega

theorem CI0.fs_le {n b : Nat} {c : Bool} {s : Race} (h : CI0 n b c s) : s.failureState.length ≤ s.log.length := by
  rw [h.fsp.length_eq]; exact List.length_filter_le _ _

/-- no FailureGroup yet while an input below the bound is still undelivered -/
theorem CI0.no_fg {n b : Nat} {c : Bool} {s : Race} (h : CI0 n b c s) {j : Nat} (hj : j < b)
    (hf : j ∉ s.log.map (·.1)) (fs : List Res) : RaceRes.failureGroup fs ∉ s.fires := by
  intro hm
  have := (h.fgx fs hm).2.2
  have h1 := h.fs_le
  have h2 := h.room hj hf
  omega

theorem RFired.set_ne {inputs : List Inp} {j k : Nat} (X : Inp) (h : RFired inputs k) (hne : k ≠ j) :
    RFired (inputs.set j X) k := by
  obtain ⟨inp, hi, hs⟩ := h
  exact ⟨inp, by rw [List.getElem?_set_ne (fun e => hne e.symm)]; exact hi, hs⟩

theorem RFired.set_self {inputs : List Inp} {j : Nat} (X : Inp) (hj : j < inputs.length) (hX : X.res.isSome = true) :
    RFired (inputs.set j X) j :=
  ⟨X, by rw [List.getElem?_set_self hj], hX⟩

theorem lt_of_getElem?_some' {l : List Inp} {i : Nat} {x : Inp} (h : l[i]? = some x) : i < l.length := by
  rcases Nat.lt_or_ge i l.length with h1 | h1
  · exact h1
  · rw [List.getElem?_eq_none h1] at h; simp at h

/-- overwriting the record of input `j` with a FIRED record keeps the invariant -/
theorem CI.setFired {n b : Nat} {c : Bool} {s : Race} (h : CI n b c s) (j : Nat) (X : Inp) (hX : X.res.isSome = true) :
    CI n b c { s with inputs := s.inputs.set j X } := by
  refine ⟨⟨by simp [h.base.len], h.base.att, h.base.bn, h.base.nd, h.base.lt, ?_, h.base.fsp, h.base.fgx, h.base.nce⟩, h.fc⟩
  intro x hx
  by_cases hxj : x.1 = j
  · obtain ⟨inp, hi, _⟩ := h.base.fired x hx
    rw [hxj] at hi ⊢
    exact RFired.set_self X (lt_of_getElem?_some' hi) hX
  · exact (h.base.fired x hx).set_ne X hxj

/-- overwriting the record of an input that has NOT been delivered keeps the invariant -/
theorem CI.setFresh {n b : Nat} {c : Bool} {s : Race} (h : CI n b c s) (j : Nat) (X : Inp)
    (hf : j ∉ s.log.map (·.1)) : CI n b c { s with inputs := s.inputs.set j X } := by
  refine ⟨⟨by simp [h.base.len], h.base.att, h.base.bn, h.base.nd, h.base.lt, ?_, h.base.fsp, h.base.fgx, h.base.nce⟩, h.fc⟩
  intro x hx
  have hxj : x.1 ≠ j := fun e => hf (List.mem_map.2 ⟨x, hx, e⟩)
  exact (h.base.fired x hx).set_ne X hxj

/-- what appending the delivery `(j, r)` of a fired, not yet delivered input `j < b` does to the log clauses -/
theorem CI0.push {n b : Nat} {c : Bool} {s : Race} (h : CI0 n b c s) {j : Nat} (hj : j < b)
    (hf : j ∉ s.log.map (·.1)) (hfi : RFired s.inputs j) (r : Res) :
    ((s.log ++ [(j, r)]).map (·.1)).Nodup ∧ (∀ x ∈ s.log ++ [(j, r)], x.1 < b) ∧
      (∀ x ∈ s.log ++ [(j, r)], RFired s.inputs x.1) := by
  refine ⟨?_, ?_, ?_⟩
  · rw [List.map_append, List.nodup_append]
    refine ⟨h.nd, by simp, ?_⟩
    intro a ha b' hb
    simp only [List.map_cons, List.map_nil, List.mem_singleton] at hb
    subst hb
    exact fun e => hf (e ▸ ha)
  · intro x hx
    rcases List.mem_append.1 hx with hx | hx
    · exact h.lt x hx
    · simp only [List.mem_singleton] at hx; subst hx; exact hj
  · intro x hx
    rcases List.mem_append.1 hx with hx | hx
    · exact h.fired x hx
    · simp only [List.mem_singleton] at hx; subst hx; exact hfi

/-! the closures -/

/-- `final_result.callback/errback(x)` from a state in which everything but "fired once `failure_state` is full" holds -/
theorem fireFinal_ci {n b : Nat} {c : Bool} {s : Race} (h : CI0 n b c s) (x : RaceRes)
    (hfg : ∀ fs, x = .failureGroup fs → fs = s.failureState.map (·.2) ∧
        s.failureState.Pairwise (fun a b => a.1 ≤ b.1) ∧ s.failureState.length = n)
    (hce : x = .cancelledErr → c = true)
    (hpre : s.finalCalled = false → s.failureState.length = n → 0 < n → ∃ fs, x = .failureGroup fs) :
    CI n b c (Race.fireFinal s x).1 := by
  unfold Race.fireFinal
  split
  · rename_i hc; exact ⟨h, fun _ _ => hc⟩
  · refine ⟨⟨h.len, h.att, h.bn, h.nd, h.lt, h.fired, h.fsp, ?_, ?_⟩, fun _ _ => rfl⟩
    · intro fs hm
      simp only [List.mem_append, List.mem_singleton] at hm
      rcases hm with hm | hm
      · exact h.fgx fs hm
      · exact hfg fs hm.symm
    · intro hc hm
      simp only [List.mem_append, List.mem_singleton] at hm
      rcases hm with hm | hm
      · exact h.nce hc hm
      · have := hce hm.symm; rw [hc] at this; cases this

theorem failed_ci {n b : Nat} {c : Bool} {s : Race} (h : CI n b c s) {j : Nat} (hj : j < b)
    (hfr : j ∉ s.log.map (·.1)) (hfi : RFired s.inputs j) (f : Res) (hf : f.isFailure = true) :
    CI n b c (Race.failed s j f).1 := by
  obtain ⟨p1, p2, p3⟩ := h.base.push hj hfr hfi f
  have hnofg := h.base.no_fg hj hfr
  have hfilt : (s.log ++ [(j, f)]).filter isFail = s.log.filter isFail ++ [(j, f)] := by
    rw [List.filter_append]; simp [isFail, hf]
  have hperm : (s.failureState ++ [(j, f)]).Perm ((s.log ++ [(j, f)]).filter isFail) := by
    rw [hfilt]; exact List.Perm.append_right _ h.base.fsp
  unfold Race.failed
  simp only []
  split
  · rename_i hlen
    have hlen' : (sortByIdx (s.failureState ++ [(j, f)])).length = n := by
      rw [length_sortByIdx]
      have : (s.failureState ++ [(j, f)]).length = s.inputs.length := by simpa using hlen
      rw [this, h.base.len]
    have h0 : CI0 n b c { s with failureState := sortByIdx (s.failureState ++ [(j, f)]), log := s.log ++ [(j, f)] } :=
      ⟨h.base.len, h.base.att, h.base.bn, p1, p2, p3, (perm_sortByIdx _).trans hperm,
        fun fs hm => absurd hm (hnofg fs), h.base.nce⟩
    exact fireFinal_ci h0 _
      (by intro fs hx; injection hx with hx; exact ⟨hx.symm, sorted_sortByIdx _, hlen'⟩)
      (by intro hx; cases hx) (fun _ _ _ => ⟨_, rfl⟩)
  · rename_i hlen
    refine ⟨⟨h.base.len, h.base.att, h.base.bn, p1, p2, p3, hperm, fun fs hm => absurd hm (hnofg fs), h.base.nce⟩, ?_⟩
    intro hl
    exfalso; apply hlen
    simp only [beq_iff_eq]
    rw [h.base.len]; exact hl

/-- appending the delivery of a SUCCESS -/
theorem CI.pushSucc {n b : Nat} {c : Bool} {s : Race} (h : CI n b c s) {j : Nat} (hj : j < b)
    (hfr : j ∉ s.log.map (·.1)) (hfi : RFired s.inputs j) (v : Res) (hv : v.isFailure = false) :
    CI n b c { s with log := s.log ++ [(j, v)] } := by
  obtain ⟨p1, p2, p3⟩ := h.base.push hj hfr hfi v
  have hfilt : (s.log ++ [(j, v)]).filter isFail = s.log.filter isFail := by
    rw [List.filter_append]; simp [isFail, hv]
  exact ⟨⟨h.base.len, h.base.att, h.base.bn, p1, p2, p3, by simp only [hfilt]; exact h.base.fsp, h.base.fgx, h.base.nce⟩, h.fc⟩

theorem succeededNested_ci {n b : Nat} {c : Bool} {s : Race} (h : CI n b c s) {j : Nat} (hj : j < b)
    (hfr : j ∉ s.log.map (·.1)) (hfi : RFired s.inputs j) (v : Res) (hv : v.isFailure = false) :
    CI n b c (Race.succeededNested s j v).1 := by
  have h1 := h.pushSucc hj hfr hfi v hv
  unfold Race.succeededNested
  simp only []
  split
  · exact h1.congr rfl rfl rfl rfl rfl rfl
  · exact h1

theorem callbackNested_ci {n b : Nat} {c : Bool} {s : Race} (h : CI n b c s) {j : Nat} (hj : j < b)
    (hfr : j ∉ s.log.map (·.1)) (hfi : RFired s.inputs j) (r : Res) : CI n b c (Race.callbackNested s j r).1 := by
  unfold Race.callbackNested
  split
  · rename_i hf; exact failed_ci h hj hfr hfi r hf
  · rename_i hf; exact succeededNested_ci h hj hfr hfi r (by simpa using hf)

theorem deliverNested_ci {n b : Nat} {c : Bool} {s : Race} (h : CI n b c s) (j : Nat) {X : Inp}
    (hX : s.inputs[j]? = some X) (hr : X.res = none) (inp : Inp) (r : Res) :
    CI n b c (Race.deliverNested s j inp r) := by
  have hfr := h.base.fresh hX hr
  have hlt := lt_of_getElem?_some' hX
  unfold Race.deliverNested
  simp only []
  have h1 := h.setFired j { inp with res := some r, canc := .none } rfl
  split
  · rename_i hja
    have h2 := callbackNested_ci h1 (Nat.lt_of_lt_of_le hja h1.base.att) hfr (RFired.set_self _ hlt rfl) r
    exact h2.setFired j _ rfl
  · exact h1

theorem cancelNested_ci {n b : Nat} {c : Bool} {s : Race} (h : CI n b c s) (j : Nat) :
    CI n b c (Race.cancelNested s j) := by
  unfold Race.cancelNested
  split
  · exact h
  · rename_i inp hin
    simp only []
    split
    · rename_i r hr; exact h.setFired j _ (by simp [hr])
    · rename_i hr
      have hfr := h.base.fresh hin hr
      have hlt := lt_of_getElem?_some' hin
      split
      · exact h.setFresh j _ hfr
      · have h1 := h.setFresh j (if inp.canc.effect.2 = true then
            { inp with cancels := inp.cancels + 1, cancCalls := inp.cancCalls + 1 }
            else { inp with cancels := inp.cancels + 1 }) hfr
        exact deliverNested_ci h1 j (X := if inp.canc.effect.2 = true then
            { inp with cancels := inp.cancels + 1, cancCalls := inp.cancCalls + 1 }
            else { inp with cancels := inp.cancels + 1 }) (by simp [hlt]) (by split <;> exact hr) _ _

theorem cancelOthers_ci {n b : Nat} {c : Bool} (w : Nat) (js : List Nat) {s : Race} (h : CI n b c s) :
    CI n b c (Race.cancelOthers s w js) := by
  induction js generalizing s with
  | nil => exact h
  | cons j js ih =>
    simp only [Race.cancelOthers]
    split
    · exact ih h
    · exact ih (cancelNested_ci h j)

theorem succeeded_ci {n b : Nat} {c : Bool} {s : Race} (h : CI n b c s) {i : Nat} (hi : i < b)
    (hfr : i ∉ s.log.map (·.1)) (hfi : RFired s.inputs i) (v : Res) (hv : v.isFailure = false) :
    CI n b c (Race.succeeded s i v).1 := by
  have h0 := h.pushSucc hi hfr hfi v hv
  unfold Race.succeeded
  simp only []
  split
  · have h1 : CI n b c { s with log := s.log ++ [(i, v)], winner := some i } := h0.congr rfl rfl rfl rfl rfl rfl
    have h2 := cancelOthers_ci i (List.range s.inputs.length) h1
    refine fireFinal_ci h2.base _ (by intro fs hx; cases hx) (by intro hx; cases hx) ?_
    intro hc hl hn
    have := h2.fc hl hn; rw [hc] at this; cases this
  · exact h0

theorem callback_ci {n b : Nat} {c : Bool} {s : Race} (h : CI n b c s) {j : Nat} (hj : j < b)
    (hfr : j ∉ s.log.map (·.1)) (hfi : RFired s.inputs j) (r : Res) : CI n b c (Race.callback s j r).1 := by
  unfold Race.callback
  split
  · rename_i hf; exact failed_ci h hj hfr hfi r hf
  · rename_i hf; exact succeeded_ci h hj hfr hfi r (by simpa using hf)

theorem deliver_ci {n b : Nat} {c : Bool} {s : Race} (h : CI n b c s) (j : Nat) {X : Inp}
    (hX : s.inputs[j]? = some X) (hr : X.res = none) (inp : Inp) (r : Res) :
    CI n b c (Race.deliver s j inp r) := by
  have hfr := h.base.fresh hX hr
  have hlt := lt_of_getElem?_some' hX
  unfold Race.deliver
  simp only []
  have h1 := h.setFired j { inp with res := some r, canc := .none } rfl
  split
  · rename_i hja
    have h2 := callback_ci h1 (Nat.lt_of_lt_of_le hja h1.base.att) hfr (RFired.set_self _ hlt rfl) r
    split
    · exact h2
    · exact h2.setFired j _ rfl
  · exact h1

theorem fireInput_ci {n b : Nat} {c : Bool} {s : Race} (h : CI n b c s) (i : Nat) (r : Res) :
    CI n b c (Race.fireInput s i r) := by
  unfold Race.fireInput
  split
  · exact h
  · rename_i inp hin
    split
    · exact h
    · rename_i hr; exact deliver_ci h i hin hr _ r

theorem cancelInput_ci {n b : Nat} {c : Bool} {s : Race} (h : CI n b c s) (j : Nat) :
    CI n b c (Race.cancelInput s j) := by
  unfold Race.cancelInput
  split
  · exact h
  · rename_i inp hin
    simp only []
    split
    · rename_i r hr; exact h.setFired j _ (by simp [hr])
    · rename_i hr
      have hfr := h.base.fresh hin hr
      have hlt := lt_of_getElem?_some' hin
      split
      · exact h.setFresh j _ hfr
      · have h1 := h.setFresh j (if inp.canc.effect.2 = true then
            { inp with cancels := inp.cancels + 1, cancCalls := inp.cancCalls + 1 }
            else { inp with cancels := inp.cancels + 1 }) hfr
        exact deliver_ci h1 j (X := if inp.canc.effect.2 = true then
            { inp with cancels := inp.cancels + 1, cancCalls := inp.cancCalls + 1 }
            else { inp with cancels := inp.cancels + 1 }) (by simp [hlt]) (by split <;> exact hr) _ _

theorem cancelLoop_ci {n b : Nat} {c : Bool} (js : List Nat) {s : Race} (h : CI n b c s) :
    CI n b c (Race.cancelLoop s js) := by
  induction js generalizing s with
  | nil => exact h
  | cons j js ih => simp only [Race.cancelLoop]; exact ih (cancelInput_ci h j)

theorem cancelAgg_ci {n b : Nat} {c : Bool} {s : Race} (h : CI n b c s) : CI n b true (Race.cancelAgg s) := by
  unfold Race.cancelAgg
  split
  · exact h.toTrue
  · simp only []
    have h1 := (cancelLoop_ci (List.range s.inputs.length) h).toTrue
    split
    · rename_i hc
      refine fireFinal_ci h1.base _ (by intro fs hx; cases hx) (fun _ => rfl) ?_
      intro hc' hl hn
      have := h1.fc hl hn; rw [hc'] at this; cases this
    · exact h1

theorem step_ci {n b : Nat} {c : Bool} {s : Race} (h : CI n b c s) (op : Op) (hop : c = false → op ≠ .cancelAgg) :
    CI n b c (Race.step s op) := by
  cases op with
  | fire i r => exact fireInput_ci h i r
  | cancelAgg =>
    cases c with
    | false => exact absurd rfl (hop rfl)
    | true => exact cancelAgg_ci h
  | cancelInput i => exact cancelInput_ci h i

theorem attach_ci {n j : Nat} {c : Bool} {s : Race} (h : CI n j c s) (hj : j < n) : CI n (j + 1) c (Race.attach s j) := by
  have hm := h.mono (Nat.le_succ j) hj
  unfold Race.attach
  split
  · exact hm
  · rename_i inp hin
    split
    · exact ⟨⟨h.base.len, Nat.le_refl _, hj, h.base.nd, hm.base.lt, h.base.fired, h.base.fsp, h.base.fgx, h.base.nce⟩, h.fc⟩
    · rename_i r hr
      have hfr : j ∉ s.log.map (·.1) := by
        intro hmem
        obtain ⟨x, hx, hxj⟩ := List.mem_map.1 hmem
        have := h.base.lt x hx
        omega
      have h2 := callback_ci hm (Nat.lt_succ_self j) hfr ⟨inp, hin, by simp [hr]⟩ r
      simp only []
      split
      · exact h2
      · have h3 := h2.setFired j { (‹Inp› : Inp) with res := some (Race.callback s j r).2 } rfl
        exact ⟨⟨h3.base.len, Nat.le_refl _, hj, h3.base.nd, h3.base.lt, h3.base.fired, h3.base.fsp, h3.base.fgx,
          h3.base.nce⟩, h3.fc⟩

theorem attachLoop_ci {n : Nat} {c : Bool} (m k : Nat) {s : Race} (h : CI n k c s) (hk : k + m ≤ n) :
    CI n (k + m) c (Race.attachLoop s (List.range' k m)) := by
  induction m generalizing k s with
  | zero => exact h
  | succ m ih =>
    simp only [List.range'_succ, Race.attachLoop]
    have := ih (k + 1) (attach_ci h (by omega)) (by omega)
    rw [show k + (m + 1) = k + 1 + m by omega]; exact this

theorem exec_ci {n : Nat} {c : Bool} (ops : List Op) {s : Race} (h : CI n n c s) (hc : c = false → Op.cancelAgg ∉ ops) :
    CI n n c (Race.exec s ops) := by
  induction ops generalizing s with
  | nil => exact h
  | cons op ops ih =>
    simp only [Race.exec]
    apply ih
    · exact step_ci h op (fun e he => hc e (by rw [he]; simp))
    · exact fun e hm => hc e (by simp [hm])

/-- the counting invariant holds after any history; with `c = false` for histories that never cancel the race -/
theorem run_ci (inputs : List Inp) (ops : List Op) (c : Bool) (hc : c = false → Op.cancelAgg ∉ ops) :
    CI inputs.length inputs.length c (Race.run inputs ops) := by
  unfold Race.run Race.construct
  apply exec_ci _ _ hc
  have h0 : CI inputs.length 0 c { inputs := inputs } := by
    refine ⟨⟨rfl, Nat.le_refl _, Nat.zero_le _, by simp, ?_, ?_, by simp, ?_, ?_⟩, ?_⟩
    · intro x hx; cases hx
    · intro x hx; cases hx
    · intro fs hm; cases hm
    · intro _ hm; cases hm
    · intro hl hn; simp at hl; omega
  have := attachLoop_ci inputs.length 0 h0 (by omega)
  rw [List.range_eq_range']
  simpa using this

end TwistedProps.C04
