import TwistedModel.Defer.Queue
/-!
C07 — DeferredQueue delivers each object once, in order, within its bounds.

Statement (fixed): for any interleaving of put, get and cancellation of pending gets on a queue
with optional size and backlog limits, every object put is delivered exactly once and in put
order, to the oldest pending uncancelled get or else to a later get.  put raises QueueOverflow
exactly when no get is pending and the size limit is reached, and get raises QueueUnderflow
exactly when nothing is queued and the backlog limit is reached.

The theorems are about the *observable history* (`List Ev`: what each call did), for
* every re-entrant program (`run (init size backlog) prog`: callbacks of get-Deferreds that put,
  get and cancel again, nested without bound), and
* every flat interleaving of calls (`Steps`), of which the former are instances (`run_steps`),
for every `size`/`backlog` (`none`, zero, negative, anything), and at every point of the history
(every prefix of the trace), not only at the end.
-/
namespace TwistedProps.C07
open Twisted.Defer.Queue

/-! ### The specification, in terms of the observable history only -/

def putOf : Ev → Option Nat
  | .putQueued v => some v
  | .putDelivered v _ => some v
  | _ => none

def issuedOf : Ev → Option Nat
  | .getImmediate g _ => some g
  | .getWaiting g => some g
  | _ => none

def deliveryOf : Ev → Option (Nat × Nat)
  | .putDelivered v g => some (g, v)
  | .getImmediate g v => some (g, v)
  | _ => none

def cancelledOf : Ev → Option Nat
  | .cancelled g => some g
  | _ => none

/-- objects whose `put` did not raise, in put order -/
def accepted (tr : List Ev) : List Nat := tr.filterMap putOf
/-- Deferreds returned by `get`, in get order -/
def issuedIds (tr : List Ev) : List Nat := tr.filterMap issuedOf
/-- Deferreds cancelled while pending -/
def cancelledIds (tr : List Ev) : List Nat := tr.filterMap cancelledOf
/-- `(Deferred, object)` for every firing of a get-Deferred with an object, in order -/
def deliveries (tr : List Ev) : List (Nat × Nat) := tr.filterMap deliveryOf
/-- the gets that were not cancelled while pending, in get order -/
def uncancelled (tr : List Ev) : List Nat :=
  (issuedIds tr).filter fun g => decide (g ∉ cancelledIds tr)

/-- number of gets that are pending (returned, not fired, not cancelled) after `tr` -/
def pendingGets (tr : List Ev) : Nat := (uncancelled tr).length - (deliveries tr).length
/-- number of objects accepted and not yet delivered after `tr` -/
def queued (tr : List Ev) : Nat := (accepted tr).length - (deliveries tr).length

def isPutEv : Ev → Bool
  | .putQueued _ | .putDelivered _ _ | .putOverflow _ => true
  | _ => false
def isGetEv : Ev → Bool
  | .getImmediate _ _ | .getWaiting _ | .getUnderflow => true
  | _ => false

/-- the Deferred a cancel call was aimed at -/
def cancelTarget : Ev → Option Nat
  | .cancelled g | .cancelNoop g | .cancelNoSuch g | .cancelValueError g => some g
  | _ => none

/-- the gets pending after `tr` (returned, not cancelled, not fired), oldest first -/
def pendingList (tr : List Ev) : List Nat := (uncancelled tr).drop (deliveries tr).length

/-- all flat interleavings: any sequence of calls, each applied to the state the previous one
    left (whatever programs the callbacks carry) -/
inductive Steps : Q → List Ev → Q → Prop
  | nil (q : Q) : Steps q [] q
  | cons {q q' : Q} {tr : List Ev} (op : Op) :
      Steps (step q op).1 tr q' → Steps q ((step q op).2.1 :: tr) q'

/-! ### Lemmas -/

theorem zip_map_fst_snd {α β} (l : List (α × β)) : (l.map Prod.fst).zip (l.map Prod.snd) = l := by
  induction l with
  | nil => rfl
  | cons x xs ih => simp [ih]

theorem zip_append_excl {α β} (l : List (α × β)) (w : List α) (p : List β) (h : p = [] ∨ w = []) :
    (l.map Prod.fst ++ w).zip (l.map Prod.snd ++ p) = l := by
  rw [List.zip_append (by simp)]
  rcases h with h | h <;> simp [h, zip_map_fst_snd]

theorem filter_ne_of_not_mem (g : Nat) (l : List Nat) (h : g ∉ l) :
    l.filter (fun x => decide (x ≠ g)) = l := by
  rw [List.filter_eq_self]
  intro a ha
  have : a ≠ g := fun e => h (e ▸ ha)
  simp [this]

theorem removeWaiter_none (g : Nat) (ws : List Waiter) :
    removeWaiter g ws = none ↔ g ∉ ws.map (·.id) := by
  induction ws with
  | nil => simp [removeWaiter]
  | cons w ws ih =>
    unfold removeWaiter
    by_cases h : w.id = g
    · simp [h]
    · have h' : ¬ g = w.id := fun e => h e.symm
      simp only [h, if_false, List.map_cons, List.mem_cons, h', false_or]
      rw [← ih]
      split <;> simp_all

theorem removeWaiter_some (g : Nat) (ws : List Waiter) (w : Waiter) (rest : List Waiter)
    (h : removeWaiter g ws = some (w, rest)) (nd : (ws.map (·.id)).Nodup) :
    w.id = g ∧ rest.map (·.id) = (ws.map (·.id)).filter (fun x => decide (x ≠ g)) := by
  induction ws generalizing w rest with
  | nil => simp [removeWaiter] at h
  | cons x xs ih =>
    simp only [List.map_cons, List.nodup_cons] at nd
    unfold removeWaiter at h
    split at h
    · rename_i hx
      cases h
      refine ⟨hx, ?_⟩
      have : g ∉ xs.map (·.id) := hx ▸ nd.1
      have hf := filter_ne_of_not_mem g _ this
      simp only [List.map_cons, List.filter_cons, hx, ne_eq, not_true_eq_false, decide_false]
      simpa using hf.symm
    · rename_i hx
      split at h
      · cases h
      · rename_i y r hr
        cases h
        have := ih _ _ hr nd.2
        refine ⟨this.1, ?_⟩
        simp [hx, this.2]

theorem uncancelled_snoc_other (tr : List Ev) (e : Ev) (h1 : issuedOf e = none) (h2 : cancelledOf e = none) :
    uncancelled (tr ++ [e]) = uncancelled tr := by
  simp [uncancelled, issuedIds, cancelledIds, List.filterMap_append, h1, h2]

theorem uncancelled_snoc_issue (tr : List Ev) (e : Ev) (g : Nat) (h1 : issuedOf e = some g)
    (h2 : cancelledOf e = none) (h3 : g ∉ cancelledIds tr) :
    uncancelled (tr ++ [e]) = uncancelled tr ++ [g] := by
  have h3' : ∀ x ∈ tr, ¬ cancelledOf x = some g := by
    intro x hx hc
    exact h3 (List.mem_filterMap.mpr ⟨x, hx, hc⟩)
  simp [uncancelled, issuedIds, cancelledIds, List.filterMap_append, h1, h2]
  exact h3'

theorem uncancelled_snoc_cancel (tr : List Ev) (g : Nat) :
    uncancelled (tr ++ [.cancelled g]) = (uncancelled tr).filter (fun x => decide (x ≠ g)) := by
  simp only [uncancelled, issuedIds, cancelledIds, List.filterMap_append, List.filterMap_cons,
    List.filterMap_nil, issuedOf, cancelledOf, List.append_nil, List.filter_filter]
  congr 1
  funext x
  simp [and_comm]


/-- what links the queue's state to the history that led to it -/
structure Inv (s b : Option Int) (q : Q) (tr : List Ev) : Prop where
  size : q.size = s
  backlog : q.backlog = b
  acc : accepted tr = (deliveries tr).map Prod.snd ++ q.pending
  unc : uncancelled tr = (deliveries tr).map Prod.fst ++ q.waiting.map (·.id)
  excl : q.pending = [] ∨ q.waiting = []
  issuedLt : ∀ x ∈ issuedIds tr, x < q.issued
  issuedNodup : (issuedIds tr).Nodup
  cancLt : ∀ x ∈ cancelledIds tr, x < q.issued
  known : ∀ i, i < q.issued → i ∈ q.called ∨ i ∈ q.waiting.map (·.id)
  calledLt : ∀ i ∈ q.called, i < q.issued
  calledNotWaiting : ∀ i ∈ q.called, i ∉ q.waiting.map (·.id)

theorem inv_init (s b : Option Int) : Inv s b (init s b) [] := by
  constructor <;> simp [init, accepted, deliveries, uncancelled, issuedIds, cancelledIds]

theorem uncancelled_nodup {s b q tr} (h : Inv s b q tr) : (uncancelled tr).Nodup :=
  h.issuedNodup.sublist List.filter_sublist

theorem waiting_nodup {s b q tr} (h : Inv s b q tr) : (q.waiting.map (·.id)).Nodup := by
  have := uncancelled_nodup h
  rw [h.unc] at this
  exact (List.nodup_append.mp this).2.1

theorem waiting_lt {s b q tr} (h : Inv s b q tr) : ∀ g ∈ q.waiting.map (·.id), g < q.issued := by
  intro g hg
  have : g ∈ uncancelled tr := by rw [h.unc]; exact List.mem_append_right _ hg
  exact h.issuedLt g (List.mem_filter.mp this).1

theorem accepted_snoc (tr : List Ev) (e : Ev) : accepted (tr ++ [e]) = accepted tr ++ (putOf e).toList := by
  cases h : putOf e <;> simp [accepted, List.filterMap_append, h]
theorem deliveries_snoc (tr : List Ev) (e : Ev) :
    deliveries (tr ++ [e]) = deliveries tr ++ (deliveryOf e).toList := by
  cases h : deliveryOf e <;> simp [deliveries, List.filterMap_append, h]
theorem issuedIds_snoc (tr : List Ev) (e : Ev) :
    issuedIds (tr ++ [e]) = issuedIds tr ++ (issuedOf e).toList := by
  cases h : issuedOf e <;> simp [issuedIds, List.filterMap_append, h]
theorem cancelledIds_snoc (tr : List Ev) (e : Ev) :
    cancelledIds (tr ++ [e]) = cancelledIds tr ++ (cancelledOf e).toList := by
  cases h : cancelledOf e <;> simp [cancelledIds, List.filterMap_append, h]

/-- a call that raised or did nothing leaves everything as it was -/
theorem inv_silent {s b q tr} (h : Inv s b q tr) (e : Ev) (h1 : putOf e = none)
    (h2 : deliveryOf e = none) (h3 : issuedOf e = none) (h4 : cancelledOf e = none) :
    Inv s b q (tr ++ [e]) := by
  constructor
  · exact h.size
  · exact h.backlog
  · simp [accepted_snoc, deliveries_snoc, h1, h2, h.acc]
  · rw [uncancelled_snoc_other _ _ h3 h4, h.unc]; simp [deliveries_snoc, h2]
  · exact h.excl
  · simpa [issuedIds_snoc, h3] using h.issuedLt
  · simpa [issuedIds_snoc, h3] using h.issuedNodup
  · simpa [cancelledIds_snoc, h4] using h.cancLt
  · exact h.known
  · exact h.calledLt
  · exact h.calledNotWaiting

theorem inv_put {s b q tr} (h : Inv s b q tr) (v : Nat) :
    Inv s b (stepPut q v).1 (tr ++ [(stepPut q v).2.1]) := by
  unfold stepPut
  split
  · rename_i w ws hw
    have hp : q.pending = [] := by
      rcases h.excl with e | e
      · exact e
      · simp [hw] at e
    constructor
    · exact h.size
    · exact h.backlog
    · simp [accepted_snoc, deliveries_snoc, putOf, deliveryOf, h.acc, hp]
    · rw [uncancelled_snoc_other _ _ rfl rfl, h.unc, hw]
      simp [deliveries_snoc, deliveryOf]
    · left; exact hp
    · simpa [issuedIds_snoc, issuedOf] using h.issuedLt
    · simpa [issuedIds_snoc, issuedOf] using h.issuedNodup
    · simpa [cancelledIds_snoc, cancelledOf] using h.cancLt
    · intro i hi
      rcases h.known i hi with k | k
      · left; simp [k]
      · rw [hw] at k
        simp only [List.map_cons, List.mem_cons] at k
        rcases k with k | k
        · left; simp [k]
        · right; exact k
    · intro i hi
      simp only [List.mem_cons] at hi
      rcases hi with hi | hi
      · subst hi; exact waiting_lt h w.id (by simp [hw])
      · exact h.calledLt i hi
    · intro i hi hm
      have hnd := waiting_nodup h
      rw [hw] at hnd
      simp only [List.map_cons, List.nodup_cons] at hnd
      simp only [List.mem_cons] at hi
      rcases hi with hi | hi
      · subst hi; exact hnd.1 hm
      · exact h.calledNotWaiting i hi (by rw [hw]; exact List.mem_cons_of_mem _ hm)
  · rename_i hw
    split
    · constructor
      · exact h.size
      · exact h.backlog
      · simp [accepted_snoc, deliveries_snoc, putOf, deliveryOf, h.acc]
      · rw [uncancelled_snoc_other _ _ rfl rfl, h.unc]
        simp [deliveries_snoc, deliveryOf]
      · right; exact hw
      · simpa [issuedIds_snoc, issuedOf] using h.issuedLt
      · simpa [issuedIds_snoc, issuedOf] using h.issuedNodup
      · simpa [cancelledIds_snoc, cancelledOf] using h.cancLt
      · exact h.known
      · exact h.calledLt
      · exact h.calledNotWaiting
    · exact inv_silent h _ rfl rfl rfl rfl

theorem inv_get {s b q tr} (h : Inv s b q tr) (f c : List Op) :
    Inv s b (stepGet q f c).1 (tr ++ [(stepGet q f c).2.1]) := by
  have hfresh : q.issued ∉ cancelledIds tr := fun hm => Nat.lt_irrefl _ (h.cancLt _ hm)
  have hfresh' : q.issued ∉ issuedIds tr := fun hm => Nat.lt_irrefl _ (h.issuedLt _ hm)
  unfold stepGet
  split
  · rename_i v ps hp
    have hw : q.waiting = [] := by
      rcases h.excl with e | e
      · simp [hp] at e
      · exact e
    constructor
    · exact h.size
    · exact h.backlog
    · simp [accepted_snoc, deliveries_snoc, putOf, deliveryOf, h.acc, hp]
    · rw [uncancelled_snoc_issue _ _ q.issued rfl rfl hfresh, h.unc, hw]
      simp [deliveries_snoc, deliveryOf]
    · right; exact hw
    · intro x hx
      simp only [issuedIds_snoc, issuedOf, Option.toList, List.mem_append, List.mem_singleton] at hx
      rcases hx with hx | hx
      · exact Nat.lt_succ_of_lt (h.issuedLt x hx)
      · simp [hx]
    · simp only [issuedIds_snoc, issuedOf, Option.toList]
      exact List.nodup_append.mpr ⟨h.issuedNodup, by simp, by
        intro a ha b hb; simp at hb; subst hb; intro e; exact hfresh' (e ▸ ha)⟩
    · intro x hx
      simp only [cancelledIds_snoc, cancelledOf, Option.toList, List.append_nil] at hx
      exact Nat.lt_succ_of_lt (h.cancLt x hx)
    · intro i hi
      simp only at hi
      rcases Nat.lt_succ_iff_lt_or_eq.mp hi with k | k
      · rcases h.known i k with m | m
        · left; simp [m]
        · right; exact m
      · left; simp [k]
    · intro i hi
      simp only [List.mem_cons] at hi
      rcases hi with hi | hi
      · simp [hi]
      · exact Nat.lt_succ_of_lt (h.calledLt i hi)
    · intro i _ hm
      simp [hw] at hm
  · rename_i hp
    split
    · constructor
      · exact h.size
      · exact h.backlog
      · simp [accepted_snoc, deliveries_snoc, putOf, deliveryOf, h.acc, hp]
      · rw [uncancelled_snoc_issue _ _ q.issued rfl rfl hfresh, h.unc]
        simp [deliveries_snoc, deliveryOf]
      · left; exact hp
      · intro x hx
        simp only [issuedIds_snoc, issuedOf, Option.toList, List.mem_append, List.mem_singleton] at hx
        rcases hx with hx | hx
        · exact Nat.lt_succ_of_lt (h.issuedLt x hx)
        · simp [hx]
      · simp only [issuedIds_snoc, issuedOf, Option.toList]
        exact List.nodup_append.mpr ⟨h.issuedNodup, by simp, by
          intro a ha b hb; simp at hb; subst hb; intro e; exact hfresh' (e ▸ ha)⟩
      · intro x hx
        simp only [cancelledIds_snoc, cancelledOf, Option.toList, List.append_nil] at hx
        exact Nat.lt_succ_of_lt (h.cancLt x hx)
      · intro i hi
        simp only at hi
        rcases Nat.lt_succ_iff_lt_or_eq.mp hi with k | k
        · rcases h.known i k with m | m
          · left; exact m
          · right; simp [m]
        · right; simp [k]
      · intro i hi
        exact Nat.lt_succ_of_lt (h.calledLt i hi)
      · intro i hi hm
        simp only [List.map_append, List.map_cons, List.map_nil, List.mem_append, List.mem_singleton] at hm
        rcases hm with hm | hm
        · exact h.calledNotWaiting i hi hm
        · exact Nat.lt_irrefl _ (hm ▸ h.calledLt i hi)
    · exact inv_silent h _ rfl rfl rfl rfl

theorem inv_cancel {s b q tr} (h : Inv s b q tr) (i : Nat) :
    Inv s b (stepCancel q i).1 (tr ++ [(stepCancel q i).2.1]) := by
  unfold stepCancel
  split
  · exact inv_silent h _ rfl rfl rfl rfl
  · rename_i hi
    split
    · exact inv_silent h _ rfl rfl rfl rfl
    · rename_i hc
      split
      · exact inv_silent h _ rfl rfl rfl rfl
      · rename_i w ws hr
        have hrs := removeWaiter_some _ _ _ _ hr (waiting_nodup h)
        have hmem : i ∈ q.waiting.map (·.id) := by
          rcases h.known i (Nat.lt_of_not_le hi) with k | k
          · exact absurd k hc
          · exact k
        have hnd := uncancelled_nodup h
        rw [h.unc] at hnd
        have hnotdel : i ∉ (deliveries tr).map Prod.fst := fun hm =>
          (List.nodup_append.mp hnd).2.2 i hm i hmem rfl
        have hp : q.pending = [] := by
          rcases h.excl with e | e
          · exact e
          · rw [e] at hmem; simp at hmem
        constructor
        · exact h.size
        · exact h.backlog
        · simp [accepted_snoc, deliveries_snoc, putOf, deliveryOf, h.acc]
        · rw [uncancelled_snoc_cancel, h.unc, List.filter_append, filter_ne_of_not_mem _ _ hnotdel, hrs.2]
          simp [deliveries_snoc, deliveryOf]
        · left; exact hp
        · simpa [issuedIds_snoc, issuedOf] using h.issuedLt
        · simpa [issuedIds_snoc, issuedOf] using h.issuedNodup
        · intro x hx
          simp only [cancelledIds_snoc, cancelledOf, Option.toList, List.mem_append, List.mem_singleton] at hx
          rcases hx with hx | hx
          · exact h.cancLt x hx
          · subst hx; exact Nat.lt_of_not_le hi
        · intro j hj
          by_cases e : j = i
          · left; simp [e]
          · rcases h.known j hj with m | m
            · left; simp [m]
            · right
              rw [hrs.2]
              exact List.mem_filter.mpr ⟨m, by simp [e]⟩
        · intro j hj
          simp only [List.mem_cons] at hj
          rcases hj with hj | hj
          · subst hj; exact Nat.lt_of_not_le hi
          · exact h.calledLt j hj
        · intro j hj hm
          rw [hrs.2] at hm
          have hm' := List.mem_filter.mp hm
          simp only [List.mem_cons] at hj
          rcases hj with hj | hj
          · subst hj; simp at hm'
          · exact h.calledNotWaiting j hj hm'.1

theorem inv_step {s b q tr} (h : Inv s b q tr) (op : Op) :
    Inv s b (step q op).1 (tr ++ [(step q op).2.1]) := by
  cases op with
  | put v => exact inv_put h v
  | get f c => exact inv_get h f c
  | cancel i => exact inv_cancel h i


theorem steps_inv {s b q tr0 tr q'} (h : Inv s b q tr0) (st : Steps q tr q') : Inv s b q' (tr0 ++ tr) := by
  induction st generalizing tr0 with
  | nil q => simpa using h
  | cons op _ ih =>
    have := ih (inv_step h op)
    simpa using this

theorem steps_split {q q' : Q} (p r : List Ev) (st : Steps q (p ++ r) q') :
    ∃ qi, Steps q p qi ∧ Steps qi r q' := by
  induction p generalizing q with
  | nil => exact ⟨q, Steps.nil q, st⟩
  | cons e p ih =>
    cases st with
    | cons op st' =>
      obtain ⟨qi, h1, h2⟩ := ih st'
      exact ⟨qi, Steps.cons op h1, h2⟩

/-- a re-entrant program is one particular interleaving of calls -/
theorem run_steps (q : Q) (agenda : List Op) : Steps q (run q agenda).2 (run q agenda).1 := by
  fun_induction run q agenda with
  | case1 q => exact Steps.nil q
  | case2 q op rest r r' ih => exact Steps.cons op ih

theorem fifo_of_inv {s b q tr} (h : Inv s b q tr) :
    deliveries tr = (uncancelled tr).zip (accepted tr) := by
  have hx : q.pending = [] ∨ q.waiting.map (·.id) = [] := by
    rcases h.excl with e | e
    · left; exact e
    · right; simp [e]
  rw [h.unc, h.acc, zip_append_excl _ _ _ hx]

/-- every point of a history of `init size backlog` is reached by some interleaving -/
theorem prefix_reached {size backlog : Option Int} {tr tr' : List Ev} {q : Q}
    (st : Steps (init size backlog) tr q) (h : tr' <+: tr) :
    ∃ qi, Steps (init size backlog) tr' qi ∧ Inv size backlog qi tr' := by
  obtain ⟨r, hr⟩ := h
  subst hr
  obtain ⟨qi, h1, _⟩ := steps_split _ _ st
  exact ⟨qi, h1, by simpa using steps_inv (inv_init size backlog) h1⟩

/-- the call that produced the event after a prefix, and the state it was made in -/
theorem prefix_call {size backlog : Option Int} {tr tr' : List Ev} {e : Ev} {q : Q}
    (st : Steps (init size backlog) tr q) (h : tr' ++ [e] <+: tr) :
    ∃ qi op, Inv size backlog qi tr' ∧ e = (step qi op).2.1 := by
  obtain ⟨r, hr⟩ := h
  subst hr
  rw [List.append_assoc] at st
  obtain ⟨qi, h1, h2⟩ := steps_split _ _ st
  cases h2 with
  | cons op _ => exact ⟨qi, op, by simpa using steps_inv (inv_init size backlog) h1, rfl⟩

theorem pendingGets_eq {s b q tr} (h : Inv s b q tr) : pendingGets tr = q.waiting.length := by
  simp [pendingGets, h.unc]
theorem queued_eq {s b q tr} (h : Inv s b q tr) : queued tr = q.pending.length := by
  simp [queued, h.acc]

/-! ### Concrete runs used by the non-vacuity examples -/

/-- three waiting gets; the errback of the cancelled middle one puts 11, which fires get 0,
    whose callback puts 10, which fires get 2; then a put with nobody waiting, a cancel of a
    fired Deferred and a cancel of nothing -/
def demo : List Op :=
  [.get [.put 10] [], .get [] [.put 11], .get [] [], .cancel 1, .put 12, .cancel 0, .cancel 7]

def demoTrace : List Ev :=
  [.getWaiting 0, .getWaiting 1, .getWaiting 2, .cancelled 1, .putDelivered 11 0,
   .putDelivered 10 2, .putQueued 12, .cancelNoop 0, .cancelNoSuch 7]

theorem demo_run : (run (init (some 1) none) demo).2 = demoTrace := by
  simp [demo, demoTrace, run, step, stepPut, stepGet, stepCancel, below, init, removeWaiter]

/-- size 1, backlog 1: second put overflows, the queued object goes to the first get, then one
    get may wait and the next underflows; size 0 with a pending get: put is delivered -/
def demo2 : List Op := [.put 1, .put 2, .get [] [], .get [] [], .get [] [], .put 3]

def demo2Trace : List Ev :=
  [.putQueued 1, .putOverflow 2, .getImmediate 0 1, .getWaiting 1, .getUnderflow, .putDelivered 3 1]

theorem demo2_run : (run (init (some 1) (some 1)) demo2).2 = demo2Trace := by
  simp [demo2, demo2Trace, run, step, stepPut, stepGet, below, init]

theorem demo3_run : (run (init (some 0) (some 0)) [.put 1, .get [] []]).2 = [.putOverflow 1, .getUnderflow] := by
  simp [run, step, stepPut, stepGet, below, init]

/-! ### The property -/

/-- **Every interleaving** of put / get / cancel calls (flat histories; the callbacks' programs
    are irrelevant here), any limits: the deliveries are exactly the uncancelled gets, in get
    order, paired with the accepted objects, in put order.  Hence each accepted object is
    delivered at most once, in put order, the k-th one to the k-th get that was not cancelled
    while pending (the oldest pending uncancelled get, or else a later one), and as many
    deliveries have happened as there are such pairs (no get is left pending while an object is
    queued). -/
theorem fifo_all_interleavings (size backlog : Option Int) (tr : List Ev) (q : Q)
    (st : Steps (init size backlog) tr q) :
    deliveries tr = (uncancelled tr).zip (accepted tr) := by
  have := steps_inv (inv_init size backlog) st
  exact fifo_of_inv (by simpa using this)

/-- non-vacuity: the demo run is an interleaving; its deliveries are `[(0,11),(2,10)]`: get 1 was
    cancelled and is skipped, object 12 is still queued -/
example : Steps (init (some 1) none) demoTrace (run (init (some 1) none) demo).1 ∧
    deliveries demoTrace = [(0, 11), (2, 10)] ∧ uncancelled demoTrace = [0, 2] ∧
    accepted demoTrace = [11, 10, 12] :=
  ⟨demo_run ▸ run_steps _ demo, by decide, by decide, by decide⟩

/-- **Headline.**  For every re-entrant program (callbacks and errbacks of get-Deferreds that
    put, get and cancel again, nested without bound), every `size`/`backlog`, and at *every
    point* of the run (every prefix of the observable history): the deliveries made so far are
    exactly `zip (gets not cancelled while pending, in get order) (objects accepted, in put
    order)`. -/
theorem delivered_exactly_once_in_put_order (size backlog : Option Int) (prog : List Op)
    (tr' : List Ev) (h : tr' <+: (run (init size backlog) prog).2) :
    deliveries tr' = (uncancelled tr').zip (accepted tr') := by
  obtain ⟨qi, _, hi⟩ := prefix_reached (run_steps _ prog) h
  exact fifo_of_inv hi

/-- non-vacuity: a proper prefix of the demo run that ends inside the nested callbacks -/
example : [Ev.getWaiting 0, .getWaiting 1, .getWaiting 2, .cancelled 1, .putDelivered 11 0]
      <+: (run (init (some 1) none) demo).2 ∧
    deliveries [Ev.getWaiting 0, .getWaiting 1, .getWaiting 2, .cancelled 1, .putDelivered 11 0] = [(0, 11)] ∧
    (uncancelled [Ev.getWaiting 0, .getWaiting 1, .getWaiting 2, .cancelled 1, .putDelivered 11 0]).zip
      (accepted [Ev.getWaiting 0, .getWaiting 1, .getWaiting 2, .cancelled 1, .putDelivered 11 0]) = [(0, 11)] := by
  rw [demo_run]; exact ⟨by decide, by decide, by decide⟩

/-- Nothing is lost and nothing is duplicated: at the end of any run the accepted objects are
    the delivered ones followed by the ones still queued, in put order. -/
theorem accepted_eq_delivered_then_pending (size backlog : Option Int) (prog : List Op) :
    accepted (run (init size backlog) prog).2 =
      (deliveries (run (init size backlog) prog).2).map Prod.snd ++ (run (init size backlog) prog).1.pending := by
  have := steps_inv (inv_init size backlog) (run_steps (init size backlog) prog)
  exact (by simpa using this : Inv size backlog _ _).acc

example : accepted demoTrace = [11, 10, 12] ∧ (deliveries demoTrace).map Prod.snd = [11, 10] ∧
    (run (init (some 1) none) demo).1.pending = [12] := by
  refine ⟨by decide, by decide, ?_⟩
  simp [demo, run, step, stepPut, stepGet, stepCancel, below, init, removeWaiter]

/-- … so with distinct objects no object is delivered twice. -/
theorem delivered_nodup (size backlog : Option Int) (prog : List Op) (tr' : List Ev)
    (h : tr' <+: (run (init size backlog) prog).2) (hd : (accepted tr').Nodup) :
    ((deliveries tr').map Prod.snd).Nodup := by
  obtain ⟨qi, _, hi⟩ := prefix_reached (run_steps _ prog) h
  rw [hi.acc] at hd
  exact (List.nodup_append.mp hd).1

example : demoTrace <+: (run (init (some 1) none) demo).2 ∧ (accepted demoTrace).Nodup := by
  rw [demo_run]; exact ⟨by decide, by decide⟩

/-- and no Deferred is fired twice, nor fired after it was cancelled -/
theorem delivered_gets_nodup_uncancelled (size backlog : Option Int) (prog : List Op) (tr' : List Ev)
    (h : tr' <+: (run (init size backlog) prog).2) :
    ((deliveries tr').map Prod.fst).Nodup ∧ ∀ g ∈ (deliveries tr').map Prod.fst, g ∉ cancelledIds tr' := by
  obtain ⟨qi, _, hi⟩ := prefix_reached (run_steps _ prog) h
  have hnd := uncancelled_nodup hi
  rw [hi.unc] at hnd
  refine ⟨(List.nodup_append.mp hnd).1, ?_⟩
  intro g hg
  have : g ∈ uncancelled tr' := by rw [hi.unc]; exact List.mem_append_left _ hg
  simpa using (List.mem_filter.mp this).2

example : (deliveries demoTrace).map Prod.fst = [0, 2] ∧ cancelledIds demoTrace = [1] := by decide

/-- Spelled out for one delivery by `put`: the Deferred fired is the *oldest pending
    uncancelled get* (the first get, in get order, not cancelled and not yet fired), nothing was
    queued, and the object is the one being put. -/
theorem put_fires_oldest_pending_get (size backlog : Option Int) (prog : List Op) (tr' : List Ev)
    (v g : Nat) (h : tr' ++ [.putDelivered v g] <+: (run (init size backlog) prog).2) :
    (uncancelled tr')[(deliveries tr').length]? = some g ∧ queued tr' = 0 := by
  obtain ⟨qi, op, hi, he⟩ := prefix_call (run_steps _ prog) h
  rw [queued_eq hi, hi.unc]
  cases op with
  | put v' =>
    simp only [step, stepPut] at he
    split at he
    · rename_i w ws hw
      cases he
      have hp : qi.pending = [] := by
        rcases hi.excl with e | e
        · exact e
        · simp [hw] at e
      simp [hw, hp]
    · split at he <;> cases he
  | get f c =>
    simp only [step, stepGet] at he
    split at he
    · cases he
    · split at he <;> cases he
  | cancel i =>
    simp only [step, stepCancel] at he
    repeat' split at he
    all_goals cases he

example : (demoTrace.take 5 ++ [Ev.putDelivered 10 2] <+: (run (init (some 1) none) demo).2) ∧
    (uncancelled (demoTrace.take 5))[(deliveries (demoTrace.take 5)).length]? = some 2 := by
  rw [demo_run]; exact ⟨by decide, by decide⟩

/-- … and for a `get` that returns a fired Deferred: the object is the *oldest queued* one (the
    first accepted object not yet delivered) and no get was pending. -/
theorem get_takes_oldest_queued (size backlog : Option Int) (prog : List Op) (tr' : List Ev)
    (v g : Nat) (h : tr' ++ [.getImmediate g v] <+: (run (init size backlog) prog).2) :
    (accepted tr')[(deliveries tr').length]? = some v ∧ pendingGets tr' = 0 := by
  obtain ⟨qi, op, hi, he⟩ := prefix_call (run_steps _ prog) h
  rw [pendingGets_eq hi, hi.acc]
  cases op with
  | put v' =>
    simp only [step, stepPut] at he
    split at he
    · cases he
    · split at he <;> cases he
  | get f c =>
    simp only [step, stepGet] at he
    split at he
    · rename_i v' ps hp
      cases he
      have hw : qi.waiting = [] := by
        rcases hi.excl with e | e
        · simp [hp] at e
        · exact e
      simp [hw, hp]
    · split at he <;> cases he
  | cancel i =>
    simp only [step, stepCancel] at he
    repeat' split at he
    all_goals cases he

example : (demo2Trace.take 2 ++ [Ev.getImmediate 0 1] <+: (run (init (some 1) (some 1)) demo2).2) ∧
    (accepted (demo2Trace.take 2))[(deliveries (demo2Trace.take 2)).length]? = some 1 := by
  rw [demo2_run]; exact ⟨by decide, by decide⟩

/-- never a pending get and a queued object at the same time -/
theorem not_both_nonempty (size backlog : Option Int) (prog : List Op) (tr' : List Ev)
    (h : tr' <+: (run (init size backlog) prog).2) : pendingGets tr' = 0 ∨ queued tr' = 0 := by
  obtain ⟨qi, _, hi⟩ := prefix_reached (run_steps _ prog) h
  rw [pendingGets_eq hi, queued_eq hi]
  rcases hi.excl with e | e
  · right; simp [e]
  · left; simp [e]

example : pendingGets (demoTrace.take 3) = 3 ∧ queued (demoTrace.take 3) = 0 ∧
    pendingGets demoTrace = 0 ∧ queued demoTrace = 1 := by decide

/-- `put` raises `QueueOverflow` **exactly when** no get is pending and the size limit is
    reached (`size = some s` and at least `s` objects are queued — for `s ≤ 0` that is always). -/
theorem overflow_iff (size backlog : Option Int) (prog : List Op) (tr' : List Ev) (e : Ev)
    (h : tr' ++ [e] <+: (run (init size backlog) prog).2) (he : isPutEv e = true) :
    (∃ v, e = .putOverflow v) ↔
      pendingGets tr' = 0 ∧ ∃ s : Int, size = some s ∧ s ≤ (queued tr' : Int) := by
  obtain ⟨qi, op, hi, rfl⟩ := prefix_call (run_steps _ prog) h
  rw [pendingGets_eq hi, queued_eq hi, ← hi.size]
  cases op with
  | put v =>
    simp only [step, stepPut]
    split
    · rename_i w ws hw
      simp [hw]
    · rename_i hw
      cases hs : qi.size with
      | none => simp [below, hw]
      | some s =>
        by_cases hlt : (qi.pending.length : Int) < s
        · simp [below, hlt, hw]
        · simp [below, hlt, hw]; omega
  | get f c =>
    exfalso
    simp only [step, stepGet] at he
    split at he
    · simp [isPutEv] at he
    · split at he <;> simp [isPutEv] at he
  | cancel i =>
    exfalso
    simp only [step, stepCancel] at he
    repeat' split at he
    all_goals simp [isPutEv] at he

/-- non-vacuity, both directions: with size 1 the second put of `demo2` overflows (one object
    queued, no get pending); its last put does not (a get is pending); with size 0 and nothing
    pending the very first put overflows -/
example : ([Ev.putQueued 1] ++ [Ev.putOverflow 2] <+: (run (init (some 1) (some 1)) demo2).2) ∧
    isPutEv (.putOverflow 2) = true ∧ pendingGets [Ev.putQueued 1] = 0 ∧ queued [Ev.putQueued 1] = 1 := by
  rw [demo2_run]; exact ⟨by decide, by decide, by decide, by decide⟩
example : (demo2Trace.take 5 ++ [Ev.putDelivered 3 1] <+: (run (init (some 1) (some 1)) demo2).2) ∧
    isPutEv (.putDelivered 3 1) = true ∧ pendingGets (demo2Trace.take 5) = 1 := by
  rw [demo2_run]; exact ⟨by decide, by decide, by decide⟩
example : ([] ++ [Ev.putOverflow 1] <+: (run (init (some 0) (some 0)) [.put 1, .get [] []]).2) ∧
    queued [] = 0 := by
  rw [demo3_run]; exact ⟨by decide, by decide⟩

/-- `get` raises `QueueUnderflow` **exactly when** nothing is queued and the backlog limit is
    reached (`backlog = some b` and at least `b` gets are pending). -/
theorem underflow_iff (size backlog : Option Int) (prog : List Op) (tr' : List Ev) (e : Ev)
    (h : tr' ++ [e] <+: (run (init size backlog) prog).2) (he : isGetEv e = true) :
    e = .getUnderflow ↔
      queued tr' = 0 ∧ ∃ b : Int, backlog = some b ∧ b ≤ (pendingGets tr' : Int) := by
  obtain ⟨qi, op, hi, rfl⟩ := prefix_call (run_steps _ prog) h
  rw [pendingGets_eq hi, queued_eq hi, ← hi.backlog]
  cases op with
  | get f c =>
    simp only [step, stepGet]
    split
    · rename_i v ps hp
      simp [hp]
    · rename_i hp
      cases hs : qi.backlog with
      | none => simp [below, hp]
      | some s =>
        by_cases hlt : (qi.waiting.length : Int) < s
        · simp [below, hlt, hp]
        · simp [below, hlt, hp]; omega
  | put v =>
    exfalso
    simp only [step, stepPut] at he
    split at he
    · simp [isGetEv] at he
    · split at he <;> simp [isGetEv] at he
  | cancel i =>
    exfalso
    simp only [step, stepCancel] at he
    repeat' split at he
    all_goals simp [isGetEv] at he

/-- non-vacuity: with backlog 1 the third get of `demo2` underflows (one get pending, nothing
    queued), the second does not; with backlog 0 a get on the empty queue underflows at once -/
example : (demo2Trace.take 4 ++ [Ev.getUnderflow] <+: (run (init (some 1) (some 1)) demo2).2) ∧
    isGetEv .getUnderflow = true ∧ queued (demo2Trace.take 4) = 0 ∧ pendingGets (demo2Trace.take 4) = 1 := by
  rw [demo2_run]; exact ⟨by decide, by decide, by decide, by decide⟩
example : (demo2Trace.take 3 ++ [Ev.getWaiting 1] <+: (run (init (some 1) (some 1)) demo2).2) ∧
    isGetEv (.getWaiting 1) = true ∧ pendingGets (demo2Trace.take 3) = 0 := by
  rw [demo2_run]; exact ⟨by decide, by decide, by decide⟩
example : ([Ev.putOverflow 1] ++ [Ev.getUnderflow] <+: (run (init (some 0) (some 0)) [.put 1, .get [] []]).2) := by
  rw [demo3_run]; decide

/-- `cancel()` on a get-Deferred removes it from the queue and errbacks it with
    `CancelledError` **exactly when** that get is pending; otherwise (already fired, already
    cancelled, never returned) nothing at all happens. -/
theorem cancel_errbacks_iff_pending (size backlog : Option Int) (prog : List Op) (tr' : List Ev)
    (e : Ev) (g : Nat) (h : tr' ++ [e] <+: (run (init size backlog) prog).2)
    (he : cancelTarget e = some g) :
    e = .cancelled g ↔ g ∈ pendingList tr' := by
  obtain ⟨qi, op, hi, rfl⟩ := prefix_call (run_steps _ prog) h
  have hpl : pendingList tr' = qi.waiting.map (·.id) := by
    rw [pendingList, hi.unc]
    have : (deliveries tr').length = ((deliveries tr').map Prod.fst).length := by simp
    rw [this, List.drop_left]
  rw [hpl]
  cases op with
  | put v =>
    exfalso
    simp only [step, stepPut] at he
    split at he
    · simp [cancelTarget] at he
    · split at he <;> simp [cancelTarget] at he
  | get f c =>
    exfalso
    simp only [step, stepGet] at he
    split at he
    · simp [cancelTarget] at he
    · split at he <;> simp [cancelTarget] at he
  | cancel i =>
    simp only [step, stepCancel] at he ⊢
    split
    · rename_i hge
      rw [if_pos hge] at he
      simp only [cancelTarget, Option.some.injEq] at he
      subst he
      constructor
      · intro hh; cases hh
      · intro hm; exact absurd (waiting_lt hi i hm) (Nat.not_lt_of_le hge)
    · rename_i hlt
      rw [if_neg hlt] at he
      split
      · rename_i hc
        rw [if_pos hc] at he
        simp only [cancelTarget, Option.some.injEq] at he
        subst he
        constructor
        · intro hh; cases hh
        · intro hm; exact absurd hm (hi.calledNotWaiting i hc)
      · rename_i hc
        rw [if_neg hc] at he
        split
        · rename_i hr
          rw [hr] at he
          simp only [cancelTarget, Option.some.injEq] at he
          subst he
          constructor
          · intro hh; cases hh
          · intro hm; exact absurd hm ((removeWaiter_none _ _).mp hr)
        · rename_i w ws hr
          rw [hr] at he
          simp only [cancelTarget, Option.some.injEq] at he
          subst he
          constructor
          · intro _
            rcases hi.known i (Nat.lt_of_not_le hlt) with k | k
            · exact absurd k hc
            · exact k
          · intro _; rfl

/-- non-vacuity: in the demo run `cancel 1` hits a pending get, `cancel 0` a fired one -/
example : (demoTrace.take 3 ++ [Ev.cancelled 1] <+: (run (init (some 1) none) demo).2) ∧
    cancelTarget (.cancelled 1) = some 1 ∧ pendingList (demoTrace.take 3) = [0, 1, 2] ∧
    (demoTrace.take 7 ++ [Ev.cancelNoop 0] <+: (run (init (some 1) none) demo).2) ∧
    pendingList (demoTrace.take 7) = [] := by
  rw [demo_run]; exact ⟨by decide, by decide, by decide, by decide, by decide⟩

/-- the docstring claim of `_cancelGet`: `self.waiting.remove(d)` never raises — cancelling is
    either the removal of a pending get (which is then errbacked) or a no-op on a fired one -/
theorem cancel_never_raises (size backlog : Option Int) (prog : List Op) (g : Nat) :
    Ev.cancelValueError g ∉ (run (init size backlog) prog).2 := by
  intro hm
  obtain ⟨p, r, hpr⟩ := List.append_of_mem hm
  have hpre : p ++ [Ev.cancelValueError g] <+: (run (init size backlog) prog).2 :=
    ⟨r, by rw [hpr]; simp⟩
  obtain ⟨qi, op, hi, he⟩ := prefix_call (run_steps _ prog) hpre
  cases op with
  | put v =>
    simp only [step, stepPut] at he
    split at he
    · cases he
    · split at he <;> cases he
  | get f c =>
    simp only [step, stepGet] at he
    split at he
    · cases he
    · split at he <;> cases he
  | cancel i =>
    simp only [step, stepCancel] at he
    split at he
    · cases he
    · rename_i hlt
      split at he
      · cases he
      · rename_i hc
        split at he
        · rename_i hr
          rcases hi.known i (Nat.lt_of_not_le hlt) with k | k
          · exact hc k
          · exact (removeWaiter_none _ _).mp hr k
        · cases he

/-- non-vacuity: the demo run cancels a pending get (`cancelled 1`), a fired one (`cancelNoop 0`)
    and a non-existent one -/
example : Ev.cancelled 1 ∈ (run (init (some 1) none) demo).2 ∧ Ev.cancelNoop 0 ∈ (run (init (some 1) none) demo).2 := by
  rw [demo_run]; decide

/-- Multiplicities (the objects need not be distinct: the same object may be put again and
    again).  At the end of any run, every object has been delivered exactly as many times as it
    was accepted, minus the copies still queued … -/
theorem delivered_count (size backlog : Option Int) (prog : List Op) (v : Nat) :
    (accepted (run (init size backlog) prog).2).count v =
      ((deliveries (run (init size backlog) prog).2).map Prod.snd).count v +
        (run (init size backlog) prog).1.pending.count v := by
  rw [accepted_eq_delivered_then_pending, List.count_append]

/-- … and at no point of the run has an object been delivered more often than it was put. -/
theorem delivered_count_le (size backlog : Option Int) (prog : List Op) (tr' : List Ev)
    (h : tr' <+: (run (init size backlog) prog).2) (v : Nat) :
    ((deliveries tr').map Prod.snd).count v ≤ (accepted tr').count v := by
  obtain ⟨qi, _, hi⟩ := prefix_reached (run_steps _ prog) h
  rw [hi.acc, List.count_append]
  omega

/-- non-vacuity: object 7 put three times (once refused: size 2), delivered twice, to two gets -/
example : (run (init (some 2) none) [.put 7, .put 7, .put 7, .get [] [], .get [] [], .get [] []]).2 =
      [.putQueued 7, .putQueued 7, .putOverflow 7, .getImmediate 0 7, .getImmediate 1 7, .getWaiting 2] ∧
    (accepted [Ev.putQueued 7, .putQueued 7, .putOverflow 7, .getImmediate 0 7, .getImmediate 1 7, .getWaiting 2]).count 7 = 2 ∧
    ((deliveries [Ev.putQueued 7, .putQueued 7, .putOverflow 7, .getImmediate 0 7, .getImmediate 1 7,
      .getWaiting 2]).map Prod.snd).count 7 = 2 := by
  refine ⟨?_, by decide, by decide⟩
  simp [run, step, stepPut, stepGet, below, init]

end TwistedProps.C07
