import TwistedProps.C28.Comment
import TwistedProps.C28.Cdata
/-!
C28 lemmas, part 4: the expected structure of a tree (`expect`: events in document order), the
text merger (`feed`/`render`), the precondition `wf`, and the induction over the tree showing that
the tokenizer run over `flatten n` reproduces `expect n` (`node_ok` / `list_ok`).
-/
namespace TwistedProps.C28
open Twisted.Py Twisted.Web.Flatten Twisted.Web.Tok

/-- what a tree means, in document order: character data and markup tokens -/
inductive Ev where
  | txt (s : Bytes)
  | tok (t : Tok)
  deriving DecidableEq, Repr

/-- merge adjacent character data: tokens produced, and the character data still pending -/
def feed : List Ev → Bytes → List Tok × Bytes
  | [], cur => ([], cur)
  | .txt s :: es, cur => feed es (cur ++ s)
  | .tok t :: es, cur => (flushText cur ++ t :: (feed es []).1, (feed es []).2)

theorem feed_append (a b : List Ev) (cur : Bytes) :
    feed (a ++ b) cur = ((feed a cur).1 ++ (feed b (feed a cur).2).1, (feed b (feed a cur).2).2) := by
  induction a generalizing cur with
  | nil => simp [feed]
  | cons e a ih =>
    cases e with
    | txt s => simp [feed, ih]
    | tok t => simp [feed, ih]

/-- the token list of a whole document -/
def render (evs : List Ev) : List Tok := (feed evs []).1 ++ flushText (feed evs []).2

def nm (d : Dialect) (n : Bytes) : Bytes := n.map (fold d)

mutual
/-- **the expected structure** of `flatten n .content`: the same traversal (slots, renderers, Deferreds resolved
    the same way, same slot stack), but producing events instead of bytes.  Every string of the tree ends up
    inside a `txt`, an attribute value or a comment payload; the markup tokens come from the tree's shape only. -/
def expect (d : Dialect) : Node → Bool → Stack → Except Err (List Ev × Stack)
  | .text s, _, st => .ok ([.txt s], st)
  | .slot n, _, st =>
    match getSlot n st with
    | some v => .ok ([.txt v], st)
    | none => .error .unfilledSlot
  | .slotD n dflt, rf, st =>
    match getSlot n st with
    | some v => .ok ([.txt v], st)
    | none => expect d dflt rf st
  | .cdata s, _, st => .ok ([.txt s], st)
  | .comment s, _, st => .ok ([.tok (.comment (escapedComment s))], st)
  | .rtag sd r, rf, st =>
    if rf then
      match expect d r rf (sd :: st) with
      | .ok (e, st1) => .ok (e, st1.tail)
      | .error e => .error e
    else .error .valueError
  | .tag name ans avs ch sd, rf, st =>
    if name = [] then expectList d ch rf (sd :: st)
    else
      match expectAttrs d ans avs rf (sd :: st) with
      | .error e => .error e
      | .ok (as, st2) =>
        if ch ≠ [] then
          match expectList d ch rf st2 with
          | .ok (ce, st3) => .ok ([.tok (.start (nm d name) as false)] ++ ce ++ [.tok (.close (nm d name))], st3)
          | .error e => .error e
        else if name.any (· ≥ 128) then .error .unicode
        else if voidElements.contains name then .ok ([.tok (.start (nm d name) as true)], st2)
        else .ok ([.tok (.start (nm d name) as false), .tok (.close (nm d name))], st2)
  | .list ns, rf, st => expectList d ns rf st
  | .deferred n, rf, st => expect d n rf st
  | .renderable n, _, st => expect d n true st

def expectList (d : Dialect) : List Node → Bool → Stack → Except Err (List Ev × Stack)
  | [], _, st => .ok ([], st)
  | n :: ns, rf, st =>
    match expect d n rf st with
    | .error e => .error e
    | .ok (e, st1) =>
      match expectList d ns rf st1 with
      | .error e => .error e
      | .ok (e2, st2) => .ok (e ++ e2, st2)

/-- attribute values: the bytes the value's own flattening writes (before `writeWithAttributeEscaping`) -/
def expectAttrs (d : Dialect) : List Bytes → List Node → Bool → Stack → Except Err (List (Bytes × Bytes) × Stack)
  | k :: ks, v :: vs, rf, st =>
    match flatten v .attr rf st with
    | .error e => .error e
    | .ok (o, st1) =>
      match expectAttrs d ks vs rf st1 with
      | .error e => .error e
      | .ok (as, st2) => .ok ((nm d k, o) :: as, st2)
  | _, _, _, st => .ok ([], st)
end

mutual
/-- the property's precondition, per reading -/
def wf (d : Dialect) : Node → Bool
  | .text _ => true
  | .slot _ => true
  | .slotD _ dflt => wf d dflt
  | .cdata _ => cdataOk d
  | .comment s => d != .xml || xmlCommentOk false (escapedComment s)
  | .rtag _ r => wf d r
  | .tag name ans _ ch _ => (name == [] || (nameOk d name && ans.all (attrNameOk d))) && wfList d ch
  | .list ns => wfList d ns
  | .deferred n => wf d n
  | .renderable n => wf d n
def wfList (d : Dialect) : List Node → Bool
  | [] => true
  | n :: ns => wf d n && wfList d ns
end

/-- states from which a space starts the next attribute and `>` ends the start tag -/
def TagPoint (d : Dialect) (S : St) (name : Bytes) (acc : List (Bytes × Bytes)) : Prop :=
  step d S 32 = (.beforeAttr ⟨name, acc⟩, []) ∧ step d S 62 = (.data [], [Tok.start name acc false])

theorem tagPoint_tagName (d : Dialect) (n : Bytes) : TagPoint d (.tagName n) n [] := by
  constructor <;> simp [step]

theorem tagPoint_afterVal (d : Dialect) (n : Bytes) (acc : List (Bytes × Bytes)) :
    TagPoint d (.afterVal ⟨n, acc⟩) n acc := by
  constructor <;> simp [step]

theorem charOk_special (d : Dialect) : charOk d 38 = true ∧ charOk d 60 = true ∧ charOk d 62 = true ∧ charOk d 34 = true := by
  cases d <;> simp [charOk, xmlChar]

theorem chars_of_attrEsc (d : Dialect) (x : Bytes) (h : ∀ c ∈ attrEsc x, charOk d c = true) :
    ∀ c ∈ x, charOk d c = true := by
  intro c hc
  have hs := charOk_special d
  by_cases h1 : c = 38; · subst h1; exact hs.1
  by_cases h2 : c = 60; · subst h2; exact hs.2.1
  by_cases h3 : c = 62; · subst h3; exact hs.2.2.1
  by_cases h4 : c = 34; · subst h4; exact hs.2.2.2
  apply h
  rw [attrEsc_eq, List.mem_flatMap]
  exact ⟨c, hc, by simp [a1, h1, h2, h3, h4]⟩

theorem chars_of_escapeForContent (d : Dialect) (x : Bytes) (h : ∀ c ∈ escapeForContent x, charOk d c = true) :
    ∀ c ∈ x, charOk d c = true := by
  intro c hc
  have hs := charOk_special d
  by_cases h1 : c = 38; · subst h1; exact hs.1
  by_cases h2 : c = 60; · subst h2; exact hs.2.1
  by_cases h3 : c = 62; · subst h3; exact hs.2.2.1
  apply h
  rw [escapeForContent_eq, List.mem_flatMap]
  exact ⟨c, hc, by simp [e1, h1, h2, h3]⟩

theorem mem_escapedCDATA (s : Bytes) : ∀ c ∈ s, c ∈ escapedCDATA s := by
  induction s using escapedCDATA.induct with
  | case1 => simp
  | case2 c d e t2 h ih =>
    obtain ⟨rfl, rfl, rfl⟩ := h
    intro x hx
    simp only [List.mem_cons] at hx
    have hs : escapedCDATA (93 :: 93 :: 62 :: t2) =
        [93, 93, 93, 93, 62, 60, 33, 91, 67, 68, 65, 84, 65, 91, 62] ++ escapedCDATA t2 := by
      simp [escapedCDATA]
    rw [hs]
    rcases hx with rfl | rfl | rfl | hx
    · simp
    · simp
    · simp
    · exact List.mem_append_right _ (ih x hx)
  | case3 c d e t2 h ih =>
    intro x hx
    have hs : escapedCDATA (c :: d :: e :: t2) = c :: escapedCDATA (d :: e :: t2) := by
      simp only [escapedCDATA, h, if_false]
    rw [hs]
    simp only [List.mem_cons] at hx ⊢
    rcases hx with rfl | hx
    · exact Or.inl rfl
    · exact Or.inr (ih x (by simpa using hx))
  | case4 c t hne ih =>
    intro x hx
    have hs : escapedCDATA (c :: t) = c :: escapedCDATA t := by
      rcases t with _ | ⟨dd, _ | ⟨e, t2⟩⟩
      · simp [escapedCDATA]
      · simp [escapedCDATA]
      · exact (hne dd e t2 rfl).elim
    rw [hs]
    simp only [List.mem_cons] at hx ⊢
    rcases hx with rfl | hx
    · exact Or.inl rfl
    · exact Or.inr (ih x hx)

/-- **attributes**: the attribute part of a start tag is consumed into exactly the expected
    `(name, raw value)` pairs; no value can end its own quotes or the tag. -/
theorem attrs_consumed (d : Dialect) (ans : List Bytes) :
    ∀ (avs : List Node) (rf : Bool) (st : Stack) (out : Bytes) (st' : Stack) (S : St) (name : Bytes)
      (acc : List (Bytes × Bytes)),
      ans.all (attrNameOk d) = true → flattenAttrs ans avs rf st = .ok (out, st') →
      (∀ c ∈ out, charOk d c = true) → TagPoint d S name acc →
      ∃ as S', expectAttrs d ans avs rf st = .ok (as, st') ∧ Goes d S out S' [] ∧
        TagPoint d S' name (acc ++ as) := by
  induction ans with
  | nil =>
    intro avs rf st out st' S name acc _ hf _ hS
    simp only [flattenAttrs] at hf
    cases hf
    exact ⟨[], S, by simp [expectAttrs], Goes.nil d S, by simpa using hS⟩
  | cons k ks ih =>
    intro avs rf st out st' S name acc hn hf hc hS
    cases avs with
    | nil =>
      simp only [flattenAttrs] at hf
      cases hf
      exact ⟨[], S, by simp [expectAttrs], Goes.nil d S, by simpa using hS⟩
    | cons v vs =>
      simp only [flattenAttrs] at hf
      split at hf
      · cases hf
      · rename_i o st1 hv
        split at hf
        · cases hf
        · rename_i o2 st2 hrest
          cases hf
          simp only [List.all_cons, Bool.and_eq_true] at hn
          -- the name
          cases k with
          | nil => simp [attrNameOk] at hn
          | cons c cs =>
            have hk : attrStart d c = true ∧ cs.all (attrChar d) = true := by
              simpa [attrNameOk] using hn.1
            have hc47 := attrStart_ne d c hk.1
            have hco : ∀ x ∈ o, charOk d x = true := by
              apply chars_of_attrEsc
              intro x hx
              exact hc x (by simp [hx])
            have hc2 : ∀ x ∈ o2, charOk d x = true := fun x hx => hc x (by simp [hx])
            obtain ⟨as, S', he, hg, hS'⟩ := ih vs rf st1 o2 st' (.afterVal ⟨name, acc ++ [(nm d (c :: cs), o)]⟩)
              name (acc ++ [(nm d (c :: cs), o)]) hn.2 hrest hc2 (tagPoint_afterVal d _ _)
            refine ⟨(nm d (c :: cs), o) :: as, S', ?_, ?_, by simpa using hS'⟩
            · simp [expectAttrs, hv, he]
            · have s1 : Goes d S [32] (.beforeAttr ⟨name, acc⟩) [] := Goes.one hS.1
              have s2 : Goes d (.beforeAttr ⟨name, acc⟩) [c] (.attrName ⟨name, acc⟩ [fold d c]) [] :=
                Goes.one (by simp [step, hc47, hk.1])
              have s3 := attrName_consumed d ⟨name, acc⟩ cs [fold d c] hk.2
              have s4 : Goes d (.attrName ⟨name, acc⟩ ([fold d c] ++ cs.map (fold d))) [61, 34]
                  (.attrVal ⟨name, acc⟩ ([fold d c] ++ cs.map (fold d)) []) [] := by
                simp [Goes, steps, step]
              have s5 := attr_consumed d ⟨name, acc⟩ ([fold d c] ++ cs.map (fold d)) o [] hco
              have s6 : Goes d (.attrVal ⟨name, acc⟩ ([fold d c] ++ cs.map (fold d)) ([] ++ o)) [34]
                  (.afterVal ⟨name, acc ++ [([fold d c] ++ cs.map (fold d), [] ++ o)]⟩) [] := by
                simp [Goes, steps, step]
              have := Goes.silent s1 (Goes.silent s2 (Goes.silent s3 (Goes.silent s4 (Goes.silent s5 (Goes.silent s6
                (by simpa [nm] using hg))))))
              simpa [List.append_assoc] using this

/-- tokenizing `out` from the data state behaves exactly like feeding `evs` to the text merger -/
def Spec (d : Dialect) (out : Bytes) (evs : List Ev) : Prop :=
  ∀ cur, Goes d (.data cur) out (.data (feed evs cur).2) (feed evs cur).1

theorem spec_text (d : Dialect) (s : Bytes) (h : ∀ c ∈ escapeForContent s, charOk d c = true) :
    Spec d (escapeForContent s) [.txt s] := by
  intro cur
  simpa [feed] using text_consumed d s cur (chars_of_escapeForContent d s h)

theorem spec_append {d : Dialect} {o1 o2 : Bytes} {e1 e2 : List Ev} (h1 : Spec d o1 e1) (h2 : Spec d o2 e2) :
    Spec d (o1 ++ o2) (e1 ++ e2) := by
  intro cur
  have := Goes.trans (h1 cur) (h2 (feed e1 cur).2)
  simpa [feed_append] using this

theorem spec_nil (d : Dialect) : Spec d [] [] := by
  intro cur; simpa [feed] using Goes.nil d (.data cur)

theorem spec_cdata (d : Dialect) (hd : cdataOk d = true) (s : Bytes)
    (h : ∀ c ∈ cdataOpen ++ escapedCDATA s ++ cdataClose, charOk d c = true) :
    Spec d (cdataOpen ++ escapedCDATA s ++ cdataClose) [.txt s] := by
  intro cur
  have hopen : Goes d (.data cur) cdataOpen (.cdata cur 0) [] := by
    cases d with
    | xml => simp [Goes, cdataOpen, steps, step, cdataKw, dashes]
    | html f =>
      simp [cdataOk] at hd; subst hd
      simp [Goes, cdataOpen, steps, step, cdataKw, dashes]
  have hs : ∀ c ∈ s, charOk d c = true := fun c hc =>
    h c (by simp [mem_escapedCDATA s c hc])
  have := Goes.silent hopen (cdata_consumed d hd s cur hs)
  simpa [feed, List.append_assoc] using this

theorem spec_comment (d : Dialect) (s : Bytes) (hw : (d != .xml || xmlCommentOk false (escapedComment s)) = true) :
    Spec d (commentOpen ++ escapedComment s ++ commentClose) [.tok (.comment (escapedComment s))] := by
  intro cur
  cases d with
  | xml =>
    have hw' : xmlCommentOk false (escapedComment s) = true := by simpa using hw
    have hopen : Goes .xml (.data cur) commentOpen (.comment .body []) (flushText cur) := by
      simp [Goes, commentOpen, steps, step, dashes, cdataKw]
    have := Goes.trans hopen (xml_comment _ hw')
    simpa [feed, List.append_assoc] using this
  | html f =>
    have hopen : Goes (.html f) (.data cur) commentOpen (.comment .start []) (flushText cur) := by
      simp [Goes, commentOpen, steps, step, dashes, cdataKw]
    have := Goes.trans hopen (html_comment f s)
    simpa [feed, List.append_assoc] using this

theorem open_tag (d : Dialect) (name : Bytes) (hn : nameOk d name = true) (cur : Bytes) :
    Goes d (.data cur) ([60] ++ name) (.tagName (nm d name)) (flushText cur) := by
  cases name with
  | nil => simp [nameOk] at hn
  | cons c cs =>
    have hk : nameStart d c = true ∧ cs.all (nameChar d) = true := by simpa [nameOk] using hn
    have hne := nameStart_ne d c hk.1
    have s1 : Goes d (.data cur) [60] (.tagOpen cur) [] := by simp [Goes, steps, step]
    have s2 : Goes d (.tagOpen cur) [c] (.tagName [fold d c]) (flushText cur) :=
      Goes.one (by simp [step, hne.1, hne.2, hk.1])
    have s3 := tagName_consumed d cs [fold d c] hk.2
    have := Goes.silent s1 (Goes.trans s2 s3)
    simpa [nm] using this

theorem close_tag (d : Dialect) (name : Bytes) (hn : nameOk d name = true) (cur : Bytes) :
    Goes d (.data cur) ([60, 47] ++ name ++ [62]) (.data []) (flushText cur ++ [Tok.close (nm d name)]) := by
  cases name with
  | nil => simp [nameOk] at hn
  | cons c cs =>
    have hk : nameStart d c = true ∧ cs.all (nameChar d) = true := by simpa [nameOk] using hn
    have s1 : Goes d (.data cur) [60, 47] .endTagOpen (flushText cur) := by simp [Goes, steps, step]
    have s2 : Goes d .endTagOpen [c] (.endName [fold d c]) [] := Goes.one (by simp [step, hk.1])
    have s3 := endName_consumed d cs [fold d c] hk.2
    have s4 : Goes d (.endName ([fold d c] ++ cs.map (fold d))) [62] (.data []) [Tok.close ([fold d c] ++ cs.map (fold d))] :=
      Goes.one (by simp [step])
    have := Goes.trans s1 (Goes.silent s2 (Goes.silent s3 s4))
    simpa [nm, List.append_assoc] using this

theorem spec_tag_children (d : Dialect) (name ao co : Bytes) (as : List (Bytes × Bytes)) (ce : List Ev) (S' : St)
    (hn : nameOk d name = true) (ha : Goes d (.tagName (nm d name)) ao S' []) (hS : TagPoint d S' (nm d name) as)
    (hc : Spec d co ce) :
    Spec d ([60] ++ name ++ ao ++ [62] ++ co ++ [60, 47] ++ name ++ [62])
      ([.tok (.start (nm d name) as false)] ++ ce ++ [.tok (.close (nm d name))]) := by
  intro cur
  have s1 := open_tag d name hn cur
  have s2 : Goes d S' [62] (.data []) [Tok.start (nm d name) as false] := Goes.one hS.2
  have s3 := hc []
  have s4 := close_tag d name hn (feed ce []).2
  have := Goes.trans s1 (Goes.silent ha (Goes.trans s2 (Goes.trans s3 s4)))
  simpa [feed, feed_append, List.append_assoc] using this

theorem spec_tag_empty (d : Dialect) (name ao : Bytes) (as : List (Bytes × Bytes)) (S' : St)
    (hn : nameOk d name = true) (ha : Goes d (.tagName (nm d name)) ao S' []) (hS : TagPoint d S' (nm d name) as) :
    Spec d ([60] ++ name ++ ao ++ [62] ++ [60, 47] ++ name ++ [62])
      [.tok (.start (nm d name) as false), .tok (.close (nm d name))] := by
  have := spec_tag_children d name ao [] as [] S' hn ha hS (spec_nil d)
  simpa using this

theorem spec_tag_void (d : Dialect) (name ao : Bytes) (as : List (Bytes × Bytes)) (S' : St)
    (hn : nameOk d name = true) (ha : Goes d (.tagName (nm d name)) ao S' []) (hS : TagPoint d S' (nm d name) as) :
    Spec d ([60] ++ name ++ ao ++ [32, 47, 62]) [.tok (.start (nm d name) as true)] := by
  intro cur
  have s1 := open_tag d name hn cur
  have s2 : Goes d S' [32] (.beforeAttr ⟨nm d name, as⟩) [] := Goes.one hS.1
  have s3 : Goes d (.beforeAttr ⟨nm d name, as⟩) [47, 62] (.data []) [Tok.start (nm d name) as true] := by
    simp [Goes, steps, step]
  have := Goes.trans s1 (Goes.silent ha (Goes.silent s2 s3))
  simpa [feed, List.append_assoc] using this


mutual
theorem node_ok (d : Dialect) : (n : Node) → (rf : Bool) → (st : Stack) → (out : Bytes) → (st' : Stack) →
    wf d n = true → flatten n .content rf st = .ok (out, st') → (∀ c ∈ out, charOk d c = true) →
    ∃ evs, expect d n rf st = .ok (evs, st') ∧ Spec d out evs
  | .text s, rf, st, out, st', _, hf, hc => by
    simp only [flatten, escData] at hf
    cases hf
    exact ⟨[.txt s], by simp [expect], spec_text d s hc⟩
  | .slot n, rf, st, out, st', _, hf, hc => by
    simp only [flatten] at hf
    split at hf
    · rename_i v hv
      simp only [escData] at hf
      cases hf
      exact ⟨[.txt v], by simp [expect, hv], spec_text d v hc⟩
    · cases hf
  | .slotD n dflt, rf, st, out, st', hw, hf, hc => by
    simp only [flatten] at hf
    split at hf
    · rename_i v hv
      simp only [escData] at hf
      cases hf
      exact ⟨[.txt v], by simp [expect, hv], spec_text d v hc⟩
    · rename_i hv
      simp only [wf] at hw
      obtain ⟨evs, he, hs⟩ := node_ok d dflt rf st out st' hw hf hc
      exact ⟨evs, by simp [expect, hv, he], hs⟩
  | .cdata s, rf, st, out, st', hw, hf, hc => by
    simp only [flatten] at hf
    cases hf
    simp only [wf] at hw
    exact ⟨[.txt s], by simp [expect], spec_cdata d hw s hc⟩
  | .comment s, rf, st, out, st', hw, hf, hc => by
    simp only [flatten] at hf
    cases hf
    simp only [wf] at hw
    exact ⟨_, by simp [expect], spec_comment d s hw⟩
  | .rtag sd r, rf, st, out, st', hw, hf, hc => by
    simp only [flatten] at hf
    split at hf
    · rename_i hrf
      split at hf
      · rename_i o st1 hr
        cases hf
        simp only [wf] at hw
        obtain ⟨evs, he, hs⟩ := node_ok d r rf (sd :: st) out st1 hw hr hc
        subst hrf
        exact ⟨evs, by simp [expect, he], hs⟩
      · cases hf
    · cases hf
  | .tag name ans avs ch sd, rf, st, out, st', hw, hf, hc => by
    simp only [flatten] at hf
    simp only [wf, Bool.and_eq_true, Bool.or_eq_true, beq_iff_eq] at hw
    split at hf
    · rename_i hname
      obtain ⟨evs, he, hs⟩ := list_ok d ch rf (sd :: st) out st' hw.2 hf hc
      exact ⟨evs, by simp [expect, hname, he], hs⟩
    · rename_i hname
      have hnm : nameOk d name = true ∧ ans.all (attrNameOk d) = true := by
        rcases hw.1 with h | h
        · exact absurd h hname
        · exact h
      split at hf
      · cases hf
      · rename_i ao st2 hattrs
        split at hf
        · rename_i hch
          split at hf
          · rename_i co st3 hchildren
            cases hf
            have hcao : ∀ c ∈ ao, charOk d c = true := fun c h => hc c (by simp [h])
            have hcco : ∀ c ∈ co, charOk d c = true := fun c h => hc c (by simp [h])
            obtain ⟨as, S', hea, hga, hS⟩ := attrs_consumed d ans avs rf (sd :: st) ao st2 (.tagName (nm d name))
              (nm d name) [] hnm.2 hattrs hcao (tagPoint_tagName d _)
            obtain ⟨ce, hec, hsc⟩ := list_ok d ch rf st2 co _ hw.2 hchildren hcco
            refine ⟨_, ?_, spec_tag_children d name ao co as ce S' hnm.1 hga (by simpa using hS) hsc⟩
            simp [expect, hname, hea, hch, hec]
          · cases hf
        · rename_i hch
          split at hf
          · cases hf
          · rename_i h128
            have hcao : ∀ c ∈ ao, charOk d c = true := by
              intro c h
              split at hf <;> cases hf <;> exact hc c (by simp [h])
            obtain ⟨as, S', hea, hga, hS⟩ := attrs_consumed d ans avs rf (sd :: st) ao st2 (.tagName (nm d name))
              (nm d name) [] hnm.2 hattrs hcao (tagPoint_tagName d _)
            split at hf
            · rename_i hvoid
              cases hf
              refine ⟨_, ?_, spec_tag_void d name ao as S' hnm.1 hga (by simpa using hS)⟩
              have hvoid' : name ∈ voidElements := by simpa using hvoid
              simp [expect, hname, hea, hch, h128, hvoid']
            · rename_i hvoid
              cases hf
              refine ⟨_, ?_, spec_tag_empty d name ao as S' hnm.1 hga (by simpa using hS)⟩
              have hvoid' : name ∉ voidElements := by simpa using hvoid
              simp [expect, hname, hea, hch, h128, hvoid']
  | .list ns, rf, st, out, st', hw, hf, hc => by
    simp only [flatten] at hf
    simp only [wf] at hw
    obtain ⟨evs, he, hs⟩ := list_ok d ns rf st out st' hw hf hc
    exact ⟨evs, by simp [expect, he], hs⟩
  | .deferred n, rf, st, out, st', hw, hf, hc => by
    simp only [flatten] at hf
    simp only [wf] at hw
    obtain ⟨evs, he, hs⟩ := node_ok d n rf st out st' hw hf hc
    exact ⟨evs, by simp [expect, he], hs⟩
  | .renderable n, rf, st, out, st', hw, hf, hc => by
    simp only [flatten] at hf
    simp only [wf] at hw
    obtain ⟨evs, he, hs⟩ := node_ok d n true st out st' hw hf hc
    exact ⟨evs, by simp [expect, he], hs⟩

theorem list_ok (d : Dialect) : (ns : List Node) → (rf : Bool) → (st : Stack) → (out : Bytes) → (st' : Stack) →
    wfList d ns = true → flattenList ns .content rf st = .ok (out, st') → (∀ c ∈ out, charOk d c = true) →
    ∃ evs, expectList d ns rf st = .ok (evs, st') ∧ Spec d out evs
  | [], rf, st, out, st', _, hf, _ => by
    simp only [flattenList] at hf
    cases hf
    exact ⟨[], by simp [expectList], spec_nil d⟩
  | n :: ns, rf, st, out, st', hw, hf, hc => by
    simp only [flattenList] at hf
    simp only [wfList, Bool.and_eq_true] at hw
    split at hf
    · cases hf
    · rename_i o st1 h1
      split at hf
      · cases hf
      · rename_i o2 st2 h2
        cases hf
        obtain ⟨e1, he1, hs1⟩ := node_ok d n rf st o st1 hw.1 h1 (fun c h => hc c (by simp [h]))
        obtain ⟨e2, he2, hs2⟩ := list_ok d ns rf st1 o2 st' hw.2 h2 (fun c h => hc c (by simp [h]))
        exact ⟨e1 ++ e2, by simp [expectList, he1, he2], spec_append hs1 hs2⟩
end

end TwistedProps.C28
