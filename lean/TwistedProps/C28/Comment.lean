import TwistedProps.C28.Basic
/-!
C28 lemmas, part 2: comments.  The HTML comment machine run over `escapedComment s ++ "-->"`
yields one comment token with data `escapedComment s`, for every `s` (so `-->`, `--!>`, a
leading `>` or `->`, `<!--`, trailing dashes … in `s` can neither end the comment early nor
keep it open).  The XML reading needs the side condition `xmlCommentOk` (no `--`).
-/
namespace TwistedProps.C28
open Twisted.Py Twisted.Web.Flatten Twisted.Web.Tok

def pend : CS → Bytes
  | .start => [] | .startDash => [45] | .body => [] | .endDash => [45] | .end_ => [45, 45] | .endBang => [45, 45, 33]
def emits : CS → Bool
  | .start => true | .startDash => true | .body => false | .endDash => false | .end_ => true | .endBang => true
def nextCS (cs : CS) (c : UInt8) : CS :=
  match cs with
  | .start => if c = 45 then .startDash else .body
  | .startDash => if c = 45 then .end_ else .body
  | .body => if c = 45 then .endDash else .body
  | .endDash => if c = 45 then .end_ else .body
  | .end_ => if c = 33 then .endBang else if c = 45 then .end_ else .body
  | .endBang => if c = 45 then .endDash else .body
def safe : CS → Bytes → Bool
  | _, [] => true
  | cs, c :: v => !(emits cs && c == 62) && safe (nextCS cs c) v

theorem htmlComment_step (cs : CS) (data : Bytes) (c : UInt8) (h : (emits cs && c == 62) = false) :
    ∃ data', htmlComment cs data c = (.comment (nextCS cs c) data', []) ∧
      data' ++ pend (nextCS cs c) = data ++ pend cs ++ [c] := by
  cases cs <;> simp [emits] at h <;> simp [htmlComment, commentBody, nextCS, pend] <;>
    (try by_cases h1 : c = 45 <;> try by_cases h2 : c = 33) <;> simp_all

/-- a safe run keeps the comment open and loses nothing -/
theorem comment_safe_run (f : Bool) (v : Bytes) (cs : CS) (data : Bytes) (h : safe cs v = true) :
    ∃ cs' data', Goes (.html f) (.comment cs data) v (.comment cs' data') [] ∧
      data' ++ pend cs' = data ++ pend cs ++ v := by
  induction v generalizing cs data with
  | nil => exact ⟨cs, data, Goes.nil _ _, by simp⟩
  | cons c v ih =>
    simp only [safe, Bool.and_eq_true, Bool.not_eq_true'] at h
    obtain ⟨d1, hs, hd⟩ := htmlComment_step cs data c h.1
    obtain ⟨cs', d2, hg, hd2⟩ := ih (nextCS cs c) d1 h.2
    refine ⟨cs', d2, ?_, ?_⟩
    · have h1 : step (.html f) (.comment cs data) c = (.comment (nextCS cs c) d1, []) := by
        simp [step, hs]
      simpa using Goes.cons h1 hg
    · rw [hd2, hd]; simp

/-- `-->` ends the comment from every state, with exactly the pending text added -/
theorem comment_close (f : Bool) (cs : CS) (data : Bytes) :
    Goes (.html f) (.comment cs data) commentClose (.data []) [Tok.comment (data ++ pend cs)] := by
  cases cs <;> simp [Goes, commentClose, steps, step, htmlComment, commentBody, pend]

theorem html_comment_of_safe (f : Bool) (e : Bytes) (h : safe .start e = true) :
    Goes (.html f) (.comment .start []) (e ++ commentClose) (.data []) [Tok.comment e] := by
  obtain ⟨cs', d', hg, hd⟩ := comment_safe_run f e .start [] h
  have := Goes.silent hg (comment_close f cs' d')
  rw [hd] at this
  simpa [pend] using this


/-- what the state needs to know about the *unescaped* rest of the comment text -/
def pre (cs : CS) (s : Bytes) : Bool :=
  match cs with
  | .start => s.take 1 != [62] && s.take 2 != [45, 62]
  | .startDash => s.take 1 != [62] && s.take 2 != [45, 62] && s.take 3 != [45, 33, 62]
  | .body => true
  | .endDash => s.take 2 != [45, 62] && s.take 3 != [45, 33, 62]
  | .end_ => s.take 1 != [62] && s.take 2 != [33, 62] && s.take 2 != [45, 62] && s.take 3 != [45, 33, 62]
  | .endBang => s.take 1 != [62]

theorem safe_arrow (cs : CS) (x : Bytes) : safe cs ([45, 45] ++ gt ++ x) = safe .body x := by
  cases cs <;> simp [safe, gt, nextCS, emits]

theorem safe_bang (cs : CS) (x : Bytes) : safe cs ([45, 45, 33] ++ gt ++ x) = safe .body x := by
  cases cs <;> simp [safe, gt, nextCS, emits]

theorem safe_cons (cs : CS) (c : UInt8) (v : Bytes) :
    safe cs (c :: v) = (!(emits cs && c == 62) && safe (nextCS cs c) v) := rfl

theorem safe_sub (s : Bytes) : ∀ cs, pre cs s = true → safe cs (subCommentEnd s) = true := by
  induction s using subCommentEnd.induct with
  | case1 => intro cs _; simp [subCommentEnd, safe]
  | case2 c d e f t3 h ih =>
    intro cs _
    simp only [subCommentEnd, h, and_self, if_true]
    rw [safe_arrow]; exact ih .body rfl
  | case3 c d e f t3 h1 h2 ih =>
    intro cs _
    obtain ⟨rfl, rfl, rfl, rfl⟩ := h2
    have hs : subCommentEnd (45 :: 45 :: 33 :: 62 :: t3) = [45, 45, 33] ++ gt ++ subCommentEnd t3 := by
      simp [subCommentEnd]
    rw [hs, safe_bang]; exact ih .body rfl
  | case4 c d e f t3 h1 h2 ih =>
    intro cs hp
    have hs : subCommentEnd (c :: d :: e :: f :: t3) = c :: subCommentEnd (d :: e :: f :: t3) := by
      simp only [subCommentEnd, h1, h2, if_false]
    rw [hs, safe_cons]
    simp only [Bool.and_eq_true, Bool.not_eq_true']
    refine ⟨?_, ih _ ?_⟩
    · cases cs <;> simp_all [pre, emits]
    · cases cs <;> simp_all [pre, nextCS] <;> grind
  | case5 c d e t2 hne h ih =>
    intro cs _
    simp only [subCommentEnd, h, and_self, if_true]
    rw [safe_arrow]; exact ih .body rfl
  | case6 c d e t2 hne h ih =>
    intro cs hp
    have ht2 : t2 = [] := by
      cases t2 with
      | nil => rfl
      | cons f t3 => exact (hne f t3 rfl).elim
    subst ht2
    have hs : subCommentEnd (c :: d :: e :: []) = c :: subCommentEnd (d :: e :: []) := by
      simp only [subCommentEnd, h, if_false]
    rw [hs, safe_cons]
    simp only [Bool.and_eq_true, Bool.not_eq_true']
    refine ⟨?_, ih _ ?_⟩
    · cases cs <;> simp_all [pre, emits]
    · cases cs <;> simp_all [pre, nextCS] <;> grind
  | case7 c t hne4 hne ih =>
    intro cs hp
    have hsub : subCommentEnd (c :: t) = c :: subCommentEnd t := by
      rcases t with _ | ⟨d, _ | ⟨e, t2⟩⟩
      · simp [subCommentEnd]
      · simp [subCommentEnd]
      · exact (hne d e t2 rfl).elim
    rw [hsub, safe_cons]
    simp only [Bool.and_eq_true, Bool.not_eq_true']
    refine ⟨?_, ih _ ?_⟩
    · cases cs <;> simp_all [pre, emits]
    · rcases t with _ | ⟨d, _ | ⟨e, t2⟩⟩
      · cases cs <;> simp [pre, nextCS] <;> split <;> simp
      · cases cs <;> simp_all [pre, nextCS] <;> grind
      · exact (hne d e t2 rfl).elim

theorem sub_cons_ne (c : UInt8) (t : Bytes) (h : c ≠ 45) : subCommentEnd (c :: t) = c :: subCommentEnd t := by
  rcases t with _ | ⟨d, _ | ⟨e, _ | ⟨f, t3⟩⟩⟩ <;> simp [subCommentEnd, h]

theorem sub_cons2_ne (c d : UInt8) (t : Bytes) (h : d ≠ 45) :
    subCommentEnd (c :: d :: t) = c :: subCommentEnd (d :: t) := by
  rcases t with _ | ⟨e, _ | ⟨f, t3⟩⟩ <;> simp [subCommentEnd, h]

theorem safe_snoc_space (v : Bytes) : ∀ cs, safe cs (v ++ [32]) = safe cs v := by
  induction v with
  | nil => intro cs; cases cs <;> simp [safe]
  | cons c v ih => intro cs; simp [safe_cons, ih]

theorem safe_trailingDash (cs : CS) (v : Bytes) : safe cs (trailingDash v) = safe cs v := by
  unfold trailingDash; split
  · exact safe_snoc_space v cs
  · rfl

theorem leadingGt_of_safe (x : Bytes) (h : safe .start x = true) : leadingGt x = x := by
  rcases x with _ | ⟨c, _ | ⟨d, t⟩⟩
  · rfl
  · simp [safe, emits] at h; simp [leadingGt, h]
  · simp only [safe_cons, emits, Bool.true_and, Bool.and_eq_true, Bool.not_eq_true', beq_eq_false_iff_ne] at h
    have hc : c ≠ 62 := h.1
    by_cases h45 : c = 45
    · subst h45
      have hd : d ≠ 62 := by
        have := h.2.1
        simpa [nextCS, emits] using this
      simp [leadingGt, hd]
    · simp [leadingGt, hc, h45]

/-- **the repaired `escapedComment` never lets the comment end early** -/
theorem safe_escapedComment (s : Bytes) : safe .start (escapedComment s) = true := by
  unfold escapedComment
  rw [safe_trailingDash]
  by_cases hp : pre .start s = true
  · have := safe_sub s .start hp
    rw [leadingGt_of_safe _ this]; exact this
  · rcases s with _ | ⟨c, t⟩
    · simp [pre] at hp
    · by_cases hc : c = 62
      · subst hc
        rw [sub_cons_ne _ _ (by decide)]
        have : leadingGt (62 :: subCommentEnd t) = gt ++ subCommentEnd t := by simp [leadingGt]
        rw [this]
        have : safe .start (gt ++ subCommentEnd t) = safe .body (subCommentEnd t) := by
          simp [safe, gt, nextCS, emits]
        rw [this]; exact safe_sub t .body rfl
      · rcases t with _ | ⟨d, t2⟩
        · simp [pre, hc] at hp
        · have hcd : c = 45 ∧ d = 62 := by
            simp [pre, hc] at hp; exact hp
          obtain ⟨rfl, rfl⟩ := hcd
          rw [sub_cons2_ne _ _ _ (by decide), sub_cons_ne _ _ (by decide)]
          have : leadingGt (45 :: 62 :: subCommentEnd t2) = 45 :: gt ++ subCommentEnd t2 := by
            simp [leadingGt]
          rw [this]
          have : safe .start (45 :: gt ++ subCommentEnd t2) = safe .body (subCommentEnd t2) := by
            simp [safe, gt, nextCS, emits]
          rw [this]; exact safe_sub t2 .body rfl

/-- **HTML comment round trip**: after `<!--`, the escaped comment text followed by `-->` yields
    exactly one comment token carrying the escaped text, for *every* `s`. -/
theorem html_comment (f : Bool) (s : Bytes) :
    Goes (.html f) (.comment .start []) (escapedComment s ++ commentClose) (.data [])
      [Tok.comment (escapedComment s)] :=
  html_comment_of_safe f _ (safe_escapedComment s)

/-! ### XML comments -/

/-- decidable side condition of the XML reading: XML characters only, no `--`, no trailing `-` -/
def xmlCommentOk : Bool → Bytes → Bool
  | pd, [] => !pd
  | pd, c :: t => xmlChar c && !(pd && c == 45) && xmlCommentOk (c == 45) t

theorem xml_comment_aux (e : Bytes) : ∀ (pd : Bool) (data : Bytes), xmlCommentOk pd e = true →
    Goes .xml (.comment (if pd then .endDash else .body) data) (e ++ commentClose) (.data [])
      [Tok.comment (data ++ (if pd then [45] else []) ++ e)] := by
  induction e with
  | nil =>
    intro pd data h
    cases pd <;> simp [xmlCommentOk] at h
    simp [Goes, commentClose, steps, step, xmlComment, xmlChar]
  | cons c e ih =>
    intro pd data h
    simp only [xmlCommentOk, Bool.and_eq_true, Bool.not_eq_true'] at h
    obtain ⟨⟨hx, hpd⟩, hrest⟩ := h
    by_cases hc : c = 45
    · subst hc
      cases pd
      · have h1 : step .xml (.comment .body data) 45 = (.comment .endDash data, []) := by
          simp [step, xmlComment, xmlChar]
        have := Goes.cons h1 (ih true data (by simpa using hrest))
        simpa using this
      · simp at hpd
    · have hb : (c == 45) = false := by simpa using hc
      rw [hb] at hrest
      cases pd
      · have h1 : step .xml (.comment .body data) c = (.comment .body (data ++ [c]), []) := by
          simp [step, xmlComment, hx, hc]
        have := Goes.cons h1 (ih false (data ++ [c]) hrest)
        simpa using this
      · have h1 : step .xml (.comment .endDash data) c = (.comment .body (data ++ [45, c]), []) := by
          simp [step, xmlComment, hx, hc]
        have := Goes.cons h1 (ih false (data ++ [45, c]) hrest)
        simpa using this

theorem xml_comment (e : Bytes) (h : xmlCommentOk false e = true) :
    Goes .xml (.comment .body []) (e ++ commentClose) (.data []) [Tok.comment e] := by
  simpa using xml_comment_aux e false [] h

end TwistedProps.C28
