import TwistedProps.C28.Tree
/-!
C28 lemmas, part 5: what `render` keeps — the markup tokens of the rendered events are the markup
events, the character data is the concatenation of the text events.
-/
namespace TwistedProps.C28
open Twisted.Py Twisted.Web.Flatten Twisted.Web.Tok

/-- the tokens that are markup (everything but character data) -/
def markup (ts : List Tok) : List Tok := ts.filter fun t => match t with | .text _ => false | _ => true

/-- the character data of a token list, concatenated -/
def chars (ts : List Tok) : Bytes := ts.flatMap fun t => match t with | .text s => s | _ => []

/-- the markup tokens among the events (`expect` only ever creates `start`/`close`/`comment` ones) -/
def evMarkup (evs : List Ev) : List Tok :=
  markup (evs.filterMap fun e => match e with | .tok t => some t | .txt _ => none)
/-- the strings that are character data, concatenated in document order -/
def evChars (evs : List Ev) : Bytes := evs.flatMap fun e => match e with | .txt s => s | .tok t => chars [t]

theorem markup_append (a b : List Tok) : markup (a ++ b) = markup a ++ markup b := by
  simp [markup]
theorem chars_append (a b : List Tok) : chars (a ++ b) = chars a ++ chars b := by
  simp [chars]
theorem markup_flushText (cur : Bytes) : markup (flushText cur) = [] := by
  unfold flushText; split <;> simp [markup]
theorem chars_flushText (cur : Bytes) : chars (flushText cur) = cur := by
  unfold flushText; split <;> simp_all [chars]

theorem markup_cons (t : Tok) (ts : List Tok) : markup (t :: ts) = markup [t] ++ markup ts := by
  rw [show t :: ts = [t] ++ ts by rfl, markup_append]
theorem chars_cons (t : Tok) (ts : List Tok) : chars (t :: ts) = chars [t] ++ chars ts := by
  rw [show t :: ts = [t] ++ ts by rfl, chars_append]

/-- **No content becomes markup**: the markup tokens of the parsed-back document are exactly the
    markup events of the tree (one `start`/`close` per `Tag`, one `comment` per `Comment`) … -/
theorem markup_render (evs : List Ev) : markup (render evs) = evMarkup evs := by
  have key : ∀ (evs : List Ev) (cur : Bytes),
      markup ((feed evs cur).1 ++ flushText (feed evs cur).2) = evMarkup evs := by
    intro evs
    induction evs with
    | nil =>
      intro cur
      simp only [feed, List.nil_append, markup_flushText]
      rfl
    | cons e es ih =>
      intro cur
      cases e with
      | txt s =>
        have := ih (cur ++ s)
        simpa only [feed, evMarkup, List.filterMap_cons] using this
      | tok t =>
        have h2 := ih []
        simp only [feed]
        rw [List.append_assoc, markup_append, markup_flushText, List.nil_append, List.cons_append, markup_cons, h2]
        simp only [evMarkup, List.filterMap_cons]
        exact (markup_cons _ _).symm
  exact key evs []

/-- … and the character data of the parsed-back document is exactly the strings of the tree, in order. -/
theorem chars_render (evs : List Ev) : chars (render evs) = evChars evs := by
  have key : ∀ (evs : List Ev) (cur : Bytes),
      chars ((feed evs cur).1 ++ flushText (feed evs cur).2) = cur ++ evChars evs := by
    intro evs
    induction evs with
    | nil =>
      intro cur
      simp only [feed, List.nil_append, chars_flushText]
      simp [evChars]
    | cons e es ih =>
      intro cur
      cases e with
      | txt s =>
        have := ih (cur ++ s)
        simp only [feed]
        rw [this]
        simp [evChars]
      | tok t =>
        have h2 := ih []
        simp only [feed]
        rw [List.append_assoc, chars_append, chars_flushText, List.cons_append, chars_cons, h2]
        simp [evChars]
  have := key evs []
  simpa only [render, List.nil_append] using this

end TwistedProps.C28
