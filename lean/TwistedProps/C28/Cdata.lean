import TwistedProps.C28.Basic
/-!
C28 lemmas, part 3: CDATA sections.
-/
namespace TwistedProps.C28
open Twisted.Py Twisted.Web.Flatten Twisted.Web.Tok

/-- does the dialect recognise `<![CDATA[` -/
def cdataOk : Dialect → Bool
  | .xml => true
  | .html f => f

def preC (k : Nat) (s : Bytes) : Bool :=
  (k == 0 || s.take 2 != [93, 62]) && (k != 2 || s.take 1 != [62])

theorem cdata_close (d : Dialect) (cur : Bytes) (k : Nat) (hk : k ≤ 2) :
    Goes d (.cdata cur k) cdataClose (.data (cur ++ List.replicate k 93)) [] := by
  have : k = 0 ∨ k = 1 ∨ k = 2 := by omega
  rcases this with rfl | rfl | rfl <;> simp [Goes, cdataClose, steps, step, List.replicate]

theorem cdata_reopen (d : Dialect) (hd : cdataOk d = true) (cur : Bytes) (k : Nat) (hk : k ≤ 2) :
    Goes d (.cdata cur k) [93, 93, 93, 93, 62, 60, 33, 91, 67, 68, 65, 84, 65, 91, 62]
      (.cdata (cur ++ List.replicate k 93 ++ [93, 93, 62]) 0) [] := by
  have : k = 0 ∨ k = 1 ∨ k = 2 := by omega
  cases d with
  | xml => rcases this with rfl | rfl | rfl <;>
      simp [Goes, steps, step, List.replicate, cdataKw, dashes, charOk, xmlChar]
  | html f =>
    simp [cdataOk] at hd; subst hd
    rcases this with rfl | rfl | rfl <;>
      simp [Goes, steps, step, List.replicate, cdataKw, dashes, charOk]

theorem cdata_copy (d : Dialect) (cur : Bytes) (k : Nat) (c : UInt8) (hk : k ≤ 2)
    (hne : ¬ (c = 62 ∧ k = 2)) (hc : charOk d c = true) :
    ∃ cur' k', step d (.cdata cur k) c = (.cdata cur' k', []) ∧ k' ≤ 2 ∧
      cur' ++ List.replicate k' 93 = cur ++ List.replicate k 93 ++ [c] ∧
      k' = if c = 93 then min (k + 1) 2 else 0 := by
  have : k = 0 ∨ k = 1 ∨ k = 2 := by omega
  by_cases h93 : c = 93
  · subst h93
    rcases this with rfl | rfl | rfl <;> simp [step, List.replicate] <;>
      exact ⟨_, _, ⟨rfl, rfl⟩, by omega, by simp [List.replicate], rfl⟩
  · rcases this with rfl | rfl | rfl <;> simp_all [step, List.replicate] <;>
      exact ⟨_, _, ⟨rfl, rfl⟩, by omega, by simp [List.replicate], rfl⟩

theorem cdata_aux (d : Dialect) (hd : cdataOk d = true) (s : Bytes) :
    ∀ (k : Nat) (cur : Bytes), k ≤ 2 → preC k s = true → (∀ c ∈ s, charOk d c = true) →
      Goes d (.cdata cur k) (escapedCDATA s ++ cdataClose) (.data (cur ++ List.replicate k 93 ++ s)) [] := by
  induction s using escapedCDATA.induct with
  | case1 =>
    intro k cur hk _ _
    simpa [escapedCDATA] using cdata_close d cur k hk
  | case2 c dd e t2 h ih =>
    intro k cur hk _ hc
    obtain ⟨rfl, rfl, rfl⟩ := h
    have hs : escapedCDATA (93 :: 93 :: 62 :: t2) =
        [93, 93, 93, 93, 62, 60, 33, 91, 67, 68, 65, 84, 65, 91, 62] ++ escapedCDATA t2 := by
      simp [escapedCDATA]
    rw [hs, List.append_assoc]
    have h2 := ih 0 (cur ++ List.replicate k 93 ++ [93, 93, 62]) (by omega) (by simp [preC])
      (fun x hx => hc x (by simp [hx]))
    have := Goes.silent (cdata_reopen d hd cur k hk) h2
    simpa using this
  | case3 c dd e t2 h ih =>
    intro k cur hk hp hc
    have hs : escapedCDATA (c :: dd :: e :: t2) = c :: escapedCDATA (dd :: e :: t2) := by
      simp only [escapedCDATA, h, if_false]
    rw [hs]
    have hne : ¬ (c = 62 ∧ k = 2) := by
      rintro ⟨rfl, rfl⟩; simp [preC] at hp
    obtain ⟨cur', k', hst, hk', hcur, hkk⟩ := cdata_copy d cur k c hk hne (hc c (by simp))
    have hp' : preC k' (dd :: e :: t2) = true := by
      subst hkk
      have : k = 0 ∨ k = 1 ∨ k = 2 := by omega
      rcases this with rfl | rfl | rfl <;> simp_all [preC] <;> grind
    have h2 := ih k' cur' hk' hp' (fun x hx => hc x (by simp [hx]))
    have := Goes.cons hst h2
    rw [hcur] at this
    simpa using this
  | case4 c t hne2 ih =>
    intro k cur hk hp hc
    have hs : escapedCDATA (c :: t) = c :: escapedCDATA t := by
      rcases t with _ | ⟨dd, _ | ⟨e, t2⟩⟩
      · simp [escapedCDATA]
      · simp [escapedCDATA]
      · exact (hne2 dd e t2 rfl).elim
    rw [hs]
    have hne : ¬ (c = 62 ∧ k = 2) := by
      rintro ⟨rfl, rfl⟩; simp [preC] at hp
    obtain ⟨cur', k', hst, hk', hcur, hkk⟩ := cdata_copy d cur k c hk hne (hc c (by simp))
    have hp' : preC k' t = true := by
      subst hkk
      have : k = 0 ∨ k = 1 ∨ k = 2 := by omega
      rcases t with _ | ⟨dd, _ | ⟨e, t2⟩⟩
      · rcases this with rfl | rfl | rfl <;> simp [preC] <;> split <;> simp
      · rcases this with rfl | rfl | rfl <;> simp_all [preC] <;> grind
      · exact (hne2 dd e t2 rfl).elim
    have h2 := ih k' cur' hk' hp' (fun x hx => hc x (by simp [hx]))
    have := Goes.cons hst h2
    rw [hcur] at this
    simpa using this

/-- **CDATA round trip**: after `<![CDATA[`, `escapedCDATA s` followed by `]]>` adds exactly `s` to the
    pending character data (the `]]]]><![CDATA[>` splice closes and reopens the section), for every `s`. -/
theorem cdata_consumed (d : Dialect) (hd : cdataOk d = true) (s cur : Bytes) (hc : ∀ c ∈ s, charOk d c = true) :
    Goes d (.cdata cur 0) (escapedCDATA s ++ cdataClose) (.data (cur ++ s)) [] := by
  simpa using cdata_aux d hd s 0 cur (by omega) (by simp [preC]) hc

end TwistedProps.C28
