import TwistedModel.Web.Flatten
import TwistedModel.Web.Tok
/-!
C28 lemmas, part 1: algebra of the tokenizer (`steps`/`run` over concatenations), the escaping
functions as one-pass maps, and the consumption lemmas for escaped text, escaped attribute
values and names.
-/
namespace TwistedProps.C28
open Twisted.Py Twisted.Web.Flatten Twisted.Web.Tok

theorem steps_append (d : Dialect) (st : St) (a b : Bytes) :
    steps d st (a ++ b) =
      ((steps d (steps d st a).1 b).1, (steps d st a).2 ++ (steps d (steps d st a).1 b).2) := by
  induction a generalizing st with
  | nil => simp [steps]
  | cons c cs ih => simp [steps, ih, List.append_assoc]

theorem run_append (d : Dialect) (st : St) (a b : Bytes) :
    run d st (a ++ b) = (steps d st a).2 ++ run d (steps d st a).1 b := by
  induction a generalizing st with
  | nil => simp [steps]
  | cons c cs ih => simp [steps, run, ih, List.append_assoc]

theorem run_eq_steps (d : Dialect) (st : St) (a : Bytes) :
    run d st a = (steps d st a).2 ++ finish (steps d st a).1 := by
  have := run_append d st a []
  simpa [run] using this

/-- consuming `bs` in state `st` leaves the machine in `st'` having emitted `toks` -/
def Goes (d : Dialect) (st : St) (bs : Bytes) (st' : St) (toks : List Tok) : Prop :=
  steps d st bs = (st', toks)

theorem Goes.nil (d : Dialect) (st : St) : Goes d st [] st [] := by simp [Goes, steps]

theorem Goes.trans {d : Dialect} {s s1 s2 : St} {a b : Bytes} {t1 t2 : List Tok}
    (h1 : Goes d s a s1 t1) (h2 : Goes d s1 b s2 t2) : Goes d s (a ++ b) s2 (t1 ++ t2) := by
  unfold Goes at *
  rw [steps_append, h1]; simp [h2]

theorem Goes.cons {d : Dialect} {s s1 s2 : St} {c : UInt8} {b : Bytes} {t1 t2 : List Tok}
    (h1 : step d s c = (s1, t1)) (h2 : Goes d s1 b s2 t2) : Goes d s (c :: b) s2 (t1 ++ t2) := by
  unfold Goes at *
  simp [steps, h1, h2]

theorem Goes.one {d : Dialect} {s s1 : St} {c : UInt8} {t1 : List Tok}
    (h1 : step d s c = (s1, t1)) : Goes d s [c] s1 t1 := by
  have := Goes.cons h1 (Goes.nil d s1)
  simpa using this

theorem Goes.silent {d : Dialect} {s s1 s2 : St} {a b : Bytes} {t2 : List Tok}
    (h1 : Goes d s a s1 []) (h2 : Goes d s1 b s2 t2) : Goes d s (a ++ b) s2 t2 := by
  simpa using Goes.trans h1 h2

theorem Goes.run {d : Dialect} {s s1 : St} {a : Bytes} {t1 : List Tok}
    (h : Goes d s a s1 t1) (b : Bytes) : run d s (a ++ b) = t1 ++ run d s1 b := by
  unfold Goes at h
  rw [run_append, h]

/-! ### the escapers as one-pass maps -/

def e1 (c : UInt8) : Bytes :=
  if c = 38 then amp else if c = 60 then lt else if c = 62 then gt else [c]

def a1 (c : UInt8) : Bytes :=
  if c = 38 then amp else if c = 60 then lt else if c = 62 then gt else if c = 34 then quot else [c]

theorem escapeForContent_eq (s : Bytes) : escapeForContent s = s.flatMap e1 := by
  unfold escapeForContent rep1
  rw [List.flatMap_assoc, List.flatMap_assoc]
  congr 1
  funext x
  unfold e1
  by_cases h1 : x = 38
  · subst h1; decide
  · by_cases h2 : x = 60
    · subst h2; decide
    · by_cases h3 : x = 62
      · subst h3; decide
      · simp [h1, h2, h3]

theorem attrEsc_eq (s : Bytes) : attrEsc s = s.flatMap a1 := by
  unfold attrEsc rep1
  rw [escapeForContent_eq, List.flatMap_assoc]
  congr 1
  funext x
  unfold a1 e1
  by_cases h1 : x = 38
  · subst h1; decide
  · by_cases h2 : x = 60
    · subst h2; decide
    · by_cases h3 : x = 62
      · subst h3; decide
      · by_cases h4 : x = 34
        · subst h4; decide
        · simp [h1, h2, h3, h4]

theorem escapeForContent_nil : escapeForContent [] = [] := by simp [escapeForContent_eq]
theorem escapeForContent_cons (c : UInt8) (s : Bytes) :
    escapeForContent (c :: s) = e1 c ++ escapeForContent s := by simp [escapeForContent_eq]
theorem escapeForContent_append (a b : Bytes) :
    escapeForContent (a ++ b) = escapeForContent a ++ escapeForContent b := by
  simp [escapeForContent_eq]
theorem attrEsc_nil : attrEsc [] = [] := by simp [attrEsc_eq]
theorem attrEsc_cons (c : UInt8) (s : Bytes) : attrEsc (c :: s) = a1 c ++ attrEsc s := by
  simp [attrEsc_eq]
theorem attrEsc_append (a b : Bytes) : attrEsc (a ++ b) = attrEsc a ++ attrEsc b := by
  simp [attrEsc_eq]

/-! ### escaped text is consumed into the pending character data, whatever it is -/

theorem text_char (d : Dialect) (cur : Bytes) (c : UInt8) (hc : charOk d c = true) :
    Goes d (.data cur) (e1 c) (.data (cur ++ [c])) [] := by
  unfold Goes e1
  by_cases h1 : c = 38
  · subst h1; simp [amp, steps, step, entStep, decodeEnt, isAlpha]
  · by_cases h2 : c = 60
    · subst h2; simp [lt, steps, step, entStep, decodeEnt, isAlpha]
    · by_cases h3 : c = 62
      · subst h3; simp [gt, steps, step, entStep, decodeEnt, isAlpha]
      · simp [h1, h2, h3, steps, step, hc]

/-- **escaped text stays text**: `escapeForContent s` in the data state only extends the
    pending character data by exactly `s`; no token is produced. -/
theorem text_consumed (d : Dialect) (s cur : Bytes) (hs : ∀ c ∈ s, charOk d c = true) :
    Goes d (.data cur) (escapeForContent s) (.data (cur ++ s)) [] := by
  induction s generalizing cur with
  | nil => simpa [escapeForContent_nil] using Goes.nil d (.data cur)
  | cons c s ih =>
    rw [escapeForContent_cons]
    have h1 := text_char d cur c (hs c (by simp))
    have h2 := ih (cur ++ [c]) (fun x hx => hs x (by simp [hx]))
    have := Goes.silent h1 h2
    simpa using this

theorem attr_char (d : Dialect) (t : TagAcc) (an v : Bytes) (c : UInt8) (hc : charOk d c = true) :
    Goes d (.attrVal t an v) (a1 c) (.attrVal t an (v ++ [c])) [] := by
  unfold Goes a1
  by_cases h1 : c = 38
  · subst h1; simp [amp, steps, step, entStep, decodeEnt, isAlpha]
  · by_cases h2 : c = 60
    · subst h2; simp [lt, steps, step, entStep, decodeEnt, isAlpha]
    · by_cases h3 : c = 62
      · subst h3; simp [gt, steps, step, entStep, decodeEnt, isAlpha]
      · by_cases h4 : c = 34
        · subst h4; simp [quot, steps, step, entStep, decodeEnt, isAlpha]
        · simp [h1, h2, h3, h4, steps, step, hc]

/-- **an escaped attribute value stays inside the quotes**: `attrEsc x` inside a double-quoted
    attribute value only extends the value by exactly `x`. -/
theorem attr_consumed (d : Dialect) (t : TagAcc) (an x v : Bytes) (hx : ∀ c ∈ x, charOk d c = true) :
    Goes d (.attrVal t an v) (attrEsc x) (.attrVal t an (v ++ x)) [] := by
  induction x generalizing v with
  | nil => simpa [attrEsc_nil] using Goes.nil d (.attrVal t an v)
  | cons c x ih =>
    rw [attrEsc_cons]
    have h1 := attr_char d t an v c (hx c (by simp))
    have h2 := ih (v ++ [c]) (fun y hy => hx y (by simp [hy]))
    have := Goes.silent h1 h2
    simpa using this

/-! ### names -/

/-- a tag name the dialect's own grammar accepts -/
def nameOk (d : Dialect) : Bytes → Bool
  | [] => false
  | c :: cs => nameStart d c && cs.all (nameChar d)

def attrNameOk (d : Dialect) : Bytes → Bool
  | [] => false
  | c :: cs => attrStart d c && cs.all (attrChar d)

theorem nameChar_ne (d : Dialect) (c : UInt8) (h : nameChar d c = true) : c ≠ 32 ∧ c ≠ 62 := by
  constructor <;> (rintro rfl; cases d <;> simp [nameChar, isAlpha, isDigit, isSpace] at h)

theorem attrChar_ne (d : Dialect) (c : UInt8) (h : attrChar d c = true) : c ≠ 61 := by
  rintro rfl; cases d <;> simp [attrChar, isAlpha, isDigit, isSpace] at h

theorem attrStart_ne (d : Dialect) (c : UInt8) (h : attrStart d c = true) : c ≠ 47 := by
  rintro rfl; cases d <;> simp [attrStart, isAlpha, isSpace] at h

theorem nameStart_ne (d : Dialect) (c : UInt8) (h : nameStart d c = true) : c ≠ 33 ∧ c ≠ 47 := by
  constructor <;> (rintro rfl; cases d <;> simp [nameStart, isAlpha] at h)

theorem tagName_consumed (d : Dialect) (n acc : Bytes) (h : n.all (nameChar d) = true) :
    Goes d (.tagName acc) n (.tagName (acc ++ n.map (fold d))) [] := by
  induction n generalizing acc with
  | nil => simpa using Goes.nil d (.tagName acc)
  | cons c n ih =>
    simp only [List.all_cons, Bool.and_eq_true] at h
    have hne := nameChar_ne d c h.1
    have h1 : step d (.tagName acc) c = (.tagName (acc ++ [fold d c]), []) := by
      simp [step, hne.1, hne.2, h.1]
    have := Goes.cons h1 (ih (acc ++ [fold d c]) h.2)
    simpa using this

theorem endName_consumed (d : Dialect) (n acc : Bytes) (h : n.all (nameChar d) = true) :
    Goes d (.endName acc) n (.endName (acc ++ n.map (fold d))) [] := by
  induction n generalizing acc with
  | nil => simpa using Goes.nil d (.endName acc)
  | cons c n ih =>
    simp only [List.all_cons, Bool.and_eq_true] at h
    have hne := nameChar_ne d c h.1
    have h1 : step d (.endName acc) c = (.endName (acc ++ [fold d c]), []) := by
      simp [step, hne.2, h.1]
    have := Goes.cons h1 (ih (acc ++ [fold d c]) h.2)
    simpa using this

theorem attrName_consumed (d : Dialect) (t : TagAcc) (n acc : Bytes) (h : n.all (attrChar d) = true) :
    Goes d (.attrName t acc) n (.attrName t (acc ++ n.map (fold d))) [] := by
  induction n generalizing acc with
  | nil => simpa using Goes.nil d (.attrName t acc)
  | cons c n ih =>
    simp only [List.all_cons, Bool.and_eq_true] at h
    have hne := attrChar_ne d c h.1
    have h1 : step d (.attrName t acc) c = (.attrName t (acc ++ [fold d c]), []) := by
      simp [step, hne, h.1]
    have := Goes.cons h1 (ih (acc ++ [fold d c]) h.2)
    simpa using this

end TwistedProps.C28
