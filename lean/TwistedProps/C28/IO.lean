import TwistedModel.Web.FlattenIO
import TwistedProps.C28.Basic
/-!
C28 lemmas, part 6: the chunk-level model (`Twisted.Web.FlattenIO`) writes the same document as
`flatten`, whatever `BUFFER_SIZE` is and wherever the buffer is flushed:

* `deliver_flatten` — joining what `bufferedWrite`/`flushBuffer` deliver upstream gives the buffer
  followed by the written chunks, for every buffer size and every placement of `wait`s;
* `ev_ok`/`evList_ok`/`evAttrs_ok` — the chunks `_flattenElement` writes through `k` attribute wrappers,
  joined, are `escN k` of the bytes `flatten` returns (this is where escaping each chunk on its own
  must commute with concatenation: `attrEsc_append`);
* slice algebra: `escapeForContent` and `attrEsc` may be applied slice by slice, `escapedCDATA` and
  `escapedComment` may not (counterexamples in `C28.lean`).
-/
namespace TwistedProps.C28
open Twisted.Py Twisted.Web.Flatten Twisted.Web.FlattenIO

/-- the bytes of the `write` events, joined -/
def written : List Twisted.Web.FlattenIO.Ev → Bytes
  | [] => []
  | .write bs :: evs => bs ++ written evs
  | .wait :: evs => written evs

theorem written_append (a b : List Twisted.Web.FlattenIO.Ev) : written (a ++ b) = written a ++ written b := by
  induction a with
  | nil => rfl
  | cons e a ih => cases e <;> simp [written, ih]

theorem escN_nil (k : Nat) : escN k [] = [] := by
  induction k with
  | zero => rfl
  | succ k ih => simp [escN, attrEsc_nil, ih]

theorem escN_append (k : Nat) (a b : Bytes) : escN k (a ++ b) = escN k a ++ escN k b := by
  induction k generalizing a b with
  | zero => rfl
  | succ k ih => simp [escN, attrEsc_append, ih]

theorem flush_flatten (buf : Bytes) : (flush buf).flatten = buf := by
  unfold flush
  split
  · simp
  · have : buf = [] := by
      cases buf with
      | nil => rfl
      | cons c t => simp at *
    simp [this]

/-- buffering is invisible in the joined output: any `BUFFER_SIZE`, any flush points -/
theorem deliver_flatten (B : Nat) (evs : List Twisted.Web.FlattenIO.Ev) (buf : Bytes) :
    (deliver B evs buf).flatten = buf ++ written evs := by
  induction evs generalizing buf with
  | nil => simp [deliver, written, flush_flatten]
  | cons e evs ih =>
    cases e with
    | write bs =>
      simp only [deliver, written]
      split
      · rw [List.flatten_append, flush_flatten, ih]; simp
      · rw [ih]; simp
    | wait =>
      simp only [deliver, written]
      rw [List.flatten_append, flush_flatten, ih]; simp

theorem flush_nonempty (buf : Bytes) : ∀ c ∈ flush buf, c ≠ [] := by
  intro c hc
  unfold flush at hc
  split at hc
  · rename_i h
    simp only [List.mem_singleton] at hc
    subst hc
    intro h0
    simp [h0] at h
  · simp at hc

/-- every chunk delivered upstream is non-empty (`flushBuffer` delivers only `if bufSize > 0`) -/
theorem deliver_nonempty (B : Nat) (evs : List Twisted.Web.FlattenIO.Ev) (buf : Bytes) :
    ∀ c ∈ deliver B evs buf, c ≠ [] := by
  induction evs generalizing buf with
  | nil => intro c hc; exact flush_nonempty buf c (by simpa [deliver] using hc)
  | cons e evs ih =>
    intro c hc
    cases e with
    | write bs =>
      simp only [deliver] at hc
      split at hc
      · rw [List.mem_append] at hc
        rcases hc with hc | hc
        · exact flush_nonempty _ c hc
        · exact ih [] c hc
      · exact ih _ c hc
    | wait =>
      simp only [deliver] at hc
      rw [List.mem_append] at hc
      rcases hc with hc | hc
      · exact flush_nonempty _ c hc
      · exact ih [] c hc

/-- relation between a result of `flattenEv…` and the result of `flatten…` on the same arguments -/
def Agree (k : Nat) : Except Err (List Twisted.Web.FlattenIO.Ev × Stack) → Except Err (Bytes × Stack) → Prop
  | .ok p, .ok q => written p.1 = escN k q.1 ∧ p.2 = q.2
  | .error e1, .error e2 => e1 = e2
  | .ok _, .error _ => False
  | .error _, .ok _ => False

theorem agree_text (k : Nat) (b : Bytes) (st : Stack) :
    Agree k (.ok ([w k b], st)) (.ok (b, st)) := by
  simp [Agree, written, w]

theorem agree_cases {k : Nat} {X : Except Err (List Twisted.Web.FlattenIO.Ev × Stack)} {Y : Except Err (Bytes × Stack)}
    (h : Agree k X Y) :
    (∃ e, X = .error e ∧ Y = .error e) ∨
    (∃ evs o st, X = .ok (evs, st) ∧ Y = .ok (o, st) ∧ written evs = escN k o) := by
  cases X with
  | error e1 =>
    cases Y with
    | error e2 => simp only [Agree] at h; subst h; exact .inl ⟨_, rfl, rfl⟩
    | ok q => simp [Agree] at h
  | ok p =>
    cases Y with
    | error e2 => simp [Agree] at h
    | ok q =>
      obtain ⟨evs, st1⟩ := p
      obtain ⟨o, st2⟩ := q
      simp only [Agree] at h
      obtain ⟨hw, rfl⟩ := h
      exact .inr ⟨evs, o, st1, rfl, rfl, hw⟩

theorem agree_ok {k : Nat} {evs : List Twisted.Web.FlattenIO.Ev} {o : Bytes} {st : Stack} (h : written evs = escN k o) :
    Agree k (.ok (evs, st)) (.ok (o, st)) := by
  simp [Agree, h]

theorem agree_err (k : Nat) (e : Err) : Agree k (.error e) (.error e) := by simp [Agree]

mutual
theorem ev_ok : (n : Node) → (m : Mode) → (k : Nat) → (rf : Bool) → (st : Stack) →
    Agree k (flattenEv n m k rf st) (flatten n m rf st)
  | .text s, m, k, rf, st => by simp only [flattenEv, flatten]; exact agree_text k _ st
  | .slot n, m, k, rf, st => by
    simp only [flattenEv, flatten]
    cases hg : getSlot n st <;> simp only []
    · exact agree_err k _
    · exact agree_text k _ st
  | .slotD n d, m, k, rf, st => by
    simp only [flattenEv, flatten]
    cases hg : getSlot n st <;> simp only []
    · exact ev_ok d m k rf st
    · exact agree_text k _ st
  | .cdata s, m, k, rf, st => by
    simp only [flattenEv, flatten]
    exact agree_ok (by simp [written, w, escN_append])
  | .comment s, m, k, rf, st => by
    simp only [flattenEv, flatten]
    exact agree_ok (by simp [written, w, escN_append])
  | .rtag sd r, m, k, rf, st => by
    simp only [flattenEv, flatten]
    cases rf with
    | false => simp only [Bool.false_eq_true, if_false]; exact agree_err k _
    | true =>
      simp only [if_true]
      rcases agree_cases (ev_ok r m k true (sd :: st)) with ⟨e, h1, h2⟩ | ⟨evs, o, st1, h1, h2, hw⟩ <;>
        simp only [h1, h2]
      · exact agree_err k _
      · exact agree_ok hw
  | .tag name ans avs ch sd, m, k, rf, st => by
    simp only [flattenEv, flatten]
    by_cases hname : name = []
    · simp only [hname, if_true]
      exact evList_ok ch m k rf (sd :: st)
    · simp only [hname, if_false]
      rcases agree_cases (evAttrs_ok ans avs k rf (sd :: st)) with ⟨e, h1, h2⟩ | ⟨ao, ao', st2, h1, h2, hao⟩ <;>
        simp only [h1, h2]
      · exact agree_err k _
      · by_cases hch : ch = []
        · simp only [hch, ne_eq, not_true_eq_false, if_false]
          by_cases h128 : (name.any (· ≥ 128)) = true
          · simp only [h128, if_true]; exact agree_err k _
          · simp only [h128]
            by_cases hv : voidElements.contains name = true
            · simp only [hv, if_true]
              exact agree_ok (by simp only [written_append, written, w, hao, List.append_nil, ← escN_append]; try simp)
            · simp only [hv]
              exact agree_ok (by simp only [written_append, written, w, hao, List.append_nil, ← escN_append]; try simp)
        · simp only [ne_eq, hch, not_false_eq_true, if_true]
          rcases agree_cases (evList_ok ch .content k rf st2) with ⟨e, h3, h4⟩ | ⟨co, co', st3, h3, h4, hco⟩ <;>
            simp only [h3, h4]
          · exact agree_err k _
          · exact agree_ok (by simp only [written_append, written, w, hao, hco, List.append_nil, ← escN_append]; try simp)
  | .list ns, m, k, rf, st => by
    simp only [flattenEv, flatten]
    exact evList_ok ns m k rf st
  | .deferred n, m, k, rf, st => by
    simp only [flattenEv, flatten]
    rcases agree_cases (ev_ok n m k rf st) with ⟨e, h1, h2⟩ | ⟨evs, o, st1, h1, h2, hw⟩ <;> simp only [h1, h2]
    · exact agree_err k _
    · exact agree_ok (by simpa [written] using hw)
  | .renderable n, m, k, rf, st => by
    simp only [flattenEv, flatten]
    exact ev_ok n m k true st

theorem evList_ok : (ns : List Node) → (m : Mode) → (k : Nat) → (rf : Bool) → (st : Stack) →
    Agree k (flattenEvList ns m k rf st) (flattenList ns m rf st)
  | [], m, k, rf, st => by
    simp only [flattenEvList, flattenList]
    exact agree_ok (by simp [written, escN_nil])
  | n :: ns, m, k, rf, st => by
    simp only [flattenEvList, flattenList]
    rcases agree_cases (ev_ok n m k rf st) with ⟨e, h1, h2⟩ | ⟨evs, o, st1, h1, h2, hw⟩ <;> simp only [h1, h2]
    · exact agree_err k _
    · rcases agree_cases (evList_ok ns m k rf st1) with ⟨e, h3, h4⟩ | ⟨evs2, o2, st2, h3, h4, hw2⟩ <;>
        simp only [h3, h4]
      · exact agree_err k _
      · exact agree_ok (by simp [written_append, escN_append, hw, hw2])

theorem evAttrs_ok : (as : List Bytes) → (vs : List Node) → (k : Nat) → (rf : Bool) → (st : Stack) →
    Agree k (flattenEvAttrs as vs k rf st) (flattenAttrs as vs rf st)
  | [], vs, k, rf, st => by
    simp only [flattenEvAttrs, flattenAttrs]
    exact agree_ok (by simp [written, escN_nil])
  | a :: as, [], k, rf, st => by
    simp only [flattenEvAttrs, flattenAttrs]
    exact agree_ok (by simp [written, escN_nil])
  | a :: as, v :: vs, k, rf, st => by
    simp only [flattenEvAttrs, flattenAttrs]
    rcases agree_cases (ev_ok v .attr (k + 1) rf st) with ⟨e, h1, h2⟩ | ⟨evs, o, st1, h1, h2, hw⟩ <;> simp only [h1, h2]
    · exact agree_err k _
    · rcases agree_cases (evAttrs_ok as vs k rf st1) with ⟨e, h3, h4⟩ | ⟨evs2, o2, st2, h3, h4, hw2⟩ <;>
        simp only [h3, h4]
      · exact agree_err k _
      · exact agree_ok (by simp only [written_append, written, w, hw, hw2, List.append_nil, escN, ← escN_append]; try simp)
end

/-- the document assembled from the delivered chunks is the document of the chunk-free model,
    for every `BUFFER_SIZE` -/
theorem flattenStringIO_eq (B : Nat) (n : Node) : flattenStringIO B n = flattenString n := by
  unfold flattenStringIO flattenString
  rcases agree_cases (ev_ok n .content 0 false []) with ⟨e, h1, h2⟩ | ⟨evs, o, st1, h1, h2, hw⟩ <;> simp only [h1, h2]
  simp [deliver_flatten, hw, escN]

/-- escaping slice by slice: fine for the per-character escapers -/
theorem escapeForContent_slices (ps : List Bytes) :
    (ps.map escapeForContent).flatten = escapeForContent ps.flatten := by
  induction ps with
  | nil => simp [escapeForContent_nil]
  | cons p ps ih => simp [escapeForContent_append, ih]

theorem attrEsc_slices (ps : List Bytes) : (ps.map attrEsc).flatten = attrEsc ps.flatten := by
  induction ps with
  | nil => simp [attrEsc_nil]
  | cons p ps ih => simp [attrEsc_append, ih]

end TwistedProps.C28
