import TwistedModel.Mail.ImapSexp
/-!
C42 — the IMAP4 client's parser reads back what the IMAP4 server's serializer writes.

Full statement (the property as given):

    ∀ l : List Item, parseNestedParens (collapseNestedLists l) = .ok (outItems l)

for every nested list of byte strings (any bytes), `None` and integers, `outItems` being the
same structure with integers as their decimal text.

The code falsifies it for quoted strings that contain a backslash (`splitQuoted` never
unescapes one; `test_parenParser` pins that behaviour, so it is recorded as a known finding and
not repaired): `parse_collapse_counterexample`.  What is proved, for all inputs without size or
depth bound, is `parse_collapse_partial`: the round trip holds whenever no *quoted* string
contains a backslash — strings sent as literals (CR, LF, or longer than 1000 bytes) may contain
anything, quotes, braces, brackets, parentheses, NIL-like text, whitespace anywhere are all
covered.  Missing for the full statement: exactly the backslash case — and for a single quoted
string the code's behaviour is characterised completely (`parse_collapse_single_exact`: every
backslash comes back doubled, a trailing backslash raises `MismatchedQuoting`), so the
hypothesis is necessary there (`parse_collapse_single_iff`).
-/
namespace TwistedProps.C42
open Twisted.Mail.ImapSexp

/-! ### bytes: facts about classes of a single byte are decided over all 256 values -/

theorem forall_uint8 (P : UInt8 → Prop) (h : ∀ n : Fin 256, P (UInt8.ofFin n)) : ∀ c, P c :=
  fun c => by simpa using h c.toFin

/-! ### decimal text -/

theorem digit_small : ∀ n, n < 10 →
    isDigit (48 + n).toUInt8 = true ∧ (48 + n).toUInt8.toNat - 48 = n := by
  decide

theorem natDigitsF_digits (f n : Nat) : ∀ c ∈ natDigitsF f n, isDigit c = true := by
  induction f generalizing n with
  | zero => simp [natDigitsF]
  | succ f ih =>
    intro c hc
    unfold natDigitsF at hc
    split at hc
    · simp only [List.mem_singleton] at hc
      subst hc
      exact (digit_small n (by assumption)).1
    · simp only [List.mem_append, List.mem_singleton] at hc
      rcases hc with hc | hc
      · exact ih _ c hc
      · subst hc
        exact (digit_small (n % 10) (by omega)).1

theorem natDigitsF_ne_nil (f n : Nat) : natDigitsF (f + 1) n ≠ [] := by
  unfold natDigitsF
  split <;> simp

def digitsNat (ds : Bytes) (acc : Nat) : Nat := ds.foldl (fun a c => a * 10 + (c.toNat - 48)) acc

theorem natDigitsF_value (f n : Nat) (h : n < f) : digitsNat (natDigitsF f n) 0 = n := by
  induction f generalizing n with
  | zero => omega
  | succ f ih =>
    unfold natDigitsF
    split
    · have := (digit_small n (by assumption)).2
      simpa [digitsNat] using this
    · have := ih (n / 10) (by omega)
      simp only [digitsNat, List.foldl_append, List.foldl_cons, List.foldl_nil] at this ⊢
      rw [this, (digit_small (n % 10) (by omega)).2]
      omega

theorem digitsVal_digits (ds : Bytes) (acc : Nat) (pd : Bool) (hd : ∀ c ∈ ds, isDigit c = true)
    (h : ds ≠ [] ∨ pd = true) : digitsVal ds acc pd = some (digitsNat ds acc) := by
  induction ds generalizing acc pd with
  | nil => simp_all [digitsVal, digitsNat]
  | cons c r ih =>
    have hc := hd c (by simp)
    simp only [digitsVal, hc, if_true]
    rw [ih _ _ (fun x hx => hd x (by simp [hx])) (Or.inr rfl)]
    simp [digitsNat]

set_option maxRecDepth 100000 in
theorem isDigit_facts : ∀ c : UInt8, isDigit c = true →
    isWs c = false ∧ c ≠ QU ∧ c ≠ ESC ∧ c ≠ 125 ∧ c ≠ 123 ∧ c ≠ 40 ∧ c ≠ 41 ∧ c ≠ 91 ∧ c ≠ 93 ∧ c ≠ 45 ∧ c ≠ 43 ∧ c ≠ 78 := by
  apply forall_uint8; decide +kernel

theorem natText_digits (n : Nat) : ∀ c ∈ natText n, isDigit c = true := natDigitsF_digits _ _
theorem natText_ne_nil (n : Nat) : natText n ≠ [] := natDigitsF_ne_nil _ _
theorem natText_value (n : Nat) : digitsNat (natText n) 0 = n := natDigitsF_value _ _ (by omega)

/-! ### `strip` -/

theorem dropWhile_noWs (s : Bytes) (h : ∀ c ∈ s, isWs c = false) : s.dropWhile isWs = s := by
  cases s with
  | nil => rfl
  | cons c r => simp [List.dropWhile, h c (by simp)]

theorem strip_noWs (s : Bytes) (h : ∀ c ∈ s, isWs c = false) : strip s = s := by
  unfold strip lstrip rstrip
  rw [dropWhile_noWs s h, dropWhile_noWs s.reverse (by simpa using h)]
  simp

/-- `int(b"%d" % n) == n` -/
theorem pyInt_natText (n : Nat) : pyInt (natText n) = some (Int.ofNat n) := by
  have hd := natText_digits n
  have hne := natText_ne_nil n
  have hv := natText_value n
  unfold pyInt
  rw [strip_noWs _ (fun c hc => (isDigit_facts c (hd c hc)).1)]
  generalize natText n = ds at *
  cases ds with
  | nil => exact absurd rfl hne
  | cons d r =>
    have h1 := isDigit_facts d (hd d (by simp))
    split
    · rename_i heq; simp at heq; exact absurd heq.1 h1.2.2.2.2.2.2.2.2.2.1
    · rename_i heq; simp at heq; exact absurd heq.1 h1.2.2.2.2.2.2.2.2.2.2.1
    · rw [digitsVal_digits _ _ _ hd (Or.inl (by simp)), hv]; rfl

/-! ### the parser fold (`parseNestedParens`'s loop) over one serialized item -/

def chs (b : Bytes) : List Elem := b.map Elem.ch

theorem chs_append (a b : Bytes) : chs (a ++ b) = chs a ++ chs b := by simp [chs]

/-- bytes the parser's top level copies to the current frame -/
abbrev plainP (c : UInt8) : Prop := c ≠ QU ∧ c ≠ 123 ∧ c ≠ 40 ∧ c ≠ 91 ∧ c ≠ 41 ∧ c ≠ 93

theorem stepP_plain (c : UInt8) (h : plainP c) (top : List Elem) (below : List (List Elem)) :
    stepP true ⟨.normal, top, below⟩ c = ⟨.normal, top ++ [.ch c], below⟩ := by
  obtain ⟨h1, h2, h3, h4, h5, h6⟩ := h
  simp [stepP, push, h1, h2, h3, h4, h5, h6]

theorem run_plain (w : Bytes) (h : ∀ c ∈ w, plainP c) (top : List Elem) (below : List (List Elem)) :
    w.foldl (stepP true) ⟨.normal, top, below⟩ = ⟨.normal, top ++ chs w, below⟩ := by
  induction w generalizing top with
  | nil => simp [chs]
  | cons c r ih =>
    rw [List.foldl_cons, stepP_plain c (h c (by simp)), ih (fun x hx => h x (by simp [hx]))]
    simp [chs]

/-- the body of `_quote(b)` for a `b` without backslash -/
def qbody (b : Bytes) : Bytes := b.flatMap fun x => if x = QU then [ESC, QU] else [x]

theorem escapeByte_absent (c : UInt8) (b : Bytes) (h : c ∉ b) : escapeByte c b = b := by
  induction b with
  | nil => rfl
  | cons x r ih =>
    have hx : x ≠ c := fun e => h (by simp [e])
    have hr : c ∉ r := fun e => h (by simp [e])
    simp only [escapeByte, List.flatMap_cons] at ih ⊢
    rw [ih hr]; simp [hx]

theorem quote_eq (b : Bytes) (h : ESC ∉ b) : quote b = QU :: qbody b ++ [QU] := by
  unfold quote
  rw [escapeByte_absent ESC b h]
  rfl

theorem qbody_cons (c : UInt8) (r : Bytes) :
    qbody (c :: r) = (if c = QU then [ESC, QU] else [c]) ++ qbody r := by
  simp [qbody]

theorem run_qbody (b : Bytes) (h : ESC ∉ b) (top : List Elem) (below : List (List Elem)) :
    (qbody b).foldl (stepP true) ⟨.quote, top, below⟩ = ⟨.quote, top ++ chs (qbody b), below⟩ := by
  induction b generalizing top with
  | nil => simp [qbody, chs]
  | cons c r ih =>
    have hc : c ≠ ESC := fun e => h (by simp [e])
    have hr : ESC ∉ r := fun e => h (by simp [e])
    rw [qbody_cons, List.foldl_append, chs_append]
    by_cases hq : c = QU
    · subst hq
      simp only [if_true, List.foldl_cons, List.foldl_nil]
      have : stepP true (stepP true ⟨.quote, top, below⟩ ESC) QU = ⟨.quote, top ++ [.ch ESC, .ch QU], below⟩ := by
        simp [stepP, push]
      rw [this, ih hr]; simp [chs]
    · simp only [hq, if_false, List.foldl_cons, List.foldl_nil]
      have : stepP true ⟨.quote, top, below⟩ c = ⟨.quote, top ++ [.ch c], below⟩ := by
        simp [stepP, push, hc, hq]
      rw [this, ih hr]; simp [chs]

theorem run_quote (b : Bytes) (h : ESC ∉ b) (top : List Elem) (below : List (List Elem)) :
    (quote b).foldl (stepP true) ⟨.normal, top, below⟩ = ⟨.normal, top ++ chs (quote b), below⟩ := by
  rw [quote_eq b h, List.cons_append, List.foldl_cons, List.foldl_append]
  have h1 : stepP true ⟨.normal, top, below⟩ QU = ⟨.quote, top ++ [.ch QU], below⟩ := by
    simp [stepP, push]
  rw [h1, run_qbody b h]
  have : QU ≠ ESC := by decide
  simp [stepP, push, chs, this]

theorem run_hdr (ds acc : Bytes) (h : ∀ c ∈ ds, c ≠ 125) (top : List Elem) (below : List (List Elem)) :
    ds.foldl (stepP true) ⟨.hdr acc, top, below⟩ = ⟨.hdr (acc ++ ds), top, below⟩ := by
  induction ds generalizing acc with
  | nil => simp
  | cons c r ih =>
    have hc := h c (by simp)
    rw [List.foldl_cons]
    have : stepP true ⟨.hdr acc, top, below⟩ c = ⟨.hdr (acc ++ [c]), top, below⟩ := by
      simp [stepP, hc]
    rw [this, ih _ (fun x hx => h x (by simp [hx]))]; simp

theorem run_litBody (b acc : Bytes) (n : Nat) (h : b.length = n + 1) (top : List Elem) (below : List (List Elem)) :
    b.foldl (stepP true) ⟨.lit (n + 1) acc, top, below⟩ = ⟨.normal, top ++ [.lit (acc ++ b)], below⟩ := by
  induction b generalizing acc n with
  | nil => simp at h
  | cons c r ih =>
    rw [List.foldl_cons]
    cases n with
    | zero =>
      have : r = [] := by simpa using h
      subst this
      simp [stepP, push]
    | succ m =>
      have : stepP true ⟨.lit (m + 1 + 1) acc, top, below⟩ c = ⟨.lit (m + 1) (acc ++ [c]), top, below⟩ := by
        simp [stepP]
      rw [this, ih _ m (by simpa using h)]; simp

theorem needsLiteral_ne_nil (b : Bytes) (h : needsLiteral b = true) : b ≠ [] := by
  intro e; subst e; simp [needsLiteral] at h

theorem run_literal (b : Bytes) (hb : b ≠ []) (top : List Elem) (below : List (List Elem)) :
    (123 :: natText b.length ++ 125 :: CR :: LF :: b).foldl (stepP true) ⟨.normal, top, below⟩
      = ⟨.normal, top ++ [.lit b], below⟩ := by
  rw [List.cons_append, List.foldl_cons, List.foldl_append, List.foldl_cons, List.foldl_cons, List.foldl_cons]
  have h0 : stepP true ⟨.normal, top, below⟩ 123 = ⟨.hdr [], top, below⟩ := by
    simp [stepP, QU]
  rw [h0, run_hdr _ _ (fun c hc => (isDigit_facts c (natText_digits _ c hc)).2.2.2.1)]
  obtain ⟨n, hn⟩ : ∃ n, b.length = n + 1 := by
    cases b with
    | nil => exact absurd rfl hb
    | cons c r => exact ⟨r.length, by simp⟩
  have h1 : stepP true ⟨.hdr ([] ++ natText b.length), top, below⟩ 125 = ⟨.skip 2 b.length, top, below⟩ := by
    simp [stepP, pyInt_natText]
  rw [h1]
  have h2 : stepP true (stepP true ⟨.skip 2 b.length, top, below⟩ CR) LF = ⟨.lit (n + 1) [], top, below⟩ := by
    simp [stepP, hn]
  rw [h2, run_litBody b [] n hn]; simp

/-! ### the hypothesis of the partial theorem, and what the parser's frames contain -/

mutual
/-- no *quoted* string contains a backslash (literals may contain anything) -/
def okItem : Item → Bool
  | .str b => needsLiteral b || !b.contains ESC
  | .nil => true
  | .int _ => true
  | .list l => okItems l
def okItems : List Item → Bool
  | [] => true
  | x :: r => okItem x && okItems r
end

mutual
/-- the frame elements the parser loop produces for one serialized item -/
def elemsItem : Item → List Elem
  | .nil => chs NIL
  | .int n => chs (intText n)
  | .str b => if needsLiteral b then [.lit b] else chs (quote b)
  | .list l => [.sub (elemsList l)]
def elemsPieces : List Item → List Elem
  | [] => []
  | x :: r => .ch SP :: elemsItem x ++ elemsPieces r
def elemsList : List Item → List Elem
  | [] => []
  | x :: r => elemsItem x ++ elemsPieces r
end

set_option maxRecDepth 100000 in
theorem wordy_facts : ∀ c : UInt8, (isDigit c = true ∨ c = 45 ∨ c = 78 ∨ c = 73 ∨ c = 76) →
    plainP c ∧ isWs c = false ∧ c ≠ QU ∧ c ≠ ESC := by
  apply forall_uint8; decide +kernel

theorem intText_wordy (n : Int) : ∀ c ∈ intText n, isDigit c = true ∨ c = 45 := by
  intro c hc
  cases n with
  | ofNat k => exact Or.inl (natText_digits k c hc)
  | negSucc k =>
    simp only [intText, List.mem_cons] at hc
    rcases hc with hc | hc
    · exact Or.inr hc
    · exact Or.inl (natText_digits _ c hc)

theorem intText_plain (n : Int) : ∀ c ∈ intText n, plainP c := fun c hc =>
  (wordy_facts c (by rcases intText_wordy n c hc with h | h <;> simp [h])).1

theorem NIL_plain : ∀ c ∈ NIL, plainP c := by
  intro c hc
  simp only [NIL, List.mem_cons, List.not_mem_nil, or_false] at hc
  exact (wordy_facts c (by rcases hc with h | h | h <;> simp [h])).1

theorem okItem_str (b : Bytes) (h : okItem (.str b) = true) (hl : needsLiteral b = false) : ESC ∉ b := by
  simpa [okItem, hl] using h

mutual
theorem run_item : ∀ (x : Item), okItem x = true → ∀ (top : List Elem) (below : List (List Elem)),
    (collapseItem x).foldl (stepP true) ⟨.normal, top, below⟩ = ⟨.normal, top ++ elemsItem x, below⟩
  | .nil, _, top, below => by simpa [collapseItem, elemsItem] using run_plain NIL NIL_plain top below
  | .int n, _, top, below => by
    simpa [collapseItem, elemsItem] using run_plain (intText n) (intText_plain n) top below
  | .str b, h, top, below => by
    by_cases hl : needsLiteral b = true
    · simp only [collapseItem, elemsItem, hl, if_true]
      exact run_literal b (needsLiteral_ne_nil b hl) top below
    · have hl' : needsLiteral b = false := by simpa using hl
      simp only [collapseItem, elemsItem, hl', Bool.false_eq_true, if_false]
      exact run_quote b (okItem_str b h hl') top below
  | .list l, h, top, below => by
    have hl : okItems l = true := by simpa [okItem] using h
    simp only [collapseItem, elemsItem, List.cons_append, List.foldl_cons, List.foldl_append, List.foldl_nil]
    have h1 : stepP true ⟨.normal, top, below⟩ 40 = ⟨.normal, [], top :: below⟩ := by
      simp [stepP, QU]
    rw [h1, run_list l hl [] (top :: below)]
    simp [stepP, QU]
theorem run_pieces : ∀ (l : List Item), okItems l = true → ∀ (top : List Elem) (below : List (List Elem)),
    (collapsePieces l).foldl (stepP true) ⟨.normal, top, below⟩ = ⟨.normal, top ++ elemsPieces l, below⟩
  | [], _, top, below => by simp [collapsePieces, elemsPieces]
  | x :: r, h, top, below => by
    have h' : okItem x = true ∧ okItems r = true := by simpa [okItems] using h
    simp only [collapsePieces, elemsPieces, List.cons_append, List.foldl_cons, List.foldl_append]
    have h1 : stepP true ⟨.normal, top, below⟩ SP = ⟨.normal, top ++ [.ch SP], below⟩ := by
      simp [stepP, push, QU, SP]
    rw [h1, run_item x h'.1, run_pieces r h'.2]
    simp
theorem run_list : ∀ (l : List Item), okItems l = true → ∀ (top : List Elem) (below : List (List Elem)),
    (collapseNestedLists l).foldl (stepP true) ⟨.normal, top, below⟩ = ⟨.normal, top ++ elemsList l, below⟩
  | [], _, top, below => by simp [collapseNestedLists, elemsList]
  | x :: r, h, top, below => by
    have h' : okItem x = true ∧ okItems r = true := by simpa [okItems] using h
    simp only [collapseNestedLists, elemsList, List.foldl_append]
    rw [run_item x h'.1, run_pieces r h'.2]
    simp
end

/-! ### `splitQuoted`: the surrounding `strip()` does not change the result -/

theorem isWs_ne (c : UInt8) (h : isWs c = true) : c ≠ QU ∧ c ≠ ESC := by
  revert h; revert c
  exact forall_uint8 _ (by decide +kernel)

theorem stepQ_qInit_ws (c : UInt8) (h : isWs c = true) : stepQ qInit c = qInit := by
  have := (isWs_ne c h).1
  simp [stepQ, qInit, this, h]

theorem foldl_lstrip (s : Bytes) : (lstrip s).foldl stepQ qInit = s.foldl stepQ qInit := by
  induction s with
  | nil => rfl
  | cons c r ih =>
    unfold lstrip at ih ⊢
    by_cases h : isWs c = true
    · simp only [List.dropWhile_cons, h, if_true, List.foldl_cons, stepQ_qInit_ws c h]
      exact ih
    · simp [h]

theorem finishQ_stepQ_ws (st : QState) (c : UInt8) (h : isWs c = true) :
    finishQ (stepQ st c) = finishQ st := by
  have hq := (isWs_ne c h).1
  have he := (isWs_ne c h).2
  obtain ⟨res, w, iq, iw, es, err⟩ := st
  cases err with
  | some e => simp [stepQ, finishQ]
  | none => cases iq <;> cases iw <;> simp [stepQ, finishQ, hq, he, h]

theorem finishQ_foldl_ws (ws : Bytes) (h : ∀ c ∈ ws, isWs c = true) (st : QState) :
    finishQ (ws.foldl stepQ st) = finishQ st := by
  induction ws generalizing st with
  | nil => rfl
  | cons c r ih =>
    rw [List.foldl_cons, ih (fun x hx => h x (by simp [hx])), finishQ_stepQ_ws st c (h c (by simp))]

theorem mem_takeWhile_ws (l : Bytes) (c : UInt8) (h : c ∈ l.takeWhile isWs) : isWs c = true := by
  induction l with
  | nil => simp at h
  | cons x r ih =>
    by_cases hx : isWs x = true
    · simp only [List.takeWhile_cons, hx, if_true, List.mem_cons] at h
      rcases h with h | h
      · rw [h]; exact hx
      · exact ih h
    · simp [hx] at h

theorem rstrip_decomp (s : Bytes) : ∃ ws, (∀ c ∈ ws, isWs c = true) ∧ s = rstrip s ++ ws := by
  refine ⟨(s.reverse.takeWhile isWs).reverse, ?_, ?_⟩
  · intro c hc
    exact mem_takeWhile_ws _ c (List.mem_reverse.mp hc)
  · unfold rstrip
    rw [← List.reverse_append, List.takeWhile_append_dropWhile, List.reverse_reverse]

/-- `splitQuoted(s)` without its `strip()` -/
theorem splitQuoted_eq (s : Bytes) : splitQuoted s = finishQ (s.foldl stepQ qInit) := by
  unfold splitQuoted strip
  obtain ⟨ws, hws, hs⟩ := rstrip_decomp (lstrip s)
  rw [← foldl_lstrip s]
  conv => rhs; rw [hs, List.foldl_append]
  rw [finishQ_foldl_ws ws hws]

/-! ### `splitQuoted`'s loop over one token -/

/-- between tokens -/
def Q (res : List Out) : QState := ⟨res, [], false, false, false, none⟩
/-- inside an unquoted word -/
def W (res : List Out) (w : Bytes) : QState := ⟨res, w, false, true, false, none⟩
/-- inside a quoted string, previous byte not a backslash -/
def IQ (res : List Out) (w : Bytes) : QState := ⟨res, w, true, false, false, none⟩

theorem qInit_eq : qInit = Q [] := rfl

theorem foldQ_qbody (b : Bytes) (h : ESC ∉ b) (res : List Out) (w : Bytes) :
    (qbody b).foldl stepQ (IQ res w) = IQ res (w ++ b) := by
  induction b generalizing w with
  | nil => simp [qbody]
  | cons c r ih =>
    have hc : c ≠ ESC := fun e => h (by simp [e])
    have hr : ESC ∉ r := fun e => h (by simp [e])
    rw [qbody_cons, List.foldl_append]
    by_cases hq : c = QU
    · subst hq
      have h1 : [ESC, QU].foldl stepQ (IQ res w) = IQ res (w ++ [QU]) := by
        have : ESC ≠ QU := by decide
        simp [stepQ, IQ, this]
      simp only [if_true, h1, ih hr]; simp
    · have h1 : [c].foldl stepQ (IQ res w) = IQ res (w ++ [c]) := by
        simp [stepQ, IQ, hq, hc]
      simp only [hq, if_false, h1, ih hr]; simp

theorem foldQ_quote (b : Bytes) (h : ESC ∉ b) (res : List Out) :
    (quote b).foldl stepQ (Q res) = Q (res ++ [.str b]) := by
  rw [quote_eq b h, List.cons_append, List.foldl_cons, List.foldl_append]
  have h1 : stepQ (Q res) QU = IQ res [] := by simp [stepQ, Q, IQ]
  rw [h1, foldQ_qbody b h]
  simp [stepQ, Q, IQ]

/-- bytes of an unquoted word -/
abbrev wordyQ (c : UInt8) : Prop := isWs c = false ∧ c ≠ QU ∧ c ≠ ESC

theorem foldQ_wordTail (w : Bytes) (h : ∀ c ∈ w, wordyQ c) (res : List Out) (w0 : Bytes) :
    w.foldl stepQ (W res w0) = W res (w0 ++ w) := by
  induction w generalizing w0 with
  | nil => simp
  | cons c r ih =>
    obtain ⟨h1, h2, h3⟩ := h c (by simp)
    have : stepQ (W res w0) c = W res (w0 ++ [c]) := by simp [stepQ, W, h1, h2, h3]
    rw [List.foldl_cons, this, ih (fun x hx => h x (by simp [hx]))]; simp

theorem foldQ_word (w : Bytes) (hne : w ≠ []) (h : ∀ c ∈ w, wordyQ c) (res : List Out) :
    w.foldl stepQ (Q res) = W res w := by
  cases w with
  | nil => exact absurd rfl hne
  | cons c r =>
    obtain ⟨h1, h2, h3⟩ := h c (by simp)
    have : stepQ (Q res) c = W res [c] := by simp [stepQ, Q, W, h1, h2, h3]
    rw [List.foldl_cons, this, foldQ_wordTail r (fun x hx => h x (by simp [hx]))]; simp

theorem stepQ_Q_SP (res : List Out) : stepQ (Q res) SP = Q res := by
  simp [stepQ, Q, SP, QU, isWs]

theorem stepQ_W_SP (res : List Out) (w : Bytes) : stepQ (W res w) SP = Q (res ++ [tok w]) := by
  simp [stepQ, Q, W, SP, QU, isWs]

/-! ### `collapseStrings` over the frames of a serialized list -/

/-- results already emitted, in front of what the rest of the frame gives -/
def pre (a : List Out) : Except Err (List Out) → Except Err (List Out)
  | .ok v => .ok (a ++ v)
  | .error e => .error e

theorem pre_nil (x : Except Err (List Out)) : pre [] x = x := by cases x <;> rfl
theorem pre_pre (a b : List Out) (x : Except Err (List Out)) : pre a (pre b x) = pre (a ++ b) x := by
  cases x <;> simp [pre]
theorem bind_pre (a : List Out) (x : Except Err (List Out)) :
    (x >>= fun r => pure (a ++ r)) = pre a x := by cases x <;> rfl

/-- what the pending run of `splitOn` is worth when it is flushed -/
inductive PInv : Pend → List Out → Prop
  | clean (bs : Bytes) (res : List Out) : bs.foldl stepQ qInit = Q res → PInv (.chars bs) res
  | word (bs : Bytes) (res : List Out) (w : Bytes) : bs.foldl stepQ qInit = W res w →
      PInv (.chars bs) (res ++ [tok w])
  | lits (bs : Bytes) : PInv (.lits bs) [.str bs]

theorem flush_clean (bs : Bytes) (res : List Out) (h : bs.foldl stepQ qInit = Q res) :
    flush (.chars bs) = .ok res := by
  simp [flush, splitQuoted_eq, h, finishQ, Q]

theorem flush_inv (p : Pend) (vals : List Out) (h : PInv p vals) : flush p = .ok vals := by
  cases h with
  | clean bs _ hc => exact flush_clean bs vals hc
  | word bs res w hc => simp [flush, splitQuoted_eq, hc, finishQ, W]
  | lits bs => rfl

theorem go_chs (w : Bytes) (es : List Elem) (bs : Bytes) :
    collapseGo (chs w ++ es) (.chars bs) = collapseGo es (.chars (bs ++ w)) := by
  induction w generalizing bs with
  | nil => simp [chs]
  | cons c r ih =>
    have := ih (bs ++ [c])
    simp only [chs, List.map_cons, List.cons_append, collapseGo] at this ⊢
    rw [this]; simp

theorem go_space (p : Pend) (vals : List Out) (h : PInv p vals) :
    ∃ a bs res, (∀ es, collapseGo (.ch SP :: es) p = pre a (collapseGo es (.chars bs)))
      ∧ bs.foldl stepQ qInit = Q res ∧ a ++ res = vals := by
  cases h with
  | clean bs _ hc =>
    refine ⟨[], bs ++ [SP], vals, fun es => ?_, ?_, rfl⟩
    · simp [collapseGo, pre_nil]
    · simp [List.foldl_append, hc, stepQ_Q_SP]
  | word bs res w hc =>
    refine ⟨[], bs ++ [SP], res ++ [tok w], fun es => ?_, ?_, rfl⟩
    · simp [collapseGo, pre_nil]
    · simp [List.foldl_append, hc, stepQ_W_SP]
  | lits bs =>
    refine ⟨[.str bs], [SP], [], fun es => ?_, ?_, rfl⟩
    · simp only [collapseGo, flush]
      exact bind_pre _ _
    · simp [qInit_eq, stepQ_Q_SP]

theorem intText_ne_NIL (n : Int) : intText n ≠ NIL := by
  intro e
  have hmem : (78 : UInt8) ∈ intText n := by rw [e]; simp [NIL]
  rcases intText_wordy n 78 hmem with h | h
  · exact absurd h (by decide)
  · exact absurd h (by decide)

theorem intText_ne_nil (n : Int) : intText n ≠ [] := by
  cases n with
  | ofNat k => exact natText_ne_nil k
  | negSucc k => simp [intText]

mutual
theorem go_item : ∀ (x : Item), okItem x = true → ∀ (bs : Bytes) (res : List Out),
    bs.foldl stepQ qInit = Q res →
    ∃ a p' vals', (∀ es, collapseGo (elemsItem x ++ es) (.chars bs) = pre a (collapseGo es p'))
      ∧ PInv p' vals' ∧ a ++ vals' = res ++ [outItem x]
  | .nil, _, bs, res, hc => by
    refine ⟨[], .chars (bs ++ NIL), res ++ [tok NIL], fun es => ?_, ?_, ?_⟩
    · simp [elemsItem, go_chs, pre_nil]
    · refine PInv.word _ _ _ ?_
      rw [List.foldl_append, hc]
      exact foldQ_word NIL (by simp [NIL]) (fun c hc => (wordy_facts c (by
        simp only [NIL, List.mem_cons, List.not_mem_nil, or_false] at hc
        rcases hc with h | h | h <;> simp [h])).2) res
    · simp [tok, outItem]
  | .int n, _, bs, res, hc => by
    refine ⟨[], .chars (bs ++ intText n), res ++ [tok (intText n)], fun es => ?_, ?_, ?_⟩
    · simp [elemsItem, go_chs, pre_nil]
    · refine PInv.word _ _ _ ?_
      rw [List.foldl_append, hc]
      exact foldQ_word _ (intText_ne_nil n) (fun c hc => (wordy_facts c (by
        rcases intText_wordy n c hc with h | h <;> simp [h])).2) res
    · simp [tok, outItem, intText_ne_NIL]
  | .str b, h, bs, res, hc => by
    by_cases hl : needsLiteral b = true
    · refine ⟨res, .lits b, [.str b], fun es => ?_, PInv.lits b, ?_⟩
      · simp only [elemsItem, hl, if_true, List.cons_append, List.nil_append, collapseGo,
          flush_clean bs res hc]
        exact bind_pre _ _
      · simp [outItem]
    · have hl' : needsLiteral b = false := by simpa using hl
      refine ⟨[], .chars (bs ++ quote b), res ++ [.str b], fun es => ?_, ?_, ?_⟩
      · simp [elemsItem, hl', go_chs, pre_nil]
      · refine PInv.clean _ _ ?_
        rw [List.foldl_append, hc]
        exact foldQ_quote b (okItem_str b h hl') res
      · simp [outItem]
  | .list l, h, bs, res, hc => by
    have hl : okItems l = true := by simpa [okItem] using h
    refine ⟨res ++ [.list (outItems l)], .chars [], [], fun es => ?_, PInv.clean [] [] rfl, ?_⟩
    · simp only [elemsItem, List.cons_append, List.nil_append, collapseGo, collapseSub,
        flush_clean bs res hc, go_list l hl]
      cases collapseGo es (.chars []) <;> simp [pre, bind, Except.bind, pure, Except.pure]
    · simp [outItem]
theorem go_pieces : ∀ (l : List Item), okItems l = true → ∀ (p : Pend) (vals : List Out), PInv p vals →
    collapseGo (elemsPieces l) p = .ok (vals ++ outItems l)
  | [], _, p, vals, hp => by simp [elemsPieces, collapseGo, outItems, flush_inv p vals hp]
  | x :: r, h, p, vals, hp => by
    have h' : okItem x = true ∧ okItems r = true := by simpa [okItems] using h
    obtain ⟨a, bs, res, hsp, hc, hv⟩ := go_space p vals hp
    obtain ⟨a2, p', vals', hit, hp', hv'⟩ := go_item x h'.1 bs res hc
    rw [elemsPieces, List.cons_append, hsp, hit, go_pieces r h'.2 p' vals' hp']
    simp only [pre, outItems]
    rw [← hv, ← List.append_assoc a2, hv']; simp
theorem go_list : ∀ (l : List Item), okItems l = true →
    collapseGo (elemsList l) (.chars []) = .ok (outItems l)
  | [], _ => by simp [elemsList, collapseGo, outItems, flush_clean [] [] rfl]
  | x :: r, h => by
    have h' : okItem x = true ∧ okItems r = true := by simpa [okItems] using h
    obtain ⟨a2, p', vals', hit, hp', hv'⟩ := go_item x h'.1 [] [] rfl
    rw [elemsList, hit, go_pieces r h'.2 p' vals' hp']
    simp only [pre, outItems]
    rw [← List.append_assoc a2, hv']; simp
end

/-! ### C42 -/

/-- **C42, partial**: for every nested list of byte strings, `None` and integers — no bound on
    sizes, depth or bytes — in which no *quoted* string (no CR/LF, at most 1000 bytes) contains
    a backslash, the client's `parseNestedParens` reads the server's `collapseNestedLists`
    output back as the same structure, with integers as their decimal text.
    Missing for the full statement `∀ l, …`: quoted strings with a backslash, where the code
    fails (`parse_collapse_counterexample`). -/
theorem parse_collapse_partial (l : List Item) (h : okItems l = true) :
    parseNestedParens (collapseNestedLists l) = .ok (outItems l) := by
  unfold parseNestedParens
  have := run_list l h [] []
  simp only [List.nil_append] at this
  rw [show pInit = ⟨.normal, [], []⟩ from rfl, this]
  simp [finishP, collapseStrings, go_list l h]

/-- the same serialization inside parentheses (how the server embeds a list in a response):
    one list containing the structure -/
theorem parse_collapse_parenthesized_partial (l : List Item) (h : okItems l = true) :
    parseNestedParens (40 :: collapseNestedLists l ++ [41]) = .ok [.list (outItems l)] := by
  have := parse_collapse_partial [.list l] (by simpa [okItems, okItem] using h)
  simpa [collapseNestedLists, collapseItem, collapsePieces, outItems, outItem] using this

/-- "integers as their decimal text": the text is digits only (after an optional `-`) and denotes
    the integer — `int()` as modelled reads it back. -/
theorem natText_decimal (n : Nat) :
    (∀ c ∈ natText n, isDigit c = true) ∧ natText n ≠ [] ∧ digitsNat (natText n) 0 = n ∧
      pyInt (natText n) = some (Int.ofNat n) :=
  ⟨natText_digits n, natText_ne_nil n, natText_value n, pyInt_natText n⟩

/-- **The full statement is false for the code as it is**: a quoted string containing a
    backslash comes back with the backslash doubled (`splitQuoted` never unescapes `\\`) … -/
theorem parse_collapse_counterexample :
    parseNestedParens (collapseNestedLists [.str [97, 92, 98]]) = .ok [.str [97, 92, 92, 98]]
      ∧ outItems [.str [97, 92, 98]] = [.str [97, 92, 98]] := ⟨rfl, rfl⟩

/-- … and a quoted string ending in a backslash makes the client raise `MismatchedQuoting`. -/
theorem parse_collapse_counterexample_trailing :
    parseNestedParens (collapseNestedLists [.str [97, 92]]) = .error .quoting := rfl

theorem parse_collapse_full_is_false :
    ¬ ∀ l : List Item, parseNestedParens (collapseNestedLists l) = .ok (outItems l) := by
  intro h
  have h1 := h [.str [97, 92]]
  rw [parse_collapse_counterexample_trailing] at h1
  cases h1

/-! ### Exactly what the code does with one quoted string (any bytes)

The parser loop itself handles every escape correctly (`run_quote_any`); it is `splitQuoted`
that keeps both bytes of `\\` and takes a closing quote after `\\` for an escaped quote. -/

/-- one-pass form of the two `replace` calls of `_quote` -/
def q1 (c : UInt8) : Bytes := if c = ESC then [ESC, ESC] else if c = QU then [ESC, QU] else [c]

theorem quote_any (b : Bytes) : quote b = QU :: b.flatMap q1 ++ [QU] := by
  unfold quote escapeByte
  rw [List.flatMap_assoc]
  congr 3
  funext x
  unfold q1
  by_cases h1 : x = ESC
  · subst h1; decide
  · by_cases h2 : x = QU
    · subst h2; decide
    · simp [h1, h2]

theorem run_qbody_any (b : Bytes) (top : List Elem) (below : List (List Elem)) :
    (b.flatMap q1).foldl (stepP true) ⟨.quote, top, below⟩ = ⟨.quote, top ++ chs (b.flatMap q1), below⟩ := by
  induction b generalizing top with
  | nil => simp [chs]
  | cons c r ih =>
    rw [List.flatMap_cons, List.foldl_append, chs_append]
    by_cases he : c = ESC
    · subst he
      have : [ESC, ESC].foldl (stepP true) ⟨.quote, top, below⟩ = ⟨.quote, top ++ [.ch ESC, .ch ESC], below⟩ := by
        simp [stepP, push]
      simp only [q1, if_true, this, ih]; simp [chs]
    · by_cases hq : c = QU
      · subst hq
        have : [ESC, QU].foldl (stepP true) ⟨.quote, top, below⟩ = ⟨.quote, top ++ [.ch ESC, .ch QU], below⟩ := by
          simp [stepP, push]
        simp only [q1, he, if_false, if_true, this, ih]; simp [chs]
      · have : [c].foldl (stepP true) ⟨.quote, top, below⟩ = ⟨.quote, top ++ [.ch c], below⟩ := by
          simp [stepP, push, he, hq]
        simp only [q1, he, hq, if_false, this, ih]; simp [chs]

/-- the loop of `parseNestedParens` copies any quoted string, whatever its bytes, to the frame
    and is back at top level after it -/
theorem run_quote_any (b : Bytes) (top : List Elem) (below : List (List Elem)) :
    (quote b).foldl (stepP true) ⟨.normal, top, below⟩ = ⟨.normal, top ++ chs (quote b), below⟩ := by
  rw [quote_any b, List.cons_append, List.foldl_cons, List.foldl_append]
  have h1 : stepP true ⟨.normal, top, below⟩ QU = ⟨.quote, top ++ [.ch QU], below⟩ := by
    simp [stepP, push]
  rw [h1, run_qbody_any b]
  have : QU ≠ ESC := by decide
  simp [stepP, push, chs, this]

/-- what `splitQuoted` makes of the data: every backslash twice -/
def dbl (b : Bytes) : Bytes := b.flatMap fun x => if x = ESC then [ESC, ESC] else [x]

/-- is the last byte a backslash (`e` for the empty string) -/
def lastEsc : Bool → Bytes → Bool
  | e, [] => e
  | _, c :: r => lastEsc (c = ESC) r

theorem foldQ_qbody_any (b : Bytes) (res : List Out) (w : Bytes) (e : Bool) :
    (b.flatMap q1).foldl stepQ ⟨res, w, true, false, e, none⟩
      = ⟨res, w ++ dbl b, true, false, lastEsc e b, none⟩ := by
  induction b generalizing w e with
  | nil => simp [dbl, lastEsc]
  | cons c r ih =>
    rw [List.flatMap_cons, List.foldl_append]
    have hne : ESC ≠ QU := by decide
    by_cases he : c = ESC
    · subst he
      have : [ESC, ESC].foldl stepQ ⟨res, w, true, false, e, none⟩ = ⟨res, w ++ [ESC, ESC], true, false, true, none⟩ := by
        simp [stepQ, hne]
      simp only [q1, if_true, this, ih]; simp [dbl, lastEsc]
    · by_cases hq : c = QU
      · subst hq
        have : [ESC, QU].foldl stepQ ⟨res, w, true, false, e, none⟩ = ⟨res, w ++ [QU], true, false, false, none⟩ := by
          simp [stepQ, hne]
        simp only [q1, he, if_false, if_true, this, ih]; simp [dbl, lastEsc, he]
      · have : [c].foldl stepQ ⟨res, w, true, false, e, none⟩ = ⟨res, w ++ [c], true, false, false, none⟩ := by
          simp [stepQ, he, hq]
        simp only [q1, he, hq, if_false, this, ih]; simp [dbl, lastEsc, he]

theorem lastEsc_true_ne_nil (b : Bytes) (h : lastEsc false b = true) : b ≠ [] := by
  intro e; subst e; simp [lastEsc] at h

theorem dbl_ne_nil (b : Bytes) (h : b ≠ []) : dbl b ≠ [] := by
  cases b with
  | nil => exact absurd rfl h
  | cons c r => by_cases he : c = ESC <;> simp [dbl, he]

/-- `splitQuoted(_quote(b))` for every `b` -/
theorem splitQuoted_quote (b : Bytes) :
    splitQuoted (quote b) = if lastEsc false b then .error .quoting else .ok [.str (dbl b)] := by
  rw [splitQuoted_eq, quote_any b, List.cons_append, List.foldl_cons, List.foldl_append]
  have h1 : stepQ qInit QU = ⟨[], [], true, false, false, none⟩ := by simp [stepQ, qInit]
  rw [h1, foldQ_qbody_any b]
  by_cases hl : lastEsc false b = true
  · have := dbl_ne_nil b (lastEsc_true_ne_nil b hl)
    simp [stepQ, finishQ, hl, this]
  · simp [stepQ, finishQ, hl]

/-- **What the code does with a single quoted string, exactly**: every backslash comes back
    doubled, and a string ending in a backslash raises `MismatchedQuoting`. -/
theorem parse_collapse_single_exact (b : Bytes) (hq : needsLiteral b = false) :
    parseNestedParens (collapseNestedLists [.str b])
      = if lastEsc false b then .error .quoting else .ok [.str (dbl b)] := by
  unfold parseNestedParens
  have hrun := run_quote_any b [] []
  simp only [List.nil_append] at hrun
  simp only [collapseNestedLists, collapseItem, collapsePieces, hq, Bool.false_eq_true, if_false,
    List.append_nil]
  rw [show pInit = ⟨.normal, [], []⟩ from rfl, hrun]
  have hgo := go_chs (quote b) [] []
  simp only [List.append_nil, List.nil_append] at hgo
  simp only [finishP, collapseStrings, hgo, collapseGo, flush]
  exact splitQuoted_quote b

theorem dbl_length (b : Bytes) : b.length ≤ (dbl b).length ∧ (ESC ∈ b → b.length < (dbl b).length) := by
  induction b with
  | nil => simp [dbl]
  | cons c r ih =>
    have hd : dbl (c :: r) = (if c = ESC then [ESC, ESC] else [c]) ++ dbl r := by simp [dbl]
    rw [hd]
    by_cases he : c = ESC
    · simp only [he, if_true, List.length_append, List.length_cons, List.length_nil]
      exact ⟨by omega, fun _ => by omega⟩
    · simp only [he, if_false, List.length_append, List.length_cons, List.length_nil, List.mem_cons]
      refine ⟨by omega, fun h => ?_⟩
      rcases h with h | h
      · exact absurd h.symm he
      · have := ih.2 h; omega

theorem dbl_absent (b : Bytes) (h : ESC ∉ b) : dbl b = b := escapeByte_absent ESC b h

theorem lastEsc_absent (b : Bytes) (h : ESC ∉ b) (e : Bool) : lastEsc e b = if b = [] then e else false := by
  induction b generalizing e with
  | nil => simp [lastEsc]
  | cons c r ih =>
    have hc : c ≠ ESC := fun x => h (by simp [x])
    have hr : ESC ∉ r := fun x => h (by simp [x])
    simp only [lastEsc, ih hr, hc, decide_false]
    split <;> simp

/-- **The hypothesis of `parse_collapse_partial` is exact** for a single quoted string: it
    round-trips if and only if it contains no backslash. -/
theorem parse_collapse_single_iff (b : Bytes) (hq : needsLiteral b = false) :
    parseNestedParens (collapseNestedLists [.str b]) = .ok (outItems [.str b]) ↔ ESC ∉ b := by
  constructor
  · intro h hmem
    rw [parse_collapse_single_exact b hq] at h
    split at h
    · cases h
    · have hlen := (dbl_length b).2 hmem
      simp only [outItems, outItem, Except.ok.injEq, List.cons.injEq, Out.str.injEq, and_true] at h
      rw [h] at hlen; omega
  · intro h
    exact parse_collapse_partial [.str b] (by simp [okItems, okItem, hq, h])

/-! ### Non-vacuity -/

/-- a hostile structure that satisfies the hypothesis: quote, NIL-like text, braces, brackets and
    parentheses in quoted strings; a literal containing backslash, CR, LF and ending in
    whitespace as the last item; None, negative and large integers; nesting; empty list/string -/
def sample : List Item :=
  [.str [34, 78, 73, 76, 32, 40, 91, 123, 51, 125], .nil, .int (-120), .str [],
   .list [.list [], .str [78, 73, 76], .list [.int 1000, .str [41, 32, 34]], .nil],
   .str [92, 34, 13, 10, 32]]

example : okItems sample = true := by decide

example : parseNestedParens (collapseNestedLists sample) = .ok (outItems sample) :=
  parse_collapse_partial sample (by decide)

example : outItems sample =
    [.str [34, 78, 73, 76, 32, 40, 91, 123, 51, 125], .none, .str [45, 49, 50, 48], .str [],
     .list [.list [], .str [78, 73, 76], .list [.str [49, 48, 48, 48], .str [41, 32, 34]], .none],
     .str [92, 34, 13, 10, 32]] := rfl

/-- a serialization, byte for byte (what the parser is actually fed) -/
example : collapseNestedLists [.str [97, 34], .nil, .int (-5), .list [.str [10]]] =
    [34, 97, 92, 34, 34, 32, 78, 73, 76, 32, 45, 53, 32, 40, 123, 49, 125, 13, 10, 10, 41] := by decide

/-! ### The classes the white-box mutation audit added to the tie (harness/mutants/C42): depth and length without bound -/

/-- `l` inside `d` more lists -/
def nest : Nat → List Item → List Item
  | 0, l => l
  | d + 1, l => [.list (nest d l)]

def nestOut : Nat → List Out → List Out
  | 0, l => l
  | d + 1, l => [.list (nestOut d l)]

theorem okItems_nest (d : Nat) (l : List Item) (h : okItems l = true) : okItems (nest d l) = true := by
  induction d with
  | zero => exact h
  | succ d ih => simp [nest, okItems, okItem, ih]

theorem outItems_nest (d : Nat) (l : List Item) : outItems (nest d l) = nestOut d (outItems l) := by
  induction d with
  | zero => rfl
  | succ d ih => simp [nest, nestOut, outItems, outItem, ih]

/-- **any depth**: a structure inside `d` more lists (every `d`: no nesting limit, no recursion bound in the
    model) comes back inside `d` lists -/
theorem parse_collapse_deep (d : Nat) (l : List Item) (h : okItems l = true) :
    parseNestedParens (collapseNestedLists (nest d l)) = .ok (nestOut d (outItems l)) := by
  rw [← outItems_nest]
  exact parse_collapse_partial _ (okItems_nest d l h)

theorem okItems_append (a b : List Item) : okItems (a ++ b) = (okItems a && okItems b) := by
  induction a with
  | nil => simp [okItems]
  | cons x r ih => simp [okItems, ih, Bool.and_assoc]

theorem outItems_append (a b : List Item) : outItems (a ++ b) = outItems a ++ outItems b := by
  induction a with
  | nil => simp [outItems]
  | cons x r ih => simp [outItems, ih]

/-- **any length, any bytes in a literal**: a string the server sends as a literal (CR, LF, or longer than 1000
    bytes — no upper bound on the length, so the `{n}` header may have any number of digits), with ANY bytes in it
    (backslashes too), anywhere among items that satisfy the hypothesis, comes back as it is -/
theorem parse_collapse_literal_any (pre post : List Item) (b : Bytes) (hb : needsLiteral b = true)
    (hpre : okItems pre = true) (hpost : okItems post = true) :
    parseNestedParens (collapseNestedLists (pre ++ .str b :: post)) =
      .ok (outItems pre ++ .str b :: outItems post) := by
  have := parse_collapse_partial (pre ++ .str b :: post)
    (by simp [okItems_append, okItems, okItem, hb, hpre, hpost])
  simpa [outItems_append, outItems, outItem] using this

theorem needsLiteral_long (b : Bytes) (h : 1000 < b.length) : needsLiteral b = true := by
  simp [needsLiteral, h]

/-- every string longer than 1000 bytes round-trips, whatever its bytes and its length -/
theorem parse_collapse_long (b : Bytes) (h : 1000 < b.length) :
    parseNestedParens (collapseNestedLists [.str b]) = .ok [.str b] := by
  simpa [outItems] using parse_collapse_literal_any [] [] b (needsLiteral_long b h) rfl rfl

example : parseNestedParens (collapseNestedLists (nest 40 [.str [120], .nil])) =
    .ok (nestOut 40 [.str [120], .none]) := parse_collapse_deep 40 _ (by decide)

example : parseNestedParens (collapseNestedLists [.str (List.replicate 100000 92)]) =
    .ok [.str (List.replicate 100000 92)] :=
  parse_collapse_long _ (by rw [List.length_replicate]; omega)

end TwistedProps.C42
