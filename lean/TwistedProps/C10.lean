import TwistedModel.Reactor.Looping
import TwistedProps.C10.Gen
/-!
C10 — LoopingCall keeps cadence without overlap and counts skipped intervals.

Model: `TwistedModel/Reactor/Looping.lean` (`LoopingCall` + `Clock.advance`, integer ticks).
All theorems quantify over every script of the looped function, every history of
`start / advance / fire / fail / stop / reset` operations that satisfies the decidable
well-formedness predicate `HistOk` (positive or negative — never zero — intervals, advances ≥ 0,
`start` not issued while the function's Deferred is unfired), and every next operation.

`gen_*`: the arithmetic kernels `_intervalOf` and `howLong` are regenerated from task.py on every run
(`Generated.Looping`, harness/py2lean.py) and proved equal to the model's functions
(`TwistedProps/C10/Gen.lean`); the wrappers below restate the boundary arithmetic and the skip count
directly over the generated definitions.
-/
namespace TwistedProps.C10
open Twisted.Reactor.Looping

/-! ## arithmetic of the boundary grid -/

/-- the first boundary `st + k*I` strictly after time `c` -/
def nextBoundary (st I c : Int) : Int := st + ((c - st) / I + 1) * I

theorem nb_eq (st I c : Int) : c + (I - (c - st) % I) = nextBoundary st I c := by
  unfold nextBoundary
  have h := Int.ediv_mul_add_emod (c - st) I
  rw [Int.add_mul]
  omega

theorem nextBoundary_gt (st I c : Int) (hI : 0 < I) : c < nextBoundary st I c := by
  have := Int.lt_ediv_add_one_mul_self (c - st) hI
  unfold nextBoundary; omega

theorem nextBoundary_sub_le (st I c : Int) (hI : 0 < I) : nextBoundary st I c - I ≤ c := by
  have := Int.ediv_mul_le (c - st) (Int.ne_of_gt hI)
  unfold nextBoundary; rw [Int.add_mul]; omega

/-- `nextBoundary` really is the FIRST grid point strictly after `c` -/
theorem nextBoundary_first (st I c k : Int) (hI : 0 < I) (h : c < st + k * I) :
    nextBoundary st I c ≤ st + k * I := by
  have h1 : (c - st) / I < k := (Int.ediv_lt_iff_lt_mul hI).2 (by omega)
  have h2 : ((c - st) / I + 1) * I ≤ k * I := Int.mul_le_mul_of_nonneg_right (by omega) (Int.le_of_lt hI)
  unfold nextBoundary; omega

/-- moving the clock without reaching the boundary does not change which boundary is next -/
theorem nextBoundary_mono_stable (st I c c' : Int) (hI : 0 < I) (h1 : c ≤ c')
    (h2 : c' < nextBoundary st I c) : nextBoundary st I c' = nextBoundary st I c := by
  have ha : nextBoundary st I c' ≤ nextBoundary st I c := nextBoundary_first st I c' _ hI h2
  have hb : (c - st) / I ≤ (c' - st) / I := Int.ediv_le_ediv hI (by omega)
  have hc : ((c - st) / I + 1) * I ≤ ((c' - st) / I + 1) * I :=
    Int.mul_le_mul_of_nonneg_right (by omega) (Int.le_of_lt hI)
  unfold nextBoundary at *; omega

theorem tdiv_nonpos (a I : Int) (ha : a ≤ 0) (hI : 0 < I) : a.tdiv I ≤ 0 := by
  have : a = -(-a) := by omega
  rw [this, Int.neg_tdiv]
  have := @Int.tdiv_nonneg (-a) I (by omega) (by omega)
  omega

theorem tdiv_neg_self (I : Int) (hI : 0 < I) : (-I).tdiv I = -1 := by
  rw [Int.neg_tdiv, Int.tdiv_self (by omega)]

/-- `howLong` as a function of the three numbers it reads -/
def hl (I st w : Int) : Int :=
  if I == 0 then 0 else if I - (w - st) % I == 0 then I else I - (w - st) % I

theorem howLong_def (s : St) (w : Int) : howLong s w = hl s.interval s.starttime w := rfl

/-- `untilNextInterval` is never 0 on exact arithmetic: the `when == when + untilNextInterval`
    branch of `howLong` is dead, and the delay always leads to the next boundary -/
theorem untilNext_pos (I st w : Int) (hI : 0 < I) : 0 < I - (w - st) % I ∧ I - (w - st) % I ≤ I := by
  have h1 := Int.emod_lt_of_pos (w - st) hI
  have h2 := Int.emod_nonneg (w - st) (Int.ne_of_gt hI)
  omega

theorem hl_eq (I st w : Int) (hI : 0 < I) : w + hl I st w = nextBoundary st I w := by
  have h1 := Int.emod_lt_of_pos (w - st) hI
  have h2 : (I == 0) = false := by simp; omega
  have h3 : (I - (w - st) % I == 0) = false := by simp; omega
  simp only [hl, h2, h3]
  exact nb_eq _ _ _

/-! ## the translator-regenerated kernels (see `TwistedProps/C10/Gen.lean`) -/

/-- generated `_intervalOf` = model `intervalOf` -/
theorem gen_intervalOf (s : St) (t : Int) :
    Generated.Looping.intervalOf s.starttime s.interval t = intervalOf s t := gen_intervalOf_eq s t

/-- generated `howLong` = model `howLong` for every interval `start()` accepts -/
theorem gen_howLong (s : St) (when : Int) (hI : 0 ≤ s.interval) :
    Generated.Looping.howLong s.starttime s.interval when = howLong s when := gen_howLong_eq s when hI

/-- `_scheduleFrom(when)` arms the call at `now + ` the generated `howLong` -/
theorem gen_scheduleFrom (s : St) (when : Int) (hI : 0 ≤ s.interval) :
    (scheduleFrom s when).call = some (s.now + Generated.Looping.howLong s.starttime s.interval when) :=
  gen_scheduleFrom_eq s when hI

/-- no drift, over the generated definition: the delay computed by task.py's `howLong` leads from `when`
    exactly to the first boundary `starttime + k*interval` strictly after `when` -/
theorem gen_howLong_next_boundary (st I w : Int) (hI : 0 < I) :
    w + Generated.Looping.howLong st I w = nextBoundary st I w := by
  have h := gen_howLong_eq { interval := I, starttime := st } w (Int.le_of_lt hI)
  simp only at h
  rw [h, howLong_def]
  exact hl_eq I st w hI

/-! ## the pieces of `__call__` -/

def countOf (s : St) : Int := intervalOf s s.now - intervalOf s (lastTime s)

/-- the count handed to the user function is the difference of the GENERATED `_intervalOf` at `now` and at
    `lastTime` (the two `self._intervalOf(..)` calls of `counter()`) -/
theorem gen_countOf (s : St) :
    countOf s = Generated.Looping.intervalOf s.starttime s.interval s.now
                - Generated.Looping.intervalOf s.starttime s.interval (lastTime s) := rfl

theorem counter_pos (s : St) (hI : 0 < s.interval) (hc : 0 < countOf s) :
    counter s = ({ s with realLastTime := some s.now }, some (countOf s)) := by
  have h2 : (s.interval == 0) = false := by simp; omega
  unfold countOf at hc
  simp only [counter, h2, countOf, Bool.false_eq_true, if_false]
  rw [if_pos hc]

theorem userCall_cases (s : St) (hc : s.call = none) (hr : s.running = true) :
    ∃ sc rn, userCall s = ({ s with script := sc, running := rn }, .value) ∨
             userCall s = ({ s with script := sc }, .failure) ∨
             userCall s = ({ s with script := sc, running := rn, inflight := true }, .pending) := by
  unfold userCall stop
  cases hs : s.script with
  | nil => exact ⟨[], true, Or.inl (by simp [← hr, ← hs])⟩
  | cons b r =>
    cases b
    · exact ⟨r, true, Or.inl (by simp [← hr])⟩
    · exact ⟨r, true, Or.inr (Or.inl (by simp))⟩
    · exact ⟨r, true, Or.inr (Or.inr (by simp [← hr]))⟩
    · exact ⟨r, false, Or.inl (by simp [hr, hc])⟩
    · exact ⟨r, false, Or.inr (Or.inr (by simp [hr, hc]))⟩

def afterCount (s : St) : St :=
  { s with call := none, realLastTime := if s.withCount then some s.now else s.realLastTime }

def evCall (s : St) : Ev := Ev.call s.now (if s.withCount then some (countOf s) else none)

theorem callOp_cases (s : St) (hr : s.running = true) (hd : s.deferred = true) (hI : 0 < s.interval)
    (hc : s.withCount = true → 0 < countOf s) :
    ∃ sc rn,
      callOp s = ({ (afterCount s) with script := sc, call := some (nextBoundary s.starttime s.interval s.now) }, [evCall s]) ∨
      callOp s = ({ (afterCount s) with script := sc, running := false, deferred := false },
                    [evCall s, .fired true]) ∨
      callOp s = ({ (afterCount s) with script := sc, running := false, deferred := false },
                    [evCall s, .fired false]) ∨
      callOp s = ({ (afterCount s) with script := sc, running := rn, inflight := true }, [evCall s]) := by
  have hh := hl_eq s.interval s.starttime s.now hI
  unfold callOp
  by_cases hw : s.withCount = true
  rotate_left
  · rw [if_neg hw]
    obtain ⟨sc, rn, h | h | h⟩ := userCall_cases { s with call := none } rfl hr
    · rw [h]
      cases rn
      · refine ⟨sc, false, Or.inr (Or.inl ?_)⟩
        simp [finish, hw, hr, cb, hd, afterCount, evCall]
      · refine ⟨sc, true, Or.inl ?_⟩
        simp [finish, hw, hr, cb, scheduleFrom, howLong_def, hh, afterCount, evCall]
    · rw [h]
      refine ⟨sc, true, Or.inr (Or.inr (Or.inl ?_))⟩
      simp [finish, hw, hr, eb, hd, afterCount, evCall]
    · rw [h]
      refine ⟨sc, rn, Or.inr (Or.inr (Or.inr ?_))⟩
      simp [finish, hw, hr, afterCount, evCall]
  · rw [if_pos hw]
    have hcp : 0 < countOf { s with call := none } := hc hw
    rw [counter_pos { s with call := none } hI hcp]
    simp only []
    obtain ⟨sc, rn, h | h | h⟩ := userCall_cases { s with call := none, realLastTime := some s.now } rfl hr
    · rw [h]
      cases rn
      · refine ⟨sc, false, Or.inr (Or.inl ?_)⟩
        simp [finish, hw, hr, cb, hd, afterCount, evCall, countOf, intervalOf, lastTime]
      · refine ⟨sc, true, Or.inl ?_⟩
        simp [finish, hw, hr, cb, scheduleFrom, howLong_def, hh, afterCount, evCall, countOf, intervalOf, lastTime]
    · rw [h]
      refine ⟨sc, true, Or.inr (Or.inr (Or.inl ?_))⟩
      simp [finish, hw, hr, eb, hd, afterCount, evCall, countOf, intervalOf, lastTime]
    · rw [h]
      refine ⟨sc, rn, Or.inr (Or.inr (Or.inr ?_))⟩
      simp [finish, hw, hr, afterCount, evCall, countOf, intervalOf, lastTime]

/-! ## the count -/

def ras01 (s : St) : Int := if s.runAtStart then 1 else 0

/-- what the counts handed out so far in this run must add up to, read off `_realLastTime` -/
def passed (s : St) : Int :=
  match s.realLastTime with
  | some l => (l - s.starttime) / s.interval + ras01 s
  | none => 0

/-- the grid boundaries `starttime + k*interval ≤ t` (`k ≥ 0` with an immediate first call, else `k ≥ 1`) -/
def boundariesElapsed (s : St) (t : Int) : Int := (t - s.starttime) / s.interval + ras01 s

theorem countOf_eq (s : St) (hI : 0 < s.interval) (hst : s.starttime ≤ s.now)
    (hl : ∀ l, s.realLastTime = some l → s.starttime ≤ l) :
    countOf s = boundariesElapsed s s.now - passed s := by
  unfold countOf boundariesElapsed passed intervalOf lastTime ras01
  rw [Int.tdiv_eq_ediv_of_nonneg (by omega)]
  cases h : s.realLastTime with
  | some l =>
    have := hl l h
    simp only []
    rw [Int.tdiv_eq_ediv_of_nonneg (by omega)]
    omega
  | none =>
    simp only []
    cases s.runAtStart
    · simp
    · simp only [if_true]
      have : s.starttime - s.interval - s.starttime = -s.interval := by omega
      rw [this, tdiv_neg_self _ hI]; omega

/-- a call that became due (clock reached the boundary computed at an earlier clock value `c`)
    always has a positive count: the user function is never skipped -/
theorem countOf_pos_of_due (s : St) (c : Int) (hI : 0 < s.interval) (hst : s.starttime ≤ c)
    (hdue : nextBoundary s.starttime s.interval c ≤ s.now)
    (hl : ∀ l, s.realLastTime = some l → l ≤ c) : 0 < countOf s := by
  have hk0 : 0 ≤ (c - s.starttime) / s.interval := Int.ediv_nonneg (by omega) (by omega)
  have hk : (c - s.starttime) / s.interval + 1 ≤ (s.now - s.starttime) / s.interval := by
    apply (Int.le_ediv_iff_mul_le hI).2
    unfold nextBoundary at hdue; omega
  have hcn := nextBoundary_gt s.starttime s.interval c hI
  unfold countOf intervalOf lastTime
  rw [Int.tdiv_eq_ediv_of_nonneg (by omega)]
  cases h : s.realLastTime with
  | some l =>
    have hlc := hl l h
    simp only []
    by_cases hls : s.starttime ≤ l
    · rw [Int.tdiv_eq_ediv_of_nonneg (by omega)]
      have : (l - s.starttime) / s.interval ≤ (c - s.starttime) / s.interval :=
        Int.ediv_le_ediv hI (by omega)
      omega
    · have := tdiv_nonpos (l - s.starttime) s.interval (by omega) hI
      omega
  | none =>
    simp only []
    cases s.runAtStart
    · simp; omega
    · simp only [if_true]
      have : s.starttime - s.interval - s.starttime = -s.interval := by omega
      rw [this, tdiv_neg_self _ hI]; omega

/-! ## state invariant -/

structure Inv (s : St) : Prop where
  ipos : s.deferred = true → 0 < s.interval
  idef : s.deferred = (s.running || s.inflight)
  icall : ∀ t, s.call = some t → s.running = true ∧ s.inflight = false ∧
            t = nextBoundary s.starttime s.interval s.now
  irun : s.running = true → s.inflight = false → s.call.isSome = true
  ist : s.deferred = true → s.starttime ≤ s.now
  ilast : ∀ l, s.realLastTime = some l → l ≤ s.now

/-- what `__call__` needs of the state it is entered in -/
structure Pre (s : St) : Prop where
  run : s.running = true
  dfr : s.deferred = true
  nfl : s.inflight = false
  pos : 0 < s.interval
  st : s.starttime ≤ s.now
  last : ∀ l, s.realLastTime = some l → l ≤ s.now
  cnt : s.withCount = true → 0 < countOf s

theorem callOp_inv (s : St) (h : Pre s) : Inv (callOp s).1 := by
  obtain ⟨h1, h2, h3, h4, h5, h6, h7⟩ := h
  have hgt := nextBoundary_gt s.starttime s.interval s.now h4
  obtain ⟨sc, rn, h | h | h | h⟩ := callOp_cases s h1 h2 h4 h7 <;> rw [h] <;>
    constructor <;> simp [afterCount, h1, h2, h3] <;> try omega
  all_goals (first | (intro l hl; split at hl <;> simp_all <;> omega) | skip)

/-- well-formedness of the next operation -/
def OpOk (s : St) : Op → Prop
  | .start i _ => i ≠ 0 ∧ s.inflight = false
  | .advance a => 0 ≤ a
  | _ => True

instance (s : St) (op : Op) : Decidable (OpOk s op) := by
  cases op <;> unfold OpOk <;> infer_instance

/-- well-formedness of a history -/
def HistOk : St → List Op → Prop
  | _, [] => True
  | s, op :: ops => OpOk s op ∧ HistOk (step s op).1 ops

instance : ∀ (s : St) (ops : List Op), Decidable (HistOk s ops)
  | _, [] => isTrue trivial
  | s, op :: ops => by
    unfold HistOk
    have := instDecidableHistOk (step s op).1 ops
    infer_instance

theorem Inv.call_gt {s : St} (h : Inv s) {t : Int} (ht : s.call = some t) : s.now < t := by
  obtain ⟨hr, _, he⟩ := h.icall t ht
  have hd : s.deferred = true := by rw [h.idef, hr]; rfl
  rw [he]; exact nextBoundary_gt _ _ _ (h.ipos hd)

theorem runDue_idle (n : Nat) (s : St) (h : ∀ t, s.call = some t → s.now < t) :
    runDue n s = (s, []) := by
  cases n with
  | zero => rfl
  | succ n =>
    unfold runDue
    cases hc : s.call with
    | none => rfl
    | some t =>
      have := h t hc
      simp only []
      rw [if_neg (by omega)]

/-- the clock moved to `now + a` -/
def tick (s : St) (a : Int) : St := { s with now := s.now + a }

theorem pre_of_due (s : St) (a t : Int) (hi : Inv s) (ha : 0 ≤ a) (hc : s.call = some t)
    (hdue : t ≤ s.now + a) : Pre (tick s a) := by
  obtain ⟨hr, hf, he⟩ := hi.icall t hc
  have hd : s.deferred = true := by rw [hi.idef, hr]; rfl
  have hI := hi.ipos hd
  have hst := hi.ist hd
  refine ⟨hr, hd, hf, hI, ?_, ?_, ?_⟩
  · simp only [tick]; omega
  · intro l hl; have := hi.ilast l hl; simp only [tick]; omega
  · intro _
    apply countOf_pos_of_due (tick s a) s.now hI hst
    · simp only [tick]; omega
    · exact hi.ilast

/-- `Clock.advance`: the loop body runs at most once — exactly when the pending call is due -/
theorem advance_due (s : St) (a t : Int) (hi : Inv s) (ha : 0 ≤ a) (hc : s.call = some t)
    (hdue : t ≤ s.now + a) : advance s a = callOp (tick s a) := by
  have hp := pre_of_due s a t hi ha hc hdue
  have hi' := callOp_inv _ hp
  unfold advance advanceFuel
  show runDue 3 (tick s a) = _
  unfold runDue
  have hc' : (tick s a).call = some t := hc
  rw [hc']
  simp only []
  rw [if_pos (by simpa [tick] using hdue)]
  rw [runDue_idle 2 _ (fun t ht => hi'.call_gt ht)]
  simp

theorem advance_idle (s : St) (a : Int) (h : ∀ t, s.call = some t → s.now + a < t) :
    advance s a = (tick s a, []) := by
  unfold advance
  exact runDue_idle _ _ h

theorem advance_inv (s : St) (a : Int) (hi : Inv s) (ha : 0 ≤ a) : Inv (advance s a).1 := by
  cases hc : s.call with
  | none =>
    rw [advance_idle s a (by simp [hc])]
    obtain ⟨h1, h2, h3, h4, h5, h6⟩ := hi
    constructor <;> simp_all [tick] <;> try omega
    · intro hd; have := h5 hd; omega
    · intro l hl; have := h6 l hl; omega
  | some t =>
    by_cases hdue : t ≤ s.now + a
    · rw [advance_due s a t hi ha hc hdue]
      exact callOp_inv _ (pre_of_due s a t hi ha hc hdue)
    · rw [advance_idle s a (by intro t' ht'; simp [hc] at ht'; omega)]
      obtain ⟨hr, hf, he⟩ := hi.icall t hc
      have hd : s.deferred = true := by rw [hi.idef, hr]; rfl
      have hI := hi.ipos hd
      have hst := hi.ist hd
      have hstab := nextBoundary_mono_stable s.starttime s.interval s.now (s.now + a) hI (by omega)
        (by rw [← he]; omega)
      obtain ⟨h1, h2, h3, h4, h5, h6⟩ := hi
      constructor <;> simp_all [tick] <;> try omega
      intro l hl; have := h6 l hl; omega

/-- the state `start(i, now)` builds before the first call / scheduling -/
def started (s : St) (i : Int) (n : Bool) : St :=
  { s with running := true, deferred := true, starttime := s.now, interval := i,
           runAtStart := n, realLastTime := none }

theorem start_eq (s : St) (i : Int) (n : Bool) (hr : s.running = false) (hi : 0 < i) :
    start s i n = if n then callOp (started s i n) else (scheduleFrom (started s i n) s.now, []) := by
  unfold start started
  rw [hr]
  simp only [Bool.false_eq_true, if_false]
  rw [if_neg (by omega)]

theorem countOf_started (s : St) (i : Int) (hi : 0 < i) : countOf (started s i true) = 1 := by
  unfold countOf intervalOf lastTime started
  simp only [if_true]
  have : s.now - i - s.now = -i := by omega
  rw [this, tdiv_neg_self _ hi]
  simp

theorem pre_started (s : St) (i : Int) (hi : 0 < i) (hf : s.inflight = false) :
    Pre (started s i true) := by
  refine ⟨rfl, rfl, hf, hi, ?_, ?_, ?_⟩
  · simp [started]
  · intro l hl; simp [started] at hl
  · intro _; rw [countOf_started s i hi]; omega

theorem start_inv (s : St) (i : Int) (n : Bool) (hinv : Inv s) (h0 : i ≠ 0) (hf : s.inflight = false) :
    Inv (start s i n).1 := by
  by_cases hr : s.running = true
  · unfold start; rw [if_pos hr]; exact hinv
  · have hr' : s.running = false := by simpa using hr
    by_cases hi : 0 < i
    · rw [start_eq s i n hr' hi]
      cases n
      · simp only [Bool.false_eq_true, if_false, scheduleFrom, howLong_def]
        have := hl_eq i s.now s.now hi
        constructor <;> simp [started, hf, hi, this]
      · simp only [if_true]
        exact callOp_inv _ (pre_started s i hi hf)
    · unfold start; rw [hr']; simp only [Bool.false_eq_true, if_false]
      rw [if_pos (by omega)]; exact hinv

theorem stop_inv (s : St) (hinv : Inv s) : Inv (stop s).1 := by
  obtain ⟨h1, h2, h3, h4, h5, h6⟩ := hinv
  unfold stop
  by_cases hr : s.running = true
  · simp only [hr, Bool.not_true, Bool.false_eq_true, if_false]
    cases hc : s.call with
    | none =>
      simp only []
      have hfl : s.inflight = true := by
        cases hfl : s.inflight
        · have := h4 hr hfl; simp [hc] at this
        · rfl
      constructor <;> simp_all
    | some t =>
      simp only []
      have := h3 t hc
      constructor <;> simp_all
  · have : s.running = false := by simpa using hr
    simp only [this, Bool.not_false, if_true]
    exact ⟨h1, h2, h3, h4, h5, h6⟩

theorem reset_inv (s : St) (hinv : Inv s) : Inv (reset s).1 := by
  unfold reset
  by_cases hr : s.running = true
  · simp only [hr, Bool.not_true, Bool.false_eq_true, if_false]
    cases hc : s.call with
    | none => exact hinv
    | some t =>
      simp only [scheduleFrom, howLong_def]
      obtain ⟨_, hf, _⟩ := hinv.icall t hc
      have hd : s.deferred = true := by rw [hinv.idef, hr]; rfl
      have hI := hinv.ipos hd
      have := hl_eq s.interval s.now s.now hI
      obtain ⟨h1, h2, h3, h4, h5, h6⟩ := hinv
      constructor <;> simp_all
  · have : s.running = false := by simpa using hr
    simp only [this, Bool.not_false, if_true]
    exact hinv

theorem fire_inv (s : St) (hinv : Inv s) : Inv (fire s).1 := by
  unfold fire
  by_cases hf : s.inflight = true
  · rw [if_pos hf]
    have hd : s.deferred = true := by rw [hinv.idef, hf]; simp
    have hI := hinv.ipos hd
    have hc : s.call = none := by
      cases hc : s.call with
      | none => rfl
      | some t => have := (hinv.icall t hc).2.1; simp [hf] at this
    have := hl_eq s.interval s.starttime s.now hI
    obtain ⟨h1, h2, h3, h4, h5, h6⟩ := hinv
    unfold cb
    by_cases hr : s.running = true
    · simp only [hr, if_true, scheduleFrom, howLong_def]
      constructor <;> simp_all
    · have hr' : s.running = false := by simpa using hr
      simp only [hr', Bool.false_eq_true, if_false, hd, if_true]
      constructor <;> simp_all
  · rw [if_neg hf]; exact hinv

theorem fail_inv (s : St) (hinv : Inv s) : Inv (fail s).1 := by
  unfold fail
  by_cases hf : s.inflight = true
  · rw [if_pos hf]
    have hd : s.deferred = true := by rw [hinv.idef, hf]; simp
    have hc : s.call = none := by
      cases hc : s.call with
      | none => rfl
      | some t => have := (hinv.icall t hc).2.1; simp [hf] at this
    obtain ⟨h1, h2, h3, h4, h5, h6⟩ := hinv
    unfold eb
    simp only [hd, if_true]
    constructor <;> simp_all
  · rw [if_neg hf]; exact hinv

theorem step_inv (s : St) (op : Op) (hinv : Inv s) (hok : OpOk s op) : Inv (step s op).1 := by
  cases op with
  | start i n => exact start_inv s i n hinv hok.1 hok.2
  | advance a => exact advance_inv s a hinv hok
  | fire => exact fire_inv s hinv
  | fail => exact fail_inv s hinv
  | stop => exact stop_inv s hinv
  | reset => exact reset_inv s hinv

theorem init_inv (wc : Bool) (script : List Beh) : Inv (init wc script) := by
  constructor <;> simp [init]

theorem run_inv (s : St) (ops : List Op) (hinv : Inv s) (hok : HistOk s ops) : Inv (run s ops).1 := by
  induction ops generalizing s with
  | nil => exact hinv
  | cons op ops ih =>
    obtain ⟨h1, h2⟩ := hok
    exact ih _ (step_inv s op hinv h1) h2

/-! ## events -/

/-- the function (or, under withCount, `counter`) was entered -/
def isCall : Ev → Bool
  | .call _ _ => true
  | .skip _ => true
  | _ => false

def isSkip : Ev → Bool
  | .skip _ => true
  | _ => false

def isFired : Ev → Bool
  | .fired _ => true
  | _ => false

/-- sum of the counts passed to the function -/
def countsOf : List Ev → Int
  | [] => 0
  | .call _ (some c) :: r => c + countsOf r
  | _ :: r => countsOf r

def firedOf (evs : List Ev) : Nat := (evs.filter isFired).length
def callsOf (evs : List Ev) : Nat := (evs.filter isCall).length

/-- everything the theorems need to know about one `__call__` -/
theorem callOp_frame (s : St) (h : Pre s) :
    (callOp s).1.now = s.now ∧ (callOp s).1.withCount = s.withCount ∧
    (callOp s).1.interval = s.interval ∧ (callOp s).1.starttime = s.starttime ∧
    (callOp s).1.runAtStart = s.runAtStart ∧
    (callOp s).1.realLastTime = (if s.withCount then some s.now else s.realLastTime) ∧
    (((callOp s).2 = [evCall s] ∧ (callOp s).1.deferred = true) ∨
     (∃ b, (callOp s).2 = [evCall s, .fired b] ∧ (callOp s).1.deferred = false)) := by
  obtain ⟨h1, h2, h3, h4, h5, h6, h7⟩ := h
  obtain ⟨sc, rn, h | h | h | h⟩ := callOp_cases s h1 h2 h4 h7 <;> rw [h] <;> simp [afterCount, h2]

theorem evCall_facts (s : St) :
    isCall (evCall s) = true ∧ isSkip (evCall s) = false ∧ isFired (evCall s) = false ∧
    countsOf [evCall s] = (if s.withCount then countOf s else 0) ∧
    (∀ b, countsOf [evCall s, .fired b] = (if s.withCount then countOf s else 0)) := by
  unfold evCall
  cases s.withCount <;> simp [isCall, isSkip, isFired, countsOf]

/-- `start` that really starts a run -/
def fresh (s : St) : Op → Bool
  | .start i _ => !s.running && decide (0 < i)
  | _ => false

/-- `reset` that really reschedules -/
def resetOk (s : St) : Op → Bool
  | .reset => s.running && s.call.isSome
  | _ => false

/-- an operation during which the function is not entered -/
structure Quiet (s : St) (op : Op) : Prop where
  nocall : ∀ e ∈ (step s op).2, isCall e = false
  counts : countsOf (step s op).2 = 0
  wc : (step s op).1.withCount = s.withCount
  rlt : (step s op).1.realLastTime = if fresh s op then none else s.realLastTime
  grid : fresh s op = false → resetOk s op = false →
    (step s op).1.starttime = s.starttime ∧ (step s op).1.interval = s.interval ∧
    (step s op).1.runAtStart = s.runAtStart
  fired : firedOf (step s op).2 = if (fresh s op || s.deferred) && !(step s op).1.deferred then 1 else 0
  dmono : (step s op).1.deferred = true → (fresh s op || s.deferred) = true

/-- an operation during which `__call__` runs, exactly once, entered in state `s1` -/
structure Called (s : St) (op : Op) (s1 : St) : Prop where
  pre : Pre s1
  eq : step s op = callOp s1
  nfl : s.inflight = false
  why : (∃ a t, op = .advance a ∧ 0 ≤ a ∧ s.call = some t ∧ t ≤ s.now + a ∧ s1 = tick s a) ∨
        (∃ i, op = .start i true ∧ s.running = false ∧ 0 < i ∧ s1 = started s i true)

theorem step_kind (s : St) (op : Op) (hinv : Inv s) (hok : OpOk s op) :
    Quiet s op ∨ ∃ s1, Called s op s1 := by
  cases op with
  | start i n =>
    obtain ⟨h0, hf⟩ := hok
    by_cases hr : s.running = true
    · left
      have : step s (.start i n) = (s, [.assertion]) := by simp [step, start, hr]
      constructor <;> simp [this, fresh, resetOk, hr, isCall, countsOf, firedOf, isFired]
    · have hr' : s.running = false := by simpa using hr
      by_cases hi : 0 < i
      · cases n
        · left
          have : step s (.start i false) = (scheduleFrom (started s i false) s.now, []) := by
            simp [step, start_eq s i false hr' hi]
          constructor <;> simp [this, fresh, resetOk, hr', hi, countsOf, firedOf, scheduleFrom, started]
        · right
          refine ⟨started s i true, pre_started s i hi hf, ?_, hf, Or.inr ⟨i, rfl, hr', hi, rfl⟩⟩
          simp [step, start_eq s i true hr' hi]
      · left
        have : step s (.start i n) = (s, [.valueError]) := by
          simp only [step, start, hr', Bool.false_eq_true, if_false]
          rw [if_pos (by omega)]
        constructor <;> simp [this, fresh, resetOk, hr', hi, isCall, countsOf, firedOf, isFired]
  | advance a =>
    have ha : 0 ≤ a := hok
    cases hc : s.call with
    | none =>
      left
      have : step s (.advance a) = (tick s a, []) := by
        simp only [step]; exact advance_idle s a (by simp [hc])
      constructor <;> simp [this, fresh, resetOk, countsOf, firedOf, tick]
    | some t =>
      by_cases hdue : t ≤ s.now + a
      · right
        exact ⟨tick s a, pre_of_due s a t hinv ha hc hdue, by simp only [step]; exact advance_due s a t hinv ha hc hdue,
          (hinv.icall t hc).2.1, Or.inl ⟨a, t, rfl, ha, hc, hdue, rfl⟩⟩
      · left
        have : step s (.advance a) = (tick s a, []) := by
          simp only [step]; exact advance_idle s a (by intro t' ht'; simp [hc] at ht'; omega)
        constructor <;> simp [this, fresh, resetOk, countsOf, firedOf, tick]
  | fire =>
    left
    by_cases hf : s.inflight = true
    · have hd : s.deferred = true := by rw [hinv.idef, hf]; simp
      by_cases hr : s.running = true
      · have : step s .fire = (scheduleFrom { s with inflight := false } s.now, []) := by
          simp [step, fire, hf, cb, hr]
        constructor <;> simp [this, fresh, resetOk, countsOf, firedOf, scheduleFrom, hd]
      · have hr' : s.running = false := by simpa using hr
        have : step s .fire = ({ s with inflight := false, deferred := false }, [.fired true]) := by
          simp [step, fire, hf, cb, hr', hd]
        constructor <;> simp [this, fresh, resetOk, countsOf, firedOf, isCall, isFired, List.filter, hd]
    · have : step s .fire = (s, []) := by simp [step, fire, hf]
      constructor <;> simp [this, fresh, resetOk, countsOf, firedOf]
  | fail =>
    left
    by_cases hf : s.inflight = true
    · have hd : s.deferred = true := by rw [hinv.idef, hf]; simp
      have : step s .fail = ({ s with inflight := false, running := false, deferred := false }, [.fired false]) := by
        simp [step, fail, hf, eb, hd]
      constructor <;> simp [this, fresh, resetOk, countsOf, firedOf, isCall, isFired, List.filter, hd]
    · have : step s .fail = (s, []) := by simp [step, fail, hf]
      constructor <;> simp [this, fresh, resetOk, countsOf, firedOf]
  | stop =>
    left
    by_cases hr : s.running = true
    · have hd : s.deferred = true := by rw [hinv.idef, hr]; simp
      cases hc : s.call with
      | none =>
        have : step s .stop = ({ s with running := false }, []) := by simp [step, stop, hr, hc]
        constructor <;> simp [this, fresh, resetOk, countsOf, firedOf, hd]
      | some t =>
        have : step s .stop = ({ s with running := false, call := none, deferred := false }, [.fired true]) := by
          simp [step, stop, hr, hc]
        constructor <;> simp [this, fresh, resetOk, countsOf, firedOf, isCall, isFired, List.filter, hd]
    · have hr' : s.running = false := by simpa using hr
      have : step s .stop = (s, [.assertion]) := by simp [step, stop, hr']
      constructor <;> simp [this, fresh, resetOk, countsOf, firedOf, isCall, isFired]
  | reset =>
    left
    by_cases hr : s.running = true
    · have hd : s.deferred = true := by rw [hinv.idef, hr]; simp
      cases hc : s.call with
      | none =>
        have : step s .reset = (s, []) := by simp [step, reset, hr, hc]
        constructor <;> simp [this, fresh, resetOk, countsOf, firedOf, hc]
      | some t =>
        have : step s .reset = (scheduleFrom { s with call := none, starttime := s.now } s.now, []) := by
          simp [step, reset, hr, hc]
        constructor <;> simp [this, fresh, resetOk, countsOf, firedOf, hr, hc, scheduleFrom, hd]
    · have hr' : s.running = false := by simpa using hr
      have : step s .reset = (s, [.assertion]) := by simp [step, reset, hr']
      constructor <;> simp [this, fresh, resetOk, countsOf, firedOf, isCall, isFired]

theorem firedOf_evCall (s : St) : firedOf [evCall s] = 0 ∧ ∀ b, firedOf [evCall s, .fired b] = 1 := by
  simp [firedOf, evCall, isFired, List.filter]

theorem callsOf_evCall (s : St) : callsOf [evCall s] = 1 ∧ ∀ b, callsOf [evCall s, .fired b] = 1 := by
  simp [callsOf, evCall, isCall, List.filter]

theorem step_withCount (s : St) (op : Op) (hinv : Inv s) (hok : OpOk s op) :
    (step s op).1.withCount = s.withCount := by
  rcases step_kind s op hinv hok with q | ⟨s1, c⟩
  · exact q.wc
  · rw [c.eq, (callOp_frame s1 c.pre).2.1]
    rcases c.why with ⟨a, t, _, _, _, _, rfl⟩ | ⟨i, _, _, _, rfl⟩ <;> rfl

/-! ## ghost monitor: what an observer of the events accumulates -/

structure G where
  s : St
  begun : Bool := false      -- some `start()` took effect
  sum : Int := 0             -- Σ counts passed to the function since the latest effective `start()`
  fires : Nat := 0           -- how often the Deferred returned by the latest effective `start()` fired
  resets : Bool := false     -- a `reset()` rescheduled since the latest effective `start()`

def gstep (g : G) (op : Op) : G :=
  { s := (step g.s op).1,
    begun := g.begun || fresh g.s op,
    sum := (if fresh g.s op then 0 else g.sum) + countsOf (step g.s op).2,
    fires := (if fresh g.s op then 0 else g.fires) + firedOf (step g.s op).2,
    resets := (if fresh g.s op then false else g.resets) || resetOk g.s op }

def grun : G → List Op → G
  | g, [] => g
  | g, op :: ops => grun (gstep g op) ops

def ginit (wc : Bool) (script : List Beh) : G := { s := init wc script }

theorem grun_s (g : G) (ops : List Op) : (grun g ops).s = (run g.s ops).1 := by
  induction ops generalizing g with
  | nil => rfl
  | cons op ops ih => simp only [grun, run]; rw [ih]; rfl

structure GInv (g : G) : Prop where
  inv : Inv g.s
  beg : g.s.deferred = true → g.begun = true
  fire : g.fires = if g.begun && !g.s.deferred then 1 else 0
  sum : g.s.withCount = true → g.resets = false →
    g.sum = passed g.s ∧ ∀ l, g.s.realLastTime = some l → g.s.starttime ≤ l

theorem passed_started_call (s1 : St) (i : Int) (s : St) (h1 : s1.realLastTime = some s.now)
    (h2 : s1.starttime = s.now) (_h3 : s1.interval = i) (h4 : s1.runAtStart = true) : passed s1 = 1 := by
  simp [passed, h1, h2, ras01, h4]

theorem gstep_inv (g : G) (op : Op) (h : GInv g) (hok : OpOk g.s op) : GInv (gstep g op) := by
  obtain ⟨hinv, hbeg, hfire, hsum⟩ := h
  have hinv' := step_inv g.s op hinv hok
  rcases step_kind g.s op hinv hok with q | ⟨s1, c⟩
  · refine ⟨hinv', ?_, ?_, ?_⟩
    · intro hd
      have := q.dmono hd
      simp only [gstep]
      cases hfr : fresh g.s op <;> simp_all
    · simp only [gstep, q.fired]
      cases hfr : fresh g.s op <;> cases hd : g.s.deferred <;> cases hd' : (step g.s op).1.deferred <;>
        cases hb : g.begun <;> simp_all
      have := q.dmono; simp_all
    · intro hw hres
      simp only [gstep] at hw hres ⊢
      rw [q.wc] at hw
      cases hfr : fresh g.s op
      · simp only [hfr, Bool.false_eq_true, if_false, Bool.or_eq_false_iff] at hres
        obtain ⟨hg, hro⟩ := hres
        obtain ⟨e1, e2, e3⟩ := q.grid hfr hro
        obtain ⟨hs1, hs2⟩ := hsum hw hg
        have hr := q.rlt; rw [hfr] at hr; simp only [Bool.false_eq_true, if_false] at hr
        simp only [Bool.false_eq_true, if_false, q.counts, passed, ras01, hr, e1, e2, e3]
        refine ⟨?_, hs2⟩
        rw [hs1]; simp [passed, ras01]
      · have hr := q.rlt; rw [hfr] at hr; simp only [if_true] at hr
        simp [q.counts, passed, hr]
  · have hf := callOp_frame s1 c.pre
    obtain ⟨f1, f2, f3, f4, f5, f6, f7⟩ := hf
    have hev := evCall_facts s1
    have hst : (gstep g op).s = (callOp s1).1 := by simp only [gstep]; rw [c.eq]
    refine ⟨hinv', ?_, ?_, ?_⟩
    · intro _
      rcases c.why with ⟨a, t, rfl, _, hc, _, rfl⟩ | ⟨i, rfl, hr, hi, rfl⟩
      · have := (hinv.icall t hc).1
        have hd : g.s.deferred = true := by rw [hinv.idef, this]; rfl
        simp [gstep, hbeg hd]
      · simp [gstep, fresh, hr, hi]
    · rcases c.why with ⟨a, t, rfl, _, hc, _, rfl⟩ | ⟨i, rfl, hr, hi, rfl⟩
      · have := (hinv.icall t hc).1
        have hd : g.s.deferred = true := by rw [hinv.idef, this]; rfl
        have hb := hbeg hd
        simp only [gstep, fresh, Bool.false_eq_true, if_false, Bool.or_false, hb, hfire, hd]
        rw [c.eq]
        rcases f7 with ⟨e, d⟩ | ⟨b, e, d⟩ <;> rw [e, d]
        · rw [(firedOf_evCall _).1]; simp
        · rw [(firedOf_evCall _).2]; simp
      · simp only [gstep, fresh, hr, hi]
        rw [c.eq]
        rcases f7 with ⟨e, d⟩ | ⟨b, e, d⟩ <;> rw [e, d]
        · rw [(firedOf_evCall _).1]; simp
        · rw [(firedOf_evCall _).2]; simp
    · intro hw hres
      rw [hst, f2] at hw
      simp only [gstep] at hres ⊢
      rw [c.eq]
      have hcnt : countsOf (callOp s1).2 = countOf s1 := by
        rcases f7 with ⟨e, _⟩ | ⟨b, e, _⟩ <;> rw [e]
        · rw [hev.2.2.2.1, if_pos hw]
        · rw [hev.2.2.2.2 b, if_pos hw]
      rw [hcnt]
      have hrl : (callOp s1).1.realLastTime = some s1.now := by rw [f6, if_pos hw]
      rcases c.why with ⟨a, t, rfl, ha, hc, hdue, rfl⟩ | ⟨i, rfl, hr, hi, rfl⟩
      · simp only [fresh, resetOk, Bool.false_eq_true, if_false, Bool.or_false] at hres ⊢
        obtain ⟨hs1, hs2⟩ := hsum hw hres
        have hce := countOf_eq (tick g.s a) c.pre.pos c.pre.st hs2
        have hp : passed (tick g.s a) = passed g.s := rfl
        refine ⟨?_, ?_⟩
        · rw [hce, hp, hs1]
          simp only [passed, hrl, f3, f4, ras01, f5, boundariesElapsed]
          omega
        · intro l hl; rw [hrl] at hl; injection hl with hl; subst hl
          rw [f4]; exact c.pre.st
      · simp only [fresh, hr, hi, Bool.not_false, decide_true, Bool.and_self, if_true]
        rw [countOf_started g.s i hi]
        refine ⟨?_, ?_⟩
        · rw [passed_started_call (callOp (started g.s i true)).1 i g.s hrl f4 f3 f5]; omega
        · intro l hl; rw [hrl] at hl; injection hl with hl; subst hl
          rw [f4]; exact Int.le_refl _

theorem ginit_inv (wc : Bool) (script : List Beh) : GInv (ginit wc script) := by
  refine ⟨init_inv wc script, ?_, ?_, ?_⟩ <;> simp [ginit, init, passed]

theorem grun_inv (g : G) (ops : List Op) (h : GInv g) (hok : HistOk g.s ops) : GInv (grun g ops) := by
  induction ops generalizing g with
  | nil => exact h
  | cons op ops ih =>
    obtain ⟨h1, h2⟩ := hok
    exact ih _ (gstep_inv g op h h1) h2

/-! ## the property -/

/-- the state after a history run on a fresh `LoopingCall` (`withCount` or plain) with the given script -/
def after (wc : Bool) (script : List Beh) (ops : List Op) : St := (run (init wc script) ops).1

/-- the observer's tallies after the same history -/
def tally (wc : Bool) (script : List Beh) (ops : List Op) : G := grun (ginit wc script) ops

theorem tally_s (wc : Bool) (script : List Beh) (ops : List Op) :
    (tally wc script ops).s = after wc script ops := grun_s _ _

theorem after_inv (wc : Bool) (script : List Beh) (ops : List Op) (h : HistOk (init wc script) ops) :
    Inv (after wc script ops) := run_inv _ _ (init_inv wc script) h

theorem tally_inv (wc : Bool) (script : List Beh) (ops : List Op) (h : HistOk (init wc script) ops) :
    GInv (tally wc script ops) := grun_inv _ _ (ginit_inv wc script) h

/-- **No overlap.**  After any well-formed history, while the Deferred returned by the previous
    invocation is unfired, no operation enters the function (nor `counter`). -/
theorem no_overlap (wc : Bool) (script : List Beh) (ops : List Op) (op : Op)
    (h : HistOk (init wc script) ops) (hop : OpOk (after wc script ops) op)
    (hfl : (after wc script ops).inflight = true) :
    ∀ e ∈ (step (after wc script ops) op).2, isCall e = false := by
  rcases step_kind _ op (after_inv wc script ops h) hop with q | ⟨s1, c⟩
  · exact q.nocall
  · have := c.nfl; rw [hfl] at this; cases this

/-- … and no operation enters it twice. -/
theorem at_most_one_call_per_op (wc : Bool) (script : List Beh) (ops : List Op) (op : Op)
    (h : HistOk (init wc script) ops) (hop : OpOk (after wc script ops) op) :
    callsOf (step (after wc script ops) op).2 ≤ 1 := by
  rcases step_kind _ op (after_inv wc script ops h) hop with q | ⟨s1, c⟩
  · have : (step (after wc script ops) op).2.filter isCall = [] :=
      List.filter_eq_nil_iff.2 (fun e he => by simp [q.nocall e he])
    simp [callsOf, this]
  · rw [c.eq]
    rcases (callOp_frame s1 c.pre).2.2.2.2.2.2 with ⟨e, _⟩ | ⟨b, e, _⟩ <;> rw [e]
    · rw [(callsOf_evCall s1).1]; omega
    · rw [(callsOf_evCall s1).2]; omega

/-- **Cadence (no drift).**  Whenever the loop is running and no invocation is in flight — in
    particular at the moment an invocation completed, `start(now=False)` returned or `reset()`
    rescheduled — the next call is pending at `t = starttime + k*interval`, the FIRST boundary strictly
    after the current clock time (hence strictly after that completion), however late or far the
    clock had jumped. -/
theorem next_call_on_first_boundary_after_completion (wc : Bool) (script : List Beh) (ops : List Op)
    (h : HistOk (init wc script) ops)
    (hr : (after wc script ops).running = true) (hf : (after wc script ops).inflight = false) :
    ∃ t, (after wc script ops).call = some t ∧
      t = (after wc script ops).starttime +
            (((after wc script ops).now - (after wc script ops).starttime) / (after wc script ops).interval + 1) *
              (after wc script ops).interval ∧
      (after wc script ops).now < t ∧ t - (after wc script ops).interval ≤ (after wc script ops).now ∧
      ∀ k : Int, (after wc script ops).now < (after wc script ops).starttime + k * (after wc script ops).interval →
        t ≤ (after wc script ops).starttime + k * (after wc script ops).interval := by
  have hinv := after_inv wc script ops h
  generalize after wc script ops = s at *
  have hd : s.deferred = true := by rw [hinv.idef, hr]; rfl
  have hI := hinv.ipos hd
  have hs := hinv.irun hr hf
  cases hc : s.call with
  | none => simp [hc] at hs
  | some t =>
    obtain ⟨_, _, he⟩ := hinv.icall t hc
    refine ⟨t, rfl, he, ?_, ?_, ?_⟩
    · rw [he]; exact nextBoundary_gt _ _ _ hI
    · rw [he]; exact nextBoundary_sub_le _ _ _ hI
    · intro k hk; rw [he]; exact nextBoundary_first _ _ _ k hI hk

/-- The pending call stays where it is until the clock reaches it: advances that fall short of it
    and firing attempts leave it untouched (only `stop`/`reset` remove or move it). -/
theorem pending_call_persists (wc : Bool) (script : List Beh) (ops : List Op) (op : Op) (t : Int)
    (h : HistOk (init wc script) ops) (hc : (after wc script ops).call = some t)
    (hop : (∃ a, op = .advance a ∧ (after wc script ops).now + a < t) ∨ op = .fire ∨ op = .fail) :
    (step (after wc script ops) op).1.call = some t := by
  have hinv := after_inv wc script ops h
  generalize after wc script ops = s at *
  have hfl := (hinv.icall t hc).2.1
  rcases hop with ⟨a, rfl, ha⟩ | rfl | rfl
  · simp only [step]
    rw [advance_idle s a (by intro t' ht'; rw [hc] at ht'; injection ht' with e; omega)]
    exact hc
  · simp [step, fire, hfl, hc]
  · simp [step, fail, hfl, hc]

/-- The function is entered ONLY by the advance that reaches the pending boundary, or by an
    effective `start(now=True)`; the event carries the clock time of that operation. -/
theorem calls_only_when_due (wc : Bool) (script : List Beh) (ops : List Op) (op : Op)
    (h : HistOk (init wc script) ops) (hop : OpOk (after wc script ops) op) :
    ∀ e ∈ (step (after wc script ops) op).2, isCall e = true →
      (∃ a t, op = .advance a ∧ (after wc script ops).call = some t ∧ t ≤ (after wc script ops).now + a ∧
          e = evCall (tick (after wc script ops) a)) ∨
      (∃ i, op = .start i true ∧ (after wc script ops).running = false ∧ 0 < i ∧
          e = evCall (started (after wc script ops) i true)) := by
  intro e he hcall
  rcases step_kind _ op (after_inv wc script ops h) hop with q | ⟨s1, c⟩
  · rw [q.nocall e he] at hcall; cases hcall
  · rw [c.eq] at he
    have hev : e = evCall s1 := by
      rcases (callOp_frame s1 c.pre).2.2.2.2.2.2 with ⟨e', _⟩ | ⟨b, e', _⟩ <;> rw [e'] at he
      · simpa using he
      · rcases List.mem_cons.1 he with r | r
        · exact r
        · simp at r; subst r; simp [isCall] at hcall
    rcases c.why with ⟨a, t, rfl, _, hc, hdue, rfl⟩ | ⟨i, rfl, hr, hi, rfl⟩
    · exact Or.inl ⟨a, t, rfl, hc, hdue, hev⟩
    · exact Or.inr ⟨i, rfl, hr, hi, hev⟩

/-- The advance that reaches the pending boundary does call the function, at the clock time it
    lands on (`now + a ≥ t`: the first advance to reach `t`, since `now < t` before it). -/
theorem due_call_happens (wc : Bool) (script : List Beh) (ops : List Op) (a t : Int)
    (h : HistOk (init wc script) ops) (ha : 0 ≤ a) (hc : (after wc script ops).call = some t)
    (hdue : t ≤ (after wc script ops).now + a) :
    ∃ c, Ev.call ((after wc script ops).now + a) c ∈ (step (after wc script ops) (.advance a)).2 := by
  have hinv := after_inv wc script ops h
  generalize after wc script ops = s at *
  have hp := pre_of_due s a t hinv ha hc hdue
  simp only [step]
  rw [advance_due s a t hinv ha hc hdue]
  rcases (callOp_frame _ hp).2.2.2.2.2.2 with ⟨e, _⟩ | ⟨b, e, _⟩ <;> rw [e] <;>
    exact ⟨_, List.mem_cons_self⟩

/-- `start(interval, now=True)` on a stopped loop calls the function at once. -/
theorem immediate_call_happens (wc : Bool) (script : List Beh) (ops : List Op) (i : Int)
    (_h : HistOk (init wc script) ops) (hi : 0 < i) (hr : (after wc script ops).running = false)
    (hf : (after wc script ops).inflight = false) :
    ∃ c, Ev.call (after wc script ops).now c ∈ (step (after wc script ops) (.start i true)).2 := by
  generalize after wc script ops = s at *
  have hp := pre_started s i hi hf
  simp only [step]
  rw [start_eq s i true hr hi]
  simp only [if_true]
  rcases (callOp_frame _ hp).2.2.2.2.2.2 with ⟨e, _⟩ | ⟨b, e, _⟩ <;> rw [e] <;>
    exact ⟨_, List.mem_cons_self⟩

/-- **withCount never swallows a call**: `counter` always finds `count > 0`, so the user function
    is invoked at every call, and every count handed out is at least 1. -/
theorem withCount_never_skips (wc : Bool) (script : List Beh) (ops : List Op) (op : Op)
    (h : HistOk (init wc script) ops) (hop : OpOk (after wc script ops) op) :
    ∀ e ∈ (step (after wc script ops) op).2,
      isSkip e = false ∧ ∀ T c, e = Ev.call T (some c) → 1 ≤ c := by
  intro e he
  rcases step_kind _ op (after_inv wc script ops h) hop with q | ⟨s1, c⟩
  · have := q.nocall e he
    cases e <;> simp_all [isCall, isSkip]
  · rw [c.eq] at he
    have hev : e = evCall s1 ∨ ∃ b, e = .fired b := by
      rcases (callOp_frame s1 c.pre).2.2.2.2.2.2 with ⟨e', _⟩ | ⟨b, e', _⟩ <;> rw [e'] at he
      · left; simpa using he
      · rcases List.mem_cons.1 he with r | r
        · exact Or.inl r
        · right; exact ⟨b, by simpa using r⟩
    rcases hev with rfl | ⟨b, rfl⟩
    · refine ⟨(evCall_facts s1).2.1, ?_⟩
      intro T c' hc'
      unfold evCall at hc'
      by_cases hw : s1.withCount = true
      · rw [if_pos hw] at hc'
        injection hc' with _ h2; injection h2 with h2
        have := c.pre.cnt hw; omega
      · rw [if_neg hw] at hc'; injection hc' with _ h2; cases h2
    · simp [isSkip]

/-- **withCount sum.**  Within a run (since the latest effective `start()`, no `reset()`), when the
    function is called at clock time `T`, the counts passed so far in this run add up to the number
    of grid boundaries `starttime + k*interval ≤ T` (`k ≥ 0` if the run began with an immediate call,
    else `k ≥ 1`). -/
theorem withCount_sum_eq_boundaries_elapsed (wc : Bool) (script : List Beh) (ops : List Op) (op : Op)
    (T c : Int) (h : HistOk (init wc script) ops) (hop : OpOk (after wc script ops) op)
    (hev : Ev.call T (some c) ∈ (step (after wc script ops) op).2)
    (hres : (gstep (tally wc script ops) op).resets = false) :
    (gstep (tally wc script ops) op).sum =
      (T - (step (after wc script ops) op).1.starttime) / (step (after wc script ops) op).1.interval +
        (if (step (after wc script ops) op).1.runAtStart then 1 else 0) := by
  have hg := tally_inv wc script ops h
  have hts := tally_s wc script ops
  rw [← hts] at hop hev ⊢
  generalize tally wc script ops = g at *
  have hg' := gstep_inv g op hg hop
  rcases step_kind _ op hg.inv hop with q | ⟨s1, cc⟩
  · have := q.nocall _ hev; simp [isCall] at this
  · have hf := callOp_frame s1 cc.pre
    obtain ⟨f1, f2, f3, f4, f5, f6, f7⟩ := hf
    rw [cc.eq] at hev
    have he : Ev.call T (some c) = evCall s1 := by
      rcases f7 with ⟨e', _⟩ | ⟨b, e', _⟩ <;> rw [e'] at hev
      · simpa using hev
      · rcases List.mem_cons.1 hev with r | r
        · exact r
        · simp at r
    unfold evCall at he
    by_cases hw : s1.withCount = true
    · rw [if_pos hw] at he
      injection he with hT _
      have hs : (gstep g op).s = (callOp s1).1 := by simp only [gstep]; rw [cc.eq]
      have hw' : (gstep g op).s.withCount = true := by rw [hs, f2]; exact hw
      obtain ⟨e1, _⟩ := hg'.sum hw' hres
      rw [e1]
      have hrl : (callOp s1).1.realLastTime = some s1.now := by rw [f6, if_pos hw]
      rw [cc.eq]
      simp only [passed, hs, hrl, ras01, hT]
    · rw [if_neg hw] at he; injection he with _ h2; cases h2

/-- **start()'s Deferred fires exactly once.**  It is unfired exactly while the loop is running or
    an invocation is in flight; once the run is over (stopped or failed, last Deferred settled) it
    has fired exactly once — never twice, never zero times. -/
theorem start_deferred_fires_once (wc : Bool) (script : List Beh) (ops : List Op)
    (h : HistOk (init wc script) ops) :
    (tally wc script ops).fires ≤ 1 ∧
    ((after wc script ops).running = true ∨ (after wc script ops).inflight = true →
        (tally wc script ops).fires = 0) ∧
    ((tally wc script ops).begun = true → (after wc script ops).running = false →
        (after wc script ops).inflight = false → (tally wc script ops).fires = 1) := by
  have hg := tally_inv wc script ops h
  have hts := tally_s wc script ops
  rw [← hts]
  generalize tally wc script ops = g at *
  have hf := hg.fire
  have hd := hg.inv.idef
  refine ⟨?_, ?_, ?_⟩
  · rw [hf]; split <;> omega
  · intro hro
    have : g.s.deferred = true := by rw [hd]; rcases hro with r | r <;> simp [r]
    rw [hf, this]; simp
  · intro hb hr hi
    have : g.s.deferred = false := by rw [hd, hr, hi]; rfl
    rw [hf, hb, this]; simp

/-- **Nothing happens after the end.**  Once start()'s Deferred has fired (or before any start),
    no operation other than an effective `start()` calls the function or fires a Deferred. -/
theorem no_call_after_stop_or_failure (wc : Bool) (script : List Beh) (ops : List Op) (op : Op)
    (h : HistOk (init wc script) ops) (hop : OpOk (after wc script ops) op)
    (hdone : (after wc script ops).running = false) (hfl : (after wc script ops).inflight = false)
    (hns : fresh (after wc script ops) op = false) :
    ∀ e ∈ (step (after wc script ops) op).2, isCall e = false ∧ isFired e = false := by
  have hinv := after_inv wc script ops h
  generalize after wc script ops = s at *
  have hd : s.deferred = false := by rw [hinv.idef, hdone, hfl]; rfl
  rcases step_kind _ op hinv hop with q | ⟨s1, c⟩
  · intro e he
    refine ⟨q.nocall e he, ?_⟩
    have hfz := q.fired
    rw [hns, hd] at hfz
    simp only [Bool.or_false, Bool.false_and, Bool.false_eq_true, if_false] at hfz
    have : (step s op).2.filter isFired = [] := List.length_eq_zero_iff.1 hfz
    have := List.filter_eq_nil_iff.1 this e he
    simpa using this
  · rcases c.why with ⟨a, t, rfl, _, hc, _, rfl⟩ | ⟨i, rfl, hr, hi, rfl⟩
    · have := (hinv.icall t hc).1; rw [hdone] at this; cases this
    · simp [fresh, hr, hi] at hns

/-- **stop() ends the run.**  With a call pending, `stop()` cancels it and fires start()'s Deferred
    at once; with an invocation in flight it only clears `running`, and the Deferred fires when that
    invocation's Deferred settles (callback or errback). -/
theorem stop_fires_deferred (wc : Bool) (script : List Beh) (ops : List Op)
    (h : HistOk (init wc script) ops) (hr : (after wc script ops).running = true) :
    ((after wc script ops).inflight = false →
      (step (after wc script ops) .stop).2 = [.fired true] ∧
      (step (after wc script ops) .stop).1.call = none ∧
      (step (after wc script ops) .stop).1.running = false) ∧
    ((after wc script ops).inflight = true →
      (step (after wc script ops) .stop).2 = [] ∧
      (step (step (after wc script ops) .stop).1 .fire).2 = [.fired true] ∧
      (step (step (after wc script ops) .stop).1 .fail).2 = [.fired false]) := by
  have hinv := after_inv wc script ops h
  generalize after wc script ops = s at *
  have hd : s.deferred = true := by rw [hinv.idef, hr]; rfl
  constructor
  · intro hf
    have := hinv.irun hr hf
    cases hc : s.call with
    | none => simp [hc] at this
    | some t => simp [step, stop, hr, hc]
  · intro hf
    have hc : s.call = none := by
      cases hc : s.call with
      | none => rfl
      | some t => have := (hinv.icall t hc).2.1; rw [hf] at this; cases this
    simp [step, stop, hr, hc, fire, fail, hf, cb, eb, hd]

/-- **A failure ends the run.**  An errback of the in-flight Deferred fires start()'s Deferred with
    the failure and clears `running`; no call is left pending. -/
theorem failure_fires_deferred (wc : Bool) (script : List Beh) (ops : List Op)
    (h : HistOk (init wc script) ops) (hf : (after wc script ops).inflight = true) :
    (step (after wc script ops) .fail).2 = [.fired false] ∧
    (step (after wc script ops) .fail).1.running = false ∧
    (step (after wc script ops) .fail).1.call = none ∧
    (step (after wc script ops) .fail).1.inflight = false := by
  have hinv := after_inv wc script ops h
  generalize after wc script ops = s at *
  have hd : s.deferred = true := by rw [hinv.idef, hf]; simp
  have hc : s.call = none := by
    cases hc : s.call with
    | none => rfl
    | some t => have := (hinv.icall t hc).2.1; rw [hf] at this; cases this
  simp [step, fail, hf, eb, hd, hc]

/-- **Headline.**  For every script of the looped function, every well-formed history and every next
    operation: no overlap, at most one call per operation, the pending call sits on the first boundary
    strictly after the current time, withCount never swallows a call, and start()'s Deferred has fired
    at most once — exactly once when the run is over. -/
theorem looping_call_cadence (wc : Bool) (script : List Beh) (ops : List Op) (op : Op)
    (h : HistOk (init wc script) ops) (hop : OpOk (after wc script ops) op) :
    ((after wc script ops).inflight = true → ∀ e ∈ (step (after wc script ops) op).2, isCall e = false) ∧
    callsOf (step (after wc script ops) op).2 ≤ 1 ∧
    (∀ t, (after wc script ops).call = some t →
        t = nextBoundary (after wc script ops).starttime (after wc script ops).interval (after wc script ops).now ∧
        (after wc script ops).now < t) ∧
    ((after wc script ops).running = true → (after wc script ops).inflight = false →
        (after wc script ops).call.isSome = true) ∧
    (∀ e ∈ (step (after wc script ops) op).2, isSkip e = false) ∧
    (tally wc script ops).fires = (if (tally wc script ops).begun && !((after wc script ops).running || (after wc script ops).inflight) then 1 else 0) := by
  have hinv := after_inv wc script ops h
  refine ⟨no_overlap wc script ops op h hop, at_most_one_call_per_op wc script ops op h hop, ?_, hinv.irun,
    fun e he => (withCount_never_skips wc script ops op h hop e he).1, ?_⟩
  · intro t ht
    exact ⟨(hinv.icall t ht).2.2, hinv.call_gt ht⟩
  · have hg := tally_inv wc script ops h
    have := hg.fire
    rw [tally_s, hinv.idef] at this
    exact this

/-! ## non-vacuity: concrete histories -/

/-- interval 4, immediate call; sub-interval steps; the second call returns a Deferred that stays
    unfired over two boundaries (8, 12) and fires at 13; the third call comes at 16 with count 3. -/
def exOps : List Op := [.start 4 true, .advance 3, .advance 1, .advance 9, .fire, .advance 3]
def exScript : List Beh := [.ret, .defer, .ret]

example : HistOk (init true exScript) exOps := by decide
example : (run (init true exScript) exOps).2 =
    [[.call 0 (some 1)], [], [.call 4 (some 1)], [], [], [.call 16 (some 3)]] := by decide
-- no_overlap: in flight after the second call, the 9-tick jump over two boundaries calls nothing
example : (after true exScript (exOps.take 3)).inflight = true ∧
    (step (after true exScript (exOps.take 3)) (.advance 9)).2 = [] := by decide
-- cadence: completion at 13 schedules 16 = 0 + (13/4 + 1)*4, not 13 + 4
example : (after true exScript (exOps.take 5)).call = some 16 ∧ (after true exScript (exOps.take 5)).now = 13 := by decide
-- pending_call_persists / calls_only_when_due / due_call_happens
example : (step (after true exScript (exOps.take 5)) (.advance 2)).1.call = some 16 ∧
    (step (after true exScript (exOps.take 5)) (.advance 2)).2 = [] ∧
    (step (after true exScript (exOps.take 5)) (.advance 40)).2 = [.call 53 (some 12)] := by decide
-- withCount sum: counts 1 + 1 + 3 = 5 = 16/4 + 1 boundaries (0, 4, 8, 12, 16)
example : (tally true exScript exOps).sum = 5 ∧ (tally true exScript exOps).resets = false ∧
    (16 - (after true exScript exOps).starttime) / (after true exScript exOps).interval + 1 = 5 := by decide
-- start Deferred: stop with a call pending fires it once; a later advance calls nothing
example : (tally true exScript (exOps ++ [.stop, .advance 100])).fires = 1 ∧
    (run (init true exScript) (exOps ++ [.stop, .advance 100])).2.drop 6 = [[.fired true], []] := by decide
-- failure: the function raises on the second call; stop in flight; restart afterwards counts afresh
example : (run (init true [.ret, .raise]) [.start 2 false, .advance 2, .advance 5, .advance 9, .start 2 true]).2 =
    [[], [.call 2 (some 1)], [.call 7 (some 2), .fired false], [], [.call 16 (some 1)]] := by decide
example : HistOk (init false [.defer]) [.start 2 true, .stop, .advance 5, .fire, .advance 5] ∧
    (run (init false [.defer]) [.start 2 true, .stop, .advance 5, .fire, .advance 5]).2 =
      [[.call 0 none], [], [], [.fired true], []] := by decide
example : (step (after false [.defer] [.start 2 true, .advance 5]) .fail).2 = [.fired false] := by decide

/-- The unrepaired `start()` (which left `_realLastTime` alone) for comparison: restarting a
    withCount loop within one interval of its last call computed `count = 0` and swallowed the
    immediate call — the witness the check found on the original tree. -/
def startUnrepaired (s : St) (interval : Int) (now : Bool) : St × List Ev :=
  if s.running then (s, [.assertion]) else
  if interval < 0 then (s, [.valueError]) else
  let s := { s with running := true, deferred := true, starttime := s.now,
                    interval := interval, runAtStart := now }
  if now then callOp s else (scheduleFrom s s.starttime, [])

theorem unrepaired_restart_counterexample :
    (startUnrepaired (after true [] [.start 1 true, .stop]) 1 true).2 = [.skip 0] ∧
    (step (after true [] [.start 1 true, .stop]) (.start 1 true)).2 = [.call 0 (some 1)] := by decide

end TwistedProps.C10
